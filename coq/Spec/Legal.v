(* SPECIFICATION: the documented operand set of every mnemonic (ISA manual + instruction reference):
   interval, scale, register class, non-zero, shamt < 32, CSR 0..4095.  Operands are the normalised lists of
   Spec/Operands.v (register numbers, applied immediates). *)
From Coq Require Import ZArith List Bool String.
From BB Require Import Base.Bits Base.PyBase Spec.RV32 Spec.RVC Spec.Operands.
Import ListNotations.
Open Scope Z_scope.

Definition between (lo hi z : Z) : bool := (lo <=? z) && (z <=? hi).
Definition isreg (z : Z) : bool := between 0 31 z.
Definition iscreg (z : Z) : bool := between 8 15 z.
Definition mult (k z : Z) : bool := z mod k =? 0.
Definition nz (z : Z) : bool := negb (z =? 0).

Definition legal32 (name : string) (ops : list Z) : bool :=
  let r3 := match ops with [a; b; c] => isreg a && isreg b && isreg c | _ => false end in
  let ri (p : Z -> bool) := match ops with [a; b; c] => isreg a && isreg b && p c | _ => false end in
  let r1i (p : Z -> bool) := match ops with [a; c] => isreg a && p c | _ => false end in
  let amo := match ops with [a; b; c; q; l] => isreg a && isreg b && isreg c && between 0 1 q && between 0 1 l | _ => false end in
  if mem_str name ["add";"sub";"sll";"slt";"sltu";"xor";"srl";"sra";"or";"and";"mul";"mulh";"mulhsu";"mulhu";
                   "div";"divu";"rem";"remu"]%string then r3
  else if mem_str name ["slli";"srli";"srai"]%string then ri (between 0 31)
  else if mem_str name ["lb";"lh";"lw";"lbu";"lhu";"addi";"slti";"sltiu";"xori";"ori";"andi";"sb";"sh";"sw"]%string
       then ri (between (-2048) 2047)
  else if mem_str name ["jalr"]%string then ri (fun z => between (-2048) 2047 z && mult 2 z)
  else if mem_str name ["beq";"bne";"blt";"bge";"bltu";"bgeu"]%string then ri (fun z => between (-4096) 4095 z && mult 2 z)
  else if mem_str name ["lui";"auipc"]%string then r1i (between (-524288) 524287)
  else if mem_str name ["jal"]%string then r1i (fun z => between (-1048576) 1048575 z && mult 2 z)
  else if mem_str name ["fence"]%string then match ops with [s; p] => between 0 15 s && between 0 15 p | _ => false end
  else if mem_str name ["ecall";"ebreak";"fence.i"]%string then match ops with [] => true | _ => false end
  else if mem_str name ["csrrw";"csrrs";"csrrc";"csrrwi";"csrrsi";"csrrci"]%string then ri (between 0 4095)
  else if mem_str name ["lr.w"]%string
       then match ops with [a; b; q; l] => isreg a && isreg b && between 0 1 q && between 0 1 l | _ => false end
  else if mem_str name ["sc.w";"amoswap.w";"amoadd.w";"amoxor.w";"amoand.w";"amoor.w";"amomin.w";"amomax.w";
                        "amominu.w";"amomaxu.w"]%string then amo
  else false.

(* RV32C: legal = names a legal, non-hint, non-reserved instruction (chapter 16 operand restrictions) *)
Definition legal16 (name : string) (ops : list Z) : bool :=
  let s := String.eqb name in
  match ops with
  | [] => s "c.nop"%string || s "c.ebreak"%string
  | [a] =>
      if s "c.jal"%string || s "c.j"%string then between (-2048) 2047 a && mult 2 a
      else if s "c.addi16sp"%string then between (-512) 511 a && mult 16 a && nz a
      else if s "c.jr"%string || s "c.jalr"%string then between 1 31 a
      else false
  | [a; b] =>
      if s "c.addi4spn"%string then iscreg a && between 0 1023 b && mult 4 b && nz b
      else if s "c.addi"%string then between 1 31 a && between (-32) 31 b && nz b
      else if s "c.li"%string then between 1 31 a && between (-32) 31 b
      else if s "c.lui"%string then between 1 31 a && negb (a =? 2) && between (-32) 31 b && nz b
      else if s "c.srli"%string || s "c.srai"%string then iscreg a && between 1 31 b
      else if s "c.andi"%string then iscreg a && between (-32) 31 b
      else if s "c.sub"%string || s "c.xor"%string || s "c.or"%string || s "c.and"%string then iscreg a && iscreg b
      else if s "c.beqz"%string || s "c.bnez"%string then iscreg a && between (-256) 255 b && mult 2 b
      else if s "c.slli"%string then between 1 31 a && between 1 31 b
      else if s "c.lwsp"%string then between 1 31 a && between 0 255 b && mult 4 b
      else if s "c.mv"%string || s "c.add"%string then between 1 31 a && between 1 31 b
      else if s "c.swsp"%string then isreg a && between 0 255 b && mult 4 b
      else false
  | [a; b; c] =>
      if s "c.lw"%string || s "c.sw"%string then iscreg a && iscreg b && between 0 127 c && mult 4 c
      else false
  | _ => false
  end.
