(* SPECIFICATION: RV32C integer instructions, written from chapter 16 ("C" extension, v2.0) of the RISC-V
   unprivileged ISA manual: tables 16.5-16.7 (instruction listings) and the operand restrictions in the text.
   decode16 returns None for: the illegal all-zero halfword, reserved encodings, HINTs, NSE (shamt[5]=1 on RV32),
   floating-point loads/stores and RV64/128-only encodings. *)
From Coq Require Import ZArith List Bool String.
From BB Require Import Base.Bits Spec.RV32.
Import ListNotations.
Open Scope Z_scope.

Inductive cinstr :=
| CAddi4spn (rd nzuimm : Z)
| CLw (rd rs1 uimm : Z)
| CSw (rs1 rs2 uimm : Z)
| CNop
| CAddi (rd nzimm : Z)
| CJal (off : Z)
| CLi (rd imm : Z)
| CAddi16sp (nzimm : Z)
| CLui (rd nzimm : Z)          (* nzimm: signed 6-bit value that lands in bits 17:12 *)
| CSrli (rd shamt : Z)
| CSrai (rd shamt : Z)
| CAndi (rd imm : Z)
| CSub (rd rs2 : Z)
| CXor (rd rs2 : Z)
| COr (rd rs2 : Z)
| CAnd (rd rs2 : Z)
| CJ (off : Z)
| CBeqz (rs1 off : Z)
| CBnez (rs1 off : Z)
| CSlli (rd shamt : Z)
| CLwsp (rd uimm : Z)
| CJr (rs1 : Z)
| CMv (rd rs2 : Z)
| CEbreak
| CJalr (rs1 : Z)
| CAdd (rd rs2 : Z)
| CSwsp (rs2 uimm : Z).

(* immediates as table 16.x draws them *)
Definition c_imm6 (h : Z) : Z := sext (bits h 12 1 * 32 + bits h 2 5) 6.
Definition c_uimm6 (h : Z) : Z := bits h 12 1 * 32 + bits h 2 5.
Definition c_addi4spn_imm (h : Z) : Z :=                     (* nzuimm[5:4|9:6|2|3] at 12:11|10:7|6|5 *)
  bits h 7 4 * 64 + bits h 11 2 * 16 + bits h 5 1 * 8 + bits h 6 1 * 4.
Definition c_lw_imm (h : Z) : Z :=                           (* uimm[5:3] at 12:10, uimm[2|6] at 6|5 *)
  bits h 5 1 * 64 + bits h 10 3 * 8 + bits h 6 1 * 4.
Definition c_j_imm (h : Z) : Z :=                            (* imm[11|4|9:8|10|6|7|3:1|5] at 12:2 *)
  sext (bits h 12 1 * 2048 + bits h 8 1 * 1024 + bits h 9 2 * 256 + bits h 6 1 * 128 + bits h 7 1 * 64
        + bits h 2 1 * 32 + bits h 11 1 * 16 + bits h 3 3 * 2) 12.
Definition c_addi16sp_imm (h : Z) : Z :=                     (* nzimm[9] at 12, nzimm[4|6|8:7|5] at 6:2 *)
  sext (bits h 12 1 * 512 + bits h 3 2 * 128 + bits h 5 1 * 64 + bits h 2 1 * 32 + bits h 6 1 * 16) 10.
Definition c_b_imm (h : Z) : Z :=                            (* off[8|4:3] at 12:10, off[7:6|2:1|5] at 6:2 *)
  sext (bits h 12 1 * 256 + bits h 5 2 * 64 + bits h 2 1 * 32 + bits h 10 2 * 8 + bits h 3 2 * 2) 9.
Definition c_lwsp_imm (h : Z) : Z :=                         (* uimm[5] at 12, uimm[4:2|7:6] at 6:2 *)
  bits h 2 2 * 64 + bits h 12 1 * 32 + bits h 4 3 * 4.
Definition c_swsp_imm (h : Z) : Z :=                         (* uimm[5:2|7:6] at 12:7 *)
  bits h 7 2 * 64 + bits h 9 4 * 4.

Definition decode16 (h : Z) : option cinstr :=
  if negb ((0 <=? h) && (h <? 65536)) then None else
  let q := bits h 0 2 in
  let f3 := bits h 13 3 in
  let rdp := 8 + bits h 2 3 in          (* rd' / rs2' *)
  let rs1p := 8 + bits h 7 3 in         (* rs1' / rd' of the CB, CA formats *)
  let rd := bits h 7 5 in
  let rs2 := bits h 2 5 in
  let b12 := bits h 12 1 in
  if q =? 0 then
    (if f3 =? 0 then (if c_addi4spn_imm h =? 0 then None else Some (CAddi4spn rdp (c_addi4spn_imm h)))
     else if f3 =? 2 then Some (CLw rdp rs1p (c_lw_imm h))
     else if f3 =? 6 then Some (CSw rs1p rdp (c_lw_imm h))
     else None)
  else if q =? 1 then
    (if f3 =? 0 then
       (if rd =? 0 then (if c_imm6 h =? 0 then Some CNop else None)
        else (if c_imm6 h =? 0 then None else Some (CAddi rd (c_imm6 h))))
     else if f3 =? 1 then Some (CJal (c_j_imm h))
     else if f3 =? 2 then (if rd =? 0 then None else Some (CLi rd (c_imm6 h)))
     else if f3 =? 3 then
       (if rd =? 2 then (if c_addi16sp_imm h =? 0 then None else Some (CAddi16sp (c_addi16sp_imm h)))
        else if rd =? 0 then None
        else (if c_imm6 h =? 0 then None else Some (CLui rd (c_imm6 h))))
     else if f3 =? 4 then
       let f2 := bits h 10 2 in
       (if f2 =? 0 then (if (b12 =? 1) || (c_uimm6 h =? 0) then None else Some (CSrli rs1p (c_uimm6 h)))
        else if f2 =? 1 then (if (b12 =? 1) || (c_uimm6 h =? 0) then None else Some (CSrai rs1p (c_uimm6 h)))
        else if f2 =? 2 then Some (CAndi rs1p (c_imm6 h))
        else (if b12 =? 1 then None
              else let g := bits h 5 2 in
                   if g =? 0 then Some (CSub rs1p rdp) else if g =? 1 then Some (CXor rs1p rdp)
                   else if g =? 2 then Some (COr rs1p rdp) else Some (CAnd rs1p rdp)))
     else if f3 =? 5 then Some (CJ (c_j_imm h))
     else if f3 =? 6 then Some (CBeqz rs1p (c_b_imm h))
     else Some (CBnez rs1p (c_b_imm h)))
  else if q =? 2 then
    (if f3 =? 0 then (if (rd =? 0) || (b12 =? 1) || (c_uimm6 h =? 0) then None else Some (CSlli rd (c_uimm6 h)))
     else if f3 =? 2 then (if rd =? 0 then None else Some (CLwsp rd (c_lwsp_imm h)))
     else if f3 =? 4 then
       (if b12 =? 0 then
          (if rs2 =? 0 then (if rd =? 0 then None else Some (CJr rd))
           else (if rd =? 0 then None else Some (CMv rd rs2)))
        else
          (if rs2 =? 0 then (if rd =? 0 then Some CEbreak else Some (CJalr rd))
           else (if rd =? 0 then None else Some (CAdd rd rs2))))
     else if f3 =? 6 then Some (CSwsp rs2 (c_swsp_imm h))
     else None)
  else None.

(* the 32-bit instruction each RVC instruction expands to (tables 16.5-16.7, "expands to" in the text) *)
Definition expand_c (c : cinstr) : instr :=
  match c with
  | CAddi4spn rd i => OpImm ADDI rd 2 i
  | CLw rd rs1 i => Load LW rd rs1 i
  | CSw rs1 rs2 i => Store SW rs1 rs2 i
  | CNop => OpImm ADDI 0 0 0
  | CAddi rd i => OpImm ADDI rd rd i
  | CJal off => Jal 1 off
  | CLi rd i => OpImm ADDI rd 0 i
  | CAddi16sp i => OpImm ADDI 2 2 i
  | CLui rd i => Lui rd i
  | CSrli rd s => ShiftImm SRLI rd rd s
  | CSrai rd s => ShiftImm SRAI rd rd s
  | CAndi rd i => OpImm ANDI rd rd i
  | CSub rd rs2 => Op SUB rd rd rs2
  | CXor rd rs2 => Op XOR rd rd rs2
  | COr rd rs2 => Op OR rd rd rs2
  | CAnd rd rs2 => Op AND rd rd rs2
  | CJ off => Jal 0 off
  | CBeqz rs1 off => Branch BEQ rs1 0 off
  | CBnez rs1 off => Branch BNE rs1 0 off
  | CSlli rd s => ShiftImm SLLI rd rd s
  | CLwsp rd i => Load LW rd 2 i
  | CJr rs1 => Jalr 0 rs1 0
  | CMv rd rs2 => Op ADD rd 0 rs2
  | CEbreak => Ebreak
  | CJalr rs1 => Jalr 1 rs1 0
  | CAdd rd rs2 => Op ADD rd rd rs2
  | CSwsp rs2 i => Store SW 2 rs2 i
  end.

(* canonical mnemonic and operand list, in the operand order of the assembler's instruction reference *)
Definition name_ops16 (c : cinstr) : string * list Z :=
  match c with
  | CAddi4spn rd i => ("c.addi4spn", [rd; i])
  | CLw rd rs1 i => ("c.lw", [rd; rs1; i])
  | CSw rs1 rs2 i => ("c.sw", [rs1; rs2; i])
  | CNop => ("c.nop", [])
  | CAddi rd i => ("c.addi", [rd; i])
  | CJal off => ("c.jal", [off])
  | CLi rd i => ("c.li", [rd; i])
  | CAddi16sp i => ("c.addi16sp", [i])
  | CLui rd i => ("c.lui", [rd; i])
  | CSrli rd s => ("c.srli", [rd; s])
  | CSrai rd s => ("c.srai", [rd; s])
  | CAndi rd i => ("c.andi", [rd; i])
  | CSub rd rs2 => ("c.sub", [rd; rs2])
  | CXor rd rs2 => ("c.xor", [rd; rs2])
  | COr rd rs2 => ("c.or", [rd; rs2])
  | CAnd rd rs2 => ("c.and", [rd; rs2])
  | CJ off => ("c.j", [off])
  | CBeqz rs1 off => ("c.beqz", [rs1; off])
  | CBnez rs1 off => ("c.bnez", [rs1; off])
  | CSlli rd s => ("c.slli", [rd; s])
  | CLwsp rd i => ("c.lwsp", [rd; i])
  | CJr rs1 => ("c.jr", [rs1])
  | CMv rd rs2 => ("c.mv", [rd; rs2])
  | CEbreak => ("c.ebreak", [])
  | CJalr rs1 => ("c.jalr", [rs1])
  | CAdd rd rs2 => ("c.add", [rd; rs2])
  | CSwsp rs2 i => ("c.swsp", [rs2; i])
  end%string.

Definition c1 (f : Z -> cinstr) (ops : list Z) := match ops with [a] => Some (f a) | _ => None end.
Definition c2 (f : Z -> Z -> cinstr) (ops : list Z) := match ops with [a; b] => Some (f a b) | _ => None end.
Definition c3 (f : Z -> Z -> Z -> cinstr) (ops : list Z) := match ops with [a; b; c] => Some (f a b c) | _ => None end.
Definition c0 (i : cinstr) (ops : list Z) := match ops with [] => Some i | _ => None end.
Definition spec16 : list (string * (list Z -> option cinstr)) :=
  [("c.addi4spn", c2 CAddi4spn); ("c.lw", c3 CLw); ("c.sw", c3 CSw); ("c.nop", c0 CNop); ("c.addi", c2 CAddi);
   ("c.jal", c1 CJal); ("c.li", c2 CLi); ("c.addi16sp", c1 CAddi16sp); ("c.lui", c2 CLui);
   ("c.srli", c2 CSrli); ("c.srai", c2 CSrai); ("c.andi", c2 CAndi); ("c.sub", c2 CSub); ("c.xor", c2 CXor);
   ("c.or", c2 COr); ("c.and", c2 CAnd); ("c.j", c1 CJ); ("c.beqz", c2 CBeqz); ("c.bnez", c2 CBnez);
   ("c.slli", c2 CSlli); ("c.lwsp", c2 CLwsp); ("c.jr", c1 CJr); ("c.mv", c2 CMv); ("c.ebreak", c0 CEbreak);
   ("c.jalr", c1 CJalr); ("c.add", c2 CAdd); ("c.swsp", c2 CSwsp)]%string.
Definition denote16 (name : string) (ops : list Z) : option cinstr :=
  match sassoc name spec16 with Some f => f ops | None => None end.
Definition c_mnemonics : list string := map fst spec16.

(* number of legal RV32C integer encodings (cross-check of the table: 28461, see DESIGN.md section 6/C02) *)
Definition legal16_count : Z :=
  fold_left (fun a h => match decode16 h with Some _ => a + 1 | None => a end) all16 0.
