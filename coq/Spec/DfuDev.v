(* Spec.DfuDev -- a DfuSe device (download path) and its protocol monitors.

   Written from: USB DFU 1.1 (request codes table 3.2, DFU_GETSTATUS payload 6.1.2, status / state codes
   p. 21-22, state diagram fig. A.1 and the per-state tables A.2.x), ST UM0424 / AN3156 (DfuSe: commands are
   DFU_DNLOAD with wValue = 0 and first byte 0x21 set-address-pointer / 0x41 erase; data blocks have wValue >= 2 and
   go to Address_Pointer + (wValue - 2) * wTransferSize; every DNLOAD is executed during the following
   DFU_GETSTATUS sequence, during which the device reports dfuDNBUSY together with the bwPollTimeout the host has to
   wait), and the GD32VF103 data sheet (main flash at 0x0800_0000, 1 KiB pages, 16 / 32 / 64 / 128 KiB parts
   GD32VF103x4 / x6 / x8 / xB).

   Nothing here is derived from bronzebeard/dfu.py.  No proofs in this file. *)
From Coq Require Import ZArith List Bool.
Import ListNotations.
Open Scope Z_scope.

(* ---------------------------------------------------------------- wire types *)
Inductive payload := POut (data : list Z) | PIn (len : Z).
Record request := mkReq { r_bm : Z; r_breq : Z; r_wvalue : Z; r_windex : Z; r_pay : payload }.
Inductive resp := RBytes (l : list Z) | RCount (n : Z) | RStall.

(* what the host does that the device can observe *)
Inductive hevent := HReq (r : request) | HSleep (us : Z).

(* ---------------------------------------------------------------- constants of the documents *)
Definition BM_CLASS_IF_OUT : Z := 33.    (* 0x21: host-to-device | class | interface *)
Definition BM_CLASS_IF_IN : Z := 161.    (* 0xA1: device-to-host | class | interface *)
Definition DFU_DNLOAD : Z := 1.
Definition DFU_GETSTATUS : Z := 3.
Definition DFU_CLRSTATUS : Z := 4.
Definition DFU_GETSTATE : Z := 5.

Definition dfuIDLE : Z := 2.
Definition dfuDNLOAD_SYNC : Z := 3.
Definition dfuDNBUSY : Z := 4.
Definition dfuDNLOAD_IDLE : Z := 5.
Definition dfuERROR : Z := 10.

Definition stOK : Z := 0.
Definition errSTALLEDPKT : Z := 15.

Definition CMD_SET_ADDRESS : Z := 33.    (* 0x21 *)
Definition CMD_ERASE : Z := 65.          (* 0x41 *)

Definition FLASH_BASE : Z := 134217728.  (* 0x0800_0000 *)
Definition PAGE : Z := 1024.
Definition XFER : Z := 2048.             (* wTransferSize of the DFU functional descriptor *)

(* GD32VF103 parts: third character of the serial number / ordering code -> flash bytes *)
Definition spec_variants : list (Z * Z) :=
  [ (66, 131072)   (* 'B' : 128 KiB *)
  ; (56, 65536)    (* '8' :  64 KiB *)
  ; (54, 32768)    (* '6' :  32 KiB *)
  ; (52, 16384) ]. (* '4' :  16 KiB *)

(* ---------------------------------------------------------------- device *)
Inductive op := OErase (a : Z) | OMassErase | OSetAddr (a : Z) | OWrite (blk : Z) (data : list Z).

(* schedule entry of one DNLOAD request: the bwPollTimeout (ms) of each dfuDNBUSY answer, the bwPollTimeout of the
   final answer, and the status the operation ends with (0 = OK, anything else = the injected failure) *)
Record sentry := mkEntry { s_busy : list Z; s_fin : Z; s_err : Z }.
Definition default_entry : sentry := mkEntry [] 0 0.

Inductive dstate := Idle | Sync (o : op) (e : sentry) | Busy (o : op) (e : sentry) | DnIdle | Error (st : Z).

Inductive monitor :=
  | MBusy               (* a request other than GETSTATUS while an operation is pending *)
  | MPollDelay          (* a request arrived before the announced bwPollTimeout had been waited for *)
  | MWriteBeforeErase   (* data written to a page that was not erased since the start (or was written already) *)
  | MAddress            (* an address outside the device's flash *)
  | MBadRequest.        (* anything else the download path of the documents does not allow in this state *)

(* the part of the device an operation acts on *)
Record mem := mkMem {
  m_flash : Z -> Z;          (* byte at an absolute address *)
  m_size : Z;                (* bytes of main flash *)
  m_erased : Z -> bool;      (* page index -> erased since the start and not written since *)
  m_ptr : Z;                 (* DfuSe address pointer *)
  m_mons : list monitor;     (* monitors that fired, oldest first *)
  m_nerase : Z; m_nset : Z; m_nwrite : Z    (* completed operations *)
}.

Record dev := mkDev {
  d_mem : mem;
  d_state : dstate;
  d_sched : list sentry;     (* entries for the DNLOAD requests still to come *)
  d_wait : Z;                (* microseconds the last GETSTATUS answer asked the host to wait *)
  d_slept : Z                (* microseconds the host has slept since that answer *)
}.

Definition init_mem (size : Z) (flash0 : Z -> Z) : mem := mkMem flash0 size (fun _ => false) FLASH_BASE [] 0 0 0.
Definition init_dev (size : Z) (flash0 : Z -> Z) (sched : list sentry) (st0 : dstate) : dev :=
  mkDev (init_mem size flash0) st0 sched 0 0.

Definition mem_mon (m : mem) (x : monitor) : mem :=
  mkMem (m_flash m) (m_size m) (m_erased m) (m_ptr m) (m_mons m ++ [x]) (m_nerase m) (m_nset m) (m_nwrite m).

Definition set_state (d : dev) (s : dstate) : dev := mkDev (d_mem d) s (d_sched d) (d_wait d) (d_slept d).
Definition set_mem (d : dev) (m : mem) : dev := mkDev m (d_state d) (d_sched d) (d_wait d) (d_slept d).
Definition add_mon (d : dev) (x : monitor) : dev := set_mem d (mem_mon (d_mem d) x).
Definition set_timing (d : dev) (wait slept : Z) : dev := mkDev (d_mem d) (d_state d) (d_sched d) wait slept.
Definition pop_sched (d : dev) : sentry * dev :=
  match d_sched d with
  | [] => (default_entry, d)
  | e :: rest => (e, mkDev (d_mem d) (d_state d) rest (d_wait d) (d_slept d))
  end.

Definition in_flash (m : mem) (a : Z) : bool := (FLASH_BASE <=? a) && (a <? FLASH_BASE + m_size m).
Definition page_of (a : Z) : Z := (a - FLASH_BASE) / PAGE.

(* pages first .. last *)
Definition page_span (first last : Z) : list Z :=
  map (fun k => first + Z.of_nat k) (seq 0 (Z.to_nat (last - first + 1))).
Definition mem_page (p : Z) (l : list Z) : bool := existsb (Z.eqb p) l.

(* ---------------------------------------------------------------- effect of a completed operation *)
Definition do_erase (m : mem) (a : Z) : mem :=
  if in_flash m a then
    let p := page_of a in
    mkMem (fun x => if (FLASH_BASE + p * PAGE <=? x) && (x <? FLASH_BASE + (p + 1) * PAGE) then 255 else m_flash m x)
          (m_size m) (fun q => if q =? p then true else m_erased m q) (m_ptr m) (m_mons m)
          (m_nerase m + 1) (m_nset m) (m_nwrite m)
  else mem_mon m MAddress.

Definition do_mass_erase (m : mem) : mem :=
  mkMem (fun x => if in_flash m x then 255 else m_flash m x) (m_size m)
        (fun q => (0 <=? q) && (q * PAGE <? m_size m) || m_erased m q) (m_ptr m) (m_mons m)
        (m_nerase m + 1) (m_nset m) (m_nwrite m).

Definition do_set_addr (m : mem) (a : Z) : mem :=
  let m1 := if in_flash m a then m else mem_mon m MAddress in
  mkMem (m_flash m1) (m_size m1) (m_erased m1) a (m_mons m1) (m_nerase m1) (m_nset m1 + 1) (m_nwrite m1).

Definition do_write (m : mem) (blk : Z) (data : list Z) : mem :=
  let a := m_ptr m + (blk - 2) * XFER in
  let len := Z.of_nat (length data) in
  if (FLASH_BASE <=? a) && (a + len <=? FLASH_BASE + m_size m) then
    let touched := page_span (page_of a) (page_of (a + len - 1)) in
    let m1 := if forallb (m_erased m) touched then m else mem_mon m MWriteBeforeErase in
    mkMem (fun x => if (a <=? x) && (x <? a + len) then nth (Z.to_nat (x - a)) data 0 else m_flash m1 x)
          (m_size m1) (fun q => if mem_page q touched then false else m_erased m1 q) (m_ptr m1) (m_mons m1)
          (m_nerase m1) (m_nset m1) (m_nwrite m1 + 1)
  else mem_mon m MAddress.

Definition apply_op (m : mem) (o : op) : mem :=
  match o with
  | OErase a => do_erase m a
  | OMassErase => do_mass_erase m
  | OSetAddr a => do_set_addr m a
  | OWrite blk data => do_write m blk data
  end.

(* ---------------------------------------------------------------- requests *)
Definition le32 (b0 b1 b2 b3 : Z) : Z := b0 + 256 * b1 + 65536 * b2 + 16777216 * b3.

(* DNLOAD payload -> operation (UM0424 section 10) *)
Definition parse_op (wvalue : Z) (data : list Z) : option op :=
  if wvalue =? 0 then
    match data with
    | [c; b0; b1; b2; b3] =>
        if c =? CMD_SET_ADDRESS then Some (OSetAddr (le32 b0 b1 b2 b3))
        else if c =? CMD_ERASE then Some (OErase (le32 b0 b1 b2 b3))
        else None
    | [c] => if c =? CMD_ERASE then Some OMassErase else None
    | _ => None
    end
  else if wvalue =? 1 then None
  else match data with
       | [] => None          (* zero-length DNLOAD = end of download / manifestation: not part of this model *)
       | _ => Some (OWrite wvalue data)
       end.

Definition status_bytes (st t state : Z) : list Z :=
  [st; t mod 256; (t / 256) mod 256; (t / 65536) mod 256; state; 0].

(* answer a GETSTATUS: the host must now wait t milliseconds *)
Definition answer (d : dev) (st t state : Z) : dev * resp :=
  (set_timing d (t * 1000) 0, RBytes (status_bytes st t state)).

Definition check_delay (d : dev) : dev := if d_slept d <? d_wait d then add_mon d MPollDelay else d.

Definition progress (d : dev) (o : op) (e : sentry) : dev * resp :=
  match s_busy e with
  | t :: rest => answer (set_state d (Busy o (mkEntry rest (s_fin e) (s_err e)))) stOK t dfuDNBUSY
  | [] =>
      if s_err e =? 0 then answer (set_state (set_mem d (apply_op (d_mem d) o)) DnIdle) stOK (s_fin e) dfuDNLOAD_IDLE
      else answer (set_state d (Error (s_err e))) (s_err e) (s_fin e) dfuERROR
  end.

Definition stall (d : dev) (m : monitor) : dev * resp := (add_mon d m, RStall).

Definition on_request (d0 : dev) (r : request) : dev * resp :=
  let d := check_delay d0 in
  if negb (r_windex r =? 0) then stall d MBadRequest
  else if (r_bm r =? BM_CLASS_IF_IN) && (r_breq r =? DFU_GETSTATUS) then
    match r_pay r with
    | PIn 6 =>
        match d_state d with
        | Idle => answer d stOK 0 dfuIDLE
        | DnIdle => answer d stOK 0 dfuDNLOAD_IDLE
        | Error st => answer d st 0 dfuERROR
        | Sync o e | Busy o e => progress d o e
        end
    | _ => stall d MBadRequest
    end
  else if (r_bm r =? BM_CLASS_IF_OUT) && (r_breq r =? DFU_DNLOAD) then
    match r_pay r with
    | POut data =>
        match d_state d with
        | Idle | DnIdle =>
            match parse_op (r_wvalue r) data with
            | Some o => let (e, d1) := pop_sched d in (set_state d1 (Sync o e), RCount (Z.of_nat (length data)))
            | None => stall (set_state d (Error errSTALLEDPKT)) MBadRequest
            end
        | Sync _ _ | Busy _ _ => stall d MBusy
        | Error _ => stall d MBadRequest          (* A.2.11: dfuERROR stalls everything but GETSTATUS/CLRSTATUS/GETSTATE *)
        end
    | PIn _ => stall d MBadRequest
    end
  else if (r_bm r =? BM_CLASS_IF_OUT) && (r_breq r =? DFU_CLRSTATUS) then
    match r_pay r, d_state d with
    | POut [], Error _ => (set_state d Idle, RCount 0)
    | _, Sync _ _ | _, Busy _ _ => stall d MBusy
    | _, _ => stall d MBadRequest
    end
  else
    match d_state d with
    | Sync _ _ | Busy _ _ => stall d MBusy
    | _ => stall d MBadRequest
    end.

Definition on_sleep (d : dev) (us : Z) : dev := set_timing d (d_wait d) (d_slept d + us).

Definition on_event (d : dev) (e : hevent) : dev * option resp :=
  match e with
  | HReq r => let (d1, a) := on_request d r in (d1, Some a)
  | HSleep us => (on_sleep d us, None)
  end.

(* feed a recorded host trace to the device *)
Fixpoint run_trace (d : dev) (tr : list hevent) : dev :=
  match tr with
  | [] => d
  | e :: rest => run_trace (fst (on_event d e)) rest
  end.
