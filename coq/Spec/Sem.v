(* SPECIFICATION (independent of the assembler's code): single-step semantics of RV32I (+M) over the [instr]
   type of Spec/RV32.v, written from the RISC-V unprivileged ISA manual (chapter 2 "RV32I Base Integer Instruction
   Set", chapter 7 "M"), and the DOCUMENTED effects of the assembler's pseudo-instructions, written from
   docs/instruction_reference.rst ("Pseudo Instructions": the Description column and the sections below it).

   State: 32 registers as a total function Z -> Z (x0 reads as 0, every value is read modulo 2^32), the pc, and a
   byte memory Z -> Z (addresses modulo 2^32, bytes read modulo 256).  No well-formedness hypothesis is needed:
   everything is normalised when it is READ, so the statements hold for every state. *)
From Coq Require Import ZArith List Bool String.
From BB Require Import Base.Bits Spec.RV32 Spec.RVC.
Import ListNotations.
Open Scope Z_scope.

Definition wrap (v : Z) : Z := v mod 2^32.
(* the two's-complement reading of a value 0 <= v < 2^32 *)
Definition signed (v : Z) : Z := if v <? 2^31 then v else v - 2^32.

Record state := { regs : Z -> Z; pc : Z; mem : Z -> Z }.

Definition getr (s : state) (r : Z) : Z := if r =? 0 then 0 else wrap (regs s r).
Definition setr (s : state) (rd v : Z) : Z -> Z :=
  fun r => if (r =? rd) && negb (rd =? 0) then wrap v else regs s r.

(* ---- byte memory, little endian ----------------------------------------------------------------------- *)
Definition getb (m : Z -> Z) (a : Z) : Z := m (wrap a) mod 256.
Definition setb (m : Z -> Z) (a v : Z) : Z -> Z := fun x => if x =? wrap a then v mod 256 else m x.
Definition load_le (n : nat) (m : Z -> Z) (a : Z) : Z :=
  fold_right (fun k acc => getb m (a + Z.of_nat k) + 256 * acc) 0 (seq 0 n).
Fixpoint store_le (n : nat) (m : Z -> Z) (a v : Z) : Z -> Z :=
  match n with O => m | S k => store_le k (setb m a v) (a + 1) (v / 256) end.
Definition written (n : nat) (a : Z) : list Z := map (fun k => wrap (a + Z.of_nat k)) (seq 0 n).

(* ---- ALU ----------------------------------------------------------------------------------------------- *)
(* a, b: register values (0 <= . < 2^32); imm: the sign-extended 12-bit immediate (-2048 <= imm < 2048).
   Z.land / Z.lor / Z.lxor are the two's-complement operations on unbounded integers, so applying them to the
   sign-extended immediate and reducing modulo 2^32 is the 32-bit operation. *)
Definition alu_i (o : iop) (a imm : Z) : Z :=
  match o with
  | ADDI => wrap (a + imm)
  | SLTI => if signed a <? imm then 1 else 0
  | SLTIU => if a <? wrap imm then 1 else 0
  | XORI => wrap (Z.lxor a imm)
  | ORI => wrap (Z.lor a imm)
  | ANDI => wrap (Z.land a imm)
  end.
Definition alu_s (o : sop) (a sh : Z) : Z :=
  match o with
  | SLLI => wrap (a * 2^sh)
  | SRLI => a / 2^sh
  | SRAI => wrap (signed a / 2^sh)
  end.
Definition alu_r (o : rop) (a b : Z) : Z :=
  match o with
  | ADD => wrap (a + b)
  | SUB => wrap (a - b)
  | SLL => wrap (a * 2^(b mod 32))
  | SLT => if signed a <? signed b then 1 else 0
  | SLTU => if a <? b then 1 else 0
  | XOR => wrap (Z.lxor a b)
  | SRL => a / 2^(b mod 32)
  | SRA => wrap (signed a / 2^(b mod 32))
  | OR => wrap (Z.lor a b)
  | AND => wrap (Z.land a b)
  | MUL => wrap (a * b)
  | MULH => wrap ((signed a * signed b) / 2^32)
  | MULHSU => wrap ((signed a * b) / 2^32)
  | MULHU => (a * b) / 2^32
  | DIV => if b =? 0 then 2^32 - 1 else wrap (Z.quot (signed a) (signed b))
  | DIVU => if b =? 0 then 2^32 - 1 else a / b
  | REM => if b =? 0 then a else wrap (Z.rem (signed a) (signed b))
  | REMU => if b =? 0 then a else a mod b
  end.
Definition cond_holds (c : bcond) (a b : Z) : bool :=
  match c with
  | BEQ => a =? b
  | BNE => negb (a =? b)
  | BLT => signed a <? signed b
  | BGE => negb (signed a <? signed b)
  | BLTU => a <? b
  | BGEU => negb (a <? b)
  end.
Definition load_val (w : lwidth) (m : Z -> Z) (a : Z) : Z :=
  match w with
  | LB => wrap (sext (load_le 1 m a) 8)
  | LH => wrap (sext (load_le 2 m a) 16)
  | LW => load_le 4 m a
  | LBU => load_le 1 m a
  | LHU => load_le 2 m a
  end.
Definition swidth_bytes (w : swidth) : nat := match w with SB => 1 | SH => 2 | SW => 4 end%nat.

(* ---- one instruction of length len (4, or 2 for the expansion of a compressed instruction) ------------- *)
Definition upd (s : state) (rd v : Z) (npc : Z) : state := {| regs := setr s rd v; pc := npc; mem := mem s |}.
Definition next (s : state) (len : Z) : Z := wrap (pc s + len).

Definition step (i : instr) (len : Z) (s : state) : option state :=
  match i with
  | Lui rd imm => Some (upd s rd (imm * 4096) (next s len))
  | Auipc rd imm => Some (upd s rd (pc s + imm * 4096) (next s len))
  | Jal rd off => Some (upd s rd (pc s + len) (wrap (pc s + off)))
  | Jalr rd rs1 imm =>
      let t := wrap (getr s rs1 + imm) in              (* the target is computed before rd is written *)
      Some (upd s rd (pc s + len) (t - t mod 2))       (* least-significant bit cleared *)
  | Branch c rs1 rs2 off =>
      Some {| regs := regs s;
              pc := if cond_holds c (getr s rs1) (getr s rs2) then wrap (pc s + off) else next s len;
              mem := mem s |}
  | Load w rd rs1 imm => Some (upd s rd (load_val w (mem s) (getr s rs1 + imm)) (next s len))
  | Store w rs1 rs2 imm =>
      Some {| regs := regs s; pc := next s len;
              mem := store_le (swidth_bytes w) (mem s) (getr s rs1 + imm) (getr s rs2) |}
  | OpImm o rd rs1 imm => Some (upd s rd (alu_i o (getr s rs1) imm) (next s len))
  | ShiftImm o rd rs1 sh => Some (upd s rd (alu_s o (getr s rs1) sh) (next s len))
  | Op o rd rs1 rs2 => Some (upd s rd (alu_r o (getr s rs1) (getr s rs2)) (next s len))
  | Fence _ _ _ => Some {| regs := regs s; pc := next s len; mem := mem s |}     (* single hart: no-op *)
  | FenceI => Some {| regs := regs s; pc := next s len; mem := mem s |}
  | _ => None                                           (* ecall / ebreak / CSR / atomics: outside this model *)
  end.

(* the memory addresses an instruction writes in state s *)
Definition writes (i : instr) (s : state) : list Z :=
  match i with
  | Store w rs1 _ imm => written (swidth_bytes w) (getr s rs1 + imm)
  | _ => []
  end.

(* straight-line execution of a decoded instruction list (instruction, length) *)
Fixpoint run_list (is : list (instr * Z)) (s : state) : option state :=
  match is with
  | [] => Some s
  | (i, len) :: r => match step i len s with Some s' => run_list r s' | None => None end
  end.

(* ---- the machine: fetch from the byte memory by the low two bits (16-bit parcels) ---------------------- *)
Definition fetch (m : Z -> Z) (a : Z) : option (instr * Z) :=
  let h := getb m a + 256 * getb m (a + 1) in
  if h mod 4 =? 3 then
    match decode32 (h + 65536 * (getb m (a + 2) + 256 * getb m (a + 3))) with
    | Some i => Some (i, 4)
    | None => None
    end
  else
    match decode16 h with
    | Some c => Some (expand_c c, 2)
    | None => None
    end.
Fixpoint run_n (n : nat) (s : state) : option state :=
  match n with
  | O => Some s
  | S k =>
      match fetch (mem s) (pc s) with
      | Some (i, len) => match step i len s with Some s' => run_n k s' | None => None end
      | None => None
      end
  end.

(* the bytes bs sit in memory at the pc *)
Definition loaded (s : state) (bs : list Z) : Prop :=
  forall k, 0 <= k < Z.of_nat (List.length bs) -> mem s (wrap (pc s + k)) = nth (Z.to_nat k) bs 0.

(* ---- observational equality (no functional extensionality anywhere) ------------------------------------ *)
Definition state_eq (s t : state) : Prop :=
  wrap (pc s) = wrap (pc t) /\ (forall r, getr s r = getr t r) /\ (forall a, getb (mem s) a = getb (mem t) a).
Definition ostate_eq (a b : option state) : Prop :=
  match a, b with Some s, Some t => state_eq s t | None, None => True | _, _ => False end.
(* two instructions that cannot be told apart: same result (up to state_eq) from every state, for every length *)
Definition sem_equiv (i j : instr) : Prop := forall len s, ostate_eq (step i len s) (step j len s).

(* s' differs from s at most in register rd, which now holds v (nothing at all if rd = x0); memory untouched *)
Definition only_reg (s s' : state) (rd v : Z) : Prop :=
  getr s' rd = (if rd =? 0 then 0 else v) /\ (forall r, r <> rd -> getr s' r = getr s r) /\ mem s' = mem s.
Definition no_reg (s s' : state) : Prop := (forall r, getr s' r = getr s r) /\ mem s' = mem s.

(* ---- DOCUMENTED effects of the pseudo-instructions (docs/instruction_reference.rst) --------------------- *)
(* "Copy register", "One's complement", "Two's complement", "Set if == zero", "Set if != zero", "Set if < zero",
   "Set if > zero": rd <- f (rs), on 32-bit values x (0 <= x < 2^32), comparisons on the signed reading *)
Definition unary_doc : list (string * (Z -> Z)) :=
  [("mv"%string, fun x => x);
   ("not"%string, fun x => 2^32 - 1 - x);
   ("neg"%string, fun x => wrap (- x));
   ("seqz"%string, fun x => if x =? 0 then 1 else 0);
   ("snez"%string, fun x => if x =? 0 then 0 else 1);
   ("sltz"%string, fun x => if signed x <? 0 then 1 else 0);
   ("sgtz"%string, fun x => if signed x >? 0 then 1 else 0)].
(* "Branch if == zero" ... "Branch if > zero": condition on rs *)
Definition branchz_doc : list (string * (Z -> bool)) :=
  [("beqz"%string, fun x => x =? 0);
   ("bnez"%string, fun x => negb (x =? 0));
   ("blez"%string, fun x => signed x <=? 0);
   ("bgez"%string, fun x => signed x >=? 0);
   ("bltz"%string, fun x => signed x <? 0);
   ("bgtz"%string, fun x => signed x >? 0)].
(* "Branch if >", "Branch if <=", "... (unsigned)": condition on rs, rt *)
Definition branch2_doc : list (string * (Z -> Z -> bool)) :=
  [("bgt"%string, fun x y => signed x >? signed y);
   ("ble"%string, fun x y => signed x <=? signed y);
   ("bgtu"%string, fun x y => x >? y);
   ("bleu"%string, fun x y => x <=? y)].
(* "Jump" / "Jump and link" (link register x1), "Jump register" / "Jump and link register" / "Return from
   subroutine": the link register written (0 = none) *)
Definition jump_doc : list (string * Z) := [("j"%string, 0); ("jal"%string, 1)].
Definition jumpr_doc : list (string * Z) := [("jr"%string, 0); ("jalr"%string, 1)].
(* call: link in x1; tail: no link, the far form uses x6 as scratch ("auipc x6, ... ; jalr x0, x6, ...") *)
Definition calltail_doc : list (string * (Z * Z)) :=        (* name -> (link register, scratch register of the far form) *)
  [("call"%string, (1, 1)); ("tail"%string, (0, 6))].
