(* SPECIFICATION: how the operands written on a source line are read (register spellings, the documented
   second spelling of lui/auipc immediates, fence sets, aq/rl), independent of the assembler's code. *)
From Coq Require Import ZArith List Bool String.
From BB Require Import Base.Bits Base.PyBase Spec.RV32.
Import ListNotations.
Open Scope Z_scope.

Definition xnames : list (string * Z) :=
  [("x0",0);("x1",1);("x2",2);("x3",3);("x4",4);("x5",5);("x6",6);("x7",7);("x8",8);("x9",9);("x10",10);
   ("x11",11);("x12",12);("x13",13);("x14",14);("x15",15);("x16",16);("x17",17);("x18",18);("x19",19);
   ("x20",20);("x21",21);("x22",22);("x23",23);("x24",24);("x25",25);("x26",26);("x27",27);("x28",28);
   ("x29",29);("x30",30);("x31",31)]%string.
Definition regname_spec (s : string) : option Z :=
  match sassoc s xnames with Some n => Some n | None => sassoc s abi_names end.
Definition in_regs (z : Z) : bool := (0 <=? z) && (z <=? 31).
(* a register operand: a number 0..31 (int, or any int(s,0) spelling), xN, or an ABI name *)
Definition regnum (a : arg) : option Z :=
  match a with
  | AInt z => if in_regs z then Some z else None
  | AStr s => match py_int_lit s with
              | Some z => if in_regs z then Some z else None
              | None => regname_spec s
              end
  end.
Definition intnum (a : arg) : option Z :=
  match a with AInt z => Some z | AStr s => py_int_lit s end.

Inductive okind :=
| KReg            (* register *)
| KImm            (* integer immediate, applied as written *)
| KUpper          (* lui/auipc: 0x80000..0xfffff is the documented second spelling of the negative values *)
| KSet            (* fence set: integer literal or int *)
| KCsr.           (* CSR number *)

Definition upper_norm (z : Z) : Z := if (524288 <=? z) && (z <=? 1048575) then z - 1048576 else z.

Definition read_op (k : okind) (a : arg) : option Z :=
  match k, a with
  | KReg, _ => regnum a
  | KImm, AInt z => Some z
  | KCsr, AInt z => Some z
  | KUpper, AInt z => Some (upper_norm z)
  | KSet, _ => intnum a
  | _, _ => None
  end.
Fixpoint read_ops (ks : list okind) (pos : list arg) : option (list Z) :=
  match ks, pos with
  | [], [] => Some []
  | k :: ks', a :: pos' =>
      match read_op k a, read_ops ks' pos' with Some v, Some r => Some (v :: r) | _, _ => None end
  | _, _ => None
  end.

Definition kinds32 : list (string * (list okind * bool)) :=     (* bool: takes aq / rl keyword operands *)
  let r3 := ([KReg; KReg; KReg], false) in
  let i3 := ([KReg; KReg; KImm], false) in
  let u2 := ([KReg; KUpper], false) in
  let a3 := ([KReg; KReg; KReg], true) in
  [("lui", u2); ("auipc", u2); ("jal", ([KReg; KImm], false)); ("jalr", i3);
   ("beq", i3); ("bne", i3); ("blt", i3); ("bge", i3); ("bltu", i3); ("bgeu", i3);
   ("lb", i3); ("lh", i3); ("lw", i3); ("lbu", i3); ("lhu", i3); ("sb", i3); ("sh", i3); ("sw", i3);
   ("addi", i3); ("slti", i3); ("sltiu", i3); ("xori", i3); ("ori", i3); ("andi", i3);
   ("slli", r3); ("srli", r3); ("srai", r3);
   ("add", r3); ("sub", r3); ("sll", r3); ("slt", r3); ("sltu", r3); ("xor", r3); ("srl", r3); ("sra", r3);
   ("or", r3); ("and", r3);
   ("fence", ([KSet; KSet], false)); ("ecall", ([], false)); ("ebreak", ([], false)); ("fence.i", ([], false));
   ("csrrw", ([KReg; KReg; KCsr], false)); ("csrrs", ([KReg; KReg; KCsr], false)); ("csrrc", ([KReg; KReg; KCsr], false));
   ("csrrwi", ([KReg; KReg; KCsr], false)); ("csrrsi", ([KReg; KReg; KCsr], false)); ("csrrci", ([KReg; KReg; KCsr], false));
   ("mul", r3); ("mulh", r3); ("mulhsu", r3); ("mulhu", r3); ("div", r3); ("divu", r3); ("rem", r3); ("remu", r3);
   ("lr.w", ([KReg; KReg], true)); ("sc.w", a3);
   ("amoswap.w", a3); ("amoadd.w", a3); ("amoxor.w", a3); ("amoand.w", a3); ("amoor.w", a3); ("amomin.w", a3);
   ("amomax.w", a3); ("amominu.w", a3); ("amomaxu.w", a3)]%string.

Definition kwbit (kw : list (string * arg)) (k : string) : option Z :=
  match assoc_str k kw with Some a => intnum a | None => Some 0 end.

(* the operand list a source line names: positional operands, then aq rl for the atomics *)
Definition operands32 (name : string) (pos : list arg) (kw : list (string * arg)) : option (list Z) :=
  match sassoc name kinds32 with
  | Some (ks, false) => read_ops ks pos
  | Some (ks, true) =>
      match read_ops ks pos, kwbit kw "aq", kwbit kw "rl" with
      | Some l, Some aq, Some rl => Some (l ++ [aq; rl])
      | _, _, _ => None
      end
  | None => None
  end.

(* ---- RV32C ------------------------------------------------------------------------------------------ *)
Definition cupper_norm (z : Z) : Z := if (1048544 <=? z) && (z <=? 1048575) then z - 1048576 else z.
Inductive ckind := CReg | CImm | CUpper.
Definition read_cop (k : ckind) (a : arg) : option Z :=
  match k, a with
  | CReg, _ => regnum a
  | CImm, AInt z => Some z
  | CUpper, AInt z => Some (cupper_norm z)
  | _, _ => None
  end.
Fixpoint read_cops (ks : list ckind) (pos : list arg) : option (list Z) :=
  match ks, pos with
  | [], [] => Some []
  | k :: ks', a :: pos' =>
      match read_cop k a, read_cops ks' pos' with Some v, Some r => Some (v :: r) | _, _ => None end
  | _, _ => None
  end.
Definition kinds16 : list (string * list ckind) :=
  [("c.addi4spn", [CReg; CImm]); ("c.lw", [CReg; CReg; CImm]); ("c.sw", [CReg; CReg; CImm]); ("c.nop", []);
   ("c.addi", [CReg; CImm]); ("c.jal", [CImm]); ("c.li", [CReg; CImm]); ("c.addi16sp", [CImm]);
   ("c.lui", [CReg; CUpper]); ("c.srli", [CReg; CImm]); ("c.srai", [CReg; CImm]); ("c.andi", [CReg; CImm]);
   ("c.sub", [CReg; CReg]); ("c.xor", [CReg; CReg]); ("c.or", [CReg; CReg]); ("c.and", [CReg; CReg]);
   ("c.j", [CImm]); ("c.beqz", [CReg; CImm]); ("c.bnez", [CReg; CImm]); ("c.slli", [CReg; CImm]);
   ("c.lwsp", [CReg; CImm]); ("c.jr", [CReg]); ("c.mv", [CReg; CReg]); ("c.ebreak", []); ("c.jalr", [CReg]);
   ("c.add", [CReg; CReg]); ("c.swsp", [CReg; CImm])]%string.
Definition operands16 (name : string) (pos : list arg) : option (list Z) :=
  match sassoc name kinds16 with Some ks => read_cops ks pos | None => None end.
