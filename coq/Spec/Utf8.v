(* UTF-8, written from RFC 3629 / Unicode 15 section 3.9 (table 3-6, 3-7), independent of the code.
   Text is a list of code points (Z); bytes are Z in 0..255.
   The ENCODER says what "the UTF-8 encoding of the text" is; the DECODER is the strict one of the standard
   (shortest form only, no surrogates, nothing above U+10FFFF, no truncated or stray continuation bytes).
   Proofs/DataUtf8.v proves decode (encode s) = Some s for every valid text and that decode is injective, so
   the encoder really produces well-formed UTF-8 and nothing else decodes to the same text.
   No proofs in this file. *)
From Coq Require Import ZArith List Bool.
Import ListNotations.
Open Scope Z_scope.

(* Unicode scalar values: U+0000..U+D7FF and U+E000..U+10FFFF *)
Definition valid_cp (c : Z) : bool :=
  (0 <=? c) && (c <=? 1114111) && negb ((55296 <=? c) && (c <=? 57343)).

(* one code point -> 1..4 bytes (table 3-6) *)
Definition utf8_enc1 (c : Z) : list Z :=
  if c <? 128 then [c]
  else if c <? 2048 then [192 + c / 64; 128 + c mod 64]
  else if c <? 65536 then [224 + c / 4096; 128 + (c / 64) mod 64; 128 + c mod 64]
  else [240 + c / 262144; 128 + (c / 4096) mod 64; 128 + (c / 64) mod 64; 128 + c mod 64].

Definition utf8_encode (s : list Z) : list Z := flat_map utf8_enc1 s.

(* continuation byte 10xxxxxx *)
Definition is_cont (b : Z) : bool := (128 <=? b) && (b <=? 191).

Definition ocons (c : Z) (r : option (list Z)) : option (list Z) :=
  match r with Some l => Some (c :: l) | None => None end.

(* strict decoder: the lead byte fixes the length, the value must need that length (no overlong forms),
   must not be a surrogate and must not exceed U+10FFFF *)
Fixpoint utf8_decode (bs : list Z) : option (list Z) :=
  match bs with
  | [] => Some []
  | b0 :: r0 =>
      if (0 <=? b0) && (b0 <? 128) then ocons b0 (utf8_decode r0)
      else if (192 <=? b0) && (b0 <? 224) then
        match r0 with
        | b1 :: r1 =>
            let c := (b0 - 192) * 64 + (b1 - 128) in
            if is_cont b1 && (128 <=? c) then ocons c (utf8_decode r1) else None
        | _ => None
        end
      else if (224 <=? b0) && (b0 <? 240) then
        match r0 with
        | b1 :: b2 :: r2 =>
            let c := (b0 - 224) * 4096 + (b1 - 128) * 64 + (b2 - 128) in
            if is_cont b1 && is_cont b2 && (2048 <=? c) && valid_cp c then ocons c (utf8_decode r2) else None
        | _ => None
        end
      else if (240 <=? b0) && (b0 <? 248) then
        match r0 with
        | b1 :: b2 :: b3 :: r3 =>
            let c := (b0 - 240) * 262144 + (b1 - 128) * 4096 + (b2 - 128) * 64 + (b3 - 128) in
            if is_cont b1 && is_cont b2 && is_cont b3 && (65536 <=? c) && valid_cp c then ocons c (utf8_decode r3) else None
        | _ => None
        end
      else None
  end.
