(* Documented meaning of the data directives (docs/assembly_language.rst: "Numeric Sequence Literals",
   "Packed Values", "Shorthand Syntax", "String Literals"; Python's struct documentation for the format
   characters), written independently of asm.py and of the pass model.  No proofs in this file. *)
From Coq Require Import ZArith List Bool String Ascii.
From BB Require Import Spec.Utf8.
Import ListNotations.
Open Scope Z_scope.

(* ---- integers as bytes -------------------------------------------------------------------------------- *)
(* byte number i (0 = least significant) of a non-negative integer u *)
Definition byte_at (u : Z) (i : nat) : Z := (u / 256 ^ Z.of_nat i) mod 256.
(* the w-byte little-endian / big-endian byte string whose unsigned reading is u (for 0 <= u < 256^w) *)
Definition le_of (w : nat) (u : Z) : list Z := map (byte_at u) (seq 0 w).
Definition be_of (w : nat) (u : Z) : list Z := rev (le_of w u).
(* readers (used to state that the bytes mean the value) *)
Fixpoint le_value (bs : list Z) : Z := match bs with [] => 0 | b :: r => b + 256 * le_value r end.
Definition be_value (bs : list Z) : Z := le_value (rev bs).
Definition is_byte (b : Z) : Prop := 0 <= b < 256.
(* w-byte two's complement: the bit pattern of v is the unsigned number v mod 2^(8w) *)
Definition twos (w : Z) (v : Z) : Z := v mod 2 ^ (8 * w).

(* ---- bytes/shorts/ints/longs/longlongs and db/dh/dw/dd ------------------------------------------------- *)
Definition seq_table : list (string * Z) :=
  [("bytes", 1); ("shorts", 2); ("ints", 4); ("longs", 4); ("longlongs", 8)]%string.
Definition shorthand_table : list (string * Z) :=
  [("db", 1); ("dh", 2); ("dw", 4); ("dd", 8)]%string.
(* a value fits a w-byte directive when it is a w-byte signed OR unsigned number *)
Definition int_fits (w v : Z) : bool := (- 2 ^ (8 * w - 1) <=? v) && (v <? 2 ^ (8 * w)).
Definition int_bytes (w v : Z) : list Z := le_of (Z.to_nat w) (twos w v).
(* None = refused *)
Definition data_int (w v : Z) : option (list Z) := if int_fits w v then Some (int_bytes w v) else None.

(* ---- pack <order><code> value ---------------------------------------------------------------------------- *)
Definition order_table : list (string * bool) := [("<", true); (">", false)]%string.     (* little endian? *)
Definition code_table : list (string * (Z * bool)) :=                                     (* (bytes, signed) *)
  [("b", (1, true)); ("B", (1, false)); ("h", (2, true)); ("H", (2, false)); ("i", (4, true)); ("I", (4, false));
   ("l", (4, true)); ("L", (4, false)); ("q", (8, true)); ("Q", (8, false))]%string.
Definition pack_fits (w : Z) (signed : bool) (v : Z) : bool :=
  if signed then (- 2 ^ (8 * w - 1) <=? v) && (v <? 2 ^ (8 * w - 1)) else (0 <=? v) && (v <? 2 ^ (8 * w)).
Definition pack_bytes (little : bool) (w v : Z) : list Z :=
  if little then le_of (Z.to_nat w) (twos w v) else be_of (Z.to_nat w) (twos w v).
Fixpoint lookup {V} (k : string) (t : list (string * V)) : option V :=
  match t with [] => None | (k', v) :: r => if String.eqb k k' then Some v else lookup k r end.
(* None = not a documented format; Some None = refused; Some (Some bs) = emitted *)
Definition data_pack (fmt : string) (v : Z) : option (option (list Z)) :=
  match fmt with
  | String o (String c EmptyString) =>
      match lookup (String o EmptyString) order_table, lookup (String c EmptyString) code_table with
      | Some little, Some (w, signed) => Some (if pack_fits w signed v then Some (pack_bytes little w v) else None)
      | _, _ => None
      end
  | _ => None
  end.

(* ---- string <text>: backslash escapes, then UTF-8 -------------------------------------------------------- *)
(* The escapes are those of Python string literals (the docs show \n and \\ and defer to "unicode_escape").
   Text and result are code-point lists.  None = outside the documented set (\N{...}, unknown escapes such
   as \q, a lone trailing backslash, truncated \x \u \U, a \U value above 10FFFF): the checks do not judge
   such inputs. *)
Definition hexv (c : Z) : option Z :=
  if (48 <=? c) && (c <=? 57) then Some (c - 48)
  else if (97 <=? c) && (c <=? 102) then Some (c - 87)
  else if (65 <=? c) && (c <=? 70) then Some (c - 55)
  else None.
Definition octv (c : Z) : option Z := if (48 <=? c) && (c <=? 55) then Some (c - 48) else None.
Fixpoint hexs (l : list Z) (acc : Z) : option Z :=
  match l with [] => Some acc | c :: r => match hexv c with Some d => hexs r (acc * 16 + d) | None => None end end.
Definition simple_escape (c : Z) : option Z :=
  if c =? 92 then Some 92            (* backslash *)
  else if c =? 39 then Some 39       (* single quote *)
  else if c =? 34 then Some 34       (* double quote *)
  else if c =? 97 then Some 7        (* \a *)
  else if c =? 98 then Some 8        (* \b *)
  else if c =? 102 then Some 12      (* \f *)
  else if c =? 110 then Some 10      (* \n *)
  else if c =? 114 then Some 13      (* \r *)
  else if c =? 116 then Some 9       (* \t *)
  else if c =? 118 then Some 11      (* \v *)
  else None.
Fixpoint unescape (s : list Z) : option (list Z) :=
  match s with
  | [] => Some []
  | c :: r =>
      if negb (c =? 92) then ocons c (unescape r)
      else
        match r with
        | [] => None
        | e :: r1 =>
            match simple_escape e with
            | Some v => ocons v (unescape r1)
            | None =>
                match octv e with
                | Some d1 =>
                    match r1 with
                    | e2 :: r2 =>
                        match octv e2 with
                        | Some d2 =>
                            match r2 with
                            | e3 :: r3 =>
                                match octv e3 with
                                | Some d3 => ocons (d1 * 64 + d2 * 8 + d3) (unescape r3)
                                | None => ocons (d1 * 8 + d2) (unescape r2)
                                end
                            | [] => ocons (d1 * 8 + d2) (unescape r2)
                            end
                        | None => ocons d1 (unescape r1)
                        end
                    | [] => ocons d1 (unescape r1)
                    end
                | None =>
                    if e =? 120 then                                    (* \xhh *)
                      match r1 with
                      | h1 :: h2 :: r2 => match hexs [h1; h2] 0 with Some v => ocons v (unescape r2) | None => None end
                      | _ => None
                      end
                    else if e =? 117 then                               (* \uhhhh *)
                      match r1 with
                      | h1 :: h2 :: h3 :: h4 :: r2 =>
                          match hexs [h1; h2; h3; h4] 0 with Some v => ocons v (unescape r2) | None => None end
                      | _ => None
                      end
                    else if e =? 85 then                                (* \Uhhhhhhhh *)
                      match r1 with
                      | h1 :: h2 :: h3 :: h4 :: h5 :: h6 :: h7 :: h8 :: r2 =>
                          match hexs [h1; h2; h3; h4; h5; h6; h7; h8] 0 with
                          | Some v => if v <=? 1114111 then ocons v (unescape r2) else None
                          | None => None
                          end
                      | _ => None
                      end
                    else None            (* \N{name} and unknown escapes (deprecated in Python): not judged *)
                end
            end
        end
  end.
(* None = text outside the documented set or not encodable (lone surrogate) *)
Definition data_string (text : list Z) : option (list Z) :=
  match unescape text with
  | Some s => if forallb valid_cp s then Some (utf8_encode s) else None
  | None => None
  end.
