(* What the text of a `string` directive DENOTES: the escape sequences of Python string literals (the language
   reference, section String and Bytes literals, table of escape sequences), written from the documentation and independent of
   the code.  Text and result are lists of code points (Z).

       backslash + one of  \ ' (double quote) a b f n r t v      one character
       \o \oo \ooo                         up to three octal digits
       \xHH   \uHHHH   \UHHHHHHHH          exactly two / four / eight hexadecimal digits
       \<anything else>                    unrecognized escape sequences are left in the string unchanged
       a backslash at the very end, a truncated \x \u \U, a \U above 10FFFF        malformed: None
       \N{name}                            outside this specification: None
       backslash + line feed               (ignored in a literal) cannot occur: the text of a directive is ONE line

   No proofs in this file. *)
From Coq Require Import ZArith List Bool.
From BB Require Spec.Utf8.
Import ListNotations.
Open Scope Z_scope.

Definition bsl : Z := 92.

(* the ten one-character escapes *)
Definition simple_esc (e : Z) : option Z :=
  if e =? 110 then Some 10            (* \n  line feed *)
  else if e =? 116 then Some 9        (* \t  horizontal tab *)
  else if e =? 114 then Some 13       (* \r  carriage return *)
  else if e =? 92 then Some 92        (* \\  backslash *)
  else if e =? 39 then Some 39        (* single quote *)
  else if e =? 34 then Some 34        (* double quote *)
  else if e =? 97 then Some 7         (* \a  bell *)
  else if e =? 98 then Some 8         (* \b  backspace *)
  else if e =? 102 then Some 12       (* \f  form feed *)
  else if e =? 118 then Some 11       (* \v  vertical tab *)
  else None.

Definition octv (c : Z) : option Z := if (48 <=? c) && (c <=? 55) then Some (c - 48) else None.
Definition hexv (c : Z) : option Z :=
  if (48 <=? c) && (c <=? 57) then Some (c - 48)
  else if (97 <=? c) && (c <=? 102) then Some (c - 87)
  else if (65 <=? c) && (c <=? 70) then Some (c - 55)
  else None.
(* value of a run of hexadecimal digits, most significant first; None if one of them is not a digit *)
Fixpoint hexrun (acc : Z) (ds : list Z) : option Z :=
  match ds with
  | [] => Some acc
  | d :: r => match hexv d with Some v => hexrun (acc * 16 + v) r | None => None end
  end.

Definition ocons (c : Z) (r : option (list Z)) : option (list Z) :=
  match r with Some l => Some (c :: l) | None => None end.

Fixpoint denote (l : list Z) : option (list Z) :=
  match l with
  | [] => Some []
  | c :: r =>
      if c =? bsl then
        match r with
        | [] => None
        | e :: r1 =>
            match simple_esc e with
            | Some v => ocons v (denote r1)
            | None =>
                match octv e with
                | Some d1 =>
                    match r1 with
                    | e2 :: r2 =>
                        match octv e2 with
                        | Some d2 =>
                            match r2 with
                            | e3 :: r3 =>
                                match octv e3 with
                                | Some d3 => ocons (d1 * 64 + d2 * 8 + d3) (denote r3)
                                | None => ocons (d1 * 8 + d2) (denote r2)
                                end
                            | [] => ocons (d1 * 8 + d2) (denote r2)
                            end
                        | None => ocons d1 (denote r1)
                        end
                    | [] => ocons d1 (denote r1)
                    end
                | None =>
                    if e =? 120 then                                   (* \xHH *)
                      match r1 with
                      | h1 :: h2 :: r3 =>
                          match hexrun 0 [h1; h2] with Some v => ocons v (denote r3) | None => None end
                      | _ => None
                      end
                    else if e =? 117 then                              (* \uHHHH *)
                      match r1 with
                      | h1 :: h2 :: h3 :: h4 :: r5 =>
                          match hexrun 0 [h1; h2; h3; h4] with Some v => ocons v (denote r5) | None => None end
                      | _ => None
                      end
                    else if e =? 85 then                               (* \UHHHHHHHH *)
                      match r1 with
                      | h1 :: h2 :: h3 :: h4 :: h5 :: h6 :: h7 :: h8 :: r9 =>
                          match hexrun 0 [h1; h2; h3; h4; h5; h6; h7; h8] with
                          | Some v => if v <=? 1114111 then ocons v (denote r9) else None
                          | None => None
                          end
                      | _ => None
                      end
                    else if e =? 78 then None                          (* \N{name}: not specified here *)
                    else ocons c (ocons e (denote r1))                 (* unrecognised: both characters stay *)
                end
            end
        end
      else ocons c (denote r)
  end.

(* the fragment "plain ASCII characters and one-character escapes": every character below 128, every backslash followed by
   one of the ten letters above *)
Fixpoint simple_text (l : list Z) : bool :=
  match l with
  | [] => true
  | c :: r =>
      if c =? bsl then
        match r with
        | e :: r1 => match simple_esc e with Some _ => simple_text r1 | None => false end
        | [] => false
        end
      else (0 <=? c) && (c <? 128) && simple_text r
  end.

(* the bytes of `string <text>`: the UTF-8 encoding of what the text denotes.  None: malformed / \N{name} (not judged), or a lone
   surrogate (\ud800..\udfff), which has no UTF-8 encoding *)
Definition string_bytes (text : list Z) : option (list Z) :=
  match denote text with
  | Some s => if forallb Utf8.valid_cp s then Some (Utf8.utf8_encode s) else None
  | None => None
  end.
