(* Intel HEX *decoder*, written from the format description (Intel Hexadecimal Object File Format
   Specification rev. A, 1988), independent of the code under test and of the third-party `intelhex` writer.

     record      ':' ll aaaa tt dd..dd cc      (hex digit pairs, either case)
       ll    number of data bytes        aaaa  16-bit load offset (big endian)       tt  record type
       cc    two's-complement checksum: the sum of ALL bytes of the record (ll .. cc) is 0 mod 256
     types   00 data  (bytes go to base + aaaa, base + aaaa + 1, ...)
             01 end of file (ll = 0; must be the last record)
             02 extended segment address  (ll = 2; base := data * 16)
             04 extended linear address   (ll = 2; base := data * 65536)
     (03 / 05, the start-address records, carry no data and are not produced by bin2hex: rejected.)

   Result: the list of (address, byte) pairs in file order, or None for a malformed file. *)
From Coq Require Import ZArith List Bool String Ascii.
Import ListNotations.
Open Scope Z_scope.

Definition zc (c : ascii) : Z := Z.of_N (N_of_ascii c).

Definition hexval (c : ascii) : option Z :=
  let n := zc c in
  if (48 <=? n) && (n <=? 57) then Some (n - 48)
  else if (65 <=? n) && (n <=? 70) then Some (n - 55)
  else if (97 <=? n) && (n <=? 102) then Some (n - 87)
  else None.

(* pairs of hex digits -> bytes *)
Fixpoint hex_pairs (s : string) : option (list Z) :=
  match s with
  | EmptyString => Some []
  | String a (String b r) =>
      match hexval a, hexval b, hex_pairs r with
      | Some x, Some y, Some t => Some (x * 16 + y :: t)
      | _, _, _ => None
      end
  | String _ EmptyString => None
  end.

Definition sum (l : list Z) : Z := fold_right Z.add 0 l.

Record hexrec := { r_type : Z; r_addr : Z; r_data : list Z }.

Definition parse_record (line : string) : option hexrec :=
  match line with
  | String ":" body =>
      match hex_pairs body with
      | Some (ll :: ah :: al :: ty :: rest) =>
          if (Z.of_nat (List.length rest) =? ll + 1) && (sum (ll :: ah :: al :: ty :: rest) mod 256 =? 0)
          then Some {| r_type := ty; r_addr := ah * 256 + al; r_data := removelast rest |}
          else None
      | _ => None
      end
  | _ => None
  end.

(* text -> lines: LF or CR LF; empty lines (e.g. after the final newline) are skipped *)
Fixpoint lines_a (s : string) (cur : list ascii) : list string :=
  let flush := string_of_list_ascii (rev cur) in
  match s with
  | EmptyString => match cur with [] => [] | _ => [flush] end
  | String c r =>
      if zc c =? 10 then (match cur with [] => lines_a r [] | _ => flush :: lines_a r [] end)
      else if zc c =? 13 then lines_a r cur
      else lines_a r (c :: cur)
  end.

Fixpoint place_l (a : Z) (l : list Z) : list (Z * Z) :=
  match l with [] => [] | b :: r => (a, b) :: place_l (a + 1) r end.

Fixpoint decode_records (recs : list string) (base : Z) : option (list (Z * Z)) :=
  match recs with
  | [] => None                                         (* no end-of-file record *)
  | l :: rest =>
      match parse_record l with
      | None => None
      | Some r =>
          let t := r_type r in
          if t =? 0 then
            match decode_records rest base with
            | Some tl => Some (place_l (base + r_addr r) (r_data r) ++ tl)
            | None => None
            end
          else if t =? 1 then
            match r_data r, rest with [], [] => Some [] | _, _ => None end
          else if t =? 2 then
            match r_data r with [h; lo] => decode_records rest ((h * 256 + lo) * 16) | _ => None end
          else if t =? 4 then
            match r_data r with [h; lo] => decode_records rest ((h * 256 + lo) * 65536) | _ => None end
          else None
      end
  end.

Definition hex_decode (text : string) : option (list (Z * Z)) := decode_records (lines_a text []) 0.

(* "the same bytes placed at that offset" *)
Definition place (off : Z) (bytes : string) : list (Z * Z) :=
  place_l off (map zc (list_ascii_of_string bytes)).

(* rendering for the harness: "a:b,a:b,..." / "none" *)
Definition digit_char (d : Z) : ascii := ascii_of_N (Z.to_N (48 + d)).
Fixpoint dec_pos (fuel : nat) (n : Z) (acc : list ascii) : list ascii :=
  match fuel with
  | O => acc
  | S f => if n <? 10 then digit_char n :: acc else dec_pos f (n / 10) (digit_char (n mod 10) :: acc)
  end.
Definition dec (z : Z) : string :=
  if z <? 0 then String "-" (string_of_list_ascii (dec_pos 40 (- z) []))
  else string_of_list_ascii (dec_pos 40 z []).
(* runs "start:hexbytes" of consecutive addresses, separated by "," *)
Definition hexd (d : Z) : ascii := if d <? 10 then ascii_of_N (Z.to_N (48 + d)) else ascii_of_N (Z.to_N (87 + d)).
Fixpoint render_runs (l : list (Z * Z)) (next : Z) (first : bool) : string :=
  match l with
  | [] => EmptyString
  | (a, b) :: r =>
      let hb := String (hexd (b / 16)) (String (hexd (b mod 16)) EmptyString) in
      if negb first && (a =? next) then String.append hb (render_runs r (a + 1) false)
      else String.append (if first then EmptyString else ","%string)
             (String.append (dec a) (String.append ":" (String.append hb (render_runs r (a + 1) false))))
  end.
Definition render_decode (text : string) : string :=
  match hex_decode text with
  | None => "none"%string
  | Some l => String.append "ok|" (render_runs l 0 true)
  end.
