(* SPECIFICATION: the canonical TEXT of an RV32C instruction.  Written from the assembler's instruction reference
   (docs/instruction_reference.rst, "RV32C Standard Extension": mnemonic, then the operands in the documented order) with the
   usual RISC-V assembly conventions for the tokens: the mnemonic in lower case, a register as `xN` (N in decimal), an immediate
   as a decimal number, negative with a leading '-'.  Independent of the assembler's code: only Spec/RVC.v (the instruction type)
   and the decimal printer of Base/PyBase.v are used.
     c.lui: the canonical spelling is the SIGNED 6-bit value (-32..-1, 1..31), e.g. `c.lui x5, -1`; the documented second
     spelling 0xfffe0..0xfffff of the negative values is `ctext_lui_hex` below.
     c.lw / c.sw: the documented three-operand form `c.lw rd', rs1', uimm`; the `uimm(rs1')` spelling is `ctext_mem_paren`.
     c.addi4spn / c.addi16sp / c.lwsp / c.swsp: the stack pointer is implicit (as documented), the immediate is the byte value
     (already scaled: a multiple of 4 / 16).
     c.j / c.jal / c.beqz / c.bnez: the operand is the byte offset (a literal number, not a label). *)
From Coq Require Import ZArith List String Ascii.
From BB Require Import Base.PyBase Spec.RVC.
Import ListNotations.
Open Scope Z_scope.
Open Scope string_scope.

Definition xreg (r : Z) : string := String "x"%char (dec_of_Z r).
Definition cnum (v : Z) : string := dec_of_Z v.

(* the token line *)
Definition ctext (c : cinstr) : list string :=
  match c with
  | CAddi4spn rd i => ["c.addi4spn"; xreg rd; cnum i]
  | CLw rd rs1 i => ["c.lw"; xreg rd; xreg rs1; cnum i]
  | CSw rs1 rs2 i => ["c.sw"; xreg rs1; xreg rs2; cnum i]
  | CNop => ["c.nop"]
  | CAddi rd i => ["c.addi"; xreg rd; cnum i]
  | CJal off => ["c.jal"; cnum off]
  | CLi rd i => ["c.li"; xreg rd; cnum i]
  | CAddi16sp i => ["c.addi16sp"; cnum i]
  | CLui rd i => ["c.lui"; xreg rd; cnum i]
  | CSrli rd s => ["c.srli"; xreg rd; cnum s]
  | CSrai rd s => ["c.srai"; xreg rd; cnum s]
  | CAndi rd i => ["c.andi"; xreg rd; cnum i]
  | CSub rd rs2 => ["c.sub"; xreg rd; xreg rs2]
  | CXor rd rs2 => ["c.xor"; xreg rd; xreg rs2]
  | COr rd rs2 => ["c.or"; xreg rd; xreg rs2]
  | CAnd rd rs2 => ["c.and"; xreg rd; xreg rs2]
  | CJ off => ["c.j"; cnum off]
  | CBeqz rs1 off => ["c.beqz"; xreg rs1; cnum off]
  | CBnez rs1 off => ["c.bnez"; xreg rs1; cnum off]
  | CSlli rd s => ["c.slli"; xreg rd; cnum s]
  | CLwsp rd i => ["c.lwsp"; xreg rd; cnum i]
  | CJr rs1 => ["c.jr"; xreg rs1]
  | CMv rd rs2 => ["c.mv"; xreg rd; xreg rs2]
  | CEbreak => ["c.ebreak"]
  | CJalr rs1 => ["c.jalr"; xreg rs1]
  | CAdd rd rs2 => ["c.add"; xreg rd; xreg rs2]
  | CSwsp rs2 i => ["c.swsp"; xreg rs2; cnum i]
  end.

(* the line as it is usually written: mnemonic, a blank, the operands separated by ", " *)
Fixpoint join_with (sep : string) (l : list string) : string :=
  match l with [] => "" | [x] => x | x :: r => x ++ sep ++ join_with sep r end.
Definition line_of (toks : list string) : string :=
  match toks with [] => "" | [m] => m | m :: ops => m ++ " " ++ join_with ", " ops end.
Definition cline (c : cinstr) : string := line_of (ctext c).

(* ---- the documented alternative spellings ----------------------------------------------------------------------------------- *)
(* c.lui with a negative value: the 20-bit two's-complement form 0xfffe0 .. 0xfffff, in lower-case hexadecimal *)
Definition hexdigit (d : Z) : ascii := if (d <? 10)%Z then ascii_of_N (Z.to_N (48 + d)) else ascii_of_N (Z.to_N (87 + d)).
Definition hex5 (v : Z) : string :=
  String "0"%char (String "x"%char
    (String (hexdigit (v / 65536 mod 16)) (String (hexdigit (v / 4096 mod 16)) (String (hexdigit (v / 256 mod 16))
    (String (hexdigit (v / 16 mod 16)) (String (hexdigit (v mod 16)) EmptyString)))))).
Definition ctext_lui_hex (rd i : Z) : list string := ["c.lui"; xreg rd; hex5 (i + 1048576)].
(* c.lw / c.sw in the base-plus-offset spelling: c.lw rd', uimm(rs1') -- six tokens, the parentheses are tokens *)
Definition ctext_mem_paren (name : string) (a b i : Z) : list string := [name; xreg a; cnum i; "("; xreg b; ")"].
Definition ctext_paren (c : cinstr) : option (list string) :=
  match c with
  | CLw rd rs1 i => Some (ctext_mem_paren "c.lw" rd rs1 i)         (* c.lw rd', uimm(rs1') *)
  | CSw rs1 rs2 i => Some (ctext_mem_paren "c.sw" rs2 rs1 i)       (* c.sw rs2', uimm(rs1') *)
  | _ => None
  end.
