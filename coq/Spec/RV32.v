(* SPECIFICATION (independent of the assembler's code): RV32I + M + A + Zicsr + Zifencei instruction
   decoder, written from the RISC-V unprivileged ISA manual (chapter 2, 7-9, 24 "RV32/64G Instruction Set
   Listings").  Operands of [instr] are register NUMBERS and DECODED (sign-extended, scaled) immediates. *)
From Coq Require Import ZArith List Bool String.
From BB Require Import Base.Bits.
Import ListNotations.
Open Scope Z_scope.

Inductive bcond := BEQ | BNE | BLT | BGE | BLTU | BGEU.
Inductive lwidth := LB | LH | LW | LBU | LHU.
Inductive swidth := SB | SH | SW.
Inductive iop := ADDI | SLTI | SLTIU | XORI | ORI | ANDI.
Inductive sop := SLLI | SRLI | SRAI.
Inductive rop := ADD | SUB | SLL | SLT | SLTU | XOR | SRL | SRA | OR | AND
               | MUL | MULH | MULHSU | MULHU | DIV | DIVU | REM | REMU.
Inductive csrop := CSRRW | CSRRS | CSRRC | CSRRWI | CSRRSI | CSRRCI.
Inductive amoop := AMOSWAP | AMOADD | AMOXOR | AMOAND | AMOOR | AMOMIN | AMOMAX | AMOMINU | AMOMAXU.

Inductive instr :=
| Lui (rd imm : Z)                          (* rd <- imm * 2^12 ; imm signed 20 bit *)
| Auipc (rd imm : Z)
| Jal (rd off : Z)
| Jalr (rd rs1 imm : Z)
| Branch (c : bcond) (rs1 rs2 off : Z)
| Load (w : lwidth) (rd rs1 imm : Z)
| Store (w : swidth) (rs1 rs2 imm : Z)      (* rs1 = base register, rs2 = source register *)
| OpImm (o : iop) (rd rs1 imm : Z)
| ShiftImm (o : sop) (rd rs1 shamt : Z)
| Op (o : rop) (rd rs1 rs2 : Z)
| Fence (fm pred succ : Z)
| FenceI
| Ecall
| Ebreak
| Csr (o : csrop) (rd src csr : Z)          (* src = rs1 or the 5-bit uimm ; csr = 0 .. 4095 *)
| LrW (rd rs1 aq rl : Z)
| ScW (rd rs1 rs2 aq rl : Z)                (* rs1 = address, rs2 = source *)
| Amo (o : amoop) (rd rs1 rs2 aq rl : Z).

(* immediates of the five formats, as the manual draws them (figure 2.4) *)
Definition imm_i (w : Z) : Z := sext (bits w 20 12) 12.
Definition imm_s (w : Z) : Z := sext (bits w 25 7 * 32 + bits w 7 5) 12.
Definition imm_b (w : Z) : Z :=
  sext (bits w 31 1 * 4096 + bits w 7 1 * 2048 + bits w 25 6 * 32 + bits w 8 4 * 2) 13.
Definition imm_u (w : Z) : Z := sext (bits w 12 20) 20.
Definition imm_j (w : Z) : Z :=
  sext (bits w 31 1 * 1048576 + bits w 12 8 * 4096 + bits w 20 1 * 2048 + bits w 21 10 * 2) 21.

Definition dec_op (f7 f3 : Z) : option rop :=
  if f7 =? 0 then
    (if f3 =? 0 then Some ADD else if f3 =? 1 then Some SLL else if f3 =? 2 then Some SLT
     else if f3 =? 3 then Some SLTU else if f3 =? 4 then Some XOR else if f3 =? 5 then Some SRL
     else if f3 =? 6 then Some OR else Some AND)
  else if f7 =? 32 then
    (if f3 =? 0 then Some SUB else if f3 =? 5 then Some SRA else None)
  else if f7 =? 1 then
    (if f3 =? 0 then Some MUL else if f3 =? 1 then Some MULH else if f3 =? 2 then Some MULHSU
     else if f3 =? 3 then Some MULHU else if f3 =? 4 then Some DIV else if f3 =? 5 then Some DIVU
     else if f3 =? 6 then Some REM else Some REMU)
  else None.

Definition dec_amo (f5 : Z) : option amoop :=
  if f5 =? 1 then Some AMOSWAP else if f5 =? 0 then Some AMOADD else if f5 =? 4 then Some AMOXOR
  else if f5 =? 12 then Some AMOAND else if f5 =? 8 then Some AMOOR else if f5 =? 16 then Some AMOMIN
  else if f5 =? 20 then Some AMOMAX else if f5 =? 24 then Some AMOMINU else if f5 =? 28 then Some AMOMAXU
  else None.

Definition decode32 (w : Z) : option instr :=
  if negb ((0 <=? w) && (w <? 4294967296)) then None else
  let opc := bits w 0 7 in
  let rd := bits w 7 5 in
  let f3 := bits w 12 3 in
  let rs1 := bits w 15 5 in
  let rs2 := bits w 20 5 in
  let f7 := bits w 25 7 in
  if opc =? 55 then Some (Lui rd (imm_u w))                       (* 0110111 *)
  else if opc =? 23 then Some (Auipc rd (imm_u w))                (* 0010111 *)
  else if opc =? 111 then Some (Jal rd (imm_j w))                 (* 1101111 *)
  else if opc =? 103 then                                         (* 1100111 *)
    (if f3 =? 0 then Some (Jalr rd rs1 (imm_i w)) else None)
  else if opc =? 99 then                                          (* 1100011 *)
    (if f3 =? 0 then Some (Branch BEQ rs1 rs2 (imm_b w))
     else if f3 =? 1 then Some (Branch BNE rs1 rs2 (imm_b w))
     else if f3 =? 4 then Some (Branch BLT rs1 rs2 (imm_b w))
     else if f3 =? 5 then Some (Branch BGE rs1 rs2 (imm_b w))
     else if f3 =? 6 then Some (Branch BLTU rs1 rs2 (imm_b w))
     else if f3 =? 7 then Some (Branch BGEU rs1 rs2 (imm_b w))
     else None)
  else if opc =? 3 then                                           (* 0000011 *)
    (if f3 =? 0 then Some (Load LB rd rs1 (imm_i w))
     else if f3 =? 1 then Some (Load LH rd rs1 (imm_i w))
     else if f3 =? 2 then Some (Load LW rd rs1 (imm_i w))
     else if f3 =? 4 then Some (Load LBU rd rs1 (imm_i w))
     else if f3 =? 5 then Some (Load LHU rd rs1 (imm_i w))
     else None)
  else if opc =? 35 then                                          (* 0100011 *)
    (if f3 =? 0 then Some (Store SB rs1 rs2 (imm_s w))
     else if f3 =? 1 then Some (Store SH rs1 rs2 (imm_s w))
     else if f3 =? 2 then Some (Store SW rs1 rs2 (imm_s w))
     else None)
  else if opc =? 19 then                                          (* 0010011 *)
    (if f3 =? 0 then Some (OpImm ADDI rd rs1 (imm_i w))
     else if f3 =? 2 then Some (OpImm SLTI rd rs1 (imm_i w))
     else if f3 =? 3 then Some (OpImm SLTIU rd rs1 (imm_i w))
     else if f3 =? 4 then Some (OpImm XORI rd rs1 (imm_i w))
     else if f3 =? 6 then Some (OpImm ORI rd rs1 (imm_i w))
     else if f3 =? 7 then Some (OpImm ANDI rd rs1 (imm_i w))
     else if f3 =? 1 then (if f7 =? 0 then Some (ShiftImm SLLI rd rs1 rs2) else None)
     else (if f7 =? 0 then Some (ShiftImm SRLI rd rs1 rs2)
           else if f7 =? 32 then Some (ShiftImm SRAI rd rs1 rs2) else None))
  else if opc =? 51 then                                          (* 0110011 *)
    match dec_op f7 f3 with Some o => Some (Op o rd rs1 rs2) | None => None end
  else if opc =? 15 then                                          (* 0001111 MISC-MEM *)
    (if f3 =? 0 then
       (if (rd =? 0) && (rs1 =? 0) then Some (Fence (bits w 28 4) (bits w 24 4) (bits w 20 4)) else None)
     else if f3 =? 1 then
       (if (rd =? 0) && (rs1 =? 0) && (bits w 20 12 =? 0) then Some FenceI else None)
     else None)
  else if opc =? 115 then                                         (* 1110011 SYSTEM *)
    (if f3 =? 0 then
       (if (rd =? 0) && (rs1 =? 0) then
          (if bits w 20 12 =? 0 then Some Ecall else if bits w 20 12 =? 1 then Some Ebreak else None)
        else None)
     else if f3 =? 1 then Some (Csr CSRRW rd rs1 (bits w 20 12))
     else if f3 =? 2 then Some (Csr CSRRS rd rs1 (bits w 20 12))
     else if f3 =? 3 then Some (Csr CSRRC rd rs1 (bits w 20 12))
     else if f3 =? 5 then Some (Csr CSRRWI rd rs1 (bits w 20 12))
     else if f3 =? 6 then Some (Csr CSRRSI rd rs1 (bits w 20 12))
     else if f3 =? 7 then Some (Csr CSRRCI rd rs1 (bits w 20 12))
     else None)
  else if opc =? 47 then                                          (* 0101111 AMO *)
    (if f3 =? 2 then
       let f5 := bits w 27 5 in
       let aq := bits w 26 1 in
       let rl := bits w 25 1 in
       if f5 =? 2 then (if rs2 =? 0 then Some (LrW rd rs1 aq rl) else None)
       else if f5 =? 3 then Some (ScW rd rs1 rs2 aq rl)
       else match dec_amo f5 with Some o => Some (Amo o rd rs1 rs2 aq rl) | None => None end
     else None)
  else None.

(* ---- register names (psABI, table 25.1 of the manual) --------------------------------------- *)
Definition abi_names : list (string * Z) :=
  [("zero",0);("ra",1);("sp",2);("gp",3);("tp",4);("t0",5);("t1",6);("t2",7);("s0",8);("fp",8);("s1",9);
   ("a0",10);("a1",11);("a2",12);("a3",13);("a4",14);("a5",15);("a6",16);("a7",17);
   ("s2",18);("s3",19);("s4",20);("s5",21);("s6",22);("s7",23);("s8",24);("s9",25);("s10",26);("s11",27);
   ("t3",28);("t4",29);("t5",30);("t6",31)]%string.

(* ---- what a source line names: mnemonic + normalised operands -> instr ----------------------- *)
(* Operand lists are in the order of the assembler's instruction reference (docs/instruction_reference.rst):
   registers as numbers, immediates as the value the instruction applies (for lui/auipc the signed 20-bit
   value), fence as "succ, pred", atomics with aq rl appended (default 0 0). *)
Definition mk0 (i : instr) (ops : list Z) := match ops with [] => Some i | _ => None end.
Definition mk2 (f : Z -> Z -> instr) (ops : list Z) := match ops with [a; b] => Some (f a b) | _ => None end.
Definition mk3 (f : Z -> Z -> Z -> instr) (ops : list Z) :=
  match ops with [a; b; c] => Some (f a b c) | _ => None end.
Definition mk4 (f : Z -> Z -> Z -> Z -> instr) (ops : list Z) :=
  match ops with [a; b; c; d] => Some (f a b c d) | _ => None end.
Definition mk5 (f : Z -> Z -> Z -> Z -> Z -> instr) (ops : list Z) :=
  match ops with [a; b; c; d; e] => Some (f a b c d e) | _ => None end.

Definition spec32 : list (string * (list Z -> option instr)) :=
  [("lui", mk2 Lui); ("auipc", mk2 Auipc); ("jal", mk2 Jal); ("jalr", mk3 Jalr);
   ("beq", mk3 (Branch BEQ)); ("bne", mk3 (Branch BNE)); ("blt", mk3 (Branch BLT));
   ("bge", mk3 (Branch BGE)); ("bltu", mk3 (Branch BLTU)); ("bgeu", mk3 (Branch BGEU));
   ("lb", mk3 (Load LB)); ("lh", mk3 (Load LH)); ("lw", mk3 (Load LW));
   ("lbu", mk3 (Load LBU)); ("lhu", mk3 (Load LHU));
   ("sb", mk3 (Store SB)); ("sh", mk3 (Store SH)); ("sw", mk3 (Store SW));
   ("addi", mk3 (OpImm ADDI)); ("slti", mk3 (OpImm SLTI)); ("sltiu", mk3 (OpImm SLTIU));
   ("xori", mk3 (OpImm XORI)); ("ori", mk3 (OpImm ORI)); ("andi", mk3 (OpImm ANDI));
   ("slli", mk3 (ShiftImm SLLI)); ("srli", mk3 (ShiftImm SRLI)); ("srai", mk3 (ShiftImm SRAI));
   ("add", mk3 (Op ADD)); ("sub", mk3 (Op SUB)); ("sll", mk3 (Op SLL)); ("slt", mk3 (Op SLT));
   ("sltu", mk3 (Op SLTU)); ("xor", mk3 (Op XOR)); ("srl", mk3 (Op SRL)); ("sra", mk3 (Op SRA));
   ("or", mk3 (Op OR)); ("and", mk3 (Op AND));
   ("fence", fun ops => match ops with [succ; pred] => Some (Fence 0 pred succ) | _ => None end);
   ("ecall", mk0 Ecall); ("ebreak", mk0 Ebreak); ("fence.i", mk0 FenceI);
   ("csrrw", mk3 (Csr CSRRW)); ("csrrs", mk3 (Csr CSRRS)); ("csrrc", mk3 (Csr CSRRC));
   ("csrrwi", mk3 (Csr CSRRWI)); ("csrrsi", mk3 (Csr CSRRSI)); ("csrrci", mk3 (Csr CSRRCI));
   ("mul", mk3 (Op MUL)); ("mulh", mk3 (Op MULH)); ("mulhsu", mk3 (Op MULHSU)); ("mulhu", mk3 (Op MULHU));
   ("div", mk3 (Op DIV)); ("divu", mk3 (Op DIVU)); ("rem", mk3 (Op REM)); ("remu", mk3 (Op REMU));
   ("lr.w", mk4 LrW); ("sc.w", mk5 ScW);
   ("amoswap.w", mk5 (Amo AMOSWAP)); ("amoadd.w", mk5 (Amo AMOADD)); ("amoxor.w", mk5 (Amo AMOXOR));
   ("amoand.w", mk5 (Amo AMOAND)); ("amoor.w", mk5 (Amo AMOOR)); ("amomin.w", mk5 (Amo AMOMIN));
   ("amomax.w", mk5 (Amo AMOMAX)); ("amominu.w", mk5 (Amo AMOMINU)); ("amomaxu.w", mk5 (Amo AMOMAXU))]%string.

Fixpoint sassoc {V} (k : string) (l : list (string * V)) : option V :=
  match l with [] => None | (k', v) :: r => if String.eqb k k' then Some v else sassoc k r end.
Definition denote32 (name : string) (ops : list Z) : option instr :=
  match sassoc name spec32 with Some f => f ops | None => None end.
Definition base_mnemonics : list string := map fst spec32.

(* ---- canonical name + operands of a decoded instruction (inverse of denote32) ----------------- *)
Definition bcond_name (c : bcond) : string :=
  match c with BEQ => "beq" | BNE => "bne" | BLT => "blt" | BGE => "bge" | BLTU => "bltu" | BGEU => "bgeu" end.
Definition lwidth_name (w : lwidth) : string :=
  match w with LB => "lb" | LH => "lh" | LW => "lw" | LBU => "lbu" | LHU => "lhu" end.
Definition swidth_name (w : swidth) : string := match w with SB => "sb" | SH => "sh" | SW => "sw" end.
Definition iop_name (o : iop) : string :=
  match o with ADDI => "addi" | SLTI => "slti" | SLTIU => "sltiu" | XORI => "xori" | ORI => "ori" | ANDI => "andi" end.
Definition sop_name (o : sop) : string := match o with SLLI => "slli" | SRLI => "srli" | SRAI => "srai" end.
Definition rop_name (o : rop) : string :=
  match o with
  | ADD => "add" | SUB => "sub" | SLL => "sll" | SLT => "slt" | SLTU => "sltu" | XOR => "xor" | SRL => "srl"
  | SRA => "sra" | OR => "or" | AND => "and" | MUL => "mul" | MULH => "mulh" | MULHSU => "mulhsu"
  | MULHU => "mulhu" | DIV => "div" | DIVU => "divu" | REM => "rem" | REMU => "remu"
  end.
Definition csrop_name (o : csrop) : string :=
  match o with CSRRW => "csrrw" | CSRRS => "csrrs" | CSRRC => "csrrc" | CSRRWI => "csrrwi"
             | CSRRSI => "csrrsi" | CSRRCI => "csrrci" end.
Definition amoop_name (o : amoop) : string :=
  match o with AMOSWAP => "amoswap.w" | AMOADD => "amoadd.w" | AMOXOR => "amoxor.w" | AMOAND => "amoand.w"
             | AMOOR => "amoor.w" | AMOMIN => "amomin.w" | AMOMAX => "amomax.w" | AMOMINU => "amominu.w"
             | AMOMAXU => "amomaxu.w" end.
Definition name_ops (i : instr) : string * list Z :=
  match i with
  | Lui rd imm => ("lui", [rd; imm])
  | Auipc rd imm => ("auipc", [rd; imm])
  | Jal rd off => ("jal", [rd; off])
  | Jalr rd rs1 imm => ("jalr", [rd; rs1; imm])
  | Branch c rs1 rs2 off => (bcond_name c, [rs1; rs2; off])
  | Load w rd rs1 imm => (lwidth_name w, [rd; rs1; imm])
  | Store w rs1 rs2 imm => (swidth_name w, [rs1; rs2; imm])
  | OpImm o rd rs1 imm => (iop_name o, [rd; rs1; imm])
  | ShiftImm o rd rs1 sh => (sop_name o, [rd; rs1; sh])
  | Op o rd rs1 rs2 => (rop_name o, [rd; rs1; rs2])
  | Fence fm pred succ => if Z.eqb fm 0 then ("fence", [succ; pred]) else ("fence", [succ; pred; fm])
  | FenceI => ("fence.i", [])
  | Ecall => ("ecall", [])
  | Ebreak => ("ebreak", [])
  | Csr o rd src csr => (csrop_name o, [rd; src; csr])
  | LrW rd rs1 aq rl => ("lr.w", [rd; rs1; aq; rl])
  | ScW rd rs1 rs2 aq rl => ("sc.w", [rd; rs1; rs2; aq; rl])
  | Amo o rd rs1 rs2 aq rl => (amoop_name o, [rd; rs1; rs2; aq; rl])
  end%string.
