(* Extraction of the DfuSe device SPECIFICATION only (oracle of the C18 / C19 falsifiers). *)
From Coq Require Import ZArith List String.
From Coq Require Import ExtrOcamlBasic ExtrOcamlString.
From BB Require Import Spec.DfuDev.
Extraction Language OCaml.
Separate Extraction
  BinInt.Z.add BinInt.Z.mul BinInt.Z.opp BinInt.Z.div_eucl BinInt.Z.eqb BinInt.Z.ltb
  DfuDev.init_dev DfuDev.on_request DfuDev.on_sleep DfuDev.run_trace DfuDev.spec_variants.
