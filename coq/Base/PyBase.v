(* Python built-ins the assembler leans on, modelled by hand (trusted; tied to CPython by the
   differential tests of tools/corr_pybase.py).  No proofs in this file. *)
From Coq Require Import ZArith List Bool String Ascii.
Import ListNotations.
Open Scope Z_scope.

(* ---- exceptions / result monad ------------------------------------------------------------ *)
Inductive exn := ValueError | KeyError | TypeError | AttributeError | StructError | AssertionError | AssemblerError | OtherExn.
Inductive res (A : Type) := Ok (a : A) | Err (e : exn).
Arguments Ok {A}. Arguments Err {A}.
Definition bind {A B} (r : res A) (f : A -> res B) : res B :=
  match r with Ok a => f a | Err e => Err e end.
Notation "x <- r ;; k" := (bind r (fun x => k)) (at level 61, r at next level, right associativity).
Definition guard (b : bool) (e : exn) : res unit := if b then Err e else Ok tt.
Definition exn_eqb (a b : exn) : bool :=
  match a, b with
  | ValueError, ValueError | KeyError, KeyError | TypeError, TypeError | AttributeError, AttributeError
  | StructError, StructError | AssertionError, AssertionError | AssemblerError, AssemblerError | OtherExn, OtherExn => true
  | _, _ => false
  end.

(* ---- operands as the encoders receive them ------------------------------------------------ *)
Inductive arg := AInt (z : Z) | AStr (s : string).
Inductive key := KInt (z : Z) | KStr (s : string).
Definition key_eqb (a b : key) : bool :=
  match a, b with
  | KInt x, KInt y => Z.eqb x y
  | KStr x, KStr y => String.eqb x y
  | _, _ => false
  end.
Fixpoint assoc_key {V} (k : key) (l : list (key * V)) : option V :=
  match l with [] => None | (k', v) :: r => if key_eqb k k' then Some v else assoc_key k r end.
Fixpoint assoc_str {V} (k : string) (l : list (string * V)) : option V :=
  match l with [] => None | (k', v) :: r => if String.eqb k k' then Some v else assoc_str k r end.
(* dict built by literal / update: the LAST binding of a key wins, position of the first stays *)
Fixpoint dict_set {V} (k : string) (v : V) (l : list (string * V)) : list (string * V) :=
  match l with
  | [] => [(k, v)]
  | (k', v') :: r => if String.eqb k k' then (k', v) :: r else (k', v') :: dict_set k v r
  end.
Definition dict_update {V} (d e : list (string * V)) : list (string * V) :=
  fold_left (fun acc kv => dict_set (fst kv) (snd kv) acc) e d.
Definition mem_str (k : string) (l : list string) : bool := existsb (String.eqb k) l.

(* ---- characters --------------------------------------------------------------------------- *)
Definition zc (c : ascii) : Z := Z.of_N (N_of_ascii c).
Definition is_ws (c : ascii) : bool :=
  let n := zc c in ((9 <=? n) && (n <=? 13)) || ((28 <=? n) && (n <=? 32)).
Definition lower_c (c : ascii) : ascii :=
  let n := zc c in if (65 <=? n) && (n <=? 90) then ascii_of_N (Z.to_N (n + 32)) else c.
Fixpoint lower (s : string) : string :=
  match s with EmptyString => EmptyString | String c r => String (lower_c c) (lower r) end.
Fixpoint lstrip_l (l : list ascii) : list ascii :=
  match l with c :: r => if is_ws c then lstrip_l r else l | [] => [] end.
Definition strip_l (l : list ascii) : list ascii := rev (lstrip_l (rev (lstrip_l l))).
Definition chars (s : string) : list ascii := list_ascii_of_string s.
Definition unchars (l : list ascii) : string := string_of_list_ascii l.

(* ---- int(s, base=0) ----------------------------------------------------------------------- *)
Definition digit_val (c : ascii) : option Z :=
  let n := zc c in
  if (48 <=? n) && (n <=? 57) then Some (n - 48)
  else if (97 <=? n) && (n <=? 122) then Some (n - 87)
  else if (65 <=? n) && (n <=? 90) then Some (n - 55)
  else None.
Definition is_us (c : ascii) : bool := zc c =? 95.
(* digits of base b with single underscores between digits; [us_ok]: an underscore may come next;
   [seen]: at least one digit consumed *)
Fixpoint digs (b acc : Z) (us_ok seen : bool) (l : list ascii) : option Z :=
  match l with
  | [] => if seen && us_ok then Some acc else None
  | c :: r =>
      if is_us c then (if us_ok then digs b acc false seen r else None)
      else match digit_val c with
           | Some d => if d <? b then digs b (acc * b + d) true true r else None
           | None => None
           end
  end.
Definition all_zero_us (l : list ascii) : bool := forallb (fun c => is_us c || (zc c =? 48)) l.
Definition int_body (l : list ascii) : option Z :=
  match l with
  | [] => None
  | c0 :: r0 =>
      if zc c0 =? 48 then
        match r0 with
        | [] => Some 0
        | c1 :: r1 =>
            let n1 := zc (lower_c c1) in
            if n1 =? 120 then digs 16 0 true false r1
            else if n1 =? 111 then digs 8 0 true false r1
            else if n1 =? 98 then digs 2 0 true false r1
            else if all_zero_us l then digs 10 0 false false l else None
        end
      else digs 10 0 false false l
  end.
Definition py_int_lit_l (l : list ascii) : option Z :=
  match strip_l l with
  | [] => None
  | c :: r =>
      if zc c =? 45 then option_map Z.opp (int_body r)
      else if zc c =? 43 then int_body r
      else int_body (c :: r)
  end.
Definition py_int_lit (s : string) : option Z := py_int_lit_l (chars s).
Definition is_int (s : string) : bool := match py_int_lit s with Some _ => true | None => false end.

(* `x if type(x) == int else int(x, base=0)` *)
Definition as_int (a : arg) : res Z :=
  match a with
  | AInt z => Ok z
  | AStr s => match py_int_lit s with Some z => Ok z | None => Err ValueError end
  end.
(* an operand used in arithmetic must be an int; a str there raises TypeError *)
Definition as_imm (a : arg) : res Z := match a with AInt z => Ok z | AStr _ => Err TypeError end.

(* ---- ctypes ------------------------------------------------------------------------------- *)
Definition c_uint32 (x : Z) : Z := x mod 2^32.
Definition c_int32 (x : Z) : Z := let u := x mod 2^32 in if u <? 2^31 then u else u - 2^32.

(* ---- keyword dictionaries handed to the constraint closures --------------------------------- *)
Definition kwargs := list (string * Z).
Definition kwget (kw : kwargs) (f : string) : res Z :=
  match assoc_str f kw with Some v => Ok v | None => Err KeyError end.
Fixpoint run_constraints (cs : list (kwargs -> res unit)) (kw : kwargs) : res unit :=
  match cs with [] => Ok tt | c :: r => _ <- c kw ;; run_constraints r kw end.

(* decimal rendering (for canonical text of operands) *)
Definition digit_char (d : Z) : ascii := ascii_of_N (Z.to_N (48 + d)).
Fixpoint dec_pos (fuel : nat) (n : Z) (acc : list ascii) : list ascii :=
  match fuel with
  | O => acc
  | S f => if n <? 10 then digit_char n :: acc else dec_pos f (n / 10) (digit_char (n mod 10) :: acc)
  end.
Definition dec_of_Z (z : Z) : string :=
  if z <? 0 then String "-"%char (unchars (dec_pos 80 (- z) [])) else unchars (dec_pos 80 z []).

(* ---- the view of an item that the compression predicates see ---------------------------------- *)
(* getattr(i, f) for the register fields (AttributeError when the class has no such field), i.name, and
   i.imm.eval(position, env, line) (an AssemblerError when the expression does not evaluate) *)
Record iview := { iv_name : string; iv_attr : string -> res arg; iv_imm : res Z }.
