(* Bit-field arithmetic on Z used by every encoder / decoder proof. No axioms. *)
From Coq Require Import ZArith List Bool Lia ZifyBool.
Open Scope Z_scope.

Definition bits (w lo n : Z) : Z := (w / 2^lo) mod 2^n.
Definition sext (v n : Z) : Z := if v <? 2^(n-1) then v else v - 2^n.

Lemma land_ones_mod a n : 0 <= n -> Z.land a (2^n - 1) = a mod 2^n.
Proof. intros. replace (2^n - 1) with (Z.ones n) by (rewrite Z.ones_equiv; lia). apply Z.land_ones; auto. Qed.

Lemma testbit_small a k n : 0 <= a < 2^k -> k <= n -> Z.testbit a n = false.
Proof.
  intros [Ha0 Ha] Hkn.
  destruct (Z.eq_dec a 0) as [->|Hne]; [apply Z.bits_0|].
  apply Z.bits_above_log2; [lia|].
  assert (Z.log2 a < k) by (apply Z.log2_lt_pow2; lia). lia.
Qed.

Lemma land_disjoint a b k : 0 <= k -> 0 <= a < 2^k -> Z.land a (Z.shiftl b k) = 0.
Proof.
  intros Hk Ha. apply Z.bits_inj'. intros n Hn.
  rewrite Z.land_spec, Z.bits_0.
  destruct (Z.ltb_spec n k).
  - rewrite Z.shiftl_spec_low by lia. apply andb_false_r.
  - rewrite (testbit_small a k n) by lia. reflexivity.
Qed.

Lemma lor_disjoint_add a b k : 0 <= k -> 0 <= a < 2^k -> Z.lor a (Z.shiftl b k) = a + b * 2^k.
Proof.
  intros Hk Ha.
  rewrite <- Z.lxor_lor by (apply land_disjoint; auto).
  rewrite <- Z.add_nocarry_lxor by (apply land_disjoint; auto).
  rewrite Z.shiftl_mul_pow2 by auto. reflexivity.
Qed.

Lemma bits_low a b k lo n : 0 <= lo -> 0 <= n -> lo + n <= k -> bits (a + b * 2^k) lo n = bits a lo n.
Proof.
  intros Hlo Hn Hk. unfold bits.
  replace (2^k) with (2^lo * 2^n * 2^(k-lo-n)) by (rewrite <- !Z.pow_add_r by lia; f_equal; lia).
  replace (a + b * (2 ^ lo * 2 ^ n * 2 ^ (k - lo - n))) with (a + (b * 2^(k-lo-n) * 2^n) * 2^lo) by ring.
  rewrite Z.div_add by (apply Z.pow_nonzero; lia).
  rewrite Z.mod_add by (apply Z.pow_nonzero; lia). reflexivity.
Qed.

Lemma bits_high a b k lo n : 0 <= k <= lo -> 0 <= a < 2^k -> bits (a + b * 2^k) lo n = bits b (lo - k) n.
Proof.
  intros Hk Ha. unfold bits.
  replace (2^lo) with (2^k * 2^(lo-k)) by (rewrite <- Z.pow_add_r by lia; f_equal; lia).
  rewrite <- Z.div_div by (try apply Z.pow_nonzero; try apply Z.pow_pos_nonneg; lia).
  rewrite Z.div_add by (apply Z.pow_nonzero; lia).
  rewrite (Z.div_small a) by lia. reflexivity.
Qed.

Lemma bits_self v n : 0 <= v < 2^n -> bits v 0 n = v.
Proof. intros. unfold bits. rewrite Z.pow_0_r, Z.div_1_r. apply Z.mod_small; auto. Qed.

Lemma bits_range w lo n : 0 <= n -> 0 <= bits w lo n < 2^n.
Proof. intros. unfold bits. apply Z.mod_pos_bound. apply Z.pow_pos_nonneg; lia. Qed.

Lemma shiftr_bits a k : 0 <= k -> Z.shiftr a k = a / 2^k.
Proof. intros; apply Z.shiftr_div_pow2; auto. Qed.

Lemma sext_range v n : 1 <= n -> 0 <= v < 2^n -> - 2^(n-1) <= sext v n < 2^(n-1).
Proof.
  intros Hn Hv. unfold sext.
  assert (2^n = 2 * 2^(n-1)) by (replace n with (1 + (n-1)) at 1 by lia; rewrite Z.pow_add_r by lia; reflexivity).
  destruct (v <? 2^(n-1)) eqn:E; lia.
Qed.

Lemma sext_mod v n : 1 <= n -> - 2^(n-1) <= v < 2^(n-1) -> sext (v mod 2^n) n = v.
Proof.
  intros Hn Hv. unfold sext.
  assert (Hp: 2^n = 2 * 2^(n-1)) by (replace n with (1 + (n-1)) at 1 by lia; rewrite Z.pow_add_r by lia; reflexivity).
  assert (0 < 2^(n-1)) by (apply Z.pow_pos_nonneg; lia).
  destruct (Z.ltb_spec v 0).
  - assert (Hm: v mod 2^n = v + 2^n).
    { symmetry. apply Z.mod_unique with (q := -1); lia. }
    rewrite Hm. destruct (v + 2^n <? 2^(n-1)) eqn:E; lia.
  - rewrite Z.mod_small by lia. destruct (v <? 2^(n-1)) eqn:E; lia.
Qed.

Lemma Some_inj {A} (a b : A) : Some a = Some b -> a = b.
Proof. congruence. Qed.

(* ranges for finite sweeps, built without large nat literals *)
Definition zrange (lo : Z) (n : nat) : list Z := map (fun i => lo + Z.of_nat i) (seq 0 n).
Lemma zrange_in lo n x : lo <= x < lo + Z.of_nat n -> In x (zrange lo n).
Proof.
  intros H. unfold zrange. apply in_map_iff. exists (Z.to_nat (x - lo)). split; [lia|].
  apply in_seq. lia.
Qed.
Definition r256 : list Z := zrange 0 256.
Definition all16 : list Z := flat_map (fun hi => map (fun lo => hi * 256 + lo) r256) r256.
Lemma all16_in h : 0 <= h < 65536 -> In h all16.
Proof.
  intros H. unfold all16. apply in_flat_map. exists (h / 256). split.
  - apply zrange_in. simpl. assert (h/256 < 256) by (apply Z.div_lt_upper_bound; lia).
    assert (0 <= h/256) by (apply Z.div_pos; lia). lia.
  - apply in_map_iff. exists (h mod 256). split.
    + rewrite Z.mul_comm. symmetry. apply Z.div_mod. lia.
    + apply zrange_in. simpl. assert (0 <= h mod 256 < 256) by (apply Z.mod_pos_bound; lia). lia.
Qed.
