(* Extraction of the executable model (Gen + Model). *)
From Coq Require Import ZArith List String.
From Coq Require Import ExtrOcamlBasic ExtrOcamlString.
From BB Require Import Base.PyBase Gen.Encoders Gen.Criteria Model.Items Model.Passes Model.Render.
Extraction Language OCaml.
Separate Extraction
  BinInt.Z.add BinInt.Z.mul BinInt.Z.opp BinInt.Z.div_eucl BinInt.Z.eqb BinInt.Z.ltb
  PyBase.py_int_lit PyBase.as_int
  Encoders.relocate_hi Encoders.relocate_lo Encoders.sign_extend Encoders.lookup_register
  Encoders.INSTRUCTIONS_final
  Passes.assemble_items Render.render.
