(* Integer literal spellings by induction: the decimal / hex / binary renderers of LexFront.v are read back by the
   int(s, 0) model of PyBase.v, for the whole range each renderer's fuel allows (LexFront.int_spellings is a sweep
   over 0..65535 only). *)
From Coq Require Import ZArith List Bool String Ascii Lia.
From BB Require Import Base.PyBase Proofs.LexFront.
Import ListNotations.
Open Scope Z_scope.
Open Scope list_scope.

(* ---- the sixteen digit characters ------------------------------------------------------------------------------ *)
Definition nws (c : ascii) : Prop := is_ws c = false.

Lemma d16_cases d : 0 <= d < 16 ->
  d = 0 \/ d = 1 \/ d = 2 \/ d = 3 \/ d = 4 \/ d = 5 \/ d = 6 \/ d = 7 \/ d = 8 \/ d = 9 \/ d = 10 \/ d = 11 \/
  d = 12 \/ d = 13 \/ d = 14 \/ d = 15.
Proof. lia. Qed.

Lemma hexdig_val d : 0 <= d < 16 -> digit_val (hexdig d) = Some d.
Proof.
  intros H. apply d16_cases in H.
  repeat (destruct H as [H|H]; [subst d; vm_compute; reflexivity|]). subst d; vm_compute; reflexivity.
Qed.
Lemma hexdig_us d : 0 <= d < 16 -> is_us (hexdig d) = false.
Proof.
  intros H. apply d16_cases in H.
  repeat (destruct H as [H|H]; [subst d; vm_compute; reflexivity|]). subst d; vm_compute; reflexivity.
Qed.
Lemma hexdig_nws d : 0 <= d < 16 -> nws (hexdig d).
Proof.
  intros H. apply d16_cases in H. unfold nws.
  repeat (destruct H as [H|H]; [subst d; vm_compute; reflexivity|]). subst d; vm_compute; reflexivity.
Qed.
Lemma hexdig_not_sign d : 0 <= d < 16 -> (zc (hexdig d) =? 45) = false /\ (zc (hexdig d) =? 43) = false.
Proof.
  intros H. apply d16_cases in H.
  repeat (destruct H as [H|H]; [subst d; vm_compute; split; reflexivity|]). subst d; vm_compute; split; reflexivity.
Qed.
Lemma hexdig_not_zero d : 1 <= d < 16 -> (zc (hexdig d) =? 48) = false.
Proof.
  intros H. assert (H' : 0 <= d < 16) by lia. apply d16_cases in H'.
  destruct H' as [H'|H']; [lia|].
  repeat (destruct H' as [H'|H']; [subst d; vm_compute; reflexivity|]). subst d; vm_compute; reflexivity.
Qed.

(* ---- strip is the identity on texts without whitespace ------------------------------------------------------------ *)
Lemma lstrip_id l : Forall nws l -> lstrip_l l = l.
Proof.
  destruct l as [|c r]; [reflexivity|]. intros H. inversion H as [|? ? Hc Hr]; subst.
  cbn [lstrip_l]. unfold nws in Hc. rewrite Hc. reflexivity.
Qed.
Lemma strip_id l : Forall nws l -> strip_l l = l.
Proof.
  intros H. unfold strip_l. rewrite (lstrip_id l H).
  rewrite lstrip_id by (apply Forall_rev; exact H). apply rev_involutive.
Qed.

(* ---- the decimal renderer is the base-10 instance of digits_base --------------------------------------------------- *)
Lemma dec_pos_eq fuel : forall n acc, 0 <= n -> dec_pos fuel n acc = digits_base 10 fuel n acc.
Proof.
  induction fuel as [|f IH]; intros n acc Hn; [reflexivity|].
  cbn [dec_pos digits_base]. destruct (n <? 10) eqn:E.
  - unfold hexdig. rewrite E. reflexivity.
  - assert (Hm : 0 <= n mod 10 < 10) by (apply Z.mod_pos_bound; reflexivity).
    unfold hexdig. replace (n mod 10 <? 10) with true by (symmetry; apply Z.ltb_lt; apply Hm).
    apply IH. apply Z.div_pos; [exact Hn | reflexivity].
Qed.

(* ---- renderer / parser loop, any base 2..16 ------------------------------------------------------------------------ *)
Section Base.
Variable b : Z.
Hypothesis Hb : 2 <= b <= 16.

Lemma digs_hexdig a u s d r : 0 <= d < b -> digs b a u s (hexdig d :: r) = digs b (a * b + d) true true r.
Proof.
  intros Hd. cbn [digs]. rewrite hexdig_us, hexdig_val by lia.
  replace (d <? b) with true by (symmetry; apply Z.ltb_lt; lia). reflexivity.
Qed.

Lemma step_bounds f n : b <= n < b ^ Z.of_nat (S f) ->
  1 <= n / b < b ^ Z.of_nat f /\ 0 <= n mod b < b /\ n / b * b + n mod b = n.
Proof.
  intros H. rewrite Nat2Z.inj_succ, Z.pow_succ_r in H by lia.
  split; [split|split].
  - apply Z.div_le_lower_bound; lia.
  - apply Z.div_lt_upper_bound; lia.
  - apply Z.mod_pos_bound; lia.
  - rewrite (Z.mul_comm (n / b) b). symmetry. apply Z.div_mod. lia.
Qed.

Lemma pow_fuel_0 q : 1 <= q < b ^ Z.of_nat 0 -> False.
Proof. change (Z.of_nat 0) with 0. rewrite Z.pow_0_r. lia. Qed.

Lemma digs_digits_base fuel : forall n acc u s, fuel <> O -> 0 <= n < b ^ Z.of_nat fuel ->
  digs b 0 u s (digits_base b fuel n acc) = digs b n true true acc.
Proof.
  induction fuel as [|f IH]; intros n acc u s Hf Hn; [congruence|].
  cbn [digits_base]. destruct (n <? b) eqn:E.
  - apply Z.ltb_lt in E. rewrite digs_hexdig by lia. replace (0 * b + n) with n by lia. reflexivity.
  - apply Z.ltb_ge in E. destruct (step_bounds f n) as (Hq & Hm & Hd); [lia|].
    rewrite IH; [| intros ->; exact (pow_fuel_0 _ Hq) | lia].
    rewrite digs_hexdig by exact Hm. rewrite Hd. reflexivity.
Qed.

Lemma digits_base_head fuel : forall n acc, fuel <> O -> 1 <= n < b ^ Z.of_nat fuel ->
  exists d r, digits_base b fuel n acc = hexdig d :: r /\ 1 <= d < b.
Proof.
  induction fuel as [|f IH]; intros n acc Hf Hn; [congruence|].
  cbn [digits_base]. destruct (n <? b) eqn:E.
  - apply Z.ltb_lt in E. exists n, acc. split; [reflexivity | lia].
  - apply Z.ltb_ge in E. destruct (step_bounds f n) as (Hq & Hm & Hd); [lia|].
    apply IH; [intros ->; exact (pow_fuel_0 _ Hq) | exact Hq].
Qed.

Lemma digits_base_nws fuel : forall n acc, 0 <= n -> Forall nws acc -> Forall nws (digits_base b fuel n acc).
Proof.
  induction fuel as [|f IH]; intros n acc Hn Ha; [exact Ha|].
  cbn [digits_base]. destruct (n <? b) eqn:E.
  - apply Z.ltb_lt in E. constructor; [apply hexdig_nws; lia | exact Ha].
  - apply IH; [apply Z.div_pos; lia|].
    constructor; [|exact Ha]. apply hexdig_nws.
    assert (0 <= n mod b < b) by (apply Z.mod_pos_bound; lia). lia.
Qed.

Lemma parse_digits fuel n u : fuel <> O -> 0 <= n < b ^ Z.of_nat fuel ->
  digs b 0 u false (digits_base b fuel n []) = Some n.
Proof. intros Hf Hn. rewrite digs_digits_base by assumption. reflexivity. Qed.
End Base.

(* ---- the literal reader on the rendered texts ---------------------------------------------------------------------- *)
Lemma chars_unchars l : chars (unchars l) = l.
Proof. apply list_ascii_of_string_of_list_ascii. Qed.

Lemma lit_digit d r : 0 <= d < 16 -> Forall nws r -> py_int_lit_l (hexdig d :: r) = int_body (hexdig d :: r).
Proof.
  intros Hd Hr. unfold py_int_lit_l. rewrite strip_id by (constructor; [apply hexdig_nws; exact Hd | exact Hr]).
  destruct (hexdig_not_sign d Hd) as (H1 & H2). rewrite H1, H2. reflexivity.
Qed.
Lemma lit_minus l : Forall nws l -> py_int_lit_l ("-"%char :: l) = option_map Z.opp (int_body l).
Proof.
  intros Hl. unfold py_int_lit_l. rewrite strip_id by (constructor; [reflexivity | exact Hl]). reflexivity.
Qed.
Lemma lit_prefixed p l : nws p -> (zc p =? 45) = false -> (zc p =? 43) = false -> Forall nws l ->
  py_int_lit_l ("0"%char :: p :: l) = int_body ("0"%char :: p :: l).
Proof.
  intros Hp H1 H2 Hl. unfold py_int_lit_l.
  rewrite strip_id by (constructor; [reflexivity | constructor; [exact Hp | exact Hl]]). reflexivity.
Qed.

Lemma ten_ok : 2 <= 10 <= 16. Proof. lia. Qed.
Lemma sixteen_ok : 2 <= 16 <= 16. Proof. lia. Qed.
Lemma two_ok : 2 <= 2 <= 16. Proof. lia. Qed.

(* decimal digits of a positive number: no leading zero, so int_body takes the plain base-10 branch *)
Lemma dec_body_pos v : 1 <= v < 10 ^ 80 -> int_body (digits_base 10 80 v []) = Some v.
Proof.
  intros Hv. change 80 with (Z.of_nat 80) in Hv.
  destruct (digits_base_head 10 ten_ok 80 v []) as (d & r & E & Hd); [discriminate | exact Hv |].
  rewrite E. unfold int_body. rewrite hexdig_not_zero by lia. rewrite <- E.
  apply (parse_digits 10 ten_ok); [discriminate | lia].
Qed.

Lemma dec_lit_pos v : 1 <= v < 10 ^ 80 -> py_int_lit_l (digits_base 10 80 v []) = Some v.
Proof.
  intros Hv. pose proof (dec_body_pos v Hv) as Hbody.
  pose proof (digits_base_nws 10 ten_ok 80 v [] ltac:(lia) (Forall_nil _)) as Hn.
  assert (Hv' : 1 <= v < 10 ^ Z.of_nat 80) by exact Hv.
  destruct (digits_base_head 10 ten_ok 80 v []) as (d & r & E & Hd); [discriminate | exact Hv' |].
  rewrite E in *. inversion Hn as [|? ? Hc Hr]; subst.
  rewrite lit_digit by (try exact Hr; lia). exact Hbody.
Qed.

Theorem dec_spelling v : 0 <= v < 10 ^ 80 -> py_int_lit (dec_of_Z v) = Some v.
Proof.
  intros Hv. unfold dec_of_Z. replace (v <? 0) with false by (symmetry; apply Z.ltb_ge; lia).
  unfold py_int_lit. rewrite chars_unchars, dec_pos_eq by lia.
  destruct (Z.eq_dec v 0) as [->|Hnz]; [vm_compute; reflexivity|].
  apply dec_lit_pos. lia.
Qed.

Theorem dec_neg_spelling v : 0 <= v < 10 ^ 80 -> py_int_lit (dec_of_Z (- v)) = Some (- v).
Proof.
  intros Hv. destruct (Z.eq_dec v 0) as [->|Hnz]; [vm_compute; reflexivity|].
  unfold dec_of_Z. replace (- v <? 0) with true by (symmetry; apply Z.ltb_lt; lia).
  rewrite Z.opp_involutive. unfold py_int_lit.
  change (chars (String "-" (unchars (dec_pos 80 v [])))) with ("-"%char :: chars (unchars (dec_pos 80 v []))).
  rewrite chars_unchars, dec_pos_eq by lia.
  rewrite lit_minus by (apply (digits_base_nws 10 ten_ok); [lia | constructor]).
  rewrite dec_body_pos by lia. reflexivity.
Qed.

Theorem hex_spelling v : 0 <= v < 16 ^ 20 -> py_int_lit (hex_of v) = Some v.
Proof.
  intros Hv. unfold py_int_lit, hex_of. rewrite chars_unchars.
  rewrite lit_prefixed; [| reflexivity | reflexivity | reflexivity | apply (digits_base_nws 16 sixteen_ok); [lia | constructor]].
  change (int_body ("0"%char :: "x"%char :: digits_base 16 20 v [])) with (digs 16 0 true false (digits_base 16 20 v [])).
  apply (parse_digits 16 sixteen_ok); [discriminate | exact Hv].
Qed.

Theorem bin_spelling v : 0 <= v < 2 ^ 70 -> py_int_lit (bin_of v) = Some v.
Proof.
  intros Hv. unfold py_int_lit, bin_of. rewrite chars_unchars.
  rewrite lit_prefixed; [| reflexivity | reflexivity | reflexivity | apply (digits_base_nws 2 two_ok); [lia | constructor]].
  change (int_body ("0"%char :: "b"%char :: digits_base 2 70 v [])) with (digs 2 0 true false (digits_base 2 70 v [])).
  apply (parse_digits 2 two_ok); [discriminate | exact Hv].
Qed.

(* ---- the four spellings together ------------------------------------------------------------------------------------ *)
Lemma lt_2_64_dec : 2 ^ 64 < 10 ^ 80. Proof. vm_compute. reflexivity. Qed.
Lemma lt_2_64_hex : 2 ^ 64 < 16 ^ 20. Proof. vm_compute. reflexivity. Qed.
Lemma lt_2_64_bin : 2 ^ 64 < 2 ^ 70. Proof. vm_compute. reflexivity. Qed.

(* every spelling on the full range its fuel allows *)
Theorem int_spellings_full : forall v : Z, 0 <= v ->
  (v < 10 ^ 80 -> py_int_lit (dec_of_Z v) = Some v) /\ (v < 16 ^ 20 -> py_int_lit (hex_of v) = Some v) /\
  (v < 2 ^ 70 -> py_int_lit (bin_of v) = Some v) /\ (v < 10 ^ 80 -> py_int_lit (dec_of_Z (- v)) = Some (- v)).
Proof.
  intros v H0. repeat split; intros H.
  - apply dec_spelling; split; assumption.
  - apply hex_spelling; split; assumption.
  - apply bin_spelling; split; assumption.
  - apply dec_neg_spelling; split; assumption.
Qed.

Theorem int_spellings_wide : forall v : Z, 0 <= v < 2 ^ 64 ->
  py_int_lit (dec_of_Z v) = Some v /\ py_int_lit (hex_of v) = Some v /\ py_int_lit (bin_of v) = Some v /\
  py_int_lit (dec_of_Z (- v)) = Some (- v).
Proof.
  intros v [H0 H1].
  pose proof (Z.lt_trans _ _ _ H1 lt_2_64_dec) as Hd.
  pose proof (Z.lt_trans _ _ _ H1 lt_2_64_hex) as Hh.
  pose proof (Z.lt_trans _ _ _ H1 lt_2_64_bin) as Hbn.
  split; [apply dec_spelling; split; assumption|].
  split; [apply hex_spelling; split; assumption|].
  split; [apply bin_spelling; split; assumption|].
  apply dec_neg_spelling; split; assumption.
Qed.

Print Assumptions int_spellings_full.
Print Assumptions int_spellings_wide.
