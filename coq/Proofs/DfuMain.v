(* Proofs.DfuMain -- the whole fault-free run of Model.DfuHost.cli_main against the Spec device (C18). *)
From Coq Require Import ZArith List Bool String Lia.
From BB Require Import Spec.DfuDev Gen.Dfu Model.DfuHost Proofs.DfuDevice Proofs.DfuRun Proofs.DfuFlash.
Import ListNotations.
Open Scope Z_scope.

(* ------------------------------------------------------------------ device table vs the data sheet *)
Lemma variant_pages c size : In (c, size) spec_variants ->
  exists pc, lookup_pages c device_table = Some pc /\ pc * page_size = size /\ 0 < pc <= 128.
Proof.
  intros H. cbn in H.
  repeat (destruct H as [H | H]; [injection H as <- <-; eexists; split; [reflexivity | split; [reflexivity | lia]]|]).
  contradiction.
Qed.

(* ------------------------------------------------------------------ page count and padding *)
Definition pages_of (n : Z) : Z := (n + 1023) / 1024.

Lemma pad_pages_eq n : 0 <= n -> pad_pages n = pages_of n.
Proof.
  intros H. unfold pad_pages, pages_of, page_size.
  pose proof (Z.div_mod n 1024 ltac:(lia)). pose proof (Z.mod_pos_bound n 1024 ltac:(lia)).
  destruct (Z.eqb_spec (n mod 1024) 0) as [E|E]; cbn [negb].
  - apply Z.div_unique with (r := 1023); lia.
  - apply Z.div_unique with (r := n mod 1024 - 1); lia.
Qed.

Lemma pad_total n : 0 <= n -> n + pad_count n = pad_pages n * 1024.
Proof.
  intros H. unfold pad_pages, pad_count, page_size.
  pose proof (Z.div_mod n 1024 ltac:(lia)). pose proof (Z.mod_pos_bound n 1024 ltac:(lia)).
  destruct (Z.eqb_spec (n mod 1024) 0) as [E|E]; cbn [negb]; lia.
Qed.

Lemma pages_bounds n pc : 0 <= n -> too_large n pc = false -> 0 <= pad_pages n <= pc.
Proof.
  intros H T. unfold too_large, page_size in T. apply Z.gtb_ltb in T || idtac.
  assert (L : n <= 1024 * pc) by (destruct (Z.gtb_spec n (1024 * pc)); [discriminate | lia]).
  unfold pad_pages, page_size.
  pose proof (Z.div_mod n 1024 ltac:(lia)). pose proof (Z.mod_pos_bound n 1024 ltac:(lia)).
  assert (0 <= n / 1024) by (apply Z.div_pos; lia).
  destruct (Z.eqb_spec (n mod 1024) 0) as [E|E]; cbn [negb]; lia.
Qed.

Lemma concat_repeat_len (chunk : list Z) k : List.length (List.concat (repeat chunk k)) = (k * List.length chunk)%nat.
Proof. induction k; cbn; [reflexivity | rewrite app_length, IHk; reflexivity]. Qed.

Lemma padded_len fw : Z.of_nat (List.length (padded fw)) = pad_pages (Z.of_nat (List.length fw)) * 1024.
Proof.
  unfold padded. rewrite app_length, concat_repeat_len. change (List.length pad_chunk) with 1%nat.
  rewrite <- pad_total by lia.
  assert (0 <= pad_count (Z.of_nat (List.length fw))).
  { unfold pad_count. destruct (negb _); lia. }
  lia.
Qed.

Lemma padded_nth fw i : nth i (padded fw) 0 = nth i fw 0.
Proof.
  unfold padded. destruct (Nat.lt_ge_cases i (List.length fw)) as [L|L].
  - apply app_nth1. exact L.
  - rewrite app_nth2 by exact L. rewrite (nth_overflow fw) by exact L.
    generalize (i - List.length fw)%nat. generalize (Z.to_nat (pad_count (Z.of_nat (List.length fw)))).
    change pad_chunk with [0]. induction n as [|n IH]; intros j; cbn; [destruct j; reflexivity|].
    destruct j; [reflexivity | apply IH].
Qed.

(* ------------------------------------------------------------------ list plumbing *)
Lemma Forall_firstn' {A} (P : A -> Prop) n l : Forall P l -> Forall P (firstn n l).
Proof. revert l. induction n; intros l H; [constructor|]. destruct l; [constructor|]. inversion H; subst. cbn. constructor; auto. Qed.
Lemma Forall_skipn' {A} (P : A -> Prop) n l : Forall P l -> Forall P (skipn n l).
Proof. revert l. induction n; intros l H; [exact H|]. destruct l; [constructor|]. inversion H; subst. cbn. auto. Qed.

Lemma good_all fuel l : wf_sched l -> Forall no_err l -> Forall (fits fuel) l -> Forall (good fuel) l.
Proof.
  intros A B C. apply Forall_forall. intros x I. unfold good.
  split; [|split]; [apply (proj1 (Forall_forall _ l) A) | apply (proj1 (Forall_forall _ l) B) | apply (proj1 (Forall_forall _ l) C)];
    exact I.
Qed.

(* ------------------------------------------------------------------ the status check at the start *)
Definition init_state (st0 : dstate) : Prop := st0 = Idle \/ exists x, st0 = Error x.

Lemma initial_status_ok m st0 sc tr : init_state st0 ->
  exists new, Forall quiet new /\ initial_status (mkDev m st0 sc 0 0, tr) = Ret tt (mkDev m Idle sc 0 0, new ++ tr).
Proof.
  intros [-> | [x ->]]; unfold initial_status.
  - rewrite get_status_idle by lia. cbn [bind snd].
    change (init_needs_clear 2) with false. cbv iota.
    eexists [_; _]. split; [|reflexivity]. repeat constructor; discriminate.
  - rewrite get_status_error by lia. cbn [bind snd].
    change (init_needs_clear 10) with true. cbv iota. unfold emit. cbn [fst snd].
    destruct (clear_status_ok m x sc 0 0
                (EPrint (PLit "Device is in error, sending DFU_CLRSTATUS") :: ESleep 0 :: EReq get_status_req :: tr) ltac:(lia))
      as [r E].
    rewrite E. cbn [bind]. rewrite get_status_idle by lia. cbn [bind snd].
    change (known STATE_DESCRIPTION_keys 2) with true. cbv iota. unfold emit. cbn [fst snd].
    eexists [_; _; _; _; _; _; _]. split; [|reflexivity]. repeat constructor; discriminate.
Qed.

(* ------------------------------------------------------------------ the run *)
Section Run.
  Variables (c size : Z) (fw : list Z) (flash0 : Z -> Z) (sched : list sentry) (st0 : dstate) (fuel : nat).
  Hypothesis HV : In (c, size) spec_variants.
  Hypothesis HL : Z.of_nat (List.length fw) <= size.
  Hypothesis HW : wf_sched sched.
  Hypothesis HE : Forall no_err sched.
  Hypothesis HF : Forall (fits fuel) sched.
  Hypothesis HI : init_state st0.

  Let n := Z.of_nat (List.length fw).
  Let T := Z.to_nat (pad_pages n).
  Let m0 := init_mem size flash0.
  Let m1 := erase_iter m0 T 0.
  Let m2 := write_iter m1 (padded fw) T 0.

  Lemma T_pages : Z.of_nat T = pad_pages n /\ pad_pages n * 1024 <= size /\ 0 <= pad_pages n <= 128.
  Proof.
    destruct (variant_pages c size HV) as [pc [_ [PS PB]]].
    assert (TL : too_large n pc = false).
    { unfold too_large. destruct (Z.gtb_spec n (page_size * pc)); [|reflexivity]. unfold n in *. lia. }
    pose proof (pages_bounds n pc ltac:(unfold n; lia) TL). unfold page_size in PS.
    unfold T. split; [lia | split; lia].
  Qed.

  Lemma run_ok : exists st' w' sl' tr', idle_like st' /\ Forall quiet tr' /\
    cli_body fuel fw c (init_dev size flash0 sched st0, []) =
    Ret tt (mkDev m2 st' (skipn (2 * T) (skipn T sched)) w' sl', tr').
  Proof.
    destruct T_pages as [TP [TS TB]].
    destruct (variant_pages c size HV) as [pc [LK [PS PB]]].
    assert (TL : too_large (Z.of_nat (List.length fw)) pc = false).
    { unfold too_large. destruct (Z.gtb_spec (Z.of_nat (List.length fw)) (page_size * pc)); [|reflexivity]. lia. }
    pose proof (good_all fuel sched HW HE HF) as G.
    unfold cli_body. rewrite LK. cbv zeta. rewrite TL. unfold emit. cbn [fst snd]. unfold init_dev.
    fold n. fold T. fold m0.
    match goal with |- context [initial_status (?d, ?tr)] => destruct (initial_status_ok m0 st0 sched tr HI) as [new0 [Q0 E0]] end.
    rewrite E0. cbn [bind].
    match goal with |- context [erase_loop fuel T 0 (?d, ?tr)] =>
      destruct (erase_loop_ok fuel T 0 m0 Idle sched 0 0 tr ltac:(left; reflexivity) ltac:(lia)
                  (Forall_firstn' _ _ _ G) ltac:(lia) ltac:(lia)) as [st1 [w1 [sl1 [new1 [IL1 [H1 [Q1 E1]]]]]]] end.
    rewrite E1. cbn [bind fst snd]. fold m1.
    match goal with |- context [write_loop fuel (padded fw) T 0 (?d, ?tr)] =>
      destruct (write_loop_ok fuel (padded fw) T 0 m1 st1 (skipn T sched) w1 sl1 tr IL1 H1
                  (Forall_firstn' _ _ _ (Forall_skipn' _ _ _ G)) ltac:(lia) ltac:(lia)) as [st2 [w2 [sl2 [new2 [IL2 [H2 [Q2 E2]]]]]]] end.
    { intros q Hq Z0.
      pose proof (page_code_len (padded fw) q ltac:(lia) ltac:(rewrite padded_len; fold n; lia)) as PL.
      rewrite Z0 in PL. discriminate PL. }
    rewrite E2. fold m2. do 4 eexists. split; [exact IL2 | split; [|reflexivity]].
    apply Forall_app; split; [exact Q2|]. constructor; [discriminate|].
    apply Forall_app; split; [exact Q1|]. apply Forall_app; split; [exact Q0|].
    repeat constructor; discriminate.
  Qed.

  Lemma mem_ok : erased_to m0 m1 (pad_pages n) /\ written_to m1 m2 (padded fw) (pad_pages n).
  Proof.
    destruct T_pages as [TP [TS TB]].
    assert (E1 : erased_to m0 m1 (pad_pages n)).
    { replace (pad_pages n) with (0 + Z.of_nat T) by lia. apply erased_iter; [apply erased_start | lia | cbn; lia]. }
    split; [exact E1|].
    replace (pad_pages n) with (0 + Z.of_nat T) by lia.
    apply written_iter; [apply written_start | lia | rewrite (et_size _ _ _ E1); cbn; lia | rewrite padded_len; fold n; lia |].
    intros q Hq. rewrite (et_erased _ _ _ E1). rewrite andb_le_lt by lia. reflexivity.
  Qed.

  Lemma run_flash : forall a,
    m_flash (d_mem (fst (cli_main fuel fw c (init_dev size flash0 sched st0)))) a =
    if (FLASH_BASE <=? a) && (a <? FLASH_BASE + pages_of n * 1024) then nth (Z.to_nat (a - FLASH_BASE)) fw 0 else flash0 a.
  Proof.
    intros a. destruct run_ok as [st' [w' [sl' [tr' [_ [_ E]]]]]]. destruct mem_ok as [E1 E2].
    unfold cli_main. rewrite E. cbn [fst d_mem].
    rewrite <- (pad_pages_eq n) by (unfold n; lia).
    rewrite (wt_flash _ _ _ _ E2). rewrite padded_nth.
    destruct ((FLASH_BASE <=? a) && (a <? FLASH_BASE + pad_pages n * 1024)) eqn:B; [reflexivity|].
    rewrite (et_flash _ _ _ E1), B. reflexivity.
  Qed.

  Lemma run_order :
    let r := cli_main fuel fw c (init_dev size flash0 sched st0) in
    m_mons (d_mem (fst r)) = [] /\
    m_nerase (d_mem (fst r)) = pages_of n /\ m_nset (d_mem (fst r)) = pages_of n /\ m_nwrite (d_mem (fst r)) = pages_of n /\
    idle_like (d_state (fst r)) /\
    exists tr, snd r = tr ++ [EPrint PNewline; EPrint (PLit "done!"); EExit 0 None].
  Proof.
    destruct run_ok as [st' [w' [sl' [tr' [IL [Q E]]]]]]. destruct mem_ok as [E1 E2].
    cbv zeta. unfold cli_main. rewrite E. cbn [fst snd d_mem d_state].
    rewrite <- (pad_pages_eq n) by (unfold n; lia).
    rewrite (wt_mons _ _ _ _ E2), (et_mons _ _ _ E1), (wt_ne _ _ _ _ E2), (et_ne _ _ _ E1), (wt_ns _ _ _ _ E2), (et_ns _ _ _ E1),
            (wt_nw _ _ _ _ E2), (et_nw _ _ _ E1).
    cbn [m0 init_mem m_mons m_nerase m_nset m_nwrite].
    repeat split; try lia; try exact IL.
    exists (rev tr'). cbn [rev]. rewrite <- !app_assoc. reflexivity.
  Qed.
End Run.
