(* The parser model uses the line it is given only inside the errors it raises (and inside the parse result it attaches to li): parsing
   the same tokens under another line gives the same item up to those lines.  With Proofs/Relabel.v (the passes) this makes the
   whole model of asm.assemble depend on the LINE TEXTS only: two readings with the same line contents -- e.g. a file with an
   include, and the file with the included lines written in place (C14_textual_splice) -- assemble to the same bytes, labels and
   constants. *)
From Coq Require Import ZArith List Bool String.
From BB Require Import Base.PyBase Gen.Encoders Model.Items Model.Lexer Model.PyExpr Model.Parser Model.Passes Model.Reader
  Proofs.Relabel Proofs.Program Proofs.TextErrors Proofs.Whole.
Import ListNotations.

Section PR.
Variable f : Items.line -> Items.line.
Definition ffres {A} (g : A -> A) (r : fres A) : fres A :=
  match r with FOk a => FOk (g a) | FErr e => FErr (fperr f e) | FUnsup => FUnsup end.

Lemma parse_immediate_f_relabel fuel : forall imm l,
  parse_immediate_f fuel imm (f l) = ffres (fun e => e) (parse_immediate_f fuel imm l).
Proof.
  induction fuel as [|n IH]; intros imm l; [reflexivity|]. cbn [parse_immediate_f].
  destruct imm as [|h t]; [reflexivity|]. cbv zeta.
  repeat match goal with
         | |- context[if ?c then _ else _] => destruct c
         | |- context[match ?x with _ => _ end] =>
             lazymatch x with
             | parse_immediate_f _ _ _ => fail
             | context[parse_immediate_f] => fail
             | _ => destruct x
             end
         end;
  unfold arith, raise_asm, raise_raw, fbind; cbn [ffres fperr];
  try reflexivity;
  try (rewrite IH; destruct (parse_immediate_f n _ l) as [e|[l'|x]|]; reflexivity);
  try (match goal with |- context[arith_of_string ?s] => destruct (arith_of_string s); reflexivity end).
Qed.
Lemma parse_immediate_relabel imm l : parse_immediate imm (f l) = ffres (fun e => e) (parse_immediate imm l).
Proof. apply parse_immediate_f_relabel. Qed.
Lemma ref_imm_relabel r l : ref_imm r (f l) = ffres (fun e => e) (ref_imm r l).
Proof. unfold ref_imm. destruct (is_int r); apply parse_immediate_relabel. Qed.
Lemma pseudo_relabel l name args : pseudo (f l) name args = ffres (fitem f) (pseudo l name args).
Proof.
  unfold pseudo. destruct (String.eqb name "li"); [|reflexivity].
  rewrite parse_immediate_relabel. destruct (parse_immediate (tl args) l) as [e|e|]; reflexivity.
Qed.
Lemma base_offset_relabel l toks c h : base_offset (f l) toks c h = ffres (fun p => p) (base_offset l toks c h).
Proof.
  unfold base_offset, raise_asm, raise_raw. cbv zeta.
  destruct ((if c then mem_str h BASE_OFFSET_INSTRUCTIONS_final else true) && tok_is (nth_tok 3 toks) "(").
  - destruct toks as [|a [|b [|c0 [|d [|e [|g [|]]]]]]]; reflexivity.
  - destruct toks as [|a [|b [|]]]; reflexivity.
Qed.
Lemma string_item_fitem s : fitem f (string_item s) = string_item s.
Proof. unfold string_item. cbv zeta. destruct (map zc (chars s)); [reflexivity|]. match goal with |- context[if ?c then _ else _] => destruct c end; reflexivity. Qed.
Ltac relabel_step :=
  first
    [ progress (rewrite ?parse_immediate_relabel, ?ref_imm_relabel, ?pseudo_relabel, ?base_offset_relabel; unfold ffres)
    | match goal with
      | |- context[if ?c then _ else _] =>
          lazymatch c with
          | context[match _ with _ => _ end] => fail
          | context[if _ then _ else _] => fail
          | _ => destruct c
          end
      | |- context[match ?x with _ => _ end] =>
          lazymatch x with
          | context[match _ with _ => _ end] => fail
          | context[if _ then _ else _] => fail
          | _ => destruct x
          end
      end ].
Lemma parse_item_relabel l ts : parse_item (f l) ts = ffres (fitem f) (parse_item l ts).
Proof.
  unfold parse_item. destruct ts as [|t0 args]; [reflexivity|]. cbv zeta.
  unfold instr, raise_asm, raise_raw, fbind, imm_field, R.
  repeat relabel_step; cbn [ffres fitem fperr fpres]; try reflexivity.
  rewrite string_item_fitem. reflexivity.
Qed.
End PR.

(* ---- the whole front end, and the whole model, under a renaming of lines ----------------------------------- *)
From BB Require Import Model.Reader Proofs.Program Proofs.Whole.
Section FrontRelabel.
Variable f : Items.line -> Items.line.
Definition retext (ls : list (Items.line * string)) : list (Items.line * string) := map (fun p => (f (fst p), snd p)) ls.
Lemma front_line_relabel l t : front_line (f l) t = ffres f (option_map (fitem f)) (front_line l t).
Proof.
  unfold front_line. destruct (lex_tokens t) as [[|t0 ts]|]; try reflexivity.
  rewrite parse_item_relabel. unfold fbind. destruct (parse_item l (t0 :: ts)) as [it|e|]; reflexivity.
Qed.
Lemma front_items_relabel ls : front_items (retext ls) = ffres f (map (flit f)) (front_items ls).
Proof.
  induction ls as [|[l t] r IH]; [reflexivity|]. cbn [retext map front_items fst snd]. fold (retext r).
  rewrite front_line_relabel, IH.
  destruct (front_line l t) as [[it|]|e|]; cbn [ffres option_map]; try reflexivity.
  destruct (front_items r) as [its|e|]; reflexivity.
Qed.
Definition ftres (t : tres) : tres :=
  match t with TDone r => TDone (fresult f r) | TFail e => TFail (fperr f e) | TUnsup => TUnsup end.
Theorem assemble_text_relabel ls consts labels cmp :
  assemble_text (retext ls) consts labels cmp = ftres (assemble_text ls consts labels cmp).
Proof.
  unfold assemble_text. rewrite front_items_relabel.
  destruct (front_items ls) as [its|e|]; cbn [ffres]; try reflexivity.
  rewrite assemble_relabel. destruct (assemble_items its consts labels cmp) as [r|e|]; reflexivity.
Qed.
End FrontRelabel.

(* what a run yields apart from the names of lines: the bytes of every chunk, the constants, the labels -- or the kind of failure *)
Inductive shape := SDone (bytes : list chunk) (consts labels : envt) | SAsm | SRaw (x : exn) | SUnsup.
Definition tshape (t : tres) : shape :=
  match t with
  | TDone r => SDone (map snd (r_chunks r)) (r_consts r) (r_labels r)
  | TFail (PAsm _) => SAsm | TFail (PRaw x) => SRaw x | TUnsup => SUnsup
  end.
Lemma tshape_ftres f t : tshape (ftres f t) = tshape t.
Proof.
  destruct t as [r|[l|x]|]; try reflexivity. cbn [ftres tshape fresult r_chunks r_consts r_labels].
  unfold fchunks. rewrite map_map. reflexivity.
Qed.
(* two files (or two readings) with the same line contents, whatever the file names and line numbers *)
Theorem same_contents_same_result ta tb consts labels cmp :
  map snd ta = map snd tb ->
  tshape (assemble_text ta consts labels cmp) = tshape (assemble_text tb consts labels cmp).
Proof.
  intro H. set (l0 := {| lfile := ""; lnum := 0 |}). set (f := fun _ : Items.line => l0).
  rewrite <- (tshape_ftres f (assemble_text ta _ _ _)), <- (tshape_ftres f (assemble_text tb _ _ _)).
  rewrite <- !assemble_text_relabel. f_equal. f_equal.
  unfold retext, f. clear f.
  revert tb H. induction ta as [|a ta IH]; intros [|b tb] H; try discriminate; [reflexivity|].
  cbn [map] in *. injection H as H1 H2. rewrite H1, (IH tb H2). reflexivity.
Qed.

Definition wshape (w : wres) : shape :=
  match w with
  | WDone r => SDone (map snd (r_chunks r)) (r_consts r) (r_labels r)
  | WFail (PAsm _) => SAsm | WFail (PRaw x) => SRaw x | WUnsup => SUnsup
  end.
(* the whole model: two file systems / include paths / top files under which the reader yields the same line contents
   assemble to the same bytes, labels and constants (or fail alike) *)
Theorem whole_same_contents fuel1 fs1 cwd1 incs1 top1 fuel2 fs2 cwd2 incs2 top2 consts labels cmp la lb :
  read_lines fuel1 fs1 cwd1 incs1 top1 = ROk la -> read_lines fuel2 fs2 cwd2 incs2 top2 = ROk lb ->
  map l_contents la = map l_contents lb ->
  wshape (assemble_model fuel1 fs1 cwd1 incs1 top1 consts labels cmp) =
  wshape (assemble_model fuel2 fs2 cwd2 incs2 top2 consts labels cmp).
Proof.
  intros Ea Eb H. unfold assemble_model. rewrite Ea, Eb.
  assert (S : tshape (assemble_text (map to_text la) consts labels cmp) = tshape (assemble_text (map to_text lb) consts labels cmp)).
  { apply same_contents_same_result. rewrite !map_map. exact H. }
  destruct (assemble_text (map to_text la) consts labels cmp) as [ra|[l1|x1]|],
           (assemble_text (map to_text lb) consts labels cmp) as [rb|[l2|x2]|]; exact S.
Qed.
