(* C06 at the level of the TEXT (Proofs/Program.v assemble_text: lexer model -> parser model -> the 16 passes):
   a source line naming an instruction whose operands are outside the documented set (Spec/Legal.v) is refused with the assembler's
   own error at that line -- no result, no bytes, with compression off and on -- and the same line with legal operands yields the
   encoder's word; a file that contains such a line never assembles. *)
From Coq Require Import ZArith List Bool Lia String Arith.
From BB Require Import Base.Bits Base.PyBase Gen.Encoders Gen.Criteria Spec.RV32 Spec.RVC Spec.Operands Spec.Legal
  Model.Items Model.Encode Model.Passes Model.Lexer Model.PyExpr Model.Parser
  Proofs.Pipeline Proofs.Errors Proofs.EncSig Proofs.NoRaw Proofs.ParseErrors Proofs.ParseOk Proofs.Program
  Proofs.Layout Proofs.TextErrors Proofs.Accept Proofs.C01Main Proofs.C02Main Proofs.C06Main Proofs.C06c Proofs.AcceptClass Proofs.EndToEnd
  Proofs.LegalCompress Proofs.LegalItem.
Import ListNotations.
Open Scope Z_scope.
Local Open Scope list_scope.
Local Open Scope string_scope.

(* ---- legality of an operand list as written (Spec only) ---------------------------------------------------------------------------- *)
Definition legal_operands32 (name : string) (args : list arg) : bool :=
  match operands32 name args [] with Some ops => legal32 name ops | None => false end.
Definition legal_operands16 (name : string) (args : list arg) : bool :=
  match operands16 name args with Some ops => legal16 name ops | None => false end.
Lemma legal32_encode name args : In name base_mnemonics ->
  ((exists w, encode name args [] = Ok w) <-> legal_operands32 name args = true).
Proof.
  intro Hb. rewrite (exact32 name args [] Hb). unfold legal_operands32. split.
  - intros (ops & -> & H). exact H.
  - destruct (operands32 name args []) as [ops|]; [|discriminate]. intro H. exists ops. auto.
Qed.
Lemma legal16_encode name args : In name c_mnemonics ->
  ((exists h, encode name args [] = Ok h) <-> legal_operands16 name args = true).
Proof.
  intro Hc. rewrite (exact16 name args [] Hc). unfold legal_operands16. split.
  - intros (ops & -> & H). exact H.
  - destruct (operands16 name args) as [ops|]; [|discriminate]. intro H. exists ops. auto.
Qed.

(* ---- from the text to the items --------------------------------------------------------------------------------------------------- *)
Lemma front_line_item l text t ts it : lex_tokens text = Some (t :: ts) -> parse_item l (t :: ts) = FOk it ->
  front_line l text = FOk (Some it).
Proof. intros Hl Hp. unfold front_line. rewrite Hl, Hp. reflexivity. Qed.
Lemma front_single l text t ts it : lex_tokens text = Some (t :: ts) -> parse_item l (t :: ts) = FOk it ->
  front_items [(l, text)] = FOk [(l, it)].
Proof. intros Hl Hp. cbn [front_items]. rewrite (front_line_item _ _ _ _ _ Hl Hp). reflexivity. Qed.
Lemma front_member ls : forall its l text it,
  front_items ls = FOk its -> In (l, text) ls -> front_line l text = FOk (Some it) -> In (l, it) its.
Proof.
  induction ls as [|[l0 t0] r IH]; intros its l text it H Hin Hf. contradiction.
  cbn [front_items] in H. destruct Hin as [E|Hin].
  - inversion E; subst l0 t0. rewrite Hf in H. destruct (front_items r) as [its'| |]; try discriminate. inversion H; subst. left; reflexivity.
  - destruct (front_line l0 t0) as [[it0|]| |]; try discriminate.
    + destruct (front_items r) as [its'| |] eqn:Er; try discriminate. inversion H; subst. right. eapply IH; eauto.
    + eapply IH; eauto.
Qed.

Lemma parsed_instr_ok l toks cls name fs c : parse_item l toks = FOk (IInstr cls name fs c) -> instr_okb false cls name fs = true.
Proof. intro H. pose proof (parse_item_ok _ _ _ H) as C. cbn [concl okb Nat.leb Nat.eqb andb] in C. exact C. Qed.

(* register-like operands that are written as tokens *)
Definition reg_strs (fs : list (string * fval)) : list string :=
  flat_map (fun kv => match snd kv with FReg (AStr s) => [s] | _ => [] end) fs.
Lemma stable_strs consts fs : (forall s, In s (reg_strs fs) -> assoc_str s consts = None) -> stable consts fs.
Proof.
  unfold stable. induction fs as [|[k v] r IH]; intro H; constructor.
  - destruct v as [[z|s]| | |]; cbn; auto. apply H. cbn. left. reflexivity.
  - apply IH. intros s Hs. apply H. cbn [reg_strs flat_map]. apply in_or_app. right. exact Hs.
Qed.

(* ---- ANY instruction line (every class of the parser that is not an atomic; any spelling of the mnemonic) --------------------------- *)
Section AnyLine.
Variables (l : line) (text : string) (t : string) (ts : list string) (cls name : string) (fs : list (string * fval)) (c : bool).
Hypothesis Hlex : lex_tokens text = Some (t :: ts).
Hypothesis Hparse : parse_item l (t :: ts) = FOk (IInstr cls name fs c).
Hypothesis Hat : is_atomic_cls cls = false.
Hypothesis Hcl : closed_imm fs.

Theorem any_line_refused cmp :
  (forall w, encode name (args_of (set_lit fs)) [] <> Ok w) ->
  assemble_text [(l, text)] [] [] cmp = TFail (PAsm l).
Proof.
  intro Hno. unfold assemble_text. rewrite (front_single _ _ _ _ _ Hlex Hparse).
  rewrite (one_item_refused l (IInstr cls name fs c) cmp). reflexivity.
  apply doomed_repack; auto. eapply parsed_instr_ok; eauto. apply stable_nil.
Qed.
Theorem any_line_accepted w :
  encode name (args_of (set_lit fs)) [] = Ok w ->
  assemble_text [(l, text)] [] [] false =
  TDone {| r_chunks := [(l, CBytes (le_bytes (if c then 2 else 4) w))]; r_consts := []; r_labels := [] |}.
Proof.
  intro He. unfold assemble_text. rewrite (front_single _ _ _ _ _ Hlex Hparse).
  rewrite (one_item_accepted l cls name fs c w Hat Hcl He). reflexivity.
Qed.

(* ... and with compression on the line is accepted too (what its bytes are is C04 / C20): the one-line program is in the class of
   the positive half of C12 (Proofs/Accept.v).  The side condition is what the parser produces: a jalr item carries its flag. *)
Theorem any_line_accepted_compress w :
  (name = "jalr" -> field_get "is_auipc_jump" fs <> None) ->
  encode name (args_of (set_lit fs)) [] = Ok w ->
  exists r, assemble_text [(l, text)] [] [] true = TDone r.
Proof.
  intros Hj He. unfold assemble_text. rewrite (front_single _ _ _ _ _ Hlex Hparse).
  assert (Hcls : accept_class (map fst ([] : envt)) [(l, IInstr cls name fs c)] = true).
  { unfold accept_class, accept_class_gen. cbn [forallb map app fst snd gnames cnames AcceptClass.item_cls].
    cbn [okb Nat.leb Nat.eqb andb]. rewrite (parsed_instr_ok _ _ _ _ _ _ Hparse). rewrite isz_instr.
    assert (Z : (0 <=? (if c then 2 else 4))%Z = true) by (destruct c; reflexivity). rewrite Z. cbn [andb]. rewrite andb_true_r.
    unfold instr_cls. apply andb_true_intro. split.
    + destruct (field_get "imm" fs) as [x|] eqn:E; [|reflexivity]. destruct (Hcl x E) as (a & v & -> & _).
      unfold imm_cls, lf. cbn [is_position_relative negb andb]. apply orb_true_intro. left.
      apply forallb_forall. intros s _. reflexivity.
    + unfold has_flag. destruct (String.eqb name "jalr") eqn:Ej; [|reflexivity]. apply String.eqb_eq in Ej.
      specialize (Hj Ej). destruct (field_get "is_auipc_jump" fs); [reflexivity|congruence]. }
  destruct (accept_monotone _ [] _ Hcls (one_item_accepted l cls name fs c w Hat Hcl He)) as [rC HC].
  rewrite HC. eauto.
Qed.

(* inside ANY file: no result.  The register tokens of the line must not be names of constants (of the initial table, or defined
   by the file): a line `addi foo, x1, 0` is legal in a file that says `foo = 5`.  Register names and integer literals can
   never be defined (resolve_constants refuses them), so for them only the initial table matters. *)
Definition reg_like (s : string) : bool := mem_str s reg_names || is_int s.
Theorem any_line_in_program ls c0 l0 cmp :
  In (l, text) ls ->
  (forall s, In s (reg_strs fs) -> assoc_str s c0 = None /\
       (reg_like s = true \/ forall its, front_items ls = FOk its -> ~ In s (cnames its))) ->
  (forall w, encode name (args_of (set_lit fs)) [] <> Ok w) ->
  forall r, assemble_text ls c0 l0 cmp <> TDone r.
Proof.
  intros Hin Hregs Hno r H. unfold assemble_text in H.
  destruct (front_items ls) as [its| |] eqn:Ef; try discriminate.
  destruct (assemble_items its c0 l0 cmp) as [r'| |] eqn:Ea; try discriminate.
  apply (doomed_program its c0 l0 cmp r' l (IInstr cls name fs c) Ea).
  - eapply front_member; eauto. eapply front_line_item; eauto.
  - intros consts E1. apply doomed_repack; auto. eapply parsed_instr_ok; eauto.
    apply stable_strs. intros s Hs. destruct (Hregs s Hs) as [H0 Hd].
    destruct (assoc_str s consts) as [v|] eqn:Es; [exfalso|reflexivity].
    assert (Hne : assoc_str s consts <> None) by congruence.
    destruct (constants_keys _ _ _ _ _ s E1 Hne) as [A|A]; [congruence|].
    destruct Hd as [Hd|Hd].
    + destruct (constants_names_ok _ _ _ _ _ E1 s A) as [N1 N2]. unfold reg_like in Hd. rewrite N1, N2 in Hd. discriminate.
    + exact (Hd its eq_refl A).
Qed.
End AnyLine.

(* ---- the parser on the lines of the 32-bit tables (any spelling of the mnemonic whose lower-case form is in the table) ------------- *)
Ltac navl Hl Hrd :=
  unfold parse_item; cbv zeta; cbn [List.length Nat.eqb Nat.leb andb nth_tok nth_error tok_is]; rewrite ?Hrd; rewrite ?Hl;
  cbv beta iota zeta;
  repeat match goal with
         | |- context[in_tab ?x ?y] => let v := eval vm_compute in (in_tab x y) in change (in_tab x y) with v
         | |- context[mem_str ?x ?y] => let v := eval vm_compute in (mem_str x y) in change (mem_str x y) with v
         | |- context[String.eqb (String ?c ?x) (String ?d ?y)] =>
             let v := eval vm_compute in (String.eqb (String c x) (String d y)) in change (String.eqb (String c x) (String d y)) with v
         end;
  cbv beta iota.

Lemma r_parse l t0 name rd rs1 rs2 a :
  lower t0 = name -> In name r3_names -> String.eqb rd "=" = false -> arith_of_string rs2 = Some a ->
  parse_item l [t0; rd; rs1; rs2] =
  FOk (IInstr "RTypeInstruction" name [("rd", R rd); ("rs1", R rs1); ("rs2", R rs2); ("#rs2", FExpr (EArith a))] false).
Proof.
  intros Hl Hn Hrd Ha. unfold r3_names in Hn. vm_compute in Hn.
  repeat (destruct Hn as [<-|Hn]; [navl Hl Hrd; rewrite Ha; reflexivity|]). contradiction.
Qed.
Lemma i_parse l t0 name rd rs1 tok e :
  lower t0 = name -> In name i_names -> String.eqb rd "=" = false -> String.eqb tok "(" = false -> parse_immediate [tok] l = FOk e ->
  parse_item l [t0; rd; rs1; tok] =
  FOk (IInstr "ITypeInstruction" name [("rd", R rd); ("rs1", R rs1); ("imm", FExpr e); ("is_auipc_jump", FBool false)] false).
Proof.
  intros Hl Hn Hrd Htok Hp. unfold i_names in Hn. vm_compute in Hn.
  repeat (destruct Hn as [<-|Hn]; [navl Hl Hrd; unfold base_offset; cbn [nth_tok nth_error tok_is andb]; rewrite ?Htok; rewrite ?andb_false_r;
                                   cbv beta iota; cbn [fbind]; rewrite Hp; reflexivity|]).
  contradiction.
Qed.
Lemma s_parse l t0 name rs1 rs2 tok e :
  lower t0 = name -> In name s_names -> String.eqb rs1 "=" = false -> String.eqb tok "(" = false -> parse_immediate [tok] l = FOk e ->
  parse_item l [t0; rs1; rs2; tok] = FOk (IInstr "STypeInstruction" name [("rs1", R rs1); ("rs2", R rs2); ("imm", FExpr e)] false).
Proof.
  intros Hl Hn Hrd Htok Hp. unfold s_names in Hn. vm_compute in Hn.
  repeat (destruct Hn as [<-|Hn]; [navl Hl Hrd; cbn [nth_tok nth_error tok_is]; rewrite ?Htok; cbv beta iota; cbn [fbind]; rewrite Hp; reflexivity|]).
  contradiction.
Qed.
Lemma u_parse l t0 name rd tok e :
  lower t0 = name -> In name u_names -> String.eqb rd "=" = false -> parse_immediate [tok] l = FOk e ->
  parse_item l [t0; rd; tok] = FOk (IInstr "UTypeInstruction" name [("rd", R rd); ("imm", FExpr e)] false).
Proof.
  intros Hl Hn Hrd Hp. unfold u_names in Hn. vm_compute in Hn.
  repeat (destruct Hn as [<-|Hn]; [navl Hl Hrd; cbn [fbind]; rewrite Hp; reflexivity|]). contradiction.
Qed.
Lemma b_parse l t0 name rs1 rs2 tok e :
  lower t0 = name -> In name b_names -> String.eqb rs1 "=" = false -> is_int tok = true -> parse_immediate [tok] l = FOk e ->
  parse_item l [t0; rs1; rs2; tok] = FOk (IInstr "BTypeInstruction" name [("rs1", R rs1); ("rs2", R rs2); ("imm", FExpr e)] false).
Proof.
  intros Hl Hn Hrd Hi Hp. unfold b_names in Hn. vm_compute in Hn.
  repeat (destruct Hn as [<-|Hn]; [navl Hl Hrd; unfold ref_imm; rewrite Hi; cbn [fbind]; rewrite Hp; reflexivity|]). contradiction.
Qed.
Lemma j_parse l t0 name rd tok e :
  lower t0 = name -> In name j_names -> String.eqb rd "=" = false -> is_int tok = true -> parse_immediate [tok] l = FOk e ->
  parse_item l [t0; rd; tok] = FOk (IInstr "JTypeInstruction" name [("rd", R rd); ("imm", FExpr e)] false).
Proof.
  intros Hl Hn Hrd Hi Hp. unfold j_names in Hn. vm_compute in Hn.
  repeat (destruct Hn as [<-|Hn]; [navl Hl Hrd; unfold ref_imm; rewrite Hi; cbn [fbind]; rewrite Hp; reflexivity|]). contradiction.
Qed.

(* ---- which names a file defines as constants: the lines `NAME = expression` ------------------------------------------------------ *)
Lemma parse_const_origin l toks n e : parse_item l toks = FOk (IConst n e) -> exists x rest, toks = n :: "=" :: x :: rest.
Proof.
  unfold parse_item. destruct toks as [|t0 args]; [discriminate|]. cbv zeta.
  destruct (Nat.eqb (List.length (t0 :: args)) 1 && ends_colon t0); [discriminate|].
  destruct (Nat.leb 3 (List.length (t0 :: args)) && tok_is (nth_tok 1 (t0 :: args)) "=") eqn:E.
  - destruct (parse_immediate (skipn 2 (t0 :: args)) l) as [e'| |]; cbn [fbind]; try discriminate.
    intro H. inversion H; subst. apply andb_prop in E. destruct E as [E1 E2].
    destruct args as [|a1 [|a2 rest]]; try discriminate. cbn in E2. apply String.eqb_eq in E2. subst. eauto.
  - unfold instr, raise_asm, raise_raw, fbind, base_offset, imm_field, R, pseudo, ref_imm, string_item.
    intro H. innermost H; try discriminate H; inversion H.
Qed.
Definition defines (lt : line * string) : list string :=
  match lex_tokens (snd lt) with
  | Some (t0 :: eq :: _ :: _) => if String.eqb eq "=" then [t0] else []
  | _ => []
  end.
Definition defined_names (ls : list (line * string)) : list string := flat_map defines ls.
Lemma cnames_defined ls : forall its, front_items ls = FOk its -> incl (cnames its) (defined_names ls).
Proof.
  induction ls as [|[l text] r IH]; intros its H; cbn [front_items] in H.
  - inversion H; subst. intros x [].
  - unfold defined_names. cbn [flat_map]. fold (defined_names r).
    destruct (front_line l text) as [[it|]| |] eqn:Ef; try discriminate.
    + destruct (front_items r) as [its'| |] eqn:Er; try discriminate. inversion H; subst. clear H.
      intros n Hn. apply in_or_app. destruct it; cbn [cnames] in Hn; try (right; exact (IH _ eq_refl n Hn)).
      destruct Hn as [<-|Hn]; [left|right; exact (IH _ eq_refl n Hn)].
      unfold front_line in Ef. unfold defines. cbn [snd].
      destruct (lex_tokens text) as [[|t ts]|]; try discriminate.
      destruct (parse_item l (t :: ts)) as [it| |] eqn:Ep; cbn [fbind] in Ef; try discriminate. inversion Ef; subst it.
      destruct (parse_const_origin _ _ _ _ Ep) as (x & rest & E). inversion E; subst. cbn. left. reflexivity.
    + intros n Hn. apply in_or_app. right. exact (IH _ H n Hn).
Qed.

(* ---- the line forms of the six 32-bit tables ----------------------------------------------------------------------------------------
   base_form l toks name args: the token list `toks` is a line of mnemonic `name` (t0 is the mnemonic as written, in any case) in the
   `reg, reg, imm` / `reg, imm` / `reg, reg, reg` spelling, its immediate is a LITERAL (one token whose expression `a` has no names:
   closed a v -- 2047, 0x7ff, -5, 1<<11), and `args` is the operand list the encoder will receive. *)
Definition arg_strs (args : list arg) : list string := flat_map (fun a => match a with AStr s => [s] | AInt _ => [] end) args.
Inductive base_form (l : line) : list string -> string -> list arg -> Prop :=
| F_r t0 name rd rs1 rs2 a :            (* add .. remu, and the shifts slli / srli / srai whose third operand is the shift amount *)
    lower t0 = name -> In name r3_names -> String.eqb rd "=" = false -> arith_of_string rs2 = Some a ->
    base_form l [t0; rd; rs1; rs2] name [AStr rd; AStr rs1; AStr rs2]
| F_i t0 name rd rs1 tok a v :          (* jalr, loads, addi .. andi, csr instructions *)
    lower t0 = name -> In name i_names -> String.eqb rd "=" = false -> String.eqb tok "(" = false ->
    parse_immediate [tok] l = FOk (EArith a) -> closed a v ->
    base_form l [t0; rd; rs1; tok] name [AStr rd; AStr rs1; AInt v]
| F_s t0 name rs1 rs2 tok a v :         (* stores *)
    lower t0 = name -> In name s_names -> String.eqb rs1 "=" = false -> String.eqb tok "(" = false ->
    parse_immediate [tok] l = FOk (EArith a) -> closed a v ->
    base_form l [t0; rs1; rs2; tok] name [AStr rs1; AStr rs2; AInt v]
| F_u t0 name rd tok a v :              (* lui, auipc *)
    lower t0 = name -> In name u_names -> String.eqb rd "=" = false ->
    parse_immediate [tok] l = FOk (EArith a) -> closed a v ->
    base_form l [t0; rd; tok] name [AStr rd; AInt v]
| F_b t0 name rs1 rs2 tok a v :         (* branches with a literal offset *)
    lower t0 = name -> In name b_names -> String.eqb rs1 "=" = false -> is_int tok = true ->
    parse_immediate [tok] l = FOk (EArith a) -> closed a v ->
    base_form l [t0; rs1; rs2; tok] name [AStr rs1; AStr rs2; AInt v]
| F_j t0 name rd tok a v :              (* jal with a literal offset *)
    lower t0 = name -> In name j_names -> String.eqb rd "=" = false -> is_int tok = true ->
    parse_immediate [tok] l = FOk (EArith a) -> closed a v ->
    base_form l [t0; rd; tok] name [AStr rd; AInt v].

Lemma tables_base : forallb (fun n => mem_str n base_mnemonics) (r3_names ++ i_names ++ s_names ++ u_names ++ b_names ++ j_names) = true.
Proof. vm_compute. reflexivity. Qed.
Lemma table_base n : In n (r3_names ++ i_names ++ s_names ++ u_names ++ b_names ++ j_names) -> In n base_mnemonics.
Proof. intro H. pose proof tables_base as T. rewrite forallb_forall in T. apply AcceptMono.mem_in. apply T. exact H. Qed.

Ltac closed_imm_tac := let x := fresh "x" in let Hx := fresh "Hx" in intros x Hx; cbn in Hx; inversion Hx; subst; eauto.
Ltac args_tac Ha := unfold set_lit, lit_val; cbn [field_get assoc_str String.eqb Ascii.eqb Bool.eqb]; try rewrite Ha; reflexivity.

Lemma base_form_item l toks name args : base_form l toks name args ->
  exists t ts cls fs, toks = t :: ts /\ parse_item l toks = FOk (IInstr cls name fs false) /\ is_atomic_cls cls = false /\
    closed_imm fs /\ args_of (set_lit fs) = args /\ reg_strs fs = arg_strs args /\
    (name = "jalr" -> field_get "is_auipc_jump" fs <> None) /\ In name base_mnemonics.
Proof.
  intros [t0 n rd rs1 rs2 a Hl Hn Hrd Ha|t0 n rd rs1 tok a v Hl Hn Hrd Ht Hp Ha|t0 n rs1 rs2 tok a v Hl Hn Hrd Ht Hp Ha|
          t0 n rd tok a v Hl Hn Hrd Hp Ha|t0 n rs1 rs2 tok a v Hl Hn Hrd Hi Hp Ha|t0 n rd tok a v Hl Hn Hrd Hi Hp Ha].
  - do 4 eexists. split; [reflexivity|]. split; [apply (r_parse l t0 n rd rs1 rs2 a); auto|]. split; [reflexivity|].
    split; [intros x Hx; cbn in Hx; discriminate|]. split; [reflexivity|]. split; [reflexivity|]. split; [intro E; exfalso; rewrite E in Hn; revert Hn; apply mem_str_false; vm_compute; reflexivity|].
    apply table_base. apply in_or_app. left. exact Hn.
  - do 4 eexists. split; [reflexivity|]. split; [apply (i_parse l t0 n rd rs1 tok _ Hl Hn Hrd Ht Hp)|]. split; [reflexivity|].
    split; [closed_imm_tac|]. split; [args_tac Ha|]. split; [reflexivity|]. split; [intros _; cbn; discriminate|].
    apply table_base. apply in_or_app. right. apply in_or_app. left. exact Hn.
  - do 4 eexists. split; [reflexivity|]. split; [apply (s_parse l t0 n rs1 rs2 tok _ Hl Hn Hrd Ht Hp)|]. split; [reflexivity|].
    split; [closed_imm_tac|]. split; [args_tac Ha|]. split; [reflexivity|]. split; [intro E; exfalso; rewrite E in Hn; revert Hn; apply mem_str_false; vm_compute; reflexivity|].
    apply table_base. do 2 (apply in_or_app; right). apply in_or_app. left. exact Hn.
  - do 4 eexists. split; [reflexivity|]. split; [apply (u_parse l t0 n rd tok _ Hl Hn Hrd Hp)|]. split; [reflexivity|].
    split; [closed_imm_tac|]. split; [args_tac Ha|]. split; [reflexivity|]. split; [intro E; exfalso; rewrite E in Hn; revert Hn; apply mem_str_false; vm_compute; reflexivity|].
    apply table_base. do 3 (apply in_or_app; right). apply in_or_app. left. exact Hn.
  - do 4 eexists. split; [reflexivity|]. split; [apply (b_parse l t0 n rs1 rs2 tok _ Hl Hn Hrd Hi Hp)|]. split; [reflexivity|].
    split; [closed_imm_tac|]. split; [args_tac Ha|]. split; [reflexivity|]. split; [intro E; exfalso; rewrite E in Hn; revert Hn; apply mem_str_false; vm_compute; reflexivity|].
    apply table_base. do 4 (apply in_or_app; right). apply in_or_app. left. exact Hn.
  - do 4 eexists. split; [reflexivity|]. split; [apply (j_parse l t0 n rd tok _ Hl Hn Hrd Hi Hp)|]. split; [reflexivity|].
    split; [closed_imm_tac|]. split; [args_tac Ha|]. split; [reflexivity|]. split; [intro E; exfalso; rewrite E in Hn; revert Hn; apply mem_str_false; vm_compute; reflexivity|].
    apply table_base. do 5 (apply in_or_app; right). exact Hn.
Qed.

(* (a) refused: the assembler's own error at the line, in both modes *)
Theorem line_refused l text toks name args cmp :
  lex_tokens text = Some toks -> base_form l toks name args -> legal_operands32 name args = false ->
  assemble_text [(l, text)] [] [] cmp = TFail (PAsm l).
Proof.
  intros Hlex Hf Hleg. destruct (base_form_item _ _ _ _ Hf) as (t & ts & cls & fs & -> & Hp & Hat & Hcl & Ha & _ & Hj & Hb).
  eapply any_line_refused; eauto. rewrite Ha. intros w Hw.
  rewrite (proj1 (legal32_encode name args Hb) (ex_intro _ w Hw)) in Hleg. discriminate.
Qed.
(* (b) accepted: the bytes are the little-endian word of the generated encoder, which the Spec decodes to the instruction named *)
Theorem line_accepted l text toks name args :
  lex_tokens text = Some toks -> base_form l toks name args -> legal_operands32 name args = true ->
  exists w ops i,
    encode name args [] = Ok w /\
    assemble_text [(l, text)] [] [] false = TDone {| r_chunks := [(l, CBytes (le_bytes 4 w))]; r_consts := []; r_labels := [] |} /\
    0 <= w < 2 ^ 32 /\ operands32 name args [] = Some ops /\ legal32 name ops = true /\ denote32 name ops = Some i /\ decode32 w = Some i.
Proof.
  intros Hlex Hf Hleg. destruct (base_form_item _ _ _ _ Hf) as (t & ts & cls & fs & -> & Hp & Hat & Hcl & Ha & _ & Hj & Hb).
  destruct (proj2 (legal32_encode name args Hb) Hleg) as [w Hw].
  destruct (decode_encode name _ _ w Hb Hw) as (Hr & ops & i & H1 & H2 & H3).
  exists w, ops, i. split; [exact Hw|]. split.
  - rewrite <- Ha in Hw. exact (any_line_accepted l text t ts cls name fs false Hlex Hp Hat Hcl w Hw).
  - split; [exact Hr|]. split; [exact H1|]. split; [|auto]. unfold legal_operands32 in Hleg. rewrite H1 in Hleg. exact Hleg.
Qed.
(* ... and with compression on it is accepted as well *)
Theorem line_accepted_compress l text toks name args :
  lex_tokens text = Some toks -> base_form l toks name args -> legal_operands32 name args = true ->
  exists r, assemble_text [(l, text)] [] [] true = TDone r.
Proof.
  intros Hlex Hf Hleg. destruct (base_form_item _ _ _ _ Hf) as (t & ts & cls & fs & -> & Hp & Hat & Hcl & Ha & _ & Hj & Hb).
  destruct (proj2 (legal32_encode name args Hb) Hleg) as [w Hw]. rewrite <- Ha in Hw.
  exact (any_line_accepted_compress l text t ts cls name fs false Hlex Hp Hat Hcl w Hj Hw).
Qed.
(* (c) inside any file *)
Theorem line_in_program ls c0 l0 cmp l text toks name args :
  In (l, text) ls -> lex_tokens text = Some toks -> base_form l toks name args -> legal_operands32 name args = false ->
  (forall s, In s (arg_strs args) -> assoc_str s c0 = None /\ (reg_like s = true \/ ~ In s (defined_names ls))) ->
  forall r, assemble_text ls c0 l0 cmp <> TDone r.
Proof.
  intros Hin Hlex Hf Hleg Hregs. destruct (base_form_item _ _ _ _ Hf) as (t & ts & cls & fs & -> & Hp & Hat & Hcl & Ha & Hs & Hj & Hb).
  eapply any_line_in_program; eauto.
  - rewrite Hs. intros s Hin'. destruct (Hregs s Hin') as [A [B|B]]; split; auto.
    right. intros its Hits Hc. apply B. eapply cnames_defined; eauto.
  - rewrite Ha. intros w Hw. rewrite (proj1 (legal32_encode name args Hb) (ex_intro _ w Hw)) in Hleg. discriminate.
Qed.

(* ---- (d) explicitly written compressed instructions -------------------------------------------------------------------------------- *)
Definition crj_names : list string := map fst CRJ_TYPE_INSTRUCTIONS_final.
Definition css_names : list string := map fst CSS_TYPE_INSTRUCTIONS_final.
Definition ciw_names : list string := map fst CIW_TYPE_INSTRUCTIONS_final.
Definition cb_names : list string := map fst CB_TYPE_INSTRUCTIONS_final.
Definition cia_names : list string := map fst CIA_TYPE_INSTRUCTIONS_final.
Definition cj_names : list string := map fst CJ_TYPE_INSTRUCTIONS_final.
Definition cl_names : list string := map fst CL_TYPE_INSTRUCTIONS_final.
Definition cs_names : list string := map fst CS_TYPE_INSTRUCTIONS_final.

Lemma cr_parse l t0 name a b : lower t0 = name -> In name cr_names -> String.eqb a "=" = false ->
  parse_item l [t0; a; b] = FOk (IInstr "CRTypeInstruction" name [("rd_rs1", R a); ("rs2", R b)] true).
Proof. intros Hl Hn Hrd. unfold cr_names in Hn. vm_compute in Hn. repeat (destruct Hn as [<-|Hn]; [navl Hl Hrd; reflexivity|]). contradiction. Qed.
Lemma ca_parse l t0 name a b : lower t0 = name -> In name ca_names -> String.eqb a "=" = false ->
  parse_item l [t0; a; b] = FOk (IInstr "CATypeInstruction" name [("rd_rs1", R a); ("rs2", R b)] true).
Proof. intros Hl Hn Hrd. unfold ca_names in Hn. vm_compute in Hn. repeat (destruct Hn as [<-|Hn]; [navl Hl Hrd; reflexivity|]). contradiction. Qed.
Lemma crj_parse l t0 name a : lower t0 = name -> In name crj_names ->
  parse_item l [t0; a] = FOk (IInstr "CRJTypeInstruction" name [("rd_rs1", R a); ("is_auipc_jump", FBool false)] true).
Proof. intros Hl Hn. unfold crj_names in Hn. vm_compute in Hn. repeat (destruct Hn as [<-|Hn]; [navl Hl Hl; reflexivity|]). contradiction. Qed.
Lemma ci_parse l t0 name a tok e : lower t0 = name -> In name ci_names -> String.eqb a "=" = false -> parse_immediate [tok] l = FOk e ->
  parse_item l [t0; a; tok] = FOk (IInstr "CITypeInstruction" name [("rd_rs1", R a); ("imm", FExpr e)] true).
Proof.
  intros Hl Hn Hrd Hp. unfold ci_names in Hn. vm_compute in Hn.
  repeat (destruct Hn as [<-|Hn]; [navl Hl Hrd; cbn [fbind]; rewrite Hp; reflexivity|]). contradiction.
Qed.
Lemma css_parse l t0 name a tok e : lower t0 = name -> In name css_names -> String.eqb a "=" = false -> parse_immediate [tok] l = FOk e ->
  parse_item l [t0; a; tok] = FOk (IInstr "CSSTypeInstruction" name [("rs2", R a); ("imm", FExpr e)] true).
Proof.
  intros Hl Hn Hrd Hp. unfold css_names in Hn. vm_compute in Hn.
  repeat (destruct Hn as [<-|Hn]; [navl Hl Hrd; cbn [fbind]; rewrite Hp; reflexivity|]). contradiction.
Qed.
Lemma ciw_parse l t0 name a tok e : lower t0 = name -> In name ciw_names -> String.eqb a "=" = false -> parse_immediate [tok] l = FOk e ->
  parse_item l [t0; a; tok] = FOk (IInstr "CIWTypeInstruction" name [("rd", R a); ("imm", FExpr e)] true).
Proof.
  intros Hl Hn Hrd Hp. unfold ciw_names in Hn. vm_compute in Hn.
  repeat (destruct Hn as [<-|Hn]; [navl Hl Hrd; cbn [fbind]; rewrite Hp; reflexivity|]). contradiction.
Qed.
(* CB-type: the shifts / c.andi take an immediate; c.beqz / c.bnez take a reference (parse_item: cref_imm) -- a literal offset here *)
Definition cbi_names : list string := ["c.srli"; "c.srai"; "c.andi"].
Definition cbz_names : list string := ["c.beqz"; "c.bnez"].
Lemma cb_names_split : forallb (fun n => mem_str n (cbi_names ++ cbz_names)) cb_names = true /\
                       forallb (fun n => mem_str n cb_names) (cbi_names ++ cbz_names) = true.
Proof. vm_compute. auto. Qed.
Lemma cbi_parse l t0 name a tok e : lower t0 = name -> In name cbi_names -> String.eqb a "=" = false -> parse_immediate [tok] l = FOk e ->
  parse_item l [t0; a; tok] = FOk (IInstr "CBTypeInstruction" name [("rs1", R a); ("imm", FExpr e)] true).
Proof.
  intros Hl Hn Hrd Hp. unfold cbi_names in Hn. simpl in Hn.
  repeat (destruct Hn as [<-|Hn]; [navl Hl Hrd; cbn [orb]; cbv beta iota zeta; cbn [fbind]; rewrite Hp; reflexivity|]). contradiction.
Qed.
Lemma cbz_parse l t0 name a tok e : lower t0 = name -> In name cbz_names -> String.eqb a "=" = false -> is_int tok = true ->
  parse_immediate [tok] l = FOk e ->
  parse_item l [t0; a; tok] = FOk (IInstr "CBTypeInstruction" name [("rs1", R a); ("imm", FExpr e)] true).
Proof.
  intros Hl Hn Hrd Hi Hp. unfold cbz_names in Hn. simpl in Hn.
  repeat (destruct Hn as [<-|Hn]; [navl Hl Hrd; cbn [orb]; cbv beta iota zeta; unfold cref_imm; rewrite Hi; cbn [fbind]; rewrite Hp; reflexivity|]).
  contradiction.
Qed.
Lemma cia_parse l t0 name tok e : lower t0 = name -> In name cia_names -> parse_immediate [tok] l = FOk e ->
  parse_item l [t0; tok] = FOk (IInstr "CIATypeInstruction" name [("imm", FExpr e)] true).
Proof.
  intros Hl Hn Hp. unfold cia_names in Hn. vm_compute in Hn.
  repeat (destruct Hn as [<-|Hn]; [navl Hl Hl; cbn [fbind]; rewrite Hp; reflexivity|]). contradiction.
Qed.
Lemma cj_parse l t0 name tok e : lower t0 = name -> In name cj_names -> is_int tok = true -> parse_immediate [tok] l = FOk e ->
  parse_item l [t0; tok] = FOk (IInstr "CJTypeInstruction" name [("imm", FExpr e)] true).
Proof.
  intros Hl Hn Hi Hp. unfold cj_names in Hn. vm_compute in Hn.
  repeat (destruct Hn as [<-|Hn]; [navl Hl Hl; unfold cref_imm; rewrite Hi; cbn [fbind]; rewrite Hp; reflexivity|]). contradiction.
Qed.
Lemma cl_parse l t0 name a b tok e : lower t0 = name -> In name cl_names -> String.eqb a "=" = false -> String.eqb tok "(" = false ->
  parse_immediate [tok] l = FOk e ->
  parse_item l [t0; a; b; tok] = FOk (IInstr "CLTypeInstruction" name [("rd", R a); ("rs1", R b); ("imm", FExpr e)] true).
Proof.
  intros Hl Hn Hrd Htok Hp. unfold cl_names in Hn. vm_compute in Hn.
  repeat (destruct Hn as [<-|Hn]; [navl Hl Hrd; unfold base_offset; cbn [nth_tok nth_error tok_is andb]; rewrite ?Htok; rewrite ?andb_false_r;
                                   cbv beta iota; cbn [fbind]; rewrite Hp; reflexivity|]).
  contradiction.
Qed.
Lemma cs_parse l t0 name a b tok e : lower t0 = name -> In name cs_names -> String.eqb a "=" = false -> String.eqb tok "(" = false ->
  parse_immediate [tok] l = FOk e ->
  parse_item l [t0; a; b; tok] = FOk (IInstr "CSTypeInstruction" name [("rs1", R a); ("rs2", R b); ("imm", FExpr e)] true).
Proof.
  intros Hl Hn Hrd Htok Hp. unfold cs_names in Hn. vm_compute in Hn.
  repeat (destruct Hn as [<-|Hn]; [navl Hl Hrd; cbn [nth_tok nth_error tok_is]; rewrite ?Htok; cbv beta iota; cbn [fbind]; rewrite Hp; reflexivity|]).
  contradiction.
Qed.

(* c_form l toks name args: a line of one of the 25 compressed mnemonics that take operands, literal immediate *)
Inductive c_form (l : line) : list string -> string -> list arg -> Prop :=
| FC_rr t0 name a b :                   (* c.mv c.add / c.sub c.xor c.or c.and *)
    lower t0 = name -> In name (cr_names ++ ca_names) -> String.eqb a "=" = false ->
    c_form l [t0; a; b] name [AStr a; AStr b]
| FC_r t0 name a :                      (* c.jr c.jalr *)
    lower t0 = name -> In name crj_names -> c_form l [t0; a] name [AStr a]
| FC_ri t0 name a tok x v :             (* c.addi c.li c.lui c.slli c.lwsp / c.swsp / c.addi4spn / c.srli c.srai c.andi *)
    lower t0 = name -> In name (ci_names ++ css_names ++ ciw_names ++ cbi_names) -> String.eqb a "=" = false ->
    parse_immediate [tok] l = FOk (EArith x) -> closed x v ->
    c_form l [t0; a; tok] name [AStr a; AInt v]
| FC_rb t0 name a tok x v :             (* c.beqz c.bnez with a literal offset (an integer literal: any other single token is a reference) *)
    lower t0 = name -> In name cbz_names -> String.eqb a "=" = false -> is_int tok = true ->
    parse_immediate [tok] l = FOk (EArith x) -> closed x v ->
    c_form l [t0; a; tok] name [AStr a; AInt v]
| FC_i t0 name tok x v :                (* c.addi16sp *)
    lower t0 = name -> In name cia_names ->
    parse_immediate [tok] l = FOk (EArith x) -> closed x v ->
    c_form l [t0; tok] name [AInt v]
| FC_j t0 name tok x v :                (* c.j c.jal with a literal offset *)
    lower t0 = name -> In name cj_names -> is_int tok = true ->
    parse_immediate [tok] l = FOk (EArith x) -> closed x v ->
    c_form l [t0; tok] name [AInt v]
| FC_rri t0 name a b tok x v :          (* c.lw / c.sw *)
    lower t0 = name -> In name (cl_names ++ cs_names) -> String.eqb a "=" = false -> String.eqb tok "(" = false ->
    parse_immediate [tok] l = FOk (EArith x) -> closed x v ->
    c_form l [t0; a; b; tok] name [AStr a; AStr b; AInt v].

Lemma tables_c : forallb (fun n => mem_str n c_mnemonics)
  ((cr_names ++ ca_names) ++ crj_names ++ (ci_names ++ css_names ++ ciw_names ++ cbi_names) ++ cbz_names ++ (cia_names ++ cj_names) ++ (cl_names ++ cs_names)) = true.
Proof. vm_compute. reflexivity. Qed.
Lemma table_c n : In n ((cr_names ++ ca_names) ++ crj_names ++ (ci_names ++ css_names ++ ciw_names ++ cbi_names) ++ cbz_names ++ (cia_names ++ cj_names) ++ (cl_names ++ cs_names)) ->
  In n c_mnemonics.
Proof. intro H. pose proof tables_c as T. rewrite forallb_forall in T. apply AcceptMono.mem_in. apply T. exact H. Qed.

Ltac c_item P Ha Hn :=
  do 4 eexists; split; [reflexivity|]; split; [apply P; eassumption|]; split; [reflexivity|];
  split; [first [closed_imm_tac | (intros ? Hx; cbn in Hx; discriminate)]|]; split; [args_tac Ha|]; split; [reflexivity|];
  let E := fresh "E" in intro E; exfalso; rewrite E in Hn; revert Hn; apply mem_str_false; vm_compute; reflexivity.

Lemma c_form_item l toks name args : c_form l toks name args ->
  In name c_mnemonics /\
  exists t ts cls fs, toks = t :: ts /\ parse_item l toks = FOk (IInstr cls name fs true) /\ is_atomic_cls cls = false /\
    closed_imm fs /\ args_of (set_lit fs) = args /\ reg_strs fs = arg_strs args /\
    (name = "jalr" -> field_get "is_auipc_jump" fs <> None).
Proof.
  intros [t0 n a b Hl Hn Hrd|t0 n a Hl Hn|t0 n a tok x v Hl Hn Hrd Hp Ha|t0 n a tok x v Hl Hn Hrd Hi Hp Ha|t0 n tok x v Hl Hn Hp Ha
         |t0 n tok x v Hl Hn Hi Hp Ha|t0 n a b tok x v Hl Hn Hrd Ht Hp Ha].
  - split. { apply table_c. apply in_or_app. left. exact Hn. }
    apply in_app_or in Hn. destruct Hn as [Hn|Hn]; [c_item cr_parse Hl Hn|c_item ca_parse Hl Hn].
  - split. { apply table_c. apply in_or_app. right. apply in_or_app. left. exact Hn. }
    c_item crj_parse Hl Hn.
  - split. { apply table_c. do 2 (apply in_or_app; right). apply in_or_app. left. exact Hn. }
    apply in_app_or in Hn. destruct Hn as [Hn|Hn]; [c_item ci_parse Ha Hn|].
    apply in_app_or in Hn. destruct Hn as [Hn|Hn]; [c_item css_parse Ha Hn|].
    apply in_app_or in Hn. destruct Hn as [Hn|Hn]; [c_item ciw_parse Ha Hn|c_item cbi_parse Ha Hn].
  - split. { apply table_c. do 3 (apply in_or_app; right). apply in_or_app. left. exact Hn. }
    c_item cbz_parse Ha Hn.
  - split. { apply table_c. do 4 (apply in_or_app; right). apply in_or_app. left. apply in_or_app. left. exact Hn. }
    c_item cia_parse Ha Hn.
  - split. { apply table_c. do 4 (apply in_or_app; right). apply in_or_app. left. apply in_or_app. right. exact Hn. }
    c_item cj_parse Ha Hn.
  - split. { apply table_c. do 5 (apply in_or_app; right). exact Hn. }
    apply in_app_or in Hn. destruct Hn as [Hn|Hn]; [c_item cl_parse Ha Hn|c_item cs_parse Ha Hn].
Qed.

Theorem c_line_refused l text toks name args cmp :
  lex_tokens text = Some toks -> c_form l toks name args -> legal_operands16 name args = false ->
  assemble_text [(l, text)] [] [] cmp = TFail (PAsm l).
Proof.
  intros Hlex Hf Hleg. destruct (c_form_item _ _ _ _ Hf) as (Hc & t & ts & cls & fs & -> & Hp & Hat & Hcl & Ha & _ & Hj).
  eapply any_line_refused; eauto. rewrite Ha. intros w Hw.
  rewrite (proj1 (legal16_encode name args Hc) (ex_intro _ w Hw)) in Hleg. discriminate.
Qed.
Theorem c_line_accepted l text toks name args :
  lex_tokens text = Some toks -> c_form l toks name args -> legal_operands16 name args = true ->
  exists h ops c,
    encode name args [] = Ok h /\
    assemble_text [(l, text)] [] [] false = TDone {| r_chunks := [(l, CBytes (le_bytes 2 h))]; r_consts := []; r_labels := [] |} /\
    0 <= h < 2 ^ 16 /\ operands16 name args = Some ops /\ legal16 name ops = true /\ denote16 name ops = Some c /\ decode16 h = Some c.
Proof.
  intros Hlex Hf Hleg. destruct (c_form_item _ _ _ _ Hf) as (Hc & t & ts & cls & fs & -> & Hp & Hat & Hcl & Ha & _ & Hj).
  destruct (proj2 (legal16_encode name args Hc) Hleg) as [h Hh].
  destruct (forward name _ _ h Hc Hh) as (Hr & ops & c & H1 & H2 & H3 & H4).
  exists h, ops, c. split; [exact Hh|]. split; [|auto].
  rewrite <- Ha in Hh. exact (any_line_accepted l text t ts cls name fs true Hlex Hp Hat Hcl h Hh).
Qed.
Theorem c_line_accepted_compress l text toks name args :
  lex_tokens text = Some toks -> c_form l toks name args -> legal_operands16 name args = true ->
  exists r, assemble_text [(l, text)] [] [] true = TDone r.
Proof.
  intros Hlex Hf Hleg. destruct (c_form_item _ _ _ _ Hf) as (Hc & t & ts & cls & fs & -> & Hp & Hat & Hcl & Ha & _ & Hj).
  destruct (proj2 (legal16_encode name args Hc) Hleg) as [h Hh]. rewrite <- Ha in Hh.
  exact (any_line_accepted_compress l text t ts cls name fs true Hlex Hp Hat Hcl h Hj Hh).
Qed.
Theorem c_line_in_program ls c0 l0 cmp l text toks name args :
  In (l, text) ls -> lex_tokens text = Some toks -> c_form l toks name args -> legal_operands16 name args = false ->
  (forall s, In s (arg_strs args) -> assoc_str s c0 = None /\ (reg_like s = true \/ ~ In s (defined_names ls))) ->
  forall r, assemble_text ls c0 l0 cmp <> TDone r.
Proof.
  intros Hin Hlex Hf Hleg Hregs. destruct (c_form_item _ _ _ _ Hf) as (Hc & t & ts & cls & fs & -> & Hp & Hat & Hcl & Ha & Hs & Hj).
  eapply any_line_in_program; eauto.
  - rewrite Hs. intros s Hin'. destruct (Hregs s Hin') as [A [B|B]]; split; auto.
    right. intros its Hits Hc'. apply B. eapply cnames_defined; eauto.
  - rewrite Ha. intros w Hw. rewrite (proj1 (legal16_encode name args Hc) (ex_intro _ w Hw)) in Hleg. discriminate.
Qed.
