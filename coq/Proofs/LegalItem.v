(* C06 at the level of the assembler -- items: (1) a ONE-instruction program whose instruction is doomed (Proofs/LegalCompress.v)
   ends with the assembler's own error at its line, in both modes; (2) one whose operands the encoder accepts ends with the
   encoder's word as its bytes; (3) a program of ANY items that contains a doomed instruction never produces a result. *)
From Coq Require Import ZArith List Bool Lia String Arith.
From BB Require Import Base.Bits Base.PyBase Gen.Encoders Gen.Criteria Spec.RV32 Spec.RVC Spec.Operands Spec.Legal
  Model.Items Model.Encode Model.Passes Proofs.Layout Proofs.LayoutInst Proofs.Pipeline Proofs.Errors Proofs.EncSig Proofs.EncTotal Proofs.NoRaw
  Proofs.Stable Proofs.AcceptTail Proofs.AcceptClass Proofs.LegalCompress.
Import ListNotations.
Open Scope Z_scope.
Local Open Scope list_scope.

(* ---- the passes on an instruction with a literal immediate ------------------------------------------------------------------------ *)
Lemma imm_of_closed l p consts labels a v : closed a v -> imm_of l p consts labels (FExpr (EArith a)) = Done v.
Proof. intro H. unfold imm_of, eval_here. cbn [eeval]. rewrite (closed_eval _ _ _ H). reflexivity. Qed.

Lemma size_sub_self (c : bool) : ((if c then 2 else 4) - (if c then 2 else 4) >? 0) = false.
Proof. destruct c; reflexivity. Qed.

Lemma pseudo_single l cls name fs c consts ls :
  transform_pseudo [(l, IInstr cls name fs c)] consts ls = Done ([(l, IInstr cls name fs c)], ls).
Proof. unfold transform_pseudo. rewrite gpass_gp. cbn [gp is_label size_o size obind pseudo_rule sizes]. rewrite Z.add_0_r, size_sub_self. reflexivity. Qed.
Lemma aligns_single l cls name fs c ls :
  resolve_aligns [(l, IInstr cls name fs c)] ls = Done ([(l, IInstr cls name fs c)], ls).
Proof. unfold resolve_aligns. rewrite gpass_gp. cbn [gp is_label size_o size obind align_rule sizes]. rewrite Z.add_0_r, size_sub_self. reflexivity. Qed.
Lemma immediates_single l cls name fs c consts ls : closed_imm fs ->
  resolve_immediates [(l, IInstr cls name fs c)] 0 consts ls [] = Done [(l, IInstr cls name (set_lit fs) c)].
Proof.
  intro Hcl. cbn [resolve_immediates]. destruct (field_get "imm" fs) as [x|] eqn:E.
  - destruct (Hcl x E) as (a & v & -> & Ha). rewrite (imm_of_closed _ _ _ _ _ _ Ha). cbn [obind resolve_immediates rev app].
    destruct (closed_lit _ _ _ E Ha) as [_ ->]. reflexivity.
  - rewrite (noimm_lit _ E). reflexivity.
Qed.
Lemma aliases_single consts l cls name fs c : stable consts fs ->
  resolve_register_aliases [(l, IInstr cls name fs c)] consts = [(l, IInstr cls name fs c)].
Proof. intro H. unfold resolve_register_aliases. cbn [map]. rewrite (alias_stable _ _ H). reflexivity. Qed.
Lemma compress_single consts l it ls : doomed consts it ->
  transform_compressible [(l, it)] consts ls = Fail (PAsm l) \/
  exists y ls', transform_compressible [(l, it)] consts ls = Done ([(l, y)], ls') /\ doomed consts y.
Proof.
  intro D. unfold transform_compressible. rewrite gpass_gp.
  destruct (compress_doomed consts l it 0 ls D) as [E|(y & E & Dy)];
    destruct D as (cls & name & fs & c & -> & _); cbn [gp is_label size_o size obind]; rewrite E; cbn [obind].
  - left. reflexivity.
  - right. destruct Dy as (cls' & name' & fs' & c' & -> & Dy). cbn [sizes size_o size obind map app fst snd rev].
    eexists. eexists. split; [reflexivity|]. exists cls', name', fs', c'. split; [reflexivity|exact Dy].
Qed.

(* ---- (1) one doomed instruction: the assembler's error at its line, in both modes -------------------------------------------------- *)
Lemma tail_refused l cls name fs c consts ls ls' :
  doomed consts (IInstr cls name fs c) ->
  (p <<- resolve_aligns [(l, IInstr cls name fs c)] ls ;;;
   let '(its, labels) := p in
   its <<- resolve_immediates its 0 consts labels [] ;;;
   its <<- resolve_instructions its [] ;;;
   let its := resolve_strings its in
   its <<- resolve_sequences its [] ;;;
   its <<- transform_shorthand its [] ;;;
   its <<- resolve_packs its [] ;;;
   its <<- resolve_include_bytes its [] ;;;
   chunks <<- resolve_blobs its ;;;
   Done {| r_chunks := chunks; r_consts := consts; r_labels := ls' labels |}) = Fail (PAsm l).
Proof.
  intros (cls0 & name0 & fs0 & c0 & E & Hok & Hat & _ & Hcl & Hno). inversion E; subst cls0 name0 fs0 c0.
  rewrite aligns_single. cbn [obind]. rewrite (immediates_single _ _ _ _ _ _ _ Hcl). cbn [obind resolve_instructions].
  rewrite (encode_item_refused l cls name fs c Hok Hat Hcl Hno). reflexivity.
Qed.

Theorem one_item_refused l it cmp : doomed [] it -> assemble_items [(l, it)] [] [] cmp = Fail (PAsm l).
Proof.
  intro D. pose proof D as D0. destruct D as (cls & name & fs & c & -> & Hok & Hat & Hst & Hcl & Hno).
  unfold assemble_items. cbn [resolve_constants_lr rev app obind]. unfold resolve_labels.
  cbn [resolve_labels_from size_o size obind]. rewrite (aliases_single _ _ _ _ _ _ Hst).
  destruct cmp.
  - destruct (compress_single [] l _ [] D0) as [E|(y & ls1 & E & Dy)]; rewrite E; cbn [obind]; [reflexivity|].
    pose proof Dy as Dy0. destruct Dy as (cls1 & name1 & fs1 & c1 & -> & Hok1 & Hat1 & Hst1 & Hcl1 & Hno1).
    rewrite pseudo_single. cbn [obind]. rewrite (aliases_single _ _ _ _ _ _ Hst1).
    destruct (compress_single [] l _ ls1 Dy0) as [E2|(y2 & ls2 & E2 & Dy2)]; rewrite E2; cbn [obind]; [reflexivity|].
    pose proof Dy2 as Dy20. destruct Dy2 as (cls2 & name2 & fs2 & c2 & -> & _).
    exact (tail_refused l cls2 name2 fs2 c2 [] ls2 (fun x => x) Dy20).
  - cbn [obind]. rewrite pseudo_single. cbn [obind]. rewrite (aliases_single _ _ _ _ _ _ Hst).
    exact (tail_refused l cls name fs c [] [] (fun x => x) D0).
Qed.

(* ---- (2) one accepted instruction: its bytes are the encoder's word ---------------------------------------------------------------- *)
Theorem one_item_accepted l cls name fs c w :
  is_atomic_cls cls = false -> closed_imm fs -> encode name (args_of (set_lit fs)) [] = Ok w ->
  assemble_items [(l, IInstr cls name fs c)] [] [] false =
  Done {| r_chunks := [(l, CBytes (le_bytes (if c then 2 else 4) w))]; r_consts := []; r_labels := [] |}.
Proof.
  intros Hat Hcl He. unfold assemble_items. cbn [resolve_constants_lr rev app obind]. unfold resolve_labels.
  cbn [resolve_labels_from size_o size obind]. rewrite (aliases_single _ _ _ _ _ _ (stable_nil fs)). rewrite pseudo_single. cbn [obind].
  rewrite (aliases_single _ _ _ _ _ _ (stable_nil fs)).
  rewrite aligns_single. cbn [obind]. rewrite (immediates_single _ _ _ _ _ _ _ Hcl). cbn [obind resolve_instructions].
  unfold encode_item. rewrite Hat, He. reflexivity.
Qed.

(* ---- (3) membership through the passes --------------------------------------------------------------------------------------------- *)
Lemma gp_member rule its : forall pos ls o ls',
  gp rule its pos ls = Done (o, ls') ->
  forall l it, In (l, it) its -> is_label it = None ->
  exists p ls0 rs, rule l it p ls0 = Done rs /\ forall y, In y rs -> In (l, y) o.
Proof.
  induction its as [|[l0 it0] r IH]; intros pos ls o ls' H l it Hin El. contradiction.
  cbn [gp] in H. destruct (is_label it0) as [n|] eqn:E0.
  - destruct (gp rule r pos ls) as [[o1 ls1]| |] eqn:Eg; cbn [obind] in H; try discriminate. inversion H; subst.
    destruct Hin as [Hin|Hin]. { inversion Hin; subst. congruence. }
    destruct (IH _ _ _ _ Eg _ _ Hin El) as (p & ls0 & rs & A & B). exists p, ls0, rs. split; auto. intros y Hy. right. auto.
  - destruct (size_o it0) as [old| |]; cbn [obind] in H; try discriminate.
    destruct (rule l0 it0 pos ls) as [rs| |] eqn:Er; cbn [obind] in H; try discriminate.
    destruct (sizes rs) as [new| |]; cbn [obind] in H; try discriminate.
    destruct (gp rule r (pos + new) _) as [[o1 ls1]| |] eqn:Eg; cbn [obind] in H; try discriminate. inversion H; subst.
    destruct Hin as [Hin|Hin].
    + inversion Hin; subst. exists pos, ls, rs. split; auto. intros y Hy. apply in_or_app. left.
      apply in_map_iff. exists y. auto.
    + destruct (IH _ _ _ _ Eg _ _ Hin El) as (p & ls0 & rs' & A & B). exists p, ls0, rs'. split; auto.
      intros y Hy. apply in_or_app. right. auto.
Qed.
Lemma gpass_member rule its ls o ls' :
  gpass rule its 0 ls [] = Done (o, ls') ->
  forall l it, In (l, it) its -> is_label it = None ->
  exists p ls0 rs, rule l it p ls0 = Done rs /\ forall y, In y rs -> In (l, y) o.
Proof.
  rewrite gpass_gp. destruct (gp rule its 0 ls) as [[o1 ls1]| |] eqn:E; cbn [obind]; try discriminate.
  intro H. inversion H; subst. cbn [rev app fst]. eapply gp_member; eauto.
Qed.

Lemma doomed_instr consts it : doomed consts it -> exists cls name fs c, it = IInstr cls name fs c.
Proof. intros (cls & name & fs & c & E & _). eauto. Qed.

Lemma compress_member consts its ls o ls' l it :
  transform_compressible its consts ls = Done (o, ls') -> In (l, it) its -> doomed consts it ->
  exists y, In (l, y) o /\ doomed consts y.
Proof.
  intros H Hin D. destruct (doomed_instr _ _ D) as (cls & name & fs & c & E).
  assert (El : is_label it = None) by (subst; reflexivity).
  destruct (gpass_member _ _ _ _ _ H l it Hin El) as (p & ls0 & rs & Hr & Hall).
  destruct (compress_doomed consts l it p ls0 D) as [F|(y & F & Dy)]; rewrite F in Hr; [discriminate|].
  inversion Hr; subst rs. exists y. split; [apply Hall; left; reflexivity|exact Dy].
Qed.
Lemma compress_opt_member (cmp : bool) consts its ls o ls' l it :
  (if cmp then transform_compressible its consts ls else Done (its, ls)) = Done (o, ls') -> In (l, it) its -> doomed consts it ->
  exists y, In (l, y) o /\ doomed consts y.
Proof.
  destruct cmp. apply compress_member. intros H Hin D. inversion H; subst. eauto.
Qed.
Lemma pseudo_member consts its ls o ls' l cls name fs c :
  transform_pseudo its consts ls = Done (o, ls') -> In (l, IInstr cls name fs c) its -> In (l, IInstr cls name fs c) o.
Proof.
  intros H Hin. destruct (gpass_member _ _ _ _ _ H l _ Hin eq_refl) as (p & ls0 & rs & Hr & Hall).
  cbn [pseudo_rule] in Hr. inversion Hr; subst rs. apply Hall. left. reflexivity.
Qed.
Lemma aligns_member its ls o ls' l cls name fs c :
  resolve_aligns its ls = Done (o, ls') -> In (l, IInstr cls name fs c) its -> In (l, IInstr cls name fs c) o.
Proof.
  intros H Hin. destruct (gpass_member _ _ _ _ _ H l _ Hin eq_refl) as (p & ls0 & rs & Hr & Hall).
  cbn [align_rule] in Hr. inversion Hr; subst rs. apply Hall. left. reflexivity.
Qed.
Lemma aliases_member consts its l it : In (l, it) its -> doomed consts it -> In (l, it) (resolve_register_aliases its consts).
Proof.
  intros Hin (cls & name & fs & c & -> & _ & _ & Hst & _). unfold resolve_register_aliases.
  apply in_map_iff. exists (l, IInstr cls name fs c). split; [|exact Hin]. cbn. rewrite (alias_stable _ _ Hst). reflexivity.
Qed.
Lemma pF2_member (R : Z -> litem -> litem -> Prop) : forall a p b x, pF2 R p a b -> In x a -> exists q y, R q x y /\ In y b.
Proof.
  induction a as [|x0 a IH]; intros p b x H Hin. contradiction.
  destruct b as [|y0 b]; cbn [pF2] in H; [contradiction|]. destruct H as [H0 H1].
  destruct Hin as [<-|Hin]. { exists p, y0. split; auto. left; reflexivity. }
  destruct (IH _ _ _ H1 Hin) as (q & y & A & B). exists q, y. split; auto. right; exact B.
Qed.
Lemma immediates_member its consts labels out l cls name fs c :
  resolve_immediates its 0 consts labels [] = Done out -> In (l, IInstr cls name fs c) its -> closed_imm fs ->
  In (l, IInstr cls name (set_lit fs) c) out.
Proof.
  intros H Hin Hcl. destruct (resolve_immediates_spec _ _ _ _ _ _ H) as (out' & -> & F). cbn [rev app].
  destruct (pF2_member _ _ _ _ _ F Hin) as (q & [l' it'] & (El & Hr) & Hy). cbn [fst snd] in El, Hr. subst l'.
  destruct (field_get "imm" fs) as [x|] eqn:E.
  - destruct Hr as (z & Hz & Ey). destruct (Hcl x E) as (a & v & -> & Ha). rewrite (imm_of_closed _ _ _ _ _ _ Ha) in Hz.
    inversion Hz; subst z. destruct (closed_lit _ _ _ E Ha) as [_ ->]. subst it'. exact Hy.
  - rewrite (noimm_lit _ E). subst it'. exact Hy.
Qed.
Lemma instructions_member its out l cls name fs c :
  resolve_instructions its [] = Done out -> In (l, IInstr cls name fs c) its -> exists bs, encode_item l cls name fs c = Done bs.
Proof.
  intros H Hin. destruct (resolve_instructions_spec _ _ _ H) as (out' & _ & F).
  clear H. induction F as [|x y a b Hxy _ IH]. contradiction.
  destruct Hin as [->|Hin]; [|auto]. destruct Hxy as [_ (bs & Hb & _)]. eauto.
Qed.

(* ---- (3) the theorem: a program that contains a doomed instruction has no result ------------------------------------------------- *)
Theorem doomed_program its c0 l0 cmp r l it :
  assemble_items its c0 l0 cmp = Done r -> In (l, it) its ->
  (forall consts, resolve_constants_lr its c0 [] = Done (filter not_const its, consts) -> doomed consts it) -> False.
Proof.
  intros Hrun Hin HD.
  destruct (run_stages _ _ _ _ _ Hrun) as (consts & labels & i3 & lab3 & i4 & lab4 & i6 & lab6 & i7 & lab7 & i8 & ch & S).
  destruct S as (E1 & E2 & E3 & E4 & E6 & E7 & E8 & T).
  pose proof (HD consts E1) as D.
  assert (H1 : In (l, it) (filter not_const its)).
  { apply filter_In. split; [exact Hin|]. destruct (doomed_instr _ _ D) as (cls & name & fs & c & ->). reflexivity. }
  pose proof (aliases_member consts _ l it H1 D) as H2.
  destruct (compress_opt_member cmp consts _ labels i3 lab3 l it E3 H2 D) as (y & H3 & Dy).
  destruct (doomed_instr _ _ Dy) as (cls & name & fs & c & ->).
  pose proof (pseudo_member _ _ _ _ _ _ _ _ _ _ E4 H3) as H4.
  pose proof (aliases_member consts _ l _ H4 Dy) as H5.
  destruct (compress_opt_member cmp consts _ lab4 i6 lab6 l _ E6 H5 Dy) as (y2 & H6 & Dy2).
  destruct Dy2 as (cls2 & name2 & fs2 & c2 & -> & Hok & Hat & Hst & Hcl & Hno).
  pose proof (aligns_member _ _ _ _ _ _ _ _ _ E7 H6) as H7.
  pose proof (immediates_member _ _ _ _ _ _ _ _ _ E8 H7 Hcl) as H8.
  apply tail8_stages in T. destruct T as (i9 & i11 & i12 & i13 & i14 & A & _).
  destruct (instructions_member _ _ _ _ _ _ _ A H8) as [bs Hb].
  rewrite (encode_item_refused l cls2 name2 fs2 c2 Hok Hat Hcl Hno) in Hb. discriminate.
Qed.

(* the names of the constants of the final table: the given ones and the ones the program defines; a successful constants pass
   has refused every definition of a register name or of an integer literal *)
Lemma constants_names_ok its : forall consts acc out consts',
  resolve_constants_lr its consts acc = Done (out, consts') ->
  forall n, In n (cnames its) -> mem_str n reg_names = false /\ is_int n = false.
Proof.
  induction its as [|[l it] r IH]; intros consts acc out consts' H n Hn. contradiction.
  destruct it; cbn [resolve_constants_lr cnames] in *; try (eapply IH; eauto; fail).
  destruct e; try discriminate;
    (destruct (mem_str name reg_names) eqn:Em; try discriminate; destruct (is_int name) eqn:Ei; try discriminate;
     match type of H with (_ <<- ?x ;;; _) = _ => destruct x as [v| |]; cbn [obind] in H; try discriminate end;
     (destruct Hn as [<-|Hn]; [auto|eapply IH; eauto])).
Qed.
