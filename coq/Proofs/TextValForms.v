(* C08 at the level of the TEXT of a file, part 3: the lines in terms of their TOKENS.  Which token lines are instructions of the
   I-, S- and U-type tables with an immediate expression / li / db dh dw dd / pack; what parse_immediate makes of the documented
   spellings of a label value; the text-level theorems with the Spec decoder (Spec/RV32.v) and the Spec machine (Spec/Sem.v). *)
From Coq Require Import ZArith List Bool Lia String Ascii.
From BB Require Import Base.PyBase Gen.Encoders Gen.Criteria Spec.RV32 Spec.Operands Spec.Data Spec.Sem
  Model.Items Model.Encode Model.Lexer Model.PyExpr Model.Parser Model.Passes
  Proofs.Layout Proofs.LayoutInst Proofs.Pipeline Proofs.C01Main Proofs.EndToEnd Proofs.LegalLine Proofs.ParseForms
  Proofs.Program Proofs.TextGroups Proofs.TextTrack Proofs.TextLayout Proofs.TextLands Proofs.TextValTrack Proofs.TextValues.
Import ListNotations.
Open Scope Z_scope.
Open Scope string_scope.

(* ---- the instruction lines -------------------------------------------------------------------------------------------------------- *)
(* imm_line l ts cls name regs fs e: the token list ts is an instruction `name` of class cls (t0 is the mnemonic as written, in any
   case), regs are its register operands in encoder order, its immediate tokens parse to e, and fs is the field list parse_item builds *)
Inductive imm_line (l : line) : list string -> string -> string -> list string -> list (string * fval) -> expr -> Prop :=
| IL_i t0 name rd rs1 i0 imm e :         (* jalr, loads, addi .. andi, csr instructions:  name rd, rs1, <imm tokens> *)
    lower t0 = name -> In name i_names -> rd <> "=" -> i0 <> "(" -> parse_immediate (i0 :: imm) l = FOk e ->
    imm_line l (t0 :: rd :: rs1 :: i0 :: imm) "ITypeInstruction" name [rd; rs1]
             [("rd", R rd); ("rs1", R rs1); ("imm", FExpr e); ("is_auipc_jump", FBool false)] e
| IL_load t0 name rd off cl rs1 e :       (* lw rd, off(rs1) *)
    lower t0 = name -> In name ["jalr"; "lb"; "lh"; "lw"; "lbu"; "lhu"] -> rd <> "=" -> off <> "(" -> parse_immediate [off] l = FOk e ->
    imm_line l [t0; rd; off; "("; rs1; cl] "ITypeInstruction" name [rd; rs1]
             [("rd", R rd); ("rs1", R rs1); ("imm", FExpr e); ("is_auipc_jump", FBool false)] e
| IL_s t0 name rs1 rs2 i0 imm e :        (* stores:  name rs1, rs2, <imm tokens>  (base register first) *)
    lower t0 = name -> In name s_names -> rs1 <> "=" -> i0 <> "(" -> parse_immediate (i0 :: imm) l = FOk e ->
    imm_line l (t0 :: rs1 :: rs2 :: i0 :: imm) "STypeInstruction" name [rs1; rs2]
             [("rs1", R rs1); ("rs2", R rs2); ("imm", FExpr e)] e
| IL_store t0 name rs2 off cl rs1 e :     (* sw rs2, off(rs1) *)
    lower t0 = name -> In name ["sb"; "sh"; "sw"] -> rs2 <> "=" -> off <> "(" -> parse_immediate [off] l = FOk e ->
    imm_line l [t0; rs2; off; "("; rs1; cl] "STypeInstruction" name [rs1; rs2]
             [("rs1", R rs1); ("rs2", R rs2); ("imm", FExpr e)] e
| IL_u t0 name rd i0 imm e :             (* lui, auipc *)
    lower t0 = name -> In name u_names -> rd <> "=" -> parse_immediate (i0 :: imm) l = FOk e ->
    imm_line l (t0 :: rd :: i0 :: imm) "UTypeInstruction" name [rd] [("rd", R rd); ("imm", FExpr e)] e.

Ltac navg Hl Hrd :=
  unfold parse_item; cbv zeta; cbn [List.length Nat.eqb Nat.leb andb nth_tok nth_error tok_is]; rewrite ?Hrd; rewrite ?Hl;
  cbv beta iota zeta;
  repeat match goal with
         | |- context[in_tab ?x ?y] => let v := eval vm_compute in (in_tab x y) in change (in_tab x y) with v
         | |- context[mem_str ?x ?y] => let v := eval vm_compute in (mem_str x y) in change (mem_str x y) with v
         | |- context[String.eqb (String ?c ?x) (String ?d ?y)] =>
             let v := eval vm_compute in (String.eqb (String c x) (String d y)) in change (String.eqb (String c x) (String d y)) with v
         end;
  cbv beta iota.

Ltac navc Hrd :=
  unfold parse_item; cbv zeta; cbn [List.length Nat.eqb Nat.leb andb nth_tok nth_error tok_is]; rewrite ?Hrd;
  match goal with |- context[lower ?h] => let v := eval vm_compute in (lower h) in change (lower h) with v end;
  cbv beta iota zeta;
  repeat match goal with
         | |- context[in_tab ?x ?y] => let v := eval vm_compute in (in_tab x y) in change (in_tab x y) with v
         | |- context[mem_str ?x ?y] => let v := eval vm_compute in (mem_str x y) in change (mem_str x y) with v
         | |- context[String.eqb (String ?c ?x) (String ?d ?y)] =>
             let v := eval vm_compute in (String.eqb (String c x) (String d y)) in change (String.eqb (String c x) (String d y)) with v
         end;
  cbv beta iota.

Lemma imm_line_parse l ts cls name regs fs e : imm_line l ts cls name regs fs e -> parse_item l ts = FOk (IInstr cls name fs false).
Proof.
  intro H. destruct H as [t0 name rd rs1 i0 imm e Hl Hn Hrd Hi Hp|t0 name rd off cl rs1 e Hl Hn Hrd Ho Hp
                          |t0 name rs1 rs2 i0 imm e Hl Hn Hrd Hi Hp|t0 name rs2 off cl rs1 e Hl Hn Hrd Ho Hp|t0 name rd i0 imm e Hl Hn Hrd Hp];
    apply neq_eqb in Hrd.
  - apply neq_eqb in Hi. unfold i_names in Hn. vm_compute in Hn.
    repeat (destruct Hn as [<-|Hn];
      [navg Hl Hrd; unfold base_offset; cbn [nth_tok nth_error tok_is andb]; rewrite ?Hi; rewrite ?andb_false_r;
       cbv beta iota; cbn [fbind]; rewrite Hp; reflexivity|]).
    contradiction.
  - apply neq_eqb in Ho. cbn [In] in Hn.
    repeat (destruct Hn as [<-|Hn];
      [navg Hl Hrd; unfold base_offset; cbn [nth_tok nth_error tok_is andb String.eqb Ascii.eqb Bool.eqb];
       match goal with |- context[mem_str ?x ?y] => let v := eval vm_compute in (mem_str x y) in change (mem_str x y) with v end;
       cbn [andb]; cbv beta iota; cbn [fbind]; rewrite Hp; reflexivity|]).
    contradiction.
  - apply neq_eqb in Hi. unfold s_names in Hn. vm_compute in Hn.
    repeat (destruct Hn as [<-|Hn];
      [navg Hl Hrd; cbn [nth_tok nth_error tok_is]; rewrite ?Hi; cbv beta iota; cbn [fbind]; rewrite Hp; reflexivity|]).
    contradiction.
  - apply neq_eqb in Ho. cbn [In] in Hn.
    repeat (destruct Hn as [<-|Hn];
      [navg Hl Hrd; cbn [nth_tok nth_error tok_is String.eqb Ascii.eqb Bool.eqb]; cbv beta iota; cbn [fbind]; rewrite Hp; reflexivity|]).
    contradiction.
  - unfold u_names in Hn. vm_compute in Hn.
    repeat (destruct Hn as [<-|Hn]; [navg Hl Hrd; cbn [fbind]; rewrite Hp; reflexivity|]). contradiction.
Qed.

(* ---- what the encoder receives, and what the Spec decoder reads back ---------------------------------------------------------------- *)
Lemma imm_line_facts l ts cls name regs fs e : imm_line l ts cls name regs fs e ->
  In name base_mnemonics /\ is_atomic_cls cls = false /\ not_jump cls = true /\ field_get "imm" fs = Some (FExpr e) /\ back_of fs = 0 /\
  (cls = "ITypeInstruction" /\ In name i_names \/ cls = "STypeInstruction" /\ In name s_names \/ cls = "UTypeInstruction" /\ In name u_names) /\
  forall consts z, args_of (field_set "imm" (FInt z) (map (alias_field consts) fs)) = (map (alias_arg consts) regs ++ [AInt z])%list.
Proof.
  intro H.
  assert (Hload : forall n, In n ["jalr"; "lb"; "lh"; "lw"; "lbu"; "lhu"] -> In n i_names).
  { intros n Hn. cbn [In] in Hn. repeat (destruct Hn as [<-|Hn]; [vm_compute; tauto|]). contradiction. }
  assert (Hstore : forall n, In n ["sb"; "sh"; "sw"] -> In n s_names).
  { intros n Hn. cbn [In] in Hn. repeat (destruct Hn as [<-|Hn]; [vm_compute; tauto|]). contradiction. }
  destruct H as [t0 name rd rs1 i0 imm e Hl Hn Hrd Hi Hp|t0 name rd off cl rs1 e Hl Hn Hrd Ho Hp
                |t0 name rs1 rs2 i0 imm e Hl Hn Hrd Hi Hp|t0 name rs2 off cl rs1 e Hl Hn Hrd Ho Hp|t0 name rd i0 imm e Hl Hn Hrd Hp].
  1,2: (try apply Hload in Hn); (split; [apply table_base; apply in_or_app; right; apply in_or_app; left; exact Hn|]);
    (split; [reflexivity|]); (split; [reflexivity|]); (split; [reflexivity|]); (split; [reflexivity|]); (split; [left; auto|]);
    intros consts z; unfold R; cbn [map]; rewrite (alias_reg_str consts "rd" rd eq_refl), (alias_reg_str consts "rs1" rs1 eq_refl); reflexivity.
  1,2: (try apply Hstore in Hn); (split; [apply table_base; apply in_or_app; right; apply in_or_app; right; apply in_or_app; left; exact Hn|]);
    (split; [reflexivity|]); (split; [reflexivity|]); (split; [reflexivity|]); (split; [reflexivity|]); (split; [right; left; auto|]);
    intros consts z; unfold R; cbn [map]; rewrite (alias_reg_str consts "rs1" rs1 eq_refl), (alias_reg_str consts "rs2" rs2 eq_refl); reflexivity.
  split; [apply table_base; apply in_or_app; right; apply in_or_app; right; apply in_or_app; right; apply in_or_app; left; exact Hn|].
  split; [reflexivity|]. split; [reflexivity|]. split; [reflexivity|]. split; [reflexivity|]. split; [right; right; auto|].
  intros consts z. unfold R. cbn [map]. rewrite (alias_reg_str consts "rd" rd eq_refl). reflexivity.
Qed.

(* the operand list the Spec reads from the line: the registers as numbers, then the immediate AS GIVEN (lui / auipc: the documented
   second spelling 0x80000 .. 0xfffff of the negative values is normalised, Spec/Operands.v upper_norm) *)
Definition imm_ops (cls : string) (ops : list Z) (z : Z) : Prop :=
  if String.eqb cls "UTypeInstruction" then exists rd, ops = [rd; upper_norm z] else exists a b, ops = [a; b; z].
Lemma ops_reg3 name a b z ops : In name (i_names ++ s_names) -> operands32 name [a; b; AInt z] [] = Some ops ->
  exists r1 r2, ops = [r1; r2; z].
Proof.
  intros Hn Ho. vm_compute in Hn.
  repeat (destruct Hn as [<-|Hn];
    [ unfold operands32 in Ho;
      match type of Ho with context[sassoc ?n kinds32] =>
        let v := eval vm_compute in (sassoc n kinds32) in change (sassoc n kinds32) with v in Ho end;
      cbn [read_ops read_op] in Ho;
      destruct (regnum a) as [r1|]; [|discriminate]; destruct (regnum b) as [r2|]; [|discriminate];
      inversion Ho; eauto | ]).
  contradiction.
Qed.
Lemma ops_reg2 name a z ops : In name u_names -> operands32 name [a; AInt z] [] = Some ops -> exists r1, ops = [r1; upper_norm z].
Proof.
  intros Hn Ho. vm_compute in Hn.
  repeat (destruct Hn as [<-|Hn];
    [ unfold operands32 in Ho;
      match type of Ho with context[sassoc ?n kinds32] =>
        let v := eval vm_compute in (sassoc n kinds32) in change (sassoc n kinds32) with v in Ho end;
      cbn [read_ops read_op] in Ho;
      destruct (regnum a) as [r1|]; [|discriminate]; inversion Ho; eauto | ]).
  contradiction.
Qed.

Open Scope list_scope.
(* (1) the instruction lines *)
Theorem text_instruction_value ls c0 l0 cmp r :
  assemble_text ls c0 l0 cmp = TDone r ->
  forall ls1 l text ls2 ts cls name regs fs e,
    ls = ls1 ++ (l, text) :: ls2 -> lex_tokens text = Some ts -> imm_line l ts cls name regs fs e ->
    unsettled (r_consts r) e = true ->
    exists cs1 cs2 z w ops i,
      r_chunks r = cs1 ++ (l, CBytes (le_bytes 4 w)) :: cs2 /\ text_layout r 0 ls1 cs1 /\ text_layout r (tot csz cs1 + 4) ls2 cs2 /\
      value_at (final_env r) (tot csz cs1) e = Some z /\
      operands32 name (map (alias_arg (r_consts r)) regs ++ [AInt z]) [] = Some ops /\ imm_ops cls ops z /\
      denote32 name ops = Some i /\ decode32 w = Some i.
Proof.
  intros H ls1 l text ls2 ts cls name regs fs e E Hx Hline Hu.
  pose proof (imm_line_parse _ _ _ _ _ _ _ Hline) as Hp.
  destruct (imm_line_facts _ _ _ _ _ _ _ Hline) as (Hb & Ha & Hj & Hi & Hback & Hcls & Hargs).
  assert (Hf : front_line l text = FOk (Some (IInstr cls name fs false))).
  { destruct ts as [|t ts']; [inversion Hline|]. rewrite (front_line_tokens_some l text t ts' Hx), Hp. reflexivity. }
  destruct (text_instruction_raw _ _ _ _ _ H _ _ _ _ _ _ _ _ _ E Hf Hi Hu Hj) as (cs1 & cs2 & z & bs & A1 & A2 & A3 & A4 & A5).
  rewrite Hback, Z.sub_0_r in A4.
  destruct (encode_item_plain _ _ _ _ _ _ Ha A5) as (w & Hw & ->). rewrite Hargs in Hw.
  destruct (decode_encode _ _ _ _ Hb Hw) as (_ & ops & i & Ho & Hd & Hdec).
  exists cs1, cs2, z, w, ops, i. repeat split; auto.
  unfold imm_ops. destruct Hcls as [[-> Hn]|[[-> Hn]|[-> Hn]]]; cbn [String.eqb Ascii.eqb Bool.eqb].
  - destruct regs as [|a [|b [|]]]; try (inversion Hline; fail). cbn [map app] in Ho.
    eapply (ops_reg3 name); eauto. apply in_or_app; left; exact Hn.
  - destruct regs as [|a [|b [|]]]; try (inversion Hline; fail). cbn [map app] in Ho.
    eapply (ops_reg3 name); eauto. apply in_or_app; right; exact Hn.
  - destruct regs as [|a [|]]; try (inversion Hline; fail). cbn [map app] in Ho. eapply (ops_reg2 name); eauto.
Qed.

(* ---- li, db / dh / dw / dd, pack ------------------------------------------------------------------------------------------------------- *)

Inductive li_line (l : line) : list string -> string -> list string -> expr -> Prop :=
| LI t0 rd imm e : lower t0 = "li" -> rd <> "=" -> parse_immediate imm l = FOk e -> li_line l (t0 :: rd :: imm) rd imm e.
Lemma li_line_parse l ts rd imm e : li_line l ts rd imm e -> parse_item l ts = FOk (IPseudo "li" (rd :: imm) (POk e)).
Proof.
  intro H. destruct H as [t0 rd imm e Hl Hrd Hp]. apply neq_eqb in Hrd.
  unfold parse_item. cbv zeta. cbn [List.length Nat.eqb nth_tok nth_error tok_is]. rewrite Hrd, Hl, andb_false_r.
  cbv beta iota zeta.
  repeat match goal with
         | |- context[in_tab ?x ?y] => let v := eval vm_compute in (in_tab x y) in change (in_tab x y) with v
         | |- context[mem_str ?x ?y] => let v := eval vm_compute in (mem_str x y) in change (mem_str x y) with v
         | |- context[String.eqb (String ?c ?x) (String ?d ?y)] =>
             let v := eval vm_compute in (String.eqb (String c x) (String d y)) in change (String.eqb (String c x) (String d y)) with v
         end;
  cbv beta iota. unfold pseudo. cbn [String.eqb Ascii.eqb Bool.eqb tl]. rewrite Hp. reflexivity.
Qed.

Inductive short_line (l : line) : list string -> string -> Z -> expr -> Prop :=
| SL name w i0 imm e : In (name, w) shorthand_table -> i0 <> "=" -> parse_immediate (i0 :: imm) l = FOk e ->
    short_line l (name :: i0 :: imm) name w e.
Lemma short_line_parse l ts name w e : short_line l ts name w e -> parse_item l ts = FOk (IShort name (FExpr e)).
Proof.
  intro H. destruct H as [name w i0 imm e Hn Hi Hp]. apply neq_eqb in Hi.
  cbn in Hn. destruct Hn as [Hn|[Hn|[Hn|[Hn|[]]]]]; injection Hn as <- <-;
    (unfold parse_item; cbv zeta; cbn [List.length Nat.eqb nth_tok nth_error tok_is]; rewrite Hi;
     match goal with |- context[ends_colon ?h] => let v := eval vm_compute in (ends_colon h) in change (ends_colon h) with v end;
     rewrite !andb_false_r;
     match goal with |- context[lower ?h] => let v := eval vm_compute in (lower h) in change (lower h) with v end;
     cbv beta iota zeta;
     repeat match goal with
            | |- context[in_tab ?x ?y] => let v := eval vm_compute in (in_tab x y) in change (in_tab x y) with v
            | |- context[mem_str ?x ?y] => let v := eval vm_compute in (mem_str x y) in change (mem_str x y) with v
            | |- context[String.eqb (String ?c ?x) (String ?d ?y)] =>
                let v := eval vm_compute in (String.eqb (String c x) (String d y)) in change (String.eqb (String c x) (String d y)) with v
            end;
     cbv beta iota; cbn [fbind]; rewrite Hp; reflexivity).
Qed.

Inductive pack_line (l : line) : list string -> string -> expr -> Prop :=
| PL t0 fmt imm e : lower t0 = "pack" -> fmt <> "=" -> parse_immediate imm l = FOk e -> pack_line l (t0 :: fmt :: imm) fmt e.
Lemma pack_line_parse l ts fmt e : pack_line l ts fmt e -> parse_item l ts = FOk (IPack fmt (FExpr e)).
Proof.
  intro H. destruct H as [t0 fmt imm e Hl Hf Hp]. apply neq_eqb in Hf.
  unfold parse_item. cbv zeta. cbn [List.length Nat.eqb nth_tok nth_error tok_is]. rewrite Hf, Hl, andb_false_r.
  cbv beta iota zeta.
  repeat match goal with
         | |- context[in_tab ?x ?y] => let v := eval vm_compute in (in_tab x y) in change (in_tab x y) with v
         | |- context[mem_str ?x ?y] => let v := eval vm_compute in (mem_str x y) in change (mem_str x y) with v
         | |- context[String.eqb (String ?c ?x) (String ?d ?y)] =>
             let v := eval vm_compute in (String.eqb (String c x) (String d y)) in change (String.eqb (String c x) (String d y)) with v
         end;
  cbv beta iota. cbn [fbind]. rewrite Hp. reflexivity.
Qed.

Lemma front_of_tokens l text ts it : lex_tokens text = Some ts -> parse_item l ts = FOk it -> ts <> [] -> front_line l text = FOk (Some it).
Proof. intros Hx Hp Hn. destruct ts as [|t ts']; [congruence|]. rewrite (front_line_tokens_some l text t ts' Hx), Hp. reflexivity. Qed.

Open Scope list_scope.
(* (2) li *)
Theorem text_li_line_value ls c0 l0 cmp r :
  assemble_text ls c0 l0 cmp = TDone r ->
  forall ls1 l text ls2 ts rd imm e,
    ls = ls1 ++ (l, text) :: ls2 -> lex_tokens text = Some ts -> li_line l ts rd imm e ->
    unsettled (r_consts r) e = true -> assoc_str rd (r_consts r) = None ->
    exists cs1 cs2 bs1 bs2 nrd v,
      r_chunks r = cs1 ++ (l, CBytes bs1) :: (l, CBytes bs2) :: cs2 /\ text_layout r 0 ls1 cs1 /\
      text_layout r (tot csz cs1 + 8) ls2 cs2 /\ zlen bs1 = 4 /\ zlen bs2 = 4 /\
      regnum (AStr rd) = Some nrd /\ value_at (final_env r) (tot csz cs1) e = Some v /\
      forall s, loaded s (bs1 ++ bs2) ->
        exists s', run_n 2 s = Some s' /\ pc s' = wrap (pc s + 8) /\ only_reg s s' nrd (wrap v).
Proof.
  intros H ls1 l text ls2 ts rd imm e E Hx Hline Hu Hrd.
  assert (Hf : front_line l text = FOk (Some (IPseudo "li" (rd :: imm) (POk e)))).
  { eapply front_of_tokens; eauto. apply li_line_parse; auto. inversion Hline; discriminate. }
  exact (text_li_value _ _ _ _ _ H _ _ _ _ _ _ _ E Hf Hu Hrd).
Qed.
(* (3) db / dh / dw / dd and pack *)
Theorem text_short_line_value ls c0 l0 cmp r :
  assemble_text ls c0 l0 cmp = TDone r ->
  forall ls1 l text ls2 ts name w e,
    ls = ls1 ++ (l, text) :: ls2 -> lex_tokens text = Some ts -> short_line l ts name w e ->
    exists cs1 cs2 z, r_chunks r = cs1 ++ (l, CBytes (int_bytes w z)) :: cs2 /\ text_layout r 0 ls1 cs1 /\
      text_layout r (tot csz cs1 + w) ls2 cs2 /\
      value_at (final_env r) (tot csz cs1) e = Some z /\ int_fits w z = true.
Proof.
  intros H ls1 l text ls2 ts name w e E Hx Hline.
  assert (Hf : front_line l text = FOk (Some (IShort name (FExpr e)))).
  { eapply front_of_tokens; eauto. eapply short_line_parse; eauto. inversion Hline; discriminate. }
  assert (Hn : In (name, w) shorthand_table) by (inversion Hline; auto).
  exact (text_short_value _ _ _ _ _ H _ _ _ _ _ _ _ E Hf Hn).
Qed.
Theorem text_pack_line_value ls c0 l0 cmp r :
  assemble_text ls c0 l0 cmp = TDone r ->
  forall ls1 l text ls2 ts o little c w signed e,
    ls = ls1 ++ (l, text) :: ls2 -> lex_tokens text = Some ts -> pack_line l ts (String.append o c) e ->
    In (o, little) order_table -> In (c, (w, signed)) code_table ->
    exists cs1 cs2 z, r_chunks r = cs1 ++ (l, CBytes (pack_bytes little w z)) :: cs2 /\ text_layout r 0 ls1 cs1 /\
      text_layout r (tot csz cs1 + w) ls2 cs2 /\
      value_at (final_env r) (tot csz cs1) e = Some z /\ pack_fits w signed z = true.
Proof.
  intros H ls1 l text ls2 ts o little c w signed e E Hx Hline Ho Hc.
  assert (Hf : front_line l text = FOk (Some (IPack (String.append o c) (FExpr e)))).
  { eapply front_of_tokens; eauto. eapply pack_line_parse; eauto. inversion Hline; discriminate. }
  exact (text_pack_value _ _ _ _ _ H _ _ _ _ _ _ _ _ _ _ E Hf Ho Hc).
Qed.

(* ==== what parse_immediate makes of the documented spellings =========================================================================== *)
(* the fuel of parse_immediate_f never runs out: any two amounts above the length of the token list give the same result *)
Lemma removelast_length {A} (l : list A) : List.length (removelast l) = Nat.pred (List.length l).
Proof. induction l as [|a [|b r] IH]; try reflexivity. cbn [removelast List.length] in *. rewrite IH. reflexivity. Qed.
Lemma pif_fuel l : forall n m imm, (List.length imm < n)%nat -> (List.length imm < m)%nat ->
  parse_immediate_f n imm l = parse_immediate_f m imm l.
Proof.
  induction n as [|n IH]; intros m imm Hn Hm; [inversion Hn|]. destruct m as [|m]; [inversion Hm|].
  cbn [parse_immediate_f]. destruct imm as [|h t]; [reflexivity|]. cbv zeta.
  match goal with |- (if ?c then _ else _) = _ => destruct c end; [reflexivity|].
  match goal with |- (if ?c then _ else _) = _ => destruct c end; [reflexivity|].
  match goal with |- (if ?c then _ else _) = _ => destruct c end; [reflexivity|].
  match goal with |- (if ?c then _ else _) = _ => destruct c end; [|reflexivity].
  destruct (tok_is (nth_tok 1 (h :: t)) "(").
  - destruct t as [|a [|x rest]]; try reflexivity. cbn [fbind].
    rewrite (IH m (removelast (x :: rest))); [reflexivity| |]; rewrite removelast_length; cbn [List.length] in *; lia.
  - cbn [tl fbind]. rewrite (IH m t); [reflexivity| |]; cbn [List.length] in *; lia.
Qed.
Lemma pif_enough l n imm : (List.length imm < n)%nat -> parse_immediate_f n imm l = parse_immediate imm l.
Proof. intro H. unfold parse_immediate. apply pif_fuel; auto. Qed.

(* a token list that does not start with a %-modifier is ONE arithmetic expression: the tokens joined by blanks, handed to Python's
   eval (Model/PyExpr.v): `L`, `L + 4`, `end - start`, `(end - start) / 4` ... *)
Definition pct_head (h : string) : bool := mem_str (lower h) ["%position"; "%offset"; "%hi"; "%lo"].
Lemma pi_arith h rest l : pct_head h = false -> parse_immediate (h :: rest) l = arith (h :: rest).
Proof.
  unfold pct_head, mem_str. cbn [existsb]. intro H.
  apply orb_false_elim in H. destruct H as [H1 H]. apply orb_false_elim in H. destruct H as [H2 H].
  apply orb_false_elim in H. destruct H as [H3 H]. apply orb_false_elim in H. destruct H as [H4 _].
  unfold parse_immediate. cbn [List.length parse_immediate_f]. cbv zeta. rewrite H1, H2, H3, H4. reflexivity.
Qed.
(* %offset(L)  and  %offset L *)
Lemma pi_offset_paren t L cl l : lower t = "%offset" -> parse_immediate [t; "("; L; cl] l = FOk (EOff L).
Proof. intro Hl. unfold parse_immediate. cbn [List.length parse_immediate_f]. rewrite Hl. reflexivity. Qed.
Lemma pi_offset t L l : lower t = "%offset" -> L <> "(" -> parse_immediate [t; L] l = FOk (EOff L).
Proof.
  intros Hl Hp. apply neq_eqb in Hp. unfold parse_immediate. cbn [List.length parse_immediate_f]. rewrite Hl.
  cbn [nth_tok nth_error tok_is]. rewrite Hp. reflexivity.
Qed.
(* %position(L, <base tokens>)  and  %position L <base tokens> *)
Lemma pi_position_paren t L x rest l : lower t = "%position" ->
  parse_immediate (t :: "(" :: L :: x :: rest) l = (e <! arith (removelast (x :: rest)) ;; FOk (EPos L e)).
Proof. intro Hl. unfold parse_immediate. cbn [List.length parse_immediate_f]. rewrite Hl. reflexivity. Qed.
Lemma pi_position t L rest l : lower t = "%position" -> L <> "(" ->
  parse_immediate (t :: L :: rest) l = (e <! arith rest ;; FOk (EPos L e)).
Proof.
  intros Hl Hp. apply neq_eqb in Hp. unfold parse_immediate. cbn [List.length parse_immediate_f]. rewrite Hl.
  cbn [nth_tok nth_error tok_is]. rewrite Hp. reflexivity.
Qed.
(* %hi(<tokens>) / %lo(<tokens>)  and  %hi <tokens> / %lo <tokens>: the inner tokens are an immediate again *)
Lemma pi_hilo_paren t x rest l : lower t = "%hi" \/ lower t = "%lo" ->
  parse_immediate (t :: "(" :: x :: rest) l =
  (e <! parse_immediate (removelast (x :: rest)) l ;; FOk (if String.eqb (lower t) "%hi" then EHi e else ELo e)).
Proof.
  intros Hl. unfold parse_immediate at 1. set (n := List.length (t :: "(" :: x :: rest)). cbn [parse_immediate_f].
  destruct Hl as [Hl|Hl]; rewrite Hl; cbv zeta;
    cbn [String.eqb Ascii.eqb Bool.eqb orb andb nth_tok nth_error tok_is List.length Nat.ltb Nat.leb Nat.add negb];
    cbn [fbind]; rewrite pif_enough; try reflexivity; unfold n; rewrite removelast_length; cbn [List.length]; lia.
Qed.
Lemma pi_hilo t x rest l : lower t = "%hi" \/ lower t = "%lo" -> x <> "(" ->
  parse_immediate (t :: x :: rest) l =
  (e <! parse_immediate (x :: rest) l ;; FOk (if String.eqb (lower t) "%hi" then EHi e else ELo e)).
Proof.
  intros Hl Hp. apply neq_eqb in Hp. unfold parse_immediate at 1. set (n := List.length (t :: x :: rest)). cbn [parse_immediate_f].
  destruct Hl as [Hl|Hl]; rewrite Hl; cbv zeta; cbn [nth_tok nth_error tok_is]; rewrite Hp;
    cbn [String.eqb Ascii.eqb Bool.eqb orb andb List.length Nat.ltb Nat.leb Nat.add negb tl];
    cbn [fbind]; rewrite pif_enough; try reflexivity; unfold n; cbn [List.length]; lia.
Qed.

(* a bare name (word characters, not starting with a digit, not a Python keyword) is the expression `that name` *)
From BB Require Import Proofs.NumTok.
Definition ident (s : string) : bool :=
  match chars s with
  | c :: r => forallb is_word (c :: r) && negb (is_digit c) && negb (mem_str s py_keywords)
  | [] => false
  end.
Lemma word_char_facts c : is_word c = true -> Ascii.eqb (lower_c c) "%"%char = false /\ is_c c c_quote = false.
Proof. destruct c as [[] [] [] [] [] [] [] []]; vm_compute; intro H; try discriminate H; auto. Qed.
Lemma arith_name s : ident s = true -> arith_of_string s = Some (AName s).
Proof.
  unfold ident, arith_of_string. destruct (chars s) as [|c r] eqn:Ec; [discriminate|]. intro H.
  apply andb_prop in H. destruct H as [H Hk]. apply andb_prop in H. destruct H as [Hw Hd].
  apply negb_true_iff in Hd, Hk. unfold arith_of_text.
  assert (Hc : is_word c = true) by (cbn [forallb] in Hw; apply andb_prop in Hw; tauto).
  rewrite (proj2 (word_char_facts c Hc)). cbn [andb]. unfold parse_py, pytokens. rewrite (pytok_word _ [] Hw), app_nil_r.
  unfold flush. destruct (rev (c :: r)) as [|x xs] eqn:Er. { apply (f_equal (@List.length ascii)) in Er. rewrite rev_length in Er. discriminate. }
  rewrite <- Er, rev_involutive. unfold word_tok. rewrite Hd.
  assert (Es : unchars (c :: r) = s) by (rewrite <- Ec; unfold unchars, chars; apply string_of_list_ascii_of_string).
  rewrite Es, Hk. reflexivity.
Qed.
Lemma ident_plain_head s : ident s = true -> pct_head s = false.
Proof.
  unfold ident. destruct s as [|c r]; [discriminate|]. cbn [chars list_ascii_of_string]. intro H.
  apply andb_prop in H. destruct H as [H _]. apply andb_prop in H. destruct H as [Hw _]. cbn [forallb] in Hw. apply andb_prop in Hw.
  destruct Hw as [Hc _]. destruct (word_char_facts c Hc) as [Hp _].
  unfold pct_head, mem_str. cbn [existsb lower String.eqb]. rewrite Hp. reflexivity.
Qed.
Theorem bare_name_immediate s l : ident s = true -> parse_immediate [s] l = FOk (EArith (AName s)).
Proof. intro H. rewrite (pi_arith s [] l (ident_plain_head s H)). unfold arith. cbn [join_sp]. rewrite (arith_name s H). reflexivity. Qed.

(* ==== the three documented forms over a label line of the text ========================================================================== *)
Theorem text_label_forms ls c0 l0 cmp r :
  assemble_text ls c0 l0 cmp = TDone r ->
  forall la l' text' lb L, ls = la ++ (l', text') :: lb -> front_line l' text' = FOk (Some (ILabel L)) -> assoc_str L (r_consts r) = None ->
    exists ca cb, r_chunks r = ca ++ cb /\ text_layout r 0 la ca /\ final_env r L = Some (tot csz ca) /\
      forall p, value_at (final_env r) p (EArith (AName L)) = Some (tot csz ca) /\                     (* L *)
                value_at (final_env r) p (EOff L) = Some (tot csz ca - p) /\                            (* %offset(L) *)
                (forall b, value_at (final_env r) p (EPos L (EArith (ANum b))) = Some (b + tot csz ca)) /\   (* %position(L, b) *)
                (forall k, value_at (final_env r) p (EArith (ABin OAdd (AName L) (ANum k))) = Some (tot csz ca + k)).   (* L + k *)
Proof.
  intros H la l' text' lb L E Hf Hc. destruct (text_label_value _ _ _ _ _ H _ _ _ _ _ E Hf Hc) as (ca & cb & A1 & A2 & A3).
  exists ca, cb. split; [exact A1|]. split; [exact A2|]. split; [exact A3|]. intro p. cbn [value_at aeval]. rewrite A3. auto.
Qed.
(* the distance between two label lines *)
Lemma value_difference env p a b qa qb : env a = Some qa -> env b = Some qb ->
  value_at env p (EArith (ABin OSub (AName a) (AName b))) = Some (qa - qb).
Proof. intros Ha Hb. cbn [value_at aeval]. rewrite Ha, Hb. reflexivity. Qed.

(* ==== a text on which final offsets differ from the pessimistic ones, in both modes ===================================================== *)
(* `align 4` announces 4 bytes and emits 0 (2 with compression, behind the 2-byte c.addi); the second compressible addi moves `end`
   from 48 to 46 when compressing *)
Definition ex_vals : list (line * string) :=
  [(exT 1, "start:");
   (exT 2, "    addi x8, x8, 1           # compressible");
   (exT 3, "    align 4");
   (exT 4, "data:");
   (exT 5, "    dw end");
   (exT 6, "    dw %offset(end)");
   (exT 7, "    dh end - start");
   (exT 8, "    pack <h %offset start");
   (exT 9, "    addi x10, x0, data");
   (exT 10, "    lw x11, x10, %lo(end)");
   (exT 11, "    lui x12, %hi(end + 4096)");
   (exT 12, "    sw x10, x11, %position(data, 4)");
   (exT 13, "    lw x11, data(x10)");
   (exT 14, "    addi x9, x9, 1           # compressible");
   (exT 15, "    li x13, end");
   (exT 16, "end:")].
Definition ex_vals_result (cmp : bool) : result :=
  {| r_chunks := if cmp
       then [(exT 2, CBytes [5; 4]); (exT 3, CZeros 2); (exT 5, CBytes [46; 0; 0; 0]); (exT 6, CBytes [38; 0; 0; 0]);
             (exT 7, CBytes [46; 0]); (exT 8, CBytes [242; 255]); (exT 9, CBytes [19; 5; 64; 0]); (exT 10, CBytes [131; 37; 229; 2]);
             (exT 11, CBytes [55; 22; 0; 0]); (exT 12, CBytes [35; 36; 181; 0]); (exT 13, CBytes [131; 37; 69; 0]);
             (exT 14, CBytes [133; 4]); (exT 15, CBytes [183; 6; 0; 0]); (exT 15, CBytes [147; 134; 230; 2])]
       else [(exT 2, CBytes [19; 4; 20; 0]); (exT 5, CBytes [48; 0; 0; 0]); (exT 6, CBytes [40; 0; 0; 0]);
             (exT 7, CBytes [48; 0]); (exT 8, CBytes [242; 255]); (exT 9, CBytes [19; 5; 64; 0]); (exT 10, CBytes [131; 37; 5; 3]);
             (exT 11, CBytes [55; 22; 0; 0]); (exT 12, CBytes [35; 36; 181; 0]); (exT 13, CBytes [131; 37; 69; 0]);
             (exT 14, CBytes [147; 132; 20; 0]); (exT 15, CBytes [183; 6; 0; 0]); (exT 15, CBytes [147; 134; 6; 3])];
     r_consts := [];
     r_labels := if cmp then [("start", 0); ("data", 4); ("end", 46)] else [("start", 0); ("data", 4); ("end", 48)] |}.
Lemma ex_vals_runs cmp : assemble_text ex_vals [] [] cmp = TDone (ex_vals_result cmp).
Proof. destruct cmp; vm_compute; reflexivity. Qed.

Lemma neq_str a b : String.eqb a b = false -> a <> b. Proof. apply String.eqb_neq. Qed.
Lemma ex_vals_hyps :
  (* dw end  /  dw %offset(end)  /  dh end - start  /  pack <h %offset start *)
  ex_vals = firstn 4 ex_vals ++ (exT 5, "    dw end") :: skipn 5 ex_vals /\ lex_tokens "    dw end" = Some ["dw"; "end"] /\
  short_line (exT 5) ["dw"; "end"] "dw" 4 (EArith (AName "end")) /\
  ex_vals = firstn 5 ex_vals ++ (exT 6, "    dw %offset(end)") :: skipn 6 ex_vals /\
  lex_tokens "    dw %offset(end)" = Some ["dw"; "%offset"; "("; "end"; ")"] /\
  short_line (exT 6) ["dw"; "%offset"; "("; "end"; ")"] "dw" 4 (EOff "end") /\
  short_line (exT 7) ["dh"; "end"; "-"; "start"] "dh" 2 (EArith (ABin OSub (AName "end") (AName "start"))) /\
  pack_line (exT 8) ["pack"; "<h"; "%offset"; "start"] (String.append "<" "h") (EOff "start") /\
  (* addi x10, x0, data  /  lw x11, x10, %lo(end)  /  lui x12, %hi(end + 4096)  /  sw x10, x11, %position(data, 4)  /  lw x11, data(x10) *)
  ex_vals = firstn 8 ex_vals ++ (exT 9, "    addi x10, x0, data") :: skipn 9 ex_vals /\
  lex_tokens "    addi x10, x0, data" = Some ["addi"; "x10"; "x0"; "data"] /\
  imm_line (exT 9) ["addi"; "x10"; "x0"; "data"] "ITypeInstruction" "addi" ["x10"; "x0"]
           [("rd", R "x10"); ("rs1", R "x0"); ("imm", FExpr (EArith (AName "data"))); ("is_auipc_jump", FBool false)] (EArith (AName "data")) /\
  unsettled [] (EArith (AName "data")) = true /\
  imm_line (exT 10) ["lw"; "x11"; "x10"; "%lo"; "("; "end"; ")"] "ITypeInstruction" "lw" ["x11"; "x10"]
           [("rd", R "x11"); ("rs1", R "x10"); ("imm", FExpr (ELo (EArith (AName "end")))); ("is_auipc_jump", FBool false)]
           (ELo (EArith (AName "end"))) /\
  imm_line (exT 11) ["lui"; "x12"; "%hi"; "("; "end"; "+"; "4096"; ")"] "UTypeInstruction" "lui" ["x12"]
           [("rd", R "x12"); ("imm", FExpr (EHi (EArith (ABin OAdd (AName "end") (ANum 4096)))))]
           (EHi (EArith (ABin OAdd (AName "end") (ANum 4096)))) /\
  imm_line (exT 12) ["sw"; "x10"; "x11"; "%position"; "("; "data"; "4"; ")"] "STypeInstruction" "sw" ["x10"; "x11"]
           [("rs1", R "x10"); ("rs2", R "x11"); ("imm", FExpr (EPos "data" (EArith (ANum 4))))] (EPos "data" (EArith (ANum 4))) /\
  imm_line (exT 13) ["lw"; "x11"; "data"; "("; "x10"; ")"] "ITypeInstruction" "lw" ["x11"; "x10"]
           [("rd", R "x11"); ("rs1", R "x10"); ("imm", FExpr (EArith (AName "data"))); ("is_auipc_jump", FBool false)] (EArith (AName "data")) /\
  (* li x13, end *)
  ex_vals = firstn 14 ex_vals ++ (exT 15, "    li x13, end") :: skipn 15 ex_vals /\ lex_tokens "    li x13, end" = Some ["li"; "x13"; "end"] /\
  li_line (exT 15) ["li"; "x13"; "end"] "x13" ["end"] (EArith (AName "end")) /\ unsettled [] (EArith (AName "end")) = true /\
  (* the label lines *)
  ex_vals = firstn 15 ex_vals ++ (exT 16, "end:") :: skipn 16 ex_vals /\ front_line (exT 16) "end:" = FOk (Some (ILabel "end")) /\
  ex_vals = firstn 3 ex_vals ++ (exT 4, "data:") :: skipn 4 ex_vals /\ front_line (exT 4) "data:" = FOk (Some (ILabel "data")) /\
  ident "end" = true /\ ident "data" = true.
Proof.
  repeat match goal with |- _ /\ _ => split end; try reflexivity.
  - apply (SL (exT 5) "dw" 4 "end" [] (EArith (AName "end"))); [cbn; tauto|apply neq_str; reflexivity|reflexivity].
  - apply (SL (exT 6) "dw" 4 "%offset" ["("; "end"; ")"] (EOff "end")); [cbn; tauto|apply neq_str; reflexivity|reflexivity].
  - apply (SL (exT 7) "dh" 2 "end" ["-"; "start"]); [cbn; tauto|apply neq_str; reflexivity|reflexivity].
  - apply (PL (exT 8) "pack" "<h" ["%offset"; "start"] (EOff "start")); [reflexivity|apply neq_str; reflexivity|reflexivity].
  - apply (IL_i (exT 9) "addi" "addi" "x10" "x0" "data" []); try reflexivity; try (apply neq_str; reflexivity). vm_compute; tauto.
  - apply (IL_i (exT 10) "lw" "lw" "x11" "x10" "%lo" ["("; "end"; ")"]); try reflexivity; try (apply neq_str; reflexivity). vm_compute; tauto.
  - apply (IL_u (exT 11) "lui" "lui" "x12" "%hi" ["("; "end"; "+"; "4096"; ")"]); try reflexivity; try (apply neq_str; reflexivity). vm_compute; tauto.
  - apply (IL_s (exT 12) "sw" "sw" "x10" "x11" "%position" ["("; "data"; "4"; ")"]); try reflexivity; try (apply neq_str; reflexivity). vm_compute; tauto.
  - apply (IL_load (exT 13) "lw" "lw" "x11" "data" ")" "x10"); try reflexivity; try (apply neq_str; reflexivity). cbn; tauto.
  - apply (LI (exT 15) "li" "x13" ["end"]); try reflexivity. apply neq_str; reflexivity.
Qed.

(* ==== the property's sentence, composed: a line whose operand is an expression over ONE label line of the text ======================== *)
(* value_at (only L q) p e: the expression computed with L := q and position := p (no other name has a value) *)
Definition only (L : string) (q : Z) : string -> option Z := fun s => if String.eqb s L then Some q else None.
Lemma aeval_ext env1 env2 a : (forall s, In s (anames a) -> env1 s = env2 s) -> aeval env1 a = aeval env2 a.
Proof.
  induction a as [z|s|o x IHx y IHy|o x IHx|ords| |]; intro H; cbn [aeval anames] in *; try reflexivity.
  - apply H. left; reflexivity.
  - rewrite IHx, IHy; [reflexivity| |]; intros s Hs; apply H; apply in_or_app; auto.
  - rewrite IHx; auto.
Qed.
Lemma value_at_ext env1 env2 p e : (forall s, In s (enames e) -> env1 s = env2 s) -> value_at env1 p e = value_at env2 p e.
Proof.
  induction e as [a|k|L b IH|L|e' IH|e' IH]; intro H; cbn [value_at enames] in *; try reflexivity.
  - apply aeval_ext; auto.
  - rewrite (H L (or_introl eq_refl)), IH; [reflexivity|]. intros s Hs. apply H. right; exact Hs.
  - rewrite (H L (or_introl eq_refl)). reflexivity.
  - rewrite IH; auto.
  - rewrite IH; auto.
Qed.
(* e mentions the name L and no other name *)
Definition over_label (L : string) (e : expr) : Prop := In L (enames e) /\ forall s, In s (enames e) -> s = L.
Lemma over_label_unsettled consts L e : over_label L e -> assoc_str L consts = None -> unsettled consts e = true.
Proof.
  intros [Hin _] Hc. unfold unsettled. apply orb_true_iff. right. apply existsb_exists. exists L. split; [exact Hin|].
  unfold in_consts. rewrite Hc. reflexivity.
Qed.
Lemma over_label_value env L q p e : over_label L e -> env L = Some q -> value_at env p e = value_at (only L q) p e.
Proof.
  intros [_ Hall] Hq. apply value_at_ext. intros s Hs. rewrite (Hall s Hs). unfold only. rewrite String.eqb_refl. exact Hq.
Qed.
(* the documented forms are such expressions, with the documented values *)
Lemma over_label_forms L q p :
  (over_label L (EArith (AName L)) /\ value_at (only L q) p (EArith (AName L)) = Some q) /\
  (over_label L (EOff L) /\ value_at (only L q) p (EOff L) = Some (q - p)) /\
  (forall b, over_label L (EPos L (EArith (ANum b))) /\ value_at (only L q) p (EPos L (EArith (ANum b))) = Some (b + q)) /\
  (forall k, over_label L (EArith (ABin OAdd (AName L) (ANum k))) /\ value_at (only L q) p (EArith (ABin OAdd (AName L) (ANum k))) = Some (q + k)) /\
  (forall e, over_label L e -> over_label L (EHi e) /\ value_at (only L q) p (EHi e) = option_map relocate_hi (value_at (only L q) p e)) /\
  (forall e, over_label L e -> over_label L (ELo e) /\ value_at (only L q) p (ELo e) = option_map relocate_lo (value_at (only L q) p e)).
Proof.
  unfold over_label. cbn [enames anames app value_at aeval]. unfold only. rewrite String.eqb_refl.
  repeat split; auto; try (left; reflexivity); try (intros s [<-|[]]; reflexivity); tauto.
Qed.

Theorem text_instruction_label ls c0 l0 cmp r :
  assemble_text ls c0 l0 cmp = TDone r ->
  forall ls1 l text ls2 ts cls name regs fs e la l' text' lb L,
    ls = ls1 ++ (l, text) :: ls2 -> lex_tokens text = Some ts -> imm_line l ts cls name regs fs e -> over_label L e ->
    ls = la ++ (l', text') :: lb -> front_line l' text' = FOk (Some (ILabel L)) -> assoc_str L (r_consts r) = None ->
    exists cs1 cs2 ca cb z w ops i,
      r_chunks r = cs1 ++ (l, CBytes (le_bytes 4 w)) :: cs2 /\ text_layout r 0 ls1 cs1 /\
      r_chunks r = ca ++ cb /\ text_layout r 0 la ca /\
      value_at (only L (tot csz ca)) (tot csz cs1) e = Some z /\
      operands32 name (map (alias_arg (r_consts r)) regs ++ [AInt z]) [] = Some ops /\ imm_ops cls ops z /\
      denote32 name ops = Some i /\ decode32 w = Some i.
Proof.
  intros H ls1 l text ls2 ts cls name regs fs e la l' text' lb L E1 Hx Hline Hov E2 Hf Hc.
  destruct (text_label_value _ _ _ _ _ H _ _ _ _ _ E2 Hf Hc) as (ca & cb & B1 & B2 & B3).
  pose proof (over_label_unsettled _ _ _ Hov Hc) as Hu.
  destruct (text_instruction_value _ _ _ _ _ H _ _ _ _ _ _ _ _ _ _ E1 Hx Hline Hu) as (cs1 & cs2 & z & w & ops & i & A1 & A2 & _ & A4 & A5 & A6 & A7 & A8).
  rewrite (over_label_value _ _ _ _ _ Hov B3) in A4.
  exists cs1, cs2, ca, cb, z, w, ops, i. repeat split; auto.
Qed.
Theorem text_li_label ls c0 l0 cmp r :
  assemble_text ls c0 l0 cmp = TDone r ->
  forall ls1 l text ls2 ts rd imm e la l' text' lb L,
    ls = ls1 ++ (l, text) :: ls2 -> lex_tokens text = Some ts -> li_line l ts rd imm e -> over_label L e ->
    assoc_str rd (r_consts r) = None ->
    ls = la ++ (l', text') :: lb -> front_line l' text' = FOk (Some (ILabel L)) -> assoc_str L (r_consts r) = None ->
    exists cs1 cs2 ca cb bs1 bs2 nrd v,
      r_chunks r = cs1 ++ (l, CBytes bs1) :: (l, CBytes bs2) :: cs2 /\ text_layout r 0 ls1 cs1 /\
      r_chunks r = ca ++ cb /\ text_layout r 0 la ca /\ zlen bs1 = 4 /\ zlen bs2 = 4 /\
      regnum (AStr rd) = Some nrd /\ value_at (only L (tot csz ca)) (tot csz cs1) e = Some v /\
      forall s, loaded s (bs1 ++ bs2) ->
        exists s', run_n 2 s = Some s' /\ pc s' = wrap (pc s + 8) /\ only_reg s s' nrd (wrap v).
Proof.
  intros H ls1 l text ls2 ts rd imm e la l' text' lb L E1 Hx Hline Hov Hrd E2 Hf Hc.
  destruct (text_label_value _ _ _ _ _ H _ _ _ _ _ E2 Hf Hc) as (ca & cb & B1 & B2 & B3).
  pose proof (over_label_unsettled _ _ _ Hov Hc) as Hu.
  destruct (text_li_line_value _ _ _ _ _ H _ _ _ _ _ _ _ _ E1 Hx Hline Hu Hrd) as (cs1 & cs2 & bs1 & bs2 & nrd & v & A1 & A2 & _ & A4 & A5 & A6 & A7 & A8).
  rewrite (over_label_value _ _ _ _ _ Hov B3) in A7.
  exists cs1, cs2, ca, cb, bs1, bs2, nrd, v. repeat split; auto.
Qed.
Theorem text_data_label ls c0 l0 cmp r :
  assemble_text ls c0 l0 cmp = TDone r ->
  forall ls1 l text ls2 ts name w e la l' text' lb L,
    ls = ls1 ++ (l, text) :: ls2 -> lex_tokens text = Some ts -> short_line l ts name w e -> over_label L e ->
    ls = la ++ (l', text') :: lb -> front_line l' text' = FOk (Some (ILabel L)) -> assoc_str L (r_consts r) = None ->
    exists cs1 cs2 ca cb z,
      r_chunks r = cs1 ++ (l, CBytes (int_bytes w z)) :: cs2 /\ text_layout r 0 ls1 cs1 /\
      r_chunks r = ca ++ cb /\ text_layout r 0 la ca /\
      value_at (only L (tot csz ca)) (tot csz cs1) e = Some z /\ int_fits w z = true.
Proof.
  intros H ls1 l text ls2 ts name w e la l' text' lb L E1 Hx Hline Hov E2 Hf Hc.
  destruct (text_label_value _ _ _ _ _ H _ _ _ _ _ E2 Hf Hc) as (ca & cb & B1 & B2 & B3).
  destruct (text_short_line_value _ _ _ _ _ H _ _ _ _ _ _ _ _ E1 Hx Hline) as (cs1 & cs2 & z & A1 & A2 & _ & A4 & A5).
  rewrite (over_label_value _ _ _ _ _ Hov B3) in A4.
  exists cs1, cs2, ca, cb, z. repeat split; auto.
Qed.

(* the composed theorems instantiated on ex_vals, in both modes: `dw %offset(end)`, `lw x11, x10, %lo(end)`, `li x13, end` *)
Lemma ex_vals_applied cmp :
  let r := ex_vals_result cmp in
  (exists cs1 cs2 ca cb z,
     r_chunks r = cs1 ++ (exT 6, CBytes (int_bytes 4 z)) :: cs2 /\ text_layout r 0 (firstn 5 ex_vals) cs1 /\
     r_chunks r = ca ++ cb /\ text_layout r 0 (firstn 15 ex_vals) ca /\
     value_at (only "end" (tot csz ca)) (tot csz cs1) (EOff "end") = Some z /\ int_fits 4 z = true) /\
  (exists cs1 cs2 ca cb z w ops i,
     r_chunks r = cs1 ++ (exT 10, CBytes (le_bytes 4 w)) :: cs2 /\ text_layout r 0 (firstn 9 ex_vals) cs1 /\
     r_chunks r = ca ++ cb /\ text_layout r 0 (firstn 15 ex_vals) ca /\
     value_at (only "end" (tot csz ca)) (tot csz cs1) (ELo (EArith (AName "end"))) = Some z /\
     operands32 "lw" (map (alias_arg (r_consts r)) ["x11"; "x10"] ++ [AInt z]) [] = Some ops /\ imm_ops "ITypeInstruction" ops z /\
     denote32 "lw" ops = Some i /\ decode32 w = Some i) /\
  (exists cs1 cs2 ca cb bs1 bs2 nrd v,
     r_chunks r = cs1 ++ (exT 15, CBytes bs1) :: (exT 15, CBytes bs2) :: cs2 /\ text_layout r 0 (firstn 14 ex_vals) cs1 /\
     r_chunks r = ca ++ cb /\ text_layout r 0 (firstn 15 ex_vals) ca /\ zlen bs1 = 4 /\ zlen bs2 = 4 /\
     regnum (AStr "x13") = Some nrd /\ value_at (only "end" (tot csz ca)) (tot csz cs1) (EArith (AName "end")) = Some v /\
     forall s, loaded s (bs1 ++ bs2) ->
       exists s', run_n 2 s = Some s' /\ pc s' = wrap (pc s + 8) /\ only_reg s s' nrd (wrap v)).
Proof.
  intro r. pose proof (ex_vals_runs cmp) as H. fold r in H.
  assert (Hend : ex_vals = firstn 15 ex_vals ++ (exT 16, "end:") :: skipn 16 ex_vals) by reflexivity.
  assert (Hf : front_line (exT 16) "end:" = FOk (Some (ILabel "end"))) by reflexivity.
  assert (Hc : assoc_str "end" (r_consts r) = None) by (destruct cmp; reflexivity).
  split; [|split].
  - apply (text_data_label _ _ _ _ _ H (firstn 5 ex_vals) (exT 6) "    dw %offset(end)" (skipn 6 ex_vals) ["dw"; "%offset"; "("; "end"; ")"]
             "dw" 4 (EOff "end") (firstn 15 ex_vals) (exT 16) "end:" (skipn 16 ex_vals) "end"); auto; try reflexivity.
    + apply (SL (exT 6) "dw" 4 "%offset" ["("; "end"; ")"] (EOff "end")); [cbn; tauto|apply neq_str; reflexivity|reflexivity].
    + apply (proj1 (proj1 (proj2 (over_label_forms "end" 0 0)))).
  - apply (text_instruction_label _ _ _ _ _ H (firstn 9 ex_vals) (exT 10) "    lw x11, x10, %lo(end)" (skipn 10 ex_vals)
             ["lw"; "x11"; "x10"; "%lo"; "("; "end"; ")"] "ITypeInstruction" "lw" ["x11"; "x10"]
             [("rd", R "x11"); ("rs1", R "x10"); ("imm", FExpr (ELo (EArith (AName "end")))); ("is_auipc_jump", FBool false)]
             (ELo (EArith (AName "end"))) (firstn 15 ex_vals) (exT 16) "end:" (skipn 16 ex_vals) "end"); auto; try reflexivity.
    + apply (IL_i (exT 10) "lw" "lw" "x11" "x10" "%lo" ["("; "end"; ")"]); try reflexivity; try (apply neq_str; reflexivity). vm_compute; tauto.
    + apply (proj1 (proj2 (proj2 (proj2 (proj2 (proj2 (over_label_forms "end" 0 0))))) _ (proj1 (proj1 (over_label_forms "end" 0 0))))).
  - apply (text_li_label _ _ _ _ _ H (firstn 14 ex_vals) (exT 15) "    li x13, end" (skipn 15 ex_vals) ["li"; "x13"; "end"] "x13" ["end"]
             (EArith (AName "end")) (firstn 15 ex_vals) (exT 16) "end:" (skipn 16 ex_vals) "end"); auto; try reflexivity.
    + apply (LI (exT 15) "li" "x13" ["end"]); try reflexivity. apply neq_str; reflexivity.
    + apply (proj1 (proj1 (over_label_forms "end" 0 0))).
Qed.
