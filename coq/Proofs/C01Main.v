From Coq Require Import ZArith List Bool Lia String.
From BB Require Import Base.Bits Base.PyBase Gen.Encoders Spec.RV32 Spec.Operands Model.Encode
  Proofs.Dec32 Proofs.Regs Proofs.C01Tac Proofs.C01All Proofs.C01Inj.
Import ListNotations.
Open Scope Z_scope.

Lemma decode_encode name pos kw w :
  In name base_mnemonics -> encode name pos kw = Ok w ->
  0 <= w < 2^32 /\
  exists ops i, operands32 name pos kw = Some ops /\ denote32 name ops = Some i /\ decode32 w = Some i.
Proof.
  intros Hin He. destruct (all_rows_ok name Hin pos kw w He) as (Hw & ops & Hops & Hd).
  split; [exact Hw|].
  rewrite base_list_eq in Hin.
  destruct (proj1 (Forall_forall _ _) all_total name Hin pos kw ops Hops) as [i Hi].
  exists ops, i. repeat split; auto. congruence.
Qed.

Lemma encode_injective name p1 k1 p2 k2 w :
  In name base_mnemonics -> encode name p1 k1 = Ok w -> encode name p2 k2 = Ok w ->
  exists ops, operands32 name p1 k1 = Some ops /\ operands32 name p2 k2 = Some ops.
Proof.
  intros Hin H1 H2.
  destruct (decode_encode _ _ _ _ Hin H1) as (_ & o1 & i1 & A1 & B1 & C1).
  destruct (decode_encode _ _ _ _ Hin H2) as (_ & o2 & i2 & A2 & B2 & C2).
  assert (i1 = i2) by congruence. subst i2.
  rewrite base_list_eq in Hin.
  pose proof (proj1 (Forall_forall _ _) all_inj name Hin o1 o2 i1 B1 B2). subst o2.
  exists o1. auto.
Qed.
