(* C17 with BOTH parameters of Model.Cli instantiated: the assembler is the whole model of asm.assemble
   (Proofs/Whole.v: reader -> lexer -> parser -> 16 passes) and bin2hex is the writer model (Model/HexWriter.v).
   Kept out of Props/C17.v on purpose: importing the whole model would make C17 depend on every generated unit of
   the assembler (Gen/Encoders, Gen/Pseudo, ...), while C17_success / C17_success_hex hold for ANY assembler.

   [whole_assembler fuel] answers None where cli_main sees an exception AND where the whole model has no answer
   (reader fuel exhausted, WUnsup, an include_bytes chunk whose bytes live in the file system: CFile); a run that
   exits 0 therefore had a proper answer of the whole model, which is all the success theorem needs. *)
From Coq Require Import ZArith List Bool String Ascii Lia NArith.
From BB Require Import Base.PyBase Gen.Cli Spec.Hex Model.Items Model.Passes Model.Reader Model.Cli Model.HexWriter
                       Proofs.CliOrder Proofs.HexRoundTrip Proofs.CliHex Proofs.Whole.
Import ListNotations.
Open Scope string_scope.
Open Scope Z_scope.

(* the bytes a chunk stands for (zero padding and fills are run-length in the model) *)
Definition chunk_data (c : chunk) : option (list Z) :=
  match c with
  | CBytes b => Some b
  | CZeros n => Some (repeat 0 (Z.to_nat n))
  | CFill b n => Some (repeat b (Z.to_nat n))
  | CFile _ _ => None
  end.
Fixpoint image (cs : list (Items.line * chunk)) : option (list Z) :=
  match cs with
  | [] => Some []
  | (_, c) :: r =>
      match chunk_data c, image r with
      | Some a, Some b => Some (a ++ b)%list
      | _, _ => None
      end
  end.

Definition whole_assembler (fuel : nat)
    : fsys -> string -> string -> bool -> list string -> option (string * list (string * Z)) :=
  fun fs cwd top compress dirs =>
    match assemble_model fuel fs cwd dirs top [] [] compress with
    | WDone r => match image (r_chunks r) with Some b => Some (bs b, r_labels r) | None => None end
    | _ => None
    end.

(* the bytes handed to the writer are the model's bytes when these are bytes *)
Lemma bytes_of_bs b : Forall (fun x => 0 <= x < 256) b -> bytes_of (bs b) = b.
Proof.
  unfold bytes_of, bs, unchars. rewrite list_ascii_of_string_of_list_ascii.
  induction 1 as [|x l Hx Hl IH]; [reflexivity|].
  cbn [map]. rewrite IH. f_equal.
  unfold Spec.Hex.zc, a_of. rewrite N_ascii_embedding by lia. lia.
Qed.

Theorem cli_success_whole : forall (fuel : nat) (defs_dir cwd : string) (o : opts) (fs fs' : fsys),
    run_cli (whole_assembler fuel) bin2hex_fn defs_dir cli_steps cwd o fs = (fs', 0) ->
    exists r b,
      assemble_model fuel fs cwd (cli_dirs defs_dir cwd o) (abspath cwd (o_input o)) [] [] (o_compress o) = WDone r /\
      image (r_chunks r) = Some b /\
      (o_hex o <> "" -> exists off,
          py_int_lit (o_hex o) = Some off /\
          file_at fs' cwd (o_output o ++ ".hex") = Some (bin2hex_model (bytes_of (bs b)) off) /\
          hex_decode (bin2hex_model (bytes_of (bs b)) off) = Some (place off (bs b))) /\
      (distinct_outputs cwd o ->
         file_at fs' cwd (o_output o) = Some (bs b) /\
         (o_labels o <> "" -> file_at fs' cwd (o_labels o) = Some (render_labels (r_labels r)))).
Proof.
  intros fuel defs_dir cwd o fs fs' H.
  destruct (cli_success_hex (whole_assembler fuel) defs_dir cwd o fs fs' H) as (bin & labels & Ha & Hhex & Hout).
  unfold whole_assembler in Ha.
  destruct (assemble_model fuel fs cwd (cli_dirs defs_dir cwd o) (abspath cwd (o_input o)) [] [] (o_compress o))
    as [r| |] eqn:Em; try discriminate.
  destruct (image (r_chunks r)) as [b|] eqn:Ei; [|discriminate].
  injection Ha as <- <-.
  exists r, b. repeat split; try assumption; apply Hout; assumption.
Qed.
Print Assumptions cli_success_whole.

Theorem cli_no_clobber_whole : forall (fuel : nat) (defs_dir cwd : string) (o : opts) (fs fs' : fsys) (code : Z),
    run_cli (whole_assembler fuel) bin2hex_fn defs_dir cli_steps cwd o fs = (fs', code) -> code <> 0 -> fs' = fs.
Proof. intros fuel. apply cli_no_clobber_hex. Qed.
Print Assumptions cli_no_clobber_whole.

(* non-vacuity: `start: addi x1,x0,1 / j start` through reader, lexer, parser, passes, CLI and writer *)
Definition ex_fs : fsys :=
  {| fs_files := [("/w/a.asm", "start:" ++ bs [10] ++ "addi x1, x0, 1" ++ bs [10] ++ "j start" ++ bs [10]);
                  ("/w/out.bin.hex", "OLD")];
     fs_dirs := ["/"; "/w"] |}.
Definition ex_opts : opts :=
  {| o_argv_ok := true; o_version_first := false; o_version := false; o_verbose := false; o_compress := false;
     o_input := "a.asm"; o_include := []; o_output := "out.bin"; o_labels := "lab.txt"; o_hex := "0x0800FFFC";
     o_incdefs := false |}.
Example cli_success_whole_instance :
  let r := run_cli (whole_assembler 10) bin2hex_fn "/pkg/definitions" cli_steps "/w" ex_opts ex_fs in
  snd r = 0 /\
  file_at (fst r) "/w" "out.bin" = Some (bs [147; 0; 16; 0; 111; 240; 223; 255]) /\
  file_at (fst r) "/w" "lab.txt" = Some ("start 0x00000000" ++ bs [10]) /\
  file_at (fst r) "/w" "out.bin.hex" =
    Some (":020000040800F2" ++ bs [10] ++ ":04FFFC00930010005E" ++ bs [10] ++
          ":020000040801F1" ++ bs [10] ++ ":040000006FF0DFFFBF" ++ bs [10] ++ ":00000001FF" ++ bs [10]).
Proof. vm_compute. repeat split; reflexivity. Qed.
