(* C20, second half: with compression no label moves up and the binary does not get longer -- for every program without
   call / tail pseudo-instructions (their near/far choice depends on estimated distances; see DESIGN.md).
   Part 1: the layout after alignment as a function of the item list, monotone in the sizes of the groups.
   Part 2: both runs of the pipeline produce, from the SAME list after alias resolution, groups per source item whose sizes
           are: exactly sz x without compression, at most sz x with it.
   Part 3: the theorem. *)
From Coq Require Import ZArith List Bool Lia String.
From BB Require Import Base.PyBase Gen.Encoders Gen.Criteria Model.Items Model.Encode Model.Passes
  Proofs.Layout Proofs.LayoutInst Proofs.Pipeline Proofs.Stable Proofs.Errors.
Import ListNotations.
Open Scope Z_scope.

(* ---- part 1 ---------------------------------------------------------------------------------------------------------- *)
Definition up (n p : Z) : Z := p + (n - p mod n) mod n.          (* the offset after `align n` standing at offset p *)
Lemma up_mono n p q : 1 <= n -> p <= q -> up n p <= up n q.
Proof.
  intros Hn Hpq. unfold up.
  assert (A : forall x, (x + (n - x mod n) mod n) mod n = 0).
  { intro x. rewrite Zplus_mod_idemp_r. replace (x + (n - x mod n)) with (n + (x - x mod n)) by lia.
    rewrite Zplus_mod, Z_mod_same_full, Z.add_0_l, Zmod_mod.
    rewrite Zminus_mod_idemp_r, Z.sub_diag. apply Zmod_0_l. }
  pose proof (A p) as Ap. pose proof (A q) as Aq.
  pose proof (Z.mod_pos_bound (n - p mod n) n ltac:(lia)) as Bp.
  pose proof (Z.mod_pos_bound (n - q mod n) n ltac:(lia)) as Bq.
  set (a := p + (n - p mod n) mod n) in *. set (b := q + (n - q mod n) mod n) in *.
  apply Z.mod_divide in Ap; [|lia]. apply Z.mod_divide in Aq; [|lia].
  destruct Ap as [x Hx]. destruct Aq as [y Hy].
  destruct (Z_le_gt_dec a b) as [|G]; auto. exfalso.
  assert (x > y) by nia. assert (a >= b + n) by nia. lia.
Qed.
Lemma up_ge n p : 1 <= n -> p <= up n p.
Proof. intro Hn. unfold up. pose proof (Z.mod_pos_bound (n - p mod n) n ltac:(lia)). lia. Qed.

Definition step_pos (p : Z) (it : item) : Z := match it with IAlign n => up n p | _ => p + isz it end.
Fixpoint apos (p : Z) (its : list litem) : Z :=
  match its with [] => p | (_, it) :: r => apos (step_pos p it) r end.
Fixpoint aoff (L : string) (p : Z) (its : list litem) : option Z :=
  match its with
  | [] => None
  | (_, it) :: r =>
      match is_label it with
      | Some n => if String.eqb L n then Some p else aoff L p r
      | None => aoff L (step_pos p it) r
      end
  end.

Definition plain1 (y : litem) : Prop := is_label (snd y) = None /\ (forall n, snd y <> IAlign n).
Lemma step_plain p it : (forall n, it <> IAlign n) -> step_pos p it = p + isz it.
Proof. intro H. destruct it; try reflexivity. exfalso. eapply H; reflexivity. Qed.
Lemma apos_plain g : Forall plain1 g -> forall p, apos p g = p + total g.
Proof.
  induction 1 as [|[l it] g [H1 H2] _ IH]; intro p; cbn [apos]. unfold total; simpl; lia.
  rewrite IH, (step_plain _ _ H2). unfold total; cbn [fold_right snd]. lia.
Qed.
Lemma apos_app a b p : apos p (app a b) = apos (apos p a) b.
Proof. revert p; induction a as [|[l it] a IH]; intro p; simpl; auto. Qed.
Lemma aoff_plain L g r : Forall plain1 g -> forall p, aoff L p (app g r) = aoff L (p + total g) r.
Proof.
  induction 1 as [|[l it] g [H1 H2] _ IH]; intro p. simpl. f_equal. unfold total; simpl; lia.
  cbn [app aoff]. cbn [snd] in H1, H2. rewrite H1, IH, (step_plain _ _ H2). f_equal. unfold total; cbn [fold_right snd]. lia.
Qed.

(* two item lists built from the same markers and aligns, with pointwise smaller groups in between *)
Inductive grel : list litem -> list litem -> Prop :=
| grel_nil : grel [] []
| grel_lab l l' n a b : grel a b -> grel ((l, ILabel n) :: a) ((l', ILabel n) :: b)
| grel_al l l' n a b : 1 <= n -> grel a b -> grel ((l, IAlign n) :: a) ((l', IAlign n) :: b)
| grel_grp ga gb a b : Forall plain1 ga -> Forall plain1 gb -> 0 <= total gb <= total ga -> grel a b -> grel (app ga a) (app gb b).

Lemma grel_mono a b : grel a b -> forall pa pb, pb <= pa ->
  apos pb b <= apos pa a /\
  (forall L x y, aoff L pa a = Some x -> aoff L pb b = Some y -> y <= x) /\
  (forall L, aoff L pa a = None <-> aoff L pb b = None).
Proof.
  induction 1 as [|l l' n a b _ IH|l l' n a b Hn _ IH|ga gb a b Ha Hb Ht _ IH]; intros pa pb Hp.
  - simpl. repeat split; auto; discriminate.
  - cbn [apos aoff step_pos is_label]. change (isz (ILabel n)) with 0. rewrite !Z.add_0_r.
    destruct (IH pa pb Hp) as (A & B & C). split; [exact A|]. split.
    + intros L x y. destruct (String.eqb L n). intros E1 E2; inversion E1; inversion E2; subst; lia. apply B.
    + intro L. destruct (String.eqb L n). split; discriminate. apply C.
  - cbn [apos aoff step_pos is_label]. apply IH. apply up_mono; auto.
  - rewrite !apos_app, !(apos_plain _ Ha), !(apos_plain _ Hb).
    assert (Hq : pb + total gb <= pa + total ga) by lia.
    destruct (IH _ _ Hq) as (A & B & C). split; [exact A|]. split.
    + intros L x y. rewrite !aoff_plain; auto. apply B.
    + intro L. rewrite !aoff_plain; auto.
Qed.

(* link with the alignment pass of the pipeline: pgrouped Ralign p a b is the layout apos / aoff of a *)
Lemma align_layout a : forall p b, pgrouped Ralign p a b -> nonneg a ->
  p + total b = apos p a /\ forall L, goff L b = option_map (fun x => x - p) (aoff L p a).
Proof.
  induction a as [|[l it] r IH]; intros p b G Hn.
  - inversion G; subst. split. unfold total; simpl; lia. reflexivity.
  - inversion G as [|? ? ? bs bs' Hx G']; subst. inversion Hn as [|? ? Hw Hn']; subst.
    destruct (IH _ _ G' Hn') as (A & B). unfold Ralign in Hx. cbn [snd fst] in Hx.
    assert (Hc : (exists n, it = IAlign n) \/ (forall n, it <> IAlign n)) by (destruct it; eauto; right; discriminate).
    destruct Hc as [[n ->]|Hna].
    + (* align *) destruct Hw as [_ Hw]. specialize (Hw n eq_refl). destruct (Hx Hw) as (Eb & Et & _).
      cbn [apos aoff step_pos is_label]. unfold up. rewrite Et in *.
      rewrite total_app, Et. split. lia. intro L.
      rewrite goff_app_nolabel.
      * rewrite Et, B. destruct (aoff L _ r); cbn [option_map]; f_equal. lia.
      * rewrite Eb. destruct (_ =? 0); repeat constructor.
    + assert (bs = [(l, it)]) as -> by (destruct it; auto; exfalso; eapply Hna; reflexivity).
      cbn [app apos aoff goff]. rewrite (step_plain _ _ Hna).
      change (total [(l, it)]) with (isz it + 0) in A, B. rewrite Z.add_0_r in A, B.
      unfold total in A |- *. cbn [fold_right snd] in A |- *.
      split. { lia. }
      intro L. destruct (is_label it) as [nm|] eqn:El.
      * rewrite (is_label_size _ _ El) in *. destruct (String.eqb L nm). cbn [option_map]. f_equal. lia.
        rewrite B. replace (p + 0) with p by lia. reflexivity.
      * rewrite B. destruct (aoff L _ r); cbn [option_map]; f_equal. lia.
Qed.

(* ---- part 2: what the stages do to one item, with sizes ---------------------------------------------------------------- *)
Definition instr1 (l : line) (y : litem) : Prop := fst y = l /\ exists cls n fs c, snd y = IInstr cls n fs c.
Lemma instr1_plain l y : instr1 l y -> plain1 y.
Proof. intros [_ (cls & n & fs & c & E)]. unfold plain1. rewrite E. split. reflexivity. intros k; discriminate. Qed.
Lemma instr1_isz l y : instr1 l y -> 2 <= isz (snd y) <= 4.
Proof. intros [_ (cls & n & fs & c & E)]. rewrite E, isz_instr. destruct c; lia. Qed.

(* a stage that keeps everything but may replace an instruction by a smaller (or, le = false, equally large) instruction *)
Definition Rst (le : bool) (x : litem) (g : list litem) : Prop :=
  match snd x with
  | IInstr _ _ _ _ => exists y, g = [y] /\ instr1 (fst x) y /\ (if le then isz (snd y) <= isz (snd x) else isz (snd y) = isz (snd x))
  | _ => g = [x]
  end.
Lemma compress_stage_st consts p x g : pass_group (compress_rule consts) p x g -> Rst true x g.
Proof.
  destruct x as [l it]. unfold pass_group, Rst; cbn [fst snd]. destruct (is_label it) as [n|] eqn:El.
  - intros ->. rewrite (is_label_inv _ _ El). reflexivity.
  - intros (ls0 & rs & Hr & ->).
    destruct (compress_rule_out _ _ _ _ _ _ Hr) as [-> | (c' & n' & fs' & ->)].
    + destruct it; try reflexivity. eexists. split. reflexivity. split. split. reflexivity. do 4 eexists; reflexivity. cbn [snd]. lia.
    + destruct it; try (cbv beta iota delta [compress_rule] in Hr; inversion Hr; fail).
      eexists. split. reflexivity. split. split. reflexivity. do 4 eexists; reflexivity. cbn [snd]. rewrite !isz_instr. destruct compressed; lia.
Qed.
Lemma aliases_st its consts : grouped (Rst false) its (resolve_register_aliases its consts).
Proof.
  unfold resolve_register_aliases. induction its as [|[l it] r IH]; simpl. constructor.
  match goal with |- grouped _ _ (?y :: ?t) => change (y :: t) with (app [y] t) end.
  constructor; auto. unfold Rst. cbn [fst snd]. destruct it; try reflexivity.
  eexists. split. reflexivity. split. split. reflexivity. do 4 eexists; reflexivity. reflexivity.
Qed.
Lemma id_st le its : grouped (Rst le) its its.
Proof.
  induction its as [|[l it] r IH]. constructor.
  change ((l, it) :: r) with (app [(l, it)] r) at 2. constructor; auto.
  unfold Rst. cbn [fst snd]. destruct it; try reflexivity.
  eexists. split. reflexivity. split. split. reflexivity. do 4 eexists; reflexivity. cbn [snd]. destruct le; lia.
Qed.

(* the decision li takes, as a function of the constants alone *)
Definition li_dec (consts : envt) (l : line) (e : expr) (lo hi : Z) : bool :=
  match is_settled l 0 consts e, eval_consts l 0 consts e with
  | Done true, POk v => (c_int32 v >=? lo) && (c_int32 v <=? hi)
  | _, _ => false
  end.
Lemma eeval_pos_indep hi lo l has get e p p' :
  is_position_relative e = false -> eeval hi lo l (Some p) has get e = eeval hi lo l (Some p') has get e.
Proof.
  induction e as [a|z|r e' IH|r|e' IH|e' IH]; simpl; intro H; try reflexivity; try discriminate.
  - destruct (has r); auto. destruct (get r); auto. rewrite (IH H). reflexivity.
  - rewrite (IH H). reflexivity.
  - rewrite (IH H). reflexivity.
Qed.
Lemma is_settled_pos l p p' consts e : is_settled l p consts e = is_settled l p' consts e.
Proof.
  unfold is_settled. destruct (is_position_relative e) eqn:E; auto. unfold eval_consts. rewrite (eeval_pos_indep _ _ _ _ _ _ p p' E). reflexivity.
Qed.

Definition not_call (name : string) : Prop := name <> "call"%string /\ name <> "tail"%string.
(* the size a pseudo-instruction ends up with after expansion (before any compression of the expansion) *)
Definition psz (consts : envt) (x : litem) : Z :=
  match snd x with
  | IPseudo name args pimm =>
      match expand_pseudo (fst x) name args pimm with
      | Done (Choice e None lo hi _ _ _) => if li_dec consts (fst x) e lo hi then 4 else 8
      | Done (One _) => 4
      | _ => 8
      end
  | it => isz it
  end.
Definition Rps (consts : envt) (x : litem) (g : list litem) : Prop :=
  match snd x with
  | IPseudo name _ _ => Forall (instr1 (fst x)) g /\ (not_call name -> total g = psz consts x)
  | _ => g = [x]
  end.
Lemma call_target l name args pimm e r lo hi near f1 f2 :
  expand_pseudo l name args pimm = Done (Choice e (Some r) lo hi near f1 f2) -> ~ not_call name.
Proof.
  unfold expand_pseudo.
  repeat match goal with
         | |- context[if String.eqb name ?s then _ else _] =>
             let E := fresh "E" in destruct (String.eqb name s) eqn:E; [ apply String.eqb_eq in E; subst name | ]
         end;
  try (intro H; discriminate H);
  repeat match goal with |- context[match args with _ => _ end] => destruct args as [|? args] end;
  try (intro H; discriminate H);
  try (destruct pimm as [x|x]; simpl; intro H; discriminate H);
  intros _ [A B]; congruence.
Qed.
Lemma plain_instr1 l it : plain it -> instr1 l (l, it) /\ isz it = 4.
Proof. intros (cls & n & fs & ->). split. split. reflexivity. do 4 eexists; reflexivity. reflexivity. Qed.
Lemma pseudo_stage_ps consts p x g : pass_group (pseudo_rule consts) p x g -> Rps consts x g.
Proof.
  destruct x as [l it]. unfold pass_group, Rps; cbn [fst snd]. destruct (is_label it) as [n|] eqn:El.
  - intros ->. rewrite (is_label_inv _ _ El). reflexivity.
  - intros (ls0 & rs & Hr & ->).
    destruct it; try (cbv beta iota delta [pseudo_rule] in Hr; inversion Hr; reflexivity).
    unfold psz; cbn [fst snd].
    cbv beta iota delta [pseudo_rule] in Hr.
    destruct (expand_pseudo l name args pimm) as [px| |] eqn:Ex; cbv beta iota delta [obind] in Hr; try discriminate.
    pose proof (expand_pseudo_shape _ _ _ _ _ Ex) as Hs.
    destruct px as [it'|e target lo hi near f1 f2]; simpl in Hs.
    + inversion Hr; subst rs. destruct (plain_instr1 l _ Hs) as [A B]. split. { constructor; [exact A|constructor]. }
      intros _. unfold total; cbn [map fold_right snd]. lia.
    + destruct Hs as (Hb & Hn1 & Hf1 & Hf2).
      destruct (plain_instr1 l _ Hn1) as [A1 B1]. destruct (plain_instr1 l _ Hf1) as [A2 B2]. destruct (plain_instr1 l _ Hf2) as [A3 B3].
      destruct (of_pres _) as [v| |] eqn:Ev; cbv beta iota delta [obind] in Hr; try discriminate.
      destruct target as [r|].
      * (* call / tail *) cbv beta iota delta [obind] in Hr. cbv zeta in Hr.
        split. { destruct (_ && _ && _); inversion Hr; cbn [map]; repeat (constructor; [assumption|]); constructor. }
        intro Hc. exfalso. eapply call_target; eauto.
      * (* li *)
        destruct (is_settled l p consts e) as [stable| |] eqn:Es; cbv beta iota delta [obind] in Hr; try discriminate.
        cbv zeta in Hr.
        assert (D : stable && (c_int32 v >=? lo) && (c_int32 v <=? hi) = li_dec consts l e lo hi).
        { unfold li_dec. rewrite (is_settled_pos l 0 p consts e), Es. destruct stable; [|reflexivity].
          unfold is_settled in Es. destruct (is_position_relative e) eqn:Ep; try discriminate.
          destruct (eval_consts l p consts e) as [v0|[ln|ex]] eqn:Ee; try discriminate.
          unfold eval_consts in *. rewrite (eeval_pos_indep _ _ _ _ _ _ 0 p Ep), Ee.
          pose proof (settled_value l p consts e v0 Ep Ee p ls0) as Hv. unfold eval_here in Hv. rewrite Ev in Hv.
          inversion Hv; subst. reflexivity. }
        rewrite D in Hr. destruct (li_dec consts l e lo hi); inversion Hr; subst rs.
        -- split. { cbn [map]; repeat (constructor; [assumption|]); constructor. } intros _. unfold total; cbn [map fold_right snd]. lia.
        -- split. { cbn [map]; repeat (constructor; [assumption|]); constructor. } intros _. unfold total; cbn [map fold_right snd]. lia.
Qed.

Definition cmpz (le : bool) (a b : Z) : Prop := if le then a <= b else a = b.
Lemma cmpz_weaken le a b : cmpz le a b -> a <= b.
Proof. destruct le; simpl; lia. Qed.
Lemma cmpz_trans l1 l2 a b c : cmpz l1 a b -> cmpz l2 b c -> cmpz (l1 || l2) a c.
Proof. destruct l1, l2; simpl; lia. Qed.
Definition Rfin (le : bool) (consts : envt) (x : litem) (g : list litem) : Prop :=
  match snd x with
  | IInstr _ _ _ _ => exists y, g = [y] /\ instr1 (fst x) y /\ cmpz le (isz (snd y)) (isz (snd x))
  | IPseudo name _ _ => Forall (instr1 (fst x)) g /\ (not_call name -> cmpz le (total g) (psz consts x))
  | _ => g = [x]
  end.
Lemma grouped_single (R : litem -> list litem -> Prop) y h : grouped R [y] h -> R y h.
Proof. intro G. inversion G as [|? ? bs bs' Hx G']; subst. inversion G'; subst. rewrite app_nil_r. exact Hx. Qed.
Lemma instrs_st le l g : Forall (instr1 l) g -> forall h, grouped (Rst le) g h -> Forall (instr1 l) h /\ cmpz le (total h) (total g).
Proof.
  induction 1 as [|y g Hy _ IH]; intros h G.
  - inversion G; subst. split. constructor. destruct le; simpl; lia.
  - inversion G as [|? ? bs bs' Hx G']; subst. destruct (IH _ G') as [A B].
    destruct Hy as [Hl (cls & n & fs & c & E)]. unfold Rst in Hx. rewrite E in Hx. destruct Hx as (z & -> & Hz & Hc).
    rewrite Hl in Hz. split. constructor; auto.
    rewrite <- E in Hc. unfold total in *. cbn [app fold_right]. destruct le; simpl in *; lia.
Qed.
Lemma fin_st l1 l2 consts x g h : Rfin l1 consts x g -> grouped (Rst l2) g h -> Rfin (l1 || l2) consts x h.
Proof.
  unfold Rfin. destruct (snd x) eqn:Ex; intros H G; try (subst g; apply grouped_single in G; unfold Rst in G; rewrite Ex in G; exact G).
  - destruct H as (y & -> & Hy & Hc). apply grouped_single in G. unfold Rst in G.
    destruct Hy as [Hl (cls' & n' & fs' & c' & E)]. rewrite E in G. destruct G as (z & -> & Hz & Hc2).
    exists z. split. reflexivity. split. rewrite Hl in Hz. exact Hz. rewrite <- E in Hc2.
    rewrite orb_comm. eapply cmpz_trans; eauto.
  - destruct H as [Hf Ht]. destruct (instrs_st l2 _ _ Hf _ G) as [A B]. split. exact A.
    intro Hc. rewrite orb_comm. eapply cmpz_trans; eauto.
Qed.
Lemma st_ps consts x g h : Rst true x g -> grouped (Rps consts) g h -> Rfin true consts x h.
Proof.
  unfold Rst, Rfin. destruct (snd x) eqn:Ex; intros H G;
    try (subst g; apply grouped_single in G; unfold Rps in G; rewrite Ex in G; exact G).
  - destruct H as (y & -> & Hy & Hc). apply grouped_single in G. unfold Rps in G.
    destruct Hy as [Hl (cls' & n' & fs' & c' & E)]. rewrite E in G. subst h. exists y. split. reflexivity.
    split. split; eauto 6. exact Hc.
  - subst g. apply grouped_single in G. unfold Rps in G. rewrite Ex in G. destruct G as [A B]. split. exact A.
    intro Hc. simpl. rewrite (B Hc). lia.
Qed.
Lemma ps_fin consts x g : Rps consts x g -> Rfin false consts x g.
Proof.
  unfold Rps, Rfin. destruct x as [l it]. cbn [fst snd]. destruct it; auto.
  intros ->. eexists. split. reflexivity. split. split. reflexivity. do 4 eexists; reflexivity. reflexivity.
Qed.
Lemma grouped_impl (R S : litem -> list litem -> Prop) : (forall x g, R x g -> S x g) -> forall a b, grouped R a b -> grouped S a b.
Proof. intros H a b G. induction G; constructor; auto. Qed.

(* two runs from the same list: pieces pair up *)
Lemma zip_grel consts s : forall a b, nonneg s ->
  Forall (fun x => match snd x with IPseudo n _ _ => not_call n | _ => True end) s ->
  grouped (Rfin false consts) s a -> grouped (Rfin true consts) s b -> grel a b.
Proof.
  induction s as [|x s IH]; intros a b Hn Hc Ga Gb.
  - inversion Ga; inversion Gb; subst. constructor.
  - inversion Ga as [|? ? ga a' Ha Ga']; subst. inversion Gb as [|? ? gb b' Hb Gb']; subst.
    inversion Hn as [|? ? Hw Hn']; subst. inversion Hc as [|? ? Hc1 Hc']; subst.
    specialize (IH _ _ Hn' Hc' Ga' Gb'). unfold Rfin in Ha, Hb. destruct x as [l it]. cbn [fst snd] in *.
    assert (Dflt : forall (P : plain1 (l, it)), 0 <= isz it -> ga = [(l, it)] -> gb = [(l, it)] -> grel (app ga a') (app gb b')).
    { intros P H0 -> ->. apply grel_grp; auto. unfold total; cbn [fold_right snd]. lia. }
    destruct Hw as [Hw0 Hwa].
    destruct it; try (apply Dflt; auto; split; [reflexivity|intros k; discriminate]).
    + subst ga gb. cbn [app]. apply grel_lab. exact IH.
    + destruct Ha as (y & -> & Hy & Hya). destruct Hb as (z & -> & Hz & Hzb). simpl in Hya, Hzb.
      apply grel_grp; auto; try (constructor; [eapply instr1_plain; eauto|constructor]).
      pose proof (instr1_isz _ _ Hz). unfold total; cbn [fold_right]. lia.
    + destruct Ha as [Fa Ta]. destruct Hb as [Fb Tb]. specialize (Ta Hc1). specialize (Tb Hc1). simpl in Ta, Tb.
      apply grel_grp; auto.
      * eapply Forall_impl; [|exact Fa]. intros; eapply instr1_plain; eauto.
      * eapply Forall_impl; [|exact Fb]. intros; eapply instr1_plain; eauto.
      * split; [|lia]. clear - Fb. induction Fb as [|y g Hy _ IHg]. unfold total; simpl; lia.
        pose proof (instr1_isz _ _ Hy). unfold total in *. cbn [fold_right]. lia.
    + subst ga gb. cbn [app]. apply grel_al. apply Hwa. reflexivity. exact IH.
Qed.

(* ---- part 3 ------------------------------------------------------------------------------------------------------- *)
Lemma assemble_stages its c0 l0 cmp r :
  assemble_items its c0 l0 cmp = Done r -> nonneg its ->
  exists consts labels i3 lab3 i4 lab4 i6 lab6 al fin,
    resolve_constants_lr its c0 [] = Done (filter not_const its, consts) /\
    resolve_labels (filter not_const its) 0 l0 = Done labels /\
    (if cmp then transform_compressible (resolve_register_aliases (filter not_const its) consts) consts labels
     else Done (resolve_register_aliases (filter not_const its) consts, labels)) = Done (i3, lab3) /\
    transform_pseudo i3 consts lab3 = Done (i4, lab4) /\
    (if cmp then transform_compressible (resolve_register_aliases i4 consts) consts lab4
     else Done (resolve_register_aliases i4 consts, lab4)) = Done (i6, lab6) /\
    nonneg (resolve_register_aliases (filter not_const its) consts) /\ nonneg i3 /\ nonneg i6 /\
    pgrouped Ralign 0 i6 al /\ Forall2 same1 al fin /\
    blobbed fin (r_chunks r) /\ exact fin (r_labels r) /\ gnames fin = gnames its.
Proof.
  unfold assemble_items. intros H Hn.
  destruct (resolve_constants_lr its c0 []) as [[its1 consts]| |] eqn:E1; cbn [obind] in H; try discriminate.
  pose proof (resolve_constants_filter _ _ _ _ _ E1) as F1. simpl in F1. subst its1.
  set (i1 := filter not_const its) in *.
  assert (N1 : nonneg i1) by (apply filter_nonneg; auto).
  destruct (resolve_labels i1 0 l0) as [labels| |] eqn:E2; cbn [obind] in H; try discriminate.
  pose proof (resolve_labels_nodup _ _ _ E2) as D1.
  assert (Hd : NoDup (gnames its)) by (unfold i1 in D1; rewrite filter_gnames in D1; exact D1).
  pose proof (resolve_labels_exact _ _ _ E2) as X1.
  set (i2 := resolve_register_aliases i1 consts) in *.
  pose proof (aliases_same i1 consts) as S2. fold i2 in S2.
  assert (N2 : nonneg i2) by (eapply same_nonneg; eauto).
  assert (D2 : NoDup (gnames i2)) by (rewrite <- (same_gnames _ _ S2); auto).
  assert (X2 : exact i2 labels) by (eapply same_exact; eauto).
  destruct (if cmp then transform_compressible i2 consts labels else Done (i2, labels)) as [[i3 lab3]| |] eqn:E3;
    cbn [obind] in H; try discriminate.
  destruct (compress_stage _ _ _ _ _ _ E3 N2 D2 X2) as (X3 & G3 & N3 & K3).
  assert (D3 : NoDup (gnames i3)) by (rewrite G3; auto).
  destruct (transform_pseudo i3 consts lab3) as [[i4 lab4]| |] eqn:E4; cbn [obind] in H; try discriminate.
  destruct (gpass_stage _ (pseudo_rule_ok consts) (pseudo_group_keep consts) _ _ _ _ E4 N3 D3 X3) as (X4 & G4 & N4 & K4).
  assert (D4 : NoDup (gnames i4)) by (rewrite G4; auto).
  set (i5 := resolve_register_aliases i4 consts) in *.
  pose proof (aliases_same i4 consts) as S5. fold i5 in S5.
  assert (N5 : nonneg i5) by (eapply same_nonneg; eauto).
  assert (D5 : NoDup (gnames i5)) by (rewrite <- (same_gnames _ _ S5); auto).
  assert (X5 : exact i5 lab4) by (eapply same_exact; eauto).
  destruct (if cmp then transform_compressible i5 consts lab4 else Done (i5, lab4)) as [[i6 lab6]| |] eqn:E6;
    cbn [obind] in H; try discriminate.
  destruct (compress_stage _ _ _ _ _ _ E6 N5 D5 X5) as (X6 & G6 & N6 & K6).
  assert (D6 : NoDup (gnames i6)) by (rewrite G6; auto).
  destruct (resolve_aligns i6 lab6) as [[i7 lab7]| |] eqn:E7; cbn [obind] in H; try discriminate.
  unfold resolve_aligns in E7.
  destruct (gpass_exact _ align_rule_ok _ _ _ _ N6 D6 X6 E7) as (X7 & G7 & _ & N7).
  assert (A7 : pgrouped Ralign 0 i6 i7).
  { rewrite gpass_gp in E7. destruct (gp align_rule i6 0 lab6) as [[o ls]| |] eqn:E; simpl in E7; try discriminate.
    inversion E7; subst. pose proof (gp_grouped _ _ _ _ _ _ E) as PG. clear - PG.
    induction PG; constructor; auto. apply align_group; auto. }
  destruct (resolve_immediates i7 0 consts lab7 []) as [i8| |] eqn:E8; cbn [obind] in H; try discriminate.
  destruct (resolve_immediates_same _ _ _ _ _ _ E8) as (o8 & Q8 & S8). simpl in Q8. subst o8.
  destruct (resolve_immediates_spec _ _ _ _ _ _ E8) as (o8 & Q8 & V8). simpl in Q8. subst o8.
  destruct (resolve_instructions i8 []) as [i9| |] eqn:E9; cbn [obind] in H; try discriminate.
  destruct (resolve_instructions_same _ _ _ E9) as (o9 & Q9 & S9). simpl in Q9. subst o9.
  destruct (resolve_instructions_spec _ _ _ E9) as (o9 & Q9 & V9). simpl in Q9. subst o9.
  pose proof (resolve_strings_same i9) as S10. set (i10 := resolve_strings i9) in *.
  destruct (resolve_sequences i10 []) as [i11| |] eqn:E11; cbn [obind] in H; try discriminate.
  destruct (resolve_sequences_same _ _ _ E11) as (o11 & Q11 & S11). simpl in Q11. subst o11.
  destruct (transform_shorthand i11 []) as [i12| |] eqn:E12; cbn [obind] in H; try discriminate.
  destruct (transform_shorthand_same _ _ _ E12) as (o12 & Q12 & S12). simpl in Q12. subst o12.
  destruct (resolve_packs i12 []) as [i13| |] eqn:E13; cbn [obind] in H; try discriminate.
  destruct (resolve_packs_same _ _ _ E13) as (o13 & Q13 & S13). simpl in Q13. subst o13.
  destruct (resolve_include_bytes i13 []) as [i14| |] eqn:E14; cbn [obind] in H; try discriminate.
  destruct (resolve_include_bytes_same _ _ _ E14) as (o14 & Q14 & S14). simpl in Q14. subst o14.
  destruct (resolve_blobs i14) as [chunks| |] eqn:E15; cbn [obind] in H; try discriminate.
  inversion H; subst r; clear H. simpl.
  assert (SS : Forall2 same1 i7 i14).
  { repeat (eapply Forall2_same1_trans; [eassumption|]). apply Forall2_same1_refl. }
  exists consts, labels, i3, lab3, i4, lab4, i6, lab6, i7, i14.
  split. { first [reflexivity | exact E1]. }
  split. { first [reflexivity | exact E2]. }
  split. { first [reflexivity | exact E3]. }
  split. { first [reflexivity | exact E4]. }
  split. { first [reflexivity | exact E6]. }
  split. { exact N2. }
  split. { exact N3. }
  split. { exact N6. }
  split. { exact A7. }
  split. { exact SS. }
  split. { apply resolve_blobs_blobbed; auto. }
  split. { eapply same_exact; eauto. }
  rewrite <- (same_gnames _ _ SS), G7, G6, <- (same_gnames _ _ S5), G4, G3, <- (same_gnames _ _ S2).
  unfold i1. apply filter_gnames.
Qed.

Definition no_calls (its : list litem) : Prop :=
  Forall (fun x => match snd x with IPseudo n _ _ => not_call n | _ => True end) its.
Lemma no_calls_pre its consts : no_calls its -> no_calls (resolve_register_aliases (filter not_const its) consts).
Proof.
  unfold no_calls, resolve_register_aliases. induction 1 as [|[l it] r H _ IH]; simpl. constructor.
  unfold not_const at 1. cbn [snd]. destruct it; simpl; try (constructor; auto). exact IH.
Qed.
Lemma gpass_groups rule its ls o ls' :
  gpass rule its 0 ls [] = Done (o, ls') -> pgrouped (pass_group rule) 0 its o.
Proof.
  intro H. rewrite gpass_gp in H. destruct (gp rule its 0 ls) as [[o1 ls1]| |] eqn:E; simpl in H; try discriminate.
  inversion H; subst. eapply gp_grouped; eauto.
Qed.
Lemma pseudo_groups consts its ls o ls' :
  transform_pseudo its consts ls = Done (o, ls') -> grouped (Rps consts) its o.
Proof. intro H. eapply pgrouped_grouped; [apply pseudo_stage_ps|eapply gpass_groups; exact H]. Qed.
Lemma compress_groups (cmp : bool) consts its ls o ls' :
  (if cmp then transform_compressible its consts ls else Done (its, ls)) = Done (o, ls') -> grouped (Rst true) its o.
Proof.
  destruct cmp; intro H.
  - eapply pgrouped_grouped; [apply compress_stage_st|eapply gpass_groups; exact H].
  - inversion H; subst. apply id_st.
Qed.

(* the groups the part of the pipeline in front of the alignment pass makes out of the list after alias resolution *)
Lemma run_groups (cmp : bool) consts labels i2 i3 lab3 i4 lab4 i6 lab6 :
  (if cmp then transform_compressible i2 consts labels else Done (i2, labels)) = Done (i3, lab3) ->
  transform_pseudo i3 consts lab3 = Done (i4, lab4) ->
  (if cmp then transform_compressible (resolve_register_aliases i4 consts) consts lab4
   else Done (resolve_register_aliases i4 consts, lab4)) = Done (i6, lab6) ->
  grouped (Rfin cmp consts) i2 i6.
Proof.
  intros E3 E4 E6. destruct cmp.
  - pose proof (compress_groups true _ _ _ _ _ E3) as G3. pose proof (pseudo_groups _ _ _ _ _ E4) as G4.
    pose proof (aliases_st i4 consts) as G5. pose proof (compress_groups true _ _ _ _ _ E6) as G6.
    assert (A : grouped (Rfin true consts) i2 i4) by (eapply grouped_trans; [apply st_ps|exact G3|exact G4]).
    assert (B : grouped (Rfin true consts) i2 (resolve_register_aliases i4 consts)).
    { eapply grouped_trans; [|exact A|exact G5]. intros x g h H1 H2. exact (fin_st true false consts x g h H1 H2). }
    eapply grouped_trans; [|exact B|exact G6]. intros x g h H1 H2. exact (fin_st true true consts x g h H1 H2).
  - inversion E3; subst i3 lab3. inversion E6; subst i6 lab6.
    pose proof (pseudo_groups _ _ _ _ _ E4) as G4. pose proof (aliases_st i4 consts) as G5.
    eapply grouped_trans; [|eapply grouped_impl; [apply ps_fin|exact G4]|exact G5].
    intros x g h H1 H2. exact (fin_st false false consts x g h H1 H2).
Qed.

Theorem compression_monotone its c0 l0 rA rB :
  nonneg its -> no_calls its ->
  assemble_items its c0 l0 false = Done rA -> assemble_items its c0 l0 true = Done rB ->
  (forall L a b, In L (gnames its) -> assoc_str L (r_labels rA) = Some a -> assoc_str L (r_labels rB) = Some b -> b <= a) /\
  fold_right (fun c acc => chunk_len (snd c) + acc) 0 (r_chunks rB) <= fold_right (fun c acc => chunk_len (snd c) + acc) 0 (r_chunks rA).
Proof.
  intros Hn Hc HA HB.
  destruct (assemble_stages _ _ _ _ _ HA Hn) as (cA & lA & i3A & lab3A & i4A & lab4A & i6A & lab6A & alA & finA &
                                                  A1 & A2 & A3 & A4 & A6 & N2A & N3A & N6A & PA & SA & BA & XA & GA).
  destruct (assemble_stages _ _ _ _ _ HB Hn) as (cB & lB & i3B & lab3B & i4B & lab4B & i6B & lab6B & alB & finB &
                                                  B1 & B2 & B3 & B4 & B6 & N2B & N3B & N6B & PB & SB & BB & XB & GB).
  rewrite A1 in B1. inversion B1; subst cB. rewrite A2 in B2. inversion B2; subst lB.
  set (i2 := resolve_register_aliases (filter not_const its) cA) in *.
  pose proof (run_groups false _ _ _ _ _ _ _ _ _ A3 A4 A6) as RA.
  pose proof (run_groups true _ _ _ _ _ _ _ _ _ B3 B4 B6) as RB.
  pose proof (zip_grel cA i2 _ _ N2A (no_calls_pre _ _ Hc) RA RB) as GR.
  destruct (grel_mono _ _ GR 0 0 ltac:(lia)) as (M1 & M2 & M3).
  destruct (align_layout _ _ _ PA N6A) as (TA & OA). destruct (align_layout _ _ _ PB N6B) as (TB & OB).
  split.
  - intros L a b Hin Ea Eb.
    assert (InA : In L (gnames finA)) by (rewrite GA; exact Hin).
    assert (InB : In L (gnames finB)) by (rewrite GB; exact Hin).
    destruct (in_goff _ _ InA) as [qa Qa]. destruct (in_goff _ _ InB) as [qb Qb].
    pose proof (XA _ _ Qa) as Ea'. pose proof (XB _ _ Qb) as Eb'. rewrite Ea in Ea'. rewrite Eb in Eb'.
    inversion Ea'; inversion Eb'; subst qa qb.
    rewrite <- (same_goff L _ _ SA), OA in Qa. rewrite <- (same_goff L _ _ SB), OB in Qb.
    destruct (aoff L 0 i6A) as [x|] eqn:Fa; try discriminate. destruct (aoff L 0 i6B) as [y|] eqn:Fb; try discriminate.
    simpl in Qa, Qb. inversion Qa; inversion Qb; subst. specialize (M2 _ _ _ Fa Fb). lia.
  - rewrite <- (blobbed_total _ _ BA), <- (blobbed_total _ _ BB), <- (same_total _ _ SA), <- (same_total _ _ SB). lia.
Qed.
