(* C20, second half: with compression no label moves up and the binary does not get longer -- for every program without
   call / tail pseudo-instructions (their near/far choice depends on estimated distances; see DESIGN.md).
   Part 1: the layout after alignment as a function of the item list, monotone in the sizes of the groups.
   Part 2: both runs of the pipeline produce, from the SAME list after alias resolution, groups per source item whose sizes
           are: exactly sz x without compression, at most sz x with it.
   Part 3: the theorem. *)
From Coq Require Import ZArith List Bool Lia String.
From BB Require Import Base.PyBase Gen.Encoders Gen.Criteria Model.Items Model.Encode Model.Passes
  Proofs.Layout Proofs.LayoutInst Proofs.Pipeline Proofs.Stable Proofs.Errors.
Import ListNotations.
Open Scope Z_scope.

(* ---- part 1 ---------------------------------------------------------------------------------------------------------- *)
Definition up (n p : Z) : Z := p + (n - p mod n) mod n.          (* the offset after `align n` standing at offset p *)
Lemma up_mono n p q : 1 <= n -> p <= q -> up n p <= up n q.
Proof.
  intros Hn Hpq. unfold up.
  assert (A : forall x, (x + (n - x mod n) mod n) mod n = 0).
  { intro x. rewrite Zplus_mod_idemp_r. replace (x + (n - x mod n)) with (n + (x - x mod n)) by lia.
    rewrite Zplus_mod, Z_mod_same_full, Z.add_0_l, Zmod_mod.
    rewrite Zminus_mod_idemp_r, Z.sub_diag. apply Zmod_0_l. }
  pose proof (A p) as Ap. pose proof (A q) as Aq.
  pose proof (Z.mod_pos_bound (n - p mod n) n ltac:(lia)) as Bp.
  pose proof (Z.mod_pos_bound (n - q mod n) n ltac:(lia)) as Bq.
  set (a := p + (n - p mod n) mod n) in *. set (b := q + (n - q mod n) mod n) in *.
  apply Z.mod_divide in Ap; [|lia]. apply Z.mod_divide in Aq; [|lia].
  destruct Ap as [x Hx]. destruct Aq as [y Hy].
  destruct (Z_le_gt_dec a b) as [|G]; auto. exfalso.
  assert (x > y) by nia. assert (a >= b + n) by nia. lia.
Qed.
Lemma up_ge n p : 1 <= n -> p <= up n p.
Proof. intro Hn. unfold up. pose proof (Z.mod_pos_bound (n - p mod n) n ltac:(lia)). lia. Qed.

Definition step_pos (p : Z) (it : item) : Z := match it with IAlign n => up n p | _ => p + isz it end.
Fixpoint apos (p : Z) (its : list litem) : Z :=
  match its with [] => p | (_, it) :: r => apos (step_pos p it) r end.
Fixpoint aoff (L : string) (p : Z) (its : list litem) : option Z :=
  match its with
  | [] => None
  | (_, it) :: r =>
      match is_label it with
      | Some n => if String.eqb L n then Some p else aoff L p r
      | None => aoff L (step_pos p it) r
      end
  end.

Definition plain1 (y : litem) : Prop := is_label (snd y) = None /\ (forall n, snd y <> IAlign n).
Lemma step_plain p it : (forall n, it <> IAlign n) -> step_pos p it = p + isz it.
Proof. intro H. destruct it; try reflexivity. exfalso. eapply H; reflexivity. Qed.
Lemma apos_plain g : Forall plain1 g -> forall p, apos p g = p + total g.
Proof.
  induction 1 as [|[l it] g [H1 H2] _ IH]; intro p; cbn [apos]. unfold total; simpl; lia.
  rewrite IH, (step_plain _ _ H2). unfold total; cbn [fold_right snd]. lia.
Qed.
Lemma apos_app a b p : apos p (app a b) = apos (apos p a) b.
Proof. revert p; induction a as [|[l it] a IH]; intro p; simpl; auto. Qed.
Lemma aoff_plain L g r : Forall plain1 g -> forall p, aoff L p (app g r) = aoff L (p + total g) r.
Proof.
  induction 1 as [|[l it] g [H1 H2] _ IH]; intro p. simpl. f_equal. unfold total; simpl; lia.
  cbn [app aoff]. cbn [snd] in H1, H2. rewrite H1, IH, (step_plain _ _ H2). f_equal. unfold total; cbn [fold_right snd]. lia.
Qed.

(* two item lists built from the same markers and aligns, with pointwise smaller groups in between *)
Inductive grel : list litem -> list litem -> Prop :=
| grel_nil : grel [] []
| grel_lab l l' n a b : grel a b -> grel ((l, ILabel n) :: a) ((l', ILabel n) :: b)
| grel_al l l' n a b : 1 <= n -> grel a b -> grel ((l, IAlign n) :: a) ((l', IAlign n) :: b)
| grel_grp ga gb a b : Forall plain1 ga -> Forall plain1 gb -> 0 <= total gb <= total ga -> grel a b -> grel (app ga a) (app gb b).

Lemma grel_mono a b : grel a b -> forall pa pb, pb <= pa ->
  apos pb b <= apos pa a /\
  (forall L x y, aoff L pa a = Some x -> aoff L pb b = Some y -> y <= x) /\
  (forall L, aoff L pa a = None <-> aoff L pb b = None).
Proof.
  induction 1 as [|l l' n a b _ IH|l l' n a b Hn _ IH|ga gb a b Ha Hb Ht _ IH]; intros pa pb Hp.
  - simpl. repeat split; auto; discriminate.
  - cbn [apos aoff step_pos is_label]. change (isz (ILabel n)) with 0. rewrite !Z.add_0_r.
    destruct (IH pa pb Hp) as (A & B & C). split; [exact A|]. split.
    + intros L x y. destruct (String.eqb L n). intros E1 E2; inversion E1; inversion E2; subst; lia. apply B.
    + intro L. destruct (String.eqb L n). split; discriminate. apply C.
  - cbn [apos aoff step_pos is_label]. apply IH. apply up_mono; auto.
  - rewrite !apos_app, !(apos_plain _ Ha), !(apos_plain _ Hb).
    assert (Hq : pb + total gb <= pa + total ga) by lia.
    destruct (IH _ _ Hq) as (A & B & C). split; [exact A|]. split.
    + intros L x y. rewrite !aoff_plain; auto. apply B.
    + intro L. rewrite !aoff_plain; auto.
Qed.

(* link with the alignment pass of the pipeline: pgrouped Ralign p a b is the layout apos / aoff of a *)
Lemma align_layout a : forall p b, pgrouped Ralign p a b -> nonneg a ->
  p + total b = apos p a /\ forall L, goff L b = option_map (fun x => x - p) (aoff L p a).
Proof.
  induction a as [|[l it] r IH]; intros p b G Hn.
  - inversion G; subst. split. unfold total; simpl; lia. reflexivity.
  - inversion G as [|? ? ? bs bs' Hx G']; subst. inversion Hn as [|? ? Hw Hn']; subst.
    destruct (IH _ _ G' Hn') as (A & B). unfold Ralign in Hx. cbn [snd fst] in Hx.
    assert (Hc : (exists n, it = IAlign n) \/ (forall n, it <> IAlign n)) by (destruct it; eauto; right; discriminate).
    destruct Hc as [[n ->]|Hna].
    + (* align *) destruct Hw as [_ Hw]. specialize (Hw n eq_refl). destruct (Hx Hw) as (Eb & Et & _).
      cbn [apos aoff step_pos is_label]. unfold up. rewrite Et in *.
      rewrite total_app, Et. split. lia. intro L.
      rewrite goff_app_nolabel.
      * rewrite Et, B. destruct (aoff L _ r); cbn [option_map]; f_equal. lia.
      * rewrite Eb. destruct (_ =? 0); repeat constructor.
    + assert (bs = [(l, it)]) as -> by (destruct it; auto; exfalso; eapply Hna; reflexivity).
      cbn [app apos aoff goff]. rewrite (step_plain _ _ Hna).
      change (total [(l, it)]) with (isz it + 0) in A, B. rewrite Z.add_0_r in A, B.
      unfold total in A |- *. cbn [fold_right snd] in A |- *.
      split. { lia. }
      intro L. destruct (is_label it) as [nm|] eqn:El.
      * rewrite (is_label_size _ _ El) in *. destruct (String.eqb L nm). cbn [option_map]. f_equal. lia.
        rewrite B. replace (p + 0) with p by lia. reflexivity.
      * rewrite B. destruct (aoff L _ r); cbn [option_map]; f_equal. lia.
Qed.

(* ---- part 2: what the stages do to one item, with sizes ---------------------------------------------------------------- *)
Definition instr1 (l : line) (y : litem) : Prop := fst y = l /\ exists cls n fs c, snd y = IInstr cls n fs c.
Lemma instr1_plain l y : instr1 l y -> plain1 y.
Proof. intros [_ (cls & n & fs & c & E)]. unfold plain1. rewrite E. split. reflexivity. intros k; discriminate. Qed.
Lemma instr1_isz l y : instr1 l y -> 2 <= isz (snd y) <= 4.
Proof. intros [_ (cls & n & fs & c & E)]. rewrite E, isz_instr. destruct c; lia. Qed.

(* a stage that keeps everything but may replace an instruction by a smaller (or, le = false, equally large) instruction *)
Definition Rst (le : bool) (x : litem) (g : list litem) : Prop :=
  match snd x with
  | IInstr _ _ _ _ => exists y, g = [y] /\ instr1 (fst x) y /\ (if le then isz (snd y) <= isz (snd x) else isz (snd y) = isz (snd x))
  | _ => g = [x]
  end.
Lemma compress_stage_st consts p x g : pass_group (compress_rule consts) p x g -> Rst true x g.
Proof.
  destruct x as [l it]. unfold pass_group, Rst; cbn [fst snd]. destruct (is_label it) as [n|] eqn:El.
  - intros ->. rewrite (is_label_inv _ _ El). reflexivity.
  - intros (ls0 & rs & Hr & ->).
    destruct (compress_rule_out _ _ _ _ _ _ Hr) as [-> | (c' & n' & fs' & ->)].
    + destruct it; try reflexivity. eexists. split. reflexivity. split. split. reflexivity. do 4 eexists; reflexivity. cbn [snd]. lia.
    + destruct it; try (cbv beta iota delta [compress_rule] in Hr; inversion Hr; fail).
      eexists. split. reflexivity. split. split. reflexivity. do 4 eexists; reflexivity. cbn [snd]. rewrite !isz_instr. destruct compressed; lia.
Qed.
Lemma aliases_st its consts : grouped (Rst false) its (resolve_register_aliases its consts).
Proof.
  unfold resolve_register_aliases. induction its as [|[l it] r IH]; simpl. constructor.
  match goal with |- grouped _ _ (?y :: ?t) => change (y :: t) with (app [y] t) end.
  constructor; auto. unfold Rst. cbn [fst snd]. destruct it; try reflexivity.
  eexists. split. reflexivity. split. split. reflexivity. do 4 eexists; reflexivity. reflexivity.
Qed.
Lemma id_st le its : grouped (Rst le) its its.
Proof.
  induction its as [|[l it] r IH]. constructor.
  change ((l, it) :: r) with (app [(l, it)] r) at 2. constructor; auto.
  unfold Rst. cbn [fst snd]. destruct it; try reflexivity.
  eexists. split. reflexivity. split. split. reflexivity. do 4 eexists; reflexivity. cbn [snd]. destruct le; lia.
Qed.

(* the decision li takes, as a function of the constants alone *)
Definition li_dec (consts : envt) (l : line) (e : expr) (lo hi : Z) : bool :=
  match is_settled l 0 consts e, eval_consts l 0 consts e with
  | Done true, POk v => (c_int32 v >=? lo) && (c_int32 v <=? hi)
  | _, _ => false
  end.
Lemma eeval_pos_indep hi lo l has get e p p' :
  is_position_relative e = false -> eeval hi lo l (Some p) has get e = eeval hi lo l (Some p') has get e.
Proof.
  induction e as [a|z|r e' IH|r|e' IH|e' IH]; simpl; intro H; try reflexivity; try discriminate.
  - destruct (has r); auto. destruct (get r); auto. rewrite (IH H). reflexivity.
  - rewrite (IH H). reflexivity.
  - rewrite (IH H). reflexivity.
Qed.
Lemma is_settled_pos l p p' consts e : is_settled l p consts e = is_settled l p' consts e.
Proof.
  unfold is_settled. destruct (is_position_relative e) eqn:E; auto. unfold eval_consts. rewrite (eeval_pos_indep _ _ _ _ _ _ p p' E). reflexivity.
Qed.

Definition not_call (name : string) : Prop := name <> "call"%string /\ name <> "tail"%string.
(* the size a pseudo-instruction ends up with after expansion (before any compression of the expansion) *)
Definition psz (consts : envt) (x : litem) : Z :=
  match snd x with
  | IPseudo name args pimm =>
      match expand_pseudo (fst x) name args pimm with
      | Done (Choice e None lo hi _ _ _) => if li_dec consts (fst x) e lo hi then 4 else 8
      | Done (One _) => 4
      | _ => 8
      end
  | it => isz it
  end.
Definition Rps (consts : envt) (x : litem) (g : list litem) : Prop :=
  match snd x with
  | IPseudo name _ _ => Forall (instr1 (fst x)) g /\ (not_call name -> total g = psz consts x)
  | _ => g = [x]
  end.
Lemma call_target l name args pimm e r lo hi near f1 f2 :
  expand_pseudo l name args pimm = Done (Choice e (Some r) lo hi near f1 f2) -> ~ not_call name.
Proof.
  unfold expand_pseudo.
  repeat match goal with
         | |- context[if String.eqb name ?s then _ else _] =>
             let E := fresh "E" in destruct (String.eqb name s) eqn:E; [ apply String.eqb_eq in E; subst name | ]
         end;
  try (intro H; discriminate H);
  repeat match goal with |- context[match args with _ => _ end] => destruct args as [|? args] end;
  try (intro H; discriminate H);
  try (destruct pimm as [x|x]; simpl; intro H; discriminate H);
  intros _ [A B]; congruence.
Qed.
Lemma plain_instr1 l it : plain it -> instr1 l (l, it) /\ isz it = 4.
Proof. intros (cls & n & fs & ->). split. split. reflexivity. do 4 eexists; reflexivity. reflexivity. Qed.
Lemma pseudo_stage_ps consts p x g : pass_group (pseudo_rule consts) p x g -> Rps consts x g.
Proof.
  destruct x as [l it]. unfold pass_group, Rps; cbn [fst snd]. destruct (is_label it) as [n|] eqn:El.
  - intros ->. rewrite (is_label_inv _ _ El). reflexivity.
  - intros (ls0 & rs & Hr & ->).
    destruct it; try (cbv beta iota delta [pseudo_rule] in Hr; inversion Hr; reflexivity).
    unfold psz; cbn [fst snd].
    cbv beta iota delta [pseudo_rule] in Hr.
    destruct (expand_pseudo l name args pimm) as [px| |] eqn:Ex; cbv beta iota delta [obind] in Hr; try discriminate.
    pose proof (expand_pseudo_shape _ _ _ _ _ Ex) as Hs.
    destruct px as [it'|e target lo hi near f1 f2]; simpl in Hs.
    + inversion Hr; subst rs. destruct (plain_instr1 l _ Hs) as [A B]. split. { constructor; [exact A|constructor]. }
      intros _. unfold total; cbn [map fold_right snd]. lia.
    + destruct Hs as (Hb & Hn1 & Hf1 & Hf2).
      destruct (plain_instr1 l _ Hn1) as [A1 B1]. destruct (plain_instr1 l _ Hf1) as [A2 B2]. destruct (plain_instr1 l _ Hf2) as [A3 B3].
      destruct (of_pres _) as [v| |] eqn:Ev; cbv beta iota delta [obind] in Hr; try discriminate.
      destruct target as [r|].
      * (* call / tail *) cbv beta iota delta [obind] in Hr. cbv zeta in Hr.
        split. { destruct (_ && _ && _); inversion Hr; cbn [map]; repeat (constructor; [assumption|]); constructor. }
        intro Hc. exfalso. eapply call_target; eauto.
      * (* li *)
        destruct (is_settled l p consts e) as [stable| |] eqn:Es; cbv beta iota delta [obind] in Hr; try discriminate.
        cbv zeta in Hr.
        assert (D : stable && (c_int32 v >=? lo) && (c_int32 v <=? hi) = li_dec consts l e lo hi).
        { unfold li_dec. rewrite (is_settled_pos l 0 p consts e), Es. destruct stable; [|reflexivity].
          unfold is_settled in Es. destruct (is_position_relative e) eqn:Ep; try discriminate.
          destruct (eval_consts l p consts e) as [v0|[ln|ex]] eqn:Ee; try discriminate.
          unfold eval_consts in *. rewrite (eeval_pos_indep _ _ _ _ _ _ 0 p Ep), Ee.
          pose proof (settled_value l p consts e v0 Ep Ee p ls0) as Hv. unfold eval_here in Hv. rewrite Ev in Hv.
          inversion Hv; subst. reflexivity. }
        rewrite D in Hr. destruct (li_dec consts l e lo hi); inversion Hr; subst rs.
        -- split. { cbn [map]; repeat (constructor; [assumption|]); constructor. } intros _. unfold total; cbn [map fold_right snd]. lia.
        -- split. { cbn [map]; repeat (constructor; [assumption|]); constructor. } intros _. unfold total; cbn [map fold_right snd]. lia.
Qed.

Definition cmpz (le : bool) (a b : Z) : Prop := if le then a <= b else a = b.
Lemma cmpz_weaken le a b : cmpz le a b -> a <= b.
Proof. destruct le; simpl; lia. Qed.
Lemma cmpz_trans l1 l2 a b c : cmpz l1 a b -> cmpz l2 b c -> cmpz (l1 || l2) a c.
Proof. destruct l1, l2; simpl; lia. Qed.
Definition Rfin (le : bool) (consts : envt) (x : litem) (g : list litem) : Prop :=
  match snd x with
  | IInstr _ _ _ _ => exists y, g = [y] /\ instr1 (fst x) y /\ cmpz le (isz (snd y)) (isz (snd x))
  | IPseudo name _ _ => Forall (instr1 (fst x)) g /\ (not_call name -> cmpz le (total g) (psz consts x))
  | _ => g = [x]
  end.
Lemma grouped_single (R : litem -> list litem -> Prop) y h : grouped R [y] h -> R y h.
Proof. intro G. inversion G as [|? ? bs bs' Hx G']; subst. inversion G'; subst. rewrite app_nil_r. exact Hx. Qed.
Lemma instrs_st le l g : Forall (instr1 l) g -> forall h, grouped (Rst le) g h -> Forall (instr1 l) h /\ cmpz le (total h) (total g).
Proof.
  induction 1 as [|y g Hy _ IH]; intros h G.
  - inversion G; subst. split. constructor. destruct le; simpl; lia.
  - inversion G as [|? ? bs bs' Hx G']; subst. destruct (IH _ G') as [A B].
    destruct Hy as [Hl (cls & n & fs & c & E)]. unfold Rst in Hx. rewrite E in Hx. destruct Hx as (z & -> & Hz & Hc).
    rewrite Hl in Hz. split. constructor; auto.
    rewrite <- E in Hc. unfold total in *. cbn [app fold_right]. destruct le; simpl in *; lia.
Qed.
Lemma fin_st l1 l2 consts x g h : Rfin l1 consts x g -> grouped (Rst l2) g h -> Rfin (l1 || l2) consts x h.
Proof.
  unfold Rfin. destruct (snd x) eqn:Ex; intros H G; try (subst g; apply grouped_single in G; unfold Rst in G; rewrite Ex in G; exact G).
  - destruct H as (y & -> & Hy & Hc). apply grouped_single in G. unfold Rst in G.
    destruct Hy as [Hl (cls' & n' & fs' & c' & E)]. rewrite E in G. destruct G as (z & -> & Hz & Hc2).
    exists z. split. reflexivity. split. rewrite Hl in Hz. exact Hz. rewrite <- E in Hc2.
    rewrite orb_comm. eapply cmpz_trans; eauto.
  - destruct H as [Hf Ht]. destruct (instrs_st l2 _ _ Hf _ G) as [A B]. split. exact A.
    intro Hc. rewrite orb_comm. eapply cmpz_trans; eauto.
Qed.
Lemma st_ps consts x g h : Rst true x g -> grouped (Rps consts) g h -> Rfin true consts x h.
Proof.
  unfold Rst, Rfin. destruct (snd x) eqn:Ex; intros H G;
    try (subst g; apply grouped_single in G; unfold Rps in G; rewrite Ex in G; exact G).
  - destruct H as (y & -> & Hy & Hc). apply grouped_single in G. unfold Rps in G.
    destruct Hy as [Hl (cls' & n' & fs' & c' & E)]. rewrite E in G. subst h. exists y. split. reflexivity.
    split. split; eauto 6. exact Hc.
  - subst g. apply grouped_single in G. unfold Rps in G. rewrite Ex in G. destruct G as [A B]. split. exact A.
    intro Hc. simpl. rewrite (B Hc). lia.
Qed.
Lemma ps_fin consts x g : Rps consts x g -> Rfin false consts x g.
Proof.
  unfold Rps, Rfin. destruct x as [l it]. cbn [fst snd]. destruct it; auto.
  intros ->. eexists. split. reflexivity. split. split. reflexivity. do 4 eexists; reflexivity. reflexivity.
Qed.
Lemma grouped_impl (R S : litem -> list litem -> Prop) : (forall x g, R x g -> S x g) -> forall a b, grouped R a b -> grouped S a b.
Proof. intros H a b G. induction G; constructor; auto. Qed.

(* two runs from the same list: pieces pair up *)
Lemma zip_grel consts s : forall a b, nonneg s ->
  Forall (fun x => match snd x with IPseudo n _ _ => not_call n | _ => True end) s ->
  grouped (Rfin false consts) s a -> grouped (Rfin true consts) s b -> grel a b.
Proof.
  induction s as [|x s IH]; intros a b Hn Hc Ga Gb.
  - inversion Ga; inversion Gb; subst. constructor.
  - inversion Ga as [|? ? ga a' Ha Ga']; subst. inversion Gb as [|? ? gb b' Hb Gb']; subst.
    inversion Hn as [|? ? Hw Hn']; subst. inversion Hc as [|? ? Hc1 Hc']; subst.
    specialize (IH _ _ Hn' Hc' Ga' Gb'). unfold Rfin in Ha, Hb. destruct x as [l it]. cbn [fst snd] in *.
    assert (Dflt : forall (P : plain1 (l, it)), 0 <= isz it -> ga = [(l, it)] -> gb = [(l, it)] -> grel (app ga a') (app gb b')).
    { intros P H0 -> ->. apply grel_grp; auto. unfold total; cbn [fold_right snd]. lia. }
    destruct Hw as [Hw0 Hwa].
    destruct it; try (apply Dflt; auto; split; [reflexivity|intros k; discriminate]).
    + subst ga gb. cbn [app]. apply grel_lab. exact IH.
    + destruct Ha as (y & -> & Hy & Hya). destruct Hb as (z & -> & Hz & Hzb). simpl in Hya, Hzb.
      apply grel_grp; auto; try (constructor; [eapply instr1_plain; eauto|constructor]).
      pose proof (instr1_isz _ _ Hz). unfold total; cbn [fold_right]. lia.
    + destruct Ha as [Fa Ta]. destruct Hb as [Fb Tb]. specialize (Ta Hc1). specialize (Tb Hc1). simpl in Ta, Tb.
      apply grel_grp; auto.
      * eapply Forall_impl; [|exact Fa]. intros; eapply instr1_plain; eauto.
      * eapply Forall_impl; [|exact Fb]. intros; eapply instr1_plain; eauto.
      * split; [|lia]. clear - Fb. induction Fb as [|y g Hy _ IHg]. unfold total; simpl; lia.
        pose proof (instr1_isz _ _ Hy). unfold total in *. cbn [fold_right]. lia.
    + subst ga gb. cbn [app]. apply grel_al. apply Hwa. reflexivity. exact IH.
Qed.

(* ---- part 3 ------------------------------------------------------------------------------------------------------- *)
Lemma assemble_stages its c0 l0 cmp r :
  assemble_items its c0 l0 cmp = Done r -> nonneg its ->
  exists consts labels i3 lab3 i4 lab4 i6 lab6 al fin,
    resolve_constants_lr its c0 [] = Done (filter not_const its, consts) /\
    resolve_labels (filter not_const its) 0 l0 = Done labels /\
    (if cmp then transform_compressible (resolve_register_aliases (filter not_const its) consts) consts labels
     else Done (resolve_register_aliases (filter not_const its) consts, labels)) = Done (i3, lab3) /\
    transform_pseudo i3 consts lab3 = Done (i4, lab4) /\
    (if cmp then transform_compressible (resolve_register_aliases i4 consts) consts lab4
     else Done (resolve_register_aliases i4 consts, lab4)) = Done (i6, lab6) /\
    nonneg (resolve_register_aliases (filter not_const its) consts) /\ nonneg i3 /\ nonneg i6 /\
    NoDup (gnames (resolve_register_aliases (filter not_const its) consts)) /\
    exact (resolve_register_aliases (filter not_const its) consts) labels /\ exact i3 lab3 /\
    pgrouped Ralign 0 i6 al /\ Forall2 same1 al fin /\
    blobbed fin (r_chunks r) /\ exact fin (r_labels r) /\ gnames fin = gnames its.
Proof.
  unfold assemble_items. intros H Hn.
  destruct (resolve_constants_lr its c0 []) as [[its1 consts]| |] eqn:E1; cbn [obind] in H; try discriminate.
  pose proof (resolve_constants_filter _ _ _ _ _ E1) as F1. simpl in F1. subst its1.
  set (i1 := filter not_const its) in *.
  assert (N1 : nonneg i1) by (apply filter_nonneg; auto).
  destruct (resolve_labels i1 0 l0) as [labels| |] eqn:E2; cbn [obind] in H; try discriminate.
  pose proof (resolve_labels_nodup _ _ _ E2) as D1.
  assert (Hd : NoDup (gnames its)) by (unfold i1 in D1; rewrite filter_gnames in D1; exact D1).
  pose proof (resolve_labels_exact _ _ _ E2) as X1.
  set (i2 := resolve_register_aliases i1 consts) in *.
  pose proof (aliases_same i1 consts) as S2. fold i2 in S2.
  assert (N2 : nonneg i2) by (eapply same_nonneg; eauto).
  assert (D2 : NoDup (gnames i2)) by (rewrite <- (same_gnames _ _ S2); auto).
  assert (X2 : exact i2 labels) by (eapply same_exact; eauto).
  destruct (if cmp then transform_compressible i2 consts labels else Done (i2, labels)) as [[i3 lab3]| |] eqn:E3;
    cbn [obind] in H; try discriminate.
  destruct (compress_stage _ _ _ _ _ _ E3 N2 D2 X2) as (X3 & G3 & N3 & K3).
  assert (D3 : NoDup (gnames i3)) by (rewrite G3; auto).
  destruct (transform_pseudo i3 consts lab3) as [[i4 lab4]| |] eqn:E4; cbn [obind] in H; try discriminate.
  destruct (gpass_stage _ (pseudo_rule_ok consts) (pseudo_group_keep consts) _ _ _ _ E4 N3 D3 X3) as (X4 & G4 & N4 & K4).
  assert (D4 : NoDup (gnames i4)) by (rewrite G4; auto).
  set (i5 := resolve_register_aliases i4 consts) in *.
  pose proof (aliases_same i4 consts) as S5. fold i5 in S5.
  assert (N5 : nonneg i5) by (eapply same_nonneg; eauto).
  assert (D5 : NoDup (gnames i5)) by (rewrite <- (same_gnames _ _ S5); auto).
  assert (X5 : exact i5 lab4) by (eapply same_exact; eauto).
  destruct (if cmp then transform_compressible i5 consts lab4 else Done (i5, lab4)) as [[i6 lab6]| |] eqn:E6;
    cbn [obind] in H; try discriminate.
  destruct (compress_stage _ _ _ _ _ _ E6 N5 D5 X5) as (X6 & G6 & N6 & K6).
  assert (D6 : NoDup (gnames i6)) by (rewrite G6; auto).
  destruct (resolve_aligns i6 lab6) as [[i7 lab7]| |] eqn:E7; cbn [obind] in H; try discriminate.
  unfold resolve_aligns in E7.
  destruct (gpass_exact _ align_rule_ok _ _ _ _ N6 D6 X6 E7) as (X7 & G7 & _ & N7).
  assert (A7 : pgrouped Ralign 0 i6 i7).
  { rewrite gpass_gp in E7. destruct (gp align_rule i6 0 lab6) as [[o ls]| |] eqn:E; simpl in E7; try discriminate.
    inversion E7; subst. pose proof (gp_grouped _ _ _ _ _ _ E) as PG. clear - PG.
    induction PG; constructor; auto. apply align_group; auto. }
  destruct (resolve_immediates i7 0 consts lab7 []) as [i8| |] eqn:E8; cbn [obind] in H; try discriminate.
  destruct (resolve_immediates_same _ _ _ _ _ _ E8) as (o8 & Q8 & S8). simpl in Q8. subst o8.
  destruct (resolve_immediates_spec _ _ _ _ _ _ E8) as (o8 & Q8 & V8). simpl in Q8. subst o8.
  destruct (resolve_instructions i8 []) as [i9| |] eqn:E9; cbn [obind] in H; try discriminate.
  destruct (resolve_instructions_same _ _ _ E9) as (o9 & Q9 & S9). simpl in Q9. subst o9.
  destruct (resolve_instructions_spec _ _ _ E9) as (o9 & Q9 & V9). simpl in Q9. subst o9.
  pose proof (resolve_strings_same i9) as S10. set (i10 := resolve_strings i9) in *.
  destruct (resolve_sequences i10 []) as [i11| |] eqn:E11; cbn [obind] in H; try discriminate.
  destruct (resolve_sequences_same _ _ _ E11) as (o11 & Q11 & S11). simpl in Q11. subst o11.
  destruct (transform_shorthand i11 []) as [i12| |] eqn:E12; cbn [obind] in H; try discriminate.
  destruct (transform_shorthand_same _ _ _ E12) as (o12 & Q12 & S12). simpl in Q12. subst o12.
  destruct (resolve_packs i12 []) as [i13| |] eqn:E13; cbn [obind] in H; try discriminate.
  destruct (resolve_packs_same _ _ _ E13) as (o13 & Q13 & S13). simpl in Q13. subst o13.
  destruct (resolve_include_bytes i13 []) as [i14| |] eqn:E14; cbn [obind] in H; try discriminate.
  destruct (resolve_include_bytes_same _ _ _ E14) as (o14 & Q14 & S14). simpl in Q14. subst o14.
  destruct (resolve_blobs i14) as [chunks| |] eqn:E15; cbn [obind] in H; try discriminate.
  inversion H; subst r; clear H. simpl.
  assert (SS : Forall2 same1 i7 i14).
  { repeat (eapply Forall2_same1_trans; [eassumption|]). apply Forall2_same1_refl. }
  exists consts, labels, i3, lab3, i4, lab4, i6, lab6, i7, i14.
  split. { first [reflexivity | exact E1]. }
  split. { first [reflexivity | exact E2]. }
  split. { first [reflexivity | exact E3]. }
  split. { first [reflexivity | exact E4]. }
  split. { first [reflexivity | exact E6]. }
  split. { exact N2. }
  split. { exact N3. }
  split. { exact N6. }
  split. { exact D2. }
  split. { exact X2. }
  split. { exact X3. }
  split. { exact A7. }
  split. { exact SS. }
  split. { apply resolve_blobs_blobbed; auto. }
  split. { eapply same_exact; eauto. }
  rewrite <- (same_gnames _ _ SS), G7, G6, <- (same_gnames _ _ S5), G4, G3, <- (same_gnames _ _ S2).
  unfold i1. apply filter_gnames.
Qed.

Definition no_calls (its : list litem) : Prop :=
  Forall (fun x => match snd x with IPseudo n _ _ => not_call n | _ => True end) its.
Lemma no_calls_pre its consts : no_calls its -> no_calls (resolve_register_aliases (filter not_const its) consts).
Proof.
  unfold no_calls, resolve_register_aliases. induction 1 as [|[l it] r H _ IH]; simpl. constructor.
  unfold not_const at 1. cbn [snd]. destruct it; simpl; try (constructor; auto). exact IH.
Qed.
Lemma gpass_groups rule its ls o ls' :
  gpass rule its 0 ls [] = Done (o, ls') -> pgrouped (pass_group rule) 0 its o.
Proof.
  intro H. rewrite gpass_gp in H. destruct (gp rule its 0 ls) as [[o1 ls1]| |] eqn:E; simpl in H; try discriminate.
  inversion H; subst. eapply gp_grouped; eauto.
Qed.
Lemma pseudo_groups consts its ls o ls' :
  transform_pseudo its consts ls = Done (o, ls') -> grouped (Rps consts) its o.
Proof. intro H. eapply pgrouped_grouped; [apply pseudo_stage_ps|eapply gpass_groups; exact H]. Qed.
Lemma compress_groups (cmp : bool) consts its ls o ls' :
  (if cmp then transform_compressible its consts ls else Done (its, ls)) = Done (o, ls') -> grouped (Rst true) its o.
Proof.
  destruct cmp; intro H.
  - eapply pgrouped_grouped; [apply compress_stage_st|eapply gpass_groups; exact H].
  - inversion H; subst. apply id_st.
Qed.

(* the groups the part of the pipeline in front of the alignment pass makes out of the list after alias resolution *)
Lemma run_groups (cmp : bool) consts labels i2 i3 lab3 i4 lab4 i6 lab6 :
  (if cmp then transform_compressible i2 consts labels else Done (i2, labels)) = Done (i3, lab3) ->
  transform_pseudo i3 consts lab3 = Done (i4, lab4) ->
  (if cmp then transform_compressible (resolve_register_aliases i4 consts) consts lab4
   else Done (resolve_register_aliases i4 consts, lab4)) = Done (i6, lab6) ->
  grouped (Rfin cmp consts) i2 i6.
Proof.
  intros E3 E4 E6. destruct cmp.
  - pose proof (compress_groups true _ _ _ _ _ E3) as G3. pose proof (pseudo_groups _ _ _ _ _ E4) as G4.
    pose proof (aliases_st i4 consts) as G5. pose proof (compress_groups true _ _ _ _ _ E6) as G6.
    assert (A : grouped (Rfin true consts) i2 i4) by (eapply grouped_trans; [apply st_ps|exact G3|exact G4]).
    assert (B : grouped (Rfin true consts) i2 (resolve_register_aliases i4 consts)).
    { eapply grouped_trans; [|exact A|exact G5]. intros x g h H1 H2. exact (fin_st true false consts x g h H1 H2). }
    eapply grouped_trans; [|exact B|exact G6]. intros x g h H1 H2. exact (fin_st true true consts x g h H1 H2).
  - inversion E3; subst i3 lab3. inversion E6; subst i6 lab6.
    pose proof (pseudo_groups _ _ _ _ _ E4) as G4. pose proof (aliases_st i4 consts) as G5.
    eapply grouped_trans; [|eapply grouped_impl; [apply ps_fin|exact G4]|exact G5].
    intros x g h H1 H2. exact (fin_st false false consts x g h H1 H2).
Qed.

Theorem compression_monotone its c0 l0 rA rB :
  nonneg its -> no_calls its ->
  assemble_items its c0 l0 false = Done rA -> assemble_items its c0 l0 true = Done rB ->
  (forall L a b, In L (gnames its) -> assoc_str L (r_labels rA) = Some a -> assoc_str L (r_labels rB) = Some b -> b <= a) /\
  fold_right (fun c acc => chunk_len (snd c) + acc) 0 (r_chunks rB) <= fold_right (fun c acc => chunk_len (snd c) + acc) 0 (r_chunks rA).
Proof.
  intros Hn Hc HA HB.
  destruct (assemble_stages _ _ _ _ _ HA Hn) as (cA & lA & i3A & lab3A & i4A & lab4A & i6A & lab6A & alA & finA &
                                                  A1 & A2 & A3 & A4 & A6 & N2A & N3A & N6A & D2A & X2A & X3A & PA & SA & BA & XA & GA).
  destruct (assemble_stages _ _ _ _ _ HB Hn) as (cB & lB & i3B & lab3B & i4B & lab4B & i6B & lab6B & alB & finB &
                                                  B1 & B2 & B3 & B4 & B6 & N2B & N3B & N6B & D2B & X2B & X3B & PB & SB & BB & XB & GB).
  rewrite A1 in B1. inversion B1; subst cB. rewrite A2 in B2. inversion B2; subst lB.
  set (i2 := resolve_register_aliases (filter not_const its) cA) in *.
  pose proof (run_groups false _ _ _ _ _ _ _ _ _ A3 A4 A6) as RA.
  pose proof (run_groups true _ _ _ _ _ _ _ _ _ B3 B4 B6) as RB.
  pose proof (zip_grel cA i2 _ _ N2A (no_calls_pre _ _ Hc) RA RB) as GR.
  destruct (grel_mono _ _ GR 0 0 ltac:(lia)) as (M1 & M2 & M3).
  destruct (align_layout _ _ _ PA N6A) as (TA & OA). destruct (align_layout _ _ _ PB N6B) as (TB & OB).
  split.
  - intros L a b Hin Ea Eb.
    assert (InA : In L (gnames finA)) by (rewrite GA; exact Hin).
    assert (InB : In L (gnames finB)) by (rewrite GB; exact Hin).
    destruct (in_goff _ _ InA) as [qa Qa]. destruct (in_goff _ _ InB) as [qb Qb].
    pose proof (XA _ _ Qa) as Ea'. pose proof (XB _ _ Qb) as Eb'. rewrite Ea in Ea'. rewrite Eb in Eb'.
    inversion Ea'; inversion Eb'; subst qa qb.
    rewrite <- (same_goff L _ _ SA), OA in Qa. rewrite <- (same_goff L _ _ SB), OB in Qb.
    destruct (aoff L 0 i6A) as [x|] eqn:Fa; try discriminate. destruct (aoff L 0 i6B) as [y|] eqn:Fb; try discriminate.
    simpl in Qa, Qb. inversion Qa; inversion Qb; subst. specialize (M2 _ _ _ Fa Fb). lia.
  - rewrite <- (blobbed_total _ _ BA), <- (blobbed_total _ _ BB), <- (same_total _ _ SA), <- (same_total _ _ SB). lia.
Qed.

(* ---- part 4: call / tail too -- the pseudo pass of both runs in lockstep ---------------------------------------------------- *)
Definition relAB (x y : litem) : Prop := Rst true x [y].
Lemma st_forall2 a b : grouped (Rst true) a b -> Forall2 relAB a b.
Proof.
  induction 1 as [|x l bs bs' Hx _ IH]. constructor.
  assert (exists y, bs = [y]) as [y ->].
  { unfold Rst in Hx. destruct (snd x); try (eexists; exact Hx). destruct Hx as (y & -> & _). eauto. }
  cbn [app]. constructor; auto.
Qed.
Lemma relAB_label x y : relAB x y -> is_label (snd x) = is_label (snd y) /\ isz (snd y) <= isz (snd x) /\ fst y = fst x.
Proof.
  unfold relAB, Rst. destruct x as [l it]. cbn [fst snd]. destruct it; intro H; try (inversion H; subst; cbn [fst snd]; repeat split; lia).
  destruct H as (z & E & [Hl (c1 & n1 & f1 & k1 & Ez)] & Hc). inversion E; subst z. rewrite Ez. cbn [is_label]. rewrite Ez in Hc. auto.
Qed.
Lemma relAB_goff L a b : Forall2 relAB a b -> nonneg b ->
  forall qa, goff L a = Some qa -> exists qb, goff L b = Some qb /\ 0 <= qb <= qa.
Proof.
  induction 1 as [|[l1 x] [l2 y] a b Hxy _ IH]; intros Hn qa Hg. discriminate.
  inversion Hn as [|? ? [Hy0 _] Hn']; subst. cbn [snd] in Hy0.
  destruct (relAB_label _ _ Hxy) as (El & Es & _). cbn [snd] in El, Es. simpl in Hg |- *. rewrite <- El.
  destruct (is_label x) as [n|].
  - destruct (String.eqb L n). inversion Hg; subst. exists 0. split; auto; lia. apply IH; auto.
  - destruct (goff L a) as [q|] eqn:Eq; simpl in Hg; inversion Hg; subst.
    destruct (IH Hn' q eq_refl) as (qb & -> & Hq). exists (isz y + qb). split. reflexivity. lia.
Qed.
Lemma relAB_gnames a b : Forall2 relAB a b -> gnames a = gnames b.
Proof.
  induction 1 as [|[l1 x] [l2 y] a b Hxy _ IH]; simpl; auto.
  destruct (relAB_label _ _ Hxy) as (El & _). cbn [snd] in El. rewrite <- El, IH. reflexivity.
Qed.
Lemma relAB_total a b : Forall2 relAB a b -> total b <= total a.
Proof.
  induction 1 as [|x y a b Hxy _ IH]; unfold total in *; simpl. lia.
  destruct (relAB_label _ _ Hxy) as (_ & Es & _). lia.
Qed.
Lemma goff_le_total L its q : nonneg its -> goff L its = Some q -> q <= total its.
Proof.
  revert q. induction its as [|[l it] r IH]; intros q Hn Hg. discriminate.
  inversion Hn as [|? ? [H0 _] Hn']; subst. cbn [snd] in H0. simpl in Hg.
  assert (T : 0 <= total r).
  { clear - Hn'. unfold total. induction Hn' as [|x r [Hx _] _ IHr]; simpl; lia. }
  change (total ((l, it) :: r)) with (isz it + total r).
  destruct (is_label it).
  - destruct (String.eqb L s). inversion Hg; subst. lia. specialize (IH _ Hn' Hg). lia.
  - destruct (goff L r) as [q'|] eqn:E; simpl in Hg; inversion Hg; subst. specialize (IH _ Hn' eq_refl). lia.
Qed.
Lemma c_int32_small z : - 2 ^ 31 <= z < 2 ^ 31 -> c_int32 z = z.
Proof.
  intro H. unfold c_int32. cbv zeta.
  destruct (Z_lt_ge_dec z 0).
  - assert (E : z mod 2 ^ 32 = z + 2 ^ 32). { symmetry. apply Zmod_unique with (-1); lia. }
    rewrite E. destruct (z + 2 ^ 32 <? 2 ^ 31) eqn:C; lia.
  - rewrite Z.mod_small by lia. destruct (z <? 2 ^ 31) eqn:C; lia.
Qed.

Lemma call_choice l name args pimm e r lo hi near f1 f2 :
  expand_pseudo l name args pimm = Done (Choice e (Some r) lo hi near f1 f2) -> e = EOff r /\ lo = -1048576 /\ hi = 1048575.
Proof.
  unfold expand_pseudo.
  repeat match goal with
         | |- context[if String.eqb name ?s then _ else _] =>
             let E := fresh "E" in destruct (String.eqb name s) eqn:E; [ apply String.eqb_eq in E; subst name | ]
         end;
  try (intro H; discriminate H);
  repeat match goal with |- context[match args with _ => _ end] => destruct args as [|? args] end;
  try (intro H; discriminate H);
  try (destruct pimm as [x|x]; simpl; intro H; discriminate H);
  intro H; inversion H; subst; auto.
Qed.

Definition ahead (rem : list litem) (pos : Z) (ls : envt) : Prop :=
  forall L q, goff L rem = Some q -> assoc_str L ls = Some (pos + q).
Definition behind (rem : list litem) (posA posB : Z) (lsA lsB : envt) : Prop :=
  forall L, ~ In L (gnames rem) -> forall a b, assoc_str L lsA = Some a -> assoc_str L lsB = Some b ->
    0 <= a <= posA /\ 0 <= b <= posB /\ posB - b <= posA - a.
Definition samedom (lsA lsB : envt) : Prop := forall L, assoc_str L lsA = None <-> assoc_str L lsB = None.
Definition shifted (pos old new : Z) (ls : envt) : envt := if old - new >? 0 then shrink_after pos (old - new) ls else ls.

Lemma assoc_shifted k pos old new ls : new <= old ->
  assoc_str k (shifted pos old new ls) =
  match assoc_str k ls with Some v => Some (if v >? pos then v - (old - new) else v) | None => None end.
Proof.
  intro H. unfold shifted. destruct (old - new >? 0) eqn:E.
  - apply assoc_shrink.
  - destruct (assoc_str k ls) as [v|]; auto. destruct (v >? pos); auto. f_equal. lia.
Qed.
Lemma ahead_step l it r pos ls old new :
  ahead ((l, it) :: r) pos ls -> is_label it = None -> isz it = old -> 0 <= new <= old -> nonneg r ->
  ahead r (pos + new) (shifted pos old new ls).
Proof.
  intros Ha El Eo Hb Hn L q Hg. pose proof (goff_nonneg _ _ _ Hn Hg) as Hq.
  specialize (Ha L (old + q)). simpl in Ha. rewrite El, Hg, Eo in Ha. specialize (Ha eq_refl).
  rewrite assoc_shifted by lia. rewrite Ha.
  assert (G : pos + (old + q) >? pos = (old + q >? 0)) by (destruct (old + q >? 0) eqn:E; lia).
  rewrite G. destruct (old + q >? 0) eqn:E; f_equal; lia.
Qed.
Lemma ahead_label l n r pos ls : ahead ((l, ILabel n) :: r) pos ls -> NoDup (gnames ((l, ILabel n) :: r)) -> ahead r pos ls.
Proof.
  intros Ha Hnd L q Hg. apply Ha. simpl. destruct (String.eqb L n) eqn:E; [|exact Hg].
  apply String.eqb_eq in E. subst. simpl in Hnd. inversion Hnd as [|? ? N1 _]; subst. exfalso. apply N1. eapply goff_in; eauto.
Qed.
Lemma behind_step l it r posA posB lsA lsB oldA newA oldB newB :
  behind ((l, it) :: r) posA posB lsA lsB -> is_label it = None ->
  0 <= newB <= newA -> newA <= oldA -> newB <= oldB ->
  behind r (posA + newA) (posB + newB) (shifted posA oldA newA lsA) (shifted posB oldB newB lsB).
Proof.
  intros Hb El H1 H2 H3 L Hn a b Ea Eb. rewrite assoc_shifted in Ea, Eb by lia.
  destruct (assoc_str L lsA) as [a0|] eqn:Fa; try discriminate. destruct (assoc_str L lsB) as [b0|] eqn:Fb; try discriminate.
  assert (Hn' : ~ In L (gnames ((l, it) :: r))) by (simpl; rewrite El; exact Hn).
  destruct (Hb L Hn' a0 b0 Fa Fb) as (A & B & C).
  assert (Ga : a0 >? posA = false) by lia. assert (Gb : b0 >? posB = false) by lia.
  rewrite Ga in Ea. rewrite Gb in Eb. inversion Ea; inversion Eb; subst. lia.
Qed.
Lemma samedom_shifted pA oA nA pB oB nB lsA lsB : nA <= oA -> nB <= oB -> samedom lsA lsB ->
  samedom (shifted pA oA nA lsA) (shifted pB oB nB lsB).
Proof.
  intros H1 H2 Hs L. rewrite !assoc_shifted by lia. specialize (Hs L).
  destruct (assoc_str L lsA), (assoc_str L lsB); split; intro H; try discriminate; auto; try (apply Hs in H; discriminate);
    destruct Hs as [S1 S2]; try (specialize (S1 eq_refl); discriminate); try (specialize (S2 eq_refl); discriminate).
Qed.

Lemma call_rule consts l name args pimm pos ls rs ref lo hi near f1 f2 :
  expand_pseudo l name args pimm = Done (Choice (EOff ref) (Some ref) lo hi near f1 f2) ->
  pseudo_rule consts l (IPseudo name args pimm) pos ls = Done rs ->
  exists dest, chain_get consts ls ref = Some dest /\
    rs = if negb (in_consts consts ref) && (c_int32 (dest - pos) >=? lo) && (c_int32 (dest - pos) <=? hi) then [near] else [f1; f2].
Proof.
  intros Ex Hr. cbv beta iota delta [pseudo_rule] in Hr. rewrite Ex in Hr. cbv beta iota delta [obind] in Hr.
  cbn [eeval] in Hr. destruct (chain_get consts ls ref) as [dest|] eqn:Ec; [|discriminate].
  cbv beta iota delta [of_pres obind] in Hr. cbv zeta in Hr. exists dest. split. reflexivity.
  destruct (_ && _ && _); inversion Hr; reflexivity.
Qed.
Lemma chain_label consts ls ref : in_consts consts ref = false -> chain_get consts ls ref = assoc_str ref ls.
Proof. unfold in_consts, chain_get. destruct (assoc_str ref consts); [discriminate|reflexivity]. Qed.
Lemma chain_const consts lsA lsB ref : in_consts consts ref = true -> chain_get consts lsA ref = chain_get consts lsB ref.
Proof. unfold in_consts, chain_get. destruct (assoc_str ref consts); [reflexivity|discriminate]. Qed.

Lemma pass_group_intro rule p l it ls rs : is_label it = None -> rule l it p ls = Done rs ->
  pass_group rule p (l, it) (map (fun i => (l, i)) rs).
Proof. intros El Hr. unfold pass_group. cbn [fst snd]. rewrite El. eauto. Qed.
Lemma instrs_total_bounds l g : Forall (instr1 l) g -> 0 <= total g.
Proof.
  induction 1 as [|y g Hy _ IH]. unfold total; simpl; lia.
  pose proof (instr1_isz _ _ Hy). unfold total in *. cbn [fold_right]. lia.
Qed.

Lemma nonneg_total its : nonneg its -> 0 <= total its.
Proof. induction 1 as [|x r [Hx _] _ IH]; unfold total in *; simpl; lia. Qed.

Lemma pair_step consts l itA l2 itB remA remB posA posB lsA lsB rsA rsB :
  relAB (l, itA) (l2, itB) -> is_label itA = None ->
  nonneg ((l, itA) :: remA) -> nonneg ((l2, itB) :: remB) -> Forall2 relAB remA remB ->
  ahead ((l, itA) :: remA) posA lsA -> ahead ((l2, itB) :: remB) posB lsB ->
  behind ((l, itA) :: remA) posA posB lsA lsB -> samedom lsA lsB ->
  0 <= posA -> 0 <= posB -> posA + total ((l, itA) :: remA) < 2 ^ 31 -> posB + total ((l2, itB) :: remB) < 2 ^ 31 ->
  pseudo_rule consts l itA posA lsA = Done rsA -> pseudo_rule consts l2 itB posB lsB = Done rsB ->
  let gA := map (fun i => (l, i)) rsA in let gB := map (fun i => (l2, i)) rsB in
  (exists n, itA = IAlign n /\ 1 <= n /\ gA = [(l, IAlign n)] /\ gB = [(l2, IAlign n)]) \/
  (Forall plain1 gA /\ Forall plain1 gB /\ 0 <= total gB <= total gA).
Proof.
  intros Hrel El NA NB F2 AA AB BH SD PA0 PB0 BA BB HrA HrB. cbv zeta.
  pose proof (pseudo_stage_ps consts posA _ _ (pass_group_intro _ _ _ _ _ _ El HrA)) as RA.
  destruct (relAB_label _ _ Hrel) as (Elab & Esz & Eln). cbn [fst snd] in Elab, Esz, Eln. subst l2.
  assert (ElB : is_label itB = None) by (rewrite <- Elab; exact El).
  pose proof (pseudo_stage_ps consts posB _ _ (pass_group_intro _ _ _ _ _ _ ElB HrB)) as RB.
  inversion NA as [|? ? [WA0 WAn] _]; subst. inversion NB as [|? ? [WB0 _] _]; subst. cbn [snd] in WA0, WAn, WB0.
  unfold relAB, Rst in Hrel. cbn [fst snd] in Hrel.
  unfold Rps in RA, RB. cbn [fst snd] in RA, RB.
  assert (Same : forall (P : forall n, itA <> IAlign n), (forall c n f k, itA <> IInstr c n f k) -> (forall n a p, itA <> IPseudo n a p) ->
                 itB = itA -> map (fun i => (l, i)) rsA = [(l, itA)] -> map (fun i => (l, i)) rsB = [(l, itA)] ->
                 Forall plain1 (map (fun i => (l, i)) rsA) /\ Forall plain1 (map (fun i => (l, i)) rsB) /\
                 0 <= total (map (fun i => (l, i)) rsB) <= total (map (fun i => (l, i)) rsA)).
  { intros P _ _ _ -> ->. split; [|split]; try (constructor; [split; [exact El|exact P]|constructor]).
    unfold total; cbn [fold_right snd]. lia. }
  destruct itA; try discriminate;
    try (right; inversion Hrel; subst itB; apply Same; auto; try (intros; discriminate); fail).
  - (* IInstr *)
    destruct Hrel as (z & E & Hz & Hc). inversion E; subst z. destruct Hz as [_ (c2 & n2 & f2 & k2 & Ez)]. cbn [snd] in Ez. subst itB.
    rewrite RA, RB. right. cbn [snd] in Hc.
    split; [|split]; try (constructor; [split; [reflexivity|intros k; discriminate]|constructor]).
    unfold total; cbn [fold_right snd]. rewrite isz_instr in *. destruct k2; lia.
  - (* IPseudo *)
    inversion Hrel; subst itB. destruct RA as [FA TA]. destruct RB as [FB TB].
    right. split. { eapply Forall_impl; [|exact FA]. intros; eapply instr1_plain; eauto. }
    split. { eapply Forall_impl; [|exact FB]. intros; eapply instr1_plain; eauto. }
    split. { eapply instrs_total_bounds; eauto. }
    destruct (string_dec name "call") as [Ec|Nc]; [|destruct (string_dec name "tail") as [Et|Nt]].
    3:{ assert (NC : not_call name) by (split; assumption). rewrite (TA NC), (TB NC). lia. }
    all: (* call / tail: the choice *)
      cbv beta iota delta [pseudo_rule] in HrA, HrB;
      destruct (expand_pseudo l name args pimm) as [[it'|e tg lo hi near f1 f2]| |] eqn:Ex; cbv beta iota delta [obind] in HrA, HrB;
        try discriminate;
      [ exfalso; subst name; unfold expand_pseudo in Ex; cbn in Ex; destruct args as [|? [|? ?]]; discriminate | ].
    all: assert (tg <> None) as Htg by
        (subst name; unfold expand_pseudo in Ex; cbn in Ex; destruct args as [|? [|? ?]]; try discriminate; inversion Ex; discriminate).
    all: destruct tg as [ref|]; [clear Htg|contradiction].
    all: destruct (call_choice _ _ _ _ _ _ _ _ _ _ _ Ex) as (-> & -> & ->).
    all: pose proof (expand_pseudo_shape _ _ _ _ _ Ex) as (_ & Pn & P1 & P2); cbn in Pn, P1, P2.
    all: destruct (plain_instr1 l _ Pn) as [_ Sn]; destruct (plain_instr1 l _ P1) as [_ S1]; destruct (plain_instr1 l _ P2) as [_ S2].
    all: assert (HrA' : pseudo_rule consts l (IPseudo name args pimm) posA lsA = Done rsA)
        by (cbv beta iota delta [pseudo_rule]; rewrite Ex; exact HrA).
    all: assert (HrB' : pseudo_rule consts l (IPseudo name args pimm) posB lsB = Done rsB)
        by (cbv beta iota delta [pseudo_rule]; rewrite Ex; exact HrB).
    all: destruct (call_rule _ _ _ _ _ _ _ _ _ _ _ _ _ _ Ex HrA') as (dA & CA & ->).
    all: destruct (call_rule _ _ _ _ _ _ _ _ _ _ _ _ _ _ Ex HrB') as (dB & CB & ->).
    all: destruct (in_consts consts ref) eqn:Ic;
      [ cbn [negb andb map]; unfold total; cbn [fold_right snd]; lia | ].
    all: rewrite (chain_label consts lsA _ Ic) in CA; rewrite (chain_label consts lsB _ Ic) in CB; cbn [negb andb].
    all: assert (Hv : -1048576 <= c_int32 (dA - posA) <= 1048575 -> -1048576 <= c_int32 (dB - posB) <= 1048575);
      [ | destruct ((c_int32 (dA - posA) >=? -1048576) && (c_int32 (dA - posA) <=? 1048575)) eqn:DA;
          [ assert (DB : (c_int32 (dB - posB) >=? -1048576) && (c_int32 (dB - posB) <=? 1048575) = true) by
              (apply andb_true_iff in DA; destruct DA; apply andb_true_iff; split; lia);
            rewrite DB; cbn [map]; unfold total; cbn [fold_right snd]; lia
          | destruct ((c_int32 (dB - posB) >=? -1048576) && (c_int32 (dB - posB) <=? 1048575));
            cbn [map]; unfold total; cbn [fold_right snd]; lia ] ].
    all: pose proof (nonneg_total _ NA) as TA0; pose proof (nonneg_total _ NB) as TB0.
    all: (* the distances *)
      destruct (in_dec string_dec ref (gnames ((l, IPseudo name args pimm) :: remA))) as [Hin|Hout];
      [ destruct (in_goff _ _ Hin) as [qA QA];
        assert (F2' : Forall2 relAB ((l, IPseudo name args pimm) :: remA) ((l, IPseudo name args pimm) :: remB))
          by (constructor; [unfold relAB, Rst; reflexivity|exact F2]);
        destruct (relAB_goff ref _ _ F2' NB _ QA) as (qB & QB & Hq);
        pose proof (AA _ _ QA) as EA; pose proof (AB _ _ QB) as EB; rewrite CA in EA; rewrite CB in EB;
        inversion EA; inversion EB; subst dA dB;
        pose proof (goff_le_total _ _ _ NA QA); pose proof (goff_le_total _ _ _ NB QB);
        replace (posA + qA - posA) with qA by lia; replace (posB + qB - posB) with qB by lia;
        rewrite !c_int32_small by lia; lia
      | destruct (BH ref Hout dA dB CA CB) as (HA & HB & HC);
        rewrite !c_int32_small by lia; lia ].
  - (* IAlign *)
    inversion Hrel; subst itB. left. exists n. rewrite RA, RB. repeat split; auto.
Qed.

Lemma lockstep consts : forall remA remB, Forall2 relAB remA remB ->
  forall posA posB lsA lsB oA oB lsA' lsB',
  nonneg remA -> nonneg remB -> NoDup (gnames remA) ->
  ahead remA posA lsA -> ahead remB posB lsB -> behind remA posA posB lsA lsB -> samedom lsA lsB ->
  0 <= posA -> 0 <= posB -> posA + total remA < 2 ^ 31 -> posB + total remB < 2 ^ 31 ->
  gp (pseudo_rule consts) remA posA lsA = Done (oA, lsA') ->
  gp (pseudo_rule consts) remB posB lsB = Done (oB, lsB') ->
  grel oA oB.
Proof.
  induction 1 as [|[l itA] [l2 itB] remA remB Hxy F2 IH];
    intros posA posB lsA lsB oA oB lsA' lsB' NA NB ND AA AB BH SD PA0 PB0 BA BB HA HB.
  - simpl in HA, HB. inversion HA; inversion HB; subst. constructor.
  - destruct (relAB_label _ _ Hxy) as (Elab & Esz & Eln). cbn [fst snd] in Elab, Esz, Eln. subst l2.
    inversion NA as [|? ? WA NA']; subst. inversion NB as [|? ? WB NB']; subst.
    cbn [gp] in HA, HB. rewrite <- Elab in HB.
    destruct (is_label itA) as [n|] eqn:El.
    + (* a label marker *)
      pose proof (is_label_inv _ _ El) as ->. symmetry in Elab. pose proof (is_label_inv _ _ Elab) as ->.
      destruct (gp _ remA posA lsA) as [[oA1 lA1]| |] eqn:EA; cbn [obind] in HA; try discriminate.
      destruct (gp _ remB posB lsB) as [[oB1 lB1]| |] eqn:EB; cbn [obind] in HB; try discriminate.
      inversion HA; inversion HB; subst. cbn [fst].
      apply grel_lab. eapply (IH posA posB lsA lsB oA1 oB1 _ _); try eassumption.
      * simpl in ND. inversion ND; auto.
      * eapply ahead_label; eauto.
      * eapply ahead_label; eauto. rewrite <- (relAB_gnames _ _ (Forall2_cons _ _ Hxy F2)). exact ND.
      * intros L Hn a b Ea Eb. destruct (String.eqb L n) eqn:E.
        -- apply String.eqb_eq in E. subst L.
           assert (Ga : assoc_str n lsA = Some (posA + 0)) by (apply AA; simpl; rewrite String.eqb_refl; reflexivity).
           assert (Gb : assoc_str n lsB = Some (posB + 0)) by (apply AB; simpl; rewrite String.eqb_refl; reflexivity).
           rewrite Ea in Ga. rewrite Eb in Gb. inversion Ga; inversion Gb; subst. lia.
        -- apply (BH L); auto. simpl. intros [H|H]; auto. subst. rewrite String.eqb_refl in E. discriminate.
    + (* an item *)
      destruct (size_o itA) as [oldA| |] eqn:EoA; cbn [obind] in HA; try discriminate.
      destruct (pseudo_rule consts l itA posA lsA) as [rsA| |] eqn:ErA; cbn [obind] in HA; try discriminate.
      destruct (sizes rsA) as [newA| |] eqn:EnA; cbn [obind] in HA; try discriminate.
      destruct (size_o itB) as [oldB| |] eqn:EoB; cbn [obind] in HB; try discriminate.
      destruct (pseudo_rule consts l itB posB lsB) as [rsB| |] eqn:ErB; cbn [obind] in HB; try discriminate.
      destruct (sizes rsB) as [newB| |] eqn:EnB; cbn [obind] in HB; try discriminate.
      cbv zeta in HA, HB. fold (shifted posA oldA newA lsA) in HA. fold (shifted posB oldB newB lsB) in HB.
      destruct (gp _ remA (posA + newA) _) as [[oA1 lA1]| |] eqn:EA; cbn [obind] in HA; try discriminate.
      destruct (gp _ remB (posB + newB) _) as [[oB1 lB1]| |] eqn:EB; cbn [obind] in HB; try discriminate.
      inversion HA; inversion HB; subst oA oB lsA' lsB'. cbn [fst].
      assert (ElB : is_label itB = None) by (rewrite <- Elab; reflexivity).
      destruct (pseudo_rule_ok consts l itA posA lsA rsA oldA newA WA El EoA ErA EnA) as [[HnA0 HnA1] _].
      destruct (pseudo_rule_ok consts l itB posB lsB rsB oldB newB WB ElB EoB ErB EnB) as [[HnB0 HnB1] _].
      pose proof (size_o_isz _ _ EoA) as IA. pose proof (size_o_isz _ _ EoB) as IB.
      pose proof (sizes_total l _ _ EnA) as TA. pose proof (sizes_total l _ _ EnB) as TB.
      pose proof (pair_step consts l itA l itB remA remB posA posB lsA lsB rsA rsB Hxy El NA NB F2 AA AB BH SD PA0 PB0 BA BB ErA ErB) as PS.
      cbv zeta in PS.
      assert (Hle : 0 <= newB <= newA).
      { destruct PS as [(n & -> & Hn1 & GA & GB)|(P1 & P2 & Ht)].
        - rewrite GA in TA. rewrite GB in TB. unfold total in TA, TB. cbn [fold_right snd] in TA, TB. lia.
        - rewrite TA, TB in Ht. exact Ht. }
      assert (REC : grel oA1 oB1).
      { eapply (IH (posA + newA) (posB + newB) (shifted posA oldA newA lsA) (shifted posB oldB newB lsB) oA1 oB1 _ _); try eassumption.
        - simpl in ND. rewrite El in ND. exact ND.
        - eapply ahead_step; eauto; lia.
        - eapply ahead_step; eauto; lia.
        - eapply behind_step; eauto; lia.
        - apply samedom_shifted; auto; lia.
        - lia.
        - lia.
        - change (total ((l, itA) :: remA)) with (isz itA + total remA) in BA. lia.
        - change (total ((l, itB) :: remB)) with (isz itB + total remB) in BB. lia. }
      destruct PS as [(n & -> & Hn1 & -> & ->)|(P1 & P2 & Ht)].
      * cbn [app]. apply grel_al; auto.
      * apply grel_grp; auto.
Qed.

(* ---- the stages behind the pseudo pass keep the pairing ------------------------------------------------------------------ *)
Lemma st_st l1 l2 x g h : Rst l1 x g -> grouped (Rst l2) g h -> Rst (l1 || l2) x h.
Proof.
  unfold Rst. destruct (snd x) eqn:Ex; intros H G; try (subst g; apply grouped_single in G; unfold Rst in G; rewrite Ex in G; exact G).
  destruct H as (y & -> & Hy & Hc). apply grouped_single in G. unfold Rst in G.
  destruct Hy as [Hl (c1 & n1 & f1 & k1 & E)]. rewrite E in G. destruct G as (z & -> & Hz & Hc2).
  exists z. split. reflexivity. split. rewrite Hl in Hz. exact Hz. rewrite <- E in Hc2.
  destruct l1, l2; simpl in *; lia.
Qed.
Lemma plain_st le g : Forall plain1 g -> forall g', grouped (Rst le) g g' -> Forall plain1 g' /\ cmpz le (total g') (total g).
Proof.
  induction 1 as [|[l it] g [P1 P2] _ IH]; intros g' G.
  - inversion G; subst. split. constructor. destruct le; simpl; lia.
  - inversion G as [|? ? bs bs' Hx G']; subst. destruct (IH _ G') as [A B]. cbn [snd] in P1, P2.
    unfold Rst in Hx. cbn [fst snd] in Hx.
    assert (C : Forall plain1 bs /\ cmpz le (total bs) (isz it)).
    { destruct it; try discriminate; try (exfalso; eapply P2; reflexivity); try (subst bs; split; [constructor; [split; [exact P1|exact P2]|constructor]|
                                          unfold total, cmpz; cbn [fold_right snd]; destruct le; lia]).
      destruct Hx as (z & -> & Hz & Hc). split. constructor; [eapply instr1_plain; eauto|constructor].
      unfold total, cmpz in *; cbn [fold_right]. destruct le; lia. }
    destruct C as [C1 C2]. split. apply Forall_app; auto.
    rewrite total_app. change (total ((l, it) :: g)) with (isz it + total g). unfold cmpz in *. destruct le; lia.
Qed.
Lemma nonneg_app_l a b : nonneg (app a b) -> nonneg a /\ nonneg b.
Proof. unfold nonneg. intro H. apply Forall_app in H. exact H. Qed.
Lemma grel_st le a b : grel a b -> forall a' b', grouped (Rst false) a a' -> grouped (Rst le) b b' -> nonneg b' -> grel a' b'.
Proof.
  induction 1 as [|l l' n a b _ IH|l l' n a b Hn _ IH|ga gb a b Pa Pb Ht _ IH]; intros a' b' Ga Gb Nb.
  - inversion Ga; inversion Gb; subst. constructor.
  - inversion Ga as [|? ? g1 a1 H1 Ga']; subst. inversion Gb as [|? ? g2 b1 H2 Gb']; subst.
    unfold Rst in H1, H2. cbn [snd] in H1, H2. subst g1 g2. cbn [app] in *.
    inversion Nb; subst. apply grel_lab. eapply IH; eauto.
  - inversion Ga as [|? ? g1 a1 H1 Ga']; subst. inversion Gb as [|? ? g2 b1 H2 Gb']; subst.
    unfold Rst in H1, H2. cbn [snd] in H1, H2. subst g1 g2. cbn [app] in *.
    inversion Nb; subst. apply grel_al; [assumption|eapply IH; eauto].
  - destruct (grouped_split _ _ _ _ Ga) as (ga' & a1 & -> & G1 & G2).
    destruct (grouped_split _ _ _ _ Gb) as (gb' & b1 & -> & G3 & G4).
    destruct (plain_st false _ Pa _ G1) as [A1 A2]. destruct (plain_st le _ Pb _ G3) as [B1 B2].
    destruct (nonneg_app_l _ _ Nb) as [N1 N2]. pose proof (nonneg_total _ N1).
    apply cmpz_weaken in B2. simpl in A2.
    apply grel_grp; [assumption|assumption|lia|eapply IH; eauto].
Qed.

Lemma filter_total its : total (filter not_const its) = total its.
Proof.
  unfold total. induction its as [|[l it] r IH]; simpl; auto. unfold not_const at 1. cbn [snd].
  destruct it; simpl; rewrite ?IH; auto.
Qed.
Lemma keys_none (a b : envt) : map fst a = map fst b -> forall L, assoc_str L a = None <-> assoc_str L b = None.
Proof.
  revert b. induction a as [|[k v] a IH]; intros [|[k' v'] b] H L; simpl in *; try discriminate. tauto.
  inversion H; subst. destruct (String.eqb L k'). split; discriminate. apply IH; auto.
Qed.

(* THE THEOREM with call / tail: needs that every label comes from the program (labels0 = []) and a program below 2 GiB
   (the near / far test of call / tail wraps the distance to 32 bits) *)
Lemma runs_related its c0 rA rB :
  nonneg its -> total its < 2 ^ 31 ->
  assemble_items its c0 [] false = Done rA -> assemble_items its c0 [] true = Done rB ->
  exists consts i6A i6B alA alB finA finB,
    grel i6A i6B /\ nonneg i6A /\ nonneg i6B /\
    grouped (Rfin false consts) (resolve_register_aliases (filter not_const its) consts) i6A /\
    NoDup (gnames (resolve_register_aliases (filter not_const its) consts)) /\
    pgrouped Ralign 0 i6A alA /\ pgrouped Ralign 0 i6B alB /\ Forall2 same1 alA finA /\ Forall2 same1 alB finB /\
    blobbed finA (r_chunks rA) /\ blobbed finB (r_chunks rB) /\ exact finA (r_labels rA) /\ exact finB (r_labels rB) /\
    gnames finA = gnames its /\ gnames finB = gnames its.
Proof.
  intros Hn Hsz HA HB.
  destruct (assemble_stages _ _ _ _ _ HA Hn) as (cA & lA & i3A & lab3A & i4A & lab4A & i6A & lab6A & alA & finA &
                                                  A1 & A2 & A3 & A4 & A6 & N2A & N3A & N6A & D2A & X2A & X3A & PA & SA & BA & XA & GA).
  destruct (assemble_stages _ _ _ _ _ HB Hn) as (cB & lB & i3B & lab3B & i4B & lab4B & i6B & lab6B & alB & finB &
                                                  B1 & B2 & B3 & B4 & B6 & N2B & N3B & N6B & D2B & X2B & X3B & PB & SB & BB & XB & GB).
  rewrite A1 in B1. inversion B1; subst cB. rewrite A2 in B2. inversion B2; subst lB.
  set (i1 := filter not_const its) in *. set (i2 := resolve_register_aliases i1 cA) in *.
  inversion A3; subst i3A lab3A. inversion A6; subst i6A lab6A.
  (* the first compression pass of the compressed run: one item for one item, keys kept *)
  pose proof (compress_groups true _ _ _ _ _ B3) as G3. pose proof (st_forall2 _ _ G3) as F2.
  assert (K3 : map fst lab3B = map fst lA).
  { unfold transform_compressible in B3.
    destruct (gpass_exact _ (compress_rule_ok cA) _ _ _ _ N2A D2A X2A B3) as (_ & _ & K & _). exact K. }
  (* the pseudo pass of both runs in lockstep *)
  unfold transform_pseudo in A4, B4. rewrite gpass_gp in A4, B4.
  destruct (gp (pseudo_rule cA) i2 0 lA) as [[oA lsA']| |] eqn:EA; cbn [obind] in A4; try discriminate.
  destruct (gp (pseudo_rule cA) i3B 0 lab3B) as [[oB lsB']| |] eqn:EB; cbn [obind] in B4; try discriminate.
  cbn [rev app fst snd] in A4, B4. inversion A4; subst i4A lab4A. inversion B4; subst i4B lab4B.
  assert (T2 : total i2 = total its).
  { unfold i2. rewrite <- (same_total _ _ (aliases_same i1 cA)). apply filter_total. }
  assert (H1 : ahead i2 0 lA) by (intros L q Hg; rewrite (X2A L q Hg); f_equal).
  assert (H2 : ahead i3B 0 lab3B) by (intros L q Hg; rewrite (X3B L q Hg); f_equal).
  assert (H3 : behind i2 0 0 lA lab3B).
  { intros L Hnin a b Ea _. exfalso.
    assert (Hn1 : ~ In L (gnames i1)).
    { intro Hi. apply Hnin. unfold i2. rewrite <- (same_gnames _ _ (aliases_same i1 cA)). exact Hi. }
    unfold resolve_labels in A2. rewrite (rlf_other _ _ _ _ _ L A2 Hn1) in Ea. discriminate. }
  assert (H4 : samedom lA lab3B) by (intro L; symmetry; apply keys_none; exact K3).
  assert (H5 : 0 + total i3B < 2 ^ 31) by (pose proof (relAB_total _ _ F2); lia).
  assert (H6 : 0 + total i2 < 2 ^ 31) by lia.
  pose proof (lockstep cA i2 i3B F2 0 0 lA lab3B oA oB lsA' lsB' N2A N3B D2A H1 H2 H3 H4 ltac:(lia) ltac:(lia) H6 H5 EA EB) as GR4.
  (* alias resolution (both) and the second compression pass (compressed run) keep the pairing *)
  pose proof (aliases_st oA cA) as SA5. pose proof (aliases_st oB cA) as SB5.
  pose proof (compress_groups true _ _ _ _ _ B6) as SB6.
  assert (SB56 : grouped (Rst true) oB i6B).
  { eapply grouped_trans; [|exact SB5|exact SB6]. intros x g h Hx1 Hx2. exact (st_st false true x g h Hx1 Hx2). }
  pose proof (grel_st true _ _ GR4 _ _ SA5 SB56 N6B) as GR.
  assert (E4A : transform_pseudo i2 cA lA = Done (oA, lsA')).
  { unfold transform_pseudo. rewrite gpass_gp, EA. reflexivity. }
  pose proof (run_groups false cA lA i2 i2 lA oA lsA' (resolve_register_aliases oA cA) lsA' eq_refl E4A eq_refl) as RA.
  exists cA, (resolve_register_aliases oA cA), i6B, alA, alB, finA, finB.
  repeat (split; [first [exact GR | exact N6A | exact N6B | exact RA | exact D2A | exact PA | exact PB | exact SA | exact SB
                        | exact BA | exact BB | exact XA | exact XB | exact GA ]|]). exact GB.
Qed.

Theorem compression_monotone_all its c0 rA rB :
  nonneg its -> total its < 2 ^ 31 ->
  assemble_items its c0 [] false = Done rA -> assemble_items its c0 [] true = Done rB ->
  (forall L a b, In L (gnames its) -> assoc_str L (r_labels rA) = Some a -> assoc_str L (r_labels rB) = Some b -> b <= a) /\
  fold_right (fun c acc => chunk_len (snd c) + acc) 0 (r_chunks rB) <= fold_right (fun c acc => chunk_len (snd c) + acc) 0 (r_chunks rA).
Proof.
  intros Hn Hsz HA HB.
  destruct (assemble_stages _ _ _ _ _ HA Hn) as (cA & lA & i3A & lab3A & i4A & lab4A & i6A & lab6A & alA & finA &
                                                  A1 & A2 & A3 & A4 & A6 & N2A & N3A & N6A & D2A & X2A & X3A & PA & SA & BA & XA & GA).
  destruct (assemble_stages _ _ _ _ _ HB Hn) as (cB & lB & i3B & lab3B & i4B & lab4B & i6B & lab6B & alB & finB &
                                                  B1 & B2 & B3 & B4 & B6 & N2B & N3B & N6B & D2B & X2B & X3B & PB & SB & BB & XB & GB).
  rewrite A1 in B1. inversion B1; subst cB. rewrite A2 in B2. inversion B2; subst lB.
  set (i1 := filter not_const its) in *. set (i2 := resolve_register_aliases i1 cA) in *.
  inversion A3; subst i3A lab3A. inversion A6; subst i6A lab6A.
  (* the first compression pass of the compressed run: one item for one item, keys kept *)
  pose proof (compress_groups true _ _ _ _ _ B3) as G3. pose proof (st_forall2 _ _ G3) as F2.
  assert (K3 : map fst lab3B = map fst lA).
  { unfold transform_compressible in B3.
    destruct (gpass_exact _ (compress_rule_ok cA) _ _ _ _ N2A D2A X2A B3) as (_ & _ & K & _). exact K. }
  (* the pseudo pass of both runs in lockstep *)
  unfold transform_pseudo in A4, B4. rewrite gpass_gp in A4, B4.
  destruct (gp (pseudo_rule cA) i2 0 lA) as [[oA lsA']| |] eqn:EA; cbn [obind] in A4; try discriminate.
  destruct (gp (pseudo_rule cA) i3B 0 lab3B) as [[oB lsB']| |] eqn:EB; cbn [obind] in B4; try discriminate.
  cbn [rev app fst snd] in A4, B4. inversion A4; subst i4A lab4A. inversion B4; subst i4B lab4B.
  assert (T2 : total i2 = total its).
  { unfold i2. rewrite <- (same_total _ _ (aliases_same i1 cA)). apply filter_total. }
  assert (H1 : ahead i2 0 lA) by (intros L q Hg; rewrite (X2A L q Hg); f_equal).
  assert (H2 : ahead i3B 0 lab3B) by (intros L q Hg; rewrite (X3B L q Hg); f_equal).
  assert (H3 : behind i2 0 0 lA lab3B).
  { intros L Hnin a b Ea _. exfalso.
    assert (Hn1 : ~ In L (gnames i1)).
    { intro Hi. apply Hnin. unfold i2. rewrite <- (same_gnames _ _ (aliases_same i1 cA)). exact Hi. }
    unfold resolve_labels in A2. rewrite (rlf_other _ _ _ _ _ L A2 Hn1) in Ea. discriminate. }
  assert (H4 : samedom lA lab3B) by (intro L; symmetry; apply keys_none; exact K3).
  assert (H5 : 0 + total i3B < 2 ^ 31) by (pose proof (relAB_total _ _ F2); lia).
  assert (H6 : 0 + total i2 < 2 ^ 31) by lia.
  pose proof (lockstep cA i2 i3B F2 0 0 lA lab3B oA oB lsA' lsB' N2A N3B D2A H1 H2 H3 H4 ltac:(lia) ltac:(lia) H6 H5 EA EB) as GR4.
  (* alias resolution (both) and the second compression pass (compressed run) keep the pairing *)
  pose proof (aliases_st oA cA) as SA5. pose proof (aliases_st oB cA) as SB5.
  pose proof (compress_groups true _ _ _ _ _ B6) as SB6.
  assert (SB56 : grouped (Rst true) oB i6B).
  { eapply grouped_trans; [|exact SB5|exact SB6]. intros x g h Hx1 Hx2. exact (st_st false true x g h Hx1 Hx2). }
  pose proof (grel_st true _ _ GR4 _ _ SA5 SB56 N6B) as GR.
  destruct (grel_mono _ _ GR 0 0 ltac:(lia)) as (M1 & M2 & M3).
  destruct (align_layout _ _ _ PA N6A) as (TA & OA). destruct (align_layout _ _ _ PB N6B) as (TB & OB).
  split.
  - intros L a b Hin Ea Eb.
    assert (InA : In L (gnames finA)) by (rewrite GA; exact Hin).
    assert (InB : In L (gnames finB)) by (rewrite GB; exact Hin).
    destruct (in_goff _ _ InA) as [qa Qa]. destruct (in_goff _ _ InB) as [qb Qb].
    pose proof (XA _ _ Qa) as Ea'. pose proof (XB _ _ Qb) as Eb'. rewrite Ea in Ea'. rewrite Eb in Eb'.
    inversion Ea'; inversion Eb'; subst qa qb.
    rewrite <- (same_goff L _ _ SA), OA in Qa. rewrite <- (same_goff L _ _ SB), OB in Qb.
    destruct (aoff L 0 (resolve_register_aliases oA cA)) as [x|] eqn:Fa; try discriminate.
    destruct (aoff L 0 i6B) as [y|] eqn:Fb; try discriminate.
    simpl in Qa, Qb. inversion Qa; inversion Qb; subst. specialize (M2 _ _ _ Fa Fb). lia.
  - rewrite <- (blobbed_total _ _ BA), <- (blobbed_total _ _ BB), <- (same_total _ _ SA), <- (same_total _ _ SB). lia.
Qed.

(* ---- part 5: without an align between them, compression never moves two labels APART (K1 needs the align) ------------------- *)
Fixpoint no_align (its : list litem) : bool :=
  match its with [] => true | (_, IAlign _) :: _ => false | _ :: r => no_align r end.
Lemma no_align_app a b : no_align (app a b) = no_align a && no_align b.
Proof. induction a as [|[l it] a IH]; simpl; auto. destruct it; auto. Qed.

(* relative offsets: from ANY two starting offsets, the compressed list reaches a label after at most as many bytes *)
Lemma grel_relative a b : grel a b -> no_align a = true -> forall pa pb L x y,
  aoff L pa a = Some x -> aoff L pb b = Some y -> 0 <= y - pb <= x - pa.
Proof.
  induction 1 as [|l l' n a b _ IH|l l' n a b Hn _ IH|ga gb a b Pa Pb Ht _ IH]; intros Hna pa pb L x y Hx Hy.
  - discriminate.
  - cbn [aoff is_label] in Hx, Hy. destruct (String.eqb L n).
    + inversion Hx; inversion Hy; subst. lia.
    + eapply IH; eauto.
  - discriminate.
  - rewrite no_align_app in Hna. apply andb_prop in Hna. destruct Hna as [_ Hna].
    rewrite aoff_plain in Hx, Hy by assumption.
    specialize (IH Hna _ _ _ _ _ Hx Hy). lia.
Qed.
(* the part of the list behind a label marker *)
Fixpoint after (L : string) (its : list litem) : list litem :=
  match its with
  | [] => []
  | (l, it) :: r => match is_label it with Some n => if String.eqb L n then r else after L r | None => after L r end
  end.
Lemma grel_after L a b : grel a b -> grel (after L a) (after L b).
Proof.
  induction 1 as [|l l' n a b H IH|l l' n a b Hn H IH|ga gb a b Pa Pb Ht H IH]; cbn [after is_label]; auto.
  - constructor.
  - destruct (String.eqb L n); auto.
  - assert (A : forall g r, Forall plain1 g -> after L (app g r) = after L r).
    { induction 1 as [|[l0 it0] g [P1 _] _ IHg]; cbn [app after]; auto. cbn [snd] in P1. rewrite P1. exact IHg. }
    rewrite !A by assumption. exact IH.
Qed.
Lemma no_align_after L a : no_align a = true -> no_align (after L a) = true.
Proof.
  induction a as [|[l it] a IH]; cbn [after no_align]; auto.
  destruct it; cbn [is_label]; intro H; try (apply IH; exact H); try discriminate.
  destruct (String.eqb L name); auto.
Qed.
Lemma gnames_after L a : incl (gnames (after L a)) (gnames a).
Proof.
  induction a as [|[l it] a IH]; cbn [after gnames]. apply incl_refl.
  destruct (is_label it) as [n|].
  - destruct (String.eqb L n). apply incl_tl, incl_refl. apply incl_tl. exact IH.
  - exact IH.
Qed.
Lemma grel_gnames a b : grel a b -> gnames a = gnames b.
Proof.
  induction 1 as [|l l' n a b _ IH|l l' n a b Hn _ IH|ga gb a b Pa Pb Ht _ IH]; cbn [gnames is_label]; auto.
  - f_equal. exact IH.
  - assert (A : forall g r, Forall plain1 g -> gnames (app g r) = gnames r).
    { induction 1 as [|[l0 it0] g [P1 _] _ IHg]; cbn [app gnames]; auto. cbn [snd] in P1. rewrite P1. exact IHg. }
    rewrite !A by assumption. exact IH.
Qed.
(* the offset of a label that stands behind another one, computed from the marker of the first *)
Lemma aoff_after L1 L2 a : NoDup (gnames a) -> In L2 (gnames (after L1 a)) -> forall p x1,
  aoff L1 p a = Some x1 -> aoff L2 p a = aoff L2 x1 (after L1 a).
Proof.
  induction a as [|[l it] a IH]; intros Hnd Hin p x1 H1. contradiction.
  cbn [after aoff gnames] in *. destruct (is_label it) as [n|] eqn:El.
  - inversion Hnd as [|? ? N1 N2]; subst. destruct (String.eqb L1 n) eqn:E1.
    + inversion H1; subst x1. destruct (String.eqb L2 n) eqn:E2; [|reflexivity].
      apply String.eqb_eq in E2. subst. contradiction.
    + destruct (String.eqb L2 n) eqn:E2.
      * apply String.eqb_eq in E2. subst. exfalso. apply N1. apply (gnames_after L1 a). exact Hin.
      * apply IH; auto.
  - apply IH; auto.
Qed.

Theorem labels_never_apart a b : grel a b -> no_align a = true -> NoDup (gnames a) ->
  forall L1 L2 pa pb x1 x2 y1 y2, In L2 (gnames (after L1 a)) ->
  aoff L1 pa a = Some x1 -> aoff L2 pa a = Some x2 -> aoff L1 pb b = Some y1 -> aoff L2 pb b = Some y2 ->
  0 <= y2 - y1 <= x2 - x1.
Proof.
  intros G Hna Hnd L1 L2 pa pb x1 x2 y1 y2 Hin A1 A2 B1 B2.
  pose proof (grel_after L1 _ _ G) as G'. pose proof (grel_gnames _ _ G) as EG. pose proof (grel_gnames _ _ G') as EG'.
  rewrite (aoff_after L1 L2 a Hnd Hin pa x1 A1) in A2.
  assert (Hnd' : NoDup (gnames b)) by (rewrite <- EG; exact Hnd).
  assert (Hin' : In L2 (gnames (after L1 b))) by (rewrite <- EG'; exact Hin).
  rewrite (aoff_after L1 L2 b Hnd' Hin' pb y1 B1) in B2.
  exact (grel_relative _ _ G' (no_align_after L1 a Hna) x1 y1 L2 x2 y2 A2 B2).
Qed.

Lemma fin_no_align le consts s a : grouped (Rfin le consts) s a -> no_align s = true -> no_align a = true.
Proof.
  induction 1 as [|[l it] r bs bs' Hx _ IH]; intro Hn. reflexivity.
  rewrite no_align_app. unfold Rfin in Hx. cbn [fst snd] in Hx.
  assert (Hr : no_align r = true) by (destruct it; simpl in Hn; auto; discriminate).
  rewrite (IH Hr), andb_true_r.
  destruct it; try (subst bs; simpl in *; auto; fail).
  - destruct Hx as (y & -> & [_ (c1 & n1 & f1 & k1 & E)] & _). destruct y as [ly iy]. cbn [snd] in E. subst iy. reflexivity.
  - destruct Hx as [F _]. clear - F. induction F as [|[ly iy] g [_ (c1 & n1 & f1 & k1 & E)] _ IHg]. reflexivity.
    cbn [snd] in E. subst iy. exact IHg.
Qed.
Lemma pre_no_align its consts : no_align its = true -> no_align (resolve_register_aliases (filter not_const its) consts) = true.
Proof.
  unfold resolve_register_aliases. induction its as [|[l it] r IH]; simpl; auto.
  unfold not_const at 1. cbn [snd]. destruct it; simpl; auto; try discriminate.
Qed.
Lemma after_total L1 L2 a : NoDup (gnames a) -> In L1 (gnames a) -> In L2 (gnames a) -> L1 <> L2 ->
  In L2 (gnames (after L1 a)) \/ In L1 (gnames (after L2 a)).
Proof.
  induction a as [|[l it] a IH]; intros Hnd H1 H2 Hne. contradiction.
  cbn [gnames after] in *. destruct (is_label it) as [n|].
  - inversion Hnd as [|? ? N1 N2]; subst.
    destruct (String.eqb L1 n) eqn:E1.
    + apply String.eqb_eq in E1. subst n. left. destruct H2 as [H2|H2]; [congruence|exact H2].
    + destruct (String.eqb L2 n) eqn:E2.
      * apply String.eqb_eq in E2. subst n. right. destruct H1 as [H1|H1]; [congruence|exact H1].
      * apply IH; auto.
        destruct H1 as [H1|H1]; auto. subst. rewrite String.eqb_refl in E1. discriminate.
        destruct H2 as [H2|H2]; auto. subst. rewrite String.eqb_refl in E2. discriminate.
  - apply IH; auto.
Qed.

Lemma align_gnames a : forall p b, pgrouped Ralign p a b -> nonneg a -> gnames b = gnames a.
Proof.
  induction a as [|[l it] r IH]; intros p b G Hn.
  - inversion G; subst. reflexivity.
  - inversion G as [|? ? ? bs bs' Hx G']; subst. inversion Hn as [|? ? Hw Hn']; subst.
    unfold Ralign in Hx. cbn [fst snd] in Hx.
    assert (Hc : (exists n, it = IAlign n) \/ (forall n, it <> IAlign n)) by (destruct it; eauto; right; discriminate).
    destruct Hc as [[n ->]|Hna].
    + destruct Hw as [_ Hw]. destruct (Hx (Hw n eq_refl)) as (Eb & _). cbn [gnames is_label].
      rewrite gnames_app_nolabel. apply (IH _ _ G' Hn'). rewrite Eb. destruct (_ =? 0)%Z; repeat constructor.
    + assert (bs = [(l, it)]) as -> by (destruct it; auto; exfalso; eapply Hna; reflexivity).
      cbn [app gnames]. rewrite (IH _ _ G' Hn'). reflexivity.
Qed.

(* K1 needs the align: in a program WITHOUT align directives, compression never moves two labels apart *)
Theorem compression_labels_never_apart its c0 rA rB :
  nonneg its -> total its < 2 ^ 31 -> no_align its = true ->
  assemble_items its c0 [] false = Done rA -> assemble_items its c0 [] true = Done rB ->
  forall L1 L2 a1 a2 b1 b2, In L1 (gnames its) -> In L2 (gnames its) ->
    assoc_str L1 (r_labels rA) = Some a1 -> assoc_str L2 (r_labels rA) = Some a2 ->
    assoc_str L1 (r_labels rB) = Some b1 -> assoc_str L2 (r_labels rB) = Some b2 ->
    Z.abs (b2 - b1) <= Z.abs (a2 - a1) /\ (a1 <= a2 -> b1 <= b2 \/ a1 = a2).
Proof.
  intros Hn Hsz Hna HA HB L1 L2 a1 a2 b1 b2 I1 I2 EA1 EA2 EB1 EB2.
  destruct (runs_related _ _ _ _ Hn Hsz HA HB) as (consts & i6A & i6B & alA & alB & finA & finB &
    GR & N6A & N6B & RA & D2 & PA & PB & SA & SB & BA & BB & XA & XB & GA & GB).
  set (i2 := resolve_register_aliases (filter not_const its) consts) in *.
  assert (NA6 : no_align i6A = true) by (eapply fin_no_align; [exact RA|apply pre_no_align; exact Hna]).
  destruct (align_layout _ _ _ PA N6A) as (_ & OA). destruct (align_layout _ _ _ PB N6B) as (_ & OB).
  (* the offsets in the lists in front of the alignment pass *)
  assert (FA : forall L a, In L (gnames its) -> assoc_str L (r_labels rA) = Some a -> aoff L 0 i6A = Some a).
  { intros L a Hin E. assert (In L (gnames finA)) as Hf by (rewrite GA; exact Hin).
    destruct (in_goff _ _ Hf) as [q Q]. pose proof (XA _ _ Q) as E'. rewrite E in E'. inversion E'; subst q.
    rewrite <- (same_goff L _ _ SA), OA in Q. destruct (aoff L 0 i6A) as [x|]; [|discriminate]. simpl in Q. inversion Q. f_equal. lia. }
  assert (FB : forall L b, In L (gnames its) -> assoc_str L (r_labels rB) = Some b -> aoff L 0 i6B = Some b).
  { intros L b Hin E. assert (In L (gnames finB)) as Hf by (rewrite GB; exact Hin).
    destruct (in_goff _ _ Hf) as [q Q]. pose proof (XB _ _ Q) as E'. rewrite E in E'. inversion E'; subst q.
    rewrite <- (same_goff L _ _ SB), OB in Q. destruct (aoff L 0 i6B) as [x|]; [|discriminate]. simpl in Q. inversion Q. f_equal. lia. }
  pose proof (FA _ _ I1 EA1) as X1. pose proof (FA _ _ I2 EA2) as X2. pose proof (FB _ _ I1 EB1) as Y1. pose proof (FB _ _ I2 EB2) as Y2.
  destruct (string_dec L1 L2) as [->|Hne].
  { rewrite X1 in X2. rewrite Y1 in Y2. inversion X2; inversion Y2; subst. split. lia. intros _. left. lia. }
  (* gnames of the list in front of the alignment pass = gnames of the program *)
  assert (G6 : gnames i6A = gnames its) by (rewrite <- GA, <- (same_gnames _ _ SA); symmetry; eapply align_gnames; eauto).
  assert (ND6 : NoDup (gnames i6A)).
  { rewrite G6. unfold i2 in D2. rewrite <- (same_gnames _ _ (aliases_same (filter not_const its) consts)), filter_gnames in D2. exact D2. }
  assert (I1' : In L1 (gnames i6A)) by (rewrite G6; exact I1). assert (I2' : In L2 (gnames i6A)) by (rewrite G6; exact I2).
  destruct (after_total L1 L2 i6A ND6 I1' I2' Hne) as [Haf|Haf].
  - pose proof (labels_never_apart _ _ GR NA6 ND6 L1 L2 0 0 a1 a2 b1 b2 Haf X1 X2 Y1 Y2). split. lia. intros _. left. lia.
  - pose proof (labels_never_apart _ _ GR NA6 ND6 L2 L1 0 0 a2 a1 b2 b1 Haf X2 X1 Y2 Y1). split. lia. intros Hle. right. lia.
Qed.
