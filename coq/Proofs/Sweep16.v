(* Kernel sweep over every operand tuple inside the guard box of each of the 27 c.* mnemonics: the GENERATED
   encoder accepts exactly the legal tuples (Spec/Legal.v) and decode16 of the halfword names the operands. *)
From Coq Require Import ZArith List Bool Lia String.
From BB Require Import Base.Bits Base.PyBase Gen.Encoders Spec.RV32 Spec.RVC Spec.Operands Spec.Legal Model.Encode.
Import ListNotations.
Open Scope Z_scope.

Definition regs32 : list Z := zrange 0 32.
Definition dom16 (name : string) : list (list Z) :=
  let s := String.eqb name in
  if s "c.addi4spn"%string then [regs32; zrange 0 1024]
  else if s "c.lw"%string || s "c.sw"%string then [regs32; regs32; zrange 0 128]
  else if s "c.nop"%string || s "c.ebreak"%string then []
  else if s "c.addi"%string || s "c.li"%string || s "c.andi"%string || s "c.srli"%string || s "c.srai"%string
          || s "c.slli"%string then [regs32; zrange (-32) 64]
  else if s "c.jal"%string || s "c.j"%string then [zrange (-2048) 4096]
  else if s "c.addi16sp"%string then [zrange (-512) 1024]
  else if s "c.lui"%string then [regs32; app (zrange (-32) 64) (zrange 1048544 32)]
  else if s "c.sub"%string || s "c.xor"%string || s "c.or"%string || s "c.and"%string || s "c.mv"%string
          || s "c.add"%string then [regs32; regs32]
  else if s "c.beqz"%string || s "c.bnez"%string then [regs32; zrange (-256) 512]
  else if s "c.lwsp"%string || s "c.swsp"%string then [regs32; zrange 0 256]
  else if s "c.jr"%string || s "c.jalr"%string then [regs32]
  else [].

Fixpoint lprod (ds : list (list Z)) : list (list Z) :=
  match ds with [] => [[]] | d :: r => flat_map (fun x => map (cons x) (lprod r)) d end.
Definition box16 (name : string) : list (list Z) := lprod (dom16 name).

Lemma in_lprod ops ds : Forall2 (fun x d => In x d) ops ds -> In ops (lprod ds).
Proof.
  induction 1 as [|x d ops ds Hx H IH]; simpl; auto.
  apply in_flat_map. exists x. split; auto. apply in_map. exact IH.
Qed.

(* normalised operands: c.lui's second spelling *)
Definition cnorm (name : string) (ops : list Z) : list Z :=
  if String.eqb name "c.lui"%string then match ops with [a; b] => [a; cupper_norm b] | _ => ops end else ops.

Definition cinstr_eq_dec : forall a b : cinstr, {a = b} + {a <> b}.
Proof. decide equality; apply Z.eq_dec. Defined.

Definition check16 (name : string) (ops : list Z) : bool :=
  let ops' := cnorm name ops in
  match encode name (map AInt ops) [] with
  | Ok h => legal16 name ops' && (0 <=? h) && (h <? 65536) &&
            match decode16 h, denote16 name ops' with
            | Some c, Some d => if cinstr_eq_dec c d then true else false
            | _, _ => false
            end
  | Err ValueError => negb (legal16 name ops')
  | Err _ => false
  end.

Definition sweep_name (name : string) : bool := forallb (check16 name) (box16 name).

(* converse: every legal halfword is what its canonical operands encode to *)
Definition check_rev (h : Z) : bool :=
  match decode16 h with
  | None => true
  | Some c => let (n, ops) := name_ops16 c in
              match encode n (map AInt ops) [] with Ok h' => Z.eqb h' h | Err _ => false end
  end.
