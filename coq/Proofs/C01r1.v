From Coq Require Import ZArith List Bool Lia ZifyBool String.
From BB Require Import Base.Bits Base.PyBase Gen.Encoders Spec.RV32 Spec.Operands Model.Encode
  Proofs.EncTac Proofs.Enc32 Proofs.Dec32 Proofs.Regs Proofs.C01Tac.
Import ListNotations.
Open Scope Z_scope.
Lemma row_slli : row_ok "slli". Proof. row_r "slli"%string. Qed.
Lemma row_srli : row_ok "srli". Proof. row_r "srli"%string. Qed.
Lemma row_srai : row_ok "srai". Proof. row_r "srai"%string. Qed.
Lemma row_add : row_ok "add". Proof. row_r "add"%string. Qed.
Lemma row_sub : row_ok "sub". Proof. row_r "sub"%string. Qed.
Lemma row_sll : row_ok "sll". Proof. row_r "sll"%string. Qed.
Lemma row_slt : row_ok "slt". Proof. row_r "slt"%string. Qed.
Lemma row_sltu : row_ok "sltu". Proof. row_r "sltu"%string. Qed.
Lemma row_xor : row_ok "xor". Proof. row_r "xor"%string. Qed.
Lemma row_srl : row_ok "srl". Proof. row_r "srl"%string. Qed.
Lemma row_sra : row_ok "sra". Proof. row_r "sra"%string. Qed.
