(* C07, the consuming pairs ANYWHERE in ANY program (compress = false): two adjacent instruction lines of a program that the pass
   model assembles come out as two adjacent 4-byte chunks, at the offset p that the chunks in front of them add up to, and their bytes
   are what resolve_immediates / resolve_instructions make of the two lines AT p under the FINAL constants and labels (emit_lines of
   Proofs/RelocPairs.v) -- after the register aliases have been resolved (a register operand that is the name of a constant).
   With the pair theorems of Proofs/RelocPairs.v: the pair does what C07 says wherever it stands. *)
From Coq Require Import ZArith List Bool Lia String.
From BB Require Import Base.Bits Base.PyBase Gen.Encoders Spec.RV32 Spec.Operands Spec.Sem Model.Items Model.Encode Model.Passes
  Proofs.Layout Proofs.LayoutInst Proofs.Pipeline Proofs.PseudoEmit Proofs.RelocPairs.
Import ListNotations.
Open Scope Z_scope.
Open Scope string_scope.
Open Scope list_scope.

(* ---- splitting the relational facts at a position ----------------------------------------------------------------------------- *)
Lemma pgrouped_split (R : Z -> litem -> list litem -> Prop) a : forall p b c,
  pgrouped R p (a ++ b) c -> exists c1 c2, c = c1 ++ c2 /\ pgrouped R p a c1 /\ pgrouped R (p + total c1) b c2.
Proof.
  induction a as [|x a IH]; intros p b c G; cbn [app] in G.
  - exists [], c. split; [reflexivity|]. split; [constructor|]. unfold total; cbn. rewrite Z.add_0_r. exact G.
  - inversion G as [|? ? ? bs bs' Hx G']; subst.
    destruct (IH _ _ _ G') as (c1 & c2 & -> & G1 & G2).
    exists (bs ++ c1), c2. rewrite app_assoc. split; [reflexivity|]. split; [constructor; assumption|].
    rewrite total_app, Z.add_assoc. exact G2.
Qed.
Lemma pF2_split (R : Z -> litem -> litem -> Prop) a : forall p b f,
  pF2 R p (a ++ b) f -> exists f1 f2, f = f1 ++ f2 /\ pF2 R p a f1 /\ pF2 R (p + total a) b f2.
Proof.
  induction a as [|x a IH]; intros p b f H; cbn [app] in H.
  - exists [], f. split; [reflexivity|]. split; [exact I|]. unfold total; cbn. rewrite Z.add_0_r. exact H.
  - destruct f as [|y f]; cbn [pF2] in H; [contradiction|]. destruct H as [Hx H].
    destruct (IH _ _ _ H) as (f1 & f2 & -> & H1 & H2).
    exists (y :: f1), f2. split; [reflexivity|]. split; [cbn [pF2]; auto|].
    replace (p + total (x :: a)) with (p + isz (snd x) + total a) by (unfold total; cbn [fold_right]; ring). exact H2.
Qed.
Lemma pF2_conj (R S : Z -> litem -> litem -> Prop) a : forall p f,
  pF2 R p a f -> pF2 S p a f -> pF2 (fun q x y => R q x y /\ S q x y) p a f.
Proof. induction a as [|x a IH]; intros p [|y f] H1 H2; cbn [pF2] in *; try contradiction; auto. destruct H1, H2. auto. Qed.
Lemma pF2_of_Forall2 (S : litem -> litem -> Prop) a : forall p f, Forall2 S a f -> pF2 (fun _ x y => S x y) p a f.
Proof. induction a as [|x a IH]; intros p f H; inversion H; subst; cbn [pF2]; auto. Qed.
Lemma pF2_same_total (R : Z -> litem -> litem -> Prop) a : forall p f,
  pF2 (fun q x y => R q x y /\ same1 x y) p a f -> total a = total f.
Proof.
  induction a as [|x a IH]; intros p [|y f] H; cbn [pF2] in H; try contradiction; [reflexivity|].
  destruct H as [[_ (_ & _ & Hs & _)] H]. unfold total in *. cbn [fold_right]. rewrite Hs, (IH _ _ H). reflexivity.
Qed.

Lemma blobbed_split f1 : forall f2 cs, blobbed (f1 ++ f2) cs -> exists c1 c2, cs = c1 ++ c2 /\ blobbed f1 c1 /\ blobbed f2 c2.
Proof.
  induction f1 as [|x f1 IH]; intros f2 cs B; cbn [app] in B.
  - exists [], cs. split; [reflexivity|]. split; [constructor|exact B].
  - inversion B as [|l n r cs' B'|l it c r cs' Hc Hl B']; subst.
    + destruct (IH _ _ B') as (c1 & c2 & -> & B1 & B2). exists c1, c2. split; [reflexivity|]. split; [constructor; exact B1|exact B2].
    + destruct (IH _ _ B') as (c1 & c2 & -> & B1 & B2). exists ((l, c) :: c1), c2. split; [reflexivity|].
      split; [econstructor; eauto|exact B2].
Qed.
Definition chunks_len (cs : list (line * chunk)) : Z := fold_right (fun c a => chunk_len (snd c) + a) 0 cs.

(* ---- the two halves of the pipeline (compress = false) ---------------------------------------------------------------------------- *)
Definition front (its : list litem) (consts0 labels0 : envt) : outcome (list litem * envt * envt) :=
  p <<- resolve_constants_lr its consts0 [] ;;;
  let '(its, consts) := p in
  labels <<- resolve_labels its 0 labels0 ;;;
  let its := resolve_register_aliases its consts in
  p <<- transform_pseudo its consts labels ;;;
  let '(its, labels) := p in
  let its := resolve_register_aliases its consts in
  p <<- resolve_aligns its labels ;;;
  let '(its, labels) := p in
  Done (its, consts, labels).
Definition back (its : list litem) (consts labels : envt) : outcome result :=
  its <<- resolve_immediates its 0 consts labels [] ;;;
  its <<- resolve_instructions its [] ;;;
  let its := resolve_strings its in
  its <<- resolve_sequences its [] ;;;
  its <<- transform_shorthand its [] ;;;
  its <<- resolve_packs its [] ;;;
  its <<- resolve_include_bytes its [] ;;;
  chunks <<- resolve_blobs its ;;;
  Done {| r_chunks := chunks; r_consts := consts; r_labels := labels |}.
Lemma assemble_front_back its c0 l0 :
  assemble_items its c0 l0 false = (x <<- front its c0 l0 ;;; let '(al, consts, labels) := x in back al consts labels).
Proof.
  unfold assemble_items, front, back.
  destruct (resolve_constants_lr its c0 []) as [[i1 consts]| |]; cbn [obind]; try reflexivity.
  destruct (resolve_labels i1 0 l0) as [labels| |]; cbn [obind]; try reflexivity.
  destruct (transform_pseudo _ consts labels) as [[i4 lab4]| |]; cbn [obind]; try reflexivity.
  destruct (resolve_aligns _ lab4) as [[i7 lab7]| |]; cbn [obind]; reflexivity.
Qed.

Lemma back_facts al consts labels r :
  back al consts labels = Done r ->
  r_consts r = consts /\ r_labels r = labels /\
  exists fin, blobbed fin (r_chunks r) /\ pF2 (fun q x y => Rval consts labels q x y /\ same1 x y) 0 al fin.
Proof.
  unfold back. intros H.
  destruct (resolve_immediates al 0 consts labels []) as [i8| |] eqn:E8; cbn [obind] in H; try discriminate.
  destruct (resolve_immediates_same _ _ _ _ _ _ E8) as (o8 & Q8 & S8). simpl in Q8. subst o8.
  destruct (resolve_immediates_spec _ _ _ _ _ _ E8) as (o8 & Q8 & V8). simpl in Q8. subst o8.
  destruct (resolve_instructions i8 []) as [i9| |] eqn:E9; cbn [obind] in H; try discriminate.
  destruct (resolve_instructions_same _ _ _ E9) as (o9 & Q9 & S9). simpl in Q9. subst o9.
  destruct (resolve_instructions_spec _ _ _ E9) as (o9 & Q9 & V9). simpl in Q9. subst o9.
  pose proof (resolve_strings_same i9) as S10. set (i10 := resolve_strings i9) in *.
  destruct (resolve_sequences i10 []) as [i11| |] eqn:E11; cbn [obind] in H; try discriminate.
  destruct (resolve_sequences_same _ _ _ E11) as (o11 & Q11 & S11). simpl in Q11. subst o11.
  destruct (transform_shorthand i11 []) as [i12| |] eqn:E12; cbn [obind] in H; try discriminate.
  destruct (transform_shorthand_same _ _ _ E12) as (o12 & Q12 & S12). simpl in Q12. subst o12.
  destruct (resolve_packs i12 []) as [i13| |] eqn:E13; cbn [obind] in H; try discriminate.
  destruct (resolve_packs_same _ _ _ E13) as (o13 & Q13 & S13). simpl in Q13. subst o13.
  destruct (resolve_include_bytes i13 []) as [i14| |] eqn:E14; cbn [obind] in H; try discriminate.
  destruct (resolve_include_bytes_same _ _ _ E14) as (o14 & Q14 & S14). simpl in Q14. subst o14.
  destruct (resolve_blobs i14) as [chunks| |] eqn:E15; cbn [obind] in H; try discriminate.
  inversion H; subst r; clear H. cbn [r_consts r_labels r_chunks].
  split; [reflexivity|]. split; [reflexivity|]. exists i14. split; [apply resolve_blobs_blobbed; exact E15|].
  apply pF2_conj.
  - eapply compose_vals; [exact V8 | exact V9 |].
    repeat (eapply Forall2_same1_trans; [eassumption|]). apply Forall2_same1_refl.
  - apply pF2_of_Forall2. repeat (eapply Forall2_same1_trans; [eassumption|]). apply Forall2_same1_refl.
Qed.

(* ---- the front half keeps an instruction line where it is, up to the resolution of its register aliases ---------------------------- *)
Definition alias_item (consts : envt) (x : litem) : litem :=
  match x with (l, IInstr cls name fs c) => (l, IInstr cls name (map (alias_field consts) fs) c) | _ => x end.
Lemma aliases_map its consts : resolve_register_aliases its consts = map (alias_item consts) its.
Proof. unfold resolve_register_aliases. apply map_ext. intros [l it]. destruct it; reflexivity. Qed.
Lemma alias_field_idem consts kv : alias_field consts (alias_field consts kv) = alias_field consts kv.
Proof.
  destruct kv as [k [[z|s]|e|z|b]]; cbn [alias_field]; try reflexivity.
  destruct (mem_str k REGS) eqn:Ek; [|cbn [alias_field]; rewrite Ek; reflexivity].
  destruct (assoc_str s consts) as [v|] eqn:Ea; cbn [alias_field]; [reflexivity|]. rewrite Ek, Ea. reflexivity.
Qed.
Lemma alias_item_idem consts x : alias_item consts (alias_item consts x) = alias_item consts x.
Proof.
  destruct x as [l it]. destruct it; try reflexivity. cbn [alias_item]. rewrite map_map. f_equal. f_equal.
  apply map_ext. intro. apply alias_field_idem.
Qed.

(* a pass of shape gpass whose rule keeps instructions leaves a pair of instruction lines adjacent *)
Lemma gpass_keeps_pair rule :
  (forall l cls n fs c p ls, rule l (IInstr cls n fs c) p ls = Done [IInstr cls n fs c]) ->
  forall pre l1 c1 n1 f1 b1 l2 c2 n2 f2 b2 post labels o labels',
  gpass rule (pre ++ [(l1, IInstr c1 n1 f1 b1); (l2, IInstr c2 n2 f2 b2)] ++ post) 0 labels [] = Done (o, labels') ->
  exists o1 o2, o = o1 ++ [(l1, IInstr c1 n1 f1 b1); (l2, IInstr c2 n2 f2 b2)] ++ o2.
Proof.
  intros Hk pre l1 c1 n1 f1 b1 l2 c2 n2 f2 b2 post labels o labels' H.
  rewrite gpass_gp in H. destruct (gp rule _ 0 labels) as [[o' ls]| |] eqn:E; cbn [obind] in H; try discriminate.
  apply Done_inj in H. cbn [rev app fst snd] in H. injection H as <- <-.
  pose proof (gp_grouped _ _ _ _ _ _ E) as G.
  destruct (pgrouped_split _ _ _ _ _ G) as (o1 & t & -> & _ & G2).
  cbn [app] in G2. inversion G2 as [|? ? ? g1 t' Hx1 G3]; subst. inversion G3 as [|? ? ? g2 o2 Hx2 G4]; subst.
  unfold pass_group in Hx1, Hx2. cbn [fst snd is_label] in Hx1, Hx2.
  destruct Hx1 as (ls1 & rs1 & Hr1 & ->). destruct Hx2 as (ls2 & rs2 & Hr2 & ->).
  rewrite Hk in Hr1, Hr2. apply Done_inj in Hr1, Hr2. subst rs1 rs2.
  exists o1, o2. reflexivity.
Qed.

Lemma front_keeps_pair pre l1 c1 n1 f1 b1 l2 c2 n2 f2 b2 post c0 l0 al consts labels :
  front (pre ++ [(l1, IInstr c1 n1 f1 b1); (l2, IInstr c2 n2 f2 b2)] ++ post) c0 l0 = Done (al, consts, labels) ->
  exists a1 a2, al = a1 ++ [alias_item consts (l1, IInstr c1 n1 f1 b1); alias_item consts (l2, IInstr c2 n2 f2 b2)] ++ a2.
Proof.
  unfold front. intros H.
  destruct (resolve_constants_lr _ c0 []) as [[i1 cs]| |] eqn:E1; cbn [obind] in H; try discriminate.
  pose proof (resolve_constants_filter _ _ _ _ _ E1) as F1. cbn [rev app] in F1.
  rewrite !filter_app in F1. cbn [filter not_const snd] in F1. subst i1.
  destruct (resolve_labels _ 0 l0) as [lab| |]; cbn [obind] in H; try discriminate.
  rewrite aliases_map, !map_app in H. cbn [map] in H.
  destruct (transform_pseudo _ cs lab) as [[i4 lab4]| |] eqn:E4; cbn [obind] in H; try discriminate.
  unfold transform_pseudo in E4. cbn [alias_item] in E4.
  apply (gpass_keeps_pair (pseudo_rule cs) (fun _ _ _ _ _ _ _ => eq_refl)) in E4. destruct E4 as (o1 & o2 & ->).
  rewrite aliases_map, !map_app in H. cbn [map] in H.
  destruct (resolve_aligns _ lab4) as [[i7 lab7]| |] eqn:E7; cbn [obind] in H; try discriminate.
  unfold resolve_aligns in E7. cbn [alias_item] in E7.
  apply (gpass_keeps_pair align_rule (fun _ _ _ _ _ _ _ => eq_refl)) in E7. destruct E7 as (a1 & a2 & ->).
  apply Done_inj in H. injection H as <- <- <-.
  exists a1, a2. cbn [alias_item]. rewrite !map_map.
  rewrite (map_ext _ _ (alias_field_idem cs) f1), (map_ext _ _ (alias_field_idem cs) f2). reflexivity.
Qed.

(* ---- two Rval facts are emit_lines ---------------------------------------------------------------------------------------------------- *)
Lemma rval_two_emit consts labels p l1 c1 n1 f1 l2 c2 n2 f2 y1 y2 :
  Rval consts labels p (l1, IInstr c1 n1 f1 false) y1 -> Rval consts labels (p + 4) (l2, IInstr c2 n2 f2 false) y2 ->
  exists bs1 bs2, y1 = (l1, IBlob bs1) /\ y2 = (l2, IBlob bs2) /\ zlen bs1 = 4 /\ zlen bs2 = 4 /\
    emit_lines consts labels p [(l1, IInstr c1 n1 f1 false); (l2, IInstr c2 n2 f2 false)] = Done (bs1 ++ bs2).
Proof.
  intros [L1 (g1 & bs1 & En1 & Y1 & I1)] [L2 (g2 & bs2 & En2 & Y2 & I2)]. cbn [fst snd] in *.
  destruct y1 as [m1 y1], y2 as [m2 y2]. cbn [fst snd] in *. subst m1 m2 y1 y2.
  exists bs1, bs2. split; [reflexivity|]. split; [reflexivity|].
  split; [exact (encode_item_len _ _ _ _ _ _ En1)|]. split; [exact (encode_item_len _ _ _ _ _ _ En2)|].
  unfold emit_lines. cbn [resolve_immediates]. fold (Pipeline.back_of f1). fold (Pipeline.back_of f2).
  destruct (field_get "imm" f1) as [v1|].
  - destruct I1 as (z1 & Hz1 & ->). rewrite Hz1. cbn [obind].
    destruct (field_get "imm" f2) as [v2|].
    + destruct I2 as (z2 & Hz2 & ->). replace (0 + p + 4) with (p + 4) by ring. rewrite Hz2. cbn [obind rev app resolve_instructions].
      rewrite En1. cbn [obind resolve_instructions]. rewrite En2. cbn [obind resolve_instructions rev app resolve_blobs flat_map chunk_bytes snd].
      rewrite app_nil_r. reflexivity.
    + subst g2. cbn [obind rev app resolve_instructions].
      rewrite En1. cbn [obind resolve_instructions]. rewrite En2. cbn [obind resolve_instructions rev app resolve_blobs flat_map chunk_bytes snd].
      rewrite app_nil_r. reflexivity.
  - subst g1. destruct (field_get "imm" f2) as [v2|].
    + destruct I2 as (z2 & Hz2 & ->). rewrite Hz2. cbn [obind rev app resolve_instructions].
      rewrite En1. cbn [obind resolve_instructions]. rewrite En2. cbn [obind resolve_instructions rev app resolve_blobs flat_map chunk_bytes snd].
      rewrite app_nil_r. reflexivity.
    + subst g2. cbn [obind rev app resolve_instructions].
      rewrite En1. cbn [obind resolve_instructions]. rewrite En2. cbn [obind resolve_instructions rev app resolve_blobs flat_map chunk_bytes snd].
      rewrite app_nil_r. reflexivity.
Qed.

(* ---- the theorem -------------------------------------------------------------------------------------------------------------------------- *)
Theorem pair_anywhere pre l1 c1 n1 f1 l2 c2 n2 f2 post c0 l0 r :
  assemble_items (pre ++ [(l1, IInstr c1 n1 f1 false); (l2, IInstr c2 n2 f2 false)] ++ post) c0 l0 false = Done r ->
  exists cpre bs1 bs2 cpost,
    r_chunks r = cpre ++ [(l1, CBytes bs1); (l2, CBytes bs2)] ++ cpost /\ zlen bs1 = 4 /\ zlen bs2 = 4 /\
    emit_lines (r_consts r) (r_labels r) (chunks_len cpre)
               [(l1, IInstr c1 n1 (map (alias_field (r_consts r)) f1) false); (l2, IInstr c2 n2 (map (alias_field (r_consts r)) f2) false)]
    = Done (bs1 ++ bs2).
Proof.
  intros H. rewrite assemble_front_back in H.
  destruct (front _ c0 l0) as [[[al consts] labels]| |] eqn:Ef; cbn [obind] in H; try discriminate.
  destruct (front_keeps_pair _ _ _ _ _ _ _ _ _ _ _ _ _ _ _ _ _ Ef) as (a1 & a2 & ->).
  destruct (back_facts _ _ _ _ H) as (-> & -> & fin & B & V).
  destruct (pF2_split _ _ _ _ _ V) as (f1' & ft & -> & V1 & V2).
  cbn [app alias_item pF2] in V2. destruct ft as [|y1 [|y2 f2']]; try (destruct V2 as (_ & V2); contradiction); try contradiction.
  destruct V2 as ((R1 & _) & (R2 & _) & _). cbn [snd] in R2. rewrite isz_instr in R2. rewrite Z.add_0_l in R1, R2.
  destruct (rval_two_emit _ _ _ _ _ _ _ _ _ _ _ _ _ R1 R2) as (bs1 & bs2 & -> & -> & Z1 & Z2 & E).
  destruct (blobbed_split _ _ _ B) as (cpre & ct & Hc & B1 & B2).
  inversion B2 as [| |? ? k1 ? ct1 Hk1 _ B3]; subst. inversion B3 as [| |? ? k2 ? cpost Hk2 _ B4]; subst.
  cbn [chunk_of] in Hk1, Hk2. apply Some_inj in Hk1, Hk2. subst k1 k2.
  exists cpre, bs1, bs2, cpost. split; [exact Hc|]. split; [exact Z1|]. split; [exact Z2|].
  replace (chunks_len cpre) with (total a1); [exact E|].
  rewrite (pF2_same_total _ _ _ _ V1). unfold chunks_len. apply blobbed_total. exact B1.
Qed.

(* ---- the pairs of C07, anywhere ---------------------------------------------------------------------------------------------------------- *)
(* a register operand that is the name of a constant is replaced by the constant's value (resolve_register_aliases) *)
Definition alias_arg (consts : envt) (a : arg) : arg :=
  match a with AStr s => match assoc_str s consts with Some v => AInt v | None => a end | AInt _ => a end.
Lemma alias_mkU consts n rd e : forall cls nm fs c, mkU n rd e = IInstr cls nm fs c ->
  IInstr cls nm (map (alias_field consts) fs) c = mkU n (alias_arg consts rd) e.
Proof.
  unfold mkU. intros cls nm fs c H. injection H as <- <- <- <-. cbn [map alias_field mem_str REGS existsb String.eqb Ascii.eqb Bool.eqb orb].
  destruct rd as [z|s]; cbn [alias_arg]; [reflexivity|]. destruct (assoc_str s consts); reflexivity.
Qed.
Lemma alias_mkI consts n rd rs e b : forall cls nm fs c, mkI n rd rs e b = IInstr cls nm fs c ->
  IInstr cls nm (map (alias_field consts) fs) c = mkI n (alias_arg consts rd) (alias_arg consts rs) e b.
Proof.
  unfold mkI. intros cls nm fs c H. injection H as <- <- <- <-. cbn [map alias_field mem_str REGS existsb String.eqb Ascii.eqb Bool.eqb orb].
  destruct rd as [z|s], rs as [z'|s']; cbn [alias_arg]; try reflexivity;
    repeat match goal with |- context[assoc_str ?k consts] => destruct (assoc_str k consts) end; reflexivity.
Qed.
Lemma alias_mkS consts n rs1 rs2 e : forall cls nm fs c, mkS n rs1 rs2 e = IInstr cls nm fs c ->
  IInstr cls nm (map (alias_field consts) fs) c = mkS n (alias_arg consts rs1) (alias_arg consts rs2) e.
Proof.
  unfold mkS. intros cls nm fs c H. injection H as <- <- <- <-. cbn [map alias_field mem_str REGS existsb String.eqb Ascii.eqb Bool.eqb orb].
  destruct rs1 as [z|s], rs2 as [z'|s']; cbn [alias_arg]; try reflexivity;
    repeat match goal with |- context[assoc_str ?k consts] => destruct (assoc_str k consts) end; reflexivity.
Qed.

(* the shape all corollaries share: where the pair's two chunks are, and emit_lines of the alias-resolved pair at that offset *)
Lemma pair_anywhere_U_I pre l1 n1 t e1 l2 n2 rd t' e2 post c0 l0 r :
  assemble_items (pre ++ [(l1, mkU n1 t e1); (l2, mkI n2 rd t' e2 false)] ++ post) c0 l0 false = Done r ->
  exists cpre bs1 bs2 cpost,
    r_chunks r = cpre ++ [(l1, CBytes bs1); (l2, CBytes bs2)] ++ cpost /\
    emit_lines (r_consts r) (r_labels r) (chunks_len cpre)
               [(l1, mkU n1 (alias_arg (r_consts r) t) e1); (l2, mkI n2 (alias_arg (r_consts r) rd) (alias_arg (r_consts r) t') e2 false)]
    = Done (bs1 ++ bs2).
Proof.
  intros H. apply pair_anywhere in H. destruct H as (cpre & bs1 & bs2 & cpost & Hc & _ & _ & E).
  rewrite (alias_mkU _ _ _ _ _ _ _ _ eq_refl), (alias_mkI _ _ _ _ _ _ _ _ _ _ eq_refl) in E. exists cpre, bs1, bs2, cpost. auto.
Qed.
Lemma pair_anywhere_U_S pre l1 n1 t e1 l2 n2 t' rs e2 post c0 l0 r :
  assemble_items (pre ++ [(l1, mkU n1 t e1); (l2, mkS n2 t' rs e2)] ++ post) c0 l0 false = Done r ->
  exists cpre bs1 bs2 cpost,
    r_chunks r = cpre ++ [(l1, CBytes bs1); (l2, CBytes bs2)] ++ cpost /\
    emit_lines (r_consts r) (r_labels r) (chunks_len cpre)
               [(l1, mkU n1 (alias_arg (r_consts r) t) e1); (l2, mkS n2 (alias_arg (r_consts r) t') (alias_arg (r_consts r) rs) e2)]
    = Done (bs1 ++ bs2).
Proof.
  intros H. apply pair_anywhere in H. destruct H as (cpre & bs1 & bs2 & cpost & Hc & _ & _ & E).
  rewrite (alias_mkU _ _ _ _ _ _ _ _ eq_refl), (alias_mkS _ _ _ _ _ _ _ _ _ eq_refl) in E. exists cpre, bs1, bs2, cpost. auto.
Qed.

Theorem lui_addi_anywhere pre post l1 l2 rd e c0 l0 r :
  is_position_relative e = false ->
  assemble_items (pre ++ [(l1, mkU "lui" rd (EHi e)); (l2, mkI "addi" rd rd (ELo e) false)] ++ post) c0 l0 false = Done r ->
  exists cpre bs1 bs2 cpost nrd v,
    r_chunks r = cpre ++ [(l1, CBytes bs1); (l2, CBytes bs2)] ++ cpost /\
    regnum (alias_arg (r_consts r) rd) = Some nrd /\
    eval_here l1 (chunks_len cpre) (r_consts r) (r_labels r) e = Done v /\
    forall s, loaded s (bs1 ++ bs2) ->
      exists s', run_n 2 s = Some s' /\ pc s' = wrap (pc s + 8) /\ only_reg s s' nrd (wrap v).
Proof.
  intros Hpr H. apply pair_anywhere_U_I in H. destruct H as (cpre & bs1 & bs2 & cpost & Hc & E).
  destruct (lui_addi_pair _ _ _ _ _ _ _ _ Hpr E) as (nrd & v & Hr & Hv & Run).
  exists cpre, bs1, bs2, cpost, nrd, v. auto.
Qed.
Theorem lui_load_anywhere w pre post l1 l2 t rd e c0 l0 r :
  is_position_relative e = false ->
  assemble_items (pre ++ [(l1, mkU "lui" t (EHi e)); (l2, mkI (lwidth_name w) rd t (ELo e) false)] ++ post) c0 l0 false = Done r ->
  exists cpre bs1 bs2 cpost nt nrd v,
    r_chunks r = cpre ++ [(l1, CBytes bs1); (l2, CBytes bs2)] ++ cpost /\
    regnum (alias_arg (r_consts r) t) = Some nt /\ regnum (alias_arg (r_consts r) rd) = Some nrd /\
    eval_here l1 (chunks_len cpre) (r_consts r) (r_labels r) e = Done v /\
    forall s, loaded s (bs1 ++ bs2) -> nt <> 0 ->
      exists s', run_n 2 s = Some s' /\ pc s' = wrap (pc s + 8) /\
        two_regs s s' nt (wrap (relocate_hi v * 4096)) nrd (load_val w (mem s) (wrap v)).
Proof.
  intros Hpr H. apply pair_anywhere_U_I in H. destruct H as (cpre & bs1 & bs2 & cpost & Hc & E).
  destruct (lui_load_pair w _ _ _ _ _ _ _ _ _ _ Hpr E) as (nt & nt' & nrd & v & Ht & Ht' & Hrd & Hv & Run).
  rewrite Ht in Ht'. apply Some_inj in Ht'. subst nt'.
  exists cpre, bs1, bs2, cpost, nt, nrd, v. repeat (split; [assumption|]). intros s L Hnz. exact (Run s L eq_refl Hnz).
Qed.
Theorem lui_store_anywhere w pre post l1 l2 t rs e c0 l0 r :
  is_position_relative e = false ->
  assemble_items (pre ++ [(l1, mkU "lui" t (EHi e)); (l2, mkS (swidth_name w) t rs (ELo e))] ++ post) c0 l0 false = Done r ->
  exists cpre bs1 bs2 cpost nt nrs v,
    r_chunks r = cpre ++ [(l1, CBytes bs1); (l2, CBytes bs2)] ++ cpost /\
    regnum (alias_arg (r_consts r) t) = Some nt /\ regnum (alias_arg (r_consts r) rs) = Some nrs /\
    eval_here l1 (chunks_len cpre) (r_consts r) (r_labels r) e = Done v /\
    forall s, loaded s (bs1 ++ bs2) -> nt <> 0 ->
      exists s', run_n 2 s = Some s' /\ pc s' = wrap (pc s + 8) /\
        getr s' nt = wrap (relocate_hi v * 4096) /\ (forall x, x <> nt -> getr s' x = getr s x) /\
        mem s' = store_le (swidth_bytes w) (mem s) (wrap v) (if (nrs =? nt)%Z then wrap (relocate_hi v * 4096) else getr s nrs).
Proof.
  intros Hpr H. apply pair_anywhere_U_S in H. destruct H as (cpre & bs1 & bs2 & cpost & Hc & E).
  destruct (lui_store_pair w _ _ _ _ _ _ _ _ _ _ Hpr E) as (nt & nt' & nrs & v & Ht & Ht' & Hrs & Hv & Run).
  rewrite Ht in Ht'. apply Some_inj in Ht'. subst nt'.
  exists cpre, bs1, bs2, cpost, nt, nrs, v. repeat (split; [assumption|]). intros s L Hnz. exact (Run s L eq_refl Hnz).
Qed.
(* the hand-written auipc + jalr with one label, anywhere: with the pair at offset p and the label at offset q of the output, the label is
   at address pc + (q - p) when the pair sits at the pc; the jump goes 4 bytes short of it (4092 beyond it inside the window), never to it *)
Theorem auipc_jalr_same_label_anywhere pre post l1 l2 t rd L c0 l0 r :
  assemble_items (pre ++ [(l1, mkU "auipc" t (EHi (EOff L))); (l2, mkI "jalr" rd t (ELo (EOff L)) false)] ++ post) c0 l0 false = Done r ->
  exists cpre bs1 bs2 cpost nt nrd q,
    r_chunks r = cpre ++ [(l1, CBytes bs1); (l2, CBytes bs2)] ++ cpost /\
    regnum (alias_arg (r_consts r) t) = Some nt /\ regnum (alias_arg (r_consts r) rd) = Some nrd /\
    chain_get (r_consts r) (r_labels r) L = Some q /\
    forall s, loaded s (bs1 ++ bs2) -> nt <> 0 ->
      let d := q - chunks_len cpre in
      let target := wrap (pc s + d - 4 + (if lo_window d then 4096 else 0)) in
      exists s', run_n 2 s = Some s' /\ pc s' = target - target mod 2 /\ pc s' <> wrap (pc s + d) /\
        two_regs s s' nt (wrap (pc s + relocate_hi d * 4096)) nrd (wrap (pc s + 8)).
Proof.
  intros H. apply pair_anywhere_U_I in H. destruct H as (cpre & bs1 & bs2 & cpost & Hc & E).
  destruct (auipc_jalr_same_label _ _ _ _ _ _ _ _ _ _ E) as (nt & nt' & nrd & q & Ht & Ht' & Hrd & Hq & Run).
  rewrite Ht in Ht'. apply Some_inj in Ht'. subst nt'.
  exists cpre, bs1, bs2, cpost, nt, nrd, q. repeat (split; [assumption|]). intros s Ld Hnz. exact (Run s Ld eq_refl Hnz).
Qed.
Theorem auipc_jalr_anywhere pre post l1 l2 t rd L1 L2 c0 l0 r :
  assemble_items (pre ++ [(l1, mkU "auipc" t (EHi (EOff L1))); (l2, mkI "jalr" rd t (ELo (EOff L2)) false)] ++ post) c0 l0 false = Done r ->
  exists cpre bs1 bs2 cpost nt nrd q1 q2,
    r_chunks r = cpre ++ [(l1, CBytes bs1); (l2, CBytes bs2)] ++ cpost /\
    regnum (alias_arg (r_consts r) t) = Some nt /\ regnum (alias_arg (r_consts r) rd) = Some nrd /\
    chain_get (r_consts r) (r_labels r) L1 = Some q1 /\ chain_get (r_consts r) (r_labels r) L2 = Some q2 /\
    forall s, loaded s (bs1 ++ bs2) -> nt <> 0 ->
      let p := chunks_len cpre in
      let target := wrap (pc s + (q1 - p) + (relocate_lo (q2 - (p + 4)) - relocate_lo (q1 - p))) in
      exists s', run_n 2 s = Some s' /\ pc s' = target - target mod 2 /\
        two_regs s s' nt (wrap (pc s + relocate_hi (q1 - p) * 4096)) nrd (wrap (pc s + 8)).
Proof.
  intros H. apply pair_anywhere_U_I in H. destruct H as (cpre & bs1 & bs2 & cpost & Hc & E).
  destruct (auipc_jalr_labels _ _ _ _ _ _ _ _ _ _ _ E) as (nt & nt' & nrd & q1 & q2 & Ht & Ht' & Hrd & Hq1 & Hq2 & Run).
  rewrite Ht in Ht'. apply Some_inj in Ht'. subst nt'.
  exists cpre, bs1, bs2, cpost, nt, nrd, q1, q2. repeat (split; [assumption|]). intros s Ld Hnz. exact (Run s Ld eq_refl Hnz).
Qed.
