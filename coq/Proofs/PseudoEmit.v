(* From the items a pseudo-instruction expands to (Model/Passes.v: expand_pseudo) to bytes and to the decoded
   instruction: the model's own resolve_immediates / resolve_instructions / resolve_blobs on the emitted items,
   the generated encoders through the C01 theorem (decode32 (encode ...) = the named instruction), operands read
   through Spec/Operands.v. *)
From Coq Require Import ZArith List Bool Lia String.
From BB Require Import Base.Bits Base.PyBase Gen.Encoders Gen.Criteria Spec.RV32 Spec.RVC Spec.Operands Spec.Sem
  Model.Items Model.Encode Model.Passes Proofs.Regs Proofs.C01Main Proofs.Reloc Proofs.SemLemmas.
Import ListNotations.
Open Scope Z_scope.
Open Scope list_scope.

(* the bytes the model's last passes produce for the items [its] that one source line expanded to, when the
   first of them sits at position pos (final constants and labels) *)
Definition chunk_bytes (c : line * chunk) : list Z := match snd c with CBytes bs => bs | _ => [] end.
Definition emit_bytes (l : line) (consts labels : envt) (pos : Z) (its : list item) : outcome (list Z) :=
  its1 <<- resolve_immediates (map (fun x => (l, x)) its) pos consts labels [] ;;;
  its2 <<- resolve_instructions its1 [] ;;;
  chunks <<- resolve_blobs its2 ;;;
  Done (flat_map chunk_bytes chunks).

Definition back_of (fs : list (string * fval)) : Z :=
  match field_get "is_auipc_jump" fs with Some (FBool true) => 4 | _ => 0 end.

(* (injection on these pairs normalises the documented functions and does not come back) *)
Lemma pair_inv {A B} (a c : A) (b d : B) : (a, b) = (c, d) -> a = c /\ b = d.
Proof. intros H. split; [exact (f_equal fst H)|exact (f_equal snd H)]. Qed.
Lemma Done_inj {A} (a b : A) : Done a = Done b -> a = b.
Proof. congruence. Qed.

Lemma le_bytes4 w : le_bytes 4 w = word_bytes w.
Proof. reflexivity. Qed.

Lemma encode_item_plain l cls name fs bs :
  is_atomic_cls cls = false -> encode_item l cls name fs false = Done bs ->
  exists w, encode name (args_of fs) [] = Ok w /\ bs = word_bytes w.
Proof.
  intros Ha H. unfold encode_item in H. rewrite Ha in H.
  destruct (encode name (args_of fs) []) as [w|e]; [|destruct e; discriminate].
  apply Done_inj in H. exists w. split; [reflexivity|]. rewrite <- H. reflexivity.
Qed.

(* one emitted instruction with an immediate expression *)
Lemma emit_one_imm l consts labels pos cls name fs e bs :
  field_get "imm" fs = Some (FExpr e) -> is_atomic_cls cls = false ->
  emit_bytes l consts labels pos [IInstr cls name fs false] = Done bs ->
  exists v w, eval_here l (pos - back_of fs) consts labels e = Done v /\
              encode name (args_of (field_set "imm" (FInt v) fs)) [] = Ok w /\ bs = word_bytes w.
Proof.
  intros Hf Ha H. unfold emit_bytes in H. cbn [map resolve_immediates] in H. rewrite Hf in H.
  fold (back_of fs) in H. cbn [imm_of] in H.
  destruct (eval_here l (pos - back_of fs) consts labels e) as [v|?|] eqn:Ev; cbn [obind] in H; try discriminate.
  cbn [resolve_immediates rev app resolve_instructions] in H.
  destruct (encode_item l cls name (field_set "imm" (FInt v) fs) false) as [b|?|] eqn:Ee; cbn [obind] in H; try discriminate.
  cbn [resolve_instructions rev app resolve_blobs obind flat_map chunk_bytes snd] in H.
  apply Done_inj in H. rewrite app_nil_r in H. subst b.
  destruct (encode_item_plain _ _ _ _ _ Ha Ee) as (w & Hw & Hb).
  exists v, w. auto.
Qed.

(* one emitted instruction without an immediate field *)
Lemma emit_one_noimm l consts labels pos cls name fs bs :
  field_get "imm" fs = None -> is_atomic_cls cls = false ->
  emit_bytes l consts labels pos [IInstr cls name fs false] = Done bs ->
  exists w, encode name (args_of fs) [] = Ok w /\ bs = word_bytes w.
Proof.
  intros Hf Ha H. unfold emit_bytes in H. cbn [map resolve_immediates] in H. rewrite Hf in H.
  cbn [resolve_immediates rev app obind resolve_instructions] in H.
  destruct (encode_item l cls name fs false) as [b|?|] eqn:Ee; cbn [obind] in H; try discriminate.
  cbn [resolve_instructions rev app resolve_blobs obind flat_map chunk_bytes snd] in H.
  apply Done_inj in H. rewrite app_nil_r in H. subst b.
  exact (encode_item_plain _ _ _ _ _ Ha Ee).
Qed.

(* two emitted instructions, both with immediates (lui + addi, auipc + jalr) *)
Lemma emit_two_imm l consts labels pos c1 n1 fs1 e1 c2 n2 fs2 e2 bs :
  field_get "imm" fs1 = Some (FExpr e1) -> is_atomic_cls c1 = false ->
  field_get "imm" fs2 = Some (FExpr e2) -> is_atomic_cls c2 = false ->
  emit_bytes l consts labels pos [IInstr c1 n1 fs1 false; IInstr c2 n2 fs2 false] = Done bs ->
  exists v1 w1 v2 w2,
    eval_here l (pos - back_of fs1) consts labels e1 = Done v1 /\
    encode n1 (args_of (field_set "imm" (FInt v1) fs1)) [] = Ok w1 /\
    eval_here l (pos + 4 - back_of fs2) consts labels e2 = Done v2 /\
    encode n2 (args_of (field_set "imm" (FInt v2) fs2)) [] = Ok w2 /\
    bs = word_bytes w1 ++ word_bytes w2.
Proof.
  intros Hf1 Ha1 Hf2 Ha2 H. unfold emit_bytes in H. cbn [map resolve_immediates] in H. rewrite Hf1 in H.
  fold (back_of fs1) in H. cbn [imm_of] in H.
  destruct (eval_here l (pos - back_of fs1) consts labels e1) as [v1|?|] eqn:Ev1; cbn [obind] in H; try discriminate.
  cbn [resolve_immediates] in H. rewrite Hf2 in H. fold (back_of fs2) in H. cbn [imm_of] in H.
  destruct (eval_here l (pos + 4 - back_of fs2) consts labels e2) as [v2|?|] eqn:Ev2; cbn [obind] in H; try discriminate.
  cbn [resolve_immediates rev app resolve_instructions] in H.
  destruct (encode_item l c1 n1 (field_set "imm" (FInt v1) fs1) false) as [b1|?|] eqn:Ee1; cbn [obind] in H; try discriminate.
  cbn [resolve_instructions] in H.
  destruct (encode_item l c2 n2 (field_set "imm" (FInt v2) fs2) false) as [b2|?|] eqn:Ee2; cbn [obind] in H; try discriminate.
  cbn [resolve_instructions rev app resolve_blobs obind flat_map chunk_bytes snd] in H.
  apply Done_inj in H. rewrite app_nil_r in H.
  destruct (encode_item_plain _ _ _ _ _ Ha1 Ee1) as (w1 & Hw1 & Hb1).
  destruct (encode_item_plain _ _ _ _ _ Ha2 Ee2) as (w2 & Hw2 & Hb2).
  exists v1, w1, v2, w2. subst. auto 6.
Qed.

(* ---- evaluation of the immediates the expansions carry ---------------------------------------------------- *)
Lemma eval_lit l pos consts labels z v : eval_here l pos consts labels (EArith (ANum z)) = Done v -> v = z.
Proof. cbn. intros H. apply Done_inj in H. auto. Qed.
Lemma eval_neg1 l pos consts labels v :
  eval_here l pos consts labels (EArith (AUn UNeg (ANum 1))) = Done v -> v = -1.
Proof. cbn. intros H. apply Done_inj in H. auto. Qed.
Lemma eval_off l pos consts labels ref v :
  eval_here l pos consts labels (EOff ref) = Done v -> exists dest, chain_get consts labels ref = Some dest /\ v = dest - pos.
Proof.
  unfold eval_here. cbn [eeval]. destruct (chain_get consts labels ref) as [d|]; cbn [of_pres]; [|discriminate].
  intros H. apply Done_inj in H. exists d. auto.
Qed.
Lemma eval_hi l pos consts labels e v :
  eval_here l pos consts labels (EHi e) = Done v -> exists u, eval_here l pos consts labels e = Done u /\ v = relocate_hi u.
Proof.
  unfold eval_here. cbn [eeval].
  destruct (eeval relocate_hi relocate_lo l (Some pos) _ (chain_get consts labels) e) as [u|]; cbn [pbind of_pres]; [|discriminate].
  intros H. apply Done_inj in H. exists u. auto.
Qed.
Lemma eval_lo l pos consts labels e v :
  eval_here l pos consts labels (ELo e) = Done v -> exists u, eval_here l pos consts labels e = Done u /\ v = relocate_lo u.
Proof.
  unfold eval_here. cbn [eeval].
  destruct (eeval relocate_hi relocate_lo l (Some pos) _ (chain_get consts labels) e) as [u|]; cbn [pbind of_pres]; [|discriminate].
  intros H. apply Done_inj in H. exists u. auto.
Qed.

(* an operand that evaluates against the constants alone and does not use %offset has the same value at every
   position and under every label table (this is what makes the one-instruction form of li final) *)
Lemma aeval_mono (g1 g2 : string -> option Z) a v :
  (forall k x, g1 k = Some x -> g2 k = Some x) -> aeval g1 a = Some v -> aeval g2 a = Some v.
Proof.
  intros Hg. revert v. induction a; intros v H; cbn [aeval] in *; auto.
  - destruct (aeval g1 a1) as [u1|]; [|discriminate]. destruct (aeval g1 a2) as [u2|]; [|discriminate].
    rewrite (IHa1 _ eq_refl), (IHa2 _ eq_refl). exact H.
  - destruct (aeval g1 a) as [u|]; [|discriminate]. rewrite (IHa _ eq_refl). exact H.
Qed.
Lemma stable_eval l pos consts e v :
  eval_consts l pos consts e = POk v -> is_position_relative e = false ->
  forall pos' labels', eval_here l pos' consts labels' e = Done v.
Proof.
  intros H Hf pos' labels'. unfold eval_here, eval_consts in *.
  assert (Hg: forall k x, assoc_str k consts = Some x -> chain_get consts labels' k = Some x).
  { intros k x Hk. unfold chain_get. rewrite Hk. reflexivity. }
  match goal with |- of_pres ?t = _ => assert (G: t = POk v); [|rewrite G; reflexivity] end.
  revert v H. induction e; intros v H; cbn [eeval is_position_relative] in *; try discriminate.
  - destruct (aeval (fun k => assoc_str k consts) a) as [u|] eqn:E; [|discriminate].
    rewrite (aeval_mono _ _ _ _ Hg E). exact H.
  - destruct (assoc_str ref consts) as [d|] eqn:Ed; [|discriminate].
    rewrite (Hg _ _ Ed).
    destruct (eeval relocate_hi relocate_lo l (Some pos) _ _ e) as [u|] eqn:Eu; cbn [pbind] in H; [|discriminate].
    rewrite (IHe Hf _ eq_refl). exact H.
  - destruct (eeval relocate_hi relocate_lo l (Some pos) _ _ e) as [u|] eqn:Eu; cbn [pbind] in H; [|discriminate].
    rewrite (IHe Hf _ eq_refl). exact H.
  - destruct (eeval relocate_hi relocate_lo l (Some pos) _ _ e) as [u|] eqn:Eu; cbn [pbind] in H; [|discriminate].
    rewrite (IHe Hf _ eq_refl). exact H.
Qed.

(* ---- from an accepted operand tuple to the decoded instruction (C01) ----------------------------------------- *)
Lemma in_base name : mem_str name base_mnemonics = true -> In name base_mnemonics.
Proof.
  unfold mem_str. intros H. apply existsb_exists in H. destruct H as (x & Hx & He).
  apply String.eqb_eq in He. subst. exact Hx.
Qed.

Lemma enc_rri name mk :
  mem_str name base_mnemonics = true -> sassoc name kinds32 = Some ([KReg; KReg; KImm], false) ->
  (forall x y v, denote32 name [x; y; v] = Some (mk x y v)) ->
  forall a b v w, encode name [a; b; AInt v] [] = Ok w ->
  exists x y, regnum a = Some x /\ regnum b = Some y /\ decode32 w = Some (mk x y v).
Proof.
  intros Hin Hk Hd a b v w He.
  destruct (decode_encode _ _ _ _ (in_base _ Hin) He) as (_ & ops & i & Ho & Hi & Hw).
  unfold operands32 in Ho. rewrite Hk in Ho. cbn [read_ops read_op] in Ho.
  destruct (regnum a) as [x|]; [|discriminate]. destruct (regnum b) as [y|]; [|discriminate].
  apply Some_inj in Ho. subst ops. rewrite Hd in Hi. exists x, y. repeat split; congruence.
Qed.
Lemma enc_rrr name mk :
  mem_str name base_mnemonics = true -> sassoc name kinds32 = Some ([KReg; KReg; KReg], false) ->
  (forall x y z, denote32 name [x; y; z] = Some (mk x y z)) ->
  forall a b c w, encode name [a; b; c] [] = Ok w ->
  exists x y z, regnum a = Some x /\ regnum b = Some y /\ regnum c = Some z /\ decode32 w = Some (mk x y z).
Proof.
  intros Hin Hk Hd a b c w He.
  destruct (decode_encode _ _ _ _ (in_base _ Hin) He) as (_ & ops & i & Ho & Hi & Hw).
  unfold operands32 in Ho. rewrite Hk in Ho. cbn [read_ops read_op] in Ho.
  destruct (regnum a) as [x|]; [|discriminate]. destruct (regnum b) as [y|]; [|discriminate].
  destruct (regnum c) as [z|]; [|discriminate].
  apply Some_inj in Ho. subst ops. rewrite Hd in Hi. exists x, y, z. repeat split; congruence.
Qed.
Lemma enc_ri name mk :
  mem_str name base_mnemonics = true -> sassoc name kinds32 = Some ([KReg; KImm], false) ->
  (forall x v, denote32 name [x; v] = Some (mk x v)) ->
  forall a v w, encode name [a; AInt v] [] = Ok w ->
  exists x, regnum a = Some x /\ decode32 w = Some (mk x v).
Proof.
  intros Hin Hk Hd a v w He.
  destruct (decode_encode _ _ _ _ (in_base _ Hin) He) as (_ & ops & i & Ho & Hi & Hw).
  unfold operands32 in Ho. rewrite Hk in Ho. cbn [read_ops read_op] in Ho.
  destruct (regnum a) as [x|]; [|discriminate].
  apply Some_inj in Ho. subst ops. rewrite Hd in Hi. exists x. repeat split; congruence.
Qed.
Lemma enc_ru name mk :
  mem_str name base_mnemonics = true -> sassoc name kinds32 = Some ([KReg; KUpper], false) ->
  (forall x v, denote32 name [x; v] = Some (mk x v)) ->
  forall a v w, encode name [a; AInt v] [] = Ok w ->
  exists x, regnum a = Some x /\ decode32 w = Some (mk x (upper_norm v)).
Proof.
  intros Hin Hk Hd a v w He.
  destruct (decode_encode _ _ _ _ (in_base _ Hin) He) as (_ & ops & i & Ho & Hi & Hw).
  unfold operands32 in Ho. rewrite Hk in Ho. cbn [read_ops read_op] in Ho.
  destruct (regnum a) as [x|]; [|discriminate].
  apply Some_inj in Ho. subst ops. rewrite Hd in Hi. exists x. repeat split; congruence.
Qed.
Lemma upper_norm_hi v : upper_norm (relocate_hi v) = relocate_hi v.
Proof.
  unfold upper_norm. pose proof (hi_range v) as H.
  destruct (524288 <=? relocate_hi v) eqn:E; [apply Z.leb_le in E; lia|reflexivity].
Qed.

(* the registers the expansions name themselves *)
Lemma regnum_x0 : regnum (AStr "x0") = Some 0. Proof. reflexivity. Qed.
Lemma regnum_x1 : regnum (AStr "x1") = Some 1. Proof. reflexivity. Qed.
Lemma regnum_x6 : regnum (AStr "x6") = Some 6. Proof. reflexivity. Qed.

(* ---- executing the loaded bytes -------------------------------------------------------------------------------- *)
Lemma run1 s w i s' : loaded s (word_bytes w) -> decode32 w = Some i -> step i 4 s = Some s' -> run_n 1 s = Some s'.
Proof. intros L D S. cbn [run_n]. rewrite (fetch_word _ _ _ L D), S. reflexivity. Qed.
Lemma run2 s w1 w2 i1 i2 s1 s2 :
  loaded s (word_bytes w1 ++ word_bytes w2) -> decode32 w1 = Some i1 -> decode32 w2 = Some i2 ->
  step i1 4 s = Some s1 -> pc s1 = wrap (pc s + 4) -> mem s1 = mem s -> step i2 4 s1 = Some s2 ->
  run_n 1 s = Some s1 /\ run_n 2 s = Some s2.
Proof.
  intros L D1 D2 S1 P M S2.
  assert (L1: loaded s (word_bytes w1)) by (eapply loaded_app_l; eauto).
  assert (L2: loaded s1 (word_bytes w2)) by (eapply loaded_app_r; eauto).
  split; [eapply run1; eauto|].
  cbn [run_n]. rewrite (fetch_word _ _ _ L1 D1), S1, (fetch_word _ _ _ L2 D2), S2. reflexivity.
Qed.
