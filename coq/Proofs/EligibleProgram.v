(* C20, first half, WHOLE PROGRAM on the pass model assemble_items with compression on: every 32-bit instruction item whose
   immediate is settled and that is the expansion of a legal non-hint RV32C instruction comes out as ONE chunk of two bytes,
   the halfword of a compressed instruction with the same expansion.
   The item is followed through the sixteen passes: the list is split at the item (pre ++ x :: post) and every pass maps
   the three parts separately (grouped / pgrouped of Proofs/Layout.v); what happens to x is Proofs/EligibleItem.v. *)
From Coq Require Import ZArith List Bool Lia String.
From BB Require Import Base.Bits Base.PyBase Gen.Encoders Gen.Criteria Spec.RV32 Spec.RVC Spec.Operands Spec.Legal
  Model.Items Model.Encode Model.Passes Model.Parser Proofs.Layout Proofs.LayoutInst Proofs.Pipeline Proofs.Monotone
  Proofs.Rules Proofs.RuleStep Proofs.Examples Proofs.EligibleSweep Proofs.EligibleItem.
Import ListNotations.
Open Scope string_scope.
Open Scope list_scope.
Open Scope Z_scope.

(* ---- splitting a grouped list at one item ----------------------------------------------------------------------------------- *)
Lemma grouped_mid (R : litem -> list litem -> Prop) pre x post c :
  grouped R (pre ++ x :: post) c ->
  exists c1 g c3, c = c1 ++ g ++ c3 /\ grouped R pre c1 /\ R x g /\ grouped R post c3.
Proof.
  intros G. destruct (grouped_split _ _ _ _ G) as (c1 & c2 & -> & G1 & G2).
  inversion G2 as [|? ? g c3 Hx G3]; subst. exists c1, g, c3. auto.
Qed.

Definition linekeep (R : litem -> list litem -> Prop) : Prop := forall x g, R x g -> Forall (fun y => fst y = fst x) g.
Lemma grouped_lines R a b : linekeep R -> grouped R a b -> incl (map fst b) (map fst a).
Proof.
  intros HR G. induction G as [|x a g b' Hx _ IH]; [intros y []|].
  rewrite map_app. intros y Hy. apply in_app_or in Hy. destruct Hy as [Hy|Hy].
  - left. apply in_map_iff in Hy. destruct Hy as (z & <- & Hz). specialize (HR _ _ Hx). rewrite Forall_forall in HR.
    symmetry. apply HR. exact Hz.
  - right. apply IH. exact Hy.
Qed.

(* ---- the position-free relations of the five size-changing stages ------------------------------------------------------------- *)
Definition Gc (consts : envt) (x : litem) (g : list litem) : Prop := exists p, pass_group (compress_rule consts) p x g.
Definition Gp (consts : envt) (x : litem) (g : list litem) : Prop := exists p, pass_group (pseudo_rule consts) p x g.
Definition Gal (x : litem) (g : list litem) : Prop := exists p, pass_group align_rule p x g.
Definition alias1 (consts : envt) (li : litem) : litem :=
  match li with (l, IInstr cls name fs c) => (l, IInstr cls name (map (alias_field consts) fs) c) | _ => li end.
Definition Ga (consts : envt) (x : litem) (g : list litem) : Prop := g = [alias1 consts x].

Lemma pass_group_lines rule p x g : pass_group rule p x g -> Forall (fun y => fst y = fst x) g.
Proof.
  unfold pass_group. destruct (is_label (snd x)).
  - intros ->. repeat constructor.
  - intros (ls0 & rs & _ & ->). clear. induction rs; cbn [map]; constructor; auto.
Qed.
Lemma Gc_lines consts : linekeep (Gc consts). Proof. intros x g [p H]. eapply pass_group_lines; eauto. Qed.
Lemma Gp_lines consts : linekeep (Gp consts). Proof. intros x g [p H]. eapply pass_group_lines; eauto. Qed.
Lemma Gal_lines : linekeep Gal. Proof. intros x g [p H]. eapply pass_group_lines; eauto. Qed.
Lemma Ga_lines consts : linekeep (Ga consts).
Proof. intros [l it] g ->. constructor; [|constructor]. destruct it; reflexivity. Qed.

Lemma gpass_G rule its ls o ls' : gpass rule its 0 ls [] = Done (o, ls') -> grouped (fun x g => exists p, pass_group rule p x g) its o.
Proof. intros H. eapply pgrouped_grouped; [|eapply gpass_groups; exact H]. intros p x g Hg. exists p. exact Hg. Qed.
Lemma aliases_G its consts : grouped (Ga consts) its (resolve_register_aliases its consts).
Proof.
  unfold resolve_register_aliases. induction its as [|[l it] r IH]; cbn [map]; [constructor|].
  match goal with |- grouped _ _ (?y :: ?t) => change (y :: t) with ([y] ++ t) end.
  constructor; [|exact IH]. unfold Ga. destruct it; reflexivity.
Qed.

(* ---- the 1:1 tail of the pipeline ------------------------------------------------------------------------------------------------- *)
Lemma total_cons (x : litem) a : total (x :: a) = isz (snd x) + total a.
Proof. reflexivity. Qed.
Lemma pF2_mid (R : Z -> litem -> litem -> Prop) a1 : forall p x a3 d,
  pF2 R p (a1 ++ x :: a3) d ->
  exists d1 y d3, d = d1 ++ y :: d3 /\ pF2 R p a1 d1 /\ R (p + total a1) x y /\ pF2 R (p + total a1 + isz (snd x)) a3 d3.
Proof.
  induction a1 as [|z a1 IH]; intros p x a3 d H.
  - destruct d as [|y d3]; cbn [app pF2] in H; [contradiction|]. destruct H as [Hxy H3].
    exists [], y, d3. change (total []) with 0. rewrite Z.add_0_r. cbn [pF2 app]. auto.
  - destruct d as [|y d]; cbn [app pF2] in H; [contradiction|]. destruct H as [Hzy H].
    destruct (IH _ _ _ _ H) as (d1 & y' & d3 & -> & P1 & Hxy & P3).
    exists (y :: d1), y', d3. rewrite total_cons. rewrite Z.add_assoc. cbn [pF2 app]. auto.
Qed.
Lemma pF2_Rval_lines consts labels a : forall p d, pF2 (Rval consts labels) p a d -> map fst d = map fst a.
Proof.
  induction a as [|x a IH]; intros p d H; destruct d as [|y d]; cbn [pF2] in H; try contradiction; [reflexivity|].
  destruct H as [[Hl _] H]. cbn [map]. rewrite <- Hl, (IH _ _ H). reflexivity.
Qed.
Lemma blobbed_mid f1 : forall l bs f3 cs, blobbed (f1 ++ (l, IBlob bs) :: f3) cs ->
  exists cs1 cs3, cs = cs1 ++ (l, CBytes bs) :: cs3 /\ blobbed f1 cs1 /\ blobbed f3 cs3.
Proof.
  induction f1 as [|x f1 IH]; intros l bs f3 cs H.
  - cbn [app] in H. inversion H as [| |? ? ch ? cs3 Hc _ H3]; subst. cbn in Hc. injection Hc as <-.
    exists [], cs3. repeat split; auto. constructor.
  - cbn [app] in H. inversion H as [|? n ? ? H'|? it ch ? cs' Hc Hl H']; subst.
    + destruct (IH _ _ _ _ H') as (cs1 & cs3 & -> & B1 & B3). exists cs1, cs3. repeat split; auto. constructor. exact B1.
    + destruct (IH _ _ _ _ H') as (cs1 & cs3 & -> & B1 & B3). exists ((l0, ch) :: cs1), cs3. repeat split; auto.
      econstructor; eauto.
Qed.
Lemma blobbed_lines f cs : blobbed f cs -> incl (map fst cs) (map fst f).
Proof.
  induction 1 as [|l n r cs _ IH|l it ch r cs _ _ _ IH]; cbn [map].
  - intros y [].
  - intros y Hy. right. apply IH. exact Hy.
  - intros y [<-|Hy]; [left; reflexivity|right; apply IH; exact Hy].
Qed.

(* ---- the stages of one run with compression on -------------------------------------------------------------------------------------- *)
Lemma assemble_trace its c0 l0 r :
  assemble_items its c0 l0 true = Done r ->
  exists i3 i4 i6 al fin,
    grouped (Gc (r_consts r)) (resolve_register_aliases (filter not_const its) (r_consts r)) i3 /\
    grouped (Gp (r_consts r)) i3 i4 /\
    grouped (Gc (r_consts r)) (resolve_register_aliases i4 (r_consts r)) i6 /\
    grouped Gal i6 al /\
    pF2 (Rval (r_consts r) (r_labels r)) 0 al fin /\
    blobbed fin (r_chunks r).
Proof.
  unfold assemble_items. intros H.
  destruct (resolve_constants_lr its c0 []) as [[its1 consts]| |] eqn:E1; cbn [obind] in H; try discriminate.
  pose proof (resolve_constants_filter _ _ _ _ _ E1) as F1. cbn [rev app] in F1. subst its1.
  destruct (resolve_labels (filter not_const its) 0 l0) as [labels| |] eqn:E2; cbn [obind] in H; try discriminate.
  destruct (transform_compressible (resolve_register_aliases (filter not_const its) consts) consts labels) as [[i3 lab3]| |] eqn:E3;
    cbn [obind] in H; try discriminate.
  destruct (transform_pseudo i3 consts lab3) as [[i4 lab4]| |] eqn:E4; cbn [obind] in H; try discriminate.
  destruct (transform_compressible (resolve_register_aliases i4 consts) consts lab4) as [[i6 lab6]| |] eqn:E6;
    cbn [obind] in H; try discriminate.
  destruct (resolve_aligns i6 lab6) as [[i7 lab7]| |] eqn:E7; cbn [obind] in H; try discriminate.
  destruct (resolve_immediates i7 0 consts lab7 []) as [i8| |] eqn:E8; cbn [obind] in H; try discriminate.
  destruct (resolve_immediates_spec _ _ _ _ _ _ E8) as (o8 & Q8 & V8). cbn [rev app] in Q8. subst o8.
  destruct (resolve_instructions i8 []) as [i9| |] eqn:E9; cbn [obind] in H; try discriminate.
  destruct (resolve_instructions_same _ _ _ E9) as (o9 & Q9 & S9). cbn [rev app] in Q9. subst o9.
  destruct (resolve_instructions_spec _ _ _ E9) as (o9 & Q9 & V9). cbn [rev app] in Q9. subst o9.
  pose proof (resolve_strings_same i9) as S10. set (i10 := resolve_strings i9) in *.
  destruct (resolve_sequences i10 []) as [i11| |] eqn:E11; cbn [obind] in H; try discriminate.
  destruct (resolve_sequences_same _ _ _ E11) as (o11 & Q11 & S11). cbn [rev app] in Q11. subst o11.
  destruct (transform_shorthand i11 []) as [i12| |] eqn:E12; cbn [obind] in H; try discriminate.
  destruct (transform_shorthand_same _ _ _ E12) as (o12 & Q12 & S12). cbn [rev app] in Q12. subst o12.
  destruct (resolve_packs i12 []) as [i13| |] eqn:E13; cbn [obind] in H; try discriminate.
  destruct (resolve_packs_same _ _ _ E13) as (o13 & Q13 & S13). cbn [rev app] in Q13. subst o13.
  destruct (resolve_include_bytes i13 []) as [i14| |] eqn:E14; cbn [obind] in H; try discriminate.
  destruct (resolve_include_bytes_same _ _ _ E14) as (o14 & Q14 & S14). cbn [rev app] in Q14. subst o14.
  destruct (resolve_blobs i14) as [chunks| |] eqn:E15; cbn [obind] in H; try discriminate.
  injection H as <-. cbn [r_consts r_labels r_chunks].
  exists i3, i4, i6, i7, i14.
  split. { exact (gpass_G _ _ _ _ _ E3). }
  split. { exact (gpass_G _ _ _ _ _ E4). }
  split. { exact (gpass_G _ _ _ _ _ E6). }
  split. { exact (gpass_G _ _ _ _ _ E7). }
  split.
  { eapply compose_vals; [exact V8|exact V9|].
    repeat (eapply Forall2_same1_trans; [eassumption|]). apply Forall2_same1_refl. }
  apply resolve_blobs_blobbed. exact E15.
Qed.

(* ---- what the stages do with the item ------------------------------------------------------------------------------------------------ *)
Lemma Gp_instr consts l cls name fs c g : Gp consts (l, IInstr cls name fs c) g -> g = [(l, IInstr cls name fs c)].
Proof. intros (p & ls0 & rs & Hr & ->). cbn in Hr. injection Hr as <-. reflexivity. Qed.
Lemma Gal_instr l cls name fs c g : Gal (l, IInstr cls name fs c) g -> g = [(l, IInstr cls name fs c)].
Proof. intros (p & ls0 & rs & Hr & ->). cbn in Hr. injection Hr as <-. reflexivity. Qed.
Lemma Gc_norule consts l cls name fs c g : rules_named name = [] -> Gc consts (l, IInstr cls name fs c) g -> g = [(l, IInstr cls name fs c)].
Proof. intros Hn (p & ls0 & rs & Hr & ->). cbn [fst snd] in Hr. apply (norule_any _ _ _ _ _ _ _ _ _ Hn) in Hr. subst rs. reflexivity. Qed.
Lemma Gc_eligible consts l cls name fs c g :
  class_of_name name = Some cls -> std_fields cls fs -> regs_resolved consts fs -> settled_operands consts l fs ->
  eligible_as consts l name fs c -> Gc consts (l, IInstr cls name fs false) g ->
  exists cls' final nfs, g = [(l, IInstr cls' final nfs true)] /\ emitted_as consts l c cls' final nfs.
Proof.
  intros H1 H2 H3 H4 H5 (p & ls0 & rs & Hr & ->). cbn [fst snd] in Hr.
  destruct (eligible_item _ _ _ _ _ _ _ _ _ H1 H2 H3 H4 H5 Hr) as (cls' & final & nfs & -> & He).
  exists cls', final, nfs. split; [reflexivity|exact He].
Qed.

Lemma resolved_map consts fs : regs_resolved consts fs -> map (alias_field consts) fs = fs.
Proof.
  induction fs as [|[k v] fs IH]; intros H; [reflexivity|]. cbn [map]. rewrite IH.
  - f_equal. destruct v as [a|e|z|b]; try reflexivity. apply alias_field_reg. apply (H k). left. reflexivity.
  - intros k' a Hin. apply (H k'). right. exact Hin.
Qed.
Lemma filter_lines (f : litem -> bool) a : incl (map fst (filter f a)) (map fst a).
Proof. intros y Hy. apply in_map_iff in Hy. destruct Hy as (z & <- & Hz). apply filter_In in Hz. apply in_map. tauto. Qed.
Lemma aliases_app a x b consts :
  resolve_register_aliases (a ++ x :: b) consts = resolve_register_aliases a consts ++ alias1 consts x :: resolve_register_aliases b consts.
Proof. unfold resolve_register_aliases. rewrite map_app. cbn [map]. destruct x as [l it]. destruct it; reflexivity. Qed.
Lemma aliases_lines a consts : map fst (resolve_register_aliases a consts) = map fst a.
Proof. unfold resolve_register_aliases. rewrite map_map. apply map_ext. intros [l it]. destruct it; reflexivity. Qed.

(* ---- a compressed item in front of the alignment pass: alignment, immediates, encoders, data passes, chunks --------------------------- *)
Lemma emit_tail consts labels c l cls' final nfs d1 d3 al fin chunks :
  emitted_as consts l c cls' final nfs ->
  grouped Gal (d1 ++ (l, IInstr cls' final nfs true) :: d3) al ->
  pF2 (Rval consts labels) 0 al fin -> blobbed fin chunks ->
  exists cs1 cs3 h' c',
    chunks = cs1 ++ (l, CBytes (le_bytes 2 h')) :: cs3 /\
    incl (map fst cs1) (map fst d1) /\ incl (map fst cs3) (map fst d3) /\
    0 <= h' < 65536 /\ decode16 h' = Some c' /\ expand_c c' = expand_c c.
Proof.
  intros (Hnr & Hal & Henc) G7 V B.
  destruct (grouped_mid _ _ _ _ _ G7) as (e1 & g & e3 & -> & A1 & Hg & A3).
  apply Gal_instr in Hg. subst g.
  pose proof (grouped_lines _ _ _ Gal_lines A1) as Q1. pose proof (grouped_lines _ _ _ Gal_lines A3) as Q3.
  cbn [app] in V. destruct (pF2_mid _ _ _ _ _ _ V) as (f1 & y & f3 & -> & V1 & Hy & V3).
  pose proof (pF2_Rval_lines _ _ _ _ _ V1) as L1. pose proof (pF2_Rval_lines _ _ _ _ _ V3) as L3.
  destruct y as [ly ity]. destruct Hy as [Hl (fs' & bs & He & Hb & Hi)]. cbn [fst snd] in Hl, He, Hb, Hi. subst ly ity.
  destruct (Henc _ _ _ _ Hi He) as (h' & c' & -> & Hh & Hd & Hx).
  destruct (blobbed_mid _ _ _ _ _ B) as (cs1 & cs3 & Hcs & B1 & B3).
  exists cs1, cs3, h', c'. split; [exact Hcs|].
  split. { eapply incl_tran; [apply (blobbed_lines _ _ B1)|]. rewrite L1. exact Q1. }
  split. { eapply incl_tran; [apply (blobbed_lines _ _ B3)|]. rewrite L3. exact Q3. }
  auto.
Qed.

(* ---- the theorem, by position ---------------------------------------------------------------------------------------------------------- *)
Theorem eligible_is_compressed_at its c0 l0 r pre post l cls name fs c :
  assemble_items its c0 l0 true = Done r ->
  its = pre ++ (l, IInstr cls name fs false) :: post ->
  class_of_name name = Some cls -> std_fields cls fs ->
  settled_operands (r_consts r) l (resolved_fields (r_consts r) fs) ->
  eligible_as (r_consts r) l name (resolved_fields (r_consts r) fs) c ->
  exists cs1 cs3 h' c',
    r_chunks r = cs1 ++ (l, CBytes (le_bytes 2 h')) :: cs3 /\
    incl (map fst cs1) (map fst pre) /\ incl (map fst cs3) (map fst post) /\
    0 <= h' < 65536 /\ decode16 h' = Some c' /\ expand_c c' = expand_c c.
Proof.
  intros Hrun -> Hcls Hstd0 Hset Hel.
  destruct (assemble_trace _ _ _ _ Hrun) as (i3 & i4 & i6 & al & fin & G3 & G4 & G6 & G7 & V & B).
  set (consts := r_consts r) in *.
  rewrite filter_app in G3. cbn [filter not_const snd] in G3. rewrite aliases_app in G3.
  cbn [alias1] in G3. fold (resolved_fields consts fs) in G3.
  destruct (std_resolved consts cls fs Hstd0) as [Hstd Hres].
  (* first compression pass *)
  destruct (grouped_mid _ _ _ _ _ G3) as (a1 & g & a3 & -> & A1 & Hg & A3).
  destruct (Gc_eligible _ _ _ _ _ _ _ Hcls Hstd Hres Hset Hel Hg) as (cls' & final & nfs & -> & (Hnr & Hal & Henc)).
  pose proof (grouped_lines _ _ _ (Gc_lines consts) A1) as L1. pose proof (grouped_lines _ _ _ (Gc_lines consts) A3) as L3.
  rewrite aliases_lines in L1, L3.
  assert (P1 : incl (map fst a1) (map fst pre)) by (eapply incl_tran; [exact L1|apply filter_lines]).
  assert (P3 : incl (map fst a3) (map fst post)) by (eapply incl_tran; [exact L3|apply filter_lines]).
  clear L1 L3 A1 A3 G3 Hg.
  (* pseudo pass *)
  cbn [app] in G4. destruct (grouped_mid _ _ _ _ _ G4) as (b1 & g & b3 & -> & A1 & Hg & A3).
  apply Gp_instr in Hg. subst g.
  pose proof (incl_tran (grouped_lines _ _ _ (Gp_lines consts) A1) P1) as Q1.
  pose proof (incl_tran (grouped_lines _ _ _ (Gp_lines consts) A3) P3) as Q3.
  clear P1 P3 A1 A3 G4.
  (* aliases, second compression pass *)
  cbn [app] in G6. rewrite aliases_app in G6. cbn [alias1] in G6. rewrite Hal in G6.
  destruct (grouped_mid _ _ _ _ _ G6) as (d1 & g & d3 & -> & A1 & Hg & A3).
  apply (Gc_norule _ _ _ _ _ _ _ Hnr) in Hg. subst g.
  pose proof (grouped_lines _ _ _ (Gc_lines consts) A1) as L1. pose proof (grouped_lines _ _ _ (Gc_lines consts) A3) as L3.
  rewrite aliases_lines in L1, L3.
  pose proof (incl_tran L1 Q1) as P1. pose proof (incl_tran L3 Q3) as P3.
  clear L1 L3 Q1 Q3 A1 A3 G6.
  (* alignment, immediates, encoders, data passes, chunks *)
  destruct (emit_tail _ _ _ _ _ _ _ _ _ _ _ _ (conj Hnr (conj Hal Henc)) G7 V B) as (cs1 & cs3 & h' & c' & Hcs & I1 & I3 & Hrest).
  exists cs1, cs3, h', c'. split; [exact Hcs|]. split; [exact (incl_tran I1 P1)|]. split; [exact (incl_tran I3 P3)|exact Hrest].
Qed.

(* ---- instructions that come out of pseudo-instruction expansion: compressed by the SECOND compression pass ------------------------ *)
(* the single 32-bit instruction a pseudo-instruction is rendered as, decided on the constants alone: the one-instruction
   pseudo-instructions (nop mv not neg ... j jal jr jalr ret fence) and li with a settled value in the range of addi *)
Definition pseudo_one (consts : envt) (l : line) (name : string) (args : list string) (pimm : pres expr) : option item :=
  match expand_pseudo l name args pimm with
  | Done (One it) => Some it
  | Done (Choice e None lo hi near _ _) => if li_dec consts l e lo hi then Some near else None
  | _ => None
  end.
Lemma pseudo_one_rule consts l name args pimm it pos labels rs :
  pseudo_one consts l name args pimm = Some it ->
  pseudo_rule consts l (IPseudo name args pimm) pos labels = Done rs -> rs = [it].
Proof.
  unfold pseudo_one. intros Ho Hr. cbv beta iota delta [pseudo_rule] in Hr.
  destruct (expand_pseudo l name args pimm) as [px| |]; try discriminate. cbv beta iota delta [obind] in Hr.
  destruct px as [it'|e target lo hi near f1 f2].
  - injection Ho as <-. injection Hr as <-. reflexivity.
  - destruct target as [t|]; [discriminate|]. destruct (li_dec consts l e lo hi) eqn:Ed; [|discriminate]. injection Ho as <-.
    unfold li_dec in Ed. destruct (is_settled l 0 consts e) as [st| |] eqn:Es; try discriminate. destruct st; [|discriminate].
    destruct (eval_consts l 0 consts e) as [v0|] eqn:Ee; [|discriminate].
    pose proof (settled_eval _ _ _ _ Es Ee pos labels) as Hv. unfold eval_here in Hv. rewrite Hv in Hr. cbv beta iota delta [obind] in Hr.
    rewrite (is_settled_pos l pos 0 consts e), Es in Hr. cbv beta iota delta [obind] in Hr. cbv zeta in Hr.
    cbn [andb] in Hr. rewrite Ed in Hr. injection Hr as <-. reflexivity.
Qed.
Lemma Gc_pseudo consts l name args pimm g : Gc consts (l, IPseudo name args pimm) g -> g = [(l, IPseudo name args pimm)].
Proof. intros (p & ls0 & rs & Hr & ->). cbn in Hr. injection Hr as <-. reflexivity. Qed.

Theorem eligible_expansion_is_compressed_at its c0 l0 r pre post l pname args pimm cls name fs c :
  assemble_items its c0 l0 true = Done r ->
  its = pre ++ (l, IPseudo pname args pimm) :: post ->
  pseudo_one (r_consts r) l pname args pimm = Some (IInstr cls name fs false) ->
  class_of_name name = Some cls -> std_fields cls fs ->
  settled_operands (r_consts r) l (resolved_fields (r_consts r) fs) ->
  eligible_as (r_consts r) l name (resolved_fields (r_consts r) fs) c ->
  exists cs1 cs3 h' c',
    r_chunks r = cs1 ++ (l, CBytes (le_bytes 2 h')) :: cs3 /\
    incl (map fst cs1) (map fst pre) /\ incl (map fst cs3) (map fst post) /\
    0 <= h' < 65536 /\ decode16 h' = Some c' /\ expand_c c' = expand_c c.
Proof.
  intros Hrun -> Hone Hcls Hstd0 Hset Hel.
  destruct (assemble_trace _ _ _ _ Hrun) as (i3 & i4 & i6 & al & fin & G3 & G4 & G6 & G7 & V & B).
  set (consts := r_consts r) in *.
  rewrite filter_app in G3. cbn [filter not_const snd] in G3. rewrite aliases_app in G3. cbn [alias1] in G3.
  destruct (std_resolved consts cls fs Hstd0) as [Hstd Hres].
  (* first compression pass: a pseudo-instruction is not touched *)
  destruct (grouped_mid _ _ _ _ _ G3) as (a1 & g & a3 & -> & A1 & Hg & A3).
  apply Gc_pseudo in Hg. subst g.
  pose proof (grouped_lines _ _ _ (Gc_lines consts) A1) as L1. pose proof (grouped_lines _ _ _ (Gc_lines consts) A3) as L3.
  rewrite aliases_lines in L1, L3.
  assert (P1 : incl (map fst a1) (map fst pre)) by (eapply incl_tran; [exact L1|apply filter_lines]).
  assert (P3 : incl (map fst a3) (map fst post)) by (eapply incl_tran; [exact L3|apply filter_lines]).
  clear L1 L3 A1 A3 G3.
  (* pseudo pass: the one instruction *)
  cbn [app] in G4. destruct (grouped_mid _ _ _ _ _ G4) as (b1 & g & b3 & -> & A1 & Hg & A3).
  destruct Hg as (p & ls0 & rs & Hr & ->). cbn [fst snd] in Hr. apply (pseudo_one_rule _ _ _ _ _ _ _ _ _ Hone) in Hr. subst rs. cbn [map fst app] in G6.
  pose proof (incl_tran (grouped_lines _ _ _ (Gp_lines consts) A1) P1) as Q1.
  pose proof (incl_tran (grouped_lines _ _ _ (Gp_lines consts) A3) P3) as Q3.
  clear P1 P3 A1 A3 G4.
  (* aliases, second compression pass *)
  rewrite aliases_app in G6. cbn [alias1] in G6. fold (resolved_fields consts fs) in G6.
  destruct (grouped_mid _ _ _ _ _ G6) as (d1 & g & d3 & -> & A1 & Hg & A3).
  destruct (Gc_eligible _ _ _ _ _ _ _ Hcls Hstd Hres Hset Hel Hg) as (cls' & final & nfs & -> & Hem).
  pose proof (grouped_lines _ _ _ (Gc_lines consts) A1) as L1. pose proof (grouped_lines _ _ _ (Gc_lines consts) A3) as L3.
  rewrite aliases_lines in L1, L3.
  pose proof (incl_tran L1 Q1) as P1. pose proof (incl_tran L3 Q3) as P3.
  clear L1 L3 Q1 Q3 A1 A3 G6.
  destruct (emit_tail _ _ _ _ _ _ _ _ _ _ _ _ Hem G7 V B) as (cs1 & cs3 & h' & c' & Hcs & I1 & I3 & Hrest).
  exists cs1, cs3, h', c'. split; [exact Hcs|]. split; [exact (incl_tran I1 P1)|]. split; [exact (incl_tran I3 P3)|exact Hrest].
Qed.

(* ---- stated with the chunks of the item's source line (a line that occurs once, as the reader produces) ------------------------------ *)
Definition chunks_of_line (l : line) (cs : list (line * chunk)) : list (line * chunk) := filter (fun lc => line_eqb (fst lc) l) cs.
Definition line_once (l : line) (its : list litem) : Prop := List.length (filter (fun x => line_eqb (fst x) l) its) = 1%nat.

Lemma line_eqb_eq a b : line_eqb a b = true <-> a = b.
Proof.
  destruct a as [f1 n1], b as [f2 n2]. unfold line_eqb. cbn [lfile lnum]. rewrite andb_true_iff, String.eqb_eq, Z.eqb_eq.
  split; [intros [-> ->]; reflexivity|intros H; injection H; auto].
Qed.
Lemma line_eqb_refl a : line_eqb a a = true.
Proof. apply line_eqb_eq. reflexivity. Qed.
Lemma off_line {A} l (a : list (line * A)) : ~ In l (map fst a) -> filter (fun x => line_eqb (fst x) l) a = [].
Proof.
  induction a as [|x a IH]; intros H; [reflexivity|]. cbn [filter map In] in *.
  destruct (line_eqb (fst x) l) eqn:E; [apply line_eqb_eq in E; exfalso; apply H; auto|]. apply IH. intro; apply H; auto.
Qed.
Lemma filter_nil_notin {A} l (a : list (line * A)) : filter (fun x => line_eqb (fst x) l) a = [] -> ~ In l (map fst a).
Proof.
  induction a as [|x a IH]; intros H Hin; [exact Hin|]. cbn [filter map In] in *.
  destruct (line_eqb (fst x) l) eqn:E; [discriminate|]. destruct Hin as [Hin|Hin].
  - subst l. rewrite line_eqb_refl in E. discriminate.
  - exact (IH H Hin).
Qed.
Lemma line_once_split l pre (x : litem) post : fst x = l -> line_once l (pre ++ x :: post) ->
  ~ In l (map fst pre) /\ ~ In l (map fst post).
Proof.
  intros Hx H. unfold line_once in H. rewrite filter_app in H. cbn [filter] in H. rewrite Hx, line_eqb_refl in H.
  rewrite app_length in H. cbn [List.length] in H.
  destruct (filter _ pre) as [|y ys] eqn:E1; [|cbn in H; lia]. destruct (filter _ post) as [|z zs] eqn:E3; [|cbn in H; lia].
  split; apply filter_nil_notin; assumption.
Qed.

Theorem eligible_is_compressed its c0 l0 r l cls name fs c :
  assemble_items its c0 l0 true = Done r ->
  In (l, IInstr cls name fs false) its -> line_once l its ->
  class_of_name name = Some cls -> std_fields cls fs ->
  settled_operands (r_consts r) l (resolved_fields (r_consts r) fs) ->
  eligible_as (r_consts r) l name (resolved_fields (r_consts r) fs) c ->
  exists h' c',
    chunks_of_line l (r_chunks r) = [(l, CBytes (le_bytes 2 h'))] /\
    0 <= h' < 65536 /\ decode16 h' = Some c' /\ expand_c c' = expand_c c.
Proof.
  intros Hrun Hin Honce Hcls Hstd Hset Hel.
  destruct (in_split _ _ Hin) as (pre & post & Hsplit).
  destruct (eligible_is_compressed_at _ _ _ _ _ _ _ _ _ _ _ Hrun Hsplit Hcls Hstd Hset Hel)
    as (cs1 & cs3 & h' & c' & Hcs & I1 & I3 & Hh & Hd & Hx).
  rewrite Hsplit in Honce. destruct (line_once_split l pre (l, IInstr cls name fs false) post eq_refl Honce) as [N1 N3].
  exists h', c'. split; [|auto]. unfold chunks_of_line. rewrite Hcs, filter_app. cbn [filter fst]. rewrite line_eqb_refl.
  rewrite (off_line l cs1), (off_line l cs3); [reflexivity| |]; intro Hc; [apply N3, I3|apply N1, I1]; exact Hc.
Qed.

(* programs without register aliases (no constant is used as a register name): the fields are as written *)
Theorem eligible_is_compressed_plain its c0 l0 r l cls name fs c :
  assemble_items its c0 l0 true = Done r ->
  In (l, IInstr cls name fs false) its -> line_once l its ->
  class_of_name name = Some cls -> std_fields cls fs -> regs_resolved (r_consts r) fs ->
  settled_operands (r_consts r) l fs -> eligible_as (r_consts r) l name fs c ->
  exists h' c',
    chunks_of_line l (r_chunks r) = [(l, CBytes (le_bytes 2 h'))] /\
    0 <= h' < 65536 /\ decode16 h' = Some c' /\ expand_c c' = expand_c c.
Proof.
  intros Hrun Hin Honce Hcls Hstd Hres Hset Hel.
  eapply eligible_is_compressed; eauto; unfold resolved_fields; rewrite (resolved_map _ _ Hres); assumption.
Qed.

(* ---- a concrete program (non-vacuity):  N = 5 / R = 9 / start: / addi x8, x8, N / addi R, R, -3 / addi x8, x9, 100 /
        addi x10, x10, data / align 8 / data: / dw 0x12345678 / string hi / slli x8, x8, 3 -------------------------------------------------- *)
Definition exI (n rd rs1 : string) (e : aexp) : item :=
  IInstr "ITypeInstruction" n [("rd", FReg (AStr rd)); ("rs1", FReg (AStr rs1)); ("imm", FExpr (EArith e)); ("is_auipc_jump", FBool false)] false.
Definition ex20_slli : item :=
  IInstr "RTypeInstruction" "slli" [("rd", FReg (AStr "x8")); ("rs1", FReg (AStr "x8")); ("rs2", FReg (AStr "3")); ("#rs2", FExpr (EArith (ANum 3)))] false.
Definition ex20 : list litem :=
  [(exL 1, IConst "N" (EArith (ANum 5)));
   (exL 2, IConst "R" (EArith (ANum 9)));
   (exL 3, ILabel "start");
   (exL 4, exI "addi" "x8" "x8" (AName "N"));                 (* constant operand: c.addi x8, 5 *)
   (exL 5, exI "addi" "R" "R" (AUn UNeg (ANum 3)));           (* register alias: c.addi x9, -3 *)
   (exL 6, exI "addi" "x8" "x9" (ANum 100));                  (* no RVC form *)
   (exL 7, exI "addi" "x10" "x10" (AName "data"));            (* label dependent: stays 32 bits although data = 16 fits c.addi *)
   (exL 8, IAlign 8);
   (exL 9, ILabel "data");
   (exL 10, IShort "dw" (FExpr (EArith (ANum 305419896))));
   (exL 11, IString [104; 105]);
   (exL 12, ex20_slli)].                                      (* c.slli x8, 3 *)
Definition ex20_consts : envt := [("N", 5); ("R", 9)].

Lemma ex20_runs : exists r, assemble_items ex20 [] [] true = Done r /\ r_consts r = ex20_consts /\
  r_labels r = [("start", 0); ("data", 16)] /\
  map (fun lc => (lnum (fst lc), chunk_len (snd lc))) (r_chunks r) = [(4, 2); (5, 2); (6, 4); (7, 4); (8, 4); (10, 4); (11, 2); (12, 2)].
Proof. eexists. split; [vm_compute; reflexivity|]. repeat split. Qed.

Local Ltac regs_res := let k := fresh in let a := fresh in let H := fresh in
  intros k a H; cbn [In] in H; repeat (destruct H as [H|H]; [try discriminate H; injection H as _ <-; reflexivity|]); contradiction.
Local Ltac elig h v := exists h, v; split; [lia|]; split; [vm_compute; reflexivity|]; split; [left; vm_compute; reflexivity|vm_compute; reflexivity].

Lemma ex20_line4 : forall fs, (exL 4, IInstr "ITypeInstruction" "addi" fs false) = (exL 4, exI "addi" "x8" "x8" (AName "N")) ->
  In (exL 4, IInstr "ITypeInstruction" "addi" fs false) ex20 /\ line_once (exL 4) ex20 /\
  class_of_name "addi" = Some "ITypeInstruction" /\ std_fields "ITypeInstruction" fs /\ regs_resolved ex20_consts fs /\
  settled_operands ex20_consts (exL 4) fs /\ eligible_as ex20_consts (exL 4) "addi" fs (CAddi 8 5).
Proof.
  intros fs H. injection H as ->.
  split. { cbn. auto 10. } split. { reflexivity. } split. { reflexivity. } split. { constructor. }
  split. { regs_res. } split. { reflexivity. }
  elig 1045 {| nv_name := "addi"; nv_rd := 8; nv_rs1 := 8; nv_rs2 := 0; nv_imm := 5 |}.
Qed.
Lemma ex20_line5 : forall fs, (exL 5, IInstr "ITypeInstruction" "addi" fs false) = (exL 5, exI "addi" "R" "R" (AUn UNeg (ANum 3))) ->
  In (exL 5, IInstr "ITypeInstruction" "addi" fs false) ex20 /\ line_once (exL 5) ex20 /\
  class_of_name "addi" = Some "ITypeInstruction" /\ std_fields "ITypeInstruction" fs /\
  settled_operands ex20_consts (exL 5) (resolved_fields ex20_consts fs) /\
  eligible_as ex20_consts (exL 5) "addi" (resolved_fields ex20_consts fs) (CAddi 9 (-3)).
Proof.
  intros fs H. injection H as ->.
  split. { cbn. auto 10. } split. { reflexivity. } split. { reflexivity. } split. { constructor. }
  split. { reflexivity. }
  elig 5365 {| nv_name := "addi"; nv_rd := 9; nv_rs1 := 9; nv_rs2 := 0; nv_imm := -3 |}.
Qed.
Lemma ex20_line12 : forall fs, (exL 12, IInstr "RTypeInstruction" "slli" fs false) = (exL 12, ex20_slli) ->
  In (exL 12, IInstr "RTypeInstruction" "slli" fs false) ex20 /\ line_once (exL 12) ex20 /\
  class_of_name "slli" = Some "RTypeInstruction" /\ std_fields "RTypeInstruction" fs /\ regs_resolved ex20_consts fs /\
  settled_operands ex20_consts (exL 12) fs /\ eligible_as ex20_consts (exL 12) "slli" fs (CSlli 8 3).
Proof.
  intros fs H. injection H as ->.
  split. { cbn. auto 20. } split. { reflexivity. } split. { reflexivity. }
  split. { apply (sf_R _ _ _ [("#rs2", FExpr (EArith (ANum 3)))]). right. eexists. reflexivity. }
  split. { regs_res. } split. { exact I. }
  elig 1038 {| nv_name := "slli"; nv_rd := 8; nv_rs1 := 8; nv_rs2 := 3; nv_imm := 0 |}.
Qed.
(* line 7: the value of the label (16) would fit c.addi, but the operand is not settled -- the instruction stays 32 bits wide *)
Lemma ex20_line7_not_settled :
  is_settled (exL 7) 0 ex20_consts (EArith (AName "data")) = Done false /\
  eval_here (exL 7) 12 ex20_consts [("start", 0); ("data", 16)] (EArith (AName "data")) = Done 16.
Proof. split; reflexivity. Qed.

(* ---- pseudo-instructions, by line ------------------------------------------------------------------------------------------------------ *)
Theorem eligible_expansion_is_compressed its c0 l0 r l pname args pimm cls name fs c :
  assemble_items its c0 l0 true = Done r ->
  In (l, IPseudo pname args pimm) its -> line_once l its ->
  pseudo_one (r_consts r) l pname args pimm = Some (IInstr cls name fs false) ->
  class_of_name name = Some cls -> std_fields cls fs ->
  settled_operands (r_consts r) l (resolved_fields (r_consts r) fs) ->
  eligible_as (r_consts r) l name (resolved_fields (r_consts r) fs) c ->
  exists h' c',
    chunks_of_line l (r_chunks r) = [(l, CBytes (le_bytes 2 h'))] /\
    0 <= h' < 65536 /\ decode16 h' = Some c' /\ expand_c c' = expand_c c.
Proof.
  intros Hrun Hin Honce Hone Hcls Hstd Hset Hel.
  destruct (in_split _ _ Hin) as (pre & post & Hsplit).
  destruct (eligible_expansion_is_compressed_at _ _ _ _ _ _ _ _ _ _ _ _ _ _ Hrun Hsplit Hone Hcls Hstd Hset Hel)
    as (cs1 & cs3 & h' & c' & Hcs & I1 & I3 & Hh & Hd & Hx).
  rewrite Hsplit in Honce. destruct (line_once_split l pre (l, IPseudo pname args pimm) post eq_refl Honce) as [N1 N3].
  exists h', c'. split; [|auto]. unfold chunks_of_line. rewrite Hcs, filter_app. cbn [filter fst]. rewrite line_eqb_refl.
  rewrite (off_line l cs1), (off_line l cs3); [reflexivity| |]; intro Hc; [apply N3, I3|apply N1, I1]; exact Hc.
Qed.

(* N = 5 / f: / li a0, N / mv a1, a2 / nop / li a0, 100 / li a0, 0x12345 / jr t0 / ret *)
Definition ex20p : list litem :=
  [(exL 1, IConst "N" (EArith (ANum 5)));
   (exL 2, ILabel "f");
   (exL 3, IPseudo "li" ["a0"; "N"] (POk (EArith (AName "N"))));          (* addi a0, x0, 5 -> c.li a0, 5 *)
   (exL 4, IPseudo "mv" ["a1"; "a2"] (PErr (PRaw OtherExn)));              (* addi a1, a2, 0 -> c.mv a1, a2 *)
   (exL 5, IPseudo "nop" [] (PErr (PRaw OtherExn)));                       (* c.nop *)
   (exL 6, IPseudo "li" ["a0"; "100"] (POk (EArith (ANum 100))));          (* addi a0, x0, 100: no RVC form *)
   (exL 7, IPseudo "li" ["a0"; "0x12345"] (POk (EArith (ANum 74565))));    (* lui + addi: c.lui + addi *)
   (exL 8, IPseudo "jr" ["t0"] (PErr (PRaw OtherExn)));                    (* c.jr t0 *)
   (exL 9, IPseudo "ret" [] (PErr (PRaw OtherExn)))].                      (* c.jr ra *)
Lemma ex20p_runs : exists r, assemble_items ex20p [] [] true = Done r /\ r_consts r = [("N", 5)] /\
  map (fun lc => (lnum (fst lc), chunk_len (snd lc))) (r_chunks r) = [(3, 2); (4, 2); (5, 2); (6, 4); (7, 2); (7, 4); (8, 2); (9, 2)].
Proof. eexists. split; [vm_compute; reflexivity|]. repeat split. Qed.
Local Ltac elig' h v k := exists h, v; split; [lia|]; split; [vm_compute; reflexivity|]; split; [k|vm_compute; reflexivity].
Lemma ex20p_line3 : exists cls name fs,
  In (exL 3, IPseudo "li" ["a0"; "N"] (POk (EArith (AName "N")))) ex20p /\ line_once (exL 3) ex20p /\
  pseudo_one [("N", 5)] (exL 3) "li" ["a0"; "N"] (POk (EArith (AName "N"))) = Some (IInstr cls name fs false) /\
  class_of_name name = Some cls /\ std_fields cls fs /\
  settled_operands [("N", 5)] (exL 3) (resolved_fields [("N", 5)] fs) /\
  eligible_as [("N", 5)] (exL 3) name (resolved_fields [("N", 5)] fs) (CLi 10 5).
Proof.
  do 3 eexists. split. { cbn. auto 10. } split. { reflexivity. } split. { vm_compute. reflexivity. }
  split. { reflexivity. } split. { constructor. } split. { reflexivity. }
  elig' 17685 {| nv_name := "addi"; nv_rd := 10; nv_rs1 := 0; nv_rs2 := 0; nv_imm := 5 |} ltac:(left; vm_compute; reflexivity).
Qed.
Lemma ex20p_line4 : exists cls name fs,
  In (exL 4, IPseudo "mv" ["a1"; "a2"] (PErr (PRaw OtherExn))) ex20p /\ line_once (exL 4) ex20p /\
  pseudo_one [("N", 5)] (exL 4) "mv" ["a1"; "a2"] (PErr (PRaw OtherExn)) = Some (IInstr cls name fs false) /\
  class_of_name name = Some cls /\ std_fields cls fs /\
  settled_operands [("N", 5)] (exL 4) (resolved_fields [("N", 5)] fs) /\
  eligible_as [("N", 5)] (exL 4) name (resolved_fields [("N", 5)] fs) (CMv 11 12).
Proof.
  do 3 eexists. split. { cbn. auto 10. } split. { reflexivity. } split. { vm_compute. reflexivity. }
  split. { reflexivity. } split. { constructor. } split. { reflexivity. }
  elig' 34226 (mv_view 11 12) ltac:(right; right; exists 11, 12; split; reflexivity).
Qed.
Lemma ex20p_line5 : exists cls name fs,
  In (exL 5, IPseudo "nop" [] (PErr (PRaw OtherExn))) ex20p /\ line_once (exL 5) ex20p /\
  pseudo_one [("N", 5)] (exL 5) "nop" [] (PErr (PRaw OtherExn)) = Some (IInstr cls name fs false) /\
  class_of_name name = Some cls /\ std_fields cls fs /\
  settled_operands [("N", 5)] (exL 5) (resolved_fields [("N", 5)] fs) /\
  eligible_as [("N", 5)] (exL 5) name (resolved_fields [("N", 5)] fs) CNop.
Proof.
  do 3 eexists. split. { cbn. auto 10. } split. { reflexivity. } split. { vm_compute. reflexivity. }
  split. { reflexivity. } split. { constructor. } split. { reflexivity. }
  elig' 1 {| nv_name := "addi"; nv_rd := 0; nv_rs1 := 0; nv_rs2 := 0; nv_imm := 0 |} ltac:(left; vm_compute; reflexivity).
Qed.
Lemma ex20p_line8 : exists cls name fs,
  In (exL 8, IPseudo "jr" ["t0"] (PErr (PRaw OtherExn))) ex20p /\ line_once (exL 8) ex20p /\
  pseudo_one [("N", 5)] (exL 8) "jr" ["t0"] (PErr (PRaw OtherExn)) = Some (IInstr cls name fs false) /\
  class_of_name name = Some cls /\ std_fields cls fs /\
  settled_operands [("N", 5)] (exL 8) (resolved_fields [("N", 5)] fs) /\
  eligible_as [("N", 5)] (exL 8) name (resolved_fields [("N", 5)] fs) (CJr 5).
Proof.
  do 3 eexists. split. { cbn. auto 10. } split. { reflexivity. } split. { vm_compute. reflexivity. }
  split. { reflexivity. } split. { constructor. } split. { reflexivity. }
  elig' 33410 {| nv_name := "jalr"; nv_rd := 0; nv_rs1 := 5; nv_rs2 := 0; nv_imm := 0 |} ltac:(left; vm_compute; reflexivity).
Qed.
Lemma ex20p_line9 : exists cls name fs,
  In (exL 9, IPseudo "ret" [] (PErr (PRaw OtherExn))) ex20p /\ line_once (exL 9) ex20p /\
  pseudo_one [("N", 5)] (exL 9) "ret" [] (PErr (PRaw OtherExn)) = Some (IInstr cls name fs false) /\
  class_of_name name = Some cls /\ std_fields cls fs /\
  settled_operands [("N", 5)] (exL 9) (resolved_fields [("N", 5)] fs) /\
  eligible_as [("N", 5)] (exL 9) name (resolved_fields [("N", 5)] fs) (CJr 1).
Proof.
  do 3 eexists. split. { cbn. auto 20. } split. { reflexivity. } split. { vm_compute. reflexivity. }
  split. { reflexivity. } split. { constructor. } split. { reflexivity. }
  elig' 32898 {| nv_name := "jalr"; nv_rd := 0; nv_rs1 := 1; nv_rs2 := 0; nv_imm := 0 |} ltac:(left; vm_compute; reflexivity).
Qed.
