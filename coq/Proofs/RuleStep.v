(* A selected compression rule, at machine level and in the STRONG sense the C05 statements need:
   the two bytes the compressed encoder produced for the operands the pipeline hands it, sitting at the pc, execute
   (one step of the fetching machine) like the 32-bit instruction they replace taken with length 2 -- same pc, same
   register readings, the SAME memory function (only_reg / no_reg of Spec/Sem.v speak about `mem s' = mem s`).
   Built from the rule sweeps (Proofs/RulesMain.v rule_sound_item), C02 (the halfword decodes to the instruction the
   operands name) and Proofs/RulesSem.v (fetch of a halfword). *)
From Coq Require Import ZArith List Bool Lia String.
From BB Require Import Base.Bits Base.PyBase Gen.Encoders Gen.Criteria Spec.RV32 Spec.RVC Spec.Operands Spec.Legal Spec.Sem
  Model.Items Model.Encode Model.Passes Proofs.Regs Proofs.SemLemmas Proofs.Rules Proofs.RulesMain Proofs.RulesSem
  Proofs.C02Main.
Import ListNotations.
Open Scope Z_scope.

(* ---- strong observational equality -------------------------------------------------------------------------------- *)
Definition strong_eq (s t : state) : Prop := pc s = pc t /\ (forall r, getr s r = getr t r) /\ mem s = mem t.
Definition ostrong (a b : option state) : Prop :=
  match a, b with Some s, Some t => strong_eq s t | None, None => True | _, _ => False end.
Lemma strong_refl s : strong_eq s s.
Proof. repeat split. Qed.
Lemma ostrong_refl o : ostrong o o.
Proof. destruct o; cbn; [apply strong_refl|exact I]. Qed.
Lemma strong_sym s t : strong_eq s t -> strong_eq t s.
Proof. intros (A & B & C). repeat split; intros; symmetry; auto. Qed.
Lemma ostrong_sym a b : ostrong a b -> ostrong b a.
Proof. destruct a, b; cbn; auto using strong_sym. Qed.

Lemma mv_forms_strong rd rs len s : ostrong (step (Op ADD rd 0 rs) len s) (step (OpImm ADDI rd rs 0) len s).
Proof.
  cbn [step ostrong]. unfold strong_eq, upd. cbn [pc mem regs]. repeat split.
  intros r. unfold getr, setr. cbn [regs alu_i alu_r].
  change (if 0 =? 0 then 0 else wrap (regs s 0)) with 0.
  rewrite Z.add_0_r, Z.add_0_l. reflexivity.
Qed.

(* effects transfer along strong_eq *)
Lemma only_reg_strong s s1 s2 rd v : strong_eq s1 s2 -> only_reg s s2 rd v -> only_reg s s1 rd v.
Proof.
  intros (P & R & M) (A & B & C). split; [rewrite R; exact A|]. split; [intros r Hr; rewrite R; auto|congruence].
Qed.
Lemma no_reg_strong s s1 s2 : strong_eq s1 s2 -> no_reg s s2 -> no_reg s s1.
Proof. intros (P & R & M) (A & B). split; [intros r; rewrite R; auto|congruence]. Qed.

Definition step_strong (a b : instr) : Prop := forall len s, ostrong (step a len s) (step b len s).
Lemma step_strong_refl a : step_strong a a.
Proof. intros len s. apply ostrong_refl. Qed.
Lemma equiv_b_strong a b : equiv_b a b = true -> step_strong a b.
Proof.
  destruct a; destruct b;
  repeat match goal with
         | x : bcond |- _ => destruct x | x : lwidth |- _ => destruct x | x : swidth |- _ => destruct x
         | x : iop |- _ => destruct x | x : sop |- _ => destruct x | x : rop |- _ => destruct x
         | x : csrop |- _ => destruct x | x : amoop |- _ => destruct x
         end;
  cbn [equiv_b name_ops bcond_name lwidth_name swidth_name iop_name sop_name rop_name csrop_name amoop_name];
  repeat match goal with |- context[if Z.eqb ?f 0 then _ else _] => destruct (Z.eqb f 0) end;
  cbn; intro H; try discriminate H;
  try (eqs H; subst; try apply step_strong_refl; try (intros len s; apply mv_forms_strong); fail).
  intros len s. cbn [step]. apply ostrong_refl.
Qed.

(* ---- the operands the pipeline hands to the compressed encoder vs. the numeric operands of the rule check ------------ *)
(* position by position: a register operand may be spelled in any way that reads as the same number; everything else is
   the same argument *)
Fixpoint link_args (ks : list ckind) (args args' : list arg) : Prop :=
  match ks, args, args' with
  | [], [], [] => True
  | CReg :: ks', a :: r, a' :: r' => (forall n, regnum a = Some n -> a' = AInt n) /\ link_args ks' r r'
  | _ :: ks', a :: r, a' :: r' => a = a' /\ link_args ks' r r'
  | _, _, _ => False
  end.
Lemma regnum_AInt n : 0 <= n <= 31 -> regnum (AInt n) = Some n.
Proof.
  intros H. cbn [regnum]. unfold in_regs.
  destruct (Z.leb_spec 0 n); [|lia]. destruct (Z.leb_spec n 31); [|lia]. reflexivity.
Qed.
Lemma link_read ks : forall args args' ops, link_args ks args args' -> read_cops ks args = Some ops -> read_cops ks args' = Some ops.
Proof.
  induction ks as [|k ks IH]; intros args args' ops L H.
  - destruct args, args'; cbn in L; try contradiction. exact H.
  - destruct args as [|a r], args' as [|a' r']; try (destruct k; cbn in L; contradiction).
    cbn [read_cops] in *.
    destruct (read_cop k a) as [x|] eqn:Ea; [|discriminate].
    destruct (read_cops ks r) as [xs|] eqn:Er; [|discriminate].
    assert (Hr : link_args ks r r') by (destruct k; cbn in L; destruct L; assumption).
    rewrite (IH _ _ _ Hr Er).
    assert (Ha : read_cop k a' = Some x).
    { destruct k; cbn in L; destruct L as [L _]; try (subst a'; exact Ea).
      cbn [read_cop] in Ea |- *. rewrite (L _ Ea). apply regnum_AInt. eapply regnum_range; eauto. }
    rewrite Ha. exact H.
Qed.
Lemma link_ops final ks args args' :
  sassoc final kinds16 = Some ks -> link_args ks args args' ->
  forall ops, operands16 final args = Some ops -> operands16 final args' = Some ops.
Proof. intros Hk L ops. unfold operands16. rewrite Hk. apply link_read. exact L. Qed.

(* ---- the rule step --------------------------------------------------------------------------------------------------- *)
Theorem rule_step i r final cls cfs args h :
  select_rule criteria i = Ok (Some r) -> wf_view (nview_of i) ->
  assoc_str r construction = Some (final, cls, cfs) ->
  encode final args [] = Ok h ->
  (forall ops, operands16 final args = Some ops -> operands16 final (pos16_of (nview_of i) cfs) = Some ops) ->
  exists fs0 o32 ins,
    orig_fields (iv_name i) = Some fs0 /\ operands32 (iv_name i) (pos32_of (nview_of i) fs0) [] = Some o32 /\
    denote32 (iv_name i) o32 = Some ins /\
    forall s, loaded s (half_bytes h) -> ostrong (run_n 1 s) (step ins 2 s).
Proof.
  intros Hs Hw Hc He Hl.
  pose proof (rule_sound_item _ _ Hs Hw) as Hrc.
  destruct (rule_check_spec _ _ Hrc) as (fs0 & final' & cls' & cfs' & o32 & o16 & ins & c & A & B & C & D & E & F & G & I).
  rewrite Hc in B. apply Some_inj in B.
  assert (final' = final /\ cfs' = cfs) as [-> ->].
  { split; [exact (f_equal (fun x => fst (fst x)) (eq_sym B))|exact (f_equal snd (eq_sym B))]. }
  assert (Hin : In final c_mnemonics).
  { pose proof finals_are_c as Hf. rewrite forallb_forall in Hf. specialize (Hf _ (assoc_str_in _ _ _ Hc)). cbn in Hf.
    apply mem_str_in; auto. }
  destruct (C02Main.forward _ _ _ _ Hin He) as (Hr & ops & c' & O & _ & Dn & Dc).
  rewrite (Hl _ O) in D. apply Some_inj in D. subst o16. rewrite G in Dn. apply Some_inj in Dn. subst c'.
  exists fs0, o32, ins. cbn [nv_name nview_of] in A, C, F. split; [exact A|]. split; [exact C|]. split; [exact F|].
  intros s L. cbn [run_n]. change (2^16) with 65536 in Hr. rewrite (fetch_half s h c Hr L Dc).
  pose proof (equiv_b_strong _ _ I 2 s) as Q.
  destruct (step (expand_c c) 2 s) as [s1|], (step ins 2 s) as [s2|]; cbn in *; auto.
Qed.

Lemma Ok_inj' {A} (a b : A) : Ok a = Ok b -> a = b.
Proof. congruence. Qed.
(* ---- which rules can be selected for a mnemonic, and which registers the selection has read ------------------------------ *)
Lemma all_preds_cons p ps i : all_preds (p :: ps) i = Ok true -> pred_sem p i = Ok true /\ all_preds ps i = Ok true.
Proof.
  cbn [all_preds]. destruct (pred_sem p i) as [b|e]; cbn [bind]; [|discriminate].
  destruct b; [auto|discriminate].
Qed.
Lemma select_rule_in cr i r : select_rule cr i = Ok (Some r) -> exists ps, In (r, ps) cr /\ all_preds ps i = Ok true.
Proof.
  induction cr as [|[n ps] cr IH]; cbn [select_rule]; intros H; [discriminate|].
  destruct (all_preds ps i) as [b|e] eqn:Ea; cbn [bind] in H; [|discriminate].
  destruct b.
  - apply Ok_inj' in H. apply Some_inj in H. subst n. exists ps. split; [left; reflexivity|exact Ea].
  - destruct (IH H) as (ps' & Hi & Ha). exists ps'. split; [right; exact Hi|exact Ha].
Qed.
Lemma all_preds_name ps i name : rule_name ps = Some name -> all_preds ps i = Ok true -> iv_name i = name.
Proof.
  induction ps as [|p ps IH]; cbn [rule_name]; intros Hn Ha; [discriminate|].
  apply all_preds_cons in Ha. destruct Ha as [Hp Hps].
  destruct p; try (apply IH; assumption).
  apply Some_inj in Hn. subst value. cbn in Hp. apply Ok_inj' in Hp. apply String.eqb_eq. exact Hp.
Qed.
Definition rules_named (n : string) : list string :=
  map fst (filter (fun rp => match rule_name (snd rp) with Some m => String.eqb m n | None => true end) criteria).
Theorem select_named i r : select_rule criteria i = Ok (Some r) -> In r (rules_named (iv_name i)).
Proof.
  intros H. destruct (select_rule_in _ _ _ H) as (ps & Hin & Ha).
  unfold rules_named. apply in_map_iff. exists (r, ps). split; [reflexivity|].
  apply filter_In. split; [exact Hin|]. cbn [snd].
  destruct (rule_name ps) as [m|] eqn:En; [|reflexivity].
  rewrite (all_preds_name _ _ _ En Ha). apply String.eqb_refl.
Qed.

(* the register fields a predicate list looks up *)
Definition pred_regs (p : pred) : list string :=
  match p with
  | PRegEquals n _ | PRegNotEquals n _ | PRegBetween n _ _ => [n]
  | PRegsMatch a b => [a; b]
  | _ => []
  end.
Lemma pred_reads p i b f : pred_sem p i = Ok b -> In f (pred_regs p) ->
  exists a n, iv_attr i f = Ok a /\ lookup_register a false = Ok n.
Proof.
  destruct p; cbn [pred_sem pred_regs In]; intros H Hf; try contradiction.
  - destruct Hf as [<-|[]]. destruct (iv_attr i name) as [a|] eqn:Aa; cbn [bind] in H; [|discriminate].
    destruct (lookup_register a false) as [n|] eqn:El; [|discriminate]. eauto.
  - destruct Hf as [<-|[]]. destruct (iv_attr i name) as [a|] eqn:Aa; cbn [bind] in H; [|discriminate].
    destruct (lookup_register a false) as [n|] eqn:El; [|discriminate]. eauto.
  - destruct Hf as [<-|[]]. destruct (iv_attr i name) as [a|] eqn:Aa; cbn [bind] in H; [|discriminate].
    destruct (lookup_register a false) as [n|] eqn:El; [|discriminate]. eauto.
  - destruct (iv_attr i a) as [x|] eqn:Ax; cbn [bind] in H; [|discriminate].
    destruct (lookup_register x false) as [n|] eqn:Ex; cbn [bind] in H; [|discriminate].
    destruct (iv_attr i b0) as [y|] eqn:Ay; cbn [bind] in H; [|discriminate].
    destruct (lookup_register y false) as [m|] eqn:Ey; cbn [bind] in H; [|discriminate].
    destruct Hf as [<-|[<-|[]]]; eauto.
Qed.
Lemma all_preds_reads ps i f : all_preds ps i = Ok true -> In f (flat_map pred_regs ps) ->
  exists a n, iv_attr i f = Ok a /\ lookup_register a false = Ok n.
Proof.
  induction ps as [|p ps IH]; cbn [flat_map]; intros Ha Hf; [contradiction|].
  apply all_preds_cons in Ha. destruct Ha as [Hp Hps]. apply in_app_or in Hf. destruct Hf as [Hf|Hf].
  - eapply pred_reads; eauto.
  - apply IH; assumption.
Qed.
(* every register field of the 32-bit instruction is looked up by the predicates of each of its rules -- except rs2 of
   c.swsp (which only the encoder reads) *)
Definition rule_reads_all (rp : string * list pred) : bool :=
  match rule_name (snd rp) with
  | Some n => match orig_fields n with
              | Some fs => forallb (fun f => negb (is_regfield f) || mem_str f (flat_map pred_regs (snd rp))
                                             || String.eqb (fst rp) "c.swsp") fs
              | None => false
              end
  | None => false
  end.
Lemma rules_read_all : forallb rule_reads_all criteria = true.
Proof. vm_compute. reflexivity. Qed.

Theorem selected_regs i r fs0 f :
  select_rule criteria i = Ok (Some r) -> r <> "c.swsp"%string -> orig_fields (iv_name i) = Some fs0 ->
  In f fs0 -> is_regfield f = true ->
  exists a n, iv_attr i f = Ok a /\ regnum a = Some n /\ nreg (nview_of i) f = n.
Proof.
  intros H Hr Hf Hin Hreg. destruct (select_rule_in _ _ _ H) as (ps & Hi & Ha).
  pose proof rules_read_all as Hall. rewrite forallb_forall in Hall. specialize (Hall _ Hi).
  unfold rule_reads_all in Hall. cbn [fst snd] in Hall.
  destruct (rule_name ps) as [m|] eqn:En; [|discriminate].
  rewrite <- (all_preds_name _ _ _ En Ha), Hf in Hall. rewrite forallb_forall in Hall. specialize (Hall _ Hin).
  rewrite Hreg in Hall. cbn [negb orb] in Hall.
  destruct (String.eqb r "c.swsp") eqn:Es; [apply String.eqb_eq in Es; contradiction|]. rewrite orb_false_r in Hall.
  destruct (all_preds_reads _ _ _ Ha (mem_str_in _ _ Hall)) as (a & n & A & B).
  exists a, n. split; [exact A|]. split; [apply lookup_register_spec; exact B|].
  rewrite (nreg_of _ _ Hreg). unfold reg_of. rewrite A, B. reflexivity.
Qed.

(* the numeric register of a field whose spelling reads as n *)
Lemma reg_of_regnum i f a n : iv_attr i f = Ok a -> regnum a = Some n -> reg_of i f = n.
Proof. intros A B. unfold reg_of. rewrite A. apply lookup_register_spec in B. rewrite B. reflexivity. Qed.
