(* C01 tactics: decode32 (Spec) of every word the generated encoders produce names the source operands. *)
From Coq Require Import ZArith List Bool Lia ZifyBool String.
From BB Require Import Base.Bits Base.PyBase Gen.Encoders Spec.RV32 Spec.Operands Model.Encode
  Proofs.EncTac Proofs.Enc32 Proofs.Dec32 Proofs.Regs.
Import ListNotations.
Open Scope Z_scope.

Definition row_ok (name : string) : Prop :=
  forall pos kw w, encode name pos kw = Ok w ->
    in32 w /\ exists ops, operands32 name pos kw = Some ops /\ decode32 w = denote32 name ops.

Lemma in32_check w : in32 w -> negb ((0 <=? w) && (w <? 4294967296)) = false.
Proof. unfold in32. lia. Qed.

Ltac lookup_name name :=
  unfold encode;
  let f := eval hnf in (assoc_str name INSTRUCTIONS_final) in
  change (assoc_str name INSTRUCTIONS_final) with f; cbv iota beta; cbn [snd];
  match goal with |- ?f _ _ = _ -> _ => unfold f end.

Tactic Notation "pos0" ident(pos) := destruct pos as [|? pos]; [|intros; discriminate].
Tactic Notation "posS" ident(pos) ident(a) := destruct pos as [|a pos]; [intros; discriminate|].
Ltac unfold_head :=
  match goal with
  | |- ?f _ _ _ _ _ = _ -> _ => unfold f
  | |- ?f _ _ _ _ = _ -> _ => unfold f
  | |- ?f _ _ _ = _ -> _ => unfold f
  | |- ?f _ _ = _ -> _ => unfold f
  | |- ?f _ = _ -> _ => unfold f
  | |- ?f = _ -> _ => unfold f
  end.
Tactic Notation "take_reg" ident(a) ident(n) ident(E) ident(R) :=
  destruct (lookup_register a false) as [n|] eqn:E; cbn [bind]; [|intros; discriminate];
  pose proof (proj1 (lookup_register_range _ _ _ E)) as R; apply lookup_register_spec in E.
Ltac take_guard :=
  match goal with |- (if ?c then _ else _) = _ -> _ => let G := fresh "G" in destruct c eqn:G; [intros; discriminate|]; cbv iota end.
Tactic Notation "take_imm" ident(a) ident(imm) := destruct a as [imm|?]; cbn [as_imm bind]; [|intros; discriminate].
Ltac conclude_w := let H := fresh in intros H; apply Ok_inj in H; subst.

Ltac rhs_compute :=
  unfold denote32;
  match goal with |- context[sassoc ?n spec32] =>
    let r := eval hnf in (sassoc n spec32) in change (sassoc n spec32) with r end;
  cbv iota beta; cbn [mk0 mk2 mk3 mk4 mk5].
Ltac ops_done :=
  unfold operands32;
  match goal with |- context[sassoc ?n kinds32] =>
    let r := eval vm_compute in (sassoc n kinds32) in change (sassoc n kinds32) with r end;
  cbv iota beta; cbn [read_ops read_op kwbit].
Ltac dec_start Hw :=
  unfold decode32; rewrite (in32_check _ Hw); cbv zeta iota.
Ltac dec_eval := cbn [Z.eqb Pos.eqb andb negb orb dec_op dec_amo].

Ltac rw_regs := repeat match goal with H : regnum _ = Some _ |- _ => rewrite H; clear H end.
Ltac rw_fields := repeat match goal with H : bits _ _ _ = _ |- _ => rewrite ?H; clear H end.
Ltac split_fields H :=
  repeat match type of H with _ /\ _ => let H1 := fresh "F" in destruct H as [H1 H] end.

Ltac fields_from lem :=
  let HF := fresh "HF" in
  pose proof lem as HF; cbv zeta in HF;
  let Hw := fresh "Hw" in destruct HF as [Hw HF]; split_fields HF.
Ltac finish_row :=
  split; [assumption|]; eexists; split;
  [ ops_done; rw_regs; reflexivity
  | match goal with Hw : in32 _ |- _ => dec_start Hw end;
    unfold imm_i, imm_s, imm_b, imm_u, imm_j; rw_fields; dec_eval; rhs_compute ].

Lemma u_norm_eq imm : u_norm imm = upper_norm imm.
Proof.
  unfold u_norm, upper_norm.
  destruct ((imm >=? 524288) && (imm <=? 1048575)) eqn:A; destruct ((524288 <=? imm) && (imm <=? 1048575)) eqn:B;
    try reflexivity; exfalso; lia.
Qed.

(* ---- R format ----------------------------------------------------------------------------------- *)
Ltac row_r name :=
  unfold row_ok; intros pos kw w; lookup_name name;
  posS pos a0; posS pos a1; posS pos a2; pos0 pos;
  unfold_head; rewrite r_type_nf by lia; unfold r_nf, reg;
  take_reg a0 n0 E0 R0; take_reg a1 n1 E1 R1; take_reg a2 n2 E2 R2; conclude_w;
  match goal with |- in32 (?op + ?x0 * _ + ?f3 * _ + ?x1 * _ + ?x2 * _ + ?f7 * _) /\ _ =>
    fields_from (r_fields op x0 f3 x1 x2 f7 ltac:(lia) ltac:(lia) ltac:(lia) ltac:(lia) ltac:(lia) ltac:(lia))
  end;
  finish_row; reflexivity.

(* ---- I format (loads, op-imm) -------------------------------------------------------------------- *)
Ltac row_i name :=
  unfold row_ok; intros pos kw w; lookup_name name;
  posS pos a0; posS pos a1; posS pos a2; pos0 pos; take_imm a2 imm;
  unfold_head; rewrite i_type_nf by lia; unfold i_nf, reg;
  take_reg a0 n0 E0 R0; take_reg a1 n1 E1 R1; take_guard; conclude_w;
  match goal with |- in32 (?op + ?x0 * _ + ?f3 * _ + ?x1 * _ + ?i12 * _) /\ _ =>
    fields_from (i_fields op x0 f3 x1 i12 ltac:(lia) ltac:(lia) ltac:(lia) ltac:(lia)
                   ltac:(apply (bits_range _ 0 12); lia))
  end;
  finish_row; rewrite imm12_back by lia; reflexivity.

Ltac row_ij name :=
  unfold row_ok; intros pos kw w; lookup_name name;
  posS pos a0; posS pos a1; posS pos a2; pos0 pos; take_imm a2 imm;
  unfold_head; rewrite ij_type_nf by lia; unfold ij_nf, reg;
  take_reg a0 n0 E0 R0; take_reg a1 n1 E1 R1; take_guard; take_guard; conclude_w;
  match goal with |- in32 (?op + ?x0 * _ + ?f3 * _ + ?x1 * _ + ?i12 * _) /\ _ =>
    fields_from (i_fields op x0 f3 x1 i12 ltac:(lia) ltac:(lia) ltac:(lia) ltac:(lia)
                   ltac:(apply (bits_range _ 0 12); lia))
  end;
  finish_row; rewrite imm12_back by lia; reflexivity.

Ltac row_csr name :=
  unfold row_ok; intros pos kw w; lookup_name name;
  posS pos a0; posS pos a1; posS pos a2; pos0 pos; take_imm a2 imm;
  unfold_head; rewrite ic_type_nf by lia; unfold ic_nf, reg;
  take_reg a0 n0 E0 R0; take_reg a1 n1 E1 R1; take_guard; conclude_w;
  match goal with |- in32 (?op + ?x0 * _ + ?f3 * _ + ?x1 * _ + ?i12 * _) /\ _ =>
    fields_from (i_fields op x0 f3 x1 i12 ltac:(lia) ltac:(lia) ltac:(lia) ltac:(lia) ltac:(lia))
  end;
  finish_row; reflexivity.

Ltac row_s name :=
  unfold row_ok; intros pos kw w; lookup_name name;
  posS pos a0; posS pos a1; posS pos a2; pos0 pos; take_imm a2 imm;
  unfold_head; rewrite s_type_nf by lia; unfold s_nf, reg;
  take_reg a0 n0 E0 R0; take_reg a1 n1 E1 R1; take_guard; conclude_w;
  match goal with |- in32 (?op + ?lo5 * _ + ?f3 * _ + ?x0 * _ + ?x1 * _ + ?hi7 * _) /\ _ =>
    fields_from (s_fields op lo5 f3 x0 x1 hi7 ltac:(lia) ltac:(apply (bits_range _ 0 5); lia) ltac:(lia) ltac:(lia)
                   ltac:(lia) ltac:(apply (bits_range _ 5 7); lia))
  end;
  finish_row; rewrite imm_s_back by lia; reflexivity.

Ltac row_b name :=
  unfold row_ok; intros pos kw w; lookup_name name;
  posS pos a0; posS pos a1; posS pos a2; pos0 pos; take_imm a2 imm;
  unfold_head; rewrite b_type_nf by lia; unfold b_nf, reg;
  take_reg a0 n0 E0 R0; take_reg a1 n1 E1 R1; take_guard; take_guard; conclude_w;
  match goal with |- in32 (?op + ?b11 * _ + ?b41 * _ + ?f3 * _ + ?x0 * _ + ?x1 * _ + ?b105 * _ + ?b12 * _) /\ _ =>
    fields_from (b_fields op b11 b41 f3 x0 x1 b105 b12 ltac:(lia) ltac:(apply (bits_range _ 11 1); lia)
                   ltac:(apply (bits_range _ 1 4); lia) ltac:(lia) ltac:(lia) ltac:(lia)
                   ltac:(apply (bits_range _ 5 6); lia) ltac:(apply (bits_range _ 12 1); lia))
  end;
  finish_row; rewrite imm_b_back by lia; reflexivity.

Ltac row_u name :=
  unfold row_ok; intros pos kw w; lookup_name name;
  posS pos a0; posS pos a1; pos0 pos; take_imm a1 imm;
  unfold_head; rewrite u_type_nf by lia; unfold u_nf, reg;
  take_reg a0 n0 E0 R0; cbv zeta; take_guard; conclude_w;
  match goal with |- in32 (?op + ?x0 * _ + ?i20 * _) /\ _ =>
    fields_from (u_fields op x0 i20 ltac:(lia) ltac:(lia) ltac:(apply (bits_range _ 0 20); lia))
  end;
  finish_row; rewrite imm20_back by lia; rewrite u_norm_eq; reflexivity.

Ltac row_j name :=
  unfold row_ok; intros pos kw w; lookup_name name;
  posS pos a0; posS pos a1; pos0 pos; take_imm a1 imm;
  unfold_head; rewrite j_type_nf by lia; unfold j_nf, reg;
  take_reg a0 n0 E0 R0; take_guard; take_guard; conclude_w;
  match goal with |- in32 (?op + ?x0 * _ + ?j1912 * _ + ?j11 * _ + ?j101 * _ + ?j20 * _) /\ _ =>
    fields_from (j_fields op x0 j1912 j11 j101 j20 ltac:(lia) ltac:(lia) ltac:(apply (bits_range _ 12 8); lia)
                   ltac:(apply (bits_range _ 11 1); lia) ltac:(apply (bits_range _ 1 10); lia)
                   ltac:(apply (bits_range _ 20 1); lia))
  end;
  finish_row; rewrite imm_j_back by lia; reflexivity.

Lemma as_int_spec a z : as_int a = Ok z <-> intnum a = Some z.
Proof. destruct a as [x|t]; simpl; [split; congruence|]. destruct (py_int_lit t); split; congruence. Qed.

Tactic Notation "take_int" ident(a) ident(z) ident(E) :=
  destruct (as_int a) as [z|] eqn:E; cbn [bind]; [|intros; discriminate]; apply as_int_spec in E.
Ltac rw_ints := repeat match goal with H : intnum _ = Some _ |- _ => rewrite H; clear H end.
Ltac closed_bits :=
  change (bits 0 0 12) with 0 in *; change (bits 1 0 12) with 1 in *.

(* ecall / ebreak / fence.i: i_type with every operand bound *)
Ltac row_0 name :=
  unfold row_ok; intros pos kw w; lookup_name name; pos0 pos;
  unfold_head; rewrite i_type_nf by lia; unfold i_nf, reg;
  rewrite !lookup_register_int by lia; cbn [bind]; take_guard; conclude_w;
  match goal with |- in32 (?op + ?x0 * _ + ?f3 * _ + ?x1 * _ + ?i12 * _) /\ _ =>
    fields_from (i_fields op x0 f3 x1 i12 ltac:(lia) ltac:(lia) ltac:(lia) ltac:(lia)
                   ltac:(apply (bits_range _ 0 12); lia))
  end;
  closed_bits; finish_row; reflexivity.

Ltac row_fence name :=
  unfold row_ok; intros pos kw w; lookup_name name;
  posS pos a0; posS pos a1; pos0 pos;
  unfold_head; rewrite fence_nf_eq by lia; unfold fence_nf, reg;
  take_int a0 s0 Es; take_int a1 p0 Ep; take_guard; take_guard;
  rewrite !lookup_register_int by lia; cbn [bind]; conclude_w;
  match goal with |- in32 (?op + ?x0 * _ + ?f3 * _ + ?x1 * _ + ?su * _ + ?pr * _ + ?fm * _) /\ _ =>
    fields_from (fence_fields op x0 f3 x1 su pr fm ltac:(lia) ltac:(lia) ltac:(lia) ltac:(lia) ltac:(lia)
                   ltac:(lia) ltac:(lia))
  end;
  split; [assumption|]; eexists; split;
  [ ops_done; rw_ints; reflexivity
  | match goal with Hw : in32 _ |- _ => dec_start Hw end; rw_fields; dec_eval; rhs_compute; reflexivity ].

Ltac kw_bit k :=
  match goal with |- context[assoc_str k ?kw] =>
    let a := fresh "ka" in let E := fresh "Ek" in destruct (assoc_str k kw) as [a|] eqn:E end.

Ltac row_a_tail :=
  match goal with |- in32 (?op + ?x0 * _ + ?f3 * _ + ?x1 * _ + ?x2 * _ + ?rl * _ + ?aq * _ + ?f5 * _) /\ _ =>
    fields_from (a_fields op x0 f3 x1 x2 rl aq f5 ltac:(lia) ltac:(lia) ltac:(lia) ltac:(lia) ltac:(lia)
                   ltac:(lia) ltac:(lia) ltac:(lia))
  end;
  split; [assumption|]; eexists; split;
  [ ops_done; rw_regs; unfold kwbit; repeat match goal with H : assoc_str _ _ = _ |- _ => rewrite H; clear H end;
    rw_regs; rw_ints; reflexivity
  | match goal with Hw : in32 _ |- _ => dec_start Hw end; rw_fields; dec_eval; rhs_compute; reflexivity ].

Ltac some_inj := repeat match goal with H : Some _ = Some _ |- _ => apply Some_inj in H; subst end.

Ltac take_aqrl :=
  match goal with |- context[as_int ?a] =>
    let z := fresh "z" in let E := fresh "Ez" in
    destruct (as_int a) as [z|] eqn:E; cbn [bind]; [|intros; discriminate]; apply as_int_spec in E
  end.

Ltac row_a name :=
  unfold row_ok; intros pos kw w; lookup_name name;
  posS pos a0; posS pos a1; posS pos a2; pos0 pos;
  cbv zeta; unfold_head; rewrite a_type_nf by lia; unfold a_nf, reg;
  kw_bit "aq"%string; kw_bit "rl"%string;
  (take_aqrl; try take_aqrl; take_guard; try take_guard;
   take_reg a0 n0 E0 R0; take_reg a1 n1 E1 R1; take_reg a2 n2 E2 R2; conclude_w;
   cbn [intnum] in *; some_inj; row_a_tail).

Ltac row_lr name :=
  unfold row_ok; intros pos kw w; lookup_name name;
  posS pos a0; posS pos a1; pos0 pos;
  cbv zeta; unfold_head; rewrite a_type_nf by lia; unfold a_nf, reg;
  kw_bit "aq"%string; kw_bit "rl"%string;
  (take_aqrl; try take_aqrl; take_guard; try take_guard;
   take_reg a0 n0 E0 R0; take_reg a1 n1 E1 R1; rewrite !lookup_register_int by lia; cbn [bind]; conclude_w;
   cbn [intnum] in *; some_inj; row_a_tail).

