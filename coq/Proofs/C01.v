(* C01: decode32 (Spec) of every word the generated encoders produce names the source operands. *)
From Coq Require Import ZArith List Bool Lia ZifyBool String.
From BB Require Import Base.Bits Base.PyBase Gen.Encoders Spec.RV32 Spec.Operands Model.Encode
  Proofs.EncTac Proofs.Enc32 Proofs.Dec32 Proofs.Regs.
Import ListNotations.
Open Scope Z_scope.

Definition row_ok (name : string) : Prop :=
  forall pos kw w, encode name pos kw = Ok w ->
    in32 w /\ exists ops, operands32 name pos kw = Some ops /\ decode32 w = denote32 name ops.

Lemma in32_check w : in32 w -> negb ((0 <=? w) && (w <? 4294967296)) = false.
Proof. unfold in32. lia. Qed.

Ltac lookup_name name :=
  unfold encode;
  let f := eval hnf in (assoc_str name INSTRUCTIONS_final) in
  change (assoc_str name INSTRUCTIONS_final) with f; cbv iota beta; cbn [snd];
  match goal with |- ?f _ _ = _ -> _ => unfold f end.

Tactic Notation "pos0" ident(pos) := destruct pos as [|? pos]; [|intros; discriminate].
Tactic Notation "posS" ident(pos) ident(a) := destruct pos as [|a pos]; [intros; discriminate|].
Ltac unfold_head :=
  match goal with
  | |- ?f _ _ _ _ _ = _ -> _ => unfold f
  | |- ?f _ _ _ _ = _ -> _ => unfold f
  | |- ?f _ _ _ = _ -> _ => unfold f
  | |- ?f _ _ = _ -> _ => unfold f
  | |- ?f _ = _ -> _ => unfold f
  | |- ?f = _ -> _ => unfold f
  end.
Tactic Notation "take_reg" ident(a) ident(n) ident(E) ident(R) :=
  destruct (lookup_register a false) as [n|] eqn:E; cbn [bind]; [|intros; discriminate];
  pose proof (proj1 (lookup_register_range _ _ _ E)) as R; apply lookup_register_spec in E.
Ltac take_guard :=
  match goal with |- (if ?c then _ else _) = _ -> _ => let G := fresh "G" in destruct c eqn:G; [intros; discriminate|] end.
Tactic Notation "take_imm" ident(a) ident(imm) := destruct a as [imm|?]; cbn [as_imm bind]; [|intros; discriminate].
Ltac conclude_w := let H := fresh in intros H; apply Ok_inj in H; subst.

Ltac rhs_compute :=
  match goal with |- _ = ?rhs => let r := eval vm_compute in rhs in change rhs with r end.
Ltac ops_done :=
  unfold operands32;
  match goal with |- context[sassoc ?n kinds32] =>
    let r := eval vm_compute in (sassoc n kinds32) in change (sassoc n kinds32) with r end;
  cbv iota beta; cbn [read_ops read_op kwbit].
Ltac dec_start Hw :=
  unfold decode32; rewrite (in32_check _ Hw); cbv zeta iota.
Ltac dec_eval := cbn [Z.eqb Pos.eqb andb negb orb dec_op dec_amo].

Ltac rw_regs := repeat match goal with H : regnum _ = Some _ |- _ => rewrite H; clear H end.
Ltac rw_fields := repeat match goal with H : bits _ _ _ = _ |- _ => rewrite ?H; clear H end.
Ltac split_fields H :=
  repeat match type of H with _ /\ _ => let H1 := fresh "F" in destruct H as [H1 H] end.

(* ---- R format ----------------------------------------------------------------------------------- *)
Ltac row_r name :=
  unfold row_ok; intros pos kw w; lookup_name name;
  posS pos a0; posS pos a1; posS pos a2; pos0 pos;
  unfold_head; rewrite r_type_nf by lia; unfold r_nf, reg;
  take_reg a0 n0 E0 R0; take_reg a1 n1 E1 R1; take_reg a2 n2 E2 R2; conclude_w;
  match goal with |- in32 (?op + ?x0 * _ + ?f3 * _ + ?x1 * _ + ?x2 * _ + ?f7 * _) /\ _ =>
    let HF := fresh "HF" in
    assert (HF := r_fields op x0 f3 x1 x2 f7 ltac:(lia) ltac:(lia) ltac:(lia) ltac:(lia) ltac:(lia) ltac:(lia));
    cbv zeta in HF; destruct HF as [Hw HF]; split_fields HF
  end;
  split; [assumption|]; eexists; split;
  [ ops_done; rw_regs; reflexivity
  | match goal with Hw : in32 _ |- _ => dec_start Hw end; rw_fields; dec_eval; rhs_compute; reflexivity ].

Lemma row_add : row_ok "add". Proof. row_r "add"%string. Qed.
