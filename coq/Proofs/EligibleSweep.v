(* C20, first half, rule level in the form the whole-program theorem needs: in-kernel sweep over all 65 536 halfwords.
   For every legal non-hint RV32C halfword h (decode16 h = Some c) and every numeric view v of its expansion (canonical operands;
   for lui also the documented second spelling of the negative immediates) the rule the GENERATED criteria table selects on v, fed
   with the operands the GENERATED construction table hands to the compressed encoder, names a compressed instruction c' whose
   expansion is IDENTICAL to the expansion of c. *)
From Coq Require Import ZArith List Bool Lia String.
From BB Require Import Base.Bits Base.PyBase Gen.Encoders Gen.Criteria Spec.RV32 Spec.RVC Spec.Operands Spec.Legal
  Model.Items Model.Encode Model.Passes Proofs.Rules.
Import ListNotations.
Open Scope string_scope.
Open Scope Z_scope.

Definition bcond_eq_dec : forall a b : bcond, {a = b} + {a <> b}. Proof. decide equality. Defined.
Definition lwidth_eq_dec : forall a b : lwidth, {a = b} + {a <> b}. Proof. decide equality. Defined.
Definition swidth_eq_dec : forall a b : swidth, {a = b} + {a <> b}. Proof. decide equality. Defined.
Definition iop_eq_dec : forall a b : iop, {a = b} + {a <> b}. Proof. decide equality. Defined.
Definition sop_eq_dec : forall a b : sop, {a = b} + {a <> b}. Proof. decide equality. Defined.
Definition rop_eq_dec : forall a b : rop, {a = b} + {a <> b}. Proof. decide equality. Defined.
Definition csrop_eq_dec : forall a b : csrop, {a = b} + {a <> b}. Proof. decide equality. Defined.
Definition amoop_eq_dec : forall a b : amoop, {a = b} + {a <> b}. Proof. decide equality. Defined.
Definition instr_eq_dec : forall a b : instr, {a = b} + {a <> b}.
Proof.
  decide equality; try apply Z.eq_dec; auto using bcond_eq_dec, lwidth_eq_dec, swidth_eq_dec, iop_eq_dec, sop_eq_dec, rop_eq_dec,
    csrop_eq_dec, amoop_eq_dec.
Defined.

(* operands handed to the compressed encoder, numerically (the same term as RulesMain.pos16_of; repeated here so that the sweep
   does not depend on the rule sweeps) *)
Definition pos16n (v : nview) (cfs : list cfield) : list arg := map AInt (somes (map (cfield_num v) cfs)).

(* the numeric views of the expansion of c: canonical operands; for lui the second spelling of a negative immediate; for c.mv
   also `addi rd, rs, 0`, the rendering of the pseudo-instruction `mv rd, rs` (c.mv itself expands to `add rd, x0, rs`) *)
Definition mv_view (rd rs : Z) : nview := {| nv_name := "addi"; nv_rd := rd; nv_rs1 := rs; nv_rs2 := 0; nv_imm := 0 |}.
Definition expansion_view (c : cinstr) (v : nview) : Prop :=
  view_of_ops (fst (name_ops (expand_c c))) (snd (name_ops (expand_c c))) = Some v \/
  (exists rd imm, c = CLui rd imm /\ imm < 0 /\ view_of_ops "lui" [rd; imm + 1048576] = Some v) \/
  (exists rd rs, c = CMv rd rs /\ v = mv_view rd rs).

Definition opt_list {A} (o : option A) : list A := match o with Some x => [x] | None => [] end.
Definition views_of (c : cinstr) : list nview :=
  opt_list (view_of_ops (fst (name_ops (expand_c c))) (snd (name_ops (expand_c c)))) ++
  match c with
  | CLui rd imm => if imm <? 0 then opt_list (view_of_ops "lui" [rd; imm + 1048576]) else []
  | CMv rd rs => [mv_view rd rs]
  | _ => []
  end.
Lemma expansion_view_in c v : expansion_view c v -> In v (views_of c).
Proof.
  unfold views_of. intros [H|[(rd & imm & -> & Hi & H)|(rd & rs & -> & ->)]]; apply in_or_app.
  - left. rewrite H. left. reflexivity.
  - right. destruct (Z.ltb_spec imm 0); [|lia]. rewrite H. left. reflexivity.
  - right. left. reflexivity.
Qed.

(* the 32-bit mnemonics that have compression rules, with the class the parser gives them *)
Definition class_of_name (name : string) : option string :=
  if mem_str name ["addi"; "andi"; "lw"; "jalr"] then Some "ITypeInstruction"
  else if mem_str name ["sw"] then Some "STypeInstruction"
  else if mem_str name ["beq"; "bne"] then Some "BTypeInstruction"
  else if mem_str name ["lui"] then Some "UTypeInstruction"
  else if mem_str name ["jal"] then Some "JTypeInstruction"
  else if mem_str name ["add"; "sub"; "xor"; "or"; "and"; "slli"; "srli"; "srai"] then Some "RTypeInstruction"
  else if mem_str name ["ebreak"] then Some "IETypeInstruction"
  else None.

Definition elig_check_view (c : cinstr) (v : nview) : bool :=
  match class_of_name (nv_name v), select_num criteria v with
  | Some _, Some r =>
      match assoc_str r construction with
      | Some (final, _, cfs) =>
          match operands16 final (pos16n v cfs) with
          | Some o16 =>
              match denote16 final o16 with
              | Some c' => if instr_eq_dec (expand_c c') (expand_c c) then true else false
              | None => false
              end
          | None => false
          end
      | None => false
      end
  | _, _ => false
  end.
Definition elig_check_h (h : Z) : bool :=
  match decode16 h with None => true | Some c => forallb (elig_check_view c) (views_of c) end.

Lemma elig_swept : forallb elig_check_h all16 = true.
Proof. vm_compute. reflexivity. Qed.

Theorem eligible_selected h c v :
  0 <= h < 65536 -> decode16 h = Some c -> expansion_view c v ->
  exists cls32 r final cls cfs o16 c',
    class_of_name (nv_name v) = Some cls32 /\
    select_num criteria v = Some r /\ assoc_str r construction = Some (final, cls, cfs) /\
    operands16 final (pos16n v cfs) = Some o16 /\ denote16 final o16 = Some c' /\ expand_c c' = expand_c c.
Proof.
  intros Hh Hd Hv. pose proof elig_swept as Hs. rewrite forallb_forall in Hs. specialize (Hs h (all16_in h Hh)).
  unfold elig_check_h in Hs. rewrite Hd in Hs. rewrite forallb_forall in Hs. specialize (Hs v (expansion_view_in _ _ Hv)).
  unfold elig_check_view in Hs.
  destruct (class_of_name (nv_name v)) as [cls32|] eqn:E0; [|discriminate].
  destruct (select_num criteria v) as [r|] eqn:E1; [|discriminate].
  destruct (assoc_str r construction) as [[[final cls] cfs]|] eqn:E2; [|discriminate].
  destruct (operands16 final (pos16n v cfs)) as [o16|] eqn:E3; [|discriminate].
  destruct (denote16 final o16) as [c'|] eqn:E4; [|discriminate].
  destruct (instr_eq_dec (expand_c c') (expand_c c)) as [E|]; [|discriminate].
  exists cls32, r, final, cls, cfs, o16, c'. auto 10.
Qed.
