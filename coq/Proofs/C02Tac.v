(* RV32C encoders: reduction of an arbitrary call to a call on integer operands inside the guard box. *)
From Coq Require Import ZArith List Bool Lia ZifyBool String.
From BB Require Import Base.Bits Base.PyBase Gen.Encoders Spec.RV32 Spec.RVC Spec.Operands Spec.Legal Model.Encode
  Proofs.EncTac Proofs.Regs Proofs.Sweep16.
Import ListNotations.
Open Scope Z_scope.

Lemma assoc_regnum a : assoc_key (key_of a) REGISTERS = regnum a.
Proof.
  unfold key_of, regnum. destruct a as [z|s].
  - apply reg_int.
  - destruct (py_int_lit s) as [z|] eqn:E; [apply reg_int | apply reg_str; assumption].
Qed.

Lemma lookup_regnum a c :
  lookup_register a c = match regnum a with Some n => lookup_register (AInt n) c | None => Err ValueError end.
Proof.
  destruct (regnum a) as [n|] eqn:E.
  - pose proof (regnum_range _ _ E) as R.
    unfold lookup_register. cbv zeta.
    change (match a with AInt z => KInt z | AStr s => match py_int_lit s with Some z => KInt z | None => KStr s end end)
      with (key_of a).
    rewrite assoc_regnum, E.
    change (KInt n) with (key_of (AInt n)). rewrite assoc_regnum. unfold regnum, in_regs.
    replace ((0 <=? n) && (n <=? 31)) with true by lia. reflexivity.
  - unfold lookup_register. cbv zeta.
    change (match a with AInt z => KInt z | AStr s => match py_int_lit s with Some z => KInt z | None => KStr s end end)
      with (key_of a).
    rewrite assoc_regnum, E. reflexivity.
Qed.

Lemma lookup_int_ok n c v : lookup_register (AInt n) c = Ok v -> In n regs32.
Proof.
  intros H. apply zrange_in. simpl.
  rewrite lookup_regnum in H. unfold regnum, in_regs in H.
  destruct ((0 <=? n) && (n <=? 31)) eqn:E; [lia|discriminate].
Qed.

(* raw operands: registers read by the Spec, immediates as given (c.lui not yet normalised) *)
Definition raw_cop (k : ckind) (a : arg) : option Z :=
  match k, a with CReg, _ => regnum a | _, AInt z => Some z | _, _ => None end.
Fixpoint raw_cops (ks : list ckind) (pos : list arg) : option (list Z) :=
  match ks, pos with
  | [], [] => Some []
  | k :: ks', a :: pos' =>
      match raw_cop k a, raw_cops ks' pos' with Some v, Some r => Some (v :: r) | _, _ => None end
  | _, _ => None
  end.
Definition raw16 (name : string) (pos : list arg) : option (list Z) :=
  match sassoc name kinds16 with Some ks => raw_cops ks pos | None => None end.

Definition crow_ok (name : string) : Prop :=
  (forall pos kw,
     match raw16 name pos with
     | Some ops => encode name pos kw = encode name (map AInt ops) []
     | None => exists e, encode name pos kw = Err e
     end) /\
  (forall ops h, encode name (map AInt ops) [] = Ok h -> In ops (box16 name)).

Ltac lookup_name name :=
  unfold encode;
  let f := eval hnf in (assoc_str name INSTRUCTIONS_final) in
  change (assoc_str name INSTRUCTIONS_final) with f; cbv iota beta; cbn [snd].
Ltac raw_name name :=
  unfold raw16;
  let r := eval vm_compute in (sassoc name kinds16) in change (sassoc name kinds16) with r; cbv iota beta.

Ltac head t := match t with ?f _ => head f | _ => t end.
Ltac unfold_one :=
  match goal with
  | |- ?l = _ => let h := head l in
                 lazymatch h with
                 | @bind => fail
                 | @Err => fail
                 | @Ok => fail
                 | _ => unfold h
                 end
  | |- exists e, ?l = _ => let h := head l in
                 lazymatch h with
                 | @bind => fail
                 | @Err => fail
                 | @Ok => fail
                 | _ => unfold h
                 end
  | |- ?l = _ -> _ => let h := head l in
                 lazymatch h with
                 | @bind => fail
                 | @Err => fail
                 | @Ok => fail
                 | _ => unfold h
                 end
  end; cbv iota beta.
Ltac uh_step :=
  first [ match goal with |- context[as_imm ?a] => is_var a; destruct a end
        | progress cbn [as_imm bind]
        | unfold_one ].
Ltac unfold_heads := repeat uh_step.

Ltac regs_through :=
  repeat match goal with
  | E : regnum ?a = _ |- context[lookup_register ?a ?c] => rewrite (lookup_regnum a c), E
  end.

Ltac solve_part1 :=
  first
  [ (* operands unreadable: the call fails *)
    unfold_heads; regs_through; cbv iota beta; cbn [bind];
    repeat match goal with
    | |- context[bind (lookup_register (AInt ?n) ?c) _] => destruct (lookup_register (AInt n) c); cbn [bind]
    end;
    eexists; reflexivity
  | unfold_heads; regs_through; reflexivity ].

Ltac case_arg a :=
  let z := fresh "z" in let s := fresh "s" in destruct a as [z|s].
Ltac case_reg a :=
  let n := fresh "n" in let E := fresh "E" in destruct (regnum a) as [n|] eqn:E.

(* part 2: guards *)
Ltac step2 :=
  match goal with
  | |- bind (lookup_register ?a ?c) _ = Ok _ -> _ =>
      let v := fresh "v" in let E := fresh "EL" in
      destruct (lookup_register a c) as [v|] eqn:E; cbn [bind]; [|intros; discriminate]
  | |- bind (guard ?c _) _ = Ok _ -> _ =>
      let G := fresh "G" in destruct c eqn:G; cbn [guard bind]; [intros; discriminate|]
  | |- bind (run_constraints ?cs ?kw) _ = Ok _ -> _ =>
      destruct (run_constraints cs kw); cbn [bind]; [|intros; discriminate]
  | |- bind (as_imm (AInt _)) _ = Ok _ -> _ => cbn [as_imm bind]
  | |- (let x := _ in _) = Ok _ -> _ => cbv zeta
  end.
Ltac dom_of name :=
  unfold box16; let d := eval cbv [dom16 String.eqb Ascii.eqb Bool.eqb orb] in (dom16 name) in
  change (dom16 name) with d.
Ltac in_dom :=
  first [ eapply lookup_int_ok; eassumption | apply zrange_in; simpl; lia ].
Ltac finish2 name := intros _; dom_of name; apply in_lprod; repeat (constructor; [in_dom|]); constructor.

Ltac row2_0 name := unfold crow_ok; split;
  [ intros pos kw; lookup_name name; raw_name name; destruct pos as [|a0 pos]; cbn [raw_cops raw_cop]; solve_part1
  | intros ops h; lookup_name name; destruct ops as [|n0 ops]; cbn [map];
    [ intros _; dom_of name; simpl; auto | unfold_heads; intros; discriminate ] ].

Lemma crow_nop : crow_ok "c.nop". Proof. row2_0 "c.nop"%string. Qed.

(* part 1 over every list shape up to 4 operands *)
Tactic Notation "shapes" ident(pos) :=
  destruct pos as [|?a0 [|?a1 [|?a2 [|?a3 pos]]]]; cbn [raw_cops raw_cop].
Ltac all_args :=
  repeat match goal with
  | |- context[match regnum ?a with _ => _ end] => case_reg a; cbv iota beta
  | |- context[match ?a with AInt _ => _ | AStr _ => _ end] => is_var a; case_arg a; cbv iota beta
  end.
Ltac part1 name :=
  let pos := fresh "pos" in intros pos kw; lookup_name name; raw_name name;
  destruct pos as [|?a0 [|?a1 [|?a2 [|?a3 pos]]]]; cbn [raw_cops raw_cop]; all_args; cbn [map]; solve_part1.

Tactic Notation "ops_shape" ident(ops) := destruct ops as [|?n0 [|?n1 [|?n2 [|?n3 ops]]]]; cbn [map].
Ltac part2 name :=
  let ops := fresh "ops" in intros ops h; lookup_name name;
  destruct ops as [|?n0 [|?n1 [|?n2 [|?n3 ops]]]]; cbn [map]; unfold_heads; try (intros; discriminate);
  repeat step2; finish2 name.

Ltac crow name := unfold crow_ok; split; [part1 name | part2 name].

