(* in-kernel legality sweep (Proofs/LegalSweepDef.v sweep_legal) of row 0 of the GENERATED criteria table *)
From Coq Require Import ZArith List Bool String.
From BB Require Import Base.PyBase Gen.Criteria Proofs.Rules Proofs.LegalSweepDef.
Import ListNotations.
Lemma legal_swept0 : forallb sweep_legal (firstn 1 criteria) = true.
Proof. vm_compute. reflexivity. Qed.
