(* The two documented spellings of a base + offset operand, `imm(reg)` and `reg, imm`, parse to the SAME item
   (parser model Model/Parser.v, tied to asm.parse_item by the front-end correspondence). *)
From Coq Require Import ZArith List Bool String Ascii.
From BB Require Import Base.PyBase Gen.Encoders Model.Items Model.Lexer Model.Parser.
Import ListNotations.
Open Scope string_scope.

Ltac close_tests :=
  repeat match goal with
  | |- context[in_tab ?a ?b] => let v := eval vm_compute in (in_tab a b) in change (in_tab a b) with v
  | |- context[mem_str ?a ?b] => let v := eval vm_compute in (mem_str a b) in change (mem_str a b) with v
  | |- context[String.eqb (String ?c ?a) (String ?d ?b)] =>
      let v := eval vm_compute in (String.eqb (String c a) (String d b)) in change (String.eqb (String c a) (String d b)) with v
  end.
Ltac forms H1 H2 :=
  unfold parse_item;
  cbn [List.length Nat.eqb Nat.leb andb nth_tok nth_error tok_is];
  rewrite H1;
  match goal with |- context[lower ?h] => let v := eval vm_compute in (lower h) in change (lower h) with v end;
  cbv beta iota zeta; close_tests; cbv beta iota zeta;
  try unfold base_offset; cbn [nth_tok nth_error tok_is andb]; close_tests; cbv beta iota; cbn [andb]; rewrite ?H2; reflexivity.

Definition load_names : list string := ["lb"; "lh"; "lw"; "lbu"; "lhu"; "jalr"; "c.lw"].
Definition store_names : list string := ["sb"; "sh"; "sw"; "c.sw"].

(* loads / jalr / c.lw:   name rd, off(rs1)   ==   name rd, rs1, off *)
Theorem load_forms l name rd off rs1 :
  In name load_names -> String.eqb rd "=" = false -> String.eqb off "(" = false ->
  parse_item l [name; rd; off; "("; rs1; ")"] = parse_item l [name; rd; rs1; off].
Proof.
  intros Hn H1 H2. unfold load_names in Hn. simpl in Hn.
  repeat (destruct Hn as [<-|Hn]; [forms H1 H2|]). contradiction.
Qed.

(* stores / c.sw:   name rs2, off(rs1)   ==   name rs1, rs2, off *)
Theorem store_forms l name rs2 off rs1 :
  In name store_names -> String.eqb rs2 "=" = false -> String.eqb rs1 "=" = false -> String.eqb off "(" = false ->
  parse_item l [name; rs2; off; "("; rs1; ")"] = parse_item l [name; rs1; rs2; off].
Proof.
  intros Hn H1 H1' H2. unfold store_names in Hn. simpl in Hn.
  repeat (destruct Hn as [<-|Hn];
    [ unfold parse_item;
      cbn [List.length Nat.eqb Nat.leb andb nth_tok nth_error tok_is];
      rewrite H1, H1';
      match goal with |- context[lower ?h] => let v := eval vm_compute in (lower h) in change (lower h) with v end;
      cbv beta iota zeta; close_tests; cbv beta iota zeta;
      cbn [nth_tok nth_error tok_is andb]; close_tests; cbv beta iota; rewrite ?H2; reflexivity |]).
  contradiction.
Qed.

(* the names covered are exactly the assembler's BASE_OFFSET_INSTRUCTIONS table (GENERATED) *)
Lemma forms_cover_table : forallb (fun n => mem_str n (load_names ++ store_names)) BASE_OFFSET_INSTRUCTIONS_final = true
                          /\ forallb (fun n => mem_str n BASE_OFFSET_INSTRUCTIONS_final) (load_names ++ store_names) = true.
Proof. vm_compute. auto. Qed.
