(* Which caller-visible argument objects may assemble() write?  The non-interference theorem of Proofs/Effects.v treats the final
   contents of EVERY argument object as part of the result of a call; the property adds that only the `constants` and `labels`
   dictionaries are outputs.  `written_only` reads the write set W (wparams: the least set of (function, parameter, deep?) closed under
   the stores and calls of the summary) of the regenerated summary and requires that, for the entry function, only the named
   parameters occur in it -- a store through `include_dirs` (its list extended in place, seeded change C16-r5) or through the source
   argument puts another parameter into W and makes the check false.  (`path_or_source` is in W by over-approximation: the Line
   objects that carry the path are modified; the argument itself is an immutable string in every call, so nothing can be stored through
   it.  What the check excludes is a store through `compress` or `include_dirs`.) *)
From Coq Require Import List Bool String Arith.
From BB Require Import Proofs.Effects Gen.Effects.
Import ListNotations.
Open Scope string_scope.

Fixpoint assoc_names (f : string) (l : list (string * list string)) : option (list string) :=
  match l with [] => None | (g, ps) :: r => if String.eqb f g then Some ps else assoc_names f r end.

Definition written_names (s : Proofs.Effects.summary) (names : list (string * list string)) (f : string) : list (option string) :=
  match assoc_names f names with
  | None => [None]
  | Some ps =>
      flat_map (fun k : wkey => let '(g, i, _) := k in if String.eqb g f then [nth_error ps i] else [])
               (wparams s (reach s))
  end.
Definition written_only (s : Proofs.Effects.summary) (names : list (string * list string)) (f : string) (allowed : list string) : bool :=
  forallb (fun o => match o with Some n => existsb (String.eqb n) allowed | None => false end) (written_names s names f).

Lemma assemble_writes_only_outputs :
  written_only Gen.Effects.summary Gen.Effects.entry_params "assemble" ["path_or_source"; "constants"; "labels"] = true /\
  (* not vacuous: both dictionaries ARE in the write set *)
  existsb (fun o => match o with Some n => String.eqb n "constants" | None => false end)
          (written_names Gen.Effects.summary Gen.Effects.entry_params "assemble") = true /\
  existsb (fun o => match o with Some n => String.eqb n "labels" | None => false end)
          (written_names Gen.Effects.summary Gen.Effects.entry_params "assemble") = true.
Proof. vm_compute. repeat split. Qed.
