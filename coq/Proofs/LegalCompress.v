(* C06 at the level of the assembler -- a DOOMED instruction (operands the generated encoder refuses, literal immediate, register
   spellings that are not constant names) stays doomed through the compression pass: the rule selection either raises the assembler's
   own error at the line, or keeps the instruction, or (one rule: c.swsp, whose predicates never read rs2) builds a compressed
   instruction that its encoder refuses too.  Never a raw exception, never outside the model, never an accepted instruction.
   Ingredients: Proofs/LegalSweep.v (a rule fires only on legal 32-bit operands), Proofs/RuleStep.v (which registers a selection
   has read), C06 exact32 / exact16, the shape invariants of Proofs/NoRaw.v. *)
From Coq Require Import ZArith List Bool Lia String Arith.
From BB Require Import Base.Bits Base.PyBase Gen.Encoders Gen.Criteria Spec.RV32 Spec.RVC Spec.Operands Spec.Legal
  Model.Items Model.Encode Model.Passes Proofs.Regs Proofs.Layout Proofs.LayoutInst Proofs.Errors Proofs.EncSig Proofs.EncTotal Proofs.NoRaw
  Proofs.Rules Proofs.RulesMain Proofs.RuleStep Proofs.C06Main Proofs.C06c Proofs.Stable Proofs.AcceptMono Proofs.AcceptCompress
  Proofs.AcceptItem Proofs.LegalSweep.
Import ListNotations.
Open Scope Z_scope.
Local Open Scope list_scope.

(* ---- literal immediates -------------------------------------------------------------------------------------------------------- *)
(* an arithmetic expression without names: it has the same value in every environment *)
Definition closed (a : aexp) (v : Z) : Prop := aeval (fun _ => None) a = Some v.
Lemma closed_eval a v (get : string -> option Z) : closed a v -> aeval get a = Some v.
Proof. intro H. eapply aeval_mono; [|exact H]. intros s z E. discriminate. Qed.

(* the immediate field, if there is one, is a literal *)
Definition closed_imm (fs : list (string * fval)) : Prop :=
  forall x, field_get "imm" fs = Some x -> exists a v, x = FExpr (EArith a) /\ closed a v.
Definition lit_val (fs : list (string * fval)) : option Z :=
  match field_get "imm" fs with Some (FExpr (EArith a)) => aeval (fun _ => None) a | _ => None end.
(* the fields as resolve_immediates leaves them *)
Definition set_lit (fs : list (string * fval)) : list (string * fval) :=
  match lit_val fs with Some v => field_set "imm" (FInt v) fs | None => fs end.

Lemma closed_lit fs a v : field_get "imm" fs = Some (FExpr (EArith a)) -> closed a v ->
  lit_val fs = Some v /\ set_lit fs = field_set "imm" (FInt v) fs.
Proof. intros E H. unfold set_lit, lit_val. rewrite E, H. auto. Qed.
Lemma noimm_lit fs : field_get "imm" fs = None -> set_lit fs = fs.
Proof. intro E. unfold set_lit, lit_val. rewrite E. reflexivity. Qed.

(* ---- register spellings that are not names of constants ---------------------------------------------------------------------- *)
Definition vstable (consts : envt) (v : fval) : Prop :=
  match v with FReg (AStr s) => assoc_str s consts = None | _ => True end.
Definition stable (consts : envt) (fs : list (string * fval)) : Prop := Forall (fun kv => vstable consts (snd kv)) fs.
Lemma alias_stable consts fs : stable consts fs -> map (alias_field consts) fs = fs.
Proof.
  induction 1 as [|[k v] r H _ IH]; cbn [map]. reflexivity. rewrite IH. f_equal.
  unfold alias_field. destruct v as [[z|s]| | |]; auto. cbn in H. rewrite H. destruct (mem_str k REGS); reflexivity.
Qed.
Lemma stable_nil fs : stable [] fs.
Proof. induction fs as [|[k v] r IH]; constructor; auto. destruct v as [[z|s]| | |]; exact I || reflexivity. Qed.
Lemma stable_get consts fs k x : stable consts fs -> field_get k fs = Some x -> vstable consts x.
Proof.
  unfold field_get. induction 1 as [|[k0 v] r H _ IH]; cbn [assoc_str]; [discriminate|].
  destruct (String.eqb k k0). intro E; inversion E; subst; exact H. exact IH.
Qed.

(* ---- doomed ---------------------------------------------------------------------------------------------------------------------- *)
Definition doomed (consts : envt) (it : item) : Prop :=
  exists cls name fs c, it = IInstr cls name fs c /\ instr_okb false cls name fs = true /\ is_atomic_cls cls = false /\
    stable consts fs /\ closed_imm fs /\ forall w, encode name (args_of (set_lit fs)) [] <> Ok w.

(* ---- the guard in front of the rule selection ------------------------------------------------------------------------------------ *)
Lemma imm_unstable_closed l pos consts cls fs : closed_imm fs -> imm_unstable l pos consts cls fs = Done false.
Proof.
  intro Hc. unfold imm_unstable. destruct (field_get "imm" fs) as [x|] eqn:E; [|reflexivity].
  destruct (Hc x E) as (a & v & -> & Ha). cbv zeta. rewrite andb_false_r.
  unfold is_settled. cbn [is_position_relative]. unfold eval_consts. cbn [eeval]. rewrite (closed_eval _ _ _ Ha). reflexivity.
Qed.
Lemma view_imm_closed l pos consts ls name fs a v :
  field_get "imm" fs = Some (FExpr (EArith a)) -> closed a v -> iv_imm (view_of l pos consts ls name fs) = Ok v.
Proof. intros E Ha. cbn [view_of iv_imm]. rewrite E. cbn [eeval]. rewrite (closed_eval _ _ _ Ha). reflexivity. Qed.
Lemma attr_field l pos consts ls name fs f a : iv_attr (view_of l pos consts ls name fs) f = Ok a -> field_get f fs = Some (FReg a).
Proof. rewrite view_attr. destruct (field_get f fs) as [[x| | |]|]; intro H; inversion H; reflexivity. Qed.

(* ---- the argument list against the numeric view ---------------------------------------------------------------------------------- *)
Lemma args_link (v : nview) fs' : forall ofs args,
  Forall2 (fun k a => exists x, field_get k fs' = Some x /\ a = arg_of x) ofs args ->
  forall ks, kr_okb ofs ks = true ->
  (forall k, In k ofs -> String.eqb k "imm" = false ->
     exists a n, field_get k fs' = Some (FReg a) /\ regnum a = Some n /\ fval_num v k = n) ->
  (In "imm"%string ofs -> field_get "imm" fs' = Some (FInt (nv_imm v))) ->
  read_ops ks args = read_ops ks (map (fun f => AInt (fval_num v f)) ofs).
Proof.
  induction 1 as [|k0 a0 ofs args (x & Ex & Ea) _ IH]; intros ks K HR HI.
  - reflexivity.
  - destruct ks as [|kd ks]; [discriminate|]. cbn [kr_okb] in K. apply andb_prop in K. destruct K as [K1 K2].
    cbn [map read_ops].
    rewrite (IH ks K2 (fun k Hin => HR k (or_intror Hin)) (fun Hin => HI (or_intror Hin))).
    assert (E : read_op kd a0 = read_op kd (AInt (fval_num v k0))); [|rewrite E; reflexivity].
    destruct (String.eqb k0 "imm") eqn:Ei.
    + apply String.eqb_eq in Ei. subst k0. rewrite (HI (or_introl eq_refl)) in Ex. inversion Ex; subst x. subst a0.
      unfold fval_num. cbn. reflexivity.
    + cbn [orb] in K1. destruct kd; try discriminate.
      destruct (HR k0 (or_introl eq_refl) Ei) as (a & n & Hf & Hn & Hv). rewrite Hf in Ex. inversion Ex; subst x. subst a0.
      cbn [arg_of arg_of_fval read_op]. rewrite Hv, Hn. symmetry. apply regnum_AInt. eapply regnum_range; eauto.
Qed.

Lemma field_get_set_same v : forall fs x, field_get "imm" fs = Some x -> field_get "imm" (field_set "imm" v fs) = Some v.
Proof.
  unfold field_get. induction fs as [|[k0 v0] r IH]; intros x H. discriminate.
  cbn [assoc_str] in H. cbn [field_set]. rewrite String.eqb_sym in H. destruct (String.eqb k0 "imm") eqn:E; cbn [assoc_str].
  - apply String.eqb_eq in E. subst k0. reflexivity.
  - rewrite String.eqb_sym, E. eauto.
Qed.

(* the operand keys of the mnemonics that have rules are rd / rs1 / rs2 / imm *)
Lemma orig_fields_kinds :
  forallb (fun n => match orig_fields n with
                    | Some ofs => forallb (fun k => String.eqb k "imm" || is_regfield k) ofs
                    | None => false end) rule_mnems = true.
Proof. vm_compute. reflexivity. Qed.

(* the well-shaped fields after resolve_immediates *)
Lemma shape_set_lit keys fs : imm_once keys = true -> closed_imm fs -> shape_okb false keys fs = true -> shape_okb true keys (set_lit fs) = true.
Proof.
  intros Hc Hcl Hs. destruct (field_get "imm" fs) as [x|] eqn:E.
  - destruct (Hcl x E) as (a & v & -> & Ha). destruct (closed_lit _ _ _ E Ha) as [_ ->]. apply shape_post_set; auto.
  - rewrite (noimm_lit _ E). apply shape_post_none; auto.
Qed.

(* ---- a selected rule whose 32-bit registers are all readable: the 32-bit encoder accepts the operands --------------------------- *)
Lemma orig_accepts l consts pos ls cls name fs names kinds keys rule :
  assoc_str cls class_sig = Some (names, kinds) -> class_keys cls = Some keys -> mem_str name names = true ->
  shape_okb false keys fs = true -> imm_once keys = true -> closed_imm fs ->
  select_rule criteria (view_of l pos consts ls name fs) = Ok (Some rule) ->
  (forall f, In f keys -> is_regfield f = true -> exists a n, field_get f fs = Some (FReg a) /\ regnum a = Some n) ->
  exists w, encode name (args_of (set_lit fs)) [] = Ok w.
Proof.
  intros Es Ek Hn Hs Hc Hcl Hsel Hregs.
  destruct (selected_row l consts pos ls name fs rule Hsel) as (ps & Hin & Rn & On).
  destruct (orig_fields name) as [ofs|] eqn:Eo; [|congruence].
  pose proof (orig_keys _ _ _ _ _ _ Es Hn Ek Eo) as ->.
  pose proof orig_table as T. rewrite forallb_forall in T. specialize (T _ (orig_in _ _ Eo)). cbv beta in T. rewrite Eo in T.
  destruct (sassoc name kinds32) as [[ks [|]]|] eqn:Ekd; try discriminate.
  apply andb_prop in T. destruct T as [T Tb]. apply andb_prop in T. destruct T as [T Tn]. apply andb_prop in T. destruct T as [Tk Tp].
  pose proof orig_fields_kinds as Q. rewrite forallb_forall in Q. specialize (Q _ (orig_in _ _ Eo)). cbv beta in Q. rewrite Eo in Q.
  rewrite forallb_forall in Q.
  set (i := view_of l pos consts ls name fs) in *.
  pose proof (view_wf l consts pos ls cls name fs names kinds ofs Es Ek Hn Hs) as W. fold i in W.
  pose proof (selected_legal _ _ (select_link _ _ Hsel) W (nview_regs_ok i)) as L.
  unfold rule_legal in L. cbn [nview_of nv_name] in L. unfold i in L at 1 2 3. cbn [view_of iv_name] in L. rewrite Eo in L.
  destruct (operands32 name _ []) as [o32|] eqn:E32; [|discriminate].
  apply (proj2 (exact32 name _ [] (AcceptMono.mem_in _ _ Tb))). exists o32. split; [|exact L].
  unfold operands32 in *. rewrite Ekd in *. rewrite <- E32.
  pose proof (shape_set_lit ofs fs Hc Hcl Hs) as Hs'.
  apply (args_link (nview_of i) (set_lit fs) ofs _ (shape_args_fields _ _ _ Hs' Tp (nodupb_NoDup _ Tn)) ks Tk).
  - intros k Hink Ei. specialize (Q k Hink). rewrite Ei in Q. cbn [orb] in Q.
    destruct (Hregs k Hink Q) as (a & n & Hf & Hr). exists a, n. split; [|split; [exact Hr|]].
    + assert (G : field_get k (set_lit fs) = field_get k fs); [|rewrite G; exact Hf].
      unfold set_lit. destruct (lit_val fs); [apply field_get_set_other; exact Ei|reflexivity].
    + unfold fval_num. rewrite Ei. rewrite (nreg_of _ _ Q). apply (reg_of_regnum i k a n); [|exact Hr].
      unfold i. rewrite view_attr, Hf. reflexivity.
  - intro Hini. assert (M : mem_str "imm" ofs = true).
    { unfold mem_str. apply existsb_exists. exists "imm"%string. split; auto. }
    destruct (shape_get_imm _ _ Hs Hini) as (e & He & _). change (assoc_str "imm" fs) with (field_get "imm" fs) in He.
    destruct (Hcl _ He) as (a & v & Ee & Ha). inversion Ee; subst e.
    destruct (closed_lit _ _ _ He Ha) as [_ ->]. rewrite (field_get_set_same _ _ _ He).
    cbn [nview_of nv_imm]. unfold i. rewrite (view_imm_closed l pos consts ls name fs a v He Ha). reflexivity.
Qed.

(* ---- which registers a selection has read: all, except rs2 of c.swsp (sw) -------------------------------------------------------- *)
Definition rule_reads_all2 (rp : string * list pred) : bool :=
  match rule_name (snd rp) with
  | Some n => match orig_fields n with
              | Some fs => forallb (fun f => negb (is_regfield f) || mem_str f (flat_map pred_regs (snd rp))
                                             || (String.eqb (fst rp) "c.swsp" && String.eqb f "rs2" && String.eqb n "sw")) fs
              | None => false
              end
  | None => false
  end.
Lemma rules_read_all2 : forallb rule_reads_all2 criteria = true.
Proof. vm_compute. reflexivity. Qed.

Lemma selected_regs2 i r ofs f :
  select_rule criteria i = Ok (Some r) -> orig_fields (iv_name i) = Some ofs -> In f ofs -> is_regfield f = true ->
  (r = "c.swsp"%string /\ f = "rs2"%string /\ iv_name i = "sw"%string) \/ exists a n, iv_attr i f = Ok a /\ regnum a = Some n.
Proof.
  intros H Hf Hin Hreg. destruct (select_rule_in _ _ _ H) as (ps & Hi & Ha).
  pose proof rules_read_all2 as Hall. rewrite forallb_forall in Hall. specialize (Hall _ Hi).
  unfold rule_reads_all2 in Hall. cbn [fst snd] in Hall.
  destruct (rule_name ps) as [m|] eqn:En; [|discriminate].
  pose proof (all_preds_name _ _ _ En Ha) as Em. subst m. rewrite Hf in Hall. rewrite forallb_forall in Hall. specialize (Hall _ Hin).
  rewrite Hreg in Hall. cbn [negb orb] in Hall. apply orb_prop in Hall. destruct Hall as [Hall|Hall].
  - right. destruct (all_preds_reads _ _ _ Ha (RulesMain.mem_str_in _ _ Hall)) as (a & n & A & B).
    exists a, n. split; [exact A|]. apply lookup_register_spec; exact B.
  - left. apply andb_prop in Hall. destruct Hall as [Hall H3]. apply andb_prop in Hall. destruct Hall as [H1 H2].
    apply String.eqb_eq in H1, H2, H3. auto.
Qed.

(* ---- THE LEMMA: the compression rule on a doomed instruction --------------------------------------------------------------------- *)
Lemma doomed_repack consts cls name fs c :
  instr_okb false cls name fs = true -> is_atomic_cls cls = false -> stable consts fs -> closed_imm fs ->
  (forall w, encode name (args_of (set_lit fs)) [] <> Ok w) -> doomed consts (IInstr cls name fs c).
Proof. intros. exists cls, name, fs, c. auto 10. Qed.

Theorem compress_doomed consts l it pos ls :
  doomed consts it ->
  compress_rule consts l it pos ls = Fail (PAsm l) \/
  exists y, compress_rule consts l it pos ls = Done [y] /\ doomed consts y.
Proof.
  intros (cls & name & fs & c & -> & Hok & Hat & Hst & Hcl & Hno).
  pose proof Hok as Hok0. unfold instr_okb in Hok.
  destruct (assoc_str cls class_sig) as [[names kinds]|] eqn:Es; try discriminate.
  destruct (class_keys cls) as [keys|] eqn:Ek; try discriminate.
  apply andb_prop in Hok. destruct Hok as [Hok Hs]. apply andb_prop in Hok. destruct Hok as [Hn Hc].
  cbn [compress_rule]. rewrite (imm_unstable_closed l pos consts cls fs Hcl). cbn [obind].
  destruct (select_rule_va l pos consts ls cls name fs names kinds keys Es Ek Hn Hs criteria criteria_ok) as [V B].
  destruct (select_rule criteria (view_of l pos consts ls name fs)) as [[rule|]|e] eqn:Er.
  - (* a rule fires: impossible unless it is c.swsp with an unreadable rs2 *)
    destruct (selected_row l consts pos ls name fs rule Er) as (ps & Hin & Rn & On).
    destruct (orig_fields name) as [ofs|] eqn:Eo; [|congruence].
    pose proof (orig_keys _ _ _ _ _ _ Es Hn Ek Eo) as ->.
    assert (Hall : (forall f, In f ofs -> is_regfield f = true -> exists a n, field_get f fs = Some (FReg a) /\ regnum a = Some n) -> False).
    { intro Hregs. destruct (orig_accepts l consts pos ls cls name fs names kinds ofs rule Es Ek Hn Hs Hc Hcl Er Hregs) as [w Hw].
      exact (Hno w Hw). }
    assert (Hsw : rule = "c.swsp"%string /\ name = "sw"%string).
    { destruct (string_dec rule "c.swsp") as [->|Hne].
      - split; [reflexivity|].
        destruct (string_dec name "sw") as [E|Hns]; [exact E|]. exfalso. apply Hall. intros f Hinf Hrf.
        destruct (selected_regs2 _ _ _ f Er Eo Hinf Hrf) as [(_ & _ & E)|(a & n & A & R)]; [cbn in E; contradiction|].
        exists a, n. split; [eapply attr_field; eauto|exact R].
      - exfalso. apply Hall. intros f Hinf Hrf.
        destruct (selected_regs2 _ _ _ f Er Eo Hinf Hrf) as [(E & _)|(a & n & A & R)]; [contradiction|].
        exists a, n. split; [eapply attr_field; eauto|exact R]. }
    destruct Hsw as [-> ->]. vm_compute in Eo. apply Some_inj in Eo. subst ofs.
    destruct (shape_get_reg fs _ "rs2"%string Hs (or_intror (or_introl eq_refl)) eq_refl eq_refl eq_refl) as [a2 H2].
    destruct (shape_get_imm fs _ Hs (or_intror (or_intror (or_introl eq_refl)))) as (e & He & _).
    change (assoc_str "rs2" fs) with (field_get "rs2" fs) in H2. change (assoc_str "imm" fs) with (field_get "imm" fs) in He.
    destruct (Hcl _ He) as (a & v & Ee & Ha). inversion Ee; subst e.
    destruct (regnum a2) as [n2|] eqn:R2.
    + exfalso. apply Hall. intros f Hinf Hrf.
      destruct (selected_regs2 _ _ _ f Er eq_refl Hinf Hrf) as [(_ & E & _)|(a' & n & A & R)].
      * subst f. exists a2, n2. auto.
      * exists a', n. split; [eapply attr_field; eauto|exact R].
    + right.
      assert (Hb : build_compressed "c.swsp" fs =
                   Some (IInstr "CSSTypeInstruction" "c.swsp" [("rs2", FReg a2); ("imm", FExpr (EArith a))]%string true)).
      { unfold build_compressed.
        change (assoc_str "c.swsp" construction) with (Some ("c.swsp", "CSSTypeInstruction", [FItem "rs2"; FItem "imm"])%string).
        change (assoc_str "CSSTypeInstruction" class_fields) with (Some ["name"; "rs2"; "imm"]%string).
        cbn [map build_field zip_fields]. rewrite H2, He. reflexivity. }
      rewrite Hb. eexists. split; [reflexivity|].
      apply doomed_repack.
      * pose proof (build_compressed_ok 1%nat fs _ "c.swsp" _ (le_S _ _ (le_S _ _ (le_n 1))) Hs (B _ eq_refl) Hb) as Q.
        cbn [okb Nat.leb Nat.eqb andb] in Q. exact Q.
      * reflexivity.
      * constructor; [exact (stable_get _ _ _ _ Hst H2)|constructor; [exact I|constructor]].
      * intros x Hx. cbn in Hx. inversion Hx; subst x. eauto.
      * intros w Hw.
        assert (Ea : args_of (set_lit [("rs2", FReg a2); ("imm", FExpr (EArith a))]%string) = [a2; AInt v]).
        { unfold set_lit, lit_val. cbn [field_get assoc_str String.eqb Ascii.eqb Bool.eqb]. rewrite Ha. reflexivity. }
        rewrite Ea in Hw.
        assert (Hc16 : In "c.swsp"%string c_mnemonics) by (apply AcceptMono.mem_in; vm_compute; reflexivity).
        destruct (proj1 (exact16 "c.swsp" [a2; AInt v] [] Hc16) (ex_intro _ w Hw)) as (ops & Ho & _).
        unfold operands16 in Ho. change (sassoc "c.swsp" kinds16) with (Some [CReg; CImm]) in Ho.
        cbn [read_cops read_cop] in Ho. rewrite R2 in Ho. discriminate.
  - (* no rule: kept *)
    right. eexists. split; [reflexivity|]. apply doomed_repack; auto.
  - (* a predicate raised: ValueError of a register lookup -> the assembler's error at the line *)
    left. unfold perr_of_pred. destruct e; cbn in V; try contradiction; reflexivity.
Qed.

(* ---- the encoder on a doomed instruction after resolve_immediates ------------------------------------------------------------------ *)
Lemma encode_item_refused l cls name fs c :
  instr_okb false cls name fs = true -> is_atomic_cls cls = false -> closed_imm fs ->
  (forall w, encode name (args_of (set_lit fs)) [] <> Ok w) ->
  encode_item l cls name (set_lit fs) c = Fail (PAsm l).
Proof.
  intros Hok Hat Hcl Hno.
  assert (Hok' : instr_okb true cls name (set_lit fs) = true).
  { unfold instr_okb in *. destruct (assoc_str cls class_sig) as [[names kinds]|]; try discriminate.
    destruct (class_keys cls) as [keys|]; try discriminate.
    apply andb_prop in Hok. destruct Hok as [Hok Hs]. rewrite Hok. cbn [andb].
    apply andb_prop in Hok. destruct Hok as [_ Hc]. apply shape_set_lit; auto. }
  pose proof (encode_item_good encode_total l cls name (set_lit fs) c Hok') as G.
  unfold encode_item in *. rewrite Hat in *.
  destruct (encode name (args_of (set_lit fs)) []) as [w|e] eqn:E.
  - exfalso. exact (Hno w eq_refl).
  - destruct e; cbn in G; try contradiction. reflexivity.
Qed.
