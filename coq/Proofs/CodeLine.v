(* The pass model on a ONE-LINE program consisting of a pseudo-instruction, with compression switched on:
   the 16 passes ARE  pseudo_rule ; compress_rule on each emitted instruction (second compression pass) ;
   immediates, encoders, bytes of each resulting item at its position  (code_bytes below). *)
From Coq Require Import ZArith List Bool String Lia.
From BB Require Import Base.PyBase Gen.Encoders Gen.Criteria Spec.RV32 Spec.Operands Spec.Sem Model.Items Model.Encode Model.Passes
  Proofs.Layout Proofs.LayoutInst Proofs.Pipeline Proofs.PseudoEmit Proofs.LiProgram.
Import ListNotations.
Open Scope Z_scope.
Open Scope string_scope.
Open Scope list_scope.

Lemma if_same {A} (c : bool) (x : A) : (if c then x else x) = x.
Proof. destruct c; reflexivity. Qed.
Definition instr_b (it : item) : bool := match it with IInstr _ _ _ _ => true | _ => false end.
Definition blob_b (it : item) : bool := match it with IBlob _ => true | _ => false end.

(* a size-changing pass on the code items of one line, no labels anywhere *)
Fixpoint rule_list (rule : rule_t) (l : line) (its : list item) (pos : Z) : outcome (list item) :=
  match its with
  | [] => Done []
  | it :: r =>
      rs <<- rule l it pos [] ;;; new <<- sizes rs ;;; r' <<- rule_list rule l r (pos + new) ;;; Done (rs ++ r')
  end.

Lemma gp_code rule l its : forallb instr_b its = true -> forall pos,
  gp rule (map (fun x => (l, x)) its) pos [] = (r <<- rule_list rule l its pos ;;; Done (map (fun x => (l, x)) r, [])).
Proof.
  induction its as [|it r IH]; intros Hi pos; [reflexivity|].
  cbn [forallb] in Hi. apply andb_prop in Hi. destruct Hi as [Hit Hr].
  destruct it; try discriminate Hit. cbn [map gp is_label size_o Passes.size obind rule_list].
  destruct (rule l _ pos []) as [rs| |]; cbn [obind]; try reflexivity.
  destruct (sizes rs) as [new| |]; cbn [obind]; try reflexivity.
  cbv zeta. cbn [shrink_after map].
  rewrite if_same.
  rewrite (IH Hr). destruct (rule_list rule l r (pos + new)) as [r'| |]; cbn [obind fst snd]; try reflexivity.
  rewrite map_app. reflexivity.
Qed.
Lemma gpass_code rule l its pos : forallb instr_b its = true ->
  gpass rule (map (fun x => (l, x)) its) pos [] [] = (r <<- rule_list rule l its pos ;;; Done (map (fun x => (l, x)) r, [])).
Proof.
  intros Hi. rewrite gpass_gp, (gp_code _ _ _ Hi). destruct (rule_list rule l its pos); reflexivity.
Qed.

(* compression keeps instructions instructions *)
Lemma compress_instr consts l cls n fs c pos ls rs :
  compress_rule consts l (IInstr cls n fs c) pos ls = Done rs -> exists cls' n' fs' c', rs = [IInstr cls' n' fs' c'].
Proof.
  intros Hr. cbv beta iota delta [compress_rule] in Hr.
  destruct (imm_unstable l pos consts cls fs) as [u| |]; cbv beta iota delta [obind] in Hr; try discriminate.
  destruct u. { apply Done_inj in Hr. subst. eauto. }
  destruct (select_rule criteria _) as [[rule|]|e]; try discriminate.
  - destruct (build_compressed rule fs) as [it'|] eqn:Eb; try discriminate.
    apply Done_inj in Hr. subst. destruct (build_compressed_shape _ _ _ Eb) as (cls' & n' & nfs & ->). eauto.
  - apply Done_inj in Hr. subst. eauto.
Qed.
Lemma compress_list_instr consts l its : forallb instr_b its = true -> forall pos its',
  rule_list (compress_rule consts) l its pos = Done its' -> forallb instr_b its' = true.
Proof.
  induction its as [|it r IH]; intros Hi pos its' H.
  - apply Done_inj in H. subst. reflexivity.
  - cbn [forallb] in Hi. apply andb_prop in Hi. destruct Hi as [Hit Hr]. destruct it; try discriminate Hit.
    cbn [rule_list] in H.
    destruct (compress_rule consts l _ pos []) as [rs| |] eqn:Ec; cbn [obind] in H; try discriminate.
    destruct (sizes rs) as [new| |]; cbn [obind] in H; try discriminate.
    destruct (rule_list _ l r (pos + new)) as [r'| |] eqn:Er; cbn [obind] in H; try discriminate.
    apply Done_inj in H. subst its'. destruct (compress_instr _ _ _ _ _ _ _ _ _ Ec) as (c1 & n1 & f1 & b1 & ->).
    cbn [app forallb instr_b andb]. eapply IH; eauto.
Qed.
(* alignment does nothing to instructions *)
Lemma align_list l its : forallb instr_b its = true -> forall pos, rule_list align_rule l its pos = Done its.
Proof.
  induction its as [|it r IH]; intros Hi pos; [reflexivity|].
  cbn [forallb] in Hi. apply andb_prop in Hi. destruct Hi as [Hit Hr]. destruct it; try discriminate Hit.
  cbn [rule_list align_rule obind sizes size_o Passes.size]. rewrite (IH Hr). reflexivity.
Qed.

(* ---- bytes of a list of instruction items standing at pos (final constants / labels) ------------------------------- *)
Definition item_bytes (l : line) (consts labels : envt) (pos : Z) (cls name : string) (fs : list (string * fval)) (c : bool)
  : outcome (list Z) :=
  fs' <<- match field_get "imm" fs with
          | Some v => imm <<- imm_of l (pos - PseudoEmit.back_of fs) consts labels v ;;; Done (field_set "imm" (FInt imm) fs)
          | None => Done fs
          end ;;;
  encode_item l cls name fs' c.
Fixpoint code_bytes (l : line) (consts labels : envt) (pos : Z) (its : list item) : outcome (list Z) :=
  match its with
  | [] => Done []
  | IInstr cls name fs c :: r =>
      bs <<- item_bytes l consts labels pos cls name fs c ;;;
      rest <<- code_bytes l consts labels (pos + (if c then 2 else 4)) r ;;; Done (bs ++ rest)
  | _ => Unsupported
  end.

Lemma emit_code l consts labels its : forallb instr_b its = true -> forall pos out' its2 chunks,
  pF2 (Rimm consts labels) pos (map (fun x => (l, x)) its) out' -> Forall2 Renc out' its2 ->
  resolve_blobs its2 = Done chunks -> code_bytes l consts labels pos its = Done (flat_map chunk_bytes chunks).
Proof.
  induction its as [|it r IH]; intros Hi pos out' its2 chunks P F B.
  - destruct out'; cbn in P; try contradiction. inversion F; subst. cbn in B. apply Done_inj in B. subst. reflexivity.
  - cbn [forallb] in Hi. apply andb_prop in Hi. destruct Hi as [Hit Hr]. destruct it; try discriminate Hit.
    destruct out' as [|[ly y] o']; cbn [map pF2] in P; try contradiction. destruct P as [[Hl Hy] P]. cbn [fst snd] in Hl, Hy.
    subst ly. cbn [snd] in P. rewrite isz_instr in P.
    inversion F as [|? y2 ? t2 Hy2 F2]; subst. destruct y2 as [l2 y2]. destruct Hy2 as [Hl2 Hy2]. cbn [fst snd] in Hl2, Hy2.
    cbn [code_bytes]. unfold item_bytes.
    destruct (field_get "imm" fields) as [v|] eqn:Ef.
    + destruct Hy as (z & Hz & ->). fold (PseudoEmit.back_of fields). change (Pipeline.back_of fields) with (PseudoEmit.back_of fields) in Hz.
      rewrite Hz. cbn [obind]. destruct Hy2 as (bs & He & ->). rewrite He. cbn [obind].
      cbn [resolve_blobs] in B. destruct (resolve_blobs t2) as [rest| |] eqn:Eb; cbn [obind] in B; try discriminate.
      apply Done_inj in B. subst chunks. rewrite (IH Hr _ _ _ _ P F2 Eb). reflexivity.
    + subst y. destruct Hy2 as (bs & He & ->). cbn [obind]. rewrite He. cbn [obind].
      cbn [resolve_blobs] in B. destruct (resolve_blobs t2) as [rest| |] eqn:Eb; cbn [obind] in B; try discriminate.
      apply Done_inj in B. subst chunks. rewrite (IH Hr _ _ _ _ P F2 Eb). reflexivity.
Qed.

(* the data passes do nothing to a list of blobs *)
Lemma renc_blobs a : forall b, forallb (fun x => instr_b (snd x)) a = true -> Forall2 Renc a b -> forallb (fun x => blob_b (snd x)) b = true.
Proof.
  induction a as [|[l it] a IH]; intros b Hi F; inversion F as [|? y ? t Hy F']; subst; [reflexivity|].
  cbn [forallb snd] in Hi. apply andb_prop in Hi. destruct Hi as [Hit Ha]. destruct it; try discriminate Hit.
  destruct Hy as [_ (bs & _ & Hy)]. cbn [forallb]. rewrite Hy. cbn [blob_b andb]. apply IH; assumption.
Qed.
Lemma rimm_instrs consts labels a : forall pos b, forallb (fun x => instr_b (snd x)) a = true ->
  pF2 (Rimm consts labels) pos a b -> forallb (fun x => instr_b (snd x)) b = true.
Proof.
  induction a as [|[l it] a IH]; intros pos b Hi P; destruct b as [|y b]; cbn [pF2] in P; try contradiction; [reflexivity|].
  cbn [forallb snd] in Hi. apply andb_prop in Hi. destruct Hi as [Hit Ha]. destruct it; try discriminate Hit.
  destruct P as [[_ Hy] P]. cbn [snd] in Hy. cbn [forallb].
  assert (E : instr_b (snd y) = true).
  { destruct (field_get "imm" fields); [destruct Hy as (z & _ & ->)|rewrite Hy]; reflexivity. }
  rewrite E. cbn [andb]. eapply IH; eauto.
Qed.
Lemma strings_blobs its : forallb (fun x => blob_b (snd x)) its = true -> resolve_strings its = its.
Proof.
  induction its as [|[l it] r IH]; intros H; [reflexivity|].
  cbn [forallb snd] in H. apply andb_prop in H. destruct H as [Hb Hr]. destruct it; try discriminate Hb.
  cbn [resolve_strings map]. f_equal. apply IH. exact Hr.
Qed.
Lemma sequences_blobs its : forallb (fun x => blob_b (snd x)) its = true -> forall acc, resolve_sequences its acc = Done (rev acc ++ its).
Proof.
  induction its as [|[l it] r IH]; intros H acc; [cbn; rewrite app_nil_r; reflexivity|].
  cbn [forallb snd] in H. apply andb_prop in H. destruct H as [Hb Hr]. destruct it; try discriminate Hb.
  cbn [resolve_sequences]. rewrite (IH Hr). cbn [rev]. rewrite <- app_assoc. reflexivity.
Qed.
Lemma shorthand_blobs its : forallb (fun x => blob_b (snd x)) its = true -> forall acc, transform_shorthand its acc = Done (rev acc ++ its).
Proof.
  induction its as [|[l it] r IH]; intros H acc; [cbn; rewrite app_nil_r; reflexivity|].
  cbn [forallb snd] in H. apply andb_prop in H. destruct H as [Hb Hr]. destruct it; try discriminate Hb.
  cbn [transform_shorthand]. rewrite (IH Hr). cbn [rev]. rewrite <- app_assoc. reflexivity.
Qed.
Lemma packs_blobs its : forallb (fun x => blob_b (snd x)) its = true -> forall acc, resolve_packs its acc = Done (rev acc ++ its).
Proof.
  induction its as [|[l it] r IH]; intros H acc; [cbn; rewrite app_nil_r; reflexivity|].
  cbn [forallb snd] in H. apply andb_prop in H. destruct H as [Hb Hr]. destruct it; try discriminate Hb.
  cbn [resolve_packs]. rewrite (IH Hr). cbn [rev]. rewrite <- app_assoc. reflexivity.
Qed.
Lemma include_blobs its : forallb (fun x => blob_b (snd x)) its = true -> forall acc, resolve_include_bytes its acc = Done (rev acc ++ its).
Proof.
  induction its as [|[l it] r IH]; intros H acc; [cbn; rewrite app_nil_r; reflexivity|].
  cbn [forallb snd] in H. apply andb_prop in H. destruct H as [Hb Hr]. destruct it; try discriminate Hb.
  cbn [resolve_include_bytes]. rewrite (IH Hr). cbn [rev]. rewrite <- app_assoc. reflexivity.
Qed.

Lemma map_instrs l its : forallb instr_b its = true -> forallb (fun x : litem => instr_b (snd x)) (map (fun x => (l, x)) its) = true.
Proof. induction its as [|it r IH]; cbn; [reflexivity|]. intros H. apply andb_prop in H. destruct H as [A B]. rewrite A, (IH B). reflexivity. Qed.

(* from the list of instruction items after the second compression pass to the output bytes *)
Lemma tail_passes l its labels0 r :
  forallb instr_b its = true ->
  (p <<- resolve_aligns (map (fun x => (l, x)) its) [] ;;;
   let '(its, labels) := p in
   its <<- resolve_immediates its 0 [] labels [] ;;;
   its <<- resolve_instructions its [] ;;;
   let its := resolve_strings its in
   its <<- resolve_sequences its [] ;;;
   its <<- transform_shorthand its [] ;;;
   its <<- resolve_packs its [] ;;;
   its <<- resolve_include_bytes its [] ;;;
   chunks <<- resolve_blobs its ;;;
   Done {| r_chunks := chunks; r_consts := []; r_labels := labels |}) = Done r ->
  labels0 = @nil (string * Z) ->
  code_bytes l [] [] 0 its = Done (flat_map chunk_bytes (r_chunks r)).
Proof.
  intros Hi H _. unfold resolve_aligns in H. rewrite (gpass_code _ _ _ _ Hi), (align_list _ _ Hi) in H. cbn [obind] in H.
  destruct (resolve_immediates _ 0 [] [] []) as [its1| |] eqn:E1; cbn [obind] in H; try discriminate.
  destruct (resolve_instructions its1 []) as [its2| |] eqn:E2; cbn [obind] in H; try discriminate.
  destruct (resolve_immediates_spec _ _ _ _ _ _ E1) as (o1 & -> & P1). cbn [rev app] in *.
  destruct (resolve_instructions_spec _ _ _ E2) as (o2 & -> & F2). cbn [rev app] in *.
  pose proof (rimm_instrs _ _ _ _ _ (map_instrs l _ Hi) P1) as I1.
  pose proof (renc_blobs _ _ I1 F2) as B2.
  rewrite (strings_blobs _ B2), (sequences_blobs _ B2) in H. cbn [rev app obind] in H.
  rewrite (shorthand_blobs _ B2) in H. cbn [rev app obind] in H.
  rewrite (packs_blobs _ B2) in H. cbn [rev app obind] in H.
  rewrite (include_blobs _ B2) in H. cbn [rev app obind] in H.
  destruct (resolve_blobs o2) as [chunks| |] eqn:E3; cbn [obind] in H; try discriminate.
  apply Done_inj in H. subst r. cbn [r_chunks].
  eapply emit_code; eauto.
Qed.

(* ---- the one-line program --------------------------------------------------------------------------------------------- *)
Theorem pseudo_line_compressed l n args pimm r :
  assemble_items [(l, IPseudo n args pimm)] [] [] true = Done r ->
  exists its its',
    pseudo_rule [] l (IPseudo n args pimm) 0 [] = Done its /\
    rule_list (compress_rule []) l its 0 = Done its' /\
    code_bytes l [] [] 0 its' = Done (flat_map chunk_bytes (r_chunks r)).
Proof.
  intros H. unfold assemble_items in H.
  cbn [resolve_constants_lr obind rev app resolve_labels resolve_labels_from size_o Passes.size] in H.
  rewrite aliases_nil in H. unfold transform_compressible, transform_pseudo in H.
  cbn [gpass size_o Passes.size obind compress_rule sizes] in H. cbv zeta in H. cbn [shrink_after map] in H.
  rewrite if_same in H.
  cbn [gpass rev_append rev app obind size_o Passes.size] in H.
  destruct (pseudo_rule [] l (IPseudo n args pimm) 0 []) as [its| |] eqn:Er; cbn [obind] in H; try discriminate.
  destruct (sizes its) as [new| |] eqn:Es; cbn [obind] in H; try discriminate.
  cbv zeta in H.
  rewrite if_same in H.
  cbn [gpass] in H. rewrite rev_append_rev, app_nil_r, rev_involutive in H.
  rewrite aliases_nil in H.
  pose proof (pseudo_rule_keep _ _ _ _ _ _ Er) as Hk. cbv beta iota in Hk.
  assert (Hi : forallb instr_b its = true).
  { clear - Hk. induction Hk as [|x xs Hx _ IH]; [reflexivity|]. destruct Hx as (c & m & f & ->). exact IH. }
  rewrite (gpass_code _ _ _ _ Hi) in H.
  destruct (rule_list (compress_rule []) l its 0) as [its'| |] eqn:Ec; cbn [obind] in H; try discriminate.
  exists its, its'. split; [reflexivity|]. split; [exact Ec|].
  eapply tail_passes; [eapply compress_list_instr; eauto|exact H|reflexivity].
Qed.

(* ---- emit_bytes (the form the C05 statements use) on instruction items is code_bytes ------------------------------------ *)
Lemma emit_bytes_code l consts labels pos its bs :
  forallb instr_b its = true -> emit_bytes l consts labels pos its = Done bs -> code_bytes l consts labels pos its = Done bs.
Proof.
  intros Hi H. unfold emit_bytes in H.
  destruct (resolve_immediates _ pos consts labels []) as [its1| |] eqn:E1; cbn [obind] in H; try discriminate.
  destruct (resolve_instructions its1 []) as [its2| |] eqn:E2; cbn [obind] in H; try discriminate.
  destruct (resolve_blobs its2) as [chunks| |] eqn:E3; cbn [obind] in H; try discriminate.
  apply Done_inj in H. subst bs.
  destruct (resolve_immediates_spec _ _ _ _ _ _ E1) as (o1 & -> & P1). cbn [rev app] in *.
  destruct (resolve_instructions_spec _ _ _ E2) as (o2 & -> & F2). cbn [rev app] in *.
  eapply emit_code; eauto.
Qed.

(* every item of a line replaced by what compress_rule returns for it at SOME position / label table *)
Inductive each_compressed (consts : envt) (l : line) : list item -> list item -> Prop :=
| ec_nil : each_compressed consts l [] []
| ec_cons it rs p ls r r' : compress_rule consts l it p ls = Done rs -> each_compressed consts l r r' ->
                            each_compressed consts l (it :: r) (rs ++ r').
Lemma rule_list_each consts l its : forall pos its',
  rule_list (compress_rule consts) l its pos = Done its' -> each_compressed consts l its its'.
Proof.
  induction its as [|it r IH]; intros pos its' H.
  - apply Done_inj in H. subst. constructor.
  - cbn [rule_list] in H. destruct (compress_rule consts l it pos []) as [rs| |] eqn:Ec; cbn [obind] in H; try discriminate.
    destruct (sizes rs) as [new| |]; cbn [obind] in H; try discriminate.
    destruct (rule_list _ l r (pos + new)) as [r'| |] eqn:Er; cbn [obind] in H; try discriminate.
    apply Done_inj in H. subst its'. econstructor; eauto.
Qed.
Lemma each_compressed_instr consts l its its' :
  forallb instr_b its = true -> each_compressed consts l its its' -> forallb instr_b its' = true.
Proof.
  intros Hi H. induction H as [|it rs p ls r r' Hc _ IH]; [reflexivity|].
  cbn [forallb] in Hi. apply andb_prop in Hi. destruct Hi as [Hit Hr]. destruct it; try discriminate Hit.
  destruct (compress_instr _ _ _ _ _ _ _ _ _ Hc) as (c1 & n1 & f1 & b1 & ->). cbn [app forallb instr_b andb]. auto.
Qed.

(* length of the bytes of one instruction item *)
Lemma emit_one_len l consts labels pos cls name fs c bs :
  emit_bytes l consts labels pos [IInstr cls name fs c] = Done bs -> zlen bs = if c then 2 else 4.
Proof.
  unfold emit_bytes. cbn [map resolve_immediates].
  destruct (field_get "imm" fs) as [v|].
  - destruct (imm_of _ _ _ _ _) as [z| |]; cbn [obind]; try discriminate.
    cbn [resolve_immediates rev app resolve_instructions].
    destruct (encode_item _ _ _ _ _) as [b| |] eqn:Ee; cbn [obind]; try discriminate.
    cbn [resolve_instructions rev app resolve_blobs obind flat_map chunk_bytes snd]. intros H. apply Done_inj in H. subst bs.
    rewrite app_nil_r. exact (Pipeline.encode_item_len _ _ _ _ _ _ Ee).
  - cbn [obind resolve_immediates rev app resolve_instructions].
    destruct (encode_item _ _ _ _ _) as [b| |] eqn:Ee; cbn [obind]; try discriminate.
    cbn [resolve_instructions rev app resolve_blobs obind flat_map chunk_bytes snd]. intros H. apply Done_inj in H. subst bs.
    rewrite app_nil_r. exact (Pipeline.encode_item_len _ _ _ _ _ _ Ee).
Qed.

(* ---- a one-instruction pseudo between two labels:  t0: <pseudo> ; t2: ---------------------------------------------------------- *)
Lemma labels_after3 t0 t2 (b : bool) :
  (if 4 - ((if b then 2 else 4) + 0) >? 0 then shrink_after 0 (4 - ((if b then 2 else 4) + 0)) [(t0, 0); (t2, 4)] else [(t0, 0); (t2, 4)])
  = [(t0, 0); (t2, (if b then 2 else 4) + 0)].
Proof. destruct b; reflexivity. Qed.
Lemma aligns_label_instr_label l0 l1 l2 c n f b t0 t2 ls :
  resolve_aligns [(l0, ILabel t0); (l1, IInstr c n f b); (l2, ILabel t2)] ls
  = Done ([(l0, ILabel t0); (l1, IInstr c n f b); (l2, ILabel t2)], ls).
Proof.
  unfold resolve_aligns. cbn [gpass align_rule size_o Passes.size sizes obind]. cbv zeta.
  destruct b; reflexivity.
Qed.

Lemma one_instr_between_labels l0 l1 l2 n args pimm t0 t2 r cls nm fs :
  is_big_pseudo n = false -> expand_pseudo l1 n args pimm = Done (One (IInstr cls nm fs false)) ->
  assemble_items [(l0, ILabel t0); (l1, IPseudo n args pimm); (l2, ILabel t2)] [] [] true = Done r ->
  exists rs len, compress_rule [] l1 (IInstr cls nm fs false) 0 [(t0, 0); (t2, 4)] = Done rs /\ sizes rs = Done len /\
    zlen (flat_map chunk_bytes (r_chunks r)) = len /\
    r_labels r = [(t0, 0); (t2, len)] /\ emit_bytes l1 [] [(t0, 0); (t2, len)] 0 rs = Done (flat_map chunk_bytes (r_chunks r)).
Proof.
  intros Hbig He H. unfold assemble_items in H.
  cbn [resolve_constants_lr obind rev app resolve_labels resolve_labels_from size_o Passes.size mem_str existsb dict_set orb] in H.
  rewrite Hbig in H. cbn [obind Z.add] in H.
  destruct (String.eqb t2 t0) eqn:Et; cbn [orb obind] in H; [discriminate|].
  rewrite aliases_nil in H. unfold transform_compressible, transform_pseudo in H.
  cbn [gpass size_o Passes.size obind compress_rule sizes] in H. rewrite Hbig in H. cbn [obind] in H. cbv zeta in H.
  change (4 - (4 + 0) >? 0) with false in H. cbn [gpass rev_append rev app obind size_o Passes.size map] in H.
  unfold pseudo_rule in H. rewrite He in H. cbn [obind sizes size_o Passes.size] in H. rewrite Hbig in H. cbn [obind] in H. cbv zeta in H.
  change (4 - (4 + 0) >? 0) with false in H. cbn [gpass rev_append rev app obind size_o Passes.size map] in H.
  rewrite aliases_nil in H. cbn [gpass size_o Passes.size obind] in H.
  destruct (compress_rule [] l1 (IInstr cls nm fs false) 0 [(t0, 0); (t2, 4)]) as [rs| |] eqn:Ec; cbn [obind] in H; try discriminate.
  destruct (compress_instr _ _ _ _ _ _ _ _ _ Ec) as (c1 & n1 & f1 & b1 & ->).
  cbn [sizes size_o Passes.size obind] in H. cbv zeta in H.
  exists [IInstr c1 n1 f1 b1], ((if b1 then 2 else 4) + 0). split; [reflexivity|]. split; [reflexivity|].
  match goal with |- ?A /\ ?B /\ ?C => cut (B /\ C); [intros [HB HC]; split; [|split; assumption];
    rewrite Z.add_0_r; exact (emit_one_len _ _ _ _ _ _ _ _ _ HC)|] end.
  rewrite labels_after3 in H. cbn [gpass rev_append map rev app] in H. rewrite aligns_label_instr_label in H. cbn [obind] in H.
  set (ls := [(t0, 0); (t2, (if b1 then 2 else 4) + 0)]) in *. clearbody ls.
  unfold emit_bytes. cbn [map resolve_immediates size_o Passes.size obind] in H |- *. change (0 + 0) with 0 in H.
  destruct (field_get "imm" f1) as [v|].
  - destruct (imm_of l1 _ [] ls v) as [z| |]; cbn [obind] in H |- *; try discriminate.
    cbn [resolve_immediates size_o Passes.size obind rev app resolve_instructions] in H |- *.
    destruct (encode_item l1 c1 n1 _ b1) as [bs| |]; cbn [obind] in H |- *; try discriminate.
    cbn [resolve_instructions rev app resolve_strings map resolve_sequences transform_shorthand resolve_packs resolve_include_bytes
         resolve_blobs obind] in H |- *.
    apply Done_inj in H. subst r. split; reflexivity.
  - cbn [resolve_immediates size_o Passes.size obind rev app resolve_instructions] in H |- *.
    destruct (encode_item l1 c1 n1 _ b1) as [bs| |]; cbn [obind] in H |- *; try discriminate.
    cbn [resolve_instructions rev app resolve_strings map resolve_sequences transform_shorthand resolve_packs resolve_include_bytes
         resolve_blobs obind] in H |- *.
    apply Done_inj in H. subst r. split; reflexivity.
Qed.
