(* Whole-pipeline layout facts about the model [assemble_items] (Model/Passes.v):
   the label table is exact at the end, every source item yields its own contiguous group of chunks, sizes
   announced by size() are the sizes finally emitted, alignment pads minimally, immediates are evaluated on
   final positions and final labels. *)
From Coq Require Import ZArith List Bool Lia String ZifyBool.
From BB Require Import Base.PyBase Gen.Encoders Gen.Criteria Model.Items Model.Encode Model.Passes
  Proofs.Layout Proofs.LayoutInst.
Import ListNotations.
Open Scope Z_scope.
Local Notation "a <<= b" := (Z.le a b) (at level 70).

(* ---- dictionaries ------------------------------------------------------------------------------------------ *)
Lemma assoc_dict_set_same {V} k (v : V) l : assoc_str k (dict_set k v l) = Some v.
Proof.
  induction l as [|[k' v'] r IH]; simpl. rewrite String.eqb_refl; reflexivity.
  destruct (String.eqb k k') eqn:E; simpl; rewrite E; auto.
Qed.
Lemma assoc_dict_set_other {V} k k' (v : V) l : k <> k' -> assoc_str k (dict_set k' v l) = assoc_str k l.
Proof.
  intro Hne. induction l as [|[k2 v2] r IH]; simpl.
  - destruct (String.eqb k k') eqn:E; auto. apply String.eqb_eq in E; contradiction.
  - destruct (String.eqb k' k2) eqn:E2; simpl.
    + apply String.eqb_eq in E2; subst k2. destruct (String.eqb k k') eqn:E; auto.
      apply String.eqb_eq in E; contradiction.
    + destruct (String.eqb k k2); auto.
Qed.

(* ---- resolve_labels establishes exactness (and refuses duplicate labels) ------------------------------------------ *)
Lemma rlf_step l it r pos ls d :
  resolve_labels_from ((l, it) :: r) pos ls d =
  match is_label it with
  | Some n => if mem_str n d then Fail (PAsm l) else resolve_labels_from r pos (dict_set n pos ls) (n :: d)
  | None => n <<- size_o it ;;; resolve_labels_from r (pos + n) ls d
  end.
Proof. destruct it; reflexivity. Qed.

Lemma mem_str_false n d : mem_str n d = false -> ~ In n d.
Proof.
  unfold mem_str. intros H Hin. assert (existsb (String.eqb n) d = true).
  { apply existsb_exists. exists n. split; auto. apply String.eqb_refl. }
  congruence.
Qed.

(* a successful resolve_labels means the label names are pairwise distinct *)
Lemma rlf_nodup its : forall pos ls d ls',
  resolve_labels_from its pos ls d = Done ls' -> NoDup (gnames its) /\ (forall n, In n (gnames its) -> ~ In n d).
Proof.
  induction its as [|[l it] r IH]; intros pos ls d ls' H.
  - simpl. split. constructor. intros n [].
  - rewrite rlf_step in H. simpl. destruct (is_label it) as [n|].
    + destruct (mem_str n d) eqn:Em; try discriminate.
      destruct (IH _ _ _ _ H) as [Hnd Hd]. split.
      * constructor; auto. intro Hin. apply (Hd n Hin). left; reflexivity.
      * intros m [<-|Hm]. apply mem_str_false; auto. intro Hin. apply (Hd m Hm). right; exact Hin.
    + destruct (size_o it) as [k| |]; simpl in H; try discriminate. eapply IH; eauto.
Qed.

Lemma rlf_other its : forall pos ls d ls' L,
  resolve_labels_from its pos ls d = Done ls' -> ~ In L (gnames its) -> assoc_str L ls' = assoc_str L ls.
Proof.
  induction its as [|[l it] r IH]; intros pos ls d ls' L H Hn.
  - simpl in H. inversion H; reflexivity.
  - rewrite rlf_step in H. simpl in Hn. destruct (is_label it) as [n|].
    + destruct (mem_str n d); try discriminate.
      rewrite (IH _ _ _ _ L H). apply assoc_dict_set_other. intro; subst; apply Hn; left; auto.
      intro; apply Hn; right; auto.
    + destruct (size_o it) as [k| |]; simpl in H; try discriminate. eapply IH; eauto.
Qed.

Lemma rlf_exact its : forall pos ls d ls',
  resolve_labels_from its pos ls d = Done ls' ->
  forall L q, goff L its = Some q -> assoc_str L ls' = Some (pos + q).
Proof.
  induction its as [|[l it] r IH]; intros pos ls d ls' H L q Hg.
  - simpl in Hg. discriminate.
  - pose proof (rlf_nodup _ _ _ _ _ H) as [Hnd _].
    rewrite rlf_step in H. simpl in Hg, Hnd. destruct (is_label it) as [n|] eqn:El.
    + destruct (mem_str n d); try discriminate.
      inversion Hnd as [|? ? N1 N2]; subst.
      destruct (String.eqb L n) eqn:E.
      * apply String.eqb_eq in E; subst L. inversion Hg; subst q.
        rewrite (rlf_other _ _ _ _ _ n H N1), assoc_dict_set_same. f_equal; lia.
      * eapply IH; eauto.
    + destruct (size_o it) as [k| |] eqn:Es; simpl in H; try discriminate.
      destruct (goff L r) as [q'|] eqn:Eg; simpl in Hg; inversion Hg; subst q.
      rewrite (IH _ _ _ _ H L q' Eg). rewrite (size_o_isz _ _ Es). f_equal; lia.
Qed.

Lemma resolve_labels_nodup its ls ls' : resolve_labels its 0 ls = Done ls' -> NoDup (gnames its).
Proof. unfold resolve_labels. intro H. exact (proj1 (rlf_nodup _ _ _ _ _ H)). Qed.
Lemma resolve_labels_exact its ls ls' : resolve_labels its 0 ls = Done ls' -> exact its ls'.
Proof. unfold resolve_labels. intros H L q Hg. rewrite (rlf_exact its 0 ls [] ls' H L q Hg). reflexivity. Qed.

(* ---- size-preserving item-wise passes ------------------------------------------------------------------------- *)
(* same line, same label-ness, same size *)
Definition same1 (x y : litem) : Prop :=
  fst x = fst y /\ is_label (snd x) = is_label (snd y) /\ isz (snd x) = isz (snd y) /\ (wfi (snd x) -> wfi (snd y)) /\
  (forall d, snd x = IBlob d -> snd y = IBlob d).          (* finished blobs are never touched again *)

Lemma same1_refl x : same1 x x. Proof. unfold same1; auto. Qed.
Lemma same1_trans x y z : same1 x y -> same1 y z -> same1 x z.
Proof. intros (A&B&C&D&E) (A'&B'&C'&D'&E'). unfold same1. split; [congruence|split; [congruence|split; [congruence|split; auto]]]. Qed.
Lemma Forall2_same1_refl l : Forall2 same1 l l.
Proof. induction l; constructor; auto using same1_refl. Qed.
Lemma Forall2_same1_trans a : forall b c, Forall2 same1 a b -> Forall2 same1 b c -> Forall2 same1 a c.
Proof.
  induction a; intros b c H1 H2; inversion H1; subst; inversion H2; subst; constructor; eauto using same1_trans.
Qed.

Lemma same_goff L a b : Forall2 same1 a b -> goff L a = goff L b.
Proof.
  induction 1 as [|[l1 x] [l2 y] a b (A&B&C&D&E) _ IH]; simpl in *; auto.
  rewrite <- B, <- C, IH. reflexivity.
Qed.
Lemma same_gnames a b : Forall2 same1 a b -> gnames a = gnames b.
Proof.
  induction 1 as [|[l1 x] [l2 y] a b (A&B&C&D&E) _ IH]; simpl in *; auto.
  rewrite <- B, IH. reflexivity.
Qed.
Lemma same_nonneg a b : Forall2 same1 a b -> nonneg a -> nonneg b.
Proof.
  induction 1 as [|x y a b (A&B&C&D&E) _ IH]; intro H; inversion H; subst; constructor; auto. apply IH; auto.
Qed.
Lemma same_total a b : Forall2 same1 a b -> total a = total b.
Proof. induction 1 as [|x y a b (A&B&C&D&E) _ IH]; unfold total in *; simpl; congruence. Qed.
Lemma same_exact a b ls : Forall2 same1 a b -> exact a ls -> exact b ls.
Proof. intros H He L q Hg. apply He. rewrite (same_goff L a b H). exact Hg. Qed.

Ltac same1_tac := unfold same1; cbn [fst snd is_label]; split; [reflexivity|split; [reflexivity|split; [try reflexivity|split; [|intros ? ?; discriminate]]]].
Lemma isz_instr cls name fs c : isz (IInstr cls name fs c) = if c then 2 else 4.
Proof. reflexivity. Qed.

Lemma aliases_same its consts : Forall2 same1 its (resolve_register_aliases its consts).
Proof.
  unfold resolve_register_aliases. induction its as [|[l it] r IH]; simpl; constructor; auto.
  destruct it; try apply same1_refl. same1_tac. intros _. apply wfi_instr.
Qed.

(* a generic principle for the accumulator-style passes: if one step maps an item to one item of the same
   shape, the pass is a Forall2 *)
Lemma rev_acc_F2 (acc its out' : list litem) (out : list litem) :
  out = app (rev acc) out' -> True. Proof. auto. Qed.

(* resolve_immediates *)
Lemma resolve_immediates_same its : forall pos consts labels acc out,
  resolve_immediates its pos consts labels acc = Done out ->
  exists out', out = app (rev acc) out' /\ Forall2 same1 its out'.
Proof.
  induction its as [|[l it] r IH]; intros pos consts labels acc out H.
  - simpl in H. inversion H. exists []. rewrite app_nil_r. split; auto.
  - destruct it; cbn [resolve_immediates] in H;
      try (match type of H with
           | (_ <<- size_o ?i ;;; _) = _ => destruct (size_o i) as [k| |]; cbn [obind] in H; try discriminate
           end;
           destruct (IH _ _ _ _ _ H) as (o' & -> & F); eexists; split;
           [ simpl; rewrite <- app_assoc; reflexivity | constructor; [apply same1_refl | exact F] ]).
    + (* IInstr *)
      destruct (field_get "imm" fields) as [v|].
      * destruct (imm_of _ _ _ _ v) as [imm| |]; simpl in H; try discriminate.
        destruct (IH _ _ _ _ _ H) as (o' & -> & F). eexists; split.
        simpl; rewrite <- app_assoc; reflexivity.
        constructor; [|exact F]. same1_tac. intros _; apply wfi_instr.
      * destruct (IH _ _ _ _ _ H) as (o' & -> & F). eexists; split.
        simpl; rewrite <- app_assoc; reflexivity. constructor; [apply same1_refl | exact F].
    + (* IPack *)
      destruct (imm_of _ _ _ _ imm) as [v| |]; simpl in H; try discriminate.
      destruct (size_o (IPack fmt imm)) as [k| |] eqn:Es; simpl in H; try discriminate.
      destruct (IH _ _ _ _ _ H) as (o' & -> & F). eexists; split.
      simpl; rewrite <- app_assoc; reflexivity.
      constructor; [|exact F]. same1_tac.
      intros [W1 W2]; split; [exact W1 | intros n Hn; discriminate].
    + (* IShort *)
      destruct (imm_of _ _ _ _ imm) as [v| |]; simpl in H; try discriminate.
      destruct (size_o (IShort name imm)) as [k| |] eqn:Es; simpl in H; try discriminate.
      destruct (IH _ _ _ _ _ H) as (o' & -> & F). eexists; split.
      simpl; rewrite <- app_assoc; reflexivity.
      constructor; [|exact F]. same1_tac.
      intros [W1 W2]; split; [exact W1 | intros n Hn; discriminate].
Qed.

(* ---- struct.pack lengths ------------------------------------------------------------------------------------------ *)
Lemma le_bytes_length n v : List.length (le_bytes n v) = n.
Proof. revert v; induction n; simpl; intro v; auto. Qed.
Lemma code_size_pos std c n s : code_size std c = Some (n, s) -> 0 < n.
Proof.
  unfold code_size.
  repeat match goal with |- context[if ?b then _ else _] => destruct b end;
  intro H; inversion H; lia.
Qed.
Lemma struct_pack_len f z bs :
  struct_pack f z = Some (Ok bs) -> calcsize f = Some (zlen bs).
Proof.
  unfold struct_pack, calcsize. destruct (fmt_parse f) as [[[little std] c]|]; try discriminate.
  destruct (code_size std c) as [[n signed]|] eqn:Ec; try discriminate.
  pose proof (code_size_pos _ _ _ _ Ec) as Hn.
  destruct (_ || _); intro H; inversion H; subst.
  unfold zlen. destruct little; rewrite ?rev_length, le_bytes_length, Z2Nat.id by lia; reflexivity.
Qed.

Lemma isz_pack f v : isz (IPack f v) = match calcsize f with Some n => n | None => 0 end.
Proof. unfold isz; simpl. destruct (calcsize f); reflexivity. Qed.
Lemma isz_blob d : isz (IBlob d) = zlen d. Proof. reflexivity. Qed.
Lemma wfi_blob d : wfi (IBlob d).
Proof. split. rewrite isz_blob. unfold zlen; lia. intros n H; discriminate. Qed.

(* resolve_instructions *)
Lemma encode_item_len l cls name fs c bs : encode_item l cls name fs c = Done bs -> zlen bs = if c then 2 else 4.
Proof.
  unfold encode_item. destruct (if is_atomic_cls cls then _ else _) as [code|e].
  - intro H; inversion H. unfold zlen. rewrite le_bytes_length. destruct c; reflexivity.
  - destruct e; discriminate.
Qed.
Lemma resolve_instructions_same its : forall acc out,
  resolve_instructions its acc = Done out ->
  exists out', out = app (rev acc) out' /\ Forall2 same1 its out'.
Proof.
  induction its as [|[l it] r IH]; intros acc out H.
  - simpl in H. inversion H. exists []. rewrite app_nil_r. split; auto.
  - destruct it; cbn [resolve_instructions] in H;
      try (destruct (IH _ _ H) as (o' & -> & F); eexists; split;
           [ simpl; rewrite <- app_assoc; reflexivity | constructor; [apply same1_refl | exact F] ]).
    destruct (encode_item l cls name fields compressed) as [bs| |] eqn:Ee; cbn [obind] in H; try discriminate.
    destruct (IH _ _ H) as (o' & -> & F). eexists; split.
    simpl; rewrite <- app_assoc; reflexivity.
    constructor; [|exact F]. same1_tac.
    + rewrite isz_instr, isz_blob. symmetry. eapply encode_item_len; eauto.
    + intros _. apply wfi_blob.
Qed.

(* resolve_strings *)
Lemma resolve_strings_same its : Forall2 same1 its (resolve_strings its).
Proof.
  unfold resolve_strings. induction its as [|[l it] r IH]; simpl; constructor; auto.
  destruct it; try apply same1_refl. same1_tac. intros _; apply wfi_blob.
Qed.

(* resolve_sequences *)
Lemma seq_elem_len name f w :
  seq_fmt name = Some f -> seq_width name = Some w ->
  forall z bs, struct_pack (String.append "<" (if z <? 0 then lower f else f)) z = Some (Ok bs) -> zlen bs = w.
Proof.
  unfold seq_fmt, seq_width. cbn [assoc_str].
  repeat match goal with
         | |- context[if String.eqb name ?s then _ else _] => destruct (String.eqb name s)
         end; intros Hf Hw; inversion Hf; inversion Hw; subst; intros z bs H;
  apply struct_pack_len in H; destruct (z <? 0);
  match type of H with ?a = _ => let v := eval vm_compute in a in change a with v in H end;
  inversion H; reflexivity.
Qed.
Lemma seq_bytes_len name f w : seq_fmt name = Some f -> seq_width name = Some w ->
  forall l vals bs, seq_bytes l f vals = Done bs -> zlen bs = w * zlen vals.
Proof.
  intros Hf Hw l. induction vals as [|v vals IH]; intros bs H; simpl in H.
  - inversion H. unfold zlen; simpl; lia.
  - destruct (py_int_lit v) as [z|]; try discriminate.
    destruct (struct_pack _ z) as [[b|e]|] eqn:Es; try discriminate.
    destruct (seq_bytes l f vals) as [rest| |]; cbn [obind] in H; try discriminate. inversion H; subst.
    pose proof (seq_elem_len _ _ _ Hf Hw z b Es) as Hb. specialize (IH rest eq_refl).
    unfold zlen in *. rewrite app_length. simpl List.length. lia.
Qed.
Lemma seq_keys name : seq_width name = None -> seq_fmt name = None.
Proof.
  unfold seq_fmt, seq_width. cbn [assoc_str].
  repeat match goal with
         | |- context[if String.eqb name ?s then _ else _] => destruct (String.eqb name s)
         end; intro H; try discriminate; reflexivity.
Qed.
Lemma isz_seq name vals : isz (ISeq name vals) = match seq_width name with Some w => w * zlen vals | None => 0 end.
Proof. unfold isz; simpl. destruct (seq_width name); reflexivity. Qed.
Lemma resolve_sequences_same its : forall acc out,
  resolve_sequences its acc = Done out ->
  exists out', out = app (rev acc) out' /\ Forall2 same1 its out'.
Proof.
  induction its as [|[l it] r IH]; intros acc out H.
  - simpl in H. inversion H. exists []. rewrite app_nil_r. split; auto.
  - destruct it; cbn [resolve_sequences] in H;
      try (destruct (IH _ _ H) as (o' & -> & F); eexists; split;
           [ simpl; rewrite <- app_assoc; reflexivity | constructor; [apply same1_refl | exact F] ]).
    destruct (negb (all_ints vals)); try discriminate.
    destruct (seq_fmt name) as [f|] eqn:Ef; try discriminate.
    destruct (seq_bytes l f vals) as [bs| |] eqn:Eb; cbn [obind] in H; try discriminate.
    destruct (IH _ _ H) as (o' & -> & F). eexists; split.
    simpl; rewrite <- app_assoc; reflexivity.
    constructor; [|exact F]. same1_tac.
    + rewrite isz_seq, isz_blob. destruct (seq_width name) as [w|] eqn:Ew.
      * symmetry. eapply seq_bytes_len; eauto.
      * rewrite (seq_keys _ Ew) in Ef. discriminate.
    + intros _. apply wfi_blob.
Qed.

(* transform_shorthand *)
Lemma short_calcsize name f w z :
  short_fmt name = Some f -> short_width name = Some w ->
  calcsize (String.append "<" (if z <? 0 then lower f else f)) = Some w.
Proof.
  unfold short_fmt, short_width. cbn [assoc_str].
  repeat match goal with
         | |- context[if String.eqb name ?s then _ else _] => destruct (String.eqb name s)
         end; intros Hf Hw; inversion Hf; inversion Hw; subst; destruct (z <? 0); reflexivity.
Qed.
Lemma short_keys name : short_width name = None -> short_fmt name = None.
Proof.
  unfold short_fmt, short_width. cbn [assoc_str].
  repeat match goal with
         | |- context[if String.eqb name ?s then _ else _] => destruct (String.eqb name s)
         end; intro H; try discriminate; reflexivity.
Qed.
Lemma isz_short name v : isz (IShort name v) = match short_width name with Some w => w | None => 0 end.
Proof. unfold isz; simpl. destruct (short_width name); reflexivity. Qed.
Lemma transform_shorthand_same its : forall acc out,
  transform_shorthand its acc = Done out ->
  exists out', out = app (rev acc) out' /\ Forall2 same1 its out'.
Proof.
  induction its as [|[l it] r IH]; intros acc out H.
  - simpl in H. inversion H. exists []. rewrite app_nil_r. split; auto.
  - destruct it; cbn [transform_shorthand] in H;
      try (destruct (IH _ _ H) as (o' & -> & F); eexists; split;
           [ simpl; rewrite <- app_assoc; reflexivity | constructor; [apply same1_refl | exact F] ]).
    destruct imm; try discriminate.
    destruct (short_fmt name) as [f|] eqn:Ef; try discriminate.
    destruct (IH _ _ H) as (o' & -> & F). eexists; split.
    simpl; rewrite <- app_assoc; reflexivity.
    constructor; [|exact F]. same1_tac.
    + rewrite isz_short, isz_pack. destruct (short_width name) as [w|] eqn:Ew.
      * pose proof (short_calcsize _ _ _ z Ef Ew) as Hc; cbn [String.append] in Hc; rewrite Hc. reflexivity.
      * rewrite (short_keys _ Ew) in Ef. discriminate.
    + intros [W1 W2]. split; [|intros n Hn; discriminate].
      rewrite isz_short in W1. rewrite isz_pack. destruct (short_width name) as [w|] eqn:Ew.
      * pose proof (short_calcsize _ _ _ z Ef Ew) as Hc; cbn [String.append] in Hc; rewrite Hc. exact W1.
      * rewrite (short_keys _ Ew) in Ef. discriminate.
Qed.

(* resolve_packs *)
Lemma resolve_packs_same its : forall acc out,
  resolve_packs its acc = Done out ->
  exists out', out = app (rev acc) out' /\ Forall2 same1 its out'.
Proof.
  induction its as [|[l it] r IH]; intros acc out H.
  - simpl in H. inversion H. exists []. rewrite app_nil_r. split; auto.
  - destruct it; cbn [resolve_packs] in H;
      try (destruct (IH _ _ H) as (o' & -> & F); eexists; split;
           [ simpl; rewrite <- app_assoc; reflexivity | constructor; [apply same1_refl | exact F] ]).
    destruct imm; try discriminate.
    destruct (struct_pack fmt z) as [[bs|e]|] eqn:Es; try discriminate.
    destruct (IH _ _ H) as (o' & -> & F). eexists; split.
    simpl; rewrite <- app_assoc; reflexivity.
    constructor; [|exact F]. same1_tac.
    + rewrite isz_pack, isz_blob, (struct_pack_len _ _ _ Es). reflexivity.
    + intros _. apply wfi_blob.
Qed.

(* resolve_include_bytes *)
Lemma resolve_include_bytes_same its : forall acc out,
  resolve_include_bytes its acc = Done out ->
  exists out', out = app (rev acc) out' /\ Forall2 same1 its out'.
Proof.
  induction its as [|[l it] r IH]; intros acc out H.
  - simpl in H. inversion H. exists []. rewrite app_nil_r. split; auto.
  - destruct it; cbn [resolve_include_bytes] in H;
      try (destruct (IH _ _ H) as (o' & -> & F); eexists; split;
           [ simpl; rewrite <- app_assoc; reflexivity | constructor; [apply same1_refl | exact F] ]).
    destruct actual as [n|]; try discriminate. destruct (n =? size); try discriminate.
    destruct (IH _ _ H) as (o' & -> & F). eexists; split.
    simpl; rewrite <- app_assoc; reflexivity. constructor; [apply same1_refl | exact F].
Qed.

(* ---- resolve_constants drops the constant definitions and nothing else ----------------------------------------- *)
Definition not_const (x : litem) : bool := match snd x with IConst _ _ => false | _ => true end.
Lemma resolve_constants_filter its : forall consts acc out consts',
  resolve_constants_lr its consts acc = Done (out, consts') -> out = app (rev acc) (filter not_const its).
Proof.
  induction its as [|[l it] r IH]; intros consts acc out consts' H.
  - simpl in H. inversion H. simpl. rewrite app_nil_r. reflexivity.
  - destruct it; cbn [resolve_constants_lr] in H;
      try (rewrite (IH _ _ _ _ H); simpl; rewrite <- app_assoc; reflexivity).
    destruct e; try discriminate;
      (destruct (mem_str name reg_names); try discriminate; destruct (is_int name); try discriminate;
       match type of H with (_ <<- ?x ;;; _) = _ => destruct x as [v| |]; cbn [obind] in H; try discriminate end;
       rewrite (IH _ _ _ _ H); reflexivity).
Qed.
Lemma filter_goff L its : goff L (filter not_const its) = goff L its.
Proof.
  induction its as [|[l it] r IH]; simpl; auto.
  destruct it; simpl; rewrite ?IH; auto.
  destruct (goff L r); simpl; auto.
Qed.
Lemma filter_gnames its : gnames (filter not_const its) = gnames its.
Proof. induction its as [|[l it] r IH]; simpl; auto. destruct it; simpl; rewrite ?IH; auto. Qed.
Lemma filter_nonneg its : nonneg its -> nonneg (filter not_const its).
Proof. unfold nonneg. intro H. apply Forall_forall. intros x Hx. apply filter_In in Hx. destruct Hx as [Hx _].
  rewrite Forall_forall in H. auto. Qed.
Lemma filter_keep its : grouped Rkeep its (filter not_const its).
Proof.
  induction its as [|[l it] r IH]; simpl. constructor.
  destruct it; simpl;
    try (match goal with |- grouped _ (?x :: _) (?x :: ?t) => change (x :: t) with (app [x] t) end;
         constructor; [unfold Rkeep; simpl; repeat constructor | exact IH]).
  change (filter not_const r) with (app [] (filter not_const r)). constructor; auto. left; reflexivity.
Qed.

(* ---- register aliases: instructions stay instructions, everything else untouched -------------------------------- *)
Lemma aliases_keep its consts : grouped Rkeep its (resolve_register_aliases its consts).
Proof.
  unfold resolve_register_aliases. induction its as [|[l it] r IH]; simpl. constructor.
  match goal with |- grouped _ _ (?y :: ?t) => change (y :: t) with (app [y] t) end.
  constructor; auto. destruct it; unfold Rkeep; simpl; auto; repeat constructor.
Qed.

(* ---- alignment ---------------------------------------------------------------------------------------------------- *)
(* what resolve_aligns does with the item standing at OUTPUT offset p *)
Definition Ralign (p : Z) (x : litem) (g : list litem) : Prop :=
  match snd x with
  | IAlign n => 1 <<= n ->
      let pad := (n - p mod n) mod n in
      g = (if pad =? 0 then [] else [(fst x, IZeros pad)]) /\ total g = pad /\ 0 <<= pad /\ pad < n /\ (p + pad) mod n = 0
  | _ => g = [x]
  end.
Lemma align_group p x g : pass_group align_rule p x g -> Ralign p x g.
Proof.
  destruct x as [l it]. unfold pass_group, Ralign; simpl. destruct (is_label it) as [k|] eqn:El.
  - intros ->. rewrite (is_label_inv _ _ El). reflexivity.
  - intros (ls0 & rs & Hr & ->). pose proof (align_rule_keep _ _ _ _ _ Hr) as Hk.
    destruct it; try (subst rs; reflexivity).
    intro Hn. cbv beta iota delta [align_rule] in Hr.
    destruct (n =? 0) eqn:E0; [lia|]. cbv zeta in Hr.
    pose proof (Z.mod_pos_bound p n ltac:(lia)) as Hm.
    assert (Hpad : (if n - p mod n =? n then 0 else n - p mod n) = (n - p mod n) mod n).
    { destruct (n - p mod n =? n) eqn:E1.
      - assert (p mod n = 0) by lia. replace (n - p mod n) with n by lia. rewrite Z.mod_same by lia. reflexivity.
      - symmetry; apply Z.mod_small; lia. }
    rewrite Hpad in Hr. set (pad := (n - p mod n) mod n) in *.
    assert (Hb : 0 <<= pad /\ pad < n) by (subst pad; split; [apply Z.mod_pos_bound | apply Z.mod_pos_bound]; lia).
    assert (Hz : (p + pad) mod n = 0).
    { subst pad. rewrite Zplus_mod_idemp_r. replace (p + (n - p mod n)) with (p - p mod n + 1 * n) by lia.
      rewrite Z.mod_add by lia. rewrite Zminus_mod_idemp_r. rewrite Z.sub_diag. apply Z.mod_0_l. lia. }
    destruct (pad =? 0) eqn:Ep; inversion Hr; subst rs; simpl.
    + repeat split; auto; try lia.
    + repeat split; auto; try lia; unfold total, isz; simpl; lia.
Qed.

(* ---- resolve_blobs --------------------------------------------------------------------------------------------------- *)
Definition chunk_len (c : chunk) : Z :=
  match c with CBytes bs => zlen bs | CZeros n => Z.max n 0 | CFill _ n => n | CFile _ sz => sz end.
(* the chunk a final item turns into *)
Definition chunk_of (it : item) : option chunk :=
  match it with
  | IBlob bs => Some (CBytes bs) | IZeros n => Some (CZeros n) | IFill b n => Some (CFill b n)
  | IIncBytes p sz _ => Some (CFile p sz) | _ => None
  end.
Inductive blobbed : list litem -> list (line * chunk) -> Prop :=
| bl_nil : blobbed [] []
| bl_label l n r cs : blobbed r cs -> blobbed ((l, ILabel n) :: r) cs
| bl_item l it c r cs : chunk_of it = Some c -> chunk_len c = isz it -> blobbed r cs -> blobbed ((l, it) :: r) ((l, c) :: cs).
Lemma resolve_blobs_blobbed its : forall cs, resolve_blobs its = Done cs -> blobbed its cs.
Proof.
  induction its as [|[l it] r IH]; intros cs H.
  - simpl in H. inversion H. constructor.
  - destruct it; cbn [resolve_blobs] in H; try discriminate;
      try (destruct (resolve_blobs r) as [rest| |]; cbn [obind] in H; try discriminate; inversion H; subst;
           eapply bl_item; [reflexivity | reflexivity | apply IH; reflexivity]).
    constructor. apply IH. exact H.
Qed.

(* ---- immediates are evaluated on final positions with the final label table ---------------------------------- *)
Fixpoint pF2 (R : Z -> litem -> litem -> Prop) (p : Z) (a b : list litem) : Prop :=
  match a, b with
  | [], [] => True
  | x :: a', y :: b' => R p x y /\ pF2 R (p + isz (snd x)) a' b'
  | _, _ => False
  end.
Definition back_of (fs : list (string * fval)) : Z :=
  match field_get "is_auipc_jump" fs with Some (FBool true) => 4 | _ => 0 end.
Definition Rimm (consts labels : envt) (p : Z) (x y : litem) : Prop :=
  fst x = fst y /\
  match snd x with
  | IInstr cls name fs c =>
      match field_get "imm" fs with
      | Some v => exists z, imm_of (fst x) (p - back_of fs) consts labels v = Done z /\
                            snd y = IInstr cls name (field_set "imm" (FInt z) fs) c
      | None => snd y = snd x
      end
  | IPack f v => exists z, imm_of (fst x) p consts labels v = Done z /\ snd y = IPack f (FInt z)
  | IShort nm v => exists z, imm_of (fst x) p consts labels v = Done z /\ snd y = IShort nm (FInt z)
  | _ => snd y = snd x
  end.
Lemma resolve_immediates_spec its : forall pos consts labels acc out,
  resolve_immediates its pos consts labels acc = Done out ->
  exists out', out = app (rev acc) out' /\ pF2 (Rimm consts labels) pos its out'.
Proof.
  induction its as [|[l it] r IH]; intros pos consts labels acc out H.
  - simpl in H. inversion H. exists []. rewrite app_nil_r. split; simpl; auto.
  - destruct it; cbn [resolve_immediates] in H;
      try (match type of H with
           | (_ <<- size_o ?i ;;; _) = _ => destruct (size_o i) as [k| |] eqn:Es; cbn [obind] in H; try discriminate
           end;
           destruct (IH _ _ _ _ _ H) as (o' & -> & F); eexists; split;
           [ simpl; rewrite <- app_assoc; reflexivity
           | simpl; split; [split; reflexivity | rewrite (size_o_isz _ _ Es); exact F] ]).
    + (* IInstr *)
      destruct (field_get "imm" fields) as [v|] eqn:Ef.
      * destruct (imm_of _ _ _ _ v) as [imm| |] eqn:Ei; cbn [obind] in H; try discriminate.
        destruct (IH _ _ _ _ _ H) as (o' & -> & F). eexists; split.
        simpl; rewrite <- app_assoc; reflexivity.
        simpl. split; [|rewrite isz_instr; exact F]. split; [reflexivity|]. simpl. rewrite Ef. exists imm. split; auto.
      * destruct (IH _ _ _ _ _ H) as (o' & -> & F). eexists; split.
        simpl; rewrite <- app_assoc; reflexivity.
        simpl. split; [|rewrite isz_instr; exact F]. split; [reflexivity|]. simpl. rewrite Ef. reflexivity.
    + (* IPack *)
      destruct (imm_of _ _ _ _ imm) as [v| |] eqn:Ei; cbn [obind] in H; try discriminate.
      destruct (size_o (IPack fmt imm)) as [k| |] eqn:Es; cbn [obind] in H; try discriminate.
      destruct (IH _ _ _ _ _ H) as (o' & -> & F). eexists; split.
      simpl; rewrite <- app_assoc; reflexivity.
      simpl. split; [|rewrite (size_o_isz _ _ Es); exact F]. split; [reflexivity|]. simpl. eauto.
    + (* IShort *)
      destruct (imm_of _ _ _ _ imm) as [v| |] eqn:Ei; cbn [obind] in H; try discriminate.
      destruct (size_o (IShort name imm)) as [k| |] eqn:Es; cbn [obind] in H; try discriminate.
      destruct (IH _ _ _ _ _ H) as (o' & -> & F). eexists; split.
      simpl; rewrite <- app_assoc; reflexivity.
      simpl. split; [|rewrite (size_o_isz _ _ Es); exact F]. split; [reflexivity|]. simpl. eauto.
Qed.

Definition Renc (x y : litem) : Prop :=
  fst x = fst y /\
  match snd x with
  | IInstr cls name fs c => exists bs, encode_item (fst x) cls name fs c = Done bs /\ snd y = IBlob bs
  | _ => snd y = snd x
  end.
Lemma resolve_instructions_spec its : forall acc out,
  resolve_instructions its acc = Done out ->
  exists out', out = app (rev acc) out' /\ Forall2 Renc its out'.
Proof.
  induction its as [|[l it] r IH]; intros acc out H.
  - simpl in H. inversion H. exists []. rewrite app_nil_r. split; auto.
  - destruct it; cbn [resolve_instructions] in H;
      try (destruct (IH _ _ H) as (o' & -> & F); eexists; split;
           [ simpl; rewrite <- app_assoc; reflexivity | constructor; [split; reflexivity | exact F] ]).
    destruct (encode_item l cls name fields compressed) as [bs| |] eqn:Ee; cbn [obind] in H; try discriminate.
    destruct (IH _ _ H) as (o' & -> & F). eexists; split.
    simpl; rewrite <- app_assoc; reflexivity.
    constructor; [|exact F]. split; [reflexivity|]. simpl. eauto.
Qed.

(* an instruction standing at FINAL offset p: its immediate expression evaluated there, with the final labels,
   is the value the encoder receives; the bytes of the encoder are the chunk *)
Definition Rval (consts labels : envt) (p : Z) (x y : litem) : Prop :=
  fst x = fst y /\
  match snd x with
  | IInstr cls name fs c =>
      exists fs' bs, encode_item (fst x) cls name fs' c = Done bs /\ snd y = IBlob bs /\
        match field_get "imm" fs with
        | Some v => exists z, imm_of (fst x) (p - back_of fs) consts labels v = Done z /\ fs' = field_set "imm" (FInt z) fs
        | None => fs' = fs
        end
  | _ => True
  end.
Lemma compose_vals consts labels a : forall p b c d,
  pF2 (Rimm consts labels) p a b -> Forall2 Renc b c -> Forall2 same1 c d -> pF2 (Rval consts labels) p a d.
Proof.
  induction a as [|x a IH]; intros p b c d H1 H2 H3.
  - destruct b; simpl in H1; try contradiction. inversion H2; subst. inversion H3; subst. exact I.
  - destruct b as [|y b]; simpl in H1; try contradiction. destruct H1 as [[Hl Hx] H1].
    inversion H2 as [|? z ? c' [Hl2 Hy] H2']; subst. inversion H3 as [|? w ? d' (Hl3 & _ & _ & _ & Hb) H3']; subst.
    simpl. split; [|eapply IH; eauto]. split; [congruence|].
    destruct (snd x) as [| | cls name fs cmp | | | | | | | | | |] eqn:Ex; auto.
    destruct (field_get "imm" fs) as [v|] eqn:Ef.
    + destruct Hx as (zz & Hi & Hy'). rewrite Hy' in Hy. destruct Hy as (bs & He & Hz).
      exists (field_set "imm" (FInt zz) fs), bs. rewrite <- Hl in He. repeat split; auto. eauto.
    + rewrite Hx in Hy. destruct Hy as (bs & He & Hz).
      exists fs, bs. rewrite <- Hl in He. repeat split; auto.
Qed.

(* ---- the stages -------------------------------------------------------------------------------------------------------- *)
Lemma grouped_keep_refl its : grouped Rkeep its its.
Proof.
  induction its as [|[l it] r IH]. constructor.
  change ((l, it) :: r) with (app [(l, it)] r) at 2. constructor; auto.
  unfold Rkeep; simpl. destruct it; auto; repeat constructor.
Qed.

Lemma gpass_stage rule (Hok : rule_ok rule)
      (Hkeep : forall p x g, pass_group rule p x g -> Rkeep x g) its labels its' labels' :
  gpass rule its 0 labels [] = Done (its', labels') ->
  nonneg its -> NoDup (gnames its) -> exact its labels ->
  exact its' labels' /\ gnames its' = gnames its /\ nonneg its' /\ grouped Rkeep its its'.
Proof.
  intros H Hn Hd He.
  destruct (gpass_exact rule Hok its labels its' labels' Hn Hd He H) as (A & B & C & D).
  repeat split; auto.
  rewrite gpass_gp in H. destruct (gp rule its 0 labels) as [[o ls]| |] eqn:E; simpl in H; try discriminate.
  inversion H; subst. eapply pgrouped_grouped; [exact Hkeep | eapply gp_grouped; eauto].
Qed.

Lemma compress_stage (cmp : bool) its consts labels its' labels' :
  (if cmp then transform_compressible its consts labels else Done (its, labels)) = Done (its', labels') ->
  nonneg its -> NoDup (gnames its) -> exact its labels ->
  exact its' labels' /\ gnames its' = gnames its /\ nonneg its' /\ grouped Rkeep its its'.
Proof.
  destruct cmp.
  - unfold transform_compressible. apply gpass_stage. apply compress_rule_ok. apply compress_group_keep.
  - intros H; inversion H; subst. intros. repeat split; auto. apply grouped_keep_refl.
Qed.

Definition layout_facts (its : list litem) (r : result) : Prop :=
  exists pa al fin,
    nonneg pa /\
    grouped Rkeep its pa /\                 (* code stays code (same line), every other item is kept, constants vanish *)
    pgrouped Ralign 0 pa al /\              (* align N at output offset p -> (N - p mod N) mod N zero bytes *)
    Forall2 same1 al fin /\                 (* the later passes keep line, label-ness and SIZE of every item *)
    blobbed fin (r_chunks r) /\             (* chunks = the non-label items, in order, of exactly these sizes *)
    exact fin (r_labels r) /\               (* label value = total size of the items before its marker *)
    gnames fin = gnames its /\
    pF2 (Rval (r_consts r) (r_labels r)) 0 al fin.   (* immediates: evaluated at the final offset with the final labels *)

Theorem pipeline_layout its c0 l0 cmp r :
  assemble_items its c0 l0 cmp = Done r -> nonneg its -> layout_facts its r /\ NoDup (gnames its).
Proof.
  unfold assemble_items. intros H Hn.
  destruct (resolve_constants_lr its c0 []) as [[its1 consts]| |] eqn:E1; cbn [obind] in H; try discriminate.
  pose proof (resolve_constants_filter _ _ _ _ _ E1) as F1. simpl in F1. subst its1.
  set (i1 := filter not_const its) in *.
  assert (N1 : nonneg i1) by (apply filter_nonneg; auto).
  destruct (resolve_labels i1 0 l0) as [labels| |] eqn:E2; cbn [obind] in H; try discriminate.
  pose proof (resolve_labels_nodup _ _ _ E2) as D1.
  assert (Hd : NoDup (gnames its)) by (unfold i1 in D1; rewrite filter_gnames in D1; exact D1).
  pose proof (resolve_labels_exact _ _ _ E2) as X1.
  set (i2 := resolve_register_aliases i1 consts) in *.
  pose proof (aliases_same i1 consts) as S2. fold i2 in S2.
  assert (N2 : nonneg i2) by (eapply same_nonneg; eauto).
  assert (D2 : NoDup (gnames i2)) by (rewrite <- (same_gnames _ _ S2); auto).
  assert (X2 : exact i2 labels) by (eapply same_exact; eauto).
  destruct (if cmp then transform_compressible i2 consts labels else Done (i2, labels)) as [[i3 lab3]| |] eqn:E3;
    cbn [obind] in H; try discriminate.
  destruct (compress_stage _ _ _ _ _ _ E3 N2 D2 X2) as (X3 & G3 & N3 & K3).
  assert (D3 : NoDup (gnames i3)) by (rewrite G3; auto).
  destruct (transform_pseudo i3 consts lab3) as [[i4 lab4]| |] eqn:E4; cbn [obind] in H; try discriminate.
  destruct (gpass_stage _ (pseudo_rule_ok consts) (pseudo_group_keep consts) _ _ _ _ E4 N3 D3 X3) as (X4 & G4 & N4 & K4).
  assert (D4 : NoDup (gnames i4)) by (rewrite G4; auto).
  set (i5 := resolve_register_aliases i4 consts) in *.
  pose proof (aliases_same i4 consts) as S5. fold i5 in S5.
  assert (N5 : nonneg i5) by (eapply same_nonneg; eauto).
  assert (D5 : NoDup (gnames i5)) by (rewrite <- (same_gnames _ _ S5); auto).
  assert (X5 : exact i5 lab4) by (eapply same_exact; eauto).
  destruct (if cmp then transform_compressible i5 consts lab4 else Done (i5, lab4)) as [[i6 lab6]| |] eqn:E6;
    cbn [obind] in H; try discriminate.
  destruct (compress_stage _ _ _ _ _ _ E6 N5 D5 X5) as (X6 & G6 & N6 & K6).
  assert (D6 : NoDup (gnames i6)) by (rewrite G6; auto).
  destruct (resolve_aligns i6 lab6) as [[i7 lab7]| |] eqn:E7; cbn [obind] in H; try discriminate.
  unfold resolve_aligns in E7.
  destruct (gpass_exact _ align_rule_ok _ _ _ _ N6 D6 X6 E7) as (X7 & G7 & _ & N7).
  assert (A7 : pgrouped Ralign 0 i6 i7).
  { rewrite gpass_gp in E7. destruct (gp align_rule i6 0 lab6) as [[o ls]| |] eqn:E; simpl in E7; try discriminate.
    inversion E7; subst. pose proof (gp_grouped _ _ _ _ _ _ E) as PG. clear - PG.
    induction PG; constructor; auto. apply align_group; auto. }
  destruct (resolve_immediates i7 0 consts lab7 []) as [i8| |] eqn:E8; cbn [obind] in H; try discriminate.
  destruct (resolve_immediates_same _ _ _ _ _ _ E8) as (o8 & Q8 & S8). simpl in Q8. subst o8.
  destruct (resolve_immediates_spec _ _ _ _ _ _ E8) as (o8 & Q8 & V8). simpl in Q8. subst o8.
  destruct (resolve_instructions i8 []) as [i9| |] eqn:E9; cbn [obind] in H; try discriminate.
  destruct (resolve_instructions_same _ _ _ E9) as (o9 & Q9 & S9). simpl in Q9. subst o9.
  destruct (resolve_instructions_spec _ _ _ E9) as (o9 & Q9 & V9). simpl in Q9. subst o9.
  pose proof (resolve_strings_same i9) as S10. set (i10 := resolve_strings i9) in *.
  destruct (resolve_sequences i10 []) as [i11| |] eqn:E11; cbn [obind] in H; try discriminate.
  destruct (resolve_sequences_same _ _ _ E11) as (o11 & Q11 & S11). simpl in Q11. subst o11.
  destruct (transform_shorthand i11 []) as [i12| |] eqn:E12; cbn [obind] in H; try discriminate.
  destruct (transform_shorthand_same _ _ _ E12) as (o12 & Q12 & S12). simpl in Q12. subst o12.
  destruct (resolve_packs i12 []) as [i13| |] eqn:E13; cbn [obind] in H; try discriminate.
  destruct (resolve_packs_same _ _ _ E13) as (o13 & Q13 & S13). simpl in Q13. subst o13.
  destruct (resolve_include_bytes i13 []) as [i14| |] eqn:E14; cbn [obind] in H; try discriminate.
  destruct (resolve_include_bytes_same _ _ _ E14) as (o14 & Q14 & S14). simpl in Q14. subst o14.
  destruct (resolve_blobs i14) as [chunks| |] eqn:E15; cbn [obind] in H; try discriminate.
  inversion H; subst r; clear H. simpl.
  assert (SS : Forall2 same1 i7 i14).
  { repeat (eapply Forall2_same1_trans; [eassumption|]). apply Forall2_same1_refl. }
  split; [|exact Hd]. exists i6, i7, i14. split; [exact N6|]. repeat split; auto.
  - (* its -> i6 *)
    eapply grouped_keep_trans. apply filter_keep. fold i1.
    eapply grouped_keep_trans. apply (aliases_keep i1 consts). fold i2.
    eapply grouped_keep_trans. exact K3.
    eapply grouped_keep_trans. exact K4.
    eapply grouped_keep_trans. apply (aliases_keep i4 consts). fold i5. exact K6.
  - apply resolve_blobs_blobbed; auto.
  - eapply same_exact; eauto.
  - rewrite <- (same_gnames _ _ SS), G7, G6, <- (same_gnames _ _ S5), G4, G3, <- (same_gnames _ _ S2).
    unfold i1. apply filter_gnames.
  - eapply compose_vals; [exact V8 | exact V9 |].
    repeat (eapply Forall2_same1_trans; [eassumption|]). apply Forall2_same1_refl.
Qed.

(* ---- source order: every source item owns a contiguous group of final items; labels map to their marker ---- *)
Definition Rsrc (x : litem) (g : list litem) : Prop :=
  match is_label (snd x) with
  | Some n => g = [x]
  | None => Forall (fun y => fst y = fst x /\ is_label (snd y) = None) g
  end.
Lemma src_groups l g : Forall (fun y : litem => fst y = l /\ is_label (snd y) = None) g ->
  forall h, grouped Rsrc g h -> Forall (fun y : litem => fst y = l /\ is_label (snd y) = None) h.
Proof.
  intros Hg h G. induction G as [|[l' it] r bs bs' Hx G IH]. constructor.
  inversion Hg as [|? ? HH H3]; subst. destruct HH as [H1 H2]. simpl in H1, H2. apply Forall_app. split; auto.
  unfold Rsrc in Hx. simpl in Hx. rewrite H2 in Hx. subst. exact Hx.
Qed.
Lemma Rsrc_comp x g h : Rsrc x g -> grouped Rsrc g h -> Rsrc x h.
Proof.
  unfold Rsrc at 1 3. destruct (is_label (snd x)) as [n|] eqn:El; intros Hg G.
  - subst g. inversion G as [|? ? bs bs' Hx G']; subst. inversion G'; subst. rewrite app_nil_r.
    unfold Rsrc in Hx. rewrite El in Hx. exact Hx.
  - eapply src_groups; eauto.
Qed.
Lemma keep_src x g : Rkeep x g -> Rsrc x g.
Proof.
  destruct x as [l it]. unfold Rkeep, Rsrc. simpl.
  destruct it; simpl; intro H; subst; try (repeat constructor; fail); auto.
  - destruct H as [-> | ->]; repeat constructor.
  - eapply Forall_impl; [|exact H]. intros [l' y] [A B]; split; auto. destruct y; simpl in *; auto; contradiction.
  - eapply Forall_impl; [|exact H]. intros [l' y] [A B]; split; auto. destruct y; simpl in *; auto; contradiction.
Qed.
Lemma align_src p x g : wfi (snd x) -> Ralign p x g -> Rsrc x g.
Proof.
  destruct x as [l it]. unfold Ralign, Rsrc. simpl. intros [_ Hw] H.
  destruct it; simpl; subst; try (repeat constructor; fail); auto.
  destruct (H (Hw n eq_refl)) as (-> & _). destruct (_ =? 0); repeat constructor.
Qed.
Lemma same_src a b : Forall2 same1 a b -> grouped Rsrc a b.
Proof.
  induction 1 as [|[l x] [l' y] a b (A&B&C&D&E) _ IH]. constructor.
  change ((l', y) :: b) with (app [(l', y)] b). constructor; auto.
  unfold Rsrc. simpl in *. subst l'. destruct (is_label x) as [n|] eqn:El.
  - rewrite (is_label_inv _ _ El). symmetry in B. rewrite (is_label_inv _ _ B). reflexivity.
  - repeat constructor. simpl. congruence.
Qed.
Lemma palign_src p a b : nonneg a -> pgrouped Ralign p a b -> grouped Rsrc a b.
Proof.
  intros Hn G. induction G as [|p x l bs bs' Hx G IH]. constructor.
  inversion Hn; subst. constructor; auto. eapply align_src; eauto.
Qed.

Lemma keep_src_list a b : grouped Rkeep a b -> grouped Rsrc a b.
Proof. intro K. induction K as [|x l bs bs' Hx K IH]; [constructor | constructor; [apply keep_src; exact Hx | exact IH]]. Qed.

Theorem source_order its r : layout_facts its r ->
  exists fin, grouped Rsrc its fin /\ blobbed fin (r_chunks r) /\ exact fin (r_labels r) /\ gnames fin = gnames its.
Proof.
  intros (pa & al & fin & Hn & K & A & S & B & X & G & _). exists fin. repeat split; auto.
  apply (grouped_trans Rsrc Rsrc Rsrc Rsrc_comp its al fin).
  - apply (grouped_trans Rsrc Rsrc Rsrc Rsrc_comp its pa al).
    + apply keep_src_list; exact K.
    + eapply palign_src; eauto.
  - apply same_src; auto.
Qed.

(* ---- minimality of the alignment padding ------------------------------------------------------------------------------- *)
Lemma pad_minimal p n k : 1 <= n -> 0 <= k -> (p + k) mod n = 0 -> (n - p mod n) mod n <= k.
Proof.
  intros Hn Hk Hz.
  pose proof (Z.mod_pos_bound p n ltac:(lia)) as Hm.
  pose proof (Z.mod_pos_bound (n - p mod n) n ltac:(lia)) as Hb.
  destruct (Z_lt_le_dec k ((n - p mod n) mod n)) as [Hlt|Hge]; [exfalso|exact Hge].
  assert (Hk2 : (p mod n + k) mod n = 0) by (rewrite Zplus_mod_idemp_l; exact Hz).
  destruct (Z.eq_dec (p mod n) 0) as [E|E].
  - rewrite E in Hlt. replace (n - 0) with n in Hlt by lia. rewrite Z.mod_same in Hlt by lia. lia.
  - rewrite (Z.mod_small (n - p mod n) n) in Hlt by lia.
    rewrite Z.mod_small in Hk2 by lia. lia.
Qed.

(* chunk sizes: an item of the final list and its chunk *)
Lemma blobbed_total fin cs : blobbed fin cs -> total fin = fold_right (fun c a => chunk_len (snd c) + a) 0 cs.
Proof.
  induction 1 as [|l n r cs _ IH|l it c r cs Hc Hl _ IH]; unfold total in *; simpl; auto.
  rewrite IH, Hl. reflexivity.
Qed.
