(* C04, call / tail: what `lands_ct` (Proofs/CompressCalls.v) means on the Spec machine (Spec/Sem.v): the bytes of the chunks of a
   call / tail item, loaded at the pc, transfer control to the label (distance q - p from the pc) and write only the documented
   link / scratch register. *)
From Coq Require Import ZArith List Bool Lia String.
From BB Require Import Base.Bits Base.PyBase Spec.RV32 Spec.RVC Spec.Sem Model.Items Model.Encode Model.Passes
  Proofs.Pipeline Proofs.SemLemmas Proofs.PseudoEmit Proofs.RulesSem Proofs.CompressSem Proofs.CompressTail Proofs.CompressProgram Proofs.CompressExt Proofs.CompressCalls.
Import ListNotations.
Open Scope string_scope.
Open Scope Z_scope.

(* the bytes of a list of chunks that are all byte chunks *)
Definition chunks_bytes (cs : list (line * chunk)) : list Z :=
  flat_map (fun c => match snd c with CBytes bs => bs | _ => [] end) cs.

(* the effect of a call / tail item whose chunks cs stand at offset p, the label having the value q:
   one step (jal / c.jal / c.j): pc <- pc + (q - p); the link register (x1 for call, none for tail) <- pc + length of the item;
   two steps (auipc ; jalr): pc <- pc + (q - p) with bit 0 cleared; call: only x1 written, x1 <- pc + length of the item (8);
                             tail: only the scratch register x6 written *)
Definition ct_effect (name : string) (q p : Z) (cs : list (line * chunk)) : Prop :=
  forall s, loaded s (chunks_bytes cs) ->
    (exists s', run_n 1 s = Some s' /\ pc s' = wrap (pc s + (q - p)) /\ only_reg s s' (lkn name) (wrap (pc s + clen cs))) \/
    (exists s' v, run_n 2 s = Some s' /\ pc s' = wrap (pc s + (q - p)) - wrap (pc s + (q - p)) mod 2 /\
       ((name = "call" /\ only_reg s s' 1 (wrap (pc s + clen cs))) \/ (name = "tail" /\ only_reg s s' 6 v))).

Lemma only_reg_trans_same' s s1 s2 rd a b : only_reg s s1 rd a -> only_reg s1 s2 rd b -> only_reg s s2 rd b.
Proof.
  intros (A1 & B1 & C1) (A2 & B2 & C2). split; [exact A2|]. split; [|congruence].
  intros r Hr. rewrite B2, B1; auto.
Qed.
Lemma pair_target a p hi lo q : (p + hi * 4096 + lo) mod 2^32 = q mod 2^32 -> wrap (wrap (a + hi * 4096) + lo) = wrap (a + (q - p)).
Proof.
  intro M. rewrite wrap_add_l. unfold wrap.
  replace (a + hi * 4096 + lo) with ((a - p) + (p + hi * 4096 + lo)) by ring.
  rewrite <- Zplus_mod_idemp_r, M, Zplus_mod_idemp_r. f_equal. ring.
Qed.

Theorem lands_ct_effect c16 name lab l L p cs :
  is_ct name = true -> lands_ct c16 name lab l L p cs -> exists q, assoc_str L lab = Some q /\ ct_effect name q p cs.
Proof.
  intros Hn (q & Hq & H). exists q. split; [exact Hq|]. intros s Ld.
  destruct H as [(w & -> & Hw & D)|[(_ & h & ci & -> & Hh & D & X)|(w1 & w2 & hi & lo & -> & R1 & R2 & D1 & D2 & M)]].
  - left. unfold chunks_bytes in Ld. cbn [flat_map snd] in Ld. rewrite app_nil_r, le_bytes4 in Ld.
    destruct (step_jal (lkn name) (q - p) 4 s) as (s' & S & P & O).
    exists s'. split; [eapply run1; eauto|]. split; [exact P|]. rewrite clen_bytes. exact O.
  - left. unfold chunks_bytes in Ld. cbn [flat_map snd] in Ld. rewrite app_nil_r, le_bytes_half in Ld.
    destruct (step_jal (lkn name) (q - p) 2 s) as (s' & S & P & O).
    exists s'. split.
    + cbn [run_n]. change (2^16) with 65536 in Hh. rewrite (fetch_half s h ci Hh Ld D), X, S. reflexivity.
    + split; [exact P|]. rewrite clen_bytes. exact O.
  - right. unfold chunks_bytes in Ld. cbn [flat_map snd] in Ld. rewrite app_nil_r, !le_bytes4 in Ld.
    destruct (step_auipc (scn name) hi 4 s) as (s1 & S1 & P1 & O1).
    destruct (step_jalr (lkn name) (scn name) lo 4 s1) as (s2 & S2 & P2 & O2).
    assert (C1 : mem s1 = mem s) by (destruct O1 as (_ & _ & C); exact C).
    destruct (run2 _ _ _ _ _ _ _ Ld D1 D2 S1 P1 C1 S2) as (_ & Rn).
    exists s2, (wrap (pc s + hi * 4096)). split; [exact Rn|].
    assert (Hsc : scn name <> 0) by (unfold scn; destruct (String.eqb name "call"); discriminate).
    assert (G : getr s1 (scn name) = wrap (pc s + hi * 4096)).
    { destruct O1 as (A & _). rewrite A. destruct (scn name =? 0) eqn:E; [apply Z.eqb_eq in E; contradiction|reflexivity]. }
    split. { rewrite P2, G, (pair_target _ _ _ _ _ M). reflexivity. }
    rewrite !clen_bytes. change (clen []) with 0.
    destruct (is_ct_cases _ Hn) as [->| ->]; [left|right]; (split; [reflexivity|]).
    + change (lkn "call") with 1 in *. change (scn "call") with 1 in *.
      eapply only_reg_val; [|eapply only_reg_trans_same'; [exact O1|exact O2]].
      rewrite P1, wrap_add_l. f_equal. change (Z.of_nat 4) with 4. ring.
    + change (lkn "tail") with 0 in *. change (scn "tail") with 6 in *.
      destruct O1 as (A1 & B1 & C1'). destruct O2 as (A2 & B2 & C2).
      split; [|split; [|congruence]].
      * rewrite B2 by discriminate. exact A1.
      * intros r Hr. destruct (Z.eq_dec r 0) as [->|H0]; [reflexivity|]. rewrite B2 by exact H0. apply B1. exact Hr.
Qed.

(* the call / tail item of the program correspondence (item_corr_c), on the machine, for both runs at once *)
Theorem item_corr_c_effect labU labC pU pC x cU cC name L :
  call_of (snd x) = Some (name, L) -> item_corr_c labU labC pU pC x cU cC ->
  exists qU qC, assoc_str L labU = Some qU /\ assoc_str L labC = Some qC /\ ct_effect name qU pU cU /\ ct_effect name qC pC cC.
Proof.
  intros Hc H. unfold item_corr_c in H. rewrite Hc in H. destruct H as [HU HC].
  destruct (call_of_inv _ _ _ Hc) as (Hn & _).
  destruct (lands_ct_effect _ _ _ _ _ _ _ Hn HU) as (qU & AU & EU).
  destruct (lands_ct_effect _ _ _ _ _ _ _ Hn HC) as (qC & AC & EC).
  exists qU, qC. auto.
Qed.

(* ---- regs_plain cannot be dropped: with the constant x1 = 5 handed in, `call a` links through x5 in both modes ---------------------- *)
From BB Require Import Proofs.Examples.
Definition ex04s : list litem := [(exL 1, ILabel "a"); (exL 2, IPseudo "call" ["a"] (PErr (PRaw OtherExn)))].
Definition ex04s_chunks : list (line * chunk) := [(exL 2, CBytes [239; 2; 0; 0])].
Lemma ex04s_runs :
  calls_programb [("x1", 5)] ex04s = true /\ regs_plain [("x1", 5)] = false /\
  assemble_items ex04s [("x1", 5)] [] false = Done {| r_chunks := ex04s_chunks; r_consts := [("x1", 5)]; r_labels := [("a", 0)] |} /\
  assemble_items ex04s [("x1", 5)] [] true = Done {| r_chunks := ex04s_chunks; r_consts := [("x1", 5)]; r_labels := [("a", 0)] |} /\
  decode32 (239 + 2 * 256) = Some (Jal 5 0).
Proof. repeat split; vm_compute; reflexivity. Qed.
Lemma ex04s_not_lands c16 : ~ lands_ct c16 "call" [("a", 0)] (exL 2) "a" 0 ex04s_chunks.
Proof.
  intros (q & Hq & [(w & E & Hw & D)|[(_ & h & ci & E & _)|(w1 & w2 & hi & lo & E & _)]]); unfold ex04s_chunks in E.
  - assert (E' : [239; 2; 0; 0] = word_bytes w) by (rewrite <- le_bytes4; congruence).
    unfold word_bytes in E'.
    assert (B0 : w mod 256 = 239) by congruence. assert (B1 : (w / 256) mod 256 = 2) by congruence.
    assert (B2 : (w / 256 / 256) mod 256 = 0) by congruence. assert (B3 : (w / 256 / 256 / 256) mod 256 = 0) by congruence.
    pose proof (word_bytes_sum w Hw) as S. rewrite B0, B1, B2, B3 in S.
    assert (w = 751) by (rewrite <- S; reflexivity). subst w.
    vm_compute in D. congruence.
  - assert (El : List.length [239; 2; 0; 0] = List.length (le_bytes 2 h)) by congruence.
    rewrite le_bytes_length in El. discriminate El.
  - discriminate E.
Qed.
Lemma ex04s_refuted : ~ corr_c [("a", 0)] [("a", 0)] 0 0 ex04s ex04s_chunks ex04s_chunks.
Proof.
  intro H. inversion H as [|? ? x1 r1 cU1 cC1 rU1 rC1 I1 H1 Ea Eb EU1 EC1]; subst.
  unfold item_corr_c, item_corr_x, item_corr in I1. cbn [snd call_of] in I1. destruct I1 as (-> & -> & _).
  cbn [app] in *. subst rU1 rC1.
  inversion H1 as [|? ? x2 r2 cU2 cC2 rU2 rC2 I2 H2 Ea2 Eb2 EU2 EC2]; subst.
  inversion H2; subst. rewrite !app_nil_r in *. subst cU2.
  unfold item_corr_c in I2. cbn [snd fst call_of is_ct String.eqb Ascii.eqb Bool.eqb orb] in I2.
  destruct I2 as [I2 _]. rewrite EC2 in I2. exact (ex04s_not_lands false I2).
Qed.
