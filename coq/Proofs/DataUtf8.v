(* UTF-8: the Spec encoder is decodable by the strict Spec decoder (so it IS UTF-8), and the decoder accepts
   only what the encoder produces (shortest form, no surrogates): encode and decode are mutually inverse. *)
From Coq Require Import ZArith List Bool Lia.
From BB Require Import Spec.Utf8.
Import ListNotations.
Open Scope Z_scope.

Local Ltac btrue := apply Z.leb_le || apply Z.ltb_lt.
Local Ltac bfalse := apply Z.leb_gt || apply Z.ltb_ge.

Lemma valid_cp_spec : forall c, valid_cp c = true <-> (0 <= c <= 1114111 /\ ~ (55296 <= c <= 57343)).
Proof.
  intro c. unfold valid_cp.
  rewrite !andb_true_iff, negb_true_iff, andb_false_iff, !Z.leb_le, !Z.leb_gt. lia.
Qed.

(* splitting a number into 6-bit groups *)
Lemma split64 : forall c, 0 <= c -> exists q r, c = 64 * q + r /\ 0 <= r < 64 /\ 0 <= q /\ c / 64 = q /\ c mod 64 = r.
Proof.
  intros c H. exists (c / 64), (c mod 64).
  pose proof (Z.div_mod c 64 ltac:(lia)). pose proof (Z.mod_pos_bound c 64 ltac:(lia)).
  pose proof (Z.div_pos c 64 H ltac:(lia)). lia.
Qed.

Lemma enc1_decode : forall c rest, valid_cp c = true ->
  utf8_decode (utf8_enc1 c ++ rest) = ocons c (utf8_decode rest).
Proof.
  intros c rest V. apply valid_cp_spec in V. destruct V as [[V0 V1] VS].
  unfold utf8_enc1.
  destruct (Z.ltb_spec c 128) as [H1|H1].
  { (* one byte *)
    cbn [app utf8_decode].
    replace ((0 <=? c) && (c <? 128)) with true; [reflexivity|].
    symmetry; apply andb_true_iff; split; btrue; lia. }
  destruct (Z.ltb_spec c 2048) as [H2|H2].
  { (* two bytes *)
    destruct (split64 c ltac:(lia)) as (q & r & E & Hr & Hq & Dq & Dr).
    rewrite Dq, Dr. cbn [app utf8_decode].
    replace ((0 <=? 192 + q) && (192 + q <? 128)) with false
      by (symmetry; apply andb_false_iff; right; bfalse; lia).
    replace ((192 <=? 192 + q) && (192 + q <? 224)) with true
      by (symmetry; apply andb_true_iff; split; btrue; lia).
    cbv zeta.
    replace ((192 + q - 192) * 64 + (128 + r - 128)) with c by lia.
    unfold is_cont.
    replace ((128 <=? 128 + r) && (128 + r <=? 191) && (128 <=? c)) with true; [reflexivity|].
    symmetry; rewrite !andb_true_iff; repeat split; btrue; lia. }
  destruct (Z.ltb_spec c 65536) as [H3|H3].
  { (* three bytes *)
    destruct (split64 c ltac:(lia)) as (q & r & E & Hr & Hq & Dq & Dr).
    destruct (split64 q ltac:(lia)) as (q2 & r2 & E2 & Hr2 & Hq2 & Dq2 & Dr2).
    replace (c / 4096) with q2 by (rewrite <- Dq2, <- Dq, Z.div_div by lia; reflexivity).
    rewrite Dq, Dr, Dr2. cbn [app utf8_decode].
    replace ((0 <=? 224 + q2) && (224 + q2 <? 128)) with false
      by (symmetry; apply andb_false_iff; right; bfalse; lia).
    replace ((192 <=? 224 + q2) && (224 + q2 <? 224)) with false
      by (symmetry; apply andb_false_iff; right; bfalse; lia).
    replace ((224 <=? 224 + q2) && (224 + q2 <? 240)) with true
      by (symmetry; apply andb_true_iff; split; btrue; lia).
    cbv zeta.
    replace ((224 + q2 - 224) * 4096 + (128 + r2 - 128) * 64 + (128 + r - 128)) with c by lia.
    unfold is_cont.
    replace (valid_cp c) with true by (symmetry; apply valid_cp_spec; lia).
    replace ((128 <=? 128 + r2) && (128 + r2 <=? 191) && ((128 <=? 128 + r) && (128 + r <=? 191)) && (2048 <=? c) && true)
      with true; [reflexivity|].
    symmetry; rewrite !andb_true_iff; repeat split; btrue; lia. }
  { (* four bytes *)
    destruct (split64 c ltac:(lia)) as (q & r & E & Hr & Hq & Dq & Dr).
    destruct (split64 q ltac:(lia)) as (q2 & r2 & E2 & Hr2 & Hq2 & Dq2 & Dr2).
    destruct (split64 q2 ltac:(lia)) as (q3 & r3 & E3 & Hr3 & Hq3 & Dq3 & Dr3).
    assert (D4096 : c / 4096 = q2) by (rewrite <- Dq2, <- Dq, Z.div_div by lia; reflexivity).
    replace (c / 262144) with q3
      by (rewrite <- Dq3, <- D4096, Z.div_div by lia; reflexivity).
    rewrite D4096, Dq, Dr, Dr2, Dr3. cbn [app utf8_decode].
    replace ((0 <=? 240 + q3) && (240 + q3 <? 128)) with false
      by (symmetry; apply andb_false_iff; right; bfalse; lia).
    replace ((192 <=? 240 + q3) && (240 + q3 <? 224)) with false
      by (symmetry; apply andb_false_iff; right; bfalse; lia).
    replace ((224 <=? 240 + q3) && (240 + q3 <? 240)) with false
      by (symmetry; apply andb_false_iff; right; bfalse; lia).
    replace ((240 <=? 240 + q3) && (240 + q3 <? 248)) with true
      by (symmetry; apply andb_true_iff; split; btrue; lia).
    cbv zeta.
    replace ((240 + q3 - 240) * 262144 + (128 + r3 - 128) * 4096 + (128 + r2 - 128) * 64 + (128 + r - 128)) with c by lia.
    unfold is_cont.
    replace (valid_cp c) with true by (symmetry; apply valid_cp_spec; lia).
    replace ((128 <=? 128 + r3) && (128 + r3 <=? 191) && ((128 <=? 128 + r2) && (128 + r2 <=? 191)) &&
             ((128 <=? 128 + r) && (128 + r <=? 191)) && (65536 <=? c) && true) with true; [reflexivity|].
    symmetry; rewrite !andb_true_iff; repeat split; btrue; lia. }
Qed.

Lemma utf8_roundtrip : forall s, forallb valid_cp s = true -> utf8_decode (utf8_encode s) = Some s.
Proof.
  induction s as [|c s IH]; intro H; [reflexivity|].
  cbn [forallb] in H. apply andb_true_iff in H. destruct H as [Hc Hs].
  unfold utf8_encode in *. cbn [flat_map]. rewrite enc1_decode by assumption.
  rewrite IH by assumption. reflexivity.
Qed.

(* every byte the encoder emits is a byte *)
Lemma enc1_bytes : forall c, valid_cp c = true -> Forall (fun b => 0 <= b < 256) (utf8_enc1 c).
Proof.
  intros c V. apply valid_cp_spec in V. destruct V as [[V0 V1] VS]. unfold utf8_enc1.
  destruct (Z.ltb_spec c 128); [repeat constructor; lia|].
  destruct (Z.ltb_spec c 2048).
  { destruct (split64 c ltac:(lia)) as (q & r & E & Hr & Hq & Dq & Dr). rewrite Dq, Dr. repeat constructor; lia. }
  destruct (Z.ltb_spec c 65536).
  { destruct (split64 c ltac:(lia)) as (q & r & E & Hr & Hq & Dq & Dr).
    destruct (split64 q ltac:(lia)) as (q2 & r2 & E2 & Hr2 & Hq2 & Dq2 & Dr2).
    replace (c / 4096) with q2 by (rewrite <- Dq2, <- Dq, Z.div_div by lia; reflexivity).
    rewrite Dq, Dr, Dr2. repeat constructor; lia. }
  { destruct (split64 c ltac:(lia)) as (q & r & E & Hr & Hq & Dq & Dr).
    destruct (split64 q ltac:(lia)) as (q2 & r2 & E2 & Hr2 & Hq2 & Dq2 & Dr2).
    destruct (split64 q2 ltac:(lia)) as (q3 & r3 & E3 & Hr3 & Hq3 & Dq3 & Dr3).
    assert (D4096 : c / 4096 = q2) by (rewrite <- Dq2, <- Dq, Z.div_div by lia; reflexivity).
    replace (c / 262144) with q3 by (rewrite <- Dq3, <- D4096, Z.div_div by lia; reflexivity).
    rewrite D4096, Dq, Dr, Dr2, Dr3. repeat constructor; lia. }
Qed.

Lemma utf8_encode_bytes : forall s, forallb valid_cp s = true -> Forall (fun b => 0 <= b < 256) (utf8_encode s).
Proof.
  induction s as [|c s IH]; intro H; [constructor|].
  cbn [forallb] in H. apply andb_true_iff in H. destruct H as [Hc Hs].
  unfold utf8_encode in *. cbn [flat_map]. apply Forall_app. split; [apply enc1_bytes; assumption|apply IH; assumption].
Qed.

(* ---- strictness: whatever the decoder accepts is exactly the encoding of what it returns ---------------- *)
Lemma ocons_Some : forall c r s, ocons c r = Some s -> exists s', r = Some s' /\ s = c :: s'.
Proof. intros c [l|] s H; cbn in H; [injection H as <-; eauto|discriminate]. Qed.

Lemma is_cont_spec : forall b, is_cont b = true <-> 128 <= b <= 191.
Proof. intro b. unfold is_cont. rewrite andb_true_iff, !Z.leb_le. tauto. Qed.

Lemma enc1_2 : forall b0 b1, 192 <= b0 < 224 -> 128 <= b1 <= 191 -> 128 <= (b0 - 192) * 64 + (b1 - 128) ->
  utf8_enc1 ((b0 - 192) * 64 + (b1 - 128)) = [b0; b1].
Proof.
  intros b0 b1 H0 H1 Hc. set (c := (b0 - 192) * 64 + (b1 - 128)) in *. unfold utf8_enc1.
  destruct (Z.ltb_spec c 128); [lia|]. destruct (Z.ltb_spec c 2048); [|lia].
  assert (c / 64 = b0 - 192) by (symmetry; apply Z.div_unique with (b1 - 128); lia).
  assert (c mod 64 = b1 - 128) by (symmetry; apply Z.mod_unique with (b0 - 192); lia).
  f_equal; [lia|f_equal; lia].
Qed.

Lemma enc1_3 : forall b0 b1 b2, 224 <= b0 < 240 -> 128 <= b1 <= 191 -> 128 <= b2 <= 191 ->
  2048 <= (b0 - 224) * 4096 + (b1 - 128) * 64 + (b2 - 128) ->
  utf8_enc1 ((b0 - 224) * 4096 + (b1 - 128) * 64 + (b2 - 128)) = [b0; b1; b2].
Proof.
  intros b0 b1 b2 H0 H1 H2 Hc. set (c := (b0 - 224) * 4096 + (b1 - 128) * 64 + (b2 - 128)) in *. unfold utf8_enc1.
  destruct (Z.ltb_spec c 128); [lia|]. destruct (Z.ltb_spec c 2048); [lia|]. destruct (Z.ltb_spec c 65536); [|lia].
  assert (D1 : c / 64 = (b0 - 224) * 64 + (b1 - 128)) by (symmetry; apply Z.div_unique with (b2 - 128); lia).
  assert (c mod 64 = b2 - 128) by (symmetry; apply Z.mod_unique with ((b0 - 224) * 64 + (b1 - 128)); lia).
  assert (c / 4096 = b0 - 224) by (symmetry; apply Z.div_unique with ((b1 - 128) * 64 + (b2 - 128)); lia).
  assert ((c / 64) mod 64 = b1 - 128) by (rewrite D1; symmetry; apply Z.mod_unique with (b0 - 224); lia).
  f_equal; [lia|f_equal; [lia|f_equal; lia]].
Qed.

Lemma enc1_4 : forall b0 b1 b2 b3, 240 <= b0 < 248 -> 128 <= b1 <= 191 -> 128 <= b2 <= 191 -> 128 <= b3 <= 191 ->
  65536 <= (b0 - 240) * 262144 + (b1 - 128) * 4096 + (b2 - 128) * 64 + (b3 - 128) ->
  utf8_enc1 ((b0 - 240) * 262144 + (b1 - 128) * 4096 + (b2 - 128) * 64 + (b3 - 128)) = [b0; b1; b2; b3].
Proof.
  intros b0 b1 b2 b3 H0 H1 H2 H3 Hc.
  set (c := (b0 - 240) * 262144 + (b1 - 128) * 4096 + (b2 - 128) * 64 + (b3 - 128)) in *. unfold utf8_enc1.
  destruct (Z.ltb_spec c 128); [lia|]. destruct (Z.ltb_spec c 2048); [lia|]. destruct (Z.ltb_spec c 65536); [lia|].
  assert (D1 : c / 64 = (b0 - 240) * 4096 + (b1 - 128) * 64 + (b2 - 128)) by (symmetry; apply Z.div_unique with (b3 - 128); lia).
  assert (c mod 64 = b3 - 128)
    by (symmetry; apply Z.mod_unique with ((b0 - 240) * 4096 + (b1 - 128) * 64 + (b2 - 128)); lia).
  assert (D2 : c / 4096 = (b0 - 240) * 64 + (b1 - 128))
    by (symmetry; apply Z.div_unique with ((b2 - 128) * 64 + (b3 - 128)); lia).
  assert (c / 262144 = b0 - 240)
    by (symmetry; apply Z.div_unique with ((b1 - 128) * 4096 + (b2 - 128) * 64 + (b3 - 128)); lia).
  assert ((c / 64) mod 64 = b2 - 128)
    by (rewrite D1; symmetry; apply Z.mod_unique with ((b0 - 240) * 64 + (b1 - 128)); lia).
  assert ((c / 4096) mod 64 = b1 - 128) by (rewrite D2; symmetry; apply Z.mod_unique with (b0 - 240); lia).
  f_equal; [lia|f_equal; [lia|f_equal; [lia|f_equal; lia]]].
Qed.

Lemma utf8_decode_strict_n : forall n bs s, (length bs <= n)%nat -> utf8_decode bs = Some s ->
  utf8_encode s = bs /\ forallb valid_cp s = true.
Proof.
  induction n as [|n IH]; intros bs s L H.
  { destruct bs; [|cbn in L; lia]. cbn in H. injection H as <-. split; reflexivity. }
  destruct bs as [|b0 r0]; [cbn in H; injection H as <-; split; reflexivity|].
  cbn [utf8_decode] in H. cbn [length] in L.
  destruct ((0 <=? b0) && (b0 <? 128)) eqn:C1.
  { apply andb_true_iff in C1. destruct C1 as [A B]. apply Z.leb_le in A. apply Z.ltb_lt in B.
    apply ocons_Some in H. destruct H as (s' & H & ->).
    destruct (IH r0 s' ltac:(lia) H) as [E V]. unfold utf8_encode in *. cbn [flat_map forallb].
    rewrite E. unfold utf8_enc1. destruct (Z.ltb_spec b0 128); [|lia]. cbn [app]. split; [reflexivity|].
    rewrite V, andb_true_r. apply valid_cp_spec. lia. }
  destruct ((192 <=? b0) && (b0 <? 224)) eqn:C2.
  { apply andb_true_iff in C2. destruct C2 as [A B]. apply Z.leb_le in A. apply Z.ltb_lt in B.
    destruct r0 as [|b1 r1]; [discriminate|]. cbv zeta in H.
    destruct (is_cont b1 && (128 <=? (b0 - 192) * 64 + (b1 - 128))) eqn:C; [|discriminate].
    apply andb_true_iff in C. destruct C as [K1 K]. apply is_cont_spec in K1. apply Z.leb_le in K.
    apply ocons_Some in H. destruct H as (s' & H & ->). cbn [length] in L.
    destruct (IH r1 s' ltac:(lia) H) as [E V]. unfold utf8_encode in *. cbn [flat_map forallb].
    rewrite enc1_2 by lia. cbn [app]. rewrite E. split; [reflexivity|].
    rewrite V, andb_true_r. apply valid_cp_spec. lia. }
  destruct ((224 <=? b0) && (b0 <? 240)) eqn:C3.
  { apply andb_true_iff in C3. destruct C3 as [A B]. apply Z.leb_le in A. apply Z.ltb_lt in B.
    destruct r0 as [|b1 [|b2 r2]]; [discriminate|discriminate|]. cbv zeta in H.
    destruct (is_cont b1 && is_cont b2 && (2048 <=? (b0 - 224) * 4096 + (b1 - 128) * 64 + (b2 - 128)) &&
              valid_cp ((b0 - 224) * 4096 + (b1 - 128) * 64 + (b2 - 128))) eqn:C; [|discriminate].
    rewrite !andb_true_iff in C. destruct C as [[[K1 K2] K] KV].
    apply is_cont_spec in K1. apply is_cont_spec in K2. apply Z.leb_le in K.
    apply ocons_Some in H. destruct H as (s' & H & ->). cbn [length] in L.
    destruct (IH r2 s' ltac:(lia) H) as [E V]. unfold utf8_encode in *. cbn [flat_map forallb].
    rewrite enc1_3 by lia. cbn [app]. rewrite E. split; [reflexivity|].
    rewrite V, KV. reflexivity. }
  destruct ((240 <=? b0) && (b0 <? 248)) eqn:C4; [|discriminate].
  { apply andb_true_iff in C4. destruct C4 as [A B]. apply Z.leb_le in A. apply Z.ltb_lt in B.
    destruct r0 as [|b1 [|b2 [|b3 r3]]]; [discriminate|discriminate|discriminate|]. cbv zeta in H.
    destruct (is_cont b1 && is_cont b2 && is_cont b3 &&
              (65536 <=? (b0 - 240) * 262144 + (b1 - 128) * 4096 + (b2 - 128) * 64 + (b3 - 128)) &&
              valid_cp ((b0 - 240) * 262144 + (b1 - 128) * 4096 + (b2 - 128) * 64 + (b3 - 128))) eqn:C; [|discriminate].
    rewrite !andb_true_iff in C. destruct C as [[[[K1 K2] K3] K] KV].
    apply is_cont_spec in K1. apply is_cont_spec in K2. apply is_cont_spec in K3. apply Z.leb_le in K.
    apply ocons_Some in H. destruct H as (s' & H & ->). cbn [length] in L.
    destruct (IH r3 s' ltac:(lia) H) as [E V]. unfold utf8_encode in *. cbn [flat_map forallb].
    rewrite enc1_4 by lia. cbn [app]. rewrite E. split; [reflexivity|].
    rewrite V, KV. reflexivity. }
Qed.

Lemma utf8_decode_strict : forall bs s, utf8_decode bs = Some s ->
  utf8_encode s = bs /\ forallb valid_cp s = true.
Proof. intros bs s. apply utf8_decode_strict_n with (n := length bs). lia. Qed.
