(* C06, 32-bit half: accepted <-> operands readable and inside the documented set (Spec/Legal.v). *)
From Coq Require Import ZArith List Bool Lia ZifyBool String.
From BB Require Import Base.Bits Base.PyBase Gen.Encoders Spec.RV32 Spec.Operands Spec.Legal Model.Encode
  Proofs.EncTac Proofs.Enc32 Proofs.Regs Proofs.C01Tac.
Import ListNotations.
Open Scope Z_scope.

Definition acc_ok (name : string) : Prop :=
  forall pos kw, (exists w, encode name pos kw = Ok w) <->
                 (exists ops, operands32 name pos kw = Some ops /\ legal32 name ops = true).


Ltac imms :=
  repeat match goal with
  | |- context[as_imm ?a] => is_var a; destruct a; cbn [as_imm bind]; try (intros; discriminate)
  end.
Ltac regs_fwd :=
  repeat match goal with
  | |- context[lookup_register ?a false] =>
      let n := fresh "n" in let E := fresh "E" in let R := fresh "R" in
      destruct (lookup_register a false) as [n|] eqn:E; cbn [bind]; [|intros; discriminate];
      pose proof (proj1 (lookup_register_range _ _ _ E)) as R; apply lookup_register_spec in E
  end.
Ltac ints_fwd :=
  repeat match goal with
  | |- context[as_int ?a] =>
      let z := fresh "z" in let E := fresh "Ez" in
      destruct (as_int a) as [z|] eqn:E; cbn [bind]; [|intros; discriminate]; apply as_int_spec in E
  end.
Ltac guards_fwd := repeat take_guard.
Ltac legal_eval name :=
  let r := eval cbv [legal32 mem_str existsb String.eqb Ascii.eqb Bool.eqb orb] in (legal32 name) in
  change (legal32 name) with r; cbv beta iota.
Ltac split_ifs :=
  repeat match goal with
  | H : context[if ?c then _ else _] |- _ => let C := fresh "C" in destruct c eqn:C
  | |- context[if ?c then _ else _] => let C := fresh "C" in destruct c eqn:C
  end.
Ltac legal_done name :=
  legal_eval name; unfold isreg, between, mult; split_ifs; lia.
Ltac kw_all :=
  repeat match goal with
  | |- context[assoc_str ?k ?kw] =>
      let a := fresh "ka" in let E := fresh "Ek" in destruct (assoc_str k kw) as [a|] eqn:E
  end.

(* forward: accepted -> legal.  nf : tactic rewriting the format function into its normal form *)
Ltac acc_fwd name nf pos :=
  let w := fresh "w" in let He := fresh in intros [w He]; revert He; lookup_name name;
  destruct pos as [|?a0 [|?a1 [|?a2 [|?a3 pos]]]]; try (intros; discriminate); imms; cbv zeta;
  unfold_head; nf; kw_all; ints_fwd; try guards_fwd; regs_fwd; guards_fwd;
  try (rewrite !lookup_register_int by lia; cbn [bind]);
  (intros _; eexists; split;
  [ ops_done; rw_regs; unfold kwbit; repeat match goal with H : assoc_str _ _ = _ |- _ => rewrite H; clear H end;
    rw_ints; cbn [intnum]; reflexivity
  | cbn [app]; unfold u_norm, upper_norm in *; legal_done name ]).

(* backward: legal -> accepted *)
Ltac ops_in H name :=
  unfold operands32 in H;
  match type of H with context[sassoc ?n kinds32] =>
    let r := eval vm_compute in (sassoc n kinds32) in change (sassoc n kinds32) with r in H end;
  cbv iota beta in H.
Ltac read_all H :=
  cbn [read_ops read_op] in H;
  repeat (cbv iota beta in H; match type of H with
  | context[regnum ?a] => let n := fresh "n" in let E := fresh "E" in destruct (regnum a) as [n|] eqn:E; [|discriminate H]
  | context[intnum ?a] => let z := fresh "z" in let E := fresh "Ez" in destruct (intnum a) as [z|] eqn:E; [|discriminate H]
  | context[match ?a with AInt _ => _ | AStr _ => _ end] => is_var a; destruct a; [|discriminate H]
  | context[match kwbit ?kw ?k with _ => _ end] =>
      let z := fresh "b" in let E := fresh "Eb" in destruct (kwbit kw k) as [z|] eqn:E; [|discriminate H]
  end); cbv iota beta in H.
Ltac regs_bwd :=
  repeat match goal with
  | E : regnum ?a = Some ?n |- context[lookup_register ?a false] =>
      rewrite (proj2 (lookup_register_spec a n) E); cbn [bind]
  end.
Ltac ints_bwd :=
  repeat match goal with
  | E : intnum ?a = Some ?n |- context[as_int ?a] =>
      rewrite (proj2 (as_int_spec a n) E); cbn [bind]
  end.
Ltac guards_bwd :=
  repeat match goal with
  | |- context[if ?c then Err _ else _] =>
      let G := fresh "G" in destruct c eqn:G; [exfalso; unfold isreg, between, mult, u_norm, upper_norm in *; split_ifs; lia|]
  end.
Ltac lookup_name_ex name :=
  unfold encode;
  let f := eval hnf in (assoc_str name INSTRUCTIONS_final) in
  change (assoc_str name INSTRUCTIONS_final) with f; cbv iota beta; cbn [snd];
  match goal with |- exists w, ?f _ _ = _ => unfold f end; cbv iota beta.
Ltac unfold_head_ex :=
  match goal with
  | |- exists w, ?f _ _ _ _ _ = _ => unfold f
  | |- exists w, ?f _ _ _ _ = _ => unfold f
  | |- exists w, ?f _ _ _ = _ => unfold f
  | |- exists w, ?f _ _ = _ => unfold f
  | |- exists w, ?f _ = _ => unfold f
  | |- exists w, ?f = _ => unfold f
  end.
Ltac acc_bwd name nf pos :=
  let Ho := fresh "Ho" in let L := fresh "L" in let ops := fresh "ops" in
  intros (ops & Ho & L); ops_in Ho name;
  destruct pos as [|?a0 [|?a1 [|?a2 [|?a3 pos]]]]; cbn [read_ops read_op] in Ho; try discriminate Ho;
  read_all Ho; try discriminate Ho; apply Some_inj in Ho; subst ops; cbn [app] in L;
  revert L; legal_eval name; intros L;
  lookup_name_ex name; cbn [as_imm bind]; cbv zeta; unfold_head_ex; nf;
  unfold kwbit in *; kw_all; some_inj; ints_bwd; cbn [as_int bind]; regs_bwd; cbv zeta;
  unfold isreg, between, mult in L; guards_bwd; regs_bwd;
  try (rewrite !lookup_register_int by lia; cbn [bind]); eexists; reflexivity.

Ltac acc name nf := unfold acc_ok; let pos := fresh "pos" in let kw := fresh "kw" in intros pos kw; split; [acc_fwd name nf pos | acc_bwd name nf pos].

Ltac nf_r := rewrite r_type_nf by lia; unfold r_nf, reg.
Ltac nf_i := rewrite i_type_nf by lia; unfold i_nf, reg.
Ltac nf_ij := rewrite ij_type_nf by lia; unfold ij_nf, reg.
Ltac nf_ic := rewrite ic_type_nf by lia; unfold ic_nf, reg.
Ltac nf_s := rewrite s_type_nf by lia; unfold s_nf, reg.
Ltac nf_b := rewrite b_type_nf by lia; unfold b_nf, reg.
Ltac nf_u := rewrite u_type_nf by lia; unfold u_nf, reg.
Ltac nf_j := rewrite j_type_nf by lia; unfold j_nf, reg.

Ltac nf_fence := rewrite fence_nf_eq by lia; unfold fence_nf, reg.
Ltac nf_a := rewrite a_type_nf by lia; unfold a_nf, reg.
