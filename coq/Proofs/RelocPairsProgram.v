(* C07, the consuming pairs as whole PROGRAMS: the 16 passes of the pass model (Model/Passes.v assemble_items, compress = false)
   on the two-line program and on the program  A: <first> ; <second> ; B:  ARE resolve_immediates / resolve_instructions /
   resolve_blobs on the two instructions at position 0 under the label table [(A, 0); (B, 8)] (emit_lines of Proofs/RelocPairs.v),
   so the theorems of Proofs/RelocPairs.v apply to the bytes the model outputs. *)
From Coq Require Import ZArith List Bool String Lia.
From BB Require Import Base.Bits Base.PyBase Gen.Encoders Spec.RV32 Spec.Operands Spec.Sem Model.Items Model.Encode Model.Passes
  Proofs.Layout Proofs.LayoutInst Proofs.Pipeline Proofs.PseudoEmit Proofs.LiProgram Proofs.RelocPairs.
Import ListNotations.
Open Scope Z_scope.
Open Scope string_scope.
Open Scope list_scope.

Definition out_bytes (r : result) : list Z := flat_map chunk_bytes (r_chunks r).

Local Ltac two_instrs H l1 c1 n1 fs1 l2 c2 n2 fs2 r :=
  destruct (field_get "imm" fs1) as [?v1|];
    [destruct (imm_of l1 _ [] _ v1) as [?z1| |]; cbn [obind] in H |- *; try discriminate|];
    (destruct (field_get "imm" fs2) as [?v2|];
      [destruct (imm_of l2 _ [] _ v2) as [?z2| |]; cbn [obind] in H |- *; try discriminate|]);
    cbn [obind rev app resolve_instructions] in H |- *;
    (destruct (encode_item l1 c1 n1 _ false) as [?b1| |]; cbn [obind resolve_instructions] in H |- *; try discriminate);
    (destruct (encode_item l2 c2 n2 _ false) as [?b2| |]; cbn [obind resolve_instructions] in H |- *; try discriminate);
    cbn [resolve_instructions rev app resolve_strings map resolve_sequences transform_shorthand resolve_packs resolve_include_bytes
         resolve_blobs obind] in H |- *;
    apply Done_inj in H; subst r; repeat split; reflexivity.

Lemma pair_between_labels la l1 l2 lb A B c1 n1 fs1 c2 n2 fs2 r :
  assemble_items [(la, ILabel A); (l1, IInstr c1 n1 fs1 false); (l2, IInstr c2 n2 fs2 false); (lb, ILabel B)] [] [] false = Done r ->
  r_labels r = [(A, 0); (B, 8)] /\ r_consts r = [] /\
  emit_lines [] [(A, 0); (B, 8)] 0 [(l1, IInstr c1 n1 fs1 false); (l2, IInstr c2 n2 fs2 false)] = Done (out_bytes r).
Proof.
  intros H. unfold assemble_items in H. unfold out_bytes.
  cbn [resolve_constants_lr obind rev app resolve_labels resolve_labels_from size_o Passes.size mem_str existsb dict_set orb Z.add] in H.
  destruct (String.eqb B A) eqn:Et; cbn [orb obind] in H; [discriminate|].
  rewrite aliases_nil in H. unfold transform_pseudo in H.
  cbn [gpass size_o Passes.size obind pseudo_rule sizes] in H. cbv zeta in H.
  change (4 - (4 + 0) >? 0) with false in H. cbv iota in H. change (Z.pos (4 + 4)) with 8 in H.
  cbn [rev rev_append map app] in H. rewrite aliases_nil in H.
  unfold resolve_aligns in H. cbn [gpass size_o Passes.size obind align_rule sizes] in H. cbv zeta in H.
  change (4 - (4 + 0) >? 0) with false in H. cbv iota in H. cbn [rev rev_append map app obind] in H.
  unfold emit_lines.
  cbn [resolve_immediates size_o Passes.size obind Z.add] in H |- *.
  two_instrs H l1 c1 n1 fs1 l2 c2 n2 fs2 r.
Qed.

Lemma pair_program l1 l2 c1 n1 fs1 c2 n2 fs2 r :
  assemble_items [(l1, IInstr c1 n1 fs1 false); (l2, IInstr c2 n2 fs2 false)] [] [] false = Done r ->
  r_labels r = [] /\ r_consts r = [] /\
  emit_lines [] [] 0 [(l1, IInstr c1 n1 fs1 false); (l2, IInstr c2 n2 fs2 false)] = Done (out_bytes r).
Proof.
  intros H. unfold assemble_items in H. unfold out_bytes.
  cbn [resolve_constants_lr obind rev app resolve_labels resolve_labels_from size_o Passes.size Z.add] in H.
  rewrite aliases_nil in H. unfold transform_pseudo in H.
  cbn [gpass size_o Passes.size obind pseudo_rule sizes] in H. cbv zeta in H.
  change (4 - (4 + 0) >? 0) with false in H. cbv iota in H.
  cbn [rev rev_append map app] in H. rewrite aliases_nil in H.
  unfold resolve_aligns in H. cbn [gpass size_o Passes.size obind align_rule sizes] in H. cbv zeta in H.
  change (4 - (4 + 0) >? 0) with false in H. cbv iota in H. cbn [rev rev_append map app obind] in H.
  unfold emit_lines.
  cbn [resolve_immediates size_o Passes.size obind Z.add] in H |- *.
  two_instrs H l1 c1 n1 fs1 l2 c2 n2 fs2 r.
Qed.

(* ---- (a) --------------------------------------------------------------------------------------------------------- *)
Theorem lui_addi_program l1 l2 rd e r :
  is_position_relative e = false ->
  assemble_items [(l1, mkU "lui" (AStr rd) (EHi e)); (l2, mkI "addi" (AStr rd) (AStr rd) (ELo e) false)] [] [] false = Done r ->
  exists nrd v, regnum (AStr rd) = Some nrd /\ eval_here l1 0 [] [] e = Done v /\
    forall s, loaded s (out_bytes r) ->
      exists s', run_n 2 s = Some s' /\ pc s' = wrap (pc s + 8) /\ only_reg s s' nrd (wrap v).
Proof.
  intros Hpr H. apply pair_program in H. destruct H as (_ & _ & H). exact (lui_addi_pair _ _ _ _ _ _ _ _ Hpr H).
Qed.
(* ... between two labels, which e may name (bare label, %position): A = 0, B = 8 *)
Theorem lui_addi_label_program la l1 l2 lb A B rd e r :
  is_position_relative e = false ->
  assemble_items [(la, ILabel A); (l1, mkU "lui" (AStr rd) (EHi e)); (l2, mkI "addi" (AStr rd) (AStr rd) (ELo e) false); (lb, ILabel B)]
                 [] [] false = Done r ->
  r_labels r = [(A, 0); (B, 8)] /\
  exists nrd v, regnum (AStr rd) = Some nrd /\ eval_here l1 0 [] (r_labels r) e = Done v /\
    forall s, loaded s (out_bytes r) ->
      exists s', run_n 2 s = Some s' /\ pc s' = wrap (pc s + 8) /\ only_reg s s' nrd (wrap v).
Proof.
  intros Hpr H. apply pair_between_labels in H. destruct H as (Hl & _ & H). split; [exact Hl|]. rewrite Hl.
  exact (lui_addi_pair _ _ _ _ _ _ _ _ Hpr H).
Qed.

(* ---- (b) --------------------------------------------------------------------------------------------------------- *)
Theorem lui_load_program w l1 l2 t rd e r :
  is_position_relative e = false ->
  assemble_items [(l1, mkU "lui" (AStr t) (EHi e)); (l2, mkI (lwidth_name w) (AStr rd) (AStr t) (ELo e) false)] [] [] false = Done r ->
  exists nt nrd v, regnum (AStr t) = Some nt /\ regnum (AStr rd) = Some nrd /\ eval_here l1 0 [] [] e = Done v /\
    forall s, loaded s (out_bytes r) -> nt <> 0 ->
      exists s', run_n 2 s = Some s' /\ pc s' = wrap (pc s + 8) /\
        two_regs s s' nt (wrap (relocate_hi v * 4096)) nrd (load_val w (mem s) (wrap v)).
Proof.
  intros Hpr H. apply pair_program in H. destruct H as (_ & _ & H).
  destruct (lui_load_pair w _ _ _ _ _ _ _ _ _ _ Hpr H) as (nt & nt' & nrd & v & Ht & Ht' & Hrd & Hv & E).
  rewrite Ht in Ht'. apply Some_inj in Ht'. subst nt'.
  exists nt, nrd, v. repeat (split; [assumption|]). intros s L Hnz. exact (E s L eq_refl Hnz).
Qed.
Theorem lui_store_program w l1 l2 t rs e r :
  is_position_relative e = false ->
  assemble_items [(l1, mkU "lui" (AStr t) (EHi e)); (l2, mkS (swidth_name w) (AStr t) (AStr rs) (ELo e))] [] [] false = Done r ->
  exists nt nrs v, regnum (AStr t) = Some nt /\ regnum (AStr rs) = Some nrs /\ eval_here l1 0 [] [] e = Done v /\
    forall s, loaded s (out_bytes r) -> nt <> 0 ->
      exists s', run_n 2 s = Some s' /\ pc s' = wrap (pc s + 8) /\
        getr s' nt = wrap (relocate_hi v * 4096) /\ (forall x, x <> nt -> getr s' x = getr s x) /\
        mem s' = store_le (swidth_bytes w) (mem s) (wrap v) (if (nrs =? nt)%Z then wrap (relocate_hi v * 4096) else getr s nrs).
Proof.
  intros Hpr H. apply pair_program in H. destruct H as (_ & _ & H).
  destruct (lui_store_pair w _ _ _ _ _ _ _ _ _ _ Hpr H) as (nt & nt' & nrs & v & Ht & Ht' & Hrs & Hv & E).
  rewrite Ht in Ht'. apply Some_inj in Ht'. subst nt'.
  exists nt, nrs, v. repeat (split; [assumption|]). intros s L Hnz. exact (E s L eq_refl Hnz).
Qed.

(* ---- (c) --------------------------------------------------------------------------------------------------------- *)
(* A: auipc t, %hi(%offset(L)) ; jalr rd, t, %lo(%offset(L)) ; B:   with L one of A (at the auipc) and B (behind the jalr):
   the jump goes to  address of L  - 4  (both distances, 0 and 8, are outside the window 2048 .. 2051) -- for L = B that is the jalr itself *)
Theorem auipc_jalr_label_program la l1 l2 lb A B t rd L r :
  assemble_items [(la, ILabel A); (l1, mkU "auipc" (AStr t) (EHi (EOff L))); (l2, mkI "jalr" (AStr rd) (AStr t) (ELo (EOff L)) false);
                  (lb, ILabel B)] [] [] false = Done r ->
  r_labels r = [(A, 0); (B, 8)] /\
  exists nt nrd q, regnum (AStr t) = Some nt /\ regnum (AStr rd) = Some nrd /\ assoc_str L (r_labels r) = Some q /\ (q = 0 \/ q = 8) /\
    forall s, loaded s (out_bytes r) -> nt <> 0 ->
      let target := wrap (pc s + q - 4) in
      exists s', run_n 2 s = Some s' /\ pc s' = target - target mod 2 /\ pc s' <> wrap (pc s + q) /\
        two_regs s s' nt (wrap (pc s)) nrd (wrap (pc s + 8)).
Proof.
  intros H. apply pair_between_labels in H. destruct H as (Hl & _ & H). split; [exact Hl|]. rewrite Hl.
  destruct (auipc_jalr_same_label _ _ _ _ _ _ _ _ _ _ H) as (nt & nt' & nrd & q & Ht & Ht' & Hrd & Hq & E).
  rewrite Ht in Ht'. apply Some_inj in Ht'. subst nt'.
  unfold chain_get in Hq. cbn [assoc_str] in Hq.
  assert (Hq' : q = 0 \/ q = 8).
  { destruct (String.eqb L A); [left; congruence|]. destruct (String.eqb L B); [right; congruence|discriminate]. }
  exists nt, nrd, q. split; [exact Ht|]. split; [exact Hrd|]. split; [exact Hq|]. split; [exact Hq'|].
  intros s Ld Hnz. destruct (E s Ld eq_refl Hnz) as (s' & R & P & N & T). rewrite Z.sub_0_r in P, N, T.
  assert (Hw : lo_window q = false) by (destruct Hq' as [-> | ->]; reflexivity). rewrite Hw in P. rewrite Z.add_0_r in P.
  assert (Hh : relocate_hi q = 0) by (destruct Hq' as [-> | ->]; reflexivity). rewrite Hh, Z.mul_0_l, Z.add_0_r in T.
  exists s'. cbv zeta. auto.
Qed.
