(* C17: the command line writes exactly the program, or nothing.
   Both theorems are proved by symbolic execution of Model.Cli.run_cli on the GENERATED step list
   Gen.Cli.cli_steps, for every assembler (any function that may fail), every bin2hex meeting the round-trip
   hypothesis, every option record, working directory and file system.  A source change that moves a write in
   front of a step that can fail changes cli_steps and makes [cli_no_clobber] unprovable. *)
From Coq Require Import ZArith List Bool String Ascii Lia.
From BB Require Import Base.PyBase Gen.Cli Spec.Hex Model.Reader Model.Cli.
Import ListNotations.
Open Scope string_scope.
Open Scope Z_scope.

(* the assumption about the third-party writer intelhex.bin2hex, checked at run time on every hex file the real
   CLI produces: for an offset and a binary that fit the 32-bit address space it writes a file that the
   Spec decoder maps back to exactly those bytes at that offset *)
Definition roundtrip_at (bin2hex : Z -> string -> option string) (off : Z) (bin : string) : Prop :=
  exists h, bin2hex off bin = Some h /\ hex_decode h = Some (place off bin).
Definition bin2hex_roundtrip (bin2hex : Z -> string -> option string) : Prop :=
  forall off bin, 0 <= off -> off + strlen bin <= 2^32 -> roundtrip_at bin2hex off bin.
(* all the theorems need: the round trip for the offset and the binary of the run at hand *)
Definition roundtrip_for_run
    (assemble : fsys -> string -> string -> bool -> list string -> option (string * list (string * Z)))
    (bin2hex : Z -> string -> option string) (defs_dir cwd : string) (o : opts) (fs : fsys) : Prop :=
  forall off bin labels,
    py_int_lit (o_hex o) = Some off ->
    assemble fs cwd (abspath cwd (o_input o)) (o_compress o) (cli_dirs defs_dir cwd o) = Some (bin, labels) ->
    0 <= off -> off + strlen bin <= 2^32 -> roundtrip_at bin2hex off bin.
Lemma roundtrip_all_runs assemble bin2hex defs_dir cwd o fs :
  bin2hex_roundtrip bin2hex -> roundtrip_for_run assemble bin2hex defs_dir cwd o fs.
Proof. intros H off bin labels _ _ H1 H2. apply H; assumption. Qed.

(* the tags the translator computed from the AST agree with what the model says each kind does *)
Lemma cli_tags_ok : forallb tags_ok cli_steps = true.
Proof. vm_compute. reflexivity. Qed.

(* ---- dict_set / assoc_str ------------------------------------------------------------------------- *)
Lemma assoc_set_same {V} k (v : V) l : assoc_str k (dict_set k v l) = Some v.
Proof.
  induction l as [|[k' v'] l IH]; cbn.
  - rewrite String.eqb_refl. reflexivity.
  - destruct (String.eqb k k') eqn:E; cbn; rewrite E; auto.
Qed.
Lemma assoc_set_other {V} k k' (v : V) l : k' <> k -> assoc_str k' (dict_set k v l) = assoc_str k' l.
Proof.
  intros Hne. induction l as [|[k2 v2] l IH]; cbn.
  - destruct (String.eqb k' k) eqn:E; [apply String.eqb_eq in E; contradiction | reflexivity].
  - destruct (String.eqb k k2) eqn:E; cbn.
    + apply String.eqb_eq in E. subst k2.
      destruct (String.eqb k' k) eqn:E2; [apply String.eqb_eq in E2; contradiction | reflexivity].
    + rewrite IH. reflexivity.
Qed.
Lemma file_at_write_same fs cwd p d : file_at (fs_write fs cwd p d) cwd p = Some d.
Proof. unfold file_at, fs_write. cbn. apply assoc_set_same. Qed.
Lemma file_at_write_other fs cwd p q d :
  abspath cwd q <> abspath cwd p -> file_at (fs_write fs cwd p d) cwd q = file_at fs cwd q.
Proof. intros H. unfold file_at, fs_write. cbn. apply assoc_set_other. exact H. Qed.
Lemma key_write_other fs cwd p d k :
  k <> abspath cwd p -> assoc_str k (fs_files (fs_write fs cwd p d)) = assoc_str k (fs_files fs).
Proof. intros H. unfold fs_write. cbn. apply assoc_set_other. exact H. Qed.
Lemma dirs_write fs cwd p d : fs_dirs (fs_write fs cwd p d) = fs_dirs fs.
Proof. reflexivity. Qed.

Lemma nonempty_false s : nonempty s = false -> s = "".
Proof. destruct s; [reflexivity | discriminate]. Qed.
Lemma nonempty_true s : nonempty s = true -> s <> "".
Proof. destruct s; [discriminate | intros _ H; discriminate]. Qed.

(* ---- symbolic execution ----------------------------------------------------------------------------- *)
Ltac break_inner c :=
  lazymatch c with
  | context [match ?d with _ => _ end] => break_inner d
  | _ => destruct c eqn:?
  end.
Ltac exec_in H :=
  repeat (cbn [run_steps step kind with_fs st_fs st_dirs st_out st_off init hex_requested] in H;
          match type of H with
          | context [match ?c with _ => _ end] => break_inner c
          end);
  cbn [run_steps step kind with_fs st_fs st_dirs st_out st_off init hex_requested] in H.

Section WithAssembler.
  Variable assemble : fsys -> string -> string -> bool -> list string -> option (string * list (string * Z)).
  Variable bin2hex : Z -> string -> option string.
  Variable defs_dir : string.

  Ltac prep_run Hrt :=
    unfold roundtrip_for_run, cli_dirs in Hrt;
    repeat match goal with Hd : o_incdefs _ = _ |- _ => rewrite Hd in Hrt end;
    rewrite ?app_nil_r in Hrt.
  Ltac use_roundtrip Hrt :=
    prep_run Hrt;
    match goal with
    | Hb : bin2hex ?z ?bin = None, Ha : assemble _ _ _ _ _ = Some (?bin, ?l) |- _ =>
        let h := fresh "h" in let H1 := fresh in let H2 := fresh in
        destruct (Hrt z bin l) as [h [H1 H2]]; [assumption | assumption | lia | lia | congruence]
    end.
  Ltac to_Z :=
    repeat match goal with
           | H : (_ && _)%bool = true |- _ => apply andb_true_iff in H; destruct H
           | H : (_ <=? _) = true |- _ => apply Z.leb_le in H
           | H : (_ <? _) = true |- _ => apply Z.ltb_lt in H
           end.

  Lemma cli_no_clobber : forall cwd o fs fs' code,
      roundtrip_for_run assemble bin2hex defs_dir cwd o fs ->
      run_cli assemble bin2hex defs_dir cli_steps cwd o fs = (fs', code) -> code <> 0 -> fs' = fs.
  Proof.
    intros cwd o fs fs' code Hrt H Hc. unfold run_cli, cli_steps in H.
    exec_in H; inversion H; subst; try reflexivity; try congruence; exfalso; to_Z; use_roundtrip Hrt.
  Qed.

  (* the three files named on the command line are different files *)
  Definition distinct_outputs (cwd : string) (o : opts) : Prop :=
    (o_labels o <> "" -> abspath cwd (o_labels o) <> abspath cwd (o_output o)) /\
    (o_hex o <> "" -> abspath cwd (o_output o ++ ".hex") <> abspath cwd (o_output o)) /\
    (o_labels o <> "" -> o_hex o <> "" -> abspath cwd (o_labels o) <> abspath cwd (o_output o ++ ".hex")).

  Lemma cli_success : forall cwd o fs fs',
      roundtrip_for_run assemble bin2hex defs_dir cwd o fs ->
      run_cli assemble bin2hex defs_dir cli_steps cwd o fs = (fs', 0) ->
      exists bin labels,
        assemble fs cwd (abspath cwd (o_input o)) (o_compress o) (cli_dirs defs_dir cwd o) = Some (bin, labels) /\
        (distinct_outputs cwd o ->
           file_at fs' cwd (o_output o) = Some bin /\
           (o_labels o <> "" -> file_at fs' cwd (o_labels o) = Some (render_labels labels)) /\
           (o_hex o <> "" -> exists off h, py_int_lit (o_hex o) = Some off /\
                                            file_at fs' cwd (o_output o ++ ".hex") = Some h /\
                                            hex_decode h = Some (place off bin))).
  Proof.
    intros cwd o fs fs' Hrt H. unfold run_cli, cli_steps in H.
    exec_in H; inversion H; subst; clear H; prep_run Hrt;
      match goal with Ha : assemble _ _ _ _ _ = Some (?b, ?l) |- _ => exists b, l end;
      (split; [ unfold cli_dirs;
                repeat match goal with Hd : o_incdefs o = _ |- _ => rewrite Hd; clear Hd end;
                rewrite ?app_nil_r; assumption | ]);
      intros (D1 & D2 & D3); unfold hex_requested in *;
      repeat match goal with Hn : nonempty _ = true |- _ => apply nonempty_true in Hn
                           | Hn : nonempty _ = false |- _ => apply nonempty_false in Hn end;
      repeat match goal with HP : _ <> "" |- _ => first [specialize (D1 HP) | specialize (D2 HP) | specialize (D3 HP)] end;
      (split; [| split]).
    all: try (intros Hne; congruence).
    all: repeat first [ rewrite file_at_write_same
                      | rewrite file_at_write_other by (auto using not_eq_sym) ]; try reflexivity.
    all: try (intros _; reflexivity).
    all: intros _; to_Z;
      match goal with Hb : bin2hex ?z ?bin = Some ?h, Ha : assemble _ _ _ _ _ = Some (?bin, ?l) |- _ =>
        exists z, h; split; [first [assumption | reflexivity] | split; [reflexivity|]];
        destruct (Hrt z bin l) as [h' [H1 H2]]; [assumption | assumption | lia | lia | congruence] end.
  Qed.

  (* nothing else is touched: every other path keeps its contents, the directory tree is unchanged *)
  Lemma cli_nothing_else : forall cwd o fs fs' code k,
      run_cli assemble bin2hex defs_dir cli_steps cwd o fs = (fs', code) ->
      k <> abspath cwd (o_output o) -> k <> abspath cwd (o_labels o) -> k <> abspath cwd (o_output o ++ ".hex") ->
      assoc_str k (fs_files fs') = assoc_str k (fs_files fs) /\ fs_dirs fs' = fs_dirs fs.
  Proof.
    intros cwd o fs fs' code k H K1 K2 K3. unfold run_cli, cli_steps in H.
    exec_in H; inversion H; subst; clear H; split; try reflexivity;
      repeat rewrite key_write_other by assumption; reflexivity.
  Qed.
End WithAssembler.
