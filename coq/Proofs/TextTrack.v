(* The 16 passes of the pass model, followed item by item with a sharper relation than Pipeline.layout_facts:
   constant definitions vanish, zero padding stays zero padding, and a control transfer to a label (branch, jal, their
   pseudo forms) stays ONE instruction of one of four shapes whose immediate is still `%offset L` when the alignment
   pass hands it on (Pipeline.Rval then says where that expression is evaluated). *)
From Coq Require Import ZArith List Bool Lia String.
From BB Require Import Base.PyBase Gen.Encoders Gen.Criteria Model.Items Model.Encode Model.Passes
  Proofs.Layout Proofs.LayoutInst Proofs.Pipeline Proofs.Targets.
Import ListNotations.
Open Scope Z_scope.
Open Scope string_scope.

(* ---- register aliases, item by item -------------------------------------------------------------------------------- *)
Definition alias_item (consts : envt) (it : item) : item :=
  match it with IInstr cls name fs c => IInstr cls name (map (alias_field consts) fs) c | _ => it end.
Lemma aliases_map its consts :
  resolve_register_aliases its consts = map (fun x : litem => (fst x, alias_item consts (snd x))) its.
Proof. unfold resolve_register_aliases. apply map_ext. intros [l it]. destruct it; reflexivity. Qed.
Lemma alias_item_keep l it consts : Rkeep (l, it) [(l, alias_item consts it)].
Proof. destruct it; unfold Rkeep; simpl; auto; repeat constructor. Qed.

(* ---- zero padding is never touched by the passes behind the alignment pass ------------------------------------------ *)
Definition keepz (x y : litem) : Prop := forall n, snd x = IZeros n -> snd y = IZeros n.
Lemma Forall2_keepz_trans a : forall b c, Forall2 keepz a b -> Forall2 keepz b c -> Forall2 keepz a c.
Proof.
  induction a; intros b c H1 H2; inversion H1; subst; inversion H2; subst; constructor; eauto.
  intros n Hn. auto.
Qed.
Lemma Forall2_keepz_refl l : Forall2 keepz l l.
Proof. induction l; constructor; auto. intros n H; exact H. Qed.

Ltac kz_peel H :=
  repeat match type of H with
  | (_ <<- ?x ;;; _) = _ => destruct x as [?| |]; cbn [obind] in H; try discriminate H
  | context[match field_get ?a ?b with _ => _ end] => destruct (field_get a b)
  | context[if ?c then _ else _] => destruct c; try discriminate H
  | context[match ?x with Some _ => _ | None => _ end] => destruct x; try discriminate H
  | context[match ?x with Ok _ => _ | Err _ => _ end] => destruct x; try discriminate H
  end.
Ltac kz_close IHres F :=
  eexists; split; [ simpl; rewrite <- app_assoc; reflexivity
                  | constructor; [ intros ?n ?Hn; cbn [snd] in *; first [discriminate | assumption] | exact F ] ].

Lemma resolve_immediates_keepz its : forall pos consts labels acc out,
  resolve_immediates its pos consts labels acc = Done out -> exists out', out = app (rev acc) out' /\ Forall2 keepz its out'.
Proof.
  induction its as [|[l it] r IH]; intros pos consts labels acc out H.
  - simpl in H. inversion H. exists []. rewrite app_nil_r. split; auto.
  - destruct it; cbn [resolve_immediates] in H; kz_peel H;
      destruct (IH _ _ _ _ _ H) as (o' & -> & F); kz_close o' F.
Qed.
Lemma resolve_instructions_keepz its : forall acc out,
  resolve_instructions its acc = Done out -> exists out', out = app (rev acc) out' /\ Forall2 keepz its out'.
Proof.
  induction its as [|[l it] r IH]; intros acc out H.
  - simpl in H. inversion H. exists []. rewrite app_nil_r. split; auto.
  - destruct it; cbn [resolve_instructions] in H; kz_peel H; destruct (IH _ _ H) as (o' & -> & F); kz_close o' F.
Qed.
Lemma resolve_strings_keepz its : Forall2 keepz its (resolve_strings its).
Proof.
  unfold resolve_strings. induction its as [|[l it] r IH]; simpl; constructor; auto.
  intros n Hn. simpl in Hn. subst it. reflexivity.
Qed.
Lemma resolve_sequences_keepz its : forall acc out,
  resolve_sequences its acc = Done out -> exists out', out = app (rev acc) out' /\ Forall2 keepz its out'.
Proof.
  induction its as [|[l it] r IH]; intros acc out H.
  - simpl in H. inversion H. exists []. rewrite app_nil_r. split; auto.
  - destruct it; cbn [resolve_sequences] in H; kz_peel H; destruct (IH _ _ H) as (o' & -> & F); kz_close o' F.
Qed.
Lemma transform_shorthand_keepz its : forall acc out,
  transform_shorthand its acc = Done out -> exists out', out = app (rev acc) out' /\ Forall2 keepz its out'.
Proof.
  induction its as [|[l it] r IH]; intros acc out H.
  - simpl in H. inversion H. exists []. rewrite app_nil_r. split; auto.
  - destruct it; cbn [transform_shorthand] in H; try (destruct imm; try discriminate H); kz_peel H;
      destruct (IH _ _ H) as (o' & -> & F); kz_close o' F.
Qed.
Lemma resolve_packs_keepz its : forall acc out,
  resolve_packs its acc = Done out -> exists out', out = app (rev acc) out' /\ Forall2 keepz its out'.
Proof.
  induction its as [|[l it] r IH]; intros acc out H.
  - simpl in H. inversion H. exists []. rewrite app_nil_r. split; auto.
  - destruct it; cbn [resolve_packs] in H; try (destruct imm; try discriminate H); kz_peel H;
      destruct (IH _ _ H) as (o' & -> & F); kz_close o' F.
Qed.
Lemma resolve_include_bytes_keepz its : forall acc out,
  resolve_include_bytes its acc = Done out -> exists out', out = app (rev acc) out' /\ Forall2 keepz its out'.
Proof.
  induction its as [|[l it] r IH]; intros acc out H.
  - simpl in H. inversion H. exists []. rewrite app_nil_r. split; auto.
  - destruct it; cbn [resolve_include_bytes] in H; kz_peel H; destruct (IH _ _ H) as (o' & -> & F); kz_close o' F.
Qed.

(* ---- control transfers to a label: the shapes ------------------------------------------------------------------------ *)
(* xferI L c m it: [it] is one instruction transferring control to `%offset L`; m is the 32-bit mnemonic it stands for
   (beq .. bgeu, jal); c = false excludes the two compressed shapes *)
Inductive xferI (L : string) : bool -> string -> item -> Prop :=
| xf_b c m a b : In m branch_names ->
    xferI L c m (IInstr "BTypeInstruction" m [("rs1", FReg a); ("rs2", FReg b); ("imm", FExpr (EOff L))] false)
| xf_j c a : xferI L c "jal" (IInstr "JTypeInstruction" "jal" [("rd", FReg a); ("imm", FExpr (EOff L))] false)
| xf_cb m name a : In (m, name) [("beq", "c.beqz"); ("bne", "c.bnez")] ->
    xferI L true m (IInstr "CBTypeInstruction" name [("rs1", FReg a); ("imm", FExpr (EOff L))] true)
| xf_cj name : In name ["c.j"; "c.jal"] ->
    xferI L true "jal" (IInstr "CJTypeInstruction" name [("imm", FExpr (EOff L))] true).
(* before the pseudo-instruction pass: also a pseudo-instruction that expands to one of them *)
Definition xfer (L : string) (c : bool) (m : string) (it : item) : Prop :=
  xferI L c m it \/
  exists name args pimm it', it = IPseudo name args pimm /\ (forall l, expand_pseudo l name args pimm = Done (One it')) /\ xferI L c m it'.

Lemma alias_reg consts k a : mem_str k REGS = true ->
  exists a', alias_field consts (k, FReg a) = (k, FReg a').
Proof.
  intro Hk. destruct a as [z|s]; cbn [alias_field]; [eauto|]. rewrite Hk. destruct (assoc_str s consts); eauto.
Qed.
Lemma xferI_alias consts L c m it : xferI L c m it -> xferI L c m (alias_item consts it).
Proof.
  intro H. destruct H as [c m a b Hn|c a|m name a Hn|name Hn]; cbn [alias_item map].
  - destruct (alias_reg consts "rs1" a eq_refl) as [a' ->]. destruct (alias_reg consts "rs2" b eq_refl) as [b' ->].
    change (alias_field consts ("imm", FExpr (EOff L))) with ("imm", FExpr (EOff L)). constructor; auto.
  - destruct (alias_reg consts "rd" a eq_refl) as [a' ->].
    change (alias_field consts ("imm", FExpr (EOff L))) with ("imm", FExpr (EOff L)). constructor.
  - destruct (alias_reg consts "rs1" a eq_refl) as [a' ->].
    change (alias_field consts ("imm", FExpr (EOff L))) with ("imm", FExpr (EOff L)). constructor; auto.
  - change (alias_field consts ("imm", FExpr (EOff L))) with ("imm", FExpr (EOff L)). constructor; auto.
Qed.
Lemma xfer_alias consts L c m it : xfer L c m it -> xfer L c m (alias_item consts it).
Proof.
  intros [H|(name & args & pimm & it' & -> & He & Hx)]. left. apply xferI_alias; auto.
  right. simpl. eauto 8.
Qed.

(* ---- which compression rules can fire on a mnemonic ---------------------------------------------------------------------- *)
Definition head_name_ok (name : string) (ps : list pred) : bool :=
  match ps with PNameEquals s :: _ => String.eqb name s | _ => true end.
Definition rules_for (name : string) : list string :=
  map fst (filter (fun r => head_name_ok name (snd r)) criteria).
Lemma all_preds_head ps i : all_preds ps i = Ok true -> head_name_ok (iv_name i) ps = true.
Proof.
  destruct ps as [|p ps]; [reflexivity|]. destruct p; try reflexivity.
  cbn [all_preds pred_sem bind head_name_ok]. destruct (String.eqb (iv_name i) value); [reflexivity|discriminate].
Qed.
Lemma select_rule_in cr i rule : select_rule cr i = Ok (Some rule) ->
  In rule (map fst (filter (fun r => head_name_ok (iv_name i) (snd r)) cr)).
Proof.
  induction cr as [|[n ps] r IH]; cbn [select_rule]; [discriminate|].
  destruct (all_preds ps i) as [b|e] eqn:E; cbn [bind]; [|discriminate]. destruct b.
  - intro H; inversion H; subst. cbn [filter snd]. rewrite (all_preds_head _ _ E). left; reflexivity.
  - intro H. cbn [filter snd]. destruct (head_name_ok (iv_name i) ps); [right|]; auto.
Qed.
Lemma select_rule_for l p consts ls name fs rule :
  select_rule criteria (view_of l p consts ls name fs) = Ok (Some rule) -> In rule (rules_for name).
Proof. intro H. apply select_rule_in in H. exact H. Qed.

Lemma imm_unstable_offset l p consts cls fs L :
  field_get "imm" fs = Some (FExpr (EOff L)) ->
  exists u, imm_unstable l p consts cls fs = Done u.
Proof.
  intro Hf. unfold imm_unstable. rewrite Hf. unfold is_settled. cbn [is_position_relative obind negb].
  destruct (_ && _); eauto.
Qed.
Lemma imm_unstable_c l p consts cls fs L :
  field_get "imm" fs = Some (FExpr (EOff L)) ->
  (String.eqb cls "BTypeInstruction" || String.eqb cls "JTypeInstruction") = false ->
  imm_unstable l p consts cls fs = Done true.
Proof.
  intros Hf Hc. unfold imm_unstable. rewrite Hf, Hc. unfold is_settled. cbn [is_position_relative obind negb andb]. reflexivity.
Qed.

Lemma xferI_compress consts l p ls L c m it rs :
  xferI L c m it -> compress_rule consts l it p ls = Done rs -> exists it', rs = [it'] /\ xferI L true m it'.
Proof.
  intros Hx Hr. destruct Hx as [c m a b Hn|c a|m name a Hn|name Hn].
  - (* branch *)
    cbv beta iota delta [compress_rule] in Hr.
    destruct (imm_unstable_offset l p consts "BTypeInstruction" [("rs1", FReg a); ("rs2", FReg b); ("imm", FExpr (EOff L))] L eq_refl)
      as [u Hu]. rewrite Hu in Hr. cbn [obind] in Hr.
    destruct u. { inversion Hr; subst. eexists; split; [reflexivity|]. constructor; auto. }
    destruct (select_rule criteria _) as [[rule|]|e] eqn:Es; try discriminate.
    + apply select_rule_for in Es. unfold branch_names in Hn. simpl in Hn.
      repeat (destruct Hn as [<-|Hn];
        [ vm_compute in Es;
          repeat (destruct Es as [<-|Es];
            [ vm_compute in Hr; inversion Hr; subst; eexists; split; [reflexivity|]; constructor; simpl; tauto |]);
          contradiction |]).
      contradiction.
    + inversion Hr; subst. eexists; split; [reflexivity|]. constructor; auto.
  - (* jal *)
    cbv beta iota delta [compress_rule] in Hr.
    destruct (imm_unstable_offset l p consts "JTypeInstruction" [("rd", FReg a); ("imm", FExpr (EOff L))] L eq_refl) as [u Hu].
    rewrite Hu in Hr. cbn [obind] in Hr.
    destruct u. { inversion Hr; subst. eexists; split; [reflexivity|]. constructor; auto. }
    destruct (select_rule criteria _) as [[rule|]|e] eqn:Es; try discriminate.
    + apply select_rule_for in Es. vm_compute in Es.
      repeat (destruct Es as [<-|Es];
        [ vm_compute in Hr; inversion Hr; subst; eexists; split; [reflexivity|]; constructor; simpl; tauto |]).
      contradiction.
    + inversion Hr; subst. eexists; split; [reflexivity|]. constructor; auto.
  - cbv beta iota delta [compress_rule] in Hr.
    rewrite (imm_unstable_c l p consts "CBTypeInstruction" [("rs1", FReg a); ("imm", FExpr (EOff L))] L eq_refl eq_refl) in Hr. cbn [obind] in Hr.
    inversion Hr; subst. eexists; split; [reflexivity|]. constructor; auto.
  - cbv beta iota delta [compress_rule] in Hr.
    rewrite (imm_unstable_c l p consts "CJTypeInstruction" [("imm", FExpr (EOff L))] L eq_refl eq_refl) in Hr. cbn [obind] in Hr.
    inversion Hr; subst. eexists; split; [reflexivity|]. constructor; auto.
Qed.
Lemma xfer_compress consts l p ls L c m it rs :
  xfer L c m it -> compress_rule consts l it p ls = Done rs -> exists it', rs = [it'] /\ xfer L true m it'.
Proof.
  intros [H|(name & args & pimm & it' & -> & He & Hx)] Hr.
  - destruct (xferI_compress _ _ _ _ _ _ _ _ _ H Hr) as (it' & -> & H'). exists it'. split; auto. left; auto.
  - inversion Hr; subst. eexists; split; [reflexivity|]. right.
    assert (Hm : xferI L true m it') by (clear - Hx; destruct Hx; constructor; auto). eauto 8.
Qed.
Lemma xferI_not_pseudo L c m it : xferI L c m it -> match it with IPseudo _ _ _ => False | _ => True end.
Proof. intro H; destruct H; exact I. Qed.
Lemma xfer_pseudo consts l p ls L c m it rs :
  xfer L c m it -> pseudo_rule consts l it p ls = Done rs -> exists it', rs = [it'] /\ xferI L c m it'.
Proof.
  intros [H|(name & args & pimm & it' & -> & He & Hx)] Hr.
  - pose proof (xferI_not_pseudo _ _ _ _ H) as Hn. destruct it; try contradiction; inversion Hr; subst; eauto.
  - cbv beta iota delta [pseudo_rule] in Hr. rewrite (He l) in Hr. cbn [obind] in Hr. inversion Hr; subst. eauto.
Qed.
Lemma xferI_label L c m n : ~ xferI L c m (ILabel n). Proof. intro H; inversion H. Qed.
Lemma xfer_label L c m n : ~ xfer L c m (ILabel n).
Proof. intros [H|(name & args & pimm & it' & E & _)]. inversion H. discriminate. Qed.

(* ---- call / tail: the pseudo-instruction, and the two halves of the far pair ----------------------------------------------------- *)
Definition xcall (L : string) (it : item) : Prop :=
  exists name pimm, In name ["call"; "tail"] /\ it = IPseudo name [L] pimm.
(* the registers of the pair are written by the template as names; [ra] says what a name has become (itself; after
   resolve_register_aliases the value of a constant of that name, if there is one) *)
Definition alias_arg (consts : envt) (s : string) : arg := match assoc_str s consts with Some v => AInt v | None => AStr s end.
Inductive farrole := FHi (s : string) | FLo (d s : string).
Inductive farI (L : string) (ra : string -> arg) : farrole -> item -> Prop :=
| far_hi s : farI L ra (FHi s) (IInstr "UTypeInstruction" "auipc" [("rd", FReg (ra s)); ("imm", FExpr (EHi (EOff L)))] false)
| far_lo d s : farI L ra (FLo d s)
    (IInstr "ITypeInstruction" "jalr" [("rd", FReg (ra d)); ("rs1", FReg (ra s)); ("imm", FExpr (ELo (EOff L))); ("is_auipc_jump", FBool true)] false).

Lemma alias_reg_str consts k s : mem_str k REGS = true -> alias_field consts (k, FReg (AStr s)) = (k, FReg (alias_arg consts s)).
Proof. intro Hk. cbn [alias_field]. rewrite Hk. unfold alias_arg. destruct (assoc_str s consts); reflexivity. Qed.
Lemma farI_alias consts L r it : farI L AStr r it -> farI L (alias_arg consts) r (alias_item consts it).
Proof.
  intro H. destruct H as [s|d s]; cbn [alias_item map].
  - rewrite (alias_reg_str consts "rd" s eq_refl).
    change (alias_field consts ("imm", FExpr (EHi (EOff L)))) with ("imm", FExpr (EHi (EOff L))). constructor.
  - rewrite (alias_reg_str consts "rd" d eq_refl), (alias_reg_str consts "rs1" s eq_refl).
    change (alias_field consts ("imm", FExpr (ELo (EOff L)))) with ("imm", FExpr (ELo (EOff L))).
    change (alias_field consts ("is_auipc_jump", FBool true)) with ("is_auipc_jump", FBool true). constructor.
Qed.
Lemma imm_unstable_rel l p consts cls fs e :
  field_get "imm" fs = Some (FExpr e) -> is_position_relative e = true ->
  (String.eqb cls "BTypeInstruction" || String.eqb cls "JTypeInstruction") = false ->
  imm_unstable l p consts cls fs = Done true.
Proof.
  intros Hf Hr Hc. unfold imm_unstable. rewrite Hf, Hc. unfold is_settled. rewrite Hr. cbn [obind negb andb]. reflexivity.
Qed.
Lemma farI_compress consts l p ls L ra r it rs :
  farI L ra r it -> compress_rule consts l it p ls = Done rs -> rs = [it].
Proof.
  intros Hx Hr. destruct Hx as [s|d s]; cbv beta iota delta [compress_rule] in Hr.
  - rewrite (imm_unstable_rel l p consts "UTypeInstruction" [("rd", FReg (ra s)); ("imm", FExpr (EHi (EOff L)))] (EHi (EOff L)) eq_refl eq_refl eq_refl) in Hr.
    cbn [obind] in Hr. inversion Hr; reflexivity.
  - rewrite (imm_unstable_rel l p consts "ITypeInstruction"
               [("rd", FReg (ra d)); ("rs1", FReg (ra s)); ("imm", FExpr (ELo (EOff L))); ("is_auipc_jump", FBool true)] (ELo (EOff L)) eq_refl eq_refl eq_refl) in Hr.
    cbn [obind] in Hr. inversion Hr; reflexivity.
Qed.
(* what the pseudo-instruction pass does with call / tail: the one-instruction form, or the pair *)
Lemma xcall_pseudo consts l p ls L c it rs :
  xcall L it -> pseudo_rule consts l it p ls = Done rs ->
  (exists it', rs = [it'] /\ xferI L c "jal" it') \/
  (exists d s i1 i2, rs = [i1; i2] /\ farI L AStr (FHi s) i1 /\ farI L AStr (FLo d s) i2).
Proof.
  intros (name & pimm & Hn & ->) Hr. cbv beta iota delta [pseudo_rule] in Hr. simpl in Hn.
  destruct Hn as [<-|[<-|[]]].
  - assert (E : expand_pseudo l "call" [L] pimm =
                Done (Choice (EOff L) (Some L) (-1048576) 1048575 (mkJ "jal" (St "x1") (near_imm (EOff L)))
                             (mkU "auipc" (St "x1") (EHi (EOff L))) (mkI "jalr" (St "x1") (St "x1") (ELo (EOff L)) true))) by reflexivity.
    rewrite E in Hr. cbn [obind] in Hr.
    destruct (of_pres _) as [v| |]; cbn [obind] in Hr; try discriminate.
    destruct (_ && _ && _); inversion Hr; subst.
    + left. eexists; split; [reflexivity|]. unfold mkJ, near_imm, St. constructor.
    + right. exists "x1", "x1". do 2 eexists. split; [reflexivity|]. split; [apply (far_hi L AStr "x1")|apply (far_lo L AStr "x1" "x1")].
  - assert (E : expand_pseudo l "tail" [L] pimm =
                Done (Choice (EOff L) (Some L) (-1048576) 1048575 (mkJ "jal" (St "x0") (near_imm (EOff L)))
                             (mkU "auipc" (St "x6") (EHi (EOff L))) (mkI "jalr" (St "x0") (St "x6") (ELo (EOff L)) true))) by reflexivity.
    rewrite E in Hr. cbn [obind] in Hr.
    destruct (of_pres _) as [v| |]; cbn [obind] in Hr; try discriminate.
    destruct (_ && _ && _); inversion Hr; subst.
    + left. eexists; split; [reflexivity|]. unfold mkJ, near_imm, St. constructor.
    + right. exists "x0", "x6". do 2 eexists. split; [reflexivity|]. split; [apply (far_hi L AStr "x6")|apply (far_lo L AStr "x0" "x6")].
Qed.

(* ---- EXPLICITLY written compressed transfers `c.j L`, `c.jal L`, `c.beqz rs, L`, `c.bnez rs, L`: compressed in both modes ------------- *)
Inductive xferC (L : string) : string -> item -> Prop :=
| xc_cb m name a : In (m, name) [("beq", "c.beqz"); ("bne", "c.bnez")] ->
    xferC L m (IInstr "CBTypeInstruction" name [("rs1", FReg a); ("imm", FExpr (EOff L))] true)
| xc_cj name : In name ["c.j"; "c.jal"] ->
    xferC L "jal" (IInstr "CJTypeInstruction" name [("imm", FExpr (EOff L))] true).
Lemma xferC_I L m it : xferC L m it -> xferI L true m it.
Proof. intro H; destruct H; constructor; auto. Qed.
Lemma xferC_alias consts L m it : xferC L m it -> xferC L m (alias_item consts it).
Proof.
  intro H. destruct H as [m name a Hn|name Hn]; cbn [alias_item map].
  - destruct (alias_reg consts "rs1" a eq_refl) as [a' ->].
    change (alias_field consts ("imm", FExpr (EOff L))) with ("imm", FExpr (EOff L)). constructor; auto.
  - change (alias_field consts ("imm", FExpr (EOff L))) with ("imm", FExpr (EOff L)). constructor; auto.
Qed.
Lemma xferC_compress consts l p ls L m it rs : xferC L m it -> compress_rule consts l it p ls = Done rs -> rs = [it].
Proof.
  intros Hx Hr. destruct Hx as [m name a Hn|name Hn]; cbv beta iota delta [compress_rule] in Hr.
  - rewrite (imm_unstable_c l p consts "CBTypeInstruction" [("rs1", FReg a); ("imm", FExpr (EOff L))] L eq_refl eq_refl) in Hr. cbn [obind] in Hr.
    inversion Hr; reflexivity.
  - rewrite (imm_unstable_c l p consts "CJTypeInstruction" [("imm", FExpr (EOff L))] L eq_refl eq_refl) in Hr. cbn [obind] in Hr.
    inversion Hr; reflexivity.
Qed.
Lemma xferC_pseudo consts l p ls L m it rs : xferC L m it -> pseudo_rule consts l it p ls = Done rs -> rs = [it].
Proof. intros Hx Hr. destruct Hx; inversion Hr; reflexivity. Qed.

(* ---- the families that are followed, under one index type ------------------------------------------------------------------------- *)
Inductive idx := IT (L m : string) | IX (L m : string) | IC (L : string) | IF (L : string) (r : farrole).
Definition single_idx (i : idx) : Prop := match i with IT _ _ | IX _ _ => True | _ => False end.
Definition P23 (cmp : bool) (i : idx) (it : item) : Prop :=        (* in front of the pseudo-instruction pass *)
  match i with IT L m => xfer L cmp m it | IX L m => xferC L m it | IC L => xcall L it | IF _ _ => False end.
Definition Q4 (cmp : bool) (ra : string -> arg) (i : idx) (it : item) : Prop :=   (* behind it *)
  match i with IT L m => xferI L cmp m it | IX L m => xferC L m it | IC _ => False | IF L r => farI L ra r it end.

Lemma P23_alias consts cmp i it : P23 cmp i it -> P23 cmp i (alias_item consts it).
Proof.
  destruct i as [L m|L m|L|L r]; cbn [P23]; auto. apply xfer_alias. apply xferC_alias.
  intros (name & pimm & Hn & ->). exists name, pimm. auto.
Qed.
Lemma P23_compress consts l p ls i it rs :
  P23 true i it -> compress_rule consts l it p ls = Done rs -> exists it', rs = [it'] /\ P23 true i it'.
Proof.
  destruct i as [L m|L m|L|L r]; cbn [P23]; try contradiction. apply xfer_compress.
  - intros H Hr. rewrite (xferC_compress _ _ _ _ _ _ _ _ H Hr). eauto.
  - intros (name & pimm & Hn & ->) Hr. inversion Hr; subst. eexists; split; [reflexivity|]. exists name, pimm. auto.
Qed.
Lemma P23_label cmp i n : ~ P23 cmp i (ILabel n).
Proof.
  destruct i as [L m|L m|L|L r]; cbn [P23]; auto. apply xfer_label. intro H; inversion H. intros (name & pimm & _ & E). discriminate.
Qed.
Lemma Q4_alias consts cmp i it : Q4 cmp AStr i it -> Q4 cmp (alias_arg consts) i (alias_item consts it).
Proof. destruct i as [L m|L m|L|L r]; cbn [Q4]; auto. apply xferI_alias. apply xferC_alias. apply farI_alias. Qed.
Lemma Q4_compress consts ra l p ls i it rs :
  Q4 true ra i it -> compress_rule consts l it p ls = Done rs -> exists it', rs = [it'] /\ Q4 true ra i it'.
Proof.
  destruct i as [L m|L m|L|L r]; cbn [Q4]; try contradiction. apply xferI_compress.
  - intros H Hr. rewrite (xferC_compress _ _ _ _ _ _ _ _ H Hr). eauto.
  - intros H Hr. rewrite (farI_compress _ _ _ _ _ _ _ _ _ H Hr). eauto.
Qed.
Lemma Q4_label cmp ra i n : ~ Q4 cmp ra i (ILabel n).
Proof. destruct i as [L m|L m|L|L r]; cbn [Q4]; auto. apply xferI_label. intro H; inversion H. intro H; inversion H. Qed.

(* ---- the tracking relation of one stage --------------------------------------------------------------------------------- *)
Definition fam := idx -> item -> Prop.
Definition is_instr (it : item) : Prop := match it with IInstr _ _ _ _ => True | _ => False end.
Definition instrs (g : list litem) : Prop := Forall (fun y : litem => is_instr (snd y)) g.
Definition Rk (P Q : fam) (x : litem) (g : list litem) : Prop :=
  Rkeep x g /\ (is_instr (snd x) -> instrs g) /\ forall i, P i (snd x) -> exists it', g = [(fst x, it')] /\ Q i it'.
Lemma grouped_impl (R S : litem -> list litem -> Prop) : (forall x g, R x g -> S x g) -> forall a b, grouped R a b -> grouped S a b.
Proof. intros H a b G. induction G; constructor; auto. Qed.
Lemma grouped_single (R : litem -> list litem -> Prop) x h : grouped R [x] h -> R x h.
Proof. intro G. inversion G as [|? ? bs bs' Hx G']; subst. inversion G'; subst. rewrite app_nil_r. exact Hx. Qed.
Lemma grouped_pair (R : litem -> list litem -> Prop) x y h : grouped R [x; y] h -> exists h1 h2, h = app h1 h2 /\ R x h1 /\ R y h2.
Proof.
  intro G. inversion G as [|? ? bs bs' Hx G']; subst. apply grouped_single in G'. eauto.
Qed.
Lemma grouped_instrs (R : litem -> list litem -> Prop) g h :
  (forall x k, R x k -> is_instr (snd x) -> instrs k) -> instrs g -> grouped R g h -> instrs h.
Proof.
  intros HR Hg G. induction G as [|x l bs bs' Hx G IH]. constructor.
  inversion Hg as [|? ? Hi Hg']; subst. unfold instrs. apply Forall_app. split.
  - exact (HR _ _ Hx Hi).
  - apply IH. exact Hg'.
Qed.
Lemma Rk_comp (P Q Q' : fam) x g h : Rk P Q x g -> grouped (Rk Q Q') g h -> Rk P Q' x h.
Proof.
  intros (K & I1 & T) G. split; [|split].
  - eapply Rkeep_comp; [exact K|]. eapply grouped_impl; [|exact G]. intros y k [A _]; exact A.
  - intro Hi. eapply grouped_instrs; [|exact (I1 Hi)|exact G]. intros y k (_ & A & _). exact A.
  - intros i HP. destruct (T i HP) as (it' & -> & HQ). apply grouped_single in G. destruct G as (_ & _ & T').
    destruct (T' i HQ) as (it'' & -> & HQ'). eauto.
Qed.
Lemma grouped_Rk_trans (P Q Q' : fam) a b c : grouped (Rk P Q) a b -> grouped (Rk Q Q') b c -> grouped (Rk P Q') a c.
Proof. apply grouped_trans. apply Rk_comp. Qed.
Lemma grouped_Rk_refl (P : fam) its : grouped (Rk P P) its its.
Proof.
  induction its as [|[l it] r IH]. constructor.
  change ((l, it) :: r) with (app [(l, it)] r) at 2. constructor; auto. split; [|split].
  - unfold Rkeep; simpl. destruct it; auto; repeat constructor.
  - intro Hi. repeat constructor. exact Hi.
  - intros i H. eauto.
Qed.

Lemma aliases_Rk (P Q : fam) consts its :
  (forall i it, P i it -> Q i (alias_item consts it)) -> grouped (Rk P Q) its (resolve_register_aliases its consts).
Proof.
  intro HP. rewrite aliases_map. induction its as [|[l it] r IH]; simpl. constructor.
  match goal with |- grouped _ _ (?y :: ?t) => change (y :: t) with (app [y] t) end.
  constructor; auto. split; [|split]. apply alias_item_keep.
  - intro Hi. repeat constructor. cbn [snd] in *. destruct it; try contradiction; exact I.
  - intros i H. simpl in *. eauto.
Qed.

Lemma compress_rule_instr consts l it p ls rs :
  compress_rule consts l it p ls = Done rs -> is_instr it -> Forall is_instr rs.
Proof.
  intros Hr Hi. destruct it; try contradiction. cbv beta iota delta [compress_rule] in Hr.
  destruct (imm_unstable l p consts cls fields) as [u| |]; cbv beta iota delta [obind] in Hr; try discriminate.
  destruct u. { inversion Hr. repeat constructor. }
  destruct (select_rule criteria _) as [[rule|]|e]; try discriminate.
  - destruct (build_compressed rule fields) as [it'|] eqn:Eb; try discriminate.
    inversion Hr; subst. destruct (build_compressed_shape _ _ _ Eb) as (cls' & n' & nfs & ->). repeat constructor.
  - inversion Hr. repeat constructor.
Qed.
Lemma instrs_map l rs : Forall is_instr rs -> instrs (map (fun y => (l, y)) rs).
Proof. induction 1; constructor; auto. Qed.
Lemma compress_group_Rk (P : fam) consts p x g :
  (forall l q ls i it rs, P i it -> compress_rule consts l it q ls = Done rs -> exists it', rs = [it'] /\ P i it') ->
  (forall i n, ~ P i (ILabel n)) ->
  pass_group (compress_rule consts) p x g -> Rk P P x g.
Proof.
  intros HP Hl H. split; [|split]. eapply compress_group_keep; eauto.
  - destruct x as [l it]. unfold pass_group in H. cbn [fst snd] in *. intro Hi.
    destruct it; try contradiction. cbn [is_label] in H. destruct H as (ls0 & rs & Hr & ->).
    apply instrs_map. eapply compress_rule_instr; eauto.
  - destruct x as [l it]. unfold pass_group in H. cbn [fst snd] in *. destruct (is_label it) as [n|] eqn:El.
    + intros i HPL. rewrite (is_label_inv _ _ El) in HPL. destruct (Hl _ _ HPL).
    + destruct H as (ls0 & rs & Hr & ->). intros i HPL. destruct (HP _ _ _ _ _ _ HPL Hr) as (it' & -> & H'). simpl. eauto.
Qed.

(* the pseudo-instruction pass, and what has become of a source item behind it: code is instructions only; a transfer is ONE
   item; call / tail is the one-instruction form or the pair *)
Definition R4 (cmp : bool) (Q : fam) (x : litem) (g : list litem) : Prop :=
  Rkeep x g /\ (codelike (snd x) -> instrs g) /\
  (forall i, single_idx i -> P23 cmp i (snd x) -> exists it', g = [(fst x, it')] /\ Q i it') /\
  (forall L, P23 cmp (IC L) (snd x) ->
     (exists it', g = [(fst x, it')] /\ Q (IT L "jal") it') \/
     (exists d s i1 i2, g = [(fst x, i1); (fst x, i2)] /\ Q (IF L (FHi s)) i1 /\ Q (IF L (FLo d s)) i2)).
Lemma plain_instr it : plain it -> is_instr it.
Proof. intros (cls & n & fs & ->). exact I. Qed.
Lemma pseudo_group_R4 cmp consts p x g :
  pass_group (pseudo_rule consts) p x g -> R4 cmp (Q4 cmp AStr) x g.
Proof.
  intro H. split. eapply pseudo_group_keep; eauto.
  destruct x as [l it]. unfold pass_group in H. cbn [fst snd] in *. destruct (is_label it) as [n|] eqn:El.
  - split; [|split].
    + rewrite (is_label_inv _ _ El). intros [].
    + intros i _ HPL. rewrite (is_label_inv _ _ El) in HPL. destruct (P23_label cmp i n HPL).
    + intros L HPL. rewrite (is_label_inv _ _ El) in HPL. destruct (P23_label cmp (IC L) n HPL).
  - destruct H as (ls0 & rs & Hr & ->). split; [|split].
    + intro Hc. pose proof (pseudo_rule_keep _ _ _ _ _ _ Hr) as Hk. apply instrs_map.
      destruct it; try contradiction.
      * subst rs. repeat constructor.
      * eapply Forall_impl; [|exact Hk]. intros a Ha. apply plain_instr; exact Ha.
    + intros i Hs HPL. destruct i as [L m|L m|L|L r]; try contradiction; cbn [P23 Q4] in *.
      * destruct (xfer_pseudo _ _ _ _ _ _ _ _ _ HPL Hr) as (it' & -> & H'). simpl. eauto.
      * rewrite (xferC_pseudo _ _ _ _ _ _ _ _ HPL Hr). simpl. eauto.
    + intros L HPL. destruct (xcall_pseudo consts l p ls0 L cmp it rs HPL Hr) as [(it' & -> & H')|(d & s & i1 & i2 & -> & H1 & H2)].
      * left. simpl. eauto.
      * right. exists d, s, i1, i2. simpl. auto.
Qed.
Lemma grouped_code_instrs (R : litem -> list litem -> Prop) g h l :
  (forall x k, R x k -> codelike (snd x) -> instrs k) ->
  Forall (fun y : litem => fst y = l /\ codelike (snd y)) g -> grouped R g h -> instrs h.
Proof.
  intros HR Hg G. induction G as [|x r bs bs' Hx G IH]. constructor.
  inversion Hg as [|? ? [_ Hc] Hg']; subst. unfold instrs. apply Forall_app. split.
  - exact (HR _ _ Hx Hc).
  - apply IH. exact Hg'.
Qed.
Lemma Rkeep_code x g : codelike (snd x) -> Rkeep x g -> Forall (fun y : litem => fst y = fst x /\ codelike (snd y)) g.
Proof. unfold Rkeep. destruct (snd x); try contradiction; auto. Qed.
Lemma R4_pre cmp (Q : fam) x g h : Rk (P23 cmp) (P23 cmp) x g -> grouped (R4 cmp Q) g h -> R4 cmp Q x h.
Proof.
  intros (K & _ & T) G. split; [|split; [|split]].
  - eapply Rkeep_comp; [exact K|]. eapply grouped_impl; [|exact G]. intros y k [A _]; exact A.
  - intro Hc. eapply grouped_code_instrs; [|exact (Rkeep_code _ _ Hc K)|exact G]. intros y k (_ & A & _). exact A.
  - intros i Hs HP. destruct (T _ HP) as (it' & -> & HQ). apply grouped_single in G. destruct G as (_ & _ & T1 & _).
    exact (T1 i Hs HQ).
  - intros L HP. destruct (T _ HP) as (it' & -> & HQ). apply grouped_single in G. destruct G as (_ & _ & _ & T2).
    exact (T2 L HQ).
Qed.
Lemma R4_post cmp (Q Q' : fam) x g h : R4 cmp Q x g -> grouped (Rk Q Q') g h -> R4 cmp Q' x h.
Proof.
  intros (K & I1 & T1 & T2) G. split; [|split; [|split]].
  - eapply Rkeep_comp; [exact K|]. eapply grouped_impl; [|exact G]. intros y k [A _]; exact A.
  - intro Hc. eapply grouped_instrs; [|exact (I1 Hc)|exact G]. intros y k (_ & A & _). exact A.
  - intros i Hs HP. destruct (T1 i Hs HP) as (it' & -> & HQ). apply grouped_single in G. destruct G as (_ & _ & T').
    destruct (T' _ HQ) as (it'' & -> & HQ'). eauto.
  - intros L HP. destruct (T2 L HP) as [(it' & -> & HQ)|(d & s & i1 & i2 & -> & H1 & H2)].
    + apply grouped_single in G. destruct G as (_ & _ & T'). destruct (T' _ HQ) as (it'' & -> & HQ'). left. eauto.
    + apply grouped_pair in G. destruct G as (h1 & h2 & -> & (_ & _ & A1) & (_ & _ & A2)). cbn [fst snd] in *.
      destruct (A1 _ H1) as (j1 & -> & B1). destruct (A2 _ H2) as (j2 & -> & B2). right. exists d, s, j1, j2. auto.
Qed.
Lemma grouped_R4_pre cmp (Q : fam) a b c : grouped (Rk (P23 cmp) (P23 cmp)) a b -> grouped (R4 cmp Q) b c -> grouped (R4 cmp Q) a c.
Proof. apply grouped_trans. apply R4_pre. Qed.
Lemma grouped_R4_post cmp (Q Q' : fam) a b c : grouped (R4 cmp Q) a b -> grouped (Rk Q Q') b c -> grouped (R4 cmp Q') a c.
Proof. apply grouped_trans. apply R4_post. Qed.

Lemma gpass_stage_k rule (Hok : rule_ok rule) (R : litem -> list litem -> Prop)
      (Hk : forall p x g, pass_group rule p x g -> R x g) its labels its' labels' :
  gpass rule its 0 labels [] = Done (its', labels') ->
  nonneg its -> NoDup (gnames its) -> exact its labels ->
  exact its' labels' /\ gnames its' = gnames its /\ nonneg its' /\ grouped R its its'.
Proof.
  intros H Hn Hd He.
  destruct (gpass_exact rule Hok its labels its' labels' Hn Hd He H) as (A & B & C & D).
  repeat split; auto.
  rewrite gpass_gp in H. destruct (gp rule its 0 labels) as [[o ls]| |] eqn:E; simpl in H; try discriminate.
  inversion H; subst. eapply pgrouped_grouped; [exact Hk | eapply gp_grouped; eauto].
Qed.
Lemma compress_stage_k (P : fam) (cmp : bool) its consts labels its' labels' :
  (cmp = true -> forall l q ls i it rs, P i it -> compress_rule consts l it q ls = Done rs -> exists it', rs = [it'] /\ P i it') ->
  (forall i n, ~ P i (ILabel n)) ->
  (if cmp then transform_compressible its consts labels else Done (its, labels)) = Done (its', labels') ->
  nonneg its -> NoDup (gnames its) -> exact its labels ->
  exact its' labels' /\ gnames its' = gnames its /\ nonneg its' /\ grouped (Rk P P) its its'.
Proof.
  intros HP Hl. destruct cmp.
  - unfold transform_compressible. apply gpass_stage_k. apply compress_rule_ok.
    intros p x g. apply compress_group_Rk; auto. exact (HP eq_refl).
  - intros H; inversion H; subst. intros. repeat split; auto. apply grouped_Rk_refl.
Qed.

(* ---- the whole pipeline --------------------------------------------------------------------------------------------------- *)
Definition tracked (cmp : bool) (its : list litem) (r : result) : Prop :=
  exists pa al fin,
    nonneg pa /\
    grouped (R4 cmp (Q4 cmp (alias_arg (r_consts r)))) (filter not_const its) pa /\
                     (* constants dropped; code stays code; a transfer stays ONE transfer; call / tail: one or the far pair *)
    pgrouped Ralign 0 pa al /\
    Forall2 same1 al fin /\ Forall2 keepz al fin /\
    blobbed fin (r_chunks r) /\
    exact fin (r_labels r) /\ NoDup (gnames fin) /\
    pF2 (Rval (r_consts r) (r_labels r)) 0 al fin.

Theorem pipeline_tracked its c0 l0 cmp r :
  assemble_items its c0 l0 cmp = Done r -> nonneg its -> tracked cmp its r.
Proof.
  unfold assemble_items. intros H Hn.
  destruct (resolve_constants_lr its c0 []) as [[its1 consts]| |] eqn:E1; cbn [obind] in H; try discriminate.
  pose proof (resolve_constants_filter _ _ _ _ _ E1) as F1. simpl in F1. subst its1.
  set (i1 := filter not_const its) in *.
  assert (N1 : nonneg i1) by (apply filter_nonneg; auto).
  destruct (resolve_labels i1 0 l0) as [labels| |] eqn:E2; cbn [obind] in H; try discriminate.
  pose proof (resolve_labels_nodup _ _ _ E2) as D1.
  pose proof (resolve_labels_exact _ _ _ E2) as X1.
  set (i2 := resolve_register_aliases i1 consts) in *.
  pose proof (aliases_same i1 consts) as S2. fold i2 in S2.
  pose proof (aliases_Rk (P23 cmp) (P23 cmp) consts i1 (P23_alias consts cmp)) as K2. fold i2 in K2.
  assert (N2 : nonneg i2) by (eapply same_nonneg; eauto).
  assert (D2 : NoDup (gnames i2)) by (rewrite <- (same_gnames _ _ S2); auto).
  assert (X2 : exact i2 labels) by (eapply same_exact; eauto).
  destruct (if cmp then transform_compressible i2 consts labels else Done (i2, labels)) as [[i3 lab3]| |] eqn:E3;
    cbn [obind] in H; try discriminate.
  assert (C3 : cmp = true -> forall l q ls i it rs, P23 cmp i it -> compress_rule consts l it q ls = Done rs ->
                 exists it', rs = [it'] /\ P23 cmp i it').
  { intros -> l q ls i it rs. apply P23_compress. }
  destruct (compress_stage_k (P23 cmp) _ _ _ _ _ _ C3 (P23_label cmp) E3 N2 D2 X2) as (X3 & G3 & N3 & K3).
  assert (D3 : NoDup (gnames i3)) by (rewrite G3; auto).
  destruct (transform_pseudo i3 consts lab3) as [[i4 lab4]| |] eqn:E4; cbn [obind] in H; try discriminate.
  destruct (gpass_stage_k _ (pseudo_rule_ok consts) _ (pseudo_group_R4 cmp consts) _ _ _ _ E4 N3 D3 X3) as (X4 & G4 & N4 & K4).
  assert (D4 : NoDup (gnames i4)) by (rewrite G4; auto).
  set (i5 := resolve_register_aliases i4 consts) in *.
  pose proof (aliases_same i4 consts) as S5. fold i5 in S5.
  pose proof (aliases_Rk (Q4 cmp AStr) (Q4 cmp (alias_arg consts)) consts i4 (Q4_alias consts cmp)) as K5. fold i5 in K5.
  assert (N5 : nonneg i5) by (eapply same_nonneg; eauto).
  assert (D5 : NoDup (gnames i5)) by (rewrite <- (same_gnames _ _ S5); auto).
  assert (X5 : exact i5 lab4) by (eapply same_exact; eauto).
  destruct (if cmp then transform_compressible i5 consts lab4 else Done (i5, lab4)) as [[i6 lab6]| |] eqn:E6;
    cbn [obind] in H; try discriminate.
  assert (C6 : cmp = true -> forall l q ls i it rs, Q4 cmp (alias_arg consts) i it -> compress_rule consts l it q ls = Done rs ->
                 exists it', rs = [it'] /\ Q4 cmp (alias_arg consts) i it').
  { intros -> l q ls i it rs. apply Q4_compress. }
  destruct (compress_stage_k (Q4 cmp (alias_arg consts)) _ _ _ _ _ _ C6 (Q4_label cmp (alias_arg consts)) E6 N5 D5 X5)
    as (X6 & G6 & N6 & K6).
  assert (D6 : NoDup (gnames i6)) by (rewrite G6; auto).
  destruct (resolve_aligns i6 lab6) as [[i7 lab7]| |] eqn:E7; cbn [obind] in H; try discriminate.
  unfold resolve_aligns in E7.
  destruct (gpass_exact _ align_rule_ok _ _ _ _ N6 D6 X6 E7) as (X7 & G7 & _ & N7).
  assert (A7 : pgrouped Ralign 0 i6 i7).
  { rewrite gpass_gp in E7. destruct (gp align_rule i6 0 lab6) as [[o ls]| |] eqn:E; simpl in E7; try discriminate.
    inversion E7; subst. pose proof (gp_grouped _ _ _ _ _ _ E) as PG. clear - PG.
    induction PG; constructor; auto. apply align_group; auto. }
  destruct (resolve_immediates i7 0 consts lab7 []) as [i8| |] eqn:E8; cbn [obind] in H; try discriminate.
  destruct (resolve_immediates_same _ _ _ _ _ _ E8) as (o8 & Q8 & S8). simpl in Q8. subst o8.
  destruct (resolve_immediates_keepz _ _ _ _ _ _ E8) as (o8 & Q8 & Z8). simpl in Q8. subst o8.
  destruct (resolve_immediates_spec _ _ _ _ _ _ E8) as (o8 & Q8 & V8). simpl in Q8. subst o8.
  destruct (resolve_instructions i8 []) as [i9| |] eqn:E9; cbn [obind] in H; try discriminate.
  destruct (resolve_instructions_same _ _ _ E9) as (o9 & Q9 & S9). simpl in Q9. subst o9.
  destruct (resolve_instructions_keepz _ _ _ E9) as (o9 & Q9 & Z9). simpl in Q9. subst o9.
  destruct (resolve_instructions_spec _ _ _ E9) as (o9 & Q9 & V9). simpl in Q9. subst o9.
  pose proof (resolve_strings_same i9) as S10. pose proof (resolve_strings_keepz i9) as Z10. set (i10 := resolve_strings i9) in *.
  destruct (resolve_sequences i10 []) as [i11| |] eqn:E11; cbn [obind] in H; try discriminate.
  destruct (resolve_sequences_same _ _ _ E11) as (o11 & Q11 & S11). simpl in Q11. subst o11.
  destruct (resolve_sequences_keepz _ _ _ E11) as (o11 & Q11 & Z11). simpl in Q11. subst o11.
  destruct (transform_shorthand i11 []) as [i12| |] eqn:E12; cbn [obind] in H; try discriminate.
  destruct (transform_shorthand_same _ _ _ E12) as (o12 & Q12 & S12). simpl in Q12. subst o12.
  destruct (transform_shorthand_keepz _ _ _ E12) as (o12 & Q12 & Z12). simpl in Q12. subst o12.
  destruct (resolve_packs i12 []) as [i13| |] eqn:E13; cbn [obind] in H; try discriminate.
  destruct (resolve_packs_same _ _ _ E13) as (o13 & Q13 & S13). simpl in Q13. subst o13.
  destruct (resolve_packs_keepz _ _ _ E13) as (o13 & Q13 & Z13). simpl in Q13. subst o13.
  destruct (resolve_include_bytes i13 []) as [i14| |] eqn:E14; cbn [obind] in H; try discriminate.
  destruct (resolve_include_bytes_same _ _ _ E14) as (o14 & Q14 & S14). simpl in Q14. subst o14.
  destruct (resolve_include_bytes_keepz _ _ _ E14) as (o14 & Q14 & Z14). simpl in Q14. subst o14.
  destruct (resolve_blobs i14) as [chunks| |] eqn:E15; cbn [obind] in H; try discriminate.
  inversion H; subst r; clear H. simpl.
  assert (SS : Forall2 same1 i7 i14).
  { repeat (eapply Forall2_same1_trans; [eassumption|]). apply Forall2_same1_refl. }
  assert (ZZ : Forall2 keepz i7 i14).
  { repeat (eapply Forall2_keepz_trans; [eassumption|]). apply Forall2_keepz_refl. }
  exists i6, i7, i14. split; [exact N6|]. split; [|split; [exact A7|split; [exact SS|split; [exact ZZ|split; [|split; [|split]]]]]].
  - eapply grouped_R4_post; [|exact K6]. eapply grouped_R4_post; [|exact K5].
    eapply grouped_R4_pre; [|exact K4]. eapply grouped_Rk_trans. exact K2. exact K3.
  - apply resolve_blobs_blobbed; auto.
  - eapply same_exact; eauto.
  - rewrite <- (same_gnames _ _ SS), G7. exact D6.
  - eapply compose_vals; [exact V8 | exact V9 |].
    repeat (eapply Forall2_same1_trans; [eassumption|]). apply Forall2_same1_refl.
Qed.
