(* The reader (Model/Reader.v read_lines) never fails with a raw exception when its argument is a source text or a FILE: every
   include / include_bytes it follows was found by the search (which accepts files only, repo commit 30b3d5d), a missing or
   malformed include is the assembler's own error at the include line of the including file.  (False before D25.) *)
From Coq Require Import ZArith List Bool String.
From BB Require Import Base.PyBase Model.Reader Proofs.ReaderSplice.
Import ListNotations.

Definition noraw {A} (r : rres A) : Prop := match r with RErr ERaw => False | _ => True end.
Lemma noraw_bind {A B} (r : rres A) (k : A -> rres B) : noraw r -> (forall a, noraw (k a)) -> noraw (rbind r k).
Proof. destruct r as [a|[f n m| |]]; simpl; auto. Qed.

Lemma lookup_isfile fs cwd rel dirs p : lookup fs cwd rel dirs = Some p -> fs_isfile fs cwd p = true.
Proof. intro H. destruct (lookup_found _ _ _ _ _ H) as (l1 & d & l2 & _ & _ & E & _). exact E. Qed.

Lemma read_numbered_noraw rec fs cwd file dirs :
  (forall p, fs_isfile fs cwd p = true -> noraw (rec p)) ->
  forall nls, noraw (read_numbered rec fs cwd file dirs nls).
Proof.
  intros Hrec. induction nls as [|[i raw] rest IH]; cbn [read_numbered]. exact I.
  destruct (is_blank raw); [exact IH|].
  destruct (is_include raw).
  - destruct (include_target raw) as [rel|]; [|exact I].
    destruct (lookup fs cwd rel dirs) as [p|] eqn:El; [|exact I].
    apply noraw_bind. apply Hrec. eapply lookup_isfile; eauto.
    intro inc. apply noraw_bind. exact IH. intros; exact I.
  - destruct (is_include_bytes raw).
    + destruct (bytes_target raw) as [rel|]; [|exact I].
      destruct (lookup fs cwd rel dirs) as [p|] eqn:El; [|exact I].
      pose proof (lookup_isfile _ _ _ _ _ El) as Hf. unfold fs_isfile in Hf.
      destruct (fs_read fs cwd p) as [data|]; [|discriminate].
      apply noraw_bind. exact IH. intros; exact I.
    + apply noraw_bind. exact IH. intros; exact I.
Qed.
Lemma read_file_noraw fuel : forall fs cwd incs p, fs_isfile fs cwd p = true -> noraw (read_file fuel fs cwd incs p).
Proof.
  induction fuel as [|f IH]; intros fs cwd incs p Hf; cbn [read_file]. exact I.
  unfold fs_isfile in Hf. destruct (fs_read fs cwd p) as [src|]; [|discriminate].
  apply read_numbered_noraw. intros q Hq. apply IH. exact Hq.
Qed.
Theorem read_lines_noraw fuel fs cwd incs top :
  (fs_exists fs cwd top = true -> fs_isfile fs cwd top = true) -> noraw (read_lines fuel fs cwd incs top).
Proof.
  intro H. unfold read_lines. destruct (fs_exists fs cwd top).
  - apply read_file_noraw. auto.
  - apply read_numbered_noraw. intros q Hq. apply read_file_noraw. exact Hq.
Qed.

(* a missing include is reported at ITS line of ITS file *)
Theorem missing_include_located rec fs cwd file dirs pre i raw rel rest :
  Forall (fun nl => is_blank (snd nl) = true) pre ->
  is_blank raw = false -> is_include raw = true -> include_target raw = Some rel -> lookup fs cwd rel dirs = None ->
  read_numbered rec fs cwd file dirs (app pre ((i, raw) :: rest)) = RErr (EAsm file i MIncludeMissing).
Proof.
  intros Hpre Hb Hi Ht Hl. induction Hpre as [|[j r0] pre Hj _ IH]; cbn [app read_numbered].
  - rewrite Hb, Hi, Ht, Hl. reflexivity.
  - cbn [snd] in Hj. rewrite Hj. exact IH.
Qed.
