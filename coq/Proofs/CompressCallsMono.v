(* C04, call / tail, the direction of the mixed case: with no labels handed in and a program below 2 GiB a call / tail item is never
   LONGER with compression than without (its distance only moves towards zero: lockstep of the pseudo-instruction pass of both runs,
   Proofs/Monotone.v pair_step) -- near without / far with compression does not occur. *)
From Coq Require Import ZArith List Bool Lia String.
From BB Require Import Base.PyBase Gen.Encoders Gen.Criteria Spec.RV32 Spec.RVC Model.Items Model.Encode Model.Passes
  Proofs.Layout Proofs.LayoutInst Proofs.Pipeline Proofs.Stable Proofs.Errors Proofs.Monotone Proofs.Rules Proofs.RulesMain
  Proofs.EncSig Proofs.NoRaw Proofs.CompressItem Proofs.CompressTail Proofs.CompressLit Proofs.CompressProgram Proofs.CompressTransfer
  Proofs.CompressExt Proofs.CompressCalls.
Import ListNotations.
Open Scope string_scope.
Open Scope Z_scope.

(* two lists of items and the two lists of their groups, item by item *)
Inductive lgrouped (R : litem -> litem -> list litem -> list litem -> Prop) : list litem -> list litem -> list litem -> list litem -> Prop :=
| lg_nil : lgrouped R [] [] [] []
| lg_cons x y a b gA gB oA oB : R x y gA gB -> lgrouped R a b oA oB -> lgrouped R (x :: a) (y :: b) (app gA oA) (app gB oB).

Lemma lgrouped_impl (R S : litem -> litem -> list litem -> list litem -> Prop) : (forall x y g h, R x y g h -> S x y g h) ->
  forall a b oA oB, lgrouped R a b oA oB -> lgrouped S a b oA oB.
Proof. intros H a b oA oB G. induction G; constructor; auto. Qed.

Lemma F2_and {A B} (R S : A -> B -> Prop) l m : Forall2 R l m -> Forall2 S l m -> Forall2 (fun a b => R a b /\ S a b) l m.
Proof. intro F. induction F; intro G; inversion G; subst; constructor; auto. Qed.

Section Lock.
Variables (N : list string) (consts : envt).
Let K := keys_in N.
Let pr := pseudo_rule consts.

Lemma K_shifted pos old new ls : K ls -> K (shifted pos old new ls).
Proof. intro H. unfold shifted. destruct (old - new >? 0); auto. apply keys_in_shrink; auto. Qed.

(* one item of the pseudo pass in both runs *)
Definition LS (x y : litem) (gA gB : list litem) : Prop :=
  rgroup pr K x gA /\ rgroup pr K y gB /\ (forall name L, call_of (snd x) = Some (name, L) -> total gB <= total gA).

Lemma lockstep_items : forall remA remB, Forall2 relAB remA remB ->
  forall posA posB lsA lsB oA oB lsA' lsB',
  nonneg remA -> nonneg remB -> NoDup (gnames remA) ->
  ahead remA posA lsA -> ahead remB posB lsB -> behind remA posA posB lsA lsB -> samedom lsA lsB ->
  0 <= posA -> 0 <= posB -> posA + total remA < 2 ^ 31 -> posB + total remB < 2 ^ 31 ->
  K lsA -> K lsB ->
  gp pr remA posA lsA = Done (oA, lsA') ->
  gp pr remB posB lsB = Done (oB, lsB') ->
  lgrouped LS remA remB oA oB.
Proof.
  induction 1 as [|[l itA] [l2 itB] remA remB Hxy F2 IH];
    intros posA posB lsA lsB oA oB lsA' lsB' NA NB ND AA AB BH SD PA0 PB0 BA BB KA KB HA HB.
  - simpl in HA, HB. inversion HA; inversion HB; subst. constructor.
  - destruct (relAB_label _ _ Hxy) as (Elab & Esz & Eln). cbn [fst snd] in Elab, Esz, Eln. subst l2.
    inversion NA as [|? ? WA NA']; subst. inversion NB as [|? ? WB NB']; subst.
    cbn [gp] in HA, HB. rewrite <- Elab in HB.
    destruct (is_label itA) as [n|] eqn:El.
    + (* a label marker *)
      pose proof (is_label_inv _ _ El) as ->. symmetry in Elab. pose proof (is_label_inv _ _ Elab) as ->.
      destruct (gp _ remA posA lsA) as [[oA1 lA1]| |] eqn:EA; cbn [obind] in HA; try discriminate.
      destruct (gp _ remB posB lsB) as [[oB1 lB1]| |] eqn:EB; cbn [obind] in HB; try discriminate.
      inversion HA; inversion HB; subst. cbn [fst].
      change ((l, ILabel n) :: oA1) with (app [(l, ILabel n)] oA1). change ((l, ILabel n) :: oB1) with (app [(l, ILabel n)] oB1).
      constructor.
      * split; [|split].
        -- exists posA, lsA, [ILabel n]. cbn [fst snd map]. auto.
        -- exists posB, lsB, [ILabel n]. cbn [fst snd map]. auto.
        -- intros name L Hc. discriminate Hc.
      * eapply (IH posA posB lsA lsB oA1 oB1 _ _); try eassumption.
        -- simpl in ND. inversion ND; auto.
        -- eapply ahead_label; eauto.
        -- eapply ahead_label; eauto. rewrite <- (relAB_gnames _ _ (Forall2_cons _ _ Hxy F2)). exact ND.
        -- intros L Hn a b Ea Eb. destruct (String.eqb L n) eqn:E.
           ++ apply String.eqb_eq in E. subst L.
              assert (Ga : assoc_str n lsA = Some (posA + 0)) by (apply AA; simpl; rewrite String.eqb_refl; reflexivity).
              assert (Gb : assoc_str n lsB = Some (posB + 0)) by (apply AB; simpl; rewrite String.eqb_refl; reflexivity).
              rewrite Ea in Ga. rewrite Eb in Gb. inversion Ga; inversion Gb; subst. lia.
           ++ apply (BH L); auto. simpl. intros [H|H]; auto. subst. rewrite String.eqb_refl in E. discriminate.
    + (* an item *)
      destruct (size_o itA) as [oldA| |] eqn:EoA; cbn [obind] in HA; try discriminate.
      destruct (pr l itA posA lsA) as [rsA| |] eqn:ErA; cbn [obind] in HA; try discriminate.
      destruct (sizes rsA) as [newA| |] eqn:EnA; cbn [obind] in HA; try discriminate.
      destruct (size_o itB) as [oldB| |] eqn:EoB; cbn [obind] in HB; try discriminate.
      destruct (pr l itB posB lsB) as [rsB| |] eqn:ErB; cbn [obind] in HB; try discriminate.
      destruct (sizes rsB) as [newB| |] eqn:EnB; cbn [obind] in HB; try discriminate.
      cbv zeta in HA, HB. fold (shifted posA oldA newA lsA) in HA. fold (shifted posB oldB newB lsB) in HB.
      destruct (gp _ remA (posA + newA) _) as [[oA1 lA1]| |] eqn:EA; cbn [obind] in HA; try discriminate.
      destruct (gp _ remB (posB + newB) _) as [[oB1 lB1]| |] eqn:EB; cbn [obind] in HB; try discriminate.
      inversion HA; inversion HB; subst oA oB lsA' lsB'. cbn [fst].
      assert (ElB : is_label itB = None) by (rewrite <- Elab; reflexivity).
      destruct (pseudo_rule_ok consts l itA posA lsA rsA oldA newA WA El EoA ErA EnA) as [[HnA0 HnA1] _].
      destruct (pseudo_rule_ok consts l itB posB lsB rsB oldB newB WB ElB EoB ErB EnB) as [[HnB0 HnB1] _].
      pose proof (size_o_isz _ _ EoA) as IA. pose proof (size_o_isz _ _ EoB) as IB.
      pose proof (sizes_total l _ _ EnA) as TA. pose proof (sizes_total l _ _ EnB) as TB.
      pose proof (pair_step consts l itA l itB remA remB posA posB lsA lsB rsA rsB Hxy El NA NB F2 AA AB BH SD PA0 PB0 BA BB ErA ErB) as PS.
      cbv zeta in PS.
      assert (Hle : 0 <= newB <= newA).
      { destruct PS as [(n & -> & Hn1 & GA & GB)|(P1 & P2 & Ht)].
        - rewrite GA in TA. rewrite GB in TB. unfold total in TA, TB. cbn [fold_right snd] in TA, TB. lia.
        - rewrite TA, TB in Ht. exact Ht. }
      constructor.
      * split; [|split].
        -- exists posA, lsA, rsA. cbn [fst snd]. auto.
        -- exists posB, lsB, rsB. cbn [fst snd]. auto.
        -- intros name L Hc. cbn [snd] in Hc. destruct PS as [(n & -> & _)|(_ & _ & Ht)]; [discriminate Hc|]. lia.
      * eapply (IH (posA + newA) (posB + newB) (shifted posA oldA newA lsA) (shifted posB oldB newB lsB) oA1 oB1 _ _); try eassumption.
        -- simpl in ND. rewrite El in ND. exact ND.
        -- eapply ahead_step; eauto; lia.
        -- eapply ahead_step; eauto; lia.
        -- eapply behind_step; eauto; lia.
        -- apply samedom_shifted; auto; lia.
        -- lia.
        -- lia.
        -- change (total ((l, itA) :: remA)) with (isz itA + total remA) in BA. lia.
        -- change (total ((l, itB) :: remB)) with (isz itB + total remB) in BB. lia.
        -- apply K_shifted; auto.
        -- apply K_shifted; auto.
Qed.
End Lock.

(* ---- lgrouped, composed ---------------------------------------------------------------------------------------------------------------- *)
Lemma lg_transB (R : litem -> litem -> list litem -> list litem -> Prop) (S : litem -> list litem -> Prop) (f : litem -> litem) a b oA oB :
  lgrouped R a b oA oB -> forall c, grouped S (map f oB) c ->
  lgrouped (fun x y gA h => exists gB, R x y gA gB /\ grouped S (map f gB) h) a b oA c.
Proof.
  induction 1 as [|x y a b gA gB oA oB Hx G IH]; intros c G2.
  - inversion G2; subst. constructor.
  - rewrite map_app in G2. destruct (grouped_split _ _ _ _ G2) as (c1 & c2 & -> & G21 & G22). constructor; eauto.
Qed.
Lemma lg_F2 (R : litem -> litem -> list litem -> list litem -> Prop) (S : litem -> litem -> Prop) a b oA oB :
  lgrouped R a b oA oB -> Forall2 S a b -> lgrouped (fun x y g h => S x y /\ R x y g h) a b oA oB.
Proof. induction 1; intro F; inversion F; subst; constructor; auto. Qed.
Lemma lg_j (R : litem -> litem -> list litem -> list litem -> Prop) (f : litem -> litem) a b oA oB :
  lgrouped R a b oA oB -> jgrouped (fun x g h => exists y g0, R x y g0 h /\ g = map f g0) a (map f oA) oB.
Proof. induction 1; cbn [map]. constructor. rewrite map_app. constructor; eauto. Qed.

Lemma isz_alias consts it : isz (alias1 consts it) = isz it.
Proof. destruct it; reflexivity. Qed.
Lemma total_map_alias consts g : total (map (fun x => (fst x, alias1 consts (snd x))) g) = total g.
Proof. unfold total. induction g as [|x g IH]; cbn [map fold_right snd]. reflexivity. rewrite IH, isz_alias. reflexivity. Qed.
Lemma cr_shrinks consts l it p ls y : compress_rule consts l it p ls = Done [y] -> isz y <= isz it.
Proof.
  intro H. destruct (compress_rule_out _ _ _ _ _ _ H) as [E|(c & n & fs & E)]; inversion E; subst. lia.
  destruct it; try (cbv beta iota delta [compress_rule] in H; inversion H; subst; lia).
  unfold isz. cbn [size]. destruct compressed; lia.
Qed.

Section JoinM.
Variables (N : list string) (consts : envt).
Hypothesis RP : regs_plain consts = true.
Let K := keys_in N.
Let af (x : litem) : litem := (fst x, alias1 consts (snd x)).

(* one source item in both runs, from the list after alias resolution to the lists in front of the alignment pass *)
Definition JM (x : litem) (gU gC : list litem) : Prop :=
  exists y gA gB,
    (fst y = fst x /\ exists p ls0, K ls0 /\ compress_rule consts (fst x) (snd x) p ls0 = Done [snd y]) /\
    LS N consts x y gA gB /\ gU = map af gA /\ grouped (rgroup (compress_rule consts) K) (map af gB) gC.
Definition J6m (x : litem) (gU gC : list litem) : Prop :=
  J6c N consts x gU gC /\ (forall name L, call_of (snd x) = Some (name, L) -> total gC <= total gU).

Lemma join_item_m x gU gC : P2c N consts x -> JM x gU gC -> J6m x gU gC.
Proof.
  intros HP (y & gA & gB & (Ey & p1 & ls1 & K1 & E1) & (RA & RB & Hsz) & -> & Gh).
  destruct RA as (pA & lsA & rsA & KA & EA & ->). destruct RB as (pB & lsB & rsB & KB & EB & ->).
  assert (Tc : total gC <= total (map af (map (fun y0 => (fst y, y0)) rsB))).
  { clear - Gh. revert gC Gh. generalize (map af (map (fun y0 => (fst y, y0)) rsB)). intros g gC G.
    induction G as [|x l bs bs' (p & ls0 & rs & _ & Hr & ->) _ IH]. { unfold total; simpl; lia. }
    destruct (cr_single consts _ _ _ _ _ Hr) as [y' ->]. pose proof (cr_shrinks _ _ _ _ _ _ Hr) as S.
    cbn [map app]. unfold total in *. cbn [fold_right snd]. lia. }
  split.
  - apply join_item_c; auto.
    + exists pA, lsA, rsA. repeat split; auto. rewrite map_map. reflexivity.
    + rewrite map_map in Gh. unfold af in Gh. cbn [fst snd] in Gh. apply (cr_groups_F2 N consts) in Gh. rewrite Ey in *.
      assert (Hh : exists g2, gC = map (fun y0 => (fst x, y0)) g2 /\
                   Forall2 (fun y0 y' => exists p3 ls3, K ls3 /\ compress_rule consts (fst x) (alias1 consts y0) p3 ls3 = Done [y']) rsB g2).
      { clear - Gh. revert gC Gh. induction rsB as [|y0 rs IH]; intros h Gh; cbn [map] in Gh; inversion Gh; subst.
        - exists []. split; [reflexivity|constructor].
        - destruct (IH _ H3) as (g2 & -> & F). destruct y as [ly y']. destruct H1 as [E (p3 & ls3 & A3 & B3)]. cbn [fst snd] in *. subst ly.
          exists (y' :: g2). split; [reflexivity|]. constructor; eauto. }
      destruct Hh as (g2 & -> & F). exists p1, ls1, (snd y), pB, lsB, rsB, g2. auto 10.
  - intros name L Hc. specialize (Hsz name L Hc). unfold af in *. rewrite total_map_alias in *. lia.
Qed.
End JoinM.

(* ---- the statement: corr_c, and the chunks of a call / tail item are not longer with compression --------------------------------------- *)
Definition item_corr_m (labU labC : envt) (pU pC : Z) (x : litem) (cU cC : list (line * chunk)) : Prop :=
  item_corr_c labU labC pU pC x cU cC /\ (forall name L, call_of (snd x) = Some (name, L) -> clen cC <= clen cU).
Inductive corr_m (labU labC : envt) : Z -> Z -> list litem -> list (line * chunk) -> list (line * chunk) -> Prop :=
| corrm_nil pU pC : corr_m labU labC pU pC [] [] []
| corrm_cons pU pC x its cU cC rU rC :
    item_corr_m labU labC pU pC x cU cC -> corr_m labU labC (pU + clen cU) (pC + clen cC) its rU rC ->
    corr_m labU labC pU pC (x :: its) (app cU rU) (app cC rC).
Lemma corr_m_c labU labC pU pC its cU cC : corr_m labU labC pU pC its cU cC -> corr_c labU labC pU pC its cU cC.
Proof. induction 1 as [|pU pC x its cU cC rU rC [I _] _ IH]; constructor; auto. Qed.

Section WalkM.
Variables (N : list string) (consts labU labC : envt).
Hypothesis KU : keys_in N labU.
Hypothesis KC : keys_in N labC.
Lemma walk_m : forall a aU aC,
  jgrouped (J6m N consts) a aU aC -> Forall (fun x => okb 1 (snd x) = true) a -> forall pU pC csU csC,
  pemit consts labU pU aU csU -> pemit consts labC pC aC csC -> corr_m labU labC pU pC a csU csC.
Proof.
  induction 1 as [|x a gU gC rU rC [J Hsz] _ IH]; intros Fo pU pC csU csC HU HC.
  - apply pemit_nil in HU, HC. subst. constructor.
  - inversion Fo as [|? ? Hx Fo']; subst. destruct J as [[Hnc J]|(name & L & Hc & HL & GU & GC)].
    + destruct (group_walk_x N consts labU labC KU KC (fst x) gU gC rU rC pU pC csU csC (proj1 J) HU HC)
        as (cU & cC & csU' & csC' & -> & -> & G & PU & PC).
      constructor; [|apply IH; auto]. split.
      * unfold item_corr_c. rewrite Hnc. eapply item_of_group_x; eauto.
      * intros name0 L0 Hc. rewrite Hnc in Hc. discriminate Hc.
    + destruct (call_of_inv _ _ _ Hc) as (Hn & _).
      destruct (callU_walk consts labU false name L (fst x) gU rU pU csU Hn HL GU HU) as (cU & csU' & -> & LU & PU & SU).
      destruct (callC_walk consts labC name L (fst x) gC rC pC csC Hn HL GC HC) as (cC & csC' & -> & LC & PC & SC).
      constructor; [|apply IH; auto]. split.
      * unfold item_corr_c. rewrite Hc. auto.
      * intros name' L' Hc'. rewrite SU, SC. eapply Hsz; eauto.
Qed.
End WalkM.

Lemma corr_alias_m consts labU labC : forall a pU pC csU csC,
  corr_m labU labC pU pC (map (fun x => (fst x, alias1 consts (snd x))) a) csU csC -> corr_m labU labC pU pC a csU csC.
Proof.
  induction a as [|[l it] a IH]; intros pU pC csU csC H; cbn [map] in H; inversion H as [|? ? ? ? ? ? ? ? [I S] H']; subst. constructor.
  constructor; [|apply IH; assumption]. split.
  - unfold item_corr_c in *. cbn [fst snd] in *. rewrite call_of_alias in *.
    destruct (call_of it) as [[name L]|]; [assumption|].
    unfold item_corr_x, item_corr in *. cbn [fst snd] in *. destruct it; assumption.
  - cbn [snd] in *. rewrite call_of_alias in S. exact S.
Qed.
Lemma corr_filter_m labU labC : forall its pU pC csU csC,
  corr_m labU labC pU pC (filter not_const its) csU csC -> corr_m labU labC pU pC its csU csC.
Proof.
  induction its as [|[l it] its IH]; intros pU pC csU csC H. exact H.
  cbn [filter] in H. unfold not_const at 1 in H. cbn [snd] in H.
  assert (Keep : corr_m labU labC pU pC ((l, it) :: filter not_const its) csU csC -> corr_m labU labC pU pC ((l, it) :: its) csU csC).
  { intro H'. inversion H'; subst. constructor; auto. }
  destruct it; try (apply Keep; exact H).
  change csU with (app [] csU). change csC with (app [] csC). constructor.
  - split. unfold item_corr_c, item_corr_x, item_corr. cbn [snd call_of]. auto. intros n0 L0 Hc. discriminate Hc.
  - unfold clen. cbn [fold_right]. rewrite !Z.add_0_r. apply IH. exact H.
Qed.

(* ---- THE THEOREM -------------------------------------------------------------------------------------------------------------------- *)
Theorem program_calls_sized its c0 rU rC :
  nonneg its -> calls_programb (r_consts rU) its = true -> regs_plain (r_consts rU) = true -> total its < 2 ^ 31 ->
  assemble_items its c0 [] false = Done rU -> assemble_items its c0 [] true = Done rC ->
  corr_m (r_labels rU) (r_labels rC) 0 0 its (r_chunks rU) (r_chunks rC).
Proof.
  intros Hn Hext RP Hsz HU HC. apply calls_programb_spec in Hext.
  destruct (assemble_stages2 _ _ _ _ _ HU Hn) as (cA & lA & i3A & lab3A & i4A & lab4A & i6A & lab6A & alA & finA &
      A1 & A2 & A3 & A4 & A6 & A7 & N6A & PA & SA & TA & BA & XA & GA & Hd & HcA).
  destruct (assemble_stages2 _ _ _ _ _ HC Hn) as (cB & lB & i3B & lab3B & i4B & lab4B & i6B & lab6B & alB & finB &
      B1 & B2 & B3 & B4 & B6 & B7 & N6B & PB & SB & TB & BB & XB & GB & _ & _).
  rewrite A1 in B1. inversion B1; subst cB. rewrite A2 in B2. inversion B2; subst lB. clear B1 B2. rewrite HcA in Hext, RP.
  (* the facts of Proofs/Monotone.v about the same stages *)
  destruct (assemble_stages _ _ _ _ _ HU Hn) as (cA' & lA' & i3A' & lab3A' & i4A' & lab4A' & i6A' & lab6A' & alA' & finA' &
      A1' & A2' & A3' & _ & _ & N2A & _ & _ & D2A & X2A & _).
  rewrite A1 in A1'. inversion A1'; subst cA'. rewrite A2 in A2'. inversion A2'; subst lA'. clear A1' A2' A3'.
  destruct (assemble_stages _ _ _ _ _ HC Hn) as (cB' & lB' & i3B' & lab3B' & i4B' & lab4B' & i6B' & lab6B' & alB' & finB' &
      B1' & B2' & B3' & _ & _ & _ & N3B & _ & _ & _ & X3B & _).
  rewrite A1 in B1'. inversion B1'; subst cB'. rewrite A2 in B2'. inversion B2'; subst lB'. clear B1' B2'.
  rewrite B3 in B3'. inversion B3'; subst i3B' lab3B'. clear B3'.
  set (N := gnames its) in *. set (i1 := filter not_const its) in *. set (i2 := resolve_register_aliases i1 cA) in *.
  assert (K0 : keys_in N lA). { pose proof (labels_keys _ _ A2) as K. unfold i1 in K. rewrite filter_gnames in K. exact K. }
  inversion A3; subst i3A lab3A. clear A3.
  pose proof (pseudo_keys N _ _ _ _ _ K0 A4) as K4A.
  inversion A6; subst i6A lab6A. clear A6.
  pose proof (align_keys N _ _ _ _ K4A A7) as KU.
  pose proof (compress_keys N true _ _ _ _ _ K0 B3) as K3B.
  pose proof (pseudo_keys N _ _ _ _ _ K3B B4) as K4B.
  pose proof (compress_keys N true _ _ _ _ _ K4B B6) as K6B.
  pose proof (align_keys N _ _ _ _ K6B B7) as KC.
  (* the first compression pass, item for item *)
  destruct (gpass_rgroup (compress_rule cA) (keys_in N) _ _ _ _ (cr_label cA) (K_shrink N) K0 B3) as [G3 _].
  pose proof (cr_groups_F2 N cA _ _ G3) as F2c.
  pose proof (compress_groups true _ _ _ _ _ B3) as G3s. pose proof (st_forall2 _ _ G3s) as F2.
  assert (K3 : map fst lab3B = map fst lA).
  { unfold transform_compressible in B3.
    destruct (gpass_exact _ (compress_rule_ok cA) _ _ _ _ N2A D2A X2A B3) as (_ & _ & Kk & _). exact Kk. }
  (* the pseudo pass of both runs in lockstep *)
  assert (A4g := A4). assert (B4g := B4). unfold transform_pseudo in A4g, B4g. rewrite gpass_gp in A4g, B4g.
  destruct (gp (pseudo_rule cA) i2 0 lA) as [[oA lsA']| |] eqn:EA; cbn [obind] in A4g; try discriminate.
  destruct (gp (pseudo_rule cA) i3B 0 lab3B) as [[oB lsB']| |] eqn:EB; cbn [obind] in B4g; try discriminate.
  cbn [rev app fst snd] in A4g, B4g. inversion A4g; subst i4A lab4A. inversion B4g; subst i4B lab4B. clear A4g B4g.
  assert (T2 : total i2 = total its).
  { unfold i2. rewrite <- (same_total _ _ (aliases_same i1 cA)). apply filter_total. }
  assert (H1 : ahead i2 0 lA) by (intros L q Hg; rewrite (X2A L q Hg); f_equal).
  assert (H2 : ahead i3B 0 lab3B) by (intros L q Hg; rewrite (X3B L q Hg); f_equal).
  assert (H3 : behind i2 0 0 lA lab3B).
  { intros L Hnin a b Ea _. exfalso.
    assert (Hn1 : ~ In L (gnames i1)).
    { intro Hi. apply Hnin. unfold i2. rewrite <- (same_gnames _ _ (aliases_same i1 cA)). exact Hi. }
    unfold resolve_labels in A2. rewrite (rlf_other _ _ _ _ _ L A2 Hn1) in Ea. discriminate. }
  assert (H4 : samedom lA lab3B) by (intro L; symmetry; apply keys_none; exact K3).
  assert (H5 : 0 + total i3B < 2 ^ 31) by (pose proof (relAB_total _ _ F2); lia).
  assert (H6 : 0 + total i2 < 2 ^ 31) by lia.
  pose proof (lockstep_items N cA i2 i3B F2 0 0 lA lab3B oA oB lsA' lsB' N2A N3B D2A H1 H2 H3 H4 ltac:(lia) ltac:(lia) H6 H5 K0 K3B EA EB) as LG.
  (* the second compression pass of the compressed run *)
  destruct (gpass_rgroup (compress_rule cA) (keys_in N) _ _ _ _ (cr_label cA) (K_shrink N) K4B B6) as [G6 _].
  rewrite aliases_map in G6.
  pose proof (lg_F2 _ _ _ _ _ _ (lg_transB _ _ _ _ _ _ _ LG _ G6) F2c) as LG2.
  pose proof (lg_j _ (fun x => (fst x, alias1 cA (snd x))) _ _ _ _ LG2) as JG. rewrite <- aliases_map in JG.
  pose proof (P2c_i2 N cA its Hext) as HP. fold i1 i2 in HP.
  assert (J : jgrouped (J6m N cA) i2 (resolve_register_aliases oA cA) i6B).
  { eapply jgrouped_impl; [|exact HP|exact JG].
    intros x g h Px (y & g0 & (Sx & gB & Lx & Gx) & ->). apply join_item_m; auto.
    exists y, g0, gB. auto. }
  assert (EU : pemit cA (r_labels rU) 0 (resolve_register_aliases oA cA) (r_chunks rU)).
  { eapply emit_of_run; eauto. rewrite GA; exact Hd. }
  assert (EC : pemit cA (r_labels rC) 0 i6B (r_chunks rC)).
  { eapply emit_of_run; eauto. rewrite GB; exact Hd. }
  apply corr_filter_m. apply (corr_alias_m cA). rewrite <- aliases_map. fold i1 i2.
  eapply walk_m; eauto.
  eapply Forall_impl; [|exact HP]. intros x Px. exact (proj1 Px).
Qed.

(* the example of Proofs/CompressCalls.v is below 2 GiB *)
Lemma ex04c_corr_m : corr_m [("fn", 0); ("nr", 1048598)] [("fn", 0); ("nr", 1048588)] 0 0 ex04c ex04c_chunksU ex04c_chunksC.
Proof.
  destruct ex04c_runs as [HU HC]. destruct ex04c_class as [Hc Hr].
  assert (Hs : total ex04c < 2 ^ 31) by (vm_compute; reflexivity).
  exact (program_calls_sized ex04c [] {| r_chunks := ex04c_chunksU; r_consts := []; r_labels := [("fn", 0); ("nr", 1048598)] |} _
           ex04c_nonneg Hc Hr Hs HU HC).
Qed.
