From Coq Require Import ZArith List Bool String.
From BB Require Import Spec.RVC Proofs.Sweep16.
Import ListNotations.
Lemma sweep_c_sw : sweep_name "c.sw" = true. Proof. vm_cast_no_check (eq_refl true). Qed.
