(* C14 for the whole model of asm.assemble: a source with an include line, and the same source with the (plain) lines of the
   found file pasted in place of that line, assemble to the same bytes, labels and constants -- or fail alike.
   Reader (ReaderSplice) + front end and passes under a renaming of lines (ParseRelabel, Relabel). *)
From Coq Require Import ZArith List Bool String Ascii Lia.
From BB Require Import Base.PyBase Model.Items Model.Lexer Model.Parser Model.Passes Model.Reader
  Proofs.ReaderSplice Proofs.Program Proofs.Whole Proofs.ParseRelabel.
Import ListNotations.
Open Scope Z_scope.

(* the outcome of the reader apart from file names and line numbers *)
Definition rkind (r : rres (list Reader.line)) : rres (list string) :=
  match r with
  | ROk ls => ROk (map l_contents ls)
  | RErr (EAsm _ _ m) => RErr (EAsm "" 0 m)
  | RErr e => RErr e
  end.
Lemma rkind_contents a b : contents_of a = contents_of b -> rkind a = rkind b.
Proof. destruct a as [x|e], b as [y|e']; cbn [contents_of rkind]; intro H; inversion H; reflexivity. Qed.

(* the loop over the lines of a file looks at their contents only: other numbers, another file name -> the same kind of outcome *)
Lemma read_numbered_renumber rec fs cwd f1 f2 dirs : forall a b,
  map snd a = map snd b ->
  rkind (read_numbered rec fs cwd f1 dirs a) = rkind (read_numbered rec fs cwd f2 dirs b).
Proof.
  induction a as [|[i raw] a IH]; intros [|[j raw'] b] H; try discriminate; [reflexivity|].
  cbn [map snd] in H. injection H as -> H. specialize (IH b H).
  cbn [read_numbered]. destruct (is_blank raw'); [exact IH|].
  destruct (is_include raw').
  { destruct (include_target raw') as [rel|]; [|reflexivity].
    destruct (lookup fs cwd rel dirs) as [p|]; [|reflexivity].
    destruct (rec p) as [inc|[ff n m| |]]; try reflexivity. cbn [rbind].
    destruct (read_numbered rec fs cwd f1 dirs a) as [x|[ff n m| |]], (read_numbered rec fs cwd f2 dirs b) as [y|[ff' n' m'| |]];
      cbn [rkind rbind] in *; try discriminate; try exact IH; try reflexivity.
    injection IH as IH. rewrite !map_app, IH. reflexivity. }
  destruct (is_include_bytes raw').
  { destruct (bytes_target raw') as [rel|]; [|reflexivity].
    destruct (lookup fs cwd rel dirs) as [p|]; [|reflexivity].
    destruct (fs_read fs cwd p) as [data|]; [|reflexivity]. cbv zeta.
    destruct (read_numbered rec fs cwd f1 dirs a) as [x|[ff n m| |]], (read_numbered rec fs cwd f2 dirs b) as [y|[ff' n' m'| |]];
      cbn [rkind rbind] in *; try discriminate; try exact IH; try reflexivity.
    injection IH as IH. cbn [map l_contents]. rewrite IH. reflexivity. }
  destruct (read_numbered rec fs cwd f1 dirs a) as [x|[ff n m| |]], (read_numbered rec fs cwd f2 dirs b) as [y|[ff' n' m'| |]];
    cbn [rkind rbind] in *; try discriminate; try exact IH; try reflexivity.
  injection IH as IH. cbn [map l_contents]. rewrite IH. reflexivity.
Qed.

Lemma number_app l1 : forall i l2, number i (l1 ++ l2) = (number i l1 ++ number (i + Z.of_nat (List.length l1)) l2)%list.
Proof.
  induction l1 as [|x l1 IH]; intros i l2; cbn [app number List.length].
  - rewrite Z.add_0_r. reflexivity.
  - rewrite IH. do 3 f_equal. lia.
Qed.
Lemma map_snd_number l : forall i, map snd (number i l) = l.
Proof. induction l as [|x l IH]; intro i; cbn [number map snd]; [reflexivity|]. rewrite IH. reflexivity. Qed.

(* the shape of the whole run follows from the kind of the reading *)
Lemma wshape_of_rkind fuel1 fs1 cwd1 incs1 top1 fuel2 fs2 cwd2 incs2 top2 consts labels cmp :
  rkind (read_lines fuel1 fs1 cwd1 incs1 top1) = rkind (read_lines fuel2 fs2 cwd2 incs2 top2) ->
  wshape (assemble_model fuel1 fs1 cwd1 incs1 top1 consts labels cmp) =
  wshape (assemble_model fuel2 fs2 cwd2 incs2 top2 consts labels cmp).
Proof.
  intro H.
  destruct (read_lines fuel1 fs1 cwd1 incs1 top1) as [la|e1] eqn:Ea, (read_lines fuel2 fs2 cwd2 incs2 top2) as [lb|e2] eqn:Eb.
  - cbn [rkind] in H. injection H as H. eapply whole_same_contents; eassumption.
  - destruct e2; discriminate.
  - destruct e1; discriminate.
  - unfold assemble_model. rewrite Ea, Eb. destruct e1, e2; cbn [rkind] in H; try discriminate; reflexivity.
Qed.

(* THE THEOREM, for a source given as a string (asm.assemble(source)): *)
Theorem whole_include_is_paste fuel fs cwd incs top1 top2 A raw B rel p inc consts labels cmp :
  fs_exists fs cwd top1 = false -> fs_exists fs cwd top2 = false ->
  splitlines top1 = (A ++ raw :: B)%list ->
  is_blank raw = false -> is_include raw = true -> include_target raw = Some rel ->
  lookup fs cwd rel (incs ++ [cwd]) = Some p ->
  read_file fuel fs cwd incs p = ROk inc ->
  Forall (fun l => is_plain (l_contents l) = true) inc ->
  splitlines top2 = (A ++ map l_contents inc ++ B)%list ->
  wshape (assemble_model fuel fs cwd incs top1 consts labels cmp) =
  wshape (assemble_model fuel fs cwd incs top2 consts labels cmp).
Proof.
  intros X1 X2 S1 Hb Hi Ht Hl Hr Hp S2.
  apply wshape_of_rkind. unfold read_lines. rewrite X1, X2, S1, S2.
  rewrite (number_app A 1 (raw :: B)). cbn [number].
  set (k := 1 + Z.of_nat (List.length A)).
  rewrite (rkind_contents _ _ (read_numbered_textual_splice (read_file fuel fs cwd incs) fs cwd "<string>" (incs ++ [cwd])
             (number 1 A) k raw (number (k + 1) B) rel p inc Hb Hi Ht Hl Hr Hp (number k (map l_contents inc)) (map_snd_number _ _))).
  apply read_numbered_renumber.
  rewrite !map_app, !map_snd_number. reflexivity.
Qed.

(* the same for sources given as PATHS (asm.assemble(path), the CLI): two files in directories with the same search path,
   one with the include line, the other with the lines pasted *)
Theorem whole_include_is_paste_files fuel fs cwd incs top1 top2 src1 src2 A raw B rel p inc consts labels cmp :
  fs_exists fs cwd top1 = true -> fs_exists fs cwd top2 = true ->
  fs_read fs cwd top1 = Some src1 -> fs_read fs cwd top2 = Some src2 ->
  base_dir cwd top1 = base_dir cwd top2 ->
  splitlines src1 = (A ++ raw :: B)%list ->
  is_blank raw = false -> is_include raw = true -> include_target raw = Some rel ->
  lookup fs cwd rel (incs ++ [base_dir cwd top1]) = Some p ->
  read_file fuel fs cwd incs p = ROk inc ->
  Forall (fun l => is_plain (l_contents l) = true) inc ->
  splitlines src2 = (A ++ map l_contents inc ++ B)%list ->
  wshape (assemble_model fuel fs cwd incs top1 consts labels cmp) =
  wshape (assemble_model fuel fs cwd incs top2 consts labels cmp).
Proof.
  intros X1 X2 R1 R2 Hd S1 Hb Hi Ht Hl Hr Hp S2.
  apply wshape_of_rkind. unfold read_lines. rewrite X1, X2. cbn [read_file]. rewrite R1, R2, S1, S2, <- Hd.
  rewrite (number_app A 1 (raw :: B)). cbn [number].
  set (k := 1 + Z.of_nat (List.length A)).
  rewrite (rkind_contents _ _ (read_numbered_textual_splice (read_file fuel fs cwd incs) fs cwd top1 (incs ++ [base_dir cwd top1])
             (number 1 A) k raw (number (k + 1) B) rel p inc Hb Hi Ht Hl Hr Hp (number k (map l_contents inc)) (map_snd_number _ _))).
  apply read_numbered_renumber.
  rewrite !map_app, !map_snd_number. reflexivity.
Qed.

(* and the working directory does not matter to the whole run when the paths handed to assemble are absolute *)
From BB Require Import Proofs.ReaderCwd.
Theorem whole_cwd fuel fs cwd1 cwd2 incs top consts labels cmp :
  is_abs top = true -> all_abs incs -> fs_exists fs cwd1 top = true ->
  assemble_model fuel fs cwd1 incs top consts labels cmp = assemble_model fuel fs cwd2 incs top consts labels cmp.
Proof. intros Ht Hi He. unfold assemble_model. rewrite (read_lines_cwd fuel fs cwd1 cwd2 incs top Ht Hi He). reflexivity. Qed.

(* ---- C13 on the whole model: the result depends on the TOKENS of the lines that were read, on nothing else -------------------- *)
Definition same_lex (a b : Items.line * string) : Prop := lex_tokens (snd a) = lex_tokens (snd b).
Theorem same_tokens_same_result ta tb consts labels cmp :
  Forall2 same_lex ta tb ->
  tshape (assemble_text ta consts labels cmp) = tshape (assemble_text tb consts labels cmp).
Proof.
  intro H. set (l0 := {| lfile := ""; lnum := 0 |}). set (f := fun _ : Items.line => l0).
  rewrite <- (tshape_ftres f (assemble_text ta _ _ _)), <- (tshape_ftres f (assemble_text tb _ _ _)).
  rewrite <- !assemble_text_relabel. f_equal. apply program_rewrite.
  unfold retext, f. clear f. induction H as [|a b ta tb Hab _ IH]; cbn [map]; constructor; auto.
  split; [reflexivity|exact Hab].
Qed.
Theorem whole_same_tokens fuel1 fs1 cwd1 incs1 top1 fuel2 fs2 cwd2 incs2 top2 consts labels cmp la lb :
  read_lines fuel1 fs1 cwd1 incs1 top1 = ROk la -> read_lines fuel2 fs2 cwd2 incs2 top2 = ROk lb ->
  Forall2 (fun a b => lex_tokens (l_contents a) = lex_tokens (l_contents b)) la lb ->
  wshape (assemble_model fuel1 fs1 cwd1 incs1 top1 consts labels cmp) =
  wshape (assemble_model fuel2 fs2 cwd2 incs2 top2 consts labels cmp).
Proof.
  intros Ea Eb H. unfold assemble_model. rewrite Ea, Eb.
  assert (S : tshape (assemble_text (map to_text la) consts labels cmp) = tshape (assemble_text (map to_text lb) consts labels cmp)).
  { apply same_tokens_same_result. clear Ea Eb. induction H as [|a b x y Hab _ IH]; cbn [map]; constructor; [exact Hab|exact IH]. }
  destruct (assemble_text (map to_text la) consts labels cmp) as [ra|[l1|x1]|],
           (assemble_text (map to_text lb) consts labels cmp) as [rb|[l2|x2]|]; exact S.
Qed.

(* lines without tokens (comment-only lines; blank lines are already dropped by the reader) do not count either *)
Definition no_tokens (t : string) : bool := match lex_tokens t with Some [] => true | _ => false end.
Definition keep_text (p : Items.line * string) : bool := negb (no_tokens (snd p)).
Lemma front_items_filter ls : front_items (filter keep_text ls) = front_items ls.
Proof.
  induction ls as [|[l t] r IH]; [reflexivity|]. cbn [filter]. unfold keep_text at 1, no_tokens. cbn [snd].
  destruct (lex_tokens t) as [[|t0 ts]|] eqn:E; cbn [negb front_items]; unfold front_line; rewrite E; try rewrite IH; reflexivity.
Qed.
Theorem whole_same_tokens_modulo_comment_lines fuel1 fs1 cwd1 incs1 top1 fuel2 fs2 cwd2 incs2 top2 consts labels cmp la lb :
  read_lines fuel1 fs1 cwd1 incs1 top1 = ROk la -> read_lines fuel2 fs2 cwd2 incs2 top2 = ROk lb ->
  Forall2 (fun a b => lex_tokens (l_contents a) = lex_tokens (l_contents b))
          (filter (fun a => negb (no_tokens (l_contents a))) la) (filter (fun b => negb (no_tokens (l_contents b))) lb) ->
  wshape (assemble_model fuel1 fs1 cwd1 incs1 top1 consts labels cmp) =
  wshape (assemble_model fuel2 fs2 cwd2 incs2 top2 consts labels cmp).
Proof.
  intros Ea Eb H. unfold assemble_model. rewrite Ea, Eb.
  assert (S : tshape (assemble_text (map to_text la) consts labels cmp) = tshape (assemble_text (map to_text lb) consts labels cmp)).
  { unfold assemble_text. rewrite <- (front_items_filter (map to_text la)), <- (front_items_filter (map to_text lb)).
    fold (assemble_text (filter keep_text (map to_text la)) consts labels cmp).
    fold (assemble_text (filter keep_text (map to_text lb)) consts labels cmp).
    apply same_tokens_same_result. clear Ea Eb.
    assert (F : forall l, filter keep_text (map to_text l) = map to_text (filter (fun a => negb (no_tokens (l_contents a))) l)).
    { induction l as [|a l IH]; [reflexivity|]. cbn [map filter]. unfold keep_text at 1. cbn [to_text snd].
      destruct (negb (no_tokens (l_contents a))); cbn [map]; rewrite IH; reflexivity. }
    rewrite !F. induction H as [|a b x y Hab _ IH]; cbn [map]; constructor; [exact Hab|exact IH]. }
  destruct (assemble_text (map to_text la) consts labels cmp) as [ra|[l1|x1]|],
           (assemble_text (map to_text lb) consts labels cmp) as [rb|[l2|x2]|]; exact S.
Qed.
