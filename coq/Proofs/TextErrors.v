(* C15 at the level of the TEXT of a file: the model of asm.assemble on the lines of one file (Proofs/Program.v assemble_text: lex and
   parse every line, drop blank lines, run the 16 passes).  (1) An AssemblerError names one of the lines of the file.  (2) No raw
   exception leaves it, provided no single line is an operand-COUNT fault of the parser (the residual class, see DESIGN.md). *)
From Coq Require Import ZArith List Bool String.
From BB Require Import Base.PyBase Gen.Encoders Model.Items Model.Lexer Model.Parser Model.Passes
  Proofs.Errors Proofs.ParseErrors Proofs.EncSig Proofs.EncTotal Proofs.NoRaw Proofs.ParseOk Proofs.Program.
Import ListNotations.

(* parse errors of a line name that line *)
Lemma pseudo_line l name args it : pseudo l name args = FOk it -> pimm_ok l it.
Proof.
  unfold pseudo. destruct (String.eqb name "li").
  - destruct (parse_immediate (tl args) l) as [e|e|] eqn:Ep; intro H; inversion H; subst; simpl; auto.
    destruct e as [l'|x]; auto. eapply parse_immediate_line; eauto.
  - intro H; inversion H; subst. exact I.
Qed.

(* what one line contributes *)
Definition line_fine (lt : line * string) : Prop :=
  match front_line (fst lt) (snd lt) with
  | FOk (Some it) => okb 0 it = true /\ pimm_ok (fst lt) it
  | FErr (PRaw _) => False
  | FErr (PAsm l') => l' = fst lt
  | _ => True
  end.

Lemma front_items_fine ls : Forall line_fine ls ->
  match front_items ls with
  | FOk its => oks 0 its /\ Pall its /\ incl (lines its) (map fst ls)
  | FErr (PRaw _) => False
  | FErr (PAsm l) => In l (map fst ls)
  | FUnsup => True
  end.
Proof.
  induction 1 as [|[l text] r H _ IH]; cbn [front_items map]. { repeat split; try constructor. apply incl_refl. }
  unfold line_fine in H. cbn [fst snd] in H.
  destruct (front_line l text) as [[it|]|[l'|x]|]; try contradiction; auto.
  - destruct H as [Hok Hp]. destruct (front_items r) as [its|[l'|x]|]; auto.
    + destruct IH as (A & B & C). split. constructor; auto. split. constructor; auto.
      unfold lines. cbn [map fst]. intros y [<-|Hy]; [left; reflexivity|right; apply C; exact Hy].
    + right. exact IH.
  - destruct (front_items r) as [its|[l'|x]|]; auto.
    + destruct IH as (A & B & C). repeat split; auto. apply incl_tl. exact C.
    + right. exact IH.
  - left. symmetry. exact H.
Qed.

Section Text.
Hypothesis Henc : forall cls name args names kinds,
  assoc_str cls class_sig = Some (names, kinds) -> mem_str name names = true -> Forall2 kind_ok kinds args ->
  only_ve (encode_call cls name args).

Theorem text_no_raw ls consts labels compress x :
  Forall line_fine ls -> assemble_text ls consts labels compress <> TFail (PRaw x).
Proof.
  intros H E. unfold assemble_text in E. pose proof (front_items_fine ls H) as F.
  destruct (front_items ls) as [its|[l'|y]|]; try discriminate; try contradiction.
  destruct F as (A & _ & _). pose proof (assemble_good Henc its consts labels compress A) as G.
  destruct (assemble_items its consts labels compress) as [r|[l'|y]|]; try discriminate. inversion E; subst. exact G.
Qed.
End Text.

Theorem text_located ls consts labels compress l :
  Forall line_fine ls -> assemble_text ls consts labels compress = TFail (PAsm l) -> In l (map fst ls).
Proof.
  intros H E. unfold assemble_text in E. pose proof (front_items_fine ls H) as F.
  destruct (front_items ls) as [its|[l'|y]|]; try discriminate; try contradiction.
  - destruct F as (_ & P & C).
    destruct (assemble_items its consts labels compress) as [r|[l'|y]|] eqn:Ea; try discriminate. inversion E; subst.
    apply C. eapply errors_located; eauto.
  - inversion E; subst. exact F.
Qed.

(* when is a line fine?  whenever the parser model accepts it and the two side conditions of ParseOk hold, or refuses it with its
   own error (which names the line: every raise_asm of the parser model uses the line it was given) *)
Ltac innermost H :=
  repeat match type of H with
  | context[match ?x with _ => _ end] =>
      lazymatch x with
      | context[match _ with _ => _ end] => fail
      | context[if _ then _ else _] => fail
      | _ => destruct x eqn:?; try discriminate H
      end
  | context[if ?c then _ else _] =>
      lazymatch c with
      | context[match _ with _ => _ end] => fail
      | context[if _ then _ else _] => fail
      | _ => destruct c eqn:?; try discriminate H
      end
  end.
Lemma parse_asm_line l tokens l' : parse_item l tokens = FErr (PAsm l') -> l' = l.
Proof.
  unfold parse_item. destruct tokens as [|t0 args]; [discriminate|]. cbv zeta.
  unfold instr, raise_asm, raise_raw, fbind, base_offset, imm_field, R, pseudo, ref_imm.
  intro H. innermost H; inversion H; subst; try reflexivity;
    match goal with
    | E : parse_immediate _ l = FErr (PAsm ?x) |- _ => apply parse_immediate_line in E; subst x; reflexivity
    | E : raise_asm l = FErr (PAsm ?x) |- _ => inversion E; reflexivity
    end.
Qed.

Lemma parse_pimm l tokens it : parse_item l tokens = FOk it -> pimm_ok l it.
Proof.
  unfold parse_item. destruct tokens as [|t0 args]; [discriminate|]. cbv zeta.
  unfold instr, raise_asm, raise_raw, fbind, base_offset, imm_field, R, ref_imm.
  intro H. innermost H;
    first [ eapply pseudo_line; eassumption
          | inversion H; subst; exact I
          | inversion H; subst; unfold string_item; cbv zeta;
            repeat match goal with |- context[match ?x with _ => _ end] => destruct x end; exact I
          | match goal with E : pseudo l _ _ = FOk _ |- _ => inversion H; subst; eapply pseudo_line; eassumption end ].
Qed.

(* a sufficient condition on the TEXT of a line, in terms of the lexer and parser models only *)
Definition line_cond (lt : line * string) : Prop :=
  match lex_tokens (snd lt) with
  | Some (t :: ts) =>
      match parse_item (fst lt) (t :: ts) with
      | FErr (PRaw _) => False                 (* an operand-count fault: tuple unpacking in the parser *)
      | FOk it => (forall n a p, it = IPseudo n a p -> pseudo_arity_okb n a = true) /\
                  (forall n v, it = IShort n v -> some_b (short_fmt n) = true)
      | _ => True
      end
  | _ => True
  end.
Lemma line_cond_fine lt : line_cond lt -> line_fine lt.
Proof.
  destruct lt as [l text]. unfold line_cond, line_fine, front_line. cbn [fst snd].
  destruct (lex_tokens text) as [[|t ts]|]; auto.
  destruct (parse_item l (t :: ts)) as [it|[l'|x]|] eqn:Ep; cbn [fbind]; auto.
  - intros [P S]. split. eapply concl_ok; eauto. eapply parse_item_ok; eauto. eapply parse_pimm; eauto.
  - intros _. eapply parse_asm_line; eauto.
Qed.
