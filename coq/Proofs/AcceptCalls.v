(* C12, positive half, with call / tail: the pseudo pass of both runs in lockstep (hybrid label tables, distances only move
   towards zero), the pairing of the two final lists (an uncompressed far pair may face a near jal), the near jal within range. *)
From Coq Require Import ZArith List Bool Lia String Arith.
From BB Require Import Base.Bits Base.PyBase Gen.Encoders Gen.Criteria Spec.RV32 Spec.RVC Spec.Operands Spec.Legal
  Model.Items Model.Encode Model.Passes Proofs.Regs Proofs.Layout Proofs.LayoutInst Proofs.Pipeline Proofs.Errors Proofs.EncSig Proofs.NoRaw
  Proofs.Rules Proofs.RulesMain Proofs.Stable Proofs.Monotone
  Proofs.AcceptLayout Proofs.AcceptTail Proofs.AcceptMono Proofs.AcceptCompress Proofs.AcceptItem Proofs.AcceptClass Proofs.AcceptStatic
  Proofs.AcceptPass Proofs.AcceptU Proofs.AcceptChain.
Import ListNotations.
Open Scope Z_scope.
Local Open Scope list_scope.

Definition rng (d : Z) : bool := between (-1048576) 1048575 d.

Lemma dist_bounds L a1 a2 d : nonneg a1 -> nonneg a2 -> dist L a1 a2 = Some d -> - total a1 <= d <= total a2.
Proof.
  intros N1 N2 H. unfold dist in H. pose proof (nonneg_total _ N1). pose proof (nonneg_total _ N2).
  destruct (goff L a1) as [q|] eqn:E.
  - inversion H; subst. pose proof (goff_le_total _ _ _ N1 E). lia.
  - pose proof (goff_le_total _ _ _ N2 H). lia.
Qed.
Lemma gp_nonneg rule (Hok : rule_ok rule) its : forall pos ls o ls', nonneg its -> gp rule its pos ls = Done (o, ls') -> nonneg o.
Proof.
  induction its as [|[l it] r IH]; intros pos ls o ls' Hn H; cbn [gp] in H.
  - inversion H. constructor.
  - inversion Hn as [|? ? Hw Hn']; subst. destruct (is_label it) as [n|] eqn:El.
    + destruct (gp rule r pos ls) as [[o1 ls1]| |] eqn:E; cbn [obind] in H; try discriminate. inversion H; subst. cbn [fst].
      constructor. split. unfold isz; simpl; lia. intros k Hk; discriminate. eapply IH; eauto.
    + destruct (size_o it) as [old| |] eqn:Eo; cbn [obind] in H; try discriminate.
      destruct (rule l it pos ls) as [rs| |] eqn:Er; cbn [obind] in H; try discriminate.
      destruct (sizes rs) as [new| |] eqn:En; cbn [obind] in H; try discriminate. cbv zeta in H.
      destruct (gp rule r _ _) as [[o1 ls1]| |] eqn:E; cbn [obind] in H; try discriminate. inversion H; subst. cbn [fst].
      destruct (Hok l it pos ls rs old new Hw El Eo Er En) as [_ Hnl]. apply nonneg_app; [|eapply IH; eauto].
      clear - Hnl. induction Hnl as [|x xs [_ Hx] _ IHx]; cbn [map]; constructor; auto.
Qed.

(* the pseudo rule, by the form of the expansion *)
Lemma pseudo_rule_cases consts l name args pimm pos ls rs :
  pseudo_rule consts l (IPseudo name args pimm) pos ls = Done rs ->
  exists px, expand_pseudo l name args pimm = Done px /\
    match px with
    | One it' => rs = [it']
    | Choice e None lo hi near f1 f2 =>
        exists v st, eval_here l pos consts ls e = Done v /\ is_settled l pos consts e = Done st /\
                     rs = if st && (c_int32 v >=? lo) && (c_int32 v <=? hi) then [near] else [f1; f2]
    | Choice e (Some r) lo hi near f1 f2 =>
        exists v, eval_here l pos consts ls e = Done v /\
                  rs = if negb (in_consts consts r) && (c_int32 v >=? lo) && (c_int32 v <=? hi) then [near] else [f1; f2]
    end.
Proof.
  intro H. cbv beta iota delta [pseudo_rule] in H.
  destruct (expand_pseudo l name args pimm) as [px| |]; cbn [obind] in H; try discriminate. exists px. split. reflexivity.
  destruct px as [it'|e target lo hi near f1 f2]. inversion H; reflexivity.
  fold (eval_here l pos consts ls e) in H. destruct (eval_here l pos consts ls e) as [v| |]; cbn [obind] in H; try discriminate.
  destruct target as [r|].
  - cbn [obind] in H. cbv zeta in H. exists v. split. reflexivity. destruct (_ && _ && _); inversion H; reflexivity.
  - destruct (is_settled l pos consts e) as [st| |]; cbn [obind] in H; try discriminate. cbv zeta in H.
    exists v, st. split. reflexivity. split. reflexivity. destruct (_ && _ && _); inversion H; reflexivity.
Qed.

(* one item of the pseudo pass: a shrinking group *)
Lemma pseudo_group_shr consts K x g : wfi (snd x) -> pass_groupK (pseudo_rule consts) K x g ->
  shr x g /\ ((forall n a p, snd x <> IPseudo n a p) -> g = [x]) /\
  (forall n a p, snd x = IPseudo n a p -> Forall (fun y => plain (snd y) /\ fst y = fst x) g).
Proof.
  destruct x as [l it]. unfold pass_groupK. cbn [fst snd]. intros Hw H. pose proof (proj1 Hw) as H0.
  destruct (is_label it) as [n|] eqn:El.
  { subst g. rewrite <- (is_label_inv _ _ El). split. apply shr_same; exact H0. split. reflexivity. intros n0 a p E. rewrite E in El. discriminate. }
  destruct H as (p0 & ls0 & rs & _ & Hr0 & ->).
  destruct it; try discriminate El; try (rewrite (pseudo_other consts l _ p0 ls0) in Hr0 by (intros; discriminate); inversion Hr0; subst rs;
                    split; [apply shr_same; exact H0|split; [reflexivity|intros; discriminate]]).
  pose proof (pseudo_rule_keep _ _ _ _ _ _ Hr0) as Pl. cbn beta iota in Pl. destruct (sizes_plain _ Pl) as (new & En & Enew).
  assert (Eo : size_o (IPseudo name args pimm) = Done (if is_big_pseudo name then 8 else 4)) by reflexivity.
  destruct (pseudo_rule_ok consts l _ p0 ls0 rs _ new Hw eq_refl Eo Hr0 En) as [Hb _].
  pose proof (sizes_total l rs new En) as Tg.
  split; [|split].
  - unfold shr. cbn [snd is_label]. split. { clear - Pl. induction Pl as [|t rs (c & n & f & ->) _ IH]; cbn [map]; constructor; auto. }
    rewrite Tg. change (isz (IPseudo name args pimm)) with (if is_big_pseudo name then 8 else 4). split. lia.
    destruct (is_big_pseudo name); [exists (4 - 2 * Z.of_nat (List.length rs))|exists (2 - 2 * Z.of_nat (List.length rs))]; lia.
  - intro N. exfalso. eapply N. reflexivity.
  - intros _ _ _ _. clear - Pl. induction Pl as [|t rs Ht _ IH]; cbn [map]; constructor; auto.
Qed.
Lemma pseudo_gp_shr consts rem pos ls o ls' : nonneg rem -> gp (pseudo_rule consts) rem pos ls = Done (o, ls') -> grouped shr rem o.
Proof.
  intros Hn H. pose proof (gp_groupedK _ _ _ _ _ _ H) as G. eapply grouped_impl_in; [|exact G].
  intros x g Hin Hg. apply (pseudo_group_shr consts (map fst ls) x g); auto. unfold nonneg in Hn. rewrite Forall_forall in Hn. auto.
Qed.

Lemma eval_off_calls consts l p ls L d : assoc_str L consts = None -> assoc_str L ls = Some d ->
  eval_here l p consts ls (EOff L) = Done (d - p).
Proof. intros Hc Hd. unfold eval_here. cbn [eeval]. unfold chain_get. rewrite Hc, Hd. reflexivity. Qed.

Lemma nolab_gnames g : nolab g -> gnames g = [].
Proof. induction 1 as [|[l it] g H _ IH]; cbn [gnames]; auto. cbn [snd] in H. rewrite H. exact IH. Qed.

Section Calls.
Variables (consts : envt) (labs cn : list string).
Hypothesis Htgt : forall L, target_ok labs cn L = true -> In L labs /\ assoc_str L consts = None.
Notation alias_item := (alias_item consts).
Notation ready := (ready consts labs).
Notation cbuilt := (cbuilt consts labs).
Notation crel := (crel consts labs).
Notation is_target := (is_target consts labs).

(* ---- the pair near / far of one call or tail ------------------------------------------------------------------------------- *)
Definition callpair (near f1 f2 : item) (L : string) : Prop :=
  exists a b b',
    near = IInstr "JTypeInstruction" "jal" [("rd", FReg a); ("imm", FExpr (EOff L))]%string false /\
    f1 = IInstr "UTypeInstruction" "auipc" [("rd", FReg b); ("imm", FExpr (EHi (EOff L)))]%string false /\
    f2 = IInstr "ITypeInstruction" "jalr"
           [("rd", FReg a); ("rs1", FReg b'); ("imm", FExpr (ELo (EOff L))); ("is_auipc_jump", FBool true)]%string false.
Definition is_nj (y : litem) (L : string) : Prop :=
  exists a, snd y = IInstr "JTypeInstruction" "jal" [("rd", FReg a); ("imm", FExpr (EOff L))]%string false.
Definition nj_inv (o : list litem) : Prop :=
  forall o1 y o2 L, o = o1 ++ y :: o2 -> is_nj y L -> is_target L -> exists d, dist L o1 (y :: o2) = Some d /\ rng d = true.

Lemma callpair_alias l near f1 f2 L : callpair near f1 f2 L ->
  callpair (snd (alias_item (l, near))) (snd (alias_item (l, f1))) (snd (alias_item (l, f2))) L.
Proof.
  intros (a & b & b' & -> & -> & ->). cbn [AcceptStatic.alias_item snd map].
  assert (exists a', alias_field consts ("rd"%string, FReg a) = ("rd"%string, FReg a')) as [a' Ea'].
  { destruct a as [z|s]; cbn [alias_field]. eauto. destruct (mem_str "rd" REGS); [destruct (assoc_str s consts)|]; eauto. }
  assert (exists b1, alias_field consts ("rd"%string, FReg b) = ("rd"%string, FReg b1)) as [b1 Eb1].
  { destruct b as [z|s]; cbn [alias_field]. eauto. destruct (mem_str "rd" REGS); [destruct (assoc_str s consts)|]; eauto. }
  assert (exists b2, alias_field consts ("rs1"%string, FReg b') = ("rs1"%string, FReg b2)) as [b2 Eb2].
  { destruct b' as [z|s]; cbn [alias_field]. eauto. destruct (mem_str "rs1" REGS); [destruct (assoc_str s consts)|]; eauto. }
  exists a', b1, b2. rewrite Ea', Eb1, Eb2. repeat split; reflexivity.
Qed.

(* ---- the pairing of the two lists -------------------------------------------------------------------------------------------- *)
Inductive gpair : list litem -> list litem -> Prop :=
| gq_nil : gpair [] []
| gq_one t y u c : crel t y -> gpair u c -> gpair (t :: u) (y :: c)
| gq_call l near f1 f2 L y u c : callpair near f1 f2 L -> crel (l, near) y -> gpair u c ->
    gpair ((l, f1) :: (l, f2) :: u) (y :: c).

Lemma gpair_refl l : gpair l l.
Proof. induction l; constructor; auto. apply crel_refl. Qed.
Lemma gpair_app a b u c : gpair a b -> gpair u c -> gpair (a ++ u) (b ++ c).
Proof.
  induction 1 as [|t y a b Ct G0 IH|l near f1 f2 L y a b Cp Cy G0 IH]; intro G; cbn [app]; auto.
  - constructor; auto.
  - eapply gq_call; eauto.
Qed.
Lemma callpair_sizes near f1 f2 L : callpair near f1 f2 L -> isz near = 4 /\ isz f1 = 4 /\ isz f2 = 4 /\
  is_label near = None /\ is_label f1 = None /\ is_label f2 = None.
Proof. intros (a & b & b' & -> & -> & ->). repeat split; reflexivity. Qed.
Lemma gpair_gsh u c : nonneg u -> gpair u c -> gsh u c.
Proof.
  intros Hn G. induction G as [|t y u c Ct G IH|l near f1 f2 L y u c Cp Cy G IH].
  - constructor.
  - inversion Hn as [|? ? [H0 _] Hn']; subst. apply (gsh_app [t] [y] u c); auto.
    apply grouped_gsh. change [y] with ([y] ++ []). constructor. eapply crel_shr; eauto. constructor.
  - inversion Hn as [|? ? _ Hn1]; subst. inversion Hn1 as [|? ? _ Hn']; subst.
    destruct (callpair_sizes _ _ _ _ Cp) as (S0 & S1 & S2 & L0 & L1 & L2).
    assert (Sy : shr (l, near) [y]) by (eapply crel_shr; eauto; cbn [snd]; lia).
    unfold shr in Sy. cbn [snd] in Sy. rewrite L0 in Sy. destruct Sy as (Ny & Ty & [k Hk]).
    change ((l, f1) :: (l, f2) :: u) with ([(l, f1); (l, f2)] ++ u). change (y :: c) with ([y] ++ c).
    apply gsh_grp; auto.
    + constructor; [exact L1|constructor; [exact L2|constructor]].
    + unfold total in *. cbn [fold_right snd] in *. lia.
    + unfold total in *. cbn [fold_right snd] in *. exists (k + 2). lia.
Qed.
Lemma gpair_trans u c c' : gpair u c -> Forall2 crel c c' -> gpair u c'.
Proof.
  intro G. revert c'. induction G as [|t y u c Ct G IH|l near f1 f2 L y u c Cp Cy G IH]; intros c' F; inversion F; subst.
  - constructor.
  - constructor. eapply crel_trans; eauto. apply IH; assumption.
  - eapply gq_call. exact Cp. eapply crel_trans; eauto. apply IH; assumption.
Qed.
Lemma gpair_alias u c : gpair u c -> gpair (map alias_item u) (map alias_item c).
Proof.
  induction 1 as [|t y u c Ct G IH|l near f1 f2 L y u c Cp Cy G IH]; cbn [map].
  - constructor.
  - constructor; auto. apply crel_alias; auto.
  - pose proof (callpair_alias l _ _ _ _ Cp) as Cp'. pose proof (crel_alias consts labs _ _ Cy) as Cy'.
    destruct Cp as (a & b & b' & -> & -> & ->). cbn [AcceptStatic.alias_item snd] in *.
    eapply gq_call; eauto.
Qed.
(* the cut of the right list at an item *)
Lemma gpair_cut u c : gpair u c -> forall c1 y c2, c = c1 ++ y :: c2 ->
  (exists u1 t u2, u = u1 ++ t :: u2 /\ gpair u1 c1 /\ crel t y /\ gpair u2 c2) \/
  (exists u1 l near f1 f2 L u2, u = u1 ++ (l, f1) :: (l, f2) :: u2 /\ gpair u1 c1 /\ callpair near f1 f2 L /\ crel (l, near) y /\ gpair u2 c2).
Proof.
  induction 1 as [|t y0 u c Ct G IH|l near f1 f2 L y0 u c Cp Cy G IH]; intros c1 y c2 E.
  - destruct c1; discriminate.
  - destruct c1 as [|h c1]; cbn [app] in E; inversion E; subst.
    + left. exists [], t, u. split; [reflexivity|]. split; [constructor|]. split; assumption.
    + destruct (IH _ _ _ eq_refl) as [(u1 & t' & u2 & -> & G1 & Ct' & G2)|(u1 & l' & n' & g1 & g2 & L' & u2 & -> & G1 & Cp' & Cy' & G2)].
      * left. exists (t :: u1), t', u2. split; [reflexivity|]. split; [constructor; assumption|]. split; assumption.
      * right. exists (t :: u1), l', n', g1, g2, L', u2. split; [reflexivity|]. split; [constructor; assumption|]. split; [assumption|]. split; assumption.
  - destruct c1 as [|h c1]; cbn [app] in E; inversion E; subst.
    + right. exists [], l, near, f1, f2, L, u. split; [reflexivity|]. split; [constructor|]. split; [assumption|]. split; assumption.
    + destruct (IH _ _ _ eq_refl) as [(u1 & t' & u2 & -> & G1 & Ct' & G2)|(u1 & l' & n' & g1 & g2 & L' & u2 & -> & G1 & Cp' & Cy' & G2)].
      * left. exists ((l, f1) :: (l, f2) :: u1), t', u2. split; [reflexivity|]. split; [eapply gq_call; eassumption|]. split; assumption.
      * right. exists ((l, f1) :: (l, f2) :: u1), l', n', g1, g2, L', u2. split; [reflexivity|]. split; [eapply gq_call; eassumption|].
        split; [assumption|]. split; assumption.
Qed.

(* ---- the pseudo pass of both runs, in lockstep ------------------------------------------------------------------------------ *)
Lemma rng_geb v : (v >=? -1048576) && (v <=? 1048575) = rng v.
Proof. unfold rng, between. destruct (v >=? -1048576) eqn:A, (-1048576 <=? v) eqn:B; try lia; reflexivity. Qed.
Lemma rng_closer d' d : closer d' d -> rng d = true -> rng d' = true.
Proof. intros [H _] R. unfold rng in *. eapply between_closer; [|exact H|exact R]. lia. Qed.
Lemma callpair_of_shapes rd ra r :
  callpair (mkJ "jal" (St rd) (EOff r)) (mkU "auipc" (St ra) (EHi (EOff r))) (mkI "jalr" (St rd) (St ra) (ELo (EOff r)) true) r.
Proof. exists (AStr rd), (AStr ra), (AStr ra). repeat split; reflexivity. Qed.
Lemma not_nj_callpair l near f1 f2 L L' : callpair near f1 f2 L -> ~ is_nj (l, f1) L' /\ ~ is_nj (l, f2) L'.
Proof. intros (a & b & b' & -> & -> & ->). split; intros [a0 E]; cbn [snd] in E; discriminate. Qed.

Lemma lock : forall remA remB, Forall2 crel remA remB ->
  forall preA preB lsA lsB oA oB lsA' lsB',
  Forall (src_ok consts labs cn true) remA ->
  nonneg preA -> nonneg preB -> nonneg remA -> nonneg remB -> gsh preA preB ->
  exact (preA ++ remA) lsA -> exact (preB ++ remB) lsB -> (forall s, assoc_str s lsA <> None -> In s labs) ->
  (forall L, In L labs -> In L (gnames (preA ++ remA))) -> (forall L, In L labs -> In L (gnames (preB ++ remB))) ->
  total (preA ++ remA) < 2 ^ 31 -> total (preB ++ remB) < 2 ^ 31 ->
  gp (pseudo_rule consts) remA (total preA) lsA = Done (oA, lsA') ->
  gp (pseudo_rule consts) remB (total preB) lsB = Done (oB, lsB') ->
  (forall a1 t a2 L, oA = a1 ++ t :: a2 -> is_nj t L -> is_target L ->
     exists d, dist L (preA ++ a1) (t :: a2) = Some d /\ rng d = true) ->
  gpair oA oB /\
  (forall b1 y b2 L, oB = b1 ++ y :: b2 -> is_nj y L -> is_target L ->
     exists d, dist L (preB ++ b1) (y :: b2) = Some d /\ rng d = true).
Proof.
  induction 1 as [|[l it] [l' it'] remA remB Hx F IH];
    intros preA preB lsA lsB oA oB lsA' lsB' Src NpA NpB NrA NrB Gpre XA XB KlsA LA LB TA TB EA EB HA.
  - cbn [gp] in EA, EB. inversion EA; inversion EB; subst. split. constructor. intros b1 y b2 L E. destruct b1; discriminate.
  - inversion Src as [|? ? Sx Src']; subst. inversion NrA as [|? ? WxA NrA']; subst. inversion NrB as [|? ? WxB NrB']; subst.
    destruct Hx as [Hl Hx]. cbn [fst snd] in Hl, Hx. subst l'.
    cbn [gp] in EA, EB.
    destruct (is_label it) as [n|] eqn:El.
    + (* a label marker *)
      pose proof (is_label_inv _ _ El) as ->.
      assert (it' = ILabel n) as ->.
      { destruct Hx as [E|((c0 & n0 & f0 & k0 & E) & _)]; [inversion E; reflexivity|discriminate]. }
      cbn [is_label] in EB.
      destruct (gp _ remA (total preA) lsA) as [[oA1 lA1]| |] eqn:EA1; cbn [obind] in EA; try discriminate.
      destruct (gp _ remB (total preB) lsB) as [[oB1 lB1]| |] eqn:EB1; cbn [obind] in EB; try discriminate.
      inversion EA; inversion EB; subst oA oB lsA' lsB'. cbn [fst].
      assert (TlA : total (preA ++ [(l, ILabel n)]) = total preA).
      { rewrite total_app. unfold total at 2. cbn [fold_right snd]. change (isz (ILabel n)) with 0. lia. }
      assert (TlB : total (preB ++ [(l, ILabel n)]) = total preB).
      { rewrite total_app. unfold total at 2. cbn [fold_right snd]. change (isz (ILabel n)) with 0. lia. }
      rewrite <- TlA in EA1. rewrite <- TlB in EB1.
      destruct (IH (preA ++ [(l, ILabel n)]) (preB ++ [(l, ILabel n)]) lsA lsB oA1 oB1 lA1 lB1) as [GP NJ]; auto.
      * apply nonneg_app; auto. constructor; auto.
      * apply nonneg_app; auto. constructor; auto.
      * apply gsh_app; auto. constructor. constructor.
      * rewrite <- app_assoc. exact XA.
      * rewrite <- app_assoc. exact XB.
      * intros L HL. rewrite <- app_assoc. auto.
      * intros L HL. rewrite <- app_assoc. auto.
      * rewrite <- app_assoc. exact TA.
      * rewrite <- app_assoc. exact TB.
      * intros a1 t a2 L E Hn HT. destruct (HA ((l, ILabel n) :: a1) t a2 L) as (d & Hd & Hr); auto. { rewrite E. reflexivity. }
        exists d. rewrite <- app_assoc. auto.
      * split. constructor; [apply crel_refl|exact GP].
        intros b1 y b2 L E Hn HT. destruct b1 as [|h b1]; cbn [app] in E; inversion E; subst.
        { destruct Hn as [a Ea]. discriminate. }
        destruct (NJ b1 y b2 L eq_refl Hn HT) as (d & Hd & Hr). exists d. rewrite <- app_assoc in Hd. auto.
    + (* an item *)
      assert (El' : is_label it' = None).
      { destruct Hx as [E|(_ & _ & B)]. inversion E; subst; exact El. destruct (cbuilt_instr _ _ _ B) as (l0 & c0 & f0 & n0 & E). inversion E; reflexivity. }
      rewrite El' in EB.
      destruct (size_o it) as [oldA| |] eqn:EoA; cbn [obind] in EA; try discriminate.
      destruct (pseudo_rule consts l it (total preA) lsA) as [rsA| |] eqn:ErA; cbn [obind] in EA; try discriminate.
      destruct (sizes rsA) as [newA| |] eqn:EnA; cbn [obind] in EA; try discriminate. cbv zeta in EA.
      fold (shifted (total preA) oldA newA lsA) in EA.
      destruct (gp _ remA _ _) as [[oA1 lA1]| |] eqn:EA1; cbn [obind] in EA; try discriminate.
      destruct (size_o it') as [oldB| |] eqn:EoB; cbn [obind] in EB; try discriminate.
      destruct (pseudo_rule consts l it' (total preB) lsB) as [rsB| |] eqn:ErB; cbn [obind] in EB; try discriminate.
      destruct (sizes rsB) as [newB| |] eqn:EnB; cbn [obind] in EB; try discriminate. cbv zeta in EB.
      fold (shifted (total preB) oldB newB lsB) in EB.
      destruct (gp _ remB _ _) as [[oB1 lB1]| |] eqn:EB1; cbn [obind] in EB; try discriminate.
      inversion EA; inversion EB; subst oA oB lsA' lsB'. cbn [fst]. clear EA EB.
      set (gA := map (fun y => (l, y)) rsA) in *. set (gB := map (fun y => (l, y)) rsB) in *.
      destruct (exact_step _ (pseudo_rule_ok consts) preA l it remA lsA rsA oldA newA NpA NrA El XA EoA ErA EnA) as (XA' & NpA' & TpA' & NLA & BdA).
      destruct (exact_step _ (pseudo_rule_ok consts) preB l it' remB lsB rsB oldB newB NpB NrB El' XB EoB ErB EnB) as (XB' & NpB' & TpB' & NLB & BdB).
      fold gA in XA', NpA', TpA', NLA. fold gB in XB', NpB', TpB', NLB.
      pose proof (size_o_isz _ _ EoA) as IoA. pose proof (size_o_isz _ _ EoB) as IoB.
      pose proof (sizes_total l rsA newA EnA) as TgA. pose proof (sizes_total l rsB newB EnB) as TgB. fold gA in TgA. fold gB in TgB.
      assert (PGA : pass_groupK (pseudo_rule consts) (map fst lsA) (l, it) gA).
      { unfold pass_groupK. cbn [fst snd]. rewrite El. exists (total preA), lsA, rsA. auto. }
      assert (PGB : pass_groupK (pseudo_rule consts) (map fst lsB) (l, it') gB).
      { unfold pass_groupK. cbn [fst snd]. rewrite El'. exists (total preB), lsB, rsB. auto. }
      destruct (pseudo_group_shr consts _ _ _ WxB PGB) as (ShB & KeepB & _).
      destruct (pseudo_group_shr consts _ _ _ WxA PGA) as (ShA & KeepA & _).
      assert (GremB : gsh ((l, it') :: remB) (gB ++ oB1)).
      { apply grouped_gsh. constructor. exact ShB. eapply pseudo_gp_shr; eauto. }
      assert (GremAB : gsh ((l, it) :: remA) ((l, it') :: remB)).
      { eapply (crel_gsh consts labs cn Htgt); eauto. constructor; auto. split; auto. }
      (* distances to a label of the program, at this item, in both runs *)
      assert (Dst : forall L, In L labs -> exists dA dB, dist L preA ((l, it) :: remA) = Some dA /\ dist L preB ((l, it') :: remB) = Some dB /\
                      closer dB dA /\ assoc_str L lsA = Some (total preA + dA) /\ assoc_str L lsB = Some (total preB + dB) /\
                      - 2 ^ 31 < dA < 2 ^ 31 /\ - 2 ^ 31 < dB < 2 ^ 31).
      { intros L HL. destruct (dist_defined _ _ _ (LA L HL)) as [dA HdA].
        destruct (dist_shrink L _ _ _ _ dA Gpre GremAB HdA) as (dB & HdB & Hcl). exists dA, dB.
        pose proof (dist_bounds _ _ _ _ NpA NrA HdA) as BA. pose proof (dist_bounds _ _ _ _ NpB NrB HdB) as BB.
        rewrite total_app in TA, TB. pose proof (nonneg_total _ NpA). pose proof (nonneg_total _ NpB).
        pose proof (nonneg_total _ NrA). pose proof (nonneg_total _ NrB).
        split. exact HdA. split. exact HdB. split. exact Hcl. split. eapply dist_exact; eauto. split. eapply dist_exact; eauto. split; lia. }
      (* the groups: equal, an instruction and its compression, or far against near *)
      assert (Cases : (gB = gA /\ it' = it) \/ (gA = [(l, it)] /\ gB = [(l, it')] /\ cbuilt (l, it')) \/
                      (exists near f1 f2 L, callpair near f1 f2 L /\ is_target L /\ gA = [(l, f1); (l, f2)] /\ gB = [(l, near)] /\
                         exists dB, dist L preB ((l, it') :: remB) = Some dB /\ rng dB = true)).
      { destruct Hx as [E|(Ix & Rx & Bx)].
        - inversion E; subst it'. clear E.
          destruct it; try discriminate El; try (exfalso; exact (proj2 Sx));
            try (left; split; [rewrite KeepA, KeepB by (cbn [snd]; intros; discriminate); reflexivity|reflexivity]).
          (* a pseudo-instruction *)
          unfold src_ok in Sx. cbn [fst snd] in Sx. destruct Sx as [_ [Pok Pcl]].
          destruct (pseudo_rule_cases _ _ _ _ _ _ _ _ ErA) as (px & Ex & CA).
          destruct (pseudo_rule_cases _ _ _ _ _ _ _ _ ErB) as (px' & Ex' & CB). rewrite Ex in Ex'. inversion Ex'; subst px'. clear Ex'.
          unfold pseudo_cls in Pcl. rewrite Ex in Pcl.
          destruct px as [it0|e [r|] lo hi near f1 f2].
          + left. split; [|reflexivity]. unfold gA, gB. congruence.
          + (* call / tail *)
            cbn [andb] in Pcl. destruct (Htgt r Pcl) as [HLr Hcr].
            destruct (call_choice _ _ _ _ _ _ _ _ _ _ _ Ex) as (-> & -> & ->).
            destruct (call_shapes _ _ _ _ _ _ _ _ _ _ _ Ex) as (rd & ra & -> & -> & ->).
            destruct (Dst r HLr) as (dA & dB & HdA & HdB & Hcl & AsA & AsB & BA & BB).
            destruct CA as (vA & EvA & RA). destruct CB as (vB & EvB & RB).
            rewrite (eval_off_calls consts l _ lsA r _ Hcr AsA) in EvA. rewrite (eval_off_calls consts l _ lsB r _ Hcr AsB) in EvB.
            inversion EvA; inversion EvB; subst vA vB.
            replace (total preA + dA - total preA) with dA in RA by lia. replace (total preB + dB - total preB) with dB in RB by lia.
            rewrite (c_int32_small dA) in RA by lia. rewrite (c_int32_small dB) in RB by lia.
            unfold in_consts in RA, RB. rewrite Hcr in RA, RB. cbn [negb andb] in RA, RB. rewrite rng_geb in RA, RB.
            destruct (rng dA) eqn:RgA.
            * rewrite (rng_closer _ _ Hcl RgA) in RB. left. split; [|reflexivity]. unfold gA, gB. congruence.
            * destruct (rng dB) eqn:RgB.
              -- right. right. exists (mkJ "jal" (St rd) (EOff r)), (mkU "auipc" (St ra) (EHi (EOff r))),
                   (mkI "jalr" (St rd) (St ra) (ELo (EOff r)) true), r.
                 split. apply callpair_of_shapes. split. split; assumption. unfold gA, gB. rewrite RA, RB. split. reflexivity. split. reflexivity.
                 exists dB. auto.
              -- left. split; [|reflexivity]. unfold gA, gB. congruence.
          + (* li *)
            destruct CA as (vA & stA & EvA & EsA & RA). destruct CB as (vB & stB & EvB & EsB & RB).
            destruct (lf_value labs l _ consts lsA e vA Pcl KlsA EvA) as (_ & _ & Hall).
            rewrite (Hall (total preB) lsB) in EvB. inversion EvB; subst vB.
            rewrite (is_settled_pos l (total preB) (total preA) consts e), EsA in EsB. inversion EsB; subst stB.
            left. split; [|reflexivity]. unfold gA, gB. congruence.
        - right. left. destruct Ix as (c0 & n0 & f0 & k0 & E). cbn [snd] in E. subst it.
          destruct (cbuilt_instr _ _ _ Bx) as (l0 & c1 & f1 & n1 & E). inversion E; subst.
          cbv beta iota delta [pseudo_rule] in ErA, ErB. inversion ErA; inversion ErB; subst rsA rsB. auto. }
      (* the group shrinks *)
      assert (Ggrp : gsh gA gB).
      { destruct Cases as [[-> _]|[(-> & -> & Bx)|(near & f1 & f2 & L & Cp & _ & -> & -> & _)]].
        - apply gsh_refl. apply Forall_app in NpA'. apply NpA'.
        - eapply (crel_gsh consts labs cn Htgt). constructor; auto. constructor; [|constructor]. split. reflexivity. exact Hx.
        - apply (gpair_gsh [(l, f1); (l, f2)] [(l, near)]). apply Forall_app in NpA'. apply NpA'.
          eapply gq_call; eauto. apply crel_refl. constructor. }
      rewrite <- TpA' in EA1. rewrite <- TpB' in EB1.
      destruct (IH (preA ++ gA) (preB ++ gB) (shifted (total preA) oldA newA lsA) (shifted (total preB) oldB newB lsB) oA1 oB1 lA1 lB1) as [GP NJ]; auto.
      * apply gsh_app; auto.
      * intros s Hs. apply KlsA. intro N. apply Hs. rewrite assoc_shifted by lia. rewrite N. reflexivity.
      * intros L HL. specialize (LA L HL). rewrite !gnames_app in *. cbn [gnames] in LA. rewrite El in LA.
        rewrite (nolab_gnames gA NLA), app_nil_r. exact LA.
      * intros L HL. specialize (LB L HL). rewrite !gnames_app in *. cbn [gnames] in LB. rewrite El' in LB.
        rewrite (nolab_gnames gB NLB), app_nil_r. exact LB.
      * rewrite (total_app (preA ++ gA) remA), TpA'. rewrite total_app, total_cons in TA. cbn [snd] in TA. lia.
      * rewrite (total_app (preB ++ gB) remB), TpB'. rewrite total_app, total_cons in TB. cbn [snd] in TB. lia.
      * intros a1 t a2 L E Hn HT. destruct (HA (gA ++ a1) t a2 L) as (d & Hd & Hr); auto. { rewrite E, <- app_assoc. reflexivity. }
        exists d. rewrite <- app_assoc. auto.
      * assert (NoA1 : nonneg oA1) by (eapply gp_nonneg; [apply pseudo_rule_ok| |exact EA1]; auto).
        pose proof (gpair_gsh _ _ NoA1 GP) as Gout.
        split.
        { destruct Cases as [[-> _]|[(-> & -> & Bx)|(near & f1 & f2 & L & Cp & _ & -> & -> & _)]].
          - apply gpair_app. apply gpair_refl. exact GP.
          - cbn [app]. constructor. split. reflexivity. exact Hx. exact GP.
          - cbn [app]. eapply gq_call; eauto. apply crel_refl. }
        intros b1 y b2 L E Hn HT.
        destruct (app_eq_app _ _ _ _ E) as [t0 [[A B]|[A B]]].
        2:{ (* the cut lies behind the group *)
            subst b1. destruct (NJ t0 y b2 L B Hn HT) as (d & Hd & Hr). exists d. rewrite <- app_assoc in Hd. auto. }
        destruct t0 as [|t00 t0].
        { cbn [app] in B. rewrite app_nil_r in A. subst b1. destruct (NJ [] y b2 L (eq_sym B) Hn HT) as (d & Hd & Hr).
          exists d. rewrite app_nil_r in Hd. auto. }
        cbn [app] in B. inversion B; subst t00 b2. clear B.
        (* the cut lies inside the group: gB = b1 ++ y :: t0 *)
        destruct Cases as [[EgB _]|[(EgA & EgB & Bx)|(near & f1 & f2 & L' & Cp & HT' & EgA & EgB & dB & HdB & RgB)]].
        -- (* the same group in both runs: compare with the uncompressed run *)
           rewrite EgB in A. destruct (HA b1 y (t0 ++ oA1) L) as (d & Hd & Hr); auto. { rewrite A, <- app_assoc. reflexivity. }
           assert (Ng : nonneg gA) by (apply Forall_app in NpA'; apply NpA').
           rewrite A in Ng. apply Forall_app in Ng. destruct Ng as [Ng1 Ng2].
           destruct (dist_shrink L (preA ++ b1) (y :: t0 ++ oA1) (preB ++ b1) (y :: t0 ++ oB1) d) as (d' & Hd' & Hcl); auto.
           { apply gsh_app; auto. apply gsh_refl; exact Ng1. }
           { apply (gsh_app (y :: t0) (y :: t0)); auto. apply gsh_refl; exact Ng2. }
           exists d'. split. exact Hd'. eapply rng_closer; eauto.
        -- (* a compressed instruction is not an uncompressed jal *)
           exfalso. rewrite EgB in A. destruct b1 as [|? [|? ?]]; cbn [app] in A; inversion A; subst.
           destruct (cbuilt_instr _ _ _ Bx) as (l0 & c1 & f1 & n1 & E0). inversion E0; subst. destruct Hn as [a Ea]. cbn [snd] in Ea. discriminate.
        -- (* the near jal of a call that the uncompressed run made far: the decision, then the pass only shrinks *)
           rewrite EgB in A. destruct b1 as [|? [|? ?]]; cbn [app] in A; inversion A; subst. rewrite app_nil_r.
           assert (L = L').
           { destruct Hn as [a Ea]. destruct Cp as (a0 & b0 & b0' & En & _). cbn [snd] in Ea. rewrite En in Ea. inversion Ea. reflexivity. }
           subst L'. rewrite EgB in GremB. cbn [app] in GremB.
           destruct (dist_shrink L preB ((l, it') :: remB) preB ((l, near) :: oB1) dB (gsh_refl _ NpB) GremB HdB) as (d' & Hd' & Hcl).
           exists d'. split. exact Hd'. eapply rng_closer; eauto.
Qed.
End Calls.
