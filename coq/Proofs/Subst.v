(* C11: writing the VALUE of a constant instead of its name in an integer expression (immediates, li operands, data values,
   the arguments of %hi / %lo / %position) does not change the result of the pipeline: same chunks, labels, constants, same
   error.  [cs] is the table of constants the run computes (resolve_constants runs first, over the whole program). *)
From Coq Require Import ZArith List Bool Lia String.
From BB Require Import Base.PyBase Gen.Encoders Gen.Criteria Model.Items Model.Encode Model.Passes Proofs.Layout Proofs.LayoutInst Proofs.Pipeline.
Import ListNotations.
Open Scope Z_scope.

Section Subst.
Variable cs : envt.

Inductive asub : aexp -> aexp -> Prop :=
| as_refl a : asub a a
| as_name c v : assoc_str c cs = Some v -> asub (AName c) (ANum v)
| as_bin o a a' b b' : asub a a' -> asub b b' -> asub (ABin o a b) (ABin o a' b')
| as_un o a a' : asub a a' -> asub (AUn o a) (AUn o a').
Inductive esub : expr -> expr -> Prop :=
| es_refl e : esub e e
| es_arith a a' : asub a a' -> esub (EArith a) (EArith a')
| es_pos r e e' : esub e e' -> esub (EPos r e) (EPos r e')
| es_hi e e' : esub e e' -> esub (EHi e) (EHi e')
| es_lo e e' : esub e e' -> esub (ELo e) (ELo e').

(* an environment in which the constants are seen first: ChainMap(constants, ...) or the constants alone *)
Definition sees (get : string -> option Z) : Prop := forall c v, assoc_str c cs = Some v -> get c = Some v.
Lemma sees_chain labels : sees (chain_get cs labels).
Proof. intros c v H. unfold chain_get. rewrite H. reflexivity. Qed.
Lemma sees_consts : sees (fun k => assoc_str k cs).
Proof. intros c v H. exact H. Qed.

Lemma asub_aeval get a a' : sees get -> asub a a' -> aeval get a = aeval get a'.
Proof.
  intros Hs H. induction H as [a|c0 v0 Hc|o a a' b b' _ IHa _ IHb|o a a' _ IH]; simpl; auto.
  - rewrite IHa, IHb. reflexivity.
  - rewrite IH. reflexivity.
Qed.
Lemma esub_eeval hi lo l pos has get e e' : sees get -> esub e e' -> eeval hi lo l pos has get e = eeval hi lo l pos has get e'.
Proof.
  intros Hs H. induction H as [e|a a' Ha|r e e' _ IH|e e' _ IH|e e' _ IH]; simpl; auto.
  - rewrite (asub_aeval get a a' Hs Ha). reflexivity.
  - rewrite IH. reflexivity.
  - rewrite IH. reflexivity.
  - rewrite IH. reflexivity.
Qed.
Lemma esub_relative e e' : esub e e' -> is_position_relative e = is_position_relative e'.
Proof. induction 1; simpl; auto. Qed.
Lemma esub_off e e' r : esub e e' -> (e = EOff r <-> e' = EOff r).
Proof. intro H. inversion H; subst; split; intro Q; try discriminate; auto. Qed.

(* ---- items ------------------------------------------------------------------------------------------------------------------ *)
Inductive fsub : fval -> fval -> Prop :=
| fs_same v : fsub v v
| fs_expr e e' : esub e e' -> fsub (FExpr e) (FExpr e').
Definition fields_sub (a b : list (string * fval)) : Prop := Forall2 (fun x y => fst x = fst y /\ fsub (snd x) (snd y)) a b.
Inductive psub : pres expr -> pres expr -> Prop :=
| ps_same p : psub p p
| ps_ok e e' : esub e e' -> psub (POk e) (POk e').
Inductive isub : item -> item -> Prop :=
| is_same it : isub it it
| is_instr cls name fs fs' c : fields_sub fs fs' -> isub (IInstr cls name fs c) (IInstr cls name fs' c)
| is_pseudo name args p p' : psub p p' -> isub (IPseudo name args p) (IPseudo name args p')
| is_pack f v v' : fsub v v' -> isub (IPack f v) (IPack f v')
| is_short n v v' : fsub v v' -> isub (IShort n v) (IShort n v').
Definition lsub (x y : litem) : Prop := fst x = fst y /\ isub (snd x) (snd y).
Definition lssub : list litem -> list litem -> Prop := Forall2 lsub.

Lemma fields_sub_refl fs : fields_sub fs fs.
Proof. induction fs; constructor; auto. split; auto. constructor. Qed.
Lemma lssub_refl l : lssub l l.
Proof. induction l as [|[a b] l IH]; constructor; auto. split; auto. constructor. Qed.
Lemma isub_size it it' : isub it it' -> size it = size it'.
Proof. induction 1; reflexivity. Qed.
Lemma isub_size_o it it' : isub it it' -> size_o it = size_o it'.
Proof. intro H. unfold size_o. rewrite (isub_size _ _ H). reflexivity. Qed.
Lemma isub_label it it' : isub it it' -> is_label it = is_label it'.
Proof. induction 1; reflexivity. Qed.

Lemma field_get_sub k fs fs' : fields_sub fs fs' ->
  match field_get k fs, field_get k fs' with
  | Some v, Some v' => fsub v v'
  | None, None => True
  | _, _ => False
  end.
Proof.
  unfold field_get. induction 1 as [|[k1 v1] [k2 v2] a b [Hk Hv] _ IH]; simpl; auto.
  simpl in Hk, Hv. subst k2. destruct (String.eqb k k1); auto.
Qed.
Lemma field_set_sub k v fs fs' : fields_sub fs fs' -> fields_sub (field_set k v fs) (field_set k v fs').
Proof.
  induction 1 as [|[k1 v1] [k2 v2] a b [Hk Hv] H IH]; simpl. constructor.
  simpl in Hk, Hv. subst k2. destruct (String.eqb k1 k).
  - constructor; auto. split; auto. constructor.
  - constructor; auto.
Qed.
Lemma sizes_sub rs rs' : Forall2 isub rs rs' -> sizes rs = sizes rs'.
Proof. induction 1 as [|x y a b H _ IH]; simpl; auto. rewrite (isub_size_o _ _ H), IH. reflexivity. Qed.

(* ---- outcomes related: same failure, or both done with related results ---------------------------------------------- *)
Definition orel {A} (R : A -> A -> Prop) (a b : outcome A) : Prop :=
  match a, b with
  | Done x, Done y => R x y
  | Fail e, Fail e' => e = e'
  | Unsupported, Unsupported => True
  | _, _ => False
  end.
Lemma orel_bind {A B} (R : A -> A -> Prop) (S : B -> B -> Prop) a a' (k k' : A -> outcome B) :
  orel R a a' -> (forall x y, R x y -> orel S (k x) (k' y)) -> orel S (obind a k) (obind a' k').
Proof. destruct a, a'; simpl; intros H Hk; try contradiction; auto. Qed.
Lemma orel_eq {A} (a : outcome A) : orel eq a a.
Proof. destruct a; simpl; auto. Qed.
Lemma orel_of_eq {A} (R : A -> A -> Prop) (a b : outcome A) : (forall x, R x x) -> a = b -> orel R a b.
Proof. intros Hr ->. destruct b; simpl; auto. Qed.

(* ---- the generic pass ---------------------------------------------------------------------------------------------------------- *)
Definition rule_sub (rule : rule_t) : Prop :=
  forall l it it' pos ls, isub it it' -> orel (Forall2 isub) (rule l it pos ls) (rule l it' pos ls).

Lemma map_pair_sub l rs rs' : Forall2 isub rs rs' -> lssub (map (fun x => (l, x)) rs) (map (fun x => (l, x)) rs').
Proof. induction 1; simpl; constructor; auto. split; auto. Qed.

Lemma gp_sub rule (Hr : rule_sub rule) its its' : lssub its its' -> forall pos ls,
  orel (fun p q => lssub (fst p) (fst q) /\ snd p = snd q) (gp rule its pos ls) (gp rule its' pos ls).
Proof.
  induction 1 as [|[l it] [l' it'] r r' [Hl Hi] Hrr IH]; intros pos ls; simpl. split; [constructor|reflexivity].
  simpl in Hl, Hi. subst l'. rewrite <- (isub_label _ _ Hi). destruct (is_label it) as [n|].
  - specialize (IH pos ls). destruct (gp rule r pos ls) as [[o ls1]|e|], (gp rule r' pos ls) as [[o' ls1']|e'|]; simpl in *; try contradiction; auto.
    destruct IH as [A B]. split; auto. constructor; auto. split; auto. constructor.
  - rewrite <- (isub_size_o _ _ Hi). destruct (size_o it) as [old|e|]; simpl; auto.
    pose proof (Hr l it it' pos ls Hi) as Hrule.
    destruct (rule l it pos ls) as [rs|e|], (rule l it' pos ls) as [rs'|e'|]; simpl in *; try contradiction; auto.
    rewrite <- (sizes_sub _ _ Hrule). destruct (sizes rs) as [new|e|]; simpl; auto.
    specialize (IH (pos + new) (if old - new >? 0 then shrink_after pos (old - new) ls else ls)).
    destruct (gp rule r _ _) as [[o ls1]|e|], (gp rule r' _ _) as [[o' ls1']|e'|]; simpl in *; try contradiction; auto.
    destruct IH as [A B]. split; auto. apply Forall2_app; auto. apply map_pair_sub; auto.
Qed.
Lemma gpass_sub rule (Hr : rule_sub rule) its its' ls : lssub its its' ->
  orel (fun p q => lssub (fst p) (fst q) /\ snd p = snd q) (gpass rule its 0 ls []) (gpass rule its' 0 ls []).
Proof.
  intro H. rewrite !gpass_gp. pose proof (gp_sub rule Hr its its' H 0 ls) as G.
  destruct (gp rule its 0 ls) as [[o l1]|e|], (gp rule its' 0 ls) as [[o' l1']|e'|]; simpl in *; auto.
Qed.

(* ---- the three rules ---------------------------------------------------------------------------------------------------------- *)
Lemma pred_sem_ext p v v' :
  iv_name v = iv_name v' -> (forall f, iv_attr v f = iv_attr v' f) -> iv_imm v = iv_imm v' -> pred_sem p v = pred_sem p v'.
Proof. intros A B C. destruct p; simpl; rewrite ?A, ?B, ?C; reflexivity. Qed.
Lemma all_preds_ext ps v v' :
  iv_name v = iv_name v' -> (forall f, iv_attr v f = iv_attr v' f) -> iv_imm v = iv_imm v' -> all_preds ps v = all_preds ps v'.
Proof.
  intros A B C. induction ps as [|p ps IH]; simpl; auto. rewrite (pred_sem_ext p v v' A B C).
  destruct (pred_sem p v') as [b|e]; simpl; auto. destruct b; auto.
Qed.
Lemma select_rule_ext cr v v' :
  iv_name v = iv_name v' -> (forall f, iv_attr v f = iv_attr v' f) -> iv_imm v = iv_imm v' -> select_rule cr v = select_rule cr v'.
Proof.
  intros A B C. induction cr as [|[n ps] cr IH]; simpl; auto. rewrite (all_preds_ext ps v v' A B C).
  destruct (all_preds ps v') as [b|e]; simpl; auto. destruct b; auto.
Qed.

Lemma fsub_reg v v' a : fsub v v' -> v = FReg a -> v' = FReg a.
Proof. intros H E. inversion H; subst; auto. discriminate. Qed.
Lemma field_get_reg k fs fs' : fields_sub fs fs' ->
  match field_get k fs with Some (FReg a) => Ok a | Some _ => Err TypeError | None => Err AttributeError end =
  match field_get k fs' with Some (FReg a) => Ok a | Some _ => Err TypeError | None => Err AttributeError end.
Proof.
  intro H. pose proof (field_get_sub k fs fs' H) as G.
  destruct (field_get k fs) as [v|], (field_get k fs') as [v'|]; try contradiction; auto.
  inversion G; subst; auto.
Qed.
Lemma imm_eval_sub l pos labels fs fs' : fields_sub fs fs' ->
  iv_imm (view_of l pos cs labels "x" fs) = iv_imm (view_of l pos cs labels "x" fs').
Proof.
  intro H. unfold view_of. cbn [iv_imm]. pose proof (field_get_sub "imm" fs fs' H) as G.
  destruct (field_get "imm" fs) as [v|], (field_get "imm" fs') as [v'|]; try contradiction; auto.
  inversion G; subst; auto. rewrite (esub_eeval _ _ l (Some pos) _ _ e e' (sees_chain labels) H0). reflexivity.
Qed.
Lemma imm_unstable_sub l pos cls fs fs' : fields_sub fs fs' -> imm_unstable l pos cs cls fs = imm_unstable l pos cs cls fs'.
Proof.
  intro H. unfold imm_unstable. pose proof (field_get_sub "imm" fs fs' H) as G.
  destruct (field_get "imm" fs) as [v|], (field_get "imm" fs') as [v'|]; try contradiction; auto.
  inversion G as [|e e' He]; subst; auto. cbv zeta.
  assert (Ej : match e with EOff r => negb (in_consts cs r) | _ => false end = match e' with EOff r => negb (in_consts cs r) | _ => false end).
  { inversion He; subst; auto. }
  rewrite Ej. destruct (_ && _); auto.
  unfold is_settled. rewrite (esub_relative e e' He). destruct (is_position_relative e'); auto.
  unfold eval_consts. rewrite (esub_eeval _ _ l (Some pos) _ _ e e' sees_consts He). reflexivity.
Qed.

Lemma build_field_sub fs fs' c : fields_sub fs fs' ->
  match build_field fs c, build_field fs' c with
  | Some v, Some v' => fsub v v'
  | None, None => True
  | _, _ => False
  end.
Proof.
  intro H. destruct c as [a|a|a]; simpl.
  - apply field_get_sub; auto.
  - pose proof (field_get_sub a fs fs' H) as G.
    destruct (field_get a fs) as [v|], (field_get a fs') as [v'|]; try contradiction; auto.
    inversion G; subst.
    + destruct v' as [[z|s]| | |]; auto; try constructor.
      pose proof (field_get_sub (String.append "#" a) fs fs' H) as G2.
      destruct (field_get _ fs) as [w|], (field_get _ fs') as [w'|]; try contradiction; auto.
    + exact I.
  - pose proof (field_get_sub a fs fs' H) as G.
    destruct (field_get a fs) as [v|], (field_get a fs') as [v'|]; try contradiction; auto.
    inversion G; subst.
    + destruct v' as [r| | |]; auto. destruct (lookup_register r false); auto. constructor.
    + exact I.
Qed.
Lemma zip_fields_sub names : forall vs vs',
  Forall2 (fun a b => match a, b with Some v, Some v' => fsub v v' | None, None => True | _, _ => False end) vs vs' ->
  match zip_fields names vs, zip_fields names vs' with
  | Some f, Some f' => fields_sub f f'
  | None, None => True
  | _, _ => False
  end.
Proof.
  induction names as [|n ns IH]; intros vs vs' H; inversion H as [|a b l l' Hab Hl]; subst; cbn [zip_fields].
  - constructor.
  - exact I.
  - exact I.
  - destruct a as [v|], b as [v'|]; try contradiction; try exact I.
    specialize (IH l l' Hl). destruct (zip_fields ns l) as [f|], (zip_fields ns l') as [f'|]; try contradiction; try exact I.
    constructor; auto.
Qed.
Lemma name_pat {A} (X : list string -> option A) h fn :
  match (h :: fn)%list with ("name" :: f)%string => X f | _ => None end = if String.eqb h "name" then X fn else None.
Proof.
  destruct (String.eqb h "name") eqn:E.
  - apply String.eqb_eq in E. subst h. reflexivity.
  - repeat match goal with
           | |- match ?x with _ => _ end = None => destruct x; try reflexivity
           end.
    simpl in E. discriminate E.
Qed.
Lemma build_compressed_sub rule fs fs' : fields_sub fs fs' ->
  match build_compressed rule fs, build_compressed rule fs' with
  | Some a, Some b => isub a b
  | None, None => True
  | _, _ => False
  end.
Proof.
  intro H. unfold build_compressed. destruct (assoc_str rule construction) as [[[final cls] cfs]|]; auto.
  destruct (assoc_str cls class_fields) as [[|h fn]|]; auto.
  assert (Z : match zip_fields fn (map (build_field fs) cfs), zip_fields fn (map (build_field fs') cfs) with
              | Some f, Some f' => fields_sub f f' | None, None => True | _, _ => False end).
  { apply zip_fields_sub. induction cfs as [|c cfs IHc]; simpl; constructor; auto. apply build_field_sub; auto. }
  rewrite (name_pat (fun fnames => match zip_fields fnames (map (build_field fs) cfs) with
                                   | Some nfs => Some (IInstr cls final nfs true) | None => None end) h fn).
  rewrite (name_pat (fun fnames => match zip_fields fnames (map (build_field fs') cfs) with
                                   | Some nfs => Some (IInstr cls final nfs true) | None => None end) h fn).
  destruct (String.eqb h "name"); auto.
  destruct (zip_fields fn (map (build_field fs) cfs)) as [f|], (zip_fields fn (map (build_field fs') cfs)) as [f'|]; try contradiction; auto.
  constructor. exact Z.
Qed.

Lemma same_rule (rule : rule_t) l it it' pos ls : isub it it' -> rule l it pos ls = Done [it] -> rule l it' pos ls = Done [it'] ->
  orel (Forall2 isub) (rule l it pos ls) (rule l it' pos ls).
Proof. intros H A B. rewrite A, B. simpl. constructor; [exact H|constructor]. Qed.
Lemma F2_isub_refl x : Forall2 isub x x.
Proof. induction x; constructor; auto. constructor. Qed.

Lemma compress_rule_sub : rule_sub (compress_rule cs).
Proof.
  intros l it it' pos ls H. inversion H as [x|cls name fs fs' c Hf|n a p p' Hp|fm v v' Hv|n v v' Hv]; subst.
  - apply orel_of_eq; [apply F2_isub_refl|reflexivity].
  - cbv beta iota delta [compress_rule]. rewrite <- (imm_unstable_sub l pos cls fs fs' Hf).
    destruct (imm_unstable l pos cs cls fs) as [u|e|]; cbn [obind orel]; auto.
    destruct u. { cbn [orel]. constructor; [exact H|constructor]. }
    assert (Ev : select_rule criteria (view_of l pos cs ls name fs) = select_rule criteria (view_of l pos cs ls name fs')).
    { apply select_rule_ext. reflexivity.
      - intro f0. unfold view_of. cbn [iv_attr]. apply field_get_reg; auto.
      - apply (imm_eval_sub l pos ls fs fs' Hf). }
    rewrite <- Ev. destruct (select_rule criteria (view_of l pos cs ls name fs)) as [[rule|]|e]; cbn [orel]; auto;
      try (constructor; [exact H|constructor]).
    pose proof (build_compressed_sub rule fs fs' Hf) as B.
    destruct (build_compressed rule fs) as [a|], (build_compressed rule fs') as [b|]; try contradiction; cbn [orel]; auto.
  - apply same_rule; auto.
  - apply same_rule; auto.
  - apply same_rule; auto.
Qed.


Inductive pxsub : pexp -> pexp -> Prop :=
| px_same x : pxsub x x
| px_choice e e' t lo hi a a' b b' c c' : esub e e' -> isub a a' -> isub b b' -> isub c c' ->
    pxsub (Choice e t lo hi a b c) (Choice e' t lo hi a' b' c').
Lemma mkI_sub n a b e e' x : esub e e' -> isub (mkI n a b e x) (mkI n a b e' x).
Proof.
  intro H. unfold mkI. constructor. repeat (constructor; [split; [reflexivity|try constructor]|]); try constructor; auto.
Qed.
Lemma mkU_sub n a e e' : esub e e' -> isub (mkU n a e) (mkU n a e').
Proof. intro H. unfold mkU. constructor. repeat (constructor; [split; [reflexivity|try constructor]|]); try constructor; auto. Qed.

Lemma expand_pseudo_sub l name args p p' : psub p p' ->
  orel pxsub (expand_pseudo l name args p) (expand_pseudo l name args p').
Proof.
  intro H. inversion H as [x|e e' He]; subst. { apply orel_of_eq; [intro; constructor|reflexivity]. }
  unfold expand_pseudo.
  repeat match goal with
         | |- context[if String.eqb name ?s then _ else _] => destruct (String.eqb name s)
         end;
  try (apply orel_of_eq; [intro; constructor|reflexivity]).
  destruct args as [|rd rest]; [apply orel_of_eq; [intro; constructor|reflexivity]|].
  cbn [of_pres obind orel]. constructor; auto.
  - apply mkI_sub. constructor; auto.
  - apply mkU_sub. constructor; auto.
  - apply mkI_sub. constructor; auto.
Qed.

Lemma pseudo_rule_sub : rule_sub (pseudo_rule cs).
Proof.
  intros l it it' pos ls H. inversion H as [x|cls name fs fs' c Hf|n a p p' Hp|fm v v' Hv|n v v' Hv]; subst.
  - apply orel_of_eq; [apply F2_isub_refl|reflexivity].
  - apply same_rule; auto.
  - cbv beta iota delta [pseudo_rule].
    pose proof (expand_pseudo_sub l n a p p' Hp) as E.
    destruct (expand_pseudo l n a p) as [px|e|], (expand_pseudo l n a p') as [px'|e'|]; cbn [orel obind] in *; try contradiction; auto.
    inversion E as [x|e e' t lo hi n1 n1' f1 f1' f2 f2' He Hn H1 H2]; subst. { apply orel_of_eq; [apply F2_isub_refl|reflexivity]. }
    rewrite <- (esub_eeval _ _ l (Some pos) _ _ e e' (sees_chain ls) He).
    destruct (of_pres _) as [v|err|]; cbn [obind orel]; auto.
    assert (Es : match t with None => is_settled l pos cs e | Some r => Done (negb (in_consts cs r)) end =
                 match t with None => is_settled l pos cs e' | Some r => Done (negb (in_consts cs r)) end).
    { destruct t; auto. unfold is_settled. rewrite (esub_relative e e' He). destruct (is_position_relative e'); auto.
      unfold eval_consts. rewrite (esub_eeval _ _ l (Some pos) _ _ e e' sees_consts He). reflexivity. }
    rewrite <- Es. destruct (match t with None => _ | Some _ => _ end) as [st|err|]; cbn [obind orel]; auto.
    cbv zeta. destruct (st && _ && _); cbn [orel]; repeat constructor; auto.
  - apply same_rule; auto.
  - apply same_rule; auto.
Qed.

Lemma align_rule_sub : rule_sub align_rule.
Proof.
  intros l it it' pos ls H. inversion H; subst; try (apply same_rule; auto; fail).
  apply orel_of_eq; [apply F2_isub_refl|reflexivity].
Qed.

(* ---- the other passes ------------------------------------------------------------------------------------------------------------ *)
Lemma orel_eq_inv {A} (a b : outcome A) : orel eq a b -> a = b.
Proof. destruct a, b; simpl; intro H; try contradiction; congruence. Qed.
Lemma lssub_rev a b : lssub a b -> lssub (rev a) (rev b).
Proof. induction 1; simpl. constructor. apply Forall2_app; auto. Qed.

Definition prel (p q : list litem * envt) : Prop := lssub (fst p) (fst q) /\ snd p = snd q.

Lemma constants_sub its its' : lssub its its' -> forall consts acc acc', lssub acc acc' ->
  orel prel (resolve_constants_lr its consts acc) (resolve_constants_lr its' consts acc').
Proof.
  induction 1 as [|[l it] [l' it'] r r' [Hl Hi] Hr IH]; intros consts acc acc' Ha.
  - simpl. split; [apply lssub_rev; auto|reflexivity].
  - simpl in Hl, Hi. subst l'.
    inversion Hi as [x|cls name fs fs' c Hf|n a p p' Hp|fm v v' Hv|n v v' Hv]; subst;
      try (cbn [resolve_constants_lr]; apply IH; constructor; [split; [reflexivity|exact Hi]|exact Ha]).
    destruct it'; cbn [resolve_constants_lr];
      try (apply IH; constructor; [split; [reflexivity|constructor]|exact Ha]).
    destruct e; try (cbn [orel]; reflexivity);
      (destruct (mem_str name reg_names); [cbn [orel]; reflexivity|]; destruct (is_int name); [cbn [orel]; reflexivity|];
       match goal with |- context[of_pres ?x] => destruct (of_pres x) as [v|err|] end; cbn [obind orel]; auto).
Qed.

Lemma labels_sub its its' : lssub its its' -> forall pos ls d,
  resolve_labels_from its pos ls d = resolve_labels_from its' pos ls d.
Proof.
  induction 1 as [|[l it] [l' it'] r r' [Hl Hi] Hr IH]; intros pos ls d. reflexivity.
  simpl in Hl, Hi. subst l'. rewrite !rlf_step. rewrite <- (isub_label _ _ Hi), <- (isub_size_o _ _ Hi).
  destruct (is_label it) as [n|].
  - destruct (mem_str n d); auto.
  - destruct (size_o it) as [k|e|]; cbn [obind]; auto.
Qed.

Lemma alias_fields_sub consts fs fs' : fields_sub fs fs' -> fields_sub (map (alias_field consts) fs) (map (alias_field consts) fs').
Proof.
  induction 1 as [|[k v] [k' v'] a b [Hk Hv] _ IH]; simpl. constructor.
  simpl in Hk, Hv. subst k'. constructor; auto.
  inversion Hv; subst.
  - split; [reflexivity|]. constructor.
  - simpl. split; [reflexivity|]. constructor; auto.
Qed.
Lemma aliases_sub its its' consts : lssub its its' -> lssub (resolve_register_aliases its consts) (resolve_register_aliases its' consts).
Proof.
  unfold resolve_register_aliases. induction 1 as [|[l it] [l' it'] r r' [Hl Hi] _ IH]; simpl; constructor; auto.
  simpl in Hl, Hi. subst l'.
  inversion Hi as [x|cls name fs fs' c Hf|n a p p' Hp|fm v v' Hv|n v v' Hv]; subst; split; try reflexivity; cbn [snd].
  - constructor.
  - constructor. apply alias_fields_sub; auto.
  - exact Hi.
  - exact Hi.
  - exact Hi.
Qed.

Lemma imm_of_sub l pos labels v v' : fsub v v' -> imm_of l pos cs labels v = imm_of l pos cs labels v'.
Proof.
  intro H. inversion H; subst; auto. unfold imm_of, eval_here.
  rewrite (esub_eeval _ _ l (Some pos) _ _ e e' (sees_chain labels) H0). reflexivity.
Qed.

Lemma immediates_sub its its' : lssub its its' -> forall pos labels acc acc', lssub acc acc' ->
  orel lssub (resolve_immediates its pos cs labels acc) (resolve_immediates its' pos cs labels acc').
Proof.
  induction 1 as [|[l it] [l' it'] r r' [Hl Hi] Hr IH]; intros pos labels acc acc' Ha.
  - simpl. apply lssub_rev; auto.
  - simpl in Hl, Hi. subst l'.
    inversion Hi as [x Hx1 Hx2|cls name fs fs' c Hf|n a p p' Hp|fm v v' Hv|n v v' Hv]; subst.
    + destruct it' as [n0|n0 e0|cls name fields compressed|n0 a0 p0|n0|bs|n0 vs|fmt imm|name imm|path size0 actual|d0|n0|b0 n0];
        cbn [resolve_immediates];
        try (match goal with |- context[size_o ?i] => destruct (size_o i) as [k|e|]; cbn [obind orel]; auto end;
             apply IH; constructor; [split; [reflexivity|constructor]|exact Ha]).
      * destruct (field_get "imm" fields) as [v|].
        -- destruct (imm_of l _ cs labels v) as [imm|e|]; cbn [obind orel]; auto.
           apply IH; constructor; [split; [reflexivity|constructor]|exact Ha].
        -- apply IH; constructor; [split; [reflexivity|constructor]|exact Ha].
      * destruct (imm_of l pos cs labels imm) as [v|e|]; cbn [obind orel]; auto.
        destruct (size_o (IPack fmt imm)) as [k|e|]; cbn [obind orel]; auto.
        apply IH; constructor; [split; [reflexivity|constructor]|exact Ha].
      * destruct (imm_of l pos cs labels imm) as [v|e|]; cbn [obind orel]; auto.
        destruct (size_o (IShort name imm)) as [k|e|]; cbn [obind orel]; auto.
        apply IH; constructor; [split; [reflexivity|constructor]|exact Ha].
    + cbn [resolve_immediates]. pose proof (field_get_sub "imm" fs fs' Hf) as G.
      pose proof (field_get_sub "is_auipc_jump" fs fs' Hf) as G2.
      assert (Eb : match field_get "is_auipc_jump" fs with Some (FBool true) => 4 | _ => 0 end =
                   match field_get "is_auipc_jump" fs' with Some (FBool true) => 4 | _ => 0 end).
      { destruct (field_get "is_auipc_jump" fs) as [w|], (field_get "is_auipc_jump" fs') as [w'|]; try contradiction; auto.
        inversion G2; subst; auto. }
      destruct (field_get "imm" fs) as [v|], (field_get "imm" fs') as [v'|]; try contradiction.
      * rewrite <- Eb, <- (imm_of_sub l _ labels v v' G).
        destruct (imm_of l _ cs labels v) as [imm|e|]; cbn [obind orel]; auto.
        apply IH; constructor; [split; [reflexivity|constructor; apply field_set_sub; auto]|exact Ha].
      * apply IH; constructor; [split; [reflexivity|constructor; auto]|exact Ha].
    + cbn [resolve_immediates]. change (size_o (IPseudo n a p')) with (size_o (IPseudo n a p)).
      destruct (size_o (IPseudo n a p)) as [k|e|]; cbn [obind orel]; auto.
      apply IH; constructor; [split; [reflexivity|exact Hi]|exact Ha].
    + cbn [resolve_immediates]. rewrite <- (imm_of_sub l pos labels v v' Hv).
      destruct (imm_of l pos cs labels v) as [z|e|]; cbn [obind orel]; auto.
      change (size_o (IPack fm v')) with (size_o (IPack fm v)).
      destruct (size_o (IPack fm v)) as [k|e|]; cbn [obind orel]; auto.
      apply IH; constructor; [split; [reflexivity|constructor]|exact Ha].
    + cbn [resolve_immediates]. rewrite <- (imm_of_sub l pos labels v v' Hv).
      destruct (imm_of l pos cs labels v) as [z|e|]; cbn [obind orel]; auto.
      change (size_o (IShort n v')) with (size_o (IShort n v)).
      destruct (size_o (IShort n v)) as [k|e|]; cbn [obind orel]; auto.
      apply IH; constructor; [split; [reflexivity|constructor]|exact Ha].
Qed.

Lemma args_of_sub fs fs' : fields_sub fs fs' -> args_of fs = args_of fs'.
Proof.
  induction 1 as [|[k v] [k' v'] a b [Hk Hv] _ IH]; simpl; auto.
  simpl in Hk, Hv. subst k'. rewrite IH. inversion Hv; subst; reflexivity.
Qed.
Lemma encode_item_sub l cls name fs fs' c : fields_sub fs fs' -> encode_item l cls name fs c = encode_item l cls name fs' c.
Proof. intro H. unfold encode_item. rewrite (args_of_sub fs fs' H). reflexivity. Qed.

(* a generic step lemma for the accumulator passes that treat related heads alike *)
Ltac same_head IH Hi Ha := apply IH; constructor; [split; [reflexivity|first [exact Hi | constructor]]|exact Ha].

Lemma instructions_sub its its' : lssub its its' -> forall acc acc', lssub acc acc' ->
  orel lssub (resolve_instructions its acc) (resolve_instructions its' acc').
Proof.
  induction 1 as [|[l it] [l' it'] r r' [Hl Hi] Hr IH]; intros acc acc' Ha.
  - simpl. apply lssub_rev; auto.
  - simpl in Hl, Hi. subst l'.
    inversion Hi as [x Hx1 Hx2|cls name fs fs' c Hf|n a p p' Hp|fm v v' Hv|n v v' Hv]; subst.
    + destruct it' as [n0|n0 e0|cls name fields compressed|n0 a0 p0|n0|bs|n0 vs|fmt imm|name imm|path size0 actual|d0|n0|b0 n0];
        cbn [resolve_instructions]; try (same_head IH Hi Ha).
      destruct (encode_item l cls name fields compressed) as [bs|e|]; cbn [obind orel]; auto. same_head IH Hi Ha.
    + cbn [resolve_instructions]. rewrite <- (encode_item_sub l cls name fs fs' c Hf).
      destruct (encode_item l cls name fs c) as [bs|e|]; cbn [obind orel]; auto. same_head IH Hi Ha.
    + cbn [resolve_instructions]. same_head IH Hi Ha.
    + cbn [resolve_instructions]. same_head IH Hi Ha.
    + cbn [resolve_instructions]. same_head IH Hi Ha.
Qed.

Lemma strings_sub its its' : lssub its its' -> lssub (resolve_strings its) (resolve_strings its').
Proof.
  unfold resolve_strings. induction 1 as [|[l it] [l' it'] r r' [Hl Hi] _ IH]; simpl; constructor; auto.
  simpl in Hl, Hi. subst l'. inversion Hi; subst; split; try reflexivity; cbn [snd]; try exact Hi. constructor.
Qed.

Lemma sequences_sub its its' : lssub its its' -> forall acc acc', lssub acc acc' ->
  orel lssub (resolve_sequences its acc) (resolve_sequences its' acc').
Proof.
  induction 1 as [|[l it] [l' it'] r r' [Hl Hi] Hr IH]; intros acc acc' Ha.
  - simpl. apply lssub_rev; auto.
  - simpl in Hl, Hi. subst l'.
    inversion Hi as [x Hx1 Hx2|cls name fs fs' c Hf|n a p p' Hp|fm v v' Hv|n v v' Hv]; subst;
      try (cbn [resolve_sequences]; same_head IH Hi Ha).
    destruct it' as [n0|n0 e0|cls name fields compressed|n0 a0 p0|n0|bs|n0 vs|fmt imm|name imm|path size0 actual|d0|n0|b0 n0];
      cbn [resolve_sequences]; try (same_head IH Hi Ha).
    destruct (negb (all_ints vs)); [cbn [orel]; reflexivity|].
    destruct (seq_fmt n0) as [f|]; [|cbn [orel]; reflexivity].
    destruct (seq_bytes l f vs) as [bs|e|]; cbn [obind orel]; auto. same_head IH Hi Ha.
Qed.

Lemma fsub_int v v' z : fsub v v' -> v = FInt z -> v' = FInt z.
Proof. intros H E. inversion H; subst; auto. discriminate. Qed.

Lemma shorthand_sub its its' : lssub its its' -> forall acc acc', lssub acc acc' ->
  orel lssub (transform_shorthand its acc) (transform_shorthand its' acc').
Proof.
  induction 1 as [|[l it] [l' it'] r r' [Hl Hi] Hr IH]; intros acc acc' Ha.
  - simpl. apply lssub_rev; auto.
  - simpl in Hl, Hi. subst l'.
    inversion Hi as [x Hx1 Hx2|cls name fs fs' c Hf|n a p p' Hp|fm v v' Hv|n v v' Hv]; subst;
      try (cbn [transform_shorthand]; same_head IH Hi Ha).
    + destruct it' as [n0|n0 e0|cls name fields compressed|n0 a0 p0|n0|bs|n0 vs|fmt imm|name imm|path size0 actual|d0|n0|b0 n0];
        cbn [transform_shorthand]; try (same_head IH Hi Ha).
      destruct imm; try (cbn [orel]; reflexivity). destruct (short_fmt name); [|cbn [orel]; reflexivity]. same_head IH Hi Ha.
    + inversion Hv; subst.
      * destruct v'; cbn [transform_shorthand]; try (cbn [orel]; reflexivity).
        destruct (short_fmt n); [|cbn [orel]; reflexivity]. same_head IH Hi Ha.
      * cbn [transform_shorthand orel]. reflexivity.
Qed.

Lemma packs_sub its its' : lssub its its' -> forall acc acc', lssub acc acc' ->
  orel lssub (resolve_packs its acc) (resolve_packs its' acc').
Proof.
  induction 1 as [|[l it] [l' it'] r r' [Hl Hi] Hr IH]; intros acc acc' Ha.
  - simpl. apply lssub_rev; auto.
  - simpl in Hl, Hi. subst l'.
    inversion Hi as [x Hx1 Hx2|cls name fs fs' c Hf|n a p p' Hp|fm v v' Hv|n v v' Hv]; subst;
      try (cbn [resolve_packs]; same_head IH Hi Ha).
    + destruct it' as [n0|n0 e0|cls name fields compressed|n0 a0 p0|n0|bs|n0 vs|fmt imm|name imm|path size0 actual|d0|n0|b0 n0];
        cbn [resolve_packs]; try (same_head IH Hi Ha).
      destruct imm; try (cbn [orel]; reflexivity). change conv_pack with true.
      destruct (struct_pack fmt z) as [[bs|e]|]; cbn [orel]; auto. same_head IH Hi Ha.
    + inversion Hv; subst.
      * destruct v'; cbn [resolve_packs]; try (cbn [orel]; reflexivity). change conv_pack with true.
        destruct (struct_pack fm z) as [[bs|e]|]; cbn [orel]; auto. same_head IH Hi Ha.
      * cbn [resolve_packs orel]. reflexivity.
Qed.

Lemma include_bytes_sub its its' : lssub its its' -> forall acc acc', lssub acc acc' ->
  orel lssub (resolve_include_bytes its acc) (resolve_include_bytes its' acc').
Proof.
  induction 1 as [|[l it] [l' it'] r r' [Hl Hi] Hr IH]; intros acc acc' Ha.
  - simpl. apply lssub_rev; auto.
  - simpl in Hl, Hi. subst l'.
    inversion Hi as [x Hx1 Hx2|cls name fs fs' c Hf|n a p p' Hp|fm v v' Hv|n v v' Hv]; subst;
      try (cbn [resolve_include_bytes]; same_head IH Hi Ha).
    destruct it' as [n0|n0 e0|cls name fields compressed|n0 a0 p0|n0|bs|n0 vs|fmt imm|name imm|path size0 actual|d0|n0|b0 n0];
      cbn [resolve_include_bytes]; try (same_head IH Hi Ha).
    destruct actual as [k|]; [|cbn [orel]; reflexivity]. destruct (k =? size0); [|cbn [orel]; reflexivity]. same_head IH Hi Ha.
Qed.

Lemma blobs_sub its its' : lssub its its' -> orel eq (resolve_blobs its) (resolve_blobs its').
Proof.
  induction 1 as [|[l it] [l' it'] r r' [Hl Hi] Hr IH]. simpl. reflexivity.
  simpl in Hl, Hi. subst l'.
  inversion Hi as [x Hx1 Hx2|cls name fs fs' c Hf|n a p p' Hp|fm v v' Hv|n v v' Hv]; subst;
    try (cbn [resolve_blobs orel]; reflexivity).
  destruct it' as [n0|n0 e0|cls name fields compressed|n0 a0 p0|n0|bs|n0 vs|fmt imm|name imm|path size0 actual|d0|n0|b0 n0];
    cbn [resolve_blobs]; try (cbn [orel]; reflexivity); try exact IH;
    destruct (resolve_blobs r) as [a|e|], (resolve_blobs r') as [b|e'|]; cbn [obind orel] in *; try contradiction; congruence.
Qed.
End Subst.

(* ---- THE THEOREM ---------------------------------------------------------------------------------------------------------------- *)
(* [its'] is [its] with values written for constant names in integer expressions, w.r.t. the constants the run computes *)
Theorem assemble_subst its its' c0 l0 cmp i1 cs :
  resolve_constants_lr its c0 [] = Done (i1, cs) -> lssub cs its its' ->
  assemble_items its' c0 l0 cmp = assemble_items its c0 l0 cmp.
Proof.
  intros Hc Hs. symmetry. apply orel_eq_inv. unfold assemble_items.
  pose proof (constants_sub cs its its' Hs c0 [] [] (Forall2_nil _)) as C. rewrite Hc in C. rewrite Hc.
  destruct (resolve_constants_lr its' c0 []) as [[i1' cs']|e|]; cbn [orel] in C; try contradiction.
  destruct C as [L1 E1]. simpl in L1, E1. subst cs'. cbn [obind].
  unfold resolve_labels. rewrite <- (labels_sub cs i1 i1' L1 0 l0 []).
  destruct (resolve_labels_from i1 0 l0 []) as [labels|e|]; cbn [obind orel]; auto.
  pose proof (aliases_sub cs i1 i1' cs L1) as L2.
  set (a2 := resolve_register_aliases i1 cs) in *. set (a2' := resolve_register_aliases i1' cs) in *.
  assert (S3 : orel (prel cs) (if cmp then transform_compressible a2 cs labels else Done (a2, labels))
                              (if cmp then transform_compressible a2' cs labels else Done (a2', labels))).
  { destruct cmp. unfold transform_compressible. apply gpass_sub; auto. apply compress_rule_sub. split; auto. }
  destruct (if cmp then transform_compressible a2 cs labels else Done (a2, labels)) as [[i3 lab3]|e|],
           (if cmp then transform_compressible a2' cs labels else Done (a2', labels)) as [[i3' lab3']|e'|];
    cbn [orel obind] in *; try contradiction; auto.
  destruct S3 as [L3 E3]. simpl in L3, E3. subst lab3'.
  pose proof (gpass_sub cs (pseudo_rule cs) (pseudo_rule_sub cs) i3 i3' lab3 L3) as S4. unfold transform_pseudo.
  destruct (gpass (pseudo_rule cs) i3 0 lab3 []) as [[i4 lab4]|e|], (gpass (pseudo_rule cs) i3' 0 lab3 []) as [[i4' lab4']|e'|];
    cbn [orel obind] in *; try contradiction; auto.
  destruct S4 as [L4 E4]. simpl in L4, E4. subst lab4'.
  pose proof (aliases_sub cs i4 i4' cs L4) as L5.
  set (a5 := resolve_register_aliases i4 cs) in *. set (a5' := resolve_register_aliases i4' cs) in *.
  assert (S6 : orel (prel cs) (if cmp then transform_compressible a5 cs lab4 else Done (a5, lab4))
                              (if cmp then transform_compressible a5' cs lab4 else Done (a5', lab4))).
  { destruct cmp. unfold transform_compressible. apply gpass_sub; auto. apply compress_rule_sub. split; auto. }
  destruct (if cmp then transform_compressible a5 cs lab4 else Done (a5, lab4)) as [[i6 lab6]|e|],
           (if cmp then transform_compressible a5' cs lab4 else Done (a5', lab4)) as [[i6' lab6']|e'|];
    cbn [orel obind] in *; try contradiction; auto.
  destruct S6 as [L6 E6]. simpl in L6, E6. subst lab6'.
  pose proof (gpass_sub cs align_rule (align_rule_sub cs) i6 i6' lab6 L6) as S7. unfold resolve_aligns.
  destruct (gpass align_rule i6 0 lab6 []) as [[i7 lab7]|e|], (gpass align_rule i6' 0 lab6 []) as [[i7' lab7']|e'|];
    cbn [orel obind] in *; try contradiction; auto.
  destruct S7 as [L7 E7]. simpl in L7, E7. subst lab7'.
  pose proof (immediates_sub cs i7 i7' L7 0 lab7 [] [] (Forall2_nil _)) as S8.
  destruct (resolve_immediates i7 0 cs lab7 []) as [i8|e|], (resolve_immediates i7' 0 cs lab7 []) as [i8'|e'|];
    cbn [orel obind] in *; try contradiction; auto.
  pose proof (instructions_sub cs i8 i8' S8 [] [] (Forall2_nil _)) as S9.
  destruct (resolve_instructions i8 []) as [i9|e|], (resolve_instructions i8' []) as [i9'|e'|];
    cbn [orel obind] in *; try contradiction; auto.
  pose proof (strings_sub cs i9 i9' S9) as S10.
  pose proof (sequences_sub cs _ _ S10 [] [] (Forall2_nil _)) as S11.
  destruct (resolve_sequences (resolve_strings i9) []) as [i11|e|], (resolve_sequences (resolve_strings i9') []) as [i11'|e'|];
    cbn [orel obind] in *; try contradiction; auto.
  pose proof (shorthand_sub cs _ _ S11 [] [] (Forall2_nil _)) as S12.
  destruct (transform_shorthand i11 []) as [i12|e|], (transform_shorthand i11' []) as [i12'|e'|];
    cbn [orel obind] in *; try contradiction; auto.
  pose proof (packs_sub cs _ _ S12 [] [] (Forall2_nil _)) as S13.
  destruct (resolve_packs i12 []) as [i13|e|], (resolve_packs i12' []) as [i13'|e'|];
    cbn [orel obind] in *; try contradiction; auto.
  pose proof (include_bytes_sub cs _ _ S13 [] [] (Forall2_nil _)) as S14.
  destruct (resolve_include_bytes i13 []) as [i14|e|], (resolve_include_bytes i13' []) as [i14'|e'|];
    cbn [orel obind] in *; try contradiction; auto.
  pose proof (blobs_sub cs _ _ S14) as S15.
  destruct (resolve_blobs i14) as [ch|e|], (resolve_blobs i14') as [ch'|e'|]; cbn [orel obind] in *; try contradiction; auto.
  subst ch'. reflexivity.
Qed.

(* non-vacuity: K = 4 ; addi x8, x8, K * 2 ; dw K   vs   the same program with 4 written for K *)
Definition exs_line (n : Z) : line := {| lfile := "<string>"; lnum := n |}.
Definition exs_its (k : aexp) : list litem :=
  [(exs_line 1, IConst "K" (EArith (ANum 4)));
   (exs_line 2, IInstr "ITypeInstruction" "addi" [("rd", FReg (AStr "x8")); ("rs1", FReg (AStr "x8"));
                                                 ("imm", FExpr (EArith (ABin OMul k (ANum 2)))); ("is_auipc_jump", FBool false)] false);
   (exs_line 3, IShort "dw" (FExpr (EArith k)))]%string.
Lemma exs_consts : exists i1, resolve_constants_lr (exs_its (AName "K")) [] [] = Done (i1, [("K"%string, 4)]).
Proof. eexists. vm_compute. reflexivity. Qed.
Lemma exs_related : lssub [("K"%string, 4)] (exs_its (AName "K")) (exs_its (ANum 4)).
Proof.
  unfold exs_its. constructor; [split; [reflexivity|constructor]|].
  constructor; [split; [reflexivity|]|].
  { constructor. constructor; [split; [reflexivity|constructor]|]. constructor; [split; [reflexivity|constructor]|].
    constructor; [split; [reflexivity|]|].
    { constructor. constructor. constructor. constructor. reflexivity. constructor. }
    constructor; [split; [reflexivity|constructor]|constructor]. }
  constructor; [split; [reflexivity|]|constructor].
  constructor. constructor. constructor. constructor. reflexivity.
Qed.
