(* in-kernel legality sweep (Proofs/LegalSweepDef.v sweep_legal) of rows 2 .. 9 and 20 .. of the GENERATED criteria table *)
From Coq Require Import ZArith List Bool String.
From BB Require Import Base.PyBase Gen.Criteria Proofs.Rules Proofs.LegalSweepDef.
Import ListNotations.
Lemma legal_swept2 : forallb sweep_legal (firstn 8 (skipn 2 criteria) ++ skipn 20 criteria) = true.
Proof. vm_compute. reflexivity. Qed.
