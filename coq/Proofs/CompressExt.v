(* C04, program level, extended class: literal items (Proofs/CompressLit.v) PLUS pc-relative transfers to labels
   (beq .. bgeu / jal with %offset(L), the pseudo-instructions beqz .. bleu, j, jal), L not shadowed by a constant.
   The decision of the compression pass on a transfer depends on the estimated distance, so the two runs are related through
   `compress_rule` at SOME position / label table; the item theorem for transfers (Proofs/CompressTransfer.v) does not care. *)
From Coq Require Import ZArith List Bool Lia String.
From BB Require Import Base.PyBase Gen.Encoders Gen.Criteria Spec.RV32 Spec.RVC Model.Items Model.Encode Model.Passes
  Proofs.Layout Proofs.LayoutInst Proofs.Pipeline Proofs.Stable Proofs.Errors Proofs.Monotone Proofs.Rules Proofs.RulesMain
  Proofs.EncSig Proofs.NoRaw Proofs.CompressItem Proofs.CompressTail Proofs.CompressLit Proofs.CompressProgram Proofs.CompressTransfer.
Import ListNotations.
Open Scope string_scope.
Open Scope Z_scope.

(* ---- the class --------------------------------------------------------------------------------------------------------------------- *)
Definition tr_pseudos : list string := ["beqz"; "bnez"; "bgez"; "bltz"; "blez"; "bgtz"; "bgt"; "ble"; "bgtu"; "bleu"; "j"; "jal"].
(* a transfer instruction item: class B or J, immediate %offset(L) with L not a constant, not flagged as the second half of an
   auipc pair *)
Definition instr_tr (consts : envt) (it : item) : bool :=
  match it with
  | IInstr cls _ fs _ =>
      is_tr_cls cls && (back_of fs =? 0) &&
      match field_get "imm" fs with Some (FExpr (EOff L)) => negb (in_consts consts L) | _ => false end
  | _ => false
  end.
Definition item_ext (N : list string) (consts : envt) (it : item) : bool :=
  item_lit N it ||
  match it with
  | IInstr _ _ _ _ => instr_tr consts it
  | IPseudo name args _ =>
      mem_str name tr_pseudos && match rev args with ref :: _ => negb (in_consts consts ref) | [] => false end
  | _ => false
  end.

Lemma instr_tr_spec consts it : instr_tr consts it = true ->
  exists cls name fs c L, it = IInstr cls name fs c /\ is_tr_cls cls = true /\ back_of fs = 0 /\
                          field_get "imm" fs = Some (FExpr (EOff L)) /\ assoc_str L consts = None.
Proof.
  destruct it; try discriminate. cbn [instr_tr]. intro H. apply andb_prop in H. destruct H as [H H3].
  apply andb_prop in H. destruct H as [H1 H2]. apply Z.eqb_eq in H2.
  destruct (field_get "imm" fields) as [[a|[a|z|r e|L|e|e]|z|b]|] eqn:E; try discriminate.
  apply negb_true_iff in H3. unfold in_consts in H3. destruct (assoc_str L consts) eqn:A; try discriminate.
  exists cls, name, fields, compressed, L. auto.
Qed.

Lemma field_get_alias consts k : forall fs,
  field_get k (map (alias_field consts) fs) = option_map (fun v => snd (alias_field consts (k, v))) (field_get k fs).
Proof.
  unfold field_get. induction fs as [|[k0 v] r IH]; [reflexivity|]. cbn [map].
  assert (E : fst (alias_field consts (k0, v)) = k0).
  { unfold alias_field. destruct v as [[z|s]| | |]; auto. destruct (mem_str k0 REGS); auto. destruct (assoc_str s consts); auto. }
  destruct (alias_field consts (k0, v)) as [k1 v1] eqn:Ea. cbn [fst] in E. subst k1. cbn [assoc_str].
  destruct (String.eqb k k0) eqn:Ek; [|exact IH].
  apply String.eqb_eq in Ek. subst k0. cbn [option_map]. rewrite Ea. reflexivity.
Qed.
Lemma instr_tr_alias consts it : instr_tr consts (alias1 consts it) = instr_tr consts it.
Proof.
  destruct it; try reflexivity. cbn [alias1 instr_tr]. unfold back_of. rewrite !field_get_alias.
  destruct (field_get "is_auipc_jump" fields) as [[[z|s]| | |]|]; cbn [option_map alias_field snd];
    destruct (field_get "imm" fields) as [[[z'|s']| | |]|]; cbn [option_map alias_field snd]; try reflexivity;
    repeat match goal with |- context[match assoc_str ?s consts with _ => _ end] => destruct (assoc_str s consts) end; reflexivity.
Qed.

(* the single-instruction expansions of the transfer pseudo-instructions *)
Lemma expand_tr consts l name args pimm px ref rest :
  mem_str name tr_pseudos = true -> rev args = ref :: rest -> expand_pseudo l name args pimm = Done px ->
  exists it', px = One it' /\ cflag_ok it' = true /\
    (in_consts consts ref = false -> instr_tr consts it' = true).
Proof.
  intros Hm Hrev. unfold expand_pseudo.
  repeat match goal with
         | |- context[if String.eqb name ?s then _ else _] =>
             let E := fresh "E" in destruct (String.eqb name s) eqn:E;
             [ apply String.eqb_eq in E; subst name; try discriminate Hm | ]
         end;
  try (intro H; discriminate H);
  repeat match goal with
         | |- context[match args with _ => _ end] => destruct args as [|? args]
         end;
  try (intro H; discriminate H);
  intro H; inversion H; subst; eexists; (split; [reflexivity|]); (split; [reflexivity|]);
  intro Hc; cbn in Hrev; inversion Hrev; subst; cbn; rewrite Hc; reflexivity.
Qed.

Lemma F2_impl {A B} (R S : A -> B -> Prop) : (forall a b, R a b -> S a b) -> forall l m, Forall2 R l m -> Forall2 S l m.
Proof. intros H l m F. induction F; constructor; auto. Qed.
Lemma pseudo_rule_one consts l name args pimm it' p ls :
  expand_pseudo l name args pimm = Done (One it') -> pseudo_rule consts l (IPseudo name args pimm) p ls = Done [it'].
Proof. intro E. cbv beta iota delta [pseudo_rule]. rewrite E. reflexivity. Qed.

(* ---- the two groups of one item, joined ------------------------------------------------------------------------------------------ *)
Section JoinX.
Variables (N : list string) (consts : envt).
Definition E6x (l : line) (itU itC : item) : Prop :=
  E6 N consts l itU itC \/
  (exists cls name fs c, itU = IInstr cls name fs c /\ instr_okb false cls name fs = true /\ c = String.prefix "C" cls /\
     instr_tr consts itU = true /\ exists p ls0, compress_rule consts l itU p ls0 = Done [itC]).
Definition R6x (l : line) (yU yC : litem) : Prop := fst yU = l /\ fst yC = l /\ E6x l (snd yU) (snd yC).
Definition J6x (x : litem) (gU gC : list litem) : Prop := Forall2 (R6x (fst x)) gU gC /\ kind6 x gU.
Definition P2x (x : litem) : Prop :=
  okb 1 (snd x) = true /\ cflag_ok (snd x) = true /\ item_ext N consts (snd x) = true /\
  (forall cls n fs c, snd x = IInstr cls n fs c -> afixed consts fs).

Lemma R6_R6x l yU yC : R6 N consts l yU yC -> R6x l yU yC.
Proof. intros (A & B & C). split; [exact A|]. split; [exact B|]. left. exact C. Qed.

Lemma join_item_x x gU gC : P2x x -> RU N consts x gU -> RC N consts x gC -> J6x x gU gC.
Proof.
  intros (Hok & Hcf & Hext & Hfix) HU HC. unfold item_ext in Hext. apply orb_prop in Hext. destruct Hext as [Hlit|Htr].
  { destruct (join_item N consts x gU gC) as [F Kd]; auto. { unfold P2. auto. }
    split; [|exact Kd]. eapply F2_impl; [|exact F]. intros a b. apply R6_R6x. }
  destruct x as [l it]. cbn [fst snd] in *.
  destruct HU as (p & ls0 & rsU & KU & EU & ->).
  destruct HC as (p1 & ls1 & y1 & p2 & ls2 & rsC & g2 & K1 & E1 & K2 & E2 & F & ->). cbn [fst snd] in *.
  destruct it; try discriminate Htr.
  - (* a transfer instruction *)
    cbv beta iota delta [pseudo_rule] in EU. inversion EU; subst rsU. clear EU.
    pose proof (Hfix _ _ _ _ eq_refl) as Fx. cbn [okb Nat.leb Nat.eqb andb] in Hok. cbn [cflag_ok] in Hcf. apply eqb_prop in Hcf.
    cbn [map alias1]. rewrite (afixed_map _ _ Fx).
    assert (G : exists y', g2 = [y'] /\ exists p' ls', compress_rule consts l (IInstr cls name fields compressed) p' ls' = Done [y']).
    { destruct (compress_out_stable consts l cls name fields compressed p1 ls1 y1 Hok Fx E1) as [->|(_ & Ha & Hid)].
      - cbv beta iota delta [pseudo_rule] in E2. inversion E2; subst rsC.
        inversion F as [|? y' ? ? (p3 & ls3 & K3 & E3) F']; subst. inversion F'; subst.
        cbn [alias1] in E3. rewrite (afixed_map _ _ Fx) in E3. exists y'. eauto.
      - assert (E2' : rsC = [y1]).
        { destruct (compress_rule_out _ _ _ _ _ _ E1) as [Q|(c' & n' & fs' & Q)]; inversion Q; subst y1;
            cbv beta iota delta [pseudo_rule] in E2; inversion E2; reflexivity. }
        subst rsC. inversion F as [|? y' ? ? (p3 & ls3 & K3 & E3) F']; subst. inversion F'; subst.
        rewrite Ha in E3. apply Hid in E3. inversion E3; subst y'. exists y1. eauto. }
    destruct G as (y' & -> & p' & ls' & E'). cbn [map]. split.
    + constructor; [|constructor]. unfold R6x, E6x. cbn [fst snd]. split; [reflexivity|]. split; [reflexivity|].
      right. exists cls, name, fields, compressed. eauto 10.
    + unfold kind6. cbn [snd]. constructor; [|constructor]. unfold is_instr. cbn [snd]. eauto.
  - (* a transfer pseudo-instruction *)
    apply andb_prop in Htr. destruct Htr as [Hm Hr]. destruct (rev args) as [|ref rest] eqn:Er; [discriminate|].
    apply negb_true_iff in Hr.
    assert (Hni : forall cls n fs c, IPseudo name args pimm <> IInstr cls n fs c) by (intros; discriminate).
    rewrite (compress_rule_other consts l _ p1 ls1 Hni) in E1. inversion E1; subst y1. clear E1.
    pose proof (pseudo_rule_good consts l _ p ls0 Hok eq_refl) as Gd. rewrite EU in Gd. cbn [good] in Gd.
    cbv beta iota delta [pseudo_rule] in EU, E2.
    destruct (expand_pseudo l name args pimm) as [px| |] eqn:Ex; cbn [obind] in EU, E2; try discriminate.
    destruct (expand_tr consts l name args pimm px ref rest Hm Er Ex) as (it' & -> & Cf & Tr). specialize (Tr Hr).
    inversion EU; subst rsU. inversion E2; subst rsC. clear EU E2.
    inversion F as [|? y' ? ? (p3 & ls3 & K3 & E3) F']; subst. inversion F'; subst.
    destruct (instr_tr_spec _ _ Tr) as (cls & n & fs & c & L & -> & _).
    inversion Gd as [|? ? Gy _]; subst. cbn [okb Nat.leb Nat.eqb andb] in Gy. cbn [cflag_ok] in Cf. apply eqb_prop in Cf.
    cbn [map]. split.
    + constructor; [|constructor]. unfold R6x, E6x. cbn [fst snd]. split; [reflexivity|]. split; [reflexivity|].
      right. cbn [alias1] in *. exists cls, n, (map (alias_field consts) fs), c.
      split; [reflexivity|]. split; [apply alias_instr_ok; exact Gy|]. split; [exact Cf|].
      split; [|eauto]. change (IInstr cls n (map (alias_field consts) fs) c) with (alias1 consts (IInstr cls n fs c)).
      rewrite instr_tr_alias. exact Tr.
    + unfold kind6. cbn [snd]. constructor; [|constructor]. unfold is_instr. cbn [snd alias1]. eauto.
Qed.
End JoinX.

(* ---- the statement --------------------------------------------------------------------------------------------------------------- *)
(* two corresponding chunks standing at offsets pU / pC: as in the literal class, or a transfer to the label L: the uncompressed
   run has the 4 bytes of a word wU decoding to insU; the compressed run has 4 bytes decoding to insC or the 2 bytes of a legal
   halfword expanding to insC; insU / insC are the same transfer with the offsets LU - pU / LC - pC (LU, LC: the value of L in the
   label table of THAT run): both land on L *)
Inductive chunk_corr_x (labU labC : envt) (pU pC : Z) : chunk -> chunk -> Prop :=
| ccx_base cU cC : chunk_corr cU cC -> chunk_corr_x labU labC pU pC cU cC
| ccx_transfer L LU LC wU insU insC bsC :
    assoc_str L labU = Some LU -> assoc_str L labC = Some LC -> 0 <= wU < 2^32 -> decode32 wU = Some insU ->
    retarget insU (LU - pU) insC (LC - pC) ->
    ((exists wC, bsC = le_bytes 4 wC /\ 0 <= wC < 2^32 /\ decode32 wC = Some insC) \/
     (exists h ci, bsC = le_bytes 2 h /\ 0 <= h < 2^16 /\ decode16 h = Some ci /\ expand_c ci = insC)) ->
    chunk_corr_x labU labC pU pC (CBytes (le_bytes 4 wU)) (CBytes bsC).
(* the chunks of one instruction / pseudo-instruction, with the offsets advancing *)
Inductive code_corr (labU labC : envt) (l : line) : Z -> Z -> list (line * chunk) -> list (line * chunk) -> Prop :=
| cdc_nil pU pC : code_corr labU labC l pU pC [] []
| cdc_cons pU pC a b ra rb :
    fst a = l -> fst b = l -> chunk_corr_x labU labC pU pC (snd a) (snd b) ->
    code_corr labU labC l (pU + chunk_len (snd a)) (pC + chunk_len (snd b)) ra rb -> code_corr labU labC l pU pC (a :: ra) (b :: rb).
Definition item_corr_x (labU labC : envt) (pU pC : Z) (x : litem) (cU cC : list (line * chunk)) : Prop :=
  match snd x with
  | IInstr _ _ _ _ | IPseudo _ _ _ => code_corr labU labC (fst x) pU pC cU cC
  | _ => item_corr labU labC pU pC x cU cC
  end.
Inductive corr_x (labU labC : envt) : Z -> Z -> list litem -> list (line * chunk) -> list (line * chunk) -> Prop :=
| corrx_nil pU pC : corr_x labU labC pU pC [] [] []
| corrx_cons pU pC x its cU cC rU rC :
    item_corr_x labU labC pU pC x cU cC -> corr_x labU labC (pU + clen cU) (pC + clen cC) its rU rC ->
    corr_x labU labC pU pC (x :: its) (app cU rU) (app cC rC).

Section WalkX.
Variables (N : list string) (consts labU labC : envt).
Hypothesis KU : keys_in N labU.
Hypothesis KC : keys_in N labC.

Inductive ecorr_x : Z -> Z -> litem -> litem -> list (line * chunk) -> list (line * chunk) -> Prop :=
| ex_base pU pC yU yC cU cC : ecorr labU labC pU pC yU yC cU cC -> ecorr_x pU pC yU yC cU cC
| ex_tr pU pC l itU itC cU cC : is_instr (l, itU) -> chunk_corr_x labU labC pU pC cU cC ->
    ecorr_x pU pC (l, itU) (l, itC) [(l, cU)] [(l, cC)].
Inductive gcorr_x : Z -> Z -> list litem -> list litem -> list (line * chunk) -> list (line * chunk) -> Prop :=
| gcx_nil pU pC : gcorr_x pU pC [] [] [] []
| gcx_cons pU pC yU yC gU gC cU cC cU' cC' :
    ecorr_x pU pC yU yC cU cC -> gcorr_x (pU + clen cU) (pC + clen cC) gU gC cU' cC' ->
    gcorr_x pU pC (yU :: gU) (yC :: gC) (app cU cU') (app cC cC').

Lemma pair_walk_x l yU yC rU rC pU pC csU csC :
  R6x N consts l yU yC -> pemit consts labU pU (yU :: rU) csU -> pemit consts labC pC (yC :: rC) csC ->
  exists cU cC csU' csC', csU = app cU csU' /\ csC = app cC csC' /\ ecorr_x pU pC yU yC cU cC /\
    pemit consts labU (pU + clen cU) rU csU' /\ pemit consts labC (pC + clen cC) rC csC'.
Proof.
  intros (E1 & E2 & [HE|HT]) HU HC.
  { destruct (pair_walk N consts labU labC KU KC l yU yC rU rC pU pC csU csC (conj E1 (conj E2 HE)) HU HC)
      as (cU & cC & csU' & csC' & A & B & E & PU & PC).
    exists cU, cC, csU', csC'. repeat split; auto. constructor; exact E. }
  destruct yU as [lU itU], yC as [lC itC]. cbn [fst snd] in *. subst lU lC.
  destruct HT as (cls & name & fs & c & -> & Hok & Hcf & Htr & p & ls0 & Hcr).
  destruct (instr_tr_spec _ _ Htr) as (cls0 & name0 & fs0 & c0 & L & Q & Hc & Hbk & Himm & HL). inversion Q; subst cls0 name0 fs0 c0. clear Q.
  destruct (pemit_inv_item _ _ _ _ _ _ _ HU eq_refl ltac:(intros; discriminate)) as (yu & cu & csu & -> & Tu & Cu & Lu & Pu).
  destruct (tail1_instr _ _ _ _ _ _ _ _ _ Tu) as (fsU & bsU & RU' & EU & ->). cbn [snd chunk_of] in Cu. inversion Cu; subst cu. clear Cu.
  rewrite Hbk, Z.sub_0_r in RU'.
  destruct (transfer_pair consts l cls name fs c L p ls0 itC pU labU fsU bsU Hok Hcf Hc Himm HL Hbk Hcr RU' EU)
    as (LU & wU & insU & HLU & -> & HwU & DU & cls' & name' & fs' & c' & -> & Hbk' & Hp).
  destruct (pemit_inv_item _ _ _ _ _ _ _ HC eq_refl ltac:(intros; discriminate)) as (yc & cc & csc & -> & Tc & Cc & Lc & Pc).
  destruct (tail1_instr _ _ _ _ _ _ _ _ _ Tc) as (fsC & bsC & RC' & EC & ->). cbn [snd chunk_of] in Cc. inversion Cc; subst cc. clear Cc.
  rewrite Hbk', Z.sub_0_r in RC'.
  destruct (Hp _ _ _ _ RC' EC) as (LC & insC & HLC & Hrt & Hform).
  exists [(l, CBytes (le_bytes 4 wU))], [(l, CBytes bsC)], csu, csc. unfold clen. cbn [fold_right snd]. rewrite !Z.add_0_r.
  rewrite Lu, Lc. repeat split; auto. apply ex_tr. { unfold is_instr; cbn [snd]; eauto. }
  eapply ccx_transfer; eauto.
  destruct Hform as [(_ & wC & A & B & C)|(_ & h & ci & A & B & C & D)]; [left|right]; eauto 8.
Qed.

Lemma group_walk_x l gU : forall gC rU rC pU pC csU csC,
  Forall2 (R6x N consts l) gU gC -> pemit consts labU pU (app gU rU) csU -> pemit consts labC pC (app gC rC) csC ->
  exists cU cC csU' csC', csU = app cU csU' /\ csC = app cC csC' /\ gcorr_x pU pC gU gC cU cC /\
    pemit consts labU (pU + clen cU) rU csU' /\ pemit consts labC (pC + clen cC) rC csC'.
Proof.
  induction gU as [|yU gU IH]; intros gC rU rC pU pC csU csC F HU HC; inversion F as [|? yC ? gC' Hy F']; subst.
  - exists [], [], csU, csC. unfold clen. cbn [fold_right app]. rewrite !Z.add_0_r. repeat split; auto. constructor.
  - cbn [app] in HU, HC.
    destruct (pair_walk_x _ _ _ _ _ _ _ _ _ Hy HU HC) as (c1 & d1 & csU1 & csC1 & -> & -> & E & PU & PC).
    destruct (IH _ _ _ _ _ _ _ F' PU PC) as (c2 & d2 & csU2 & csC2 & -> & -> & G & PU' & PC').
    exists (app c1 c2), (app d1 d2), csU2, csC2. rewrite !clen_app, !Z.add_assoc, !app_assoc.
    repeat split; auto. constructor; auto.
Qed.

Lemma gcorr_code_x l : forall gU gC pU pC cU cC,
  gcorr_x pU pC gU gC cU cC -> Forall is_instr gU -> Forall2 (R6x N consts l) gU gC -> code_corr labU labC l pU pC cU cC.
Proof.
  induction 1 as [|pU pC yU yC gU gC cU cC cU' cC' E G IH]; intros Fi F2. constructor.
  inversion Fi as [|? ? Hy Fi']; subst. inversion F2 as [|? ? ? ? (L1 & L2 & _) F2']; subst.
  specialize (IH Fi' F2').
  destruct Hy as (cls & n & fs & c & Hy).
  assert (G1 : forall l0 cu cc, fst yU = l0 -> cU = [(l0, cu)] -> cC = [(l0, cc)] -> chunk_corr_x labU labC pU pC cu cc ->
               code_corr labU labC (fst yU) pU pC (app cU cU') (app cC cC')).
  { intros l0 cu cc El -> -> Hcc. cbn [app]. subst l0. constructor; auto.
    unfold clen in IH. cbn [fold_right snd] in IH. rewrite !Z.add_0_r in IH. exact IH. }
  inversion E as [? ? ? ? ? ? E0|? ? l0 itU itC cu cc Hi Hcc]; subst.
  - inversion E0; subst; cbn [snd fst] in *; try discriminate.
    + exfalso. eapply H; eauto.
    + eapply G1; eauto. constructor; assumption.
  - eapply G1; eauto.
Qed.

Lemma item_of_single x yC pU pC c d :
  okb 1 (snd x) = true -> (forall cls n fs k, snd x <> IInstr cls n fs k) -> (forall n a pi, snd x <> IPseudo n a pi) ->
  ecorr labU labC pU pC x yC c d -> item_corr labU labC pU pC x c d.
Proof.
  intros Hok Hni Hnp E. unfold item_corr. inversion E; subst; cbn [fst snd] in *.
  - auto.
  - auto.
  - destruct it; try discriminate Hok; try (split; [reflexivity|eauto]).
    + discriminate.
    + exfalso. eapply Hni; reflexivity.
    + exfalso. eapply Hnp; reflexivity.
    + exfalso. eapply H1; reflexivity.
  - destruct H as (cls & n & fs & k & H). cbn [snd] in H. exfalso. eapply Hni; eauto.
Qed.

Lemma item_of_group_x x gU gC pU pC cU cC :
  okb 1 (snd x) = true -> J6x N consts x gU gC -> gcorr_x pU pC gU gC cU cC -> item_corr_x labU labC pU pC x cU cC.
Proof.
  intros Hok [F Kd] G. unfold kind6 in Kd. unfold item_corr_x.
  assert (Single : (forall cls n fs k, snd x <> IInstr cls n fs k) -> (forall n a pi, snd x <> IPseudo n a pi) -> gU = [x] ->
                   item_corr labU labC pU pC x cU cC).
  { intros Hni Hnp ->. inversion F as [|? yC ? ? Hy F']; subst. inversion F'; subst.
    inversion G as [|? ? ? ? ? ? c1 d1 c2 d2 E G']; subst. inversion G'; subst. rewrite !app_nil_r.
    inversion E as [? ? ? ? ? ? E0|? ? l0 itU itC cu cc Hi Hcc]; subst.
    - eapply item_of_single; eauto.
    - destruct Hi as (cls & n & fs & k & Hi). cbn [snd] in *. exfalso. eapply Hni; eauto. }
  destruct x as [l it]. cbn [fst snd] in *.
  destruct it; try (apply Single; [intros; discriminate|intros; discriminate|exact Kd]);
    eapply gcorr_code_x; eauto.
Qed.

Lemma walk_x : forall a aU aC,
  jgrouped (J6x N consts) a aU aC -> Forall (fun x => okb 1 (snd x) = true) a -> forall pU pC csU csC,
  pemit consts labU pU aU csU -> pemit consts labC pC aC csC -> corr_x labU labC pU pC a csU csC.
Proof.
  induction 1 as [|x a gU gC rU rC J _ IH]; intros Fo pU pC csU csC HU HC.
  - apply pemit_nil in HU, HC. subst. constructor.
  - inversion Fo as [|? ? Hx Fo']; subst.
    destruct (group_walk_x (fst x) gU gC rU rC pU pC csU csC (proj1 J) HU HC)
      as (cU & cC & csU' & csC' & -> & -> & G & PU & PC).
    constructor; [eapply item_of_group_x; eauto|apply IH; auto].
Qed.
End WalkX.

Lemma corr_alias_x consts labU labC : forall a pU pC csU csC,
  corr_x labU labC pU pC (map (fun x => (fst x, alias1 consts (snd x))) a) csU csC -> corr_x labU labC pU pC a csU csC.
Proof.
  induction a as [|[l it] a IH]; intros pU pC csU csC H; cbn [map] in H; inversion H; subst. constructor.
  constructor; [|apply IH; assumption].
  unfold item_corr_x, item_corr in *. cbn [fst snd] in *. destruct it; assumption.
Qed.
Lemma corr_filter_x labU labC : forall its pU pC csU csC,
  corr_x labU labC pU pC (filter not_const its) csU csC -> corr_x labU labC pU pC its csU csC.
Proof.
  induction its as [|[l it] its IH]; intros pU pC csU csC H. exact H.
  cbn [filter] in H. unfold not_const at 1 in H. cbn [snd] in H.
  assert (Keep : corr_x labU labC pU pC ((l, it) :: filter not_const its) csU csC -> corr_x labU labC pU pC ((l, it) :: its) csU csC).
  { intro H'. inversion H'; subst. constructor; auto. }
  destruct it; try (apply Keep; exact H).
  change csU with (app [] csU). change csC with (app [] csC). constructor.
  - unfold item_corr_x, item_corr. cbn [snd]. auto.
  - unfold clen. cbn [fold_right]. rewrite !Z.add_0_r. apply IH. exact H.
Qed.

Definition ext_ok (N : list string) (consts : envt) (x : litem) : Prop :=
  okb 0 (snd x) = true /\ cflag_ok (snd x) = true /\ item_ext N consts (snd x) = true.
Lemma item_ext_alias N consts it : item_ext N consts (alias1 consts it) = item_ext N consts it.
Proof.
  unfold item_ext. rewrite alias1_lit. destruct it; try reflexivity.
  change (IInstr cls name (map (alias_field consts) fields) compressed) with (alias1 consts (IInstr cls name fields compressed)).
  rewrite instr_tr_alias. reflexivity.
Qed.
Lemma P2x_i2 N consts its : Forall (ext_ok N consts) its -> Forall (P2x N consts) (resolve_register_aliases (filter not_const its) consts).
Proof.
  rewrite aliases_map. induction 1 as [|[l it] r (Hok & Hcf & Hl) _ IH]; simpl. constructor.
  cbn [snd] in *. unfold not_const at 1. cbn [snd].
  assert (G : (match it with IConst _ _ => False | _ => True end) -> P2x N consts (l, alias1 consts it)).
  { intro Hnc. unfold P2x. cbn [fst snd]. rewrite alias1_cflag, item_ext_alias. repeat split; auto.
    - destruct it; try (cbn [alias1]; apply ok_0_1; auto).
      cbn [alias1 okb Nat.leb Nat.eqb andb] in *. apply alias_instr_ok. exact Hok.
    - intros cls n fs c E. destruct it; try discriminate. cbn [alias1] in E. inversion E; subst. apply afixed_alias. }
  destruct it; simpl; try (constructor; [apply G; exact I|exact IH]). exact IH.
Qed.

(* ---- THE THEOREM -------------------------------------------------------------------------------------------------------------------- *)
Definition ext_programb (consts : envt) (its : list litem) : bool :=
  forallb (fun x => okb 0 (snd x) && cflag_ok (snd x) && item_ext (gnames its) consts (snd x))%bool its.
Lemma ext_programb_spec consts its : ext_programb consts its = true -> Forall (ext_ok (gnames its) consts) its.
Proof.
  unfold ext_programb. intro H. rewrite forallb_forall in H. apply Forall_forall. intros x Hx.
  specialize (H x Hx). apply andb_prop in H. destruct H as [H C]. apply andb_prop in H. destruct H as [A B].
  unfold ext_ok. auto.
Qed.

Theorem program_transfers its c0 rU rC :
  nonneg its -> ext_programb (r_consts rU) its = true ->
  assemble_items its c0 [] false = Done rU -> assemble_items its c0 [] true = Done rC ->
  corr_x (r_labels rU) (r_labels rC) 0 0 its (r_chunks rU) (r_chunks rC).
Proof.
  intros Hn Hext HU HC. apply ext_programb_spec in Hext.
  destruct (assemble_stages2 _ _ _ _ _ HU Hn) as (cA & lA & i3A & lab3A & i4A & lab4A & i6A & lab6A & alA & finA &
      A1 & A2 & A3 & A4 & A6 & A7 & N6A & PA & SA & TA & BA & XA & GA & Hd & HcA).
  destruct (assemble_stages2 _ _ _ _ _ HC Hn) as (cB & lB & i3B & lab3B & i4B & lab4B & i6B & lab6B & alB & finB &
      B1 & B2 & B3 & B4 & B6 & B7 & N6B & PB & SB & TB & BB & XB & GB & _ & _).
  rewrite A1 in B1. inversion B1; subst cB. rewrite A2 in B2. inversion B2; subst lB. clear B1 B2. rewrite HcA in Hext.
  set (N := gnames its) in *. set (i2 := resolve_register_aliases (filter not_const its) cA) in *.
  assert (K0 : keys_in N lA). { pose proof (labels_keys _ _ A2) as K. rewrite filter_gnames in K. exact K. }
  inversion A3; subst i3A lab3A. clear A3.
  pose proof (pseudo_keys N _ _ _ _ _ K0 A4) as K4A.
  inversion A6; subst i6A lab6A. clear A6.
  pose proof (align_keys N _ _ _ _ K4A A7) as KU.
  pose proof (compress_keys N true _ _ _ _ _ K0 B3) as K3B.
  pose proof (pseudo_keys N _ _ _ _ _ K3B B4) as K4B.
  pose proof (compress_keys N true _ _ _ _ _ K4B B6) as K6B.
  pose proof (align_keys N _ _ _ _ K6B B7) as KC.
  pose proof (runU_groups N cA i2 lA i4A lab4A K0 A4) as GU.
  pose proof (runC_groups N cA i2 lA i3B lab3B i4B lab4B i6B lab6B K0 B3 B4 B6) as GC.
  pose proof (P2x_i2 N cA its Hext) as HP. fold i2 in HP.
  assert (J : jgrouped (J6x N cA) i2 (resolve_register_aliases i4A cA) i6B).
  { eapply jgrouped_impl; [|exact HP|exact (grouped_join _ _ _ _ _ GU GC)].
    intros x g h Px [Ru Rc]. apply join_item_x; auto. }
  assert (EU : pemit cA (r_labels rU) 0 (resolve_register_aliases i4A cA) (r_chunks rU)).
  { eapply emit_of_run; eauto. rewrite GA; exact Hd. }
  assert (EC : pemit cA (r_labels rC) 0 i6B (r_chunks rC)).
  { eapply emit_of_run; eauto. rewrite GB; exact Hd. }
  apply corr_filter_x. apply (corr_alias_x cA). rewrite <- aliases_map. fold i2.
  eapply walk_x; eauto.
  eapply Forall_impl; [|exact HP]. intros x Px. exact (proj1 Px).
Qed.

(* ---- a concrete program with transfers -------------------------------------------------------------------------------------------- *)
From BB Require Import Proofs.Examples.
(* a: / addi x8, x8, 4 / beqz x8, a / j b / align 8 / b: / bne x1, x2, a / jal ra, b / dw 7 *)
Definition ex04t : list litem :=
  [(exL 1, ILabel "a");
   (exL 2, exI "addi" "x8" "x8" (ANum 4));
   (exL 3, IPseudo "beqz" ["x8"; "a"] (PErr (PRaw OtherExn)));
   (exL 4, IPseudo "j" ["b"] (PErr (PRaw OtherExn)));
   (exL 5, IAlign 8);
   (exL 6, ILabel "b");
   (exL 7, IInstr "BTypeInstruction" "bne" [("rs1", FReg (AStr "x1")); ("rs2", FReg (AStr "x2")); ("imm", FExpr (EOff "a"))] false);
   (exL 8, IInstr "JTypeInstruction" "jal" [("rd", FReg (AStr "ra")); ("imm", FExpr (EOff "b"))] false);
   (exL 9, IShort "dw" (FExpr (EArith (ANum 7))))].
Lemma ex04t_nonneg : nonneg ex04t.
Proof. repeat constructor; try (unfold isz; simpl; intro; discriminate); try (intros ? H; inversion H; subst; intro; discriminate);
  try (intros ? H; discriminate). Qed.
Lemma ex04t_ext : ext_programb [] ex04t = true.
Proof. vm_compute. reflexivity. Qed.
Definition ex04t_chunksU : list (line * chunk) :=
  [(exL 2, CBytes [19; 4; 68; 0]); (exL 3, CBytes [227; 14; 4; 254]); (exL 4, CBytes [111; 0; 128; 0]); (exL 5, CZeros 4);
   (exL 7, CBytes [227; 152; 32; 254]); (exL 8, CBytes [239; 240; 223; 255]); (exL 9, CBytes [7; 0; 0; 0])].
Definition ex04t_chunksC : list (line * chunk) :=
  [(exL 2, CBytes [17; 4]); (exL 3, CBytes [125; 220]); (exL 4, CBytes [17; 160]); (exL 5, CZeros 2);
   (exL 7, CBytes [227; 156; 32; 254]); (exL 8, CBytes [245; 63]); (exL 9, CBytes [7; 0; 0; 0])].
Lemma ex04t_runs :
  assemble_items ex04t [] [] false = Done {| r_chunks := ex04t_chunksU; r_consts := []; r_labels := [("a", 0); ("b", 16)] |} /\
  assemble_items ex04t [] [] true = Done {| r_chunks := ex04t_chunksC; r_consts := []; r_labels := [("a", 0); ("b", 8)] |}.
Proof. split; vm_compute; reflexivity. Qed.
Lemma ex04t_corr : corr_x [("a", 0); ("b", 16)] [("a", 0); ("b", 8)] 0 0 ex04t ex04t_chunksU ex04t_chunksC.
Proof. destruct ex04t_runs as [HU HC]. exact (program_transfers ex04t [] {| r_chunks := ex04t_chunksU; r_consts := []; r_labels := [("a", 0); ("b", 16)] |} _ ex04t_nonneg ex04t_ext HU HC). Qed.
