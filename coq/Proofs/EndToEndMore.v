(* C01, one source line end to end, for the families Proofs/EndToEnd.v leaves out: the A extension (lr.w, sc.w, amo*.w, with and
   without the two ordering operands), fence (two set operands / alone), fence.i, ecall, ebreak, the Zicsr instructions, and the
   `imm(reg)` spelling of loads / stores / jalr.  Tokens -> parser model -> the 16 passes of the pass model (compression off AND on)
   -> the four little-endian bytes of the word the GENERATED encoder returns, which the Spec decodes (C01 decode_encode) to the
   instruction the line names -- stated with the Spec's own constructors (Amo / LrW / ScW / Fence / FenceI / Ecall / Ebreak / Csr /
   Load / Store / Jalr), the aq / rl bits, the fence sets, the CSR number and the 5-bit immediate as written. *)
From Coq Require Import ZArith List Bool Lia String Ascii.
From BB Require Import Base.Bits Base.PyBase Gen.Encoders Gen.Criteria Spec.RV32 Spec.RVC Spec.Operands Spec.Legal
  Model.Items Model.Encode Model.Passes Model.Lexer Model.PyExpr Model.Parser
  Proofs.Regs Proofs.Layout Proofs.C01Main Proofs.C02Main Proofs.C06Main Proofs.Program Proofs.EndToEnd
  Proofs.EncSig Proofs.EncTotal Proofs.NoRaw Proofs.LegalCompress Proofs.LegalItem Proofs.LegalLine.
Import ListNotations.
Open Scope Z_scope.
Local Open Scope list_scope.
Local Open Scope string_scope.

(* ---- the compression pass leaves an instruction alone whose mnemonic heads no rule ------------------------------------------------ *)
Definition rule_head (r : string * list pred) : option string :=
  match snd r with PNameEquals v :: _ => Some v | _ => None end.
Fixpoint dedup (l : list string) : list string :=
  match l with [] => [] | x :: r => if mem_str x r then dedup r else x :: dedup r end.
Definition compress_heads : list string :=
  dedup (flat_map (fun r => match rule_head r with Some v => [v] | None => [] end) criteria).
Definition all_headed (cr : list (string * list pred)) : bool :=
  forallb (fun r => match rule_head r with Some v => mem_str v compress_heads | None => false end) cr.
Lemma criteria_headed : all_headed criteria = true.
Proof. vm_compute. reflexivity. Qed.
Lemma select_unheaded i : mem_str (iv_name i) compress_heads = false ->
  forall cr, all_headed cr = true -> select_rule cr i = Ok None.
Proof.
  intros Hn cr. induction cr as [|[n ps] r IH]; intro H; [reflexivity|].
  cbn [all_headed forallb] in H. apply andb_prop in H. destruct H as [H1 H2].
  unfold rule_head in H1. cbn [snd] in H1. destruct ps as [|[v| | | | | | | |] ps]; try discriminate.
  cbn [select_rule all_preds pred_sem bind].
  destruct (String.eqb (iv_name i) v) eqn:E.
  - apply String.eqb_eq in E. rewrite E in Hn. rewrite Hn in H1. discriminate.
  - cbn [bind]. apply IH. exact H2.
Qed.
Lemma compress_inert l cls name fs c pos ls :
  closed_imm fs -> mem_str name compress_heads = false ->
  compress_rule [] l (IInstr cls name fs c) pos ls = Done [IInstr cls name fs c].
Proof.
  intros Hc Hn. cbn [compress_rule]. rewrite (imm_unstable_closed _ _ _ _ _ Hc). cbn [obind].
  rewrite (select_unheaded (view_of l pos [] ls name fs) Hn criteria criteria_headed). reflexivity.
Qed.
Lemma compress_single_inert l cls name fs c ls :
  closed_imm fs -> mem_str name compress_heads = false ->
  transform_compressible [(l, IInstr cls name fs c)] [] ls = Done ([(l, IInstr cls name fs c)], ls).
Proof.
  intros Hc Hn. unfold transform_compressible. rewrite gpass_gp. cbn [gp is_label size_o size obind].
  rewrite (compress_inert _ _ _ _ _ _ _ Hc Hn). cbn [obind sizes size_o size]. rewrite Z.add_0_r, size_sub_self. reflexivity.
Qed.

(* ---- one instruction with a literal (or no) immediate through all 16 passes, in BOTH modes ----------------------------------------- *)
Definition one_chunk (l : line) (bs : list Z) : outcome result :=
  Done {| r_chunks := [(l, CBytes bs)]; r_consts := []; r_labels := [] |}.
Lemma one_instr_pipeline l cls name fs c cmp :
  closed_imm fs -> (cmp = true -> mem_str name compress_heads = false) ->
  assemble_items [(l, IInstr cls name fs c)] [] [] cmp = (bs <<- encode_item l cls name (set_lit fs) c ;;; one_chunk l bs).
Proof.
  intros Hcl Hn. unfold assemble_items. cbn [resolve_constants_lr rev app obind]. unfold resolve_labels.
  cbn [resolve_labels_from size_o size obind]. rewrite (aliases_single _ _ _ _ _ _ (stable_nil fs)).
  assert (Hc : forall ls, (if cmp then transform_compressible [(l, IInstr cls name fs c)] [] ls else Done ([(l, IInstr cls name fs c)], ls))
                          = Done ([(l, IInstr cls name fs c)], ls)).
  { intro ls. destruct cmp; [|reflexivity]. apply compress_single_inert; auto. }
  rewrite Hc. cbn [obind]. rewrite pseudo_single. cbn [obind].
  rewrite (aliases_single _ _ _ _ _ _ (stable_nil fs)). rewrite Hc. cbn [obind].
  rewrite aligns_single. cbn [obind]. rewrite (immediates_single _ _ _ _ _ _ _ Hcl). cbn [obind resolve_instructions].
  destruct (encode_item l cls name (set_lit fs) c) as [bs|e|]; reflexivity.
Qed.
Theorem one_instr_assembles l cls name fs c cmp bs :
  closed_imm fs -> (cmp = true -> mem_str name compress_heads = false) ->
  encode_item l cls name (set_lit fs) c = Done bs ->
  assemble_items [(l, IInstr cls name fs c)] [] [] cmp = one_chunk l bs.
Proof. intros Hcl Hn He. rewrite (one_instr_pipeline _ _ _ _ _ _ Hcl Hn), He. reflexivity. Qed.
Theorem one_instr_fails l cls name fs c cmp e :
  closed_imm fs -> (cmp = true -> mem_str name compress_heads = false) ->
  encode_item l cls name (set_lit fs) c = Fail e ->
  assemble_items [(l, IInstr cls name fs c)] [] [] cmp = Fail e.
Proof. intros Hcl Hn He. rewrite (one_instr_pipeline _ _ _ _ _ _ Hcl Hn), He. reflexivity. Qed.

(* ---- the mnemonic in any case: a one-token line is a label only if the token ends in a colon, and lower-casing keeps colons ------- *)
Lemma lower_c_colon c : is_c (lower_c c) (ascii_of_N 58) = is_c c (ascii_of_N 58).
Proof. destruct c as [[] [] [] [] [] [] [] []]; reflexivity. Qed.
Lemma chars_lower s : chars (lower s) = map lower_c (chars s).
Proof. induction s as [|c r IH]; cbn; [reflexivity|]. unfold chars in IH. rewrite IH. reflexivity. Qed.
Lemma ends_colon_lower s : ends_colon (lower s) = ends_colon s.
Proof.
  unfold ends_colon. rewrite chars_lower, <- map_rev. destruct (rev (chars s)) as [|c r]; [reflexivity|].
  cbn [map]. apply lower_c_colon.
Qed.
Lemma ends_colon_of_lower t0 name : lower t0 = name -> ends_colon name = false -> ends_colon t0 = false.
Proof. intros <- H. rewrite ends_colon_lower in H. exact H. Qed.

(* ---- the parser on the lines of the remaining tables (any spelling of the mnemonic whose lower-case form is in the table) --------- *)
Definition a_names : list string := map fst A_TYPE_INSTRUCTIONS_final.       (* sc.w, amoswap.w .. amomaxu.w *)
Definition al_names : list string := map fst AL_TYPE_INSTRUCTIONS_final.     (* lr.w *)
Definition fence_names : list string := map fst FENCE_INSTRUCTIONS_final.    (* fence *)
Definition ie_names : list string := map fst IE_TYPE_INSTRUCTIONS_final.     (* ecall, ebreak, fence.i *)

Definition a_fields (rd rs1 rs2 : string) (aq rl : arg) : list (string * fval) :=
  [("rd", R rd); ("rs1", R rs1); ("rs2", R rs2); ("aq", FReg aq); ("rl", FReg rl)].
Definition al_fields (rd rs1 : string) (aq rl : arg) : list (string * fval) :=
  [("rd", R rd); ("rs1", R rs1); ("aq", FReg aq); ("rl", FReg rl)].

Lemma a3_parse l t0 name rd rs1 rs2 :
  lower t0 = name -> In name a_names -> String.eqb rd "=" = false ->
  parse_item l [t0; rd; rs1; rs2] = FOk (IInstr "ATypeInstruction" name (a_fields rd rs1 rs2 (AInt 0) (AInt 0)) false).
Proof.
  intros Hl Hn Hrd. unfold a_names in Hn. vm_compute in Hn.
  repeat (destruct Hn as [<-|Hn]; [navl Hl Hrd; reflexivity|]). contradiction.
Qed.
Lemma a5_parse l t0 name rd rs1 rs2 aq rl :
  lower t0 = name -> In name a_names -> String.eqb rd "=" = false ->
  parse_item l [t0; rd; rs1; rs2; aq; rl] = FOk (IInstr "ATypeInstruction" name (a_fields rd rs1 rs2 (AStr aq) (AStr rl)) false).
Proof.
  intros Hl Hn Hrd. unfold a_names in Hn. vm_compute in Hn.
  repeat (destruct Hn as [<-|Hn]; [navl Hl Hrd; reflexivity|]). contradiction.
Qed.
Lemma al2_parse l t0 name rd rs1 :
  lower t0 = name -> In name al_names -> String.eqb rd "=" = false ->
  parse_item l [t0; rd; rs1] = FOk (IInstr "ALTypeInstruction" name (al_fields rd rs1 (AInt 0) (AInt 0)) false).
Proof.
  intros Hl Hn Hrd. unfold al_names in Hn. vm_compute in Hn.
  repeat (destruct Hn as [<-|Hn]; [navl Hl Hrd; reflexivity|]). contradiction.
Qed.
Lemma al4_parse l t0 name rd rs1 aq rl :
  lower t0 = name -> In name al_names -> String.eqb rd "=" = false ->
  parse_item l [t0; rd; rs1; aq; rl] = FOk (IInstr "ALTypeInstruction" name (al_fields rd rs1 (AStr aq) (AStr rl)) false).
Proof.
  intros Hl Hn Hrd. unfold al_names in Hn. vm_compute in Hn.
  repeat (destruct Hn as [<-|Hn]; [navl Hl Hrd; reflexivity|]). contradiction.
Qed.
Lemma fence2_parse l t0 name succ pred :
  lower t0 = name -> In name fence_names -> String.eqb succ "=" = false ->
  parse_item l [t0; succ; pred] = FOk (IInstr "FenceInstruction" name [("succ", R succ); ("pred", R pred)] false).
Proof.
  intros Hl Hn Hrd. unfold fence_names in Hn. vm_compute in Hn.
  repeat (destruct Hn as [<-|Hn]; [navl Hl Hrd; reflexivity|]). contradiction.
Qed.
Lemma fence0_parse l t0 name :
  lower t0 = name -> In name fence_names ->
  parse_item l [t0] = FOk (IPseudo name [] (PErr (PRaw OtherExn))).
Proof.
  intros Hl Hn. unfold fence_names in Hn. vm_compute in Hn.
  repeat (destruct Hn as [<-|Hn];
    [pose proof (ends_colon_of_lower _ _ Hl eq_refl) as Hc; navl Hl Hc; unfold pseudo; cbn [String.eqb Ascii.eqb Bool.eqb]; reflexivity|]).
  contradiction.
Qed.
Lemma ie_parse l t0 name :
  lower t0 = name -> In name ie_names -> parse_item l [t0] = FOk (IInstr "IETypeInstruction" name [] false).
Proof.
  intros Hl Hn. unfold ie_names in Hn. vm_compute in Hn.
  repeat (destruct Hn as [<-|Hn]; [pose proof (ends_colon_of_lower _ _ Hl eq_refl) as Hc; navl Hl Hc; reflexivity|]).
  contradiction.
Qed.

(* the `imm(reg)` spelling: the I-type and S-type names of the assembler's BASE_OFFSET table *)
Definition paren_i_names : list string := filter (fun n => mem_str n BASE_OFFSET_INSTRUCTIONS_final) i_names.  (* jalr lb lh lw lbu lhu *)
Definition paren_s_names : list string := filter (fun n => mem_str n BASE_OFFSET_INSTRUCTIONS_final) s_names.  (* sb sh sw *)
Ltac close_more :=
  repeat match goal with
         | |- context[in_tab ?x ?y] => let v := eval vm_compute in (in_tab x y) in change (in_tab x y) with v
         | |- context[mem_str ?x ?y] => let v := eval vm_compute in (mem_str x y) in change (mem_str x y) with v
         | |- context[String.eqb (String ?c ?x) (String ?d ?y)] =>
             let v := eval vm_compute in (String.eqb (String c x) (String d y)) in change (String.eqb (String c x) (String d y)) with v
         end.
Lemma i_paren_parse l t0 name rd off rs1 e :
  lower t0 = name -> In name paren_i_names -> String.eqb rd "=" = false -> parse_immediate [off] l = FOk e ->
  parse_item l [t0; rd; off; "("; rs1; ")"] =
  FOk (IInstr "ITypeInstruction" name [("rd", R rd); ("rs1", R rs1); ("imm", FExpr e); ("is_auipc_jump", FBool false)] false).
Proof.
  intros Hl Hn Hrd Hp. unfold paren_i_names in Hn. vm_compute in Hn.
  repeat (destruct Hn as [<-|Hn];
    [navl Hl Hrd; unfold base_offset; cbn [nth_tok nth_error tok_is]; close_more; cbv beta iota; cbn [andb fbind]; rewrite Hp; reflexivity|]).
  contradiction.
Qed.
Lemma s_paren_parse l t0 name rs2 off rs1 e :
  lower t0 = name -> In name paren_s_names -> String.eqb rs2 "=" = false -> parse_immediate [off] l = FOk e ->
  parse_item l [t0; rs2; off; "("; rs1; ")"] =
  FOk (IInstr "STypeInstruction" name [("rs1", R rs1); ("rs2", R rs2); ("imm", FExpr e)] false).
Proof.
  intros Hl Hn Hrd Hp. unfold paren_s_names in Hn. vm_compute in Hn.
  repeat (destruct Hn as [<-|Hn];
    [navl Hl Hrd; cbn [nth_tok nth_error tok_is]; close_more; cbv beta iota; cbn [fbind]; rewrite Hp; reflexivity|]).
  contradiction.
Qed.

(* ---- the line forms ------------------------------------------------------------------------------------------------------------------
   more_form l toks name pos kw: the token list `toks` is a line of mnemonic `name` (t0 is the mnemonic as written, in any case) of one
   of the families below; `pos` / `kw` are the positional and keyword operands the encoder receives (resolve_instructions hands aq and
   rl of the atomics over as keyword arguments).  Immediates are LITERALS (one token whose expression has no names). *)
Definition csr_names : list string := ["csrrw"; "csrrs"; "csrrc"; "csrrwi"; "csrrsi"; "csrrci"].
Inductive more_form (l : line) : list string -> string -> list arg -> list (string * arg) -> Prop :=
| M_a3 t0 name rd rs1 rs2 :             (* sc.w / amo*.w  rd, rs1, rs2 *)
    lower t0 = name -> In name a_names -> String.eqb rd "=" = false ->
    more_form l [t0; rd; rs1; rs2] name [AStr rd; AStr rs1; AStr rs2] [("aq", AInt 0); ("rl", AInt 0)]
| M_a5 t0 name rd rs1 rs2 aq rl :       (* sc.w / amo*.w  rd, rs1, rs2, aq, rl *)
    lower t0 = name -> In name a_names -> String.eqb rd "=" = false ->
    more_form l [t0; rd; rs1; rs2; aq; rl] name [AStr rd; AStr rs1; AStr rs2] [("aq", AStr aq); ("rl", AStr rl)]
| M_al2 t0 name rd rs1 :                (* lr.w rd, rs1 *)
    lower t0 = name -> In name al_names -> String.eqb rd "=" = false ->
    more_form l [t0; rd; rs1] name [AStr rd; AStr rs1] [("aq", AInt 0); ("rl", AInt 0)]
| M_al4 t0 name rd rs1 aq rl :          (* lr.w rd, rs1, aq, rl *)
    lower t0 = name -> In name al_names -> String.eqb rd "=" = false ->
    more_form l [t0; rd; rs1; aq; rl] name [AStr rd; AStr rs1] [("aq", AStr aq); ("rl", AStr rl)]
| M_fence t0 name succ pred :           (* fence succ, pred *)
    lower t0 = name -> In name fence_names -> String.eqb succ "=" = false ->
    more_form l [t0; succ; pred] name [AStr succ; AStr pred] []
| M_ie t0 name :                        (* ecall / ebreak / fence.i *)
    lower t0 = name -> In name ie_names -> more_form l [t0] name [] []
| M_csr t0 name rd src tok a v :        (* csrrw .. csrrci  rd, rs1 | uimm, csr *)
    lower t0 = name -> In name csr_names -> String.eqb rd "=" = false -> String.eqb tok "(" = false ->
    parse_immediate [tok] l = FOk (EArith a) -> closed a v ->
    more_form l [t0; rd; src; tok] name [AStr rd; AStr src; AInt v] []
| M_iparen t0 name rd off rs1 a v :     (* lb lh lw lbu lhu jalr  rd, imm(rs1) *)
    lower t0 = name -> In name paren_i_names -> String.eqb rd "=" = false ->
    parse_immediate [off] l = FOk (EArith a) -> closed a v ->
    more_form l [t0; rd; off; "("; rs1; ")"] name [AStr rd; AStr rs1; AInt v] []
| M_sparen t0 name rs2 off rs1 a v :    (* sb sh sw  rs2, imm(rs1) *)
    lower t0 = name -> In name paren_s_names -> String.eqb rs2 "=" = false ->
    parse_immediate [off] l = FOk (EArith a) -> closed a v ->
    more_form l [t0; rs2; off; "("; rs1; ")"] name [AStr rs1; AStr rs2; AInt v] [].

Lemma tables_more :
  forallb (fun n => mem_str n base_mnemonics) (a_names ++ al_names ++ fence_names ++ ie_names ++ csr_names ++ paren_i_names ++ paren_s_names) = true
  /\ forallb (fun n => mem_str n i_names) (csr_names ++ paren_i_names) = true.
Proof. vm_compute. auto. Qed.
Lemma table_more n : In n (a_names ++ al_names ++ fence_names ++ ie_names ++ csr_names ++ paren_i_names ++ paren_s_names) -> In n base_mnemonics.
Proof. intro H. pose proof (proj1 tables_more) as T. rewrite forallb_forall in T. apply AcceptMono.mem_in. apply T. exact H. Qed.
Lemma csr_i_name n : In n csr_names -> In n i_names.
Proof.
  intro H. pose proof (proj2 tables_more) as T. rewrite forallb_forall in T. apply AcceptMono.mem_in. apply T. apply in_or_app. left. exact H.
Qed.

(* what resolve_instructions makes of the item: the encoder's answer on exactly these operands *)
Definition enc_answer (l : line) (r : res Z) : outcome (list Z) :=
  match r with
  | Ok code => Done (le_bytes 4 code)
  | Err ValueError => if conv_instr_ve then Fail (PAsm l) else Fail (PRaw ValueError)
  | Err e => Fail (PRaw e)
  end.
Definition enc_link (l : line) (cls name : string) (fs : list (string * fval)) (pos : list arg) (kw : list (string * arg)) : Prop :=
  encode_item l cls name (set_lit fs) false = enc_answer l (encode name pos kw).
Lemma enc_atomic l cls name fs pos aq rl :
  is_atomic_cls cls = true -> field_get "imm" fs = None -> split_last2 (args_of fs) = Some (pos, aq, rl) ->
  enc_link l cls name fs pos [("aq", aq); ("rl", rl)].
Proof. intros Hat Hi Hs. unfold enc_link. rewrite (noimm_lit _ Hi). unfold encode_item. rewrite Hat, Hs. reflexivity. Qed.
Lemma enc_plain l cls name fs pos :
  is_atomic_cls cls = false -> args_of (set_lit fs) = pos -> enc_link l cls name fs pos [].
Proof. intros Hat Ha. unfold enc_link, encode_item. rewrite Hat, Ha. reflexivity. Qed.

Lemma more_form_item l toks name pos kw : more_form l toks name pos kw ->
  exists t ts cls fs, toks = t :: ts /\ parse_item l toks = FOk (IInstr cls name fs false) /\ closed_imm fs /\
    enc_link l cls name fs pos kw /\ In name base_mnemonics.
Proof.
  intros [t0 n rd rs1 rs2 Hl Hn Hrd|t0 n rd rs1 rs2 aq rl Hl Hn Hrd|t0 n rd rs1 Hl Hn Hrd|t0 n rd rs1 aq rl Hl Hn Hrd|
          t0 n succ pred Hl Hn Hrd|t0 n Hl Hn|t0 n rd src tok a v Hl Hn Hrd Ht Hp Ha|t0 n rd off rs1 a v Hl Hn Hrd Hp Ha|
          t0 n rs2 off rs1 a v Hl Hn Hrd Hp Ha].
  - do 4 eexists. split; [reflexivity|]. split; [apply (a3_parse l t0 n rd rs1 rs2); auto|].
    split; [intros x Hx; cbn in Hx; discriminate|]. split; [apply enc_atomic; reflexivity|]. apply table_more. apply in_or_app. left. exact Hn.
  - do 4 eexists. split; [reflexivity|]. split; [apply (a5_parse l t0 n rd rs1 rs2 aq rl); auto|].
    split; [intros x Hx; cbn in Hx; discriminate|]. split; [apply enc_atomic; reflexivity|]. apply table_more. apply in_or_app. left. exact Hn.
  - do 4 eexists. split; [reflexivity|]. split; [apply (al2_parse l t0 n rd rs1); auto|].
    split; [intros x Hx; cbn in Hx; discriminate|]. split; [apply enc_atomic; reflexivity|]. apply table_more. apply in_or_app. right. apply in_or_app. left. exact Hn.
  - do 4 eexists. split; [reflexivity|]. split; [apply (al4_parse l t0 n rd rs1 aq rl); auto|].
    split; [intros x Hx; cbn in Hx; discriminate|]. split; [apply enc_atomic; reflexivity|]. apply table_more. apply in_or_app. right. apply in_or_app. left. exact Hn.
  - do 4 eexists. split; [reflexivity|]. split; [apply (fence2_parse l t0 n succ pred); auto|].
    split; [intros x Hx; cbn in Hx; discriminate|]. split; [apply enc_plain; reflexivity|]. apply table_more. do 2 (apply in_or_app; right). apply in_or_app. left. exact Hn.
  - do 4 eexists. split; [reflexivity|]. split; [apply (ie_parse l t0 n); auto|].
    split; [intros x Hx; cbn in Hx; discriminate|]. split; [apply enc_plain; reflexivity|]. apply table_more. do 3 (apply in_or_app; right). apply in_or_app. left. exact Hn.
  - do 4 eexists. split; [reflexivity|]. split; [apply (i_parse l t0 n rd src tok _ Hl (csr_i_name _ Hn) Hrd Ht Hp)|].
    split; [closed_imm_tac|]. split; [apply enc_plain; [reflexivity|args_tac Ha]|]. apply table_more. do 4 (apply in_or_app; right). apply in_or_app. left. exact Hn.
  - do 4 eexists. split; [reflexivity|]. split; [apply (i_paren_parse l t0 n rd off rs1 _ Hl Hn Hrd Hp)|].
    split; [closed_imm_tac|]. split; [apply enc_plain; [reflexivity|args_tac Ha]|]. apply table_more. do 5 (apply in_or_app; right). apply in_or_app. left. exact Hn.
  - do 4 eexists. split; [reflexivity|]. split; [apply (s_paren_parse l t0 n rs2 off rs1 _ Hl Hn Hrd Hp)|].
    split; [closed_imm_tac|]. split; [apply enc_plain; [reflexivity|args_tac Ha]|]. apply table_more. do 6 (apply in_or_app; right). exact Hn.
Qed.

(* ---- what "the line assembles to the bytes bs" means: at the level of the tokens (parser model + the 16 passes) AND, for every text
   the lexer model reads as these tokens, at the level of the text (Proofs/Program.v assemble_text) ------------------------------------ *)
Definition chunk_result (l : line) (bs : list Z) : result := {| r_chunks := [(l, CBytes bs)]; r_consts := []; r_labels := [] |}.
Definition line_gives (l : line) (toks : list string) (cmp : bool) (bs : list Z) : Prop :=
  (exists it, parse_item l toks = FOk it /\ assemble_items [(l, it)] [] [] cmp = Done (chunk_result l bs)) /\
  (forall text, lex_tokens text = Some toks -> assemble_text [(l, text)] [] [] cmp = TDone (chunk_result l bs)).
Lemma line_gives_intro l t ts it cmp bs :
  parse_item l (t :: ts) = FOk it -> assemble_items [(l, it)] [] [] cmp = Done (chunk_result l bs) -> line_gives l (t :: ts) cmp bs.
Proof.
  intros Hp Ha. split; [eauto|]. intros text Hlex. unfold assemble_text. rewrite (front_single _ _ _ _ _ Hlex Hp), Ha. reflexivity.
Qed.

(* the encoder's word, in both modes (with compression on: for every mnemonic that heads no compression rule) *)
Theorem more_line_word l toks name pos kw w cmp :
  more_form l toks name pos kw -> encode name pos kw = Ok w ->
  (cmp = true -> mem_str name compress_heads = false) ->
  line_gives l toks cmp (le_bytes 4 w).
Proof.
  intros Hf Hw Hc. destruct (more_form_item _ _ _ _ _ Hf) as (t & ts & cls & fs & -> & Hp & Hcl & He & _).
  eapply line_gives_intro; [exact Hp|]. apply one_instr_assembles; auto. rewrite He, Hw. reflexivity.
Qed.

(* ... and that word decodes to the instruction the operands name (C01 decode_encode); the operands are legal (C06 exact32) *)
Theorem more_line_end_to_end l toks name pos kw w cmp :
  more_form l toks name pos kw -> encode name pos kw = Ok w ->
  (cmp = true -> mem_str name compress_heads = false) ->
  line_gives l toks cmp (le_bytes 4 w) /\ 0 <= w < 2 ^ 32 /\
  exists ops i, operands32 name pos kw = Some ops /\ legal32 name ops = true /\ denote32 name ops = Some i /\ decode32 w = Some i.
Proof.
  intros Hf Hw Hc. split; [eapply more_line_word; eauto|].
  destruct (more_form_item _ _ _ _ _ Hf) as (_ & _ & _ & _ & _ & _ & _ & _ & Hb).
  destruct (decode_encode name pos kw w Hb Hw) as (Hr & ops & i & H1 & H2 & H3). split; [exact Hr|].
  exists ops, i. split; [exact H1|]. split; [|auto].
  destruct (proj1 (exact32 name pos kw Hb) (ex_intro _ w Hw)) as (ops' & E & Hleg). congruence.
Qed.

(* accepted exactly when the operands as written are readable and inside the documented set; otherwise the assembler's error *)
Theorem more_line_accepted l toks name pos kw ops i cmp :
  more_form l toks name pos kw -> operands32 name pos kw = Some ops -> legal32 name ops = true -> denote32 name ops = Some i ->
  (cmp = true -> mem_str name compress_heads = false) ->
  exists w, encode name pos kw = Ok w /\ line_gives l toks cmp (le_bytes 4 w) /\ 0 <= w < 2 ^ 32 /\ decode32 w = Some i.
Proof.
  intros Hf Ho Hleg Hd Hc. destruct (more_form_item _ _ _ _ _ Hf) as (_ & _ & _ & _ & _ & _ & _ & _ & Hb).
  destruct (proj2 (exact32 name pos kw Hb) (ex_intro _ ops (conj Ho Hleg))) as [w Hw]. exists w. split; [exact Hw|].
  destruct (more_line_end_to_end l toks name pos kw w cmp Hf Hw Hc) as (A & B & ops' & i' & C & _ & D & E).
  split; [exact A|]. split; [exact B|]. congruence.
Qed.

(* ---- the other half: operands the encoder refuses -> the assembler's own error at the line, in both modes (C06 for these families;
   Proofs/LegalLine.v has it for the R / I / S / U / B / J tables and excludes the atomics) ---------------------------------------------- *)
Definition line_fails (l : line) (toks : list string) (cmp : bool) : Prop :=
  (exists it, parse_item l toks = FOk it /\ assemble_items [(l, it)] [] [] cmp = Fail (PAsm l)) /\
  (forall text, lex_tokens text = Some toks -> assemble_text [(l, text)] [] [] cmp = TFail (PAsm l)).
Lemma okb_set_lit cls name fs : instr_okb false cls name fs = true -> closed_imm fs -> instr_okb true cls name (set_lit fs) = true.
Proof.
  intros Hok Hcl. unfold instr_okb in *. destruct (assoc_str cls class_sig) as [[names kinds]|]; try discriminate.
  destruct (class_keys cls) as [keys|]; try discriminate.
  apply andb_prop in Hok. destruct Hok as [Hok Hs]. rewrite Hok. cbn [andb].
  apply andb_prop in Hok. destruct Hok as [_ Hc]. apply shape_set_lit; auto.
Qed.
Theorem more_line_refused l toks name pos kw cmp :
  more_form l toks name pos kw -> (forall w, encode name pos kw <> Ok w) ->
  (cmp = true -> mem_str name compress_heads = false) ->
  line_fails l toks cmp.
Proof.
  intros Hf Hno Hc. destruct (more_form_item _ _ _ _ _ Hf) as (t & ts & cls & fs & -> & Hp & Hcl & He & _).
  assert (Ha : assemble_items [(l, IInstr cls name fs false)] [] [] cmp = Fail (PAsm l)).
  { apply one_instr_fails; auto.
    pose proof (encode_item_good encode_total l cls name (set_lit fs) false (okb_set_lit _ _ _ (parsed_instr_ok _ _ _ _ _ _ Hp) Hcl)) as G.
    unfold enc_link in He. rewrite He in *. destruct (encode name pos kw) as [w|e]; [exfalso; exact (Hno w eq_refl)|].
    destruct e; cbn in G; try contradiction. cbn [enc_answer]. change conv_instr_ve with true. reflexivity. }
  split; [eauto|]. intros text Hlex. unfold assemble_text. rewrite (front_single _ _ _ _ _ Hlex Hp), Ha. reflexivity.
Qed.
(* legality of the operands as written (Spec/Operands.v + Spec/Legal.v only), with keyword operands *)
Definition legal_line32 (name : string) (pos : list arg) (kw : list (string * arg)) : bool :=
  match operands32 name pos kw with Some ops => legal32 name ops | None => false end.
Theorem more_line_exact l toks name pos kw cmp :
  more_form l toks name pos kw -> (cmp = true -> mem_str name compress_heads = false) ->
  if legal_line32 name pos kw
  then exists w i, encode name pos kw = Ok w /\ line_gives l toks cmp (le_bytes 4 w) /\ decode32 w = Some i /\
                   exists ops, operands32 name pos kw = Some ops /\ denote32 name ops = Some i
  else line_fails l toks cmp.
Proof.
  intros Hf Hc. pose proof (more_form_item _ _ _ _ _ Hf) as (_ & _ & _ & _ & _ & _ & _ & _ & Hb).
  unfold legal_line32. destruct (operands32 name pos kw) as [ops|] eqn:Eo; [destruct (legal32 name ops) eqn:El|].
  - destruct (proj2 (exact32 name pos kw Hb) (ex_intro _ ops (conj Eo El))) as [w Hw].
    destruct (more_line_end_to_end l toks name pos kw w cmp Hf Hw Hc) as (A & _ & ops' & i & B & _ & C & D).
    exists w, i. split; [exact Hw|]. split; [exact A|]. split; [exact D|]. exists ops'. split; [congruence|exact C].
  - apply (more_line_refused l toks name pos kw cmp Hf); auto. intros w Hw.
    destruct (proj1 (exact32 name pos kw Hb) (ex_intro _ w Hw)) as (ops' & E & Hleg). congruence.
  - apply (more_line_refused l toks name pos kw cmp Hf); auto. intros w Hw.
    destruct (proj1 (exact32 name pos kw Hb) (ex_intro _ w Hw)) as (ops' & E & Hleg). congruence.
Qed.

(* ==== the families, stated with the Spec's constructors ============================================================================== *)
Lemma operands32_kinds name ks b pos kw : sassoc name kinds32 = Some (ks, b) ->
  operands32 name pos kw =
  if b then match read_ops ks pos, kwbit kw "aq", kwbit kw "rl" with Some l, Some aq, Some rl => Some (l ++ [aq; rl])%list | _, _, _ => None end
  else read_ops ks pos.
Proof. intro H. unfold operands32. rewrite H. destruct b; reflexivity. Qed.
Lemma kwbit_aq x y : kwbit [("aq", x); ("rl", y)] "aq" = intnum x. Proof. reflexivity. Qed.
Lemma kwbit_rl x y : kwbit [("aq", x); ("rl", y)] "rl" = intnum y. Proof. reflexivity. Qed.
Lemma isreg_regnum a n : regnum a = Some n -> isreg n = true.
Proof. intro H. apply regnum_range in H. unfold isreg, between. apply andb_true_intro. split; apply Z.leb_le; lia. Qed.
Lemma between_intro lo hi z : lo <= z <= hi -> between lo hi z = true.
Proof. intro H. unfold between. apply andb_true_intro. split; apply Z.leb_le; lia. Qed.

(* the two ordering operands: absent (aq = rl = 0) or two integer literals 0 / 1 *)
Definition bit01 (s : string) : option Z :=
  match py_int_lit s with Some z => if ((0 <=? z) && (z <=? 1))%Z then Some z else None | None => None end.
Definition ord_bits (ord : list string) : option (Z * Z) :=
  match ord with
  | [] => Some (0, 0)
  | [a; r] => match bit01 a, bit01 r with Some x, Some y => Some (x, y) | _, _ => None end
  | _ => None
  end.
(* ... as the encoder receives them (keyword arguments) *)
Definition ord_kw (ord : list string) : list (string * arg) :=
  match ord with [a; r] => [("aq", AStr a); ("rl", AStr r)] | _ => [("aq", AInt 0); ("rl", AInt 0)] end.
Lemma bit01_spec s z : bit01 s = Some z -> py_int_lit s = Some z /\ between 0 1 z = true.
Proof.
  unfold bit01, between. destruct (py_int_lit s) as [v|]; [|discriminate]. destruct ((0 <=? v) && (v <=? 1))%Z eqn:E; [|discriminate].
  intro H. inversion H; subst. auto.
Qed.
Lemma ord_bits_spec ord aq rl : ord_bits ord = Some (aq, rl) ->
  kwbit (ord_kw ord) "aq" = Some aq /\ kwbit (ord_kw ord) "rl" = Some rl /\ between 0 1 aq = true /\ between 0 1 rl = true /\
  (ord = [] \/ exists a r, ord = [a; r]).
Proof.
  destruct ord as [|a [|r [|x ord]]]; cbn [ord_bits]; try discriminate.
  - intro H. inversion H; subst. repeat split; auto.
  - destruct (bit01 a) as [x|] eqn:Ea; [|discriminate]. destruct (bit01 r) as [y|] eqn:Er; [|discriminate].
    intro H. inversion H; subst. destruct (bit01_spec _ _ Ea) as [A1 A2]. destruct (bit01_spec _ _ Er) as [B1 B2].
    cbn [ord_kw]. rewrite kwbit_aq, kwbit_rl. cbn [intnum]. repeat split; eauto.
Qed.

Ltac legal_tac := unfold legal32; close_more; cbv beta iota zeta.

(* a register spelling / an integer literal is not the token `=`; a literal is not the token `(` *)
Lemma regnum_not_eq s n : regnum (AStr s) = Some n -> String.eqb s "=" = false.
Proof. intro H. destruct (String.eqb s "=") eqn:E; [|reflexivity]. apply String.eqb_eq in E. subst s. vm_compute in H. discriminate. Qed.
Lemma int_not_eq s n : py_int_lit s = Some n -> String.eqb s "=" = false.
Proof. intro H. destruct (String.eqb s "=") eqn:E; [|reflexivity]. apply String.eqb_eq in E. subst s. vm_compute in H. discriminate. Qed.
Lemma closed_not_paren l tok a v : parse_immediate [tok] l = FOk (EArith a) -> closed a v -> String.eqb tok "(" = false.
Proof.
  intros Hp Ha. destruct (String.eqb tok "(") eqn:E; [|reflexivity]. apply String.eqb_eq in E. subst tok.
  vm_compute in Hp. inversion Hp; subst a. discriminate Ha.
Qed.

(* ---- amo*.w ------------------------------------------------------------------------------------------------------------------------- *)
Theorem amo_line l t0 o rd rs1 rs2 ord nrd nrs1 nrs2 aq rl cmp :
  lower t0 = amoop_name o ->
  regnum (AStr rd) = Some nrd -> regnum (AStr rs1) = Some nrs1 -> regnum (AStr rs2) = Some nrs2 -> ord_bits ord = Some (aq, rl) ->
  exists w, encode (amoop_name o) [AStr rd; AStr rs1; AStr rs2] (ord_kw ord) = Ok w /\
    line_gives l (t0 :: rd :: rs1 :: rs2 :: ord) cmp (le_bytes 4 w) /\ 0 <= w < 2 ^ 32 /\
    decode32 w = Some (Amo o nrd nrs1 nrs2 aq rl).
Proof.
  intros Hl H1 H2 H3 Ho. pose proof (regnum_not_eq _ _ H1) as Hrd. destruct (ord_bits_spec _ _ _ Ho) as (Ka & Kr & Ba & Br & Hord).
  assert (Hn : In (amoop_name o) a_names) by (destruct o; vm_compute; auto 20).
  assert (Hk : sassoc (amoop_name o) kinds32 = Some ([KReg; KReg; KReg], true)) by (destruct o; reflexivity).
  apply (more_line_accepted l _ (amoop_name o) _ _ [nrd; nrs1; nrs2; aq; rl]).
  - destruct Hord as [->|(a & r & ->)]; [apply M_a3|apply M_a5]; auto.
  - rewrite (operands32_kinds _ _ _ _ _ Hk). cbn [read_ops read_op]. rewrite H1, H2, H3, Ka, Kr. reflexivity.
  - destruct o; cbn [amoop_name]; legal_tac; rewrite ?(isreg_regnum _ _ H1), ?(isreg_regnum _ _ H2), ?(isreg_regnum _ _ H3), ?Ba, ?Br; reflexivity.
  - destruct o; reflexivity.
  - intros _. destruct o; vm_compute; reflexivity.
Qed.

(* ---- sc.w / lr.w -------------------------------------------------------------------------------------------------------------------- *)
Theorem sc_line l t0 rd rs1 rs2 ord nrd nrs1 nrs2 aq rl cmp :
  lower t0 = "sc.w" ->
  regnum (AStr rd) = Some nrd -> regnum (AStr rs1) = Some nrs1 -> regnum (AStr rs2) = Some nrs2 -> ord_bits ord = Some (aq, rl) ->
  exists w, encode "sc.w" [AStr rd; AStr rs1; AStr rs2] (ord_kw ord) = Ok w /\
    line_gives l (t0 :: rd :: rs1 :: rs2 :: ord) cmp (le_bytes 4 w) /\ 0 <= w < 2 ^ 32 /\
    decode32 w = Some (ScW nrd nrs1 nrs2 aq rl).
Proof.
  intros Hl H1 H2 H3 Ho. pose proof (regnum_not_eq _ _ H1) as Hrd. destruct (ord_bits_spec _ _ _ Ho) as (Ka & Kr & Ba & Br & Hord).
  assert (Hn : In "sc.w" a_names) by (vm_compute; auto 20).
  assert (Hk : sassoc "sc.w" kinds32 = Some ([KReg; KReg; KReg], true)) by reflexivity.
  apply (more_line_accepted l _ "sc.w" _ _ [nrd; nrs1; nrs2; aq; rl]).
  - destruct Hord as [->|(a & r & ->)]; [apply M_a3|apply M_a5]; auto.
  - rewrite (operands32_kinds _ _ _ _ _ Hk). cbn [read_ops read_op]. rewrite H1, H2, H3, Ka, Kr. reflexivity.
  - legal_tac. rewrite (isreg_regnum _ _ H1), (isreg_regnum _ _ H2), (isreg_regnum _ _ H3), Ba, Br. reflexivity.
  - reflexivity.
  - intros _. vm_compute. reflexivity.
Qed.
Theorem lr_line l t0 rd rs1 ord nrd nrs1 aq rl cmp :
  lower t0 = "lr.w" ->
  regnum (AStr rd) = Some nrd -> regnum (AStr rs1) = Some nrs1 -> ord_bits ord = Some (aq, rl) ->
  exists w, encode "lr.w" [AStr rd; AStr rs1] (ord_kw ord) = Ok w /\
    line_gives l (t0 :: rd :: rs1 :: ord) cmp (le_bytes 4 w) /\ 0 <= w < 2 ^ 32 /\
    decode32 w = Some (LrW nrd nrs1 aq rl).
Proof.
  intros Hl H1 H2 Ho. pose proof (regnum_not_eq _ _ H1) as Hrd. destruct (ord_bits_spec _ _ _ Ho) as (Ka & Kr & Ba & Br & Hord).
  assert (Hn : In "lr.w" al_names) by (vm_compute; auto).
  assert (Hk : sassoc "lr.w" kinds32 = Some ([KReg; KReg], true)) by reflexivity.
  apply (more_line_accepted l _ "lr.w" _ _ [nrd; nrs1; aq; rl]).
  - destruct Hord as [->|(a & r & ->)]; [apply M_al2|apply M_al4]; auto.
  - rewrite (operands32_kinds _ _ _ _ _ Hk). cbn [read_ops read_op]. rewrite H1, H2, Ka, Kr. reflexivity.
  - legal_tac. rewrite (isreg_regnum _ _ H1), (isreg_regnum _ _ H2), Ba, Br. reflexivity.
  - reflexivity.
  - intros _. vm_compute. reflexivity.
Qed.

(* ---- fence succ, pred (the assembler's documented operand order) -------------------------------------------------------------------- *)
Theorem fence_line l t0 succ pred ns np cmp :
  lower t0 = "fence" ->
  py_int_lit succ = Some ns -> py_int_lit pred = Some np -> 0 <= ns <= 15 -> 0 <= np <= 15 ->
  exists w, encode "fence" [AStr succ; AStr pred] [] = Ok w /\
    line_gives l [t0; succ; pred] cmp (le_bytes 4 w) /\ 0 <= w < 2 ^ 32 /\
    decode32 w = Some (Fence 0 np ns).
Proof.
  intros Hl H1 H2 B1 B2. pose proof (int_not_eq _ _ H1) as Hrd.
  assert (Hn : In "fence" fence_names) by (vm_compute; auto).
  assert (Hk : sassoc "fence" kinds32 = Some ([KSet; KSet], false)) by reflexivity.
  apply (more_line_accepted l _ "fence" _ _ [ns; np]).
  - apply M_fence; auto.
  - rewrite (operands32_kinds _ _ _ _ _ Hk). cbn [read_ops read_op intnum]. rewrite H1, H2. reflexivity.
  - legal_tac. rewrite (between_intro _ _ _ B1), (between_intro _ _ _ B2). reflexivity.
  - reflexivity.
  - intros _. vm_compute. reflexivity.
Qed.

(* ---- ecall / ebreak / fence.i: the words themselves --------------------------------------------------------------------------------- *)
Lemma ie_line l t0 name w i cmp :
  lower t0 = name -> In name ie_names -> encode name [] [] = Ok w -> denote32 name [] = Some i ->
  (cmp = true -> mem_str name compress_heads = false) ->
  line_gives l [t0] cmp (le_bytes 4 w) /\ decode32 w = Some i.
Proof.
  intros Hl Hn Hw Hd Hc. destruct (more_line_end_to_end l [t0] name [] [] w cmp (M_ie l t0 name Hl Hn) Hw Hc) as (A & _ & ops & i' & B & _ & C & D).
  split; [exact A|]. assert (Hk : sassoc name kinds32 = Some ([], false)).
  { unfold ie_names in Hn. vm_compute in Hn. repeat (destruct Hn as [<-|Hn]; [reflexivity|]). contradiction. }
  rewrite (operands32_kinds _ _ _ _ _ Hk) in B. cbn [read_ops] in B. inversion B; subst ops. congruence.
Qed.
Theorem ecall_line l t0 cmp : lower t0 = "ecall" -> line_gives l [t0] cmp (le_bytes 4 115) /\ decode32 115 = Some Ecall.
Proof. intro Hl. apply (ie_line l t0 "ecall" 115 Ecall cmp Hl); [vm_compute; auto|reflexivity|reflexivity|intros _; reflexivity]. Qed.
Theorem fence_i_line l t0 cmp : lower t0 = "fence.i" -> line_gives l [t0] cmp (le_bytes 4 4111) /\ decode32 4111 = Some FenceI.
Proof. intro Hl. apply (ie_line l t0 "fence.i" 4111 FenceI cmp Hl); [vm_compute; auto|reflexivity|reflexivity|intros _; reflexivity]. Qed.
Theorem ebreak_line l t0 : lower t0 = "ebreak" -> line_gives l [t0] false (le_bytes 4 1048691) /\ decode32 1048691 = Some Ebreak.
Proof. intro Hl. apply (ie_line l t0 "ebreak" 1048691 Ebreak false Hl); [vm_compute; auto|reflexivity|reflexivity|discriminate]. Qed.
(* with compression on, `ebreak` becomes c.ebreak (the one rule without operands): two bytes, the halfword 0x9002, which the RV32C
   Spec decodes to the instruction that expands to EBREAK *)
Theorem ebreak_line_compressed l t0 : lower t0 = "ebreak" ->
  line_gives l [t0] true (le_bytes 2 36866) /\ encode "c.ebreak" [] [] = Ok 36866 /\
  decode16 36866 = Some CEbreak /\ expand_c CEbreak = Ebreak.
Proof.
  intro Hl. split; [|repeat split; reflexivity].
  eapply line_gives_intro; [apply (ie_parse l t0 "ebreak" Hl); vm_compute; auto|]. vm_compute. reflexivity.
Qed.
(* `fence` alone: the pseudo-instruction, fence iorw, iorw *)
Theorem fence_alone_line l t0 cmp : lower t0 = "fence" ->
  line_gives l [t0] cmp (le_bytes 4 267386895) /\ encode "fence" [AInt 15; AInt 15] [] = Ok 267386895 /\
  decode32 267386895 = Some (Fence 0 15 15).
Proof.
  intro Hl. split; [|split; reflexivity].
  eapply line_gives_intro; [apply (fence0_parse l t0 "fence" Hl); vm_compute; auto|]. destruct cmp; vm_compute; reflexivity.
Qed.

(* ---- Zicsr: csrrw / csrrs / csrrc rd, rs1, csr and csrrwi / csrrsi / csrrci rd, uimm, csr.  The assembler reads the second operand
   of ALL six through its register lookup: a number 0..31 in any integer spelling -- or a register name (`csrrwi t0, t1, 0x300` is
   accepted and means uimm = 6; `csrrw t0, 6, 0x300` means rs1 = x6). ------------------------------------------------------------------ *)
Theorem csr_line l t0 o rd src tok a csr nrd nsrc cmp :
  lower t0 = csrop_name o ->
  parse_immediate [tok] l = FOk (EArith a) -> closed a csr ->
  regnum (AStr rd) = Some nrd -> regnum (AStr src) = Some nsrc -> 0 <= csr <= 4095 ->
  exists w, encode (csrop_name o) [AStr rd; AStr src; AInt csr] [] = Ok w /\
    line_gives l [t0; rd; src; tok] cmp (le_bytes 4 w) /\ 0 <= w < 2 ^ 32 /\
    decode32 w = Some (Csr o nrd nsrc csr).
Proof.
  intros Hl Hp Ha H1 H2 Hc. pose proof (regnum_not_eq _ _ H1) as Hrd. pose proof (closed_not_paren _ _ _ _ Hp Ha) as Ht.
  assert (Hn : In (csrop_name o) csr_names) by (destruct o; vm_compute; auto 10).
  assert (Hk : sassoc (csrop_name o) kinds32 = Some ([KReg; KReg; KCsr], false)) by (destruct o; reflexivity).
  apply (more_line_accepted l _ (csrop_name o) _ _ [nrd; nsrc; csr]).
  - eapply M_csr; eauto.
  - rewrite (operands32_kinds _ _ _ _ _ Hk). cbn [read_ops read_op]. rewrite H1, H2. reflexivity.
  - destruct o; cbn [csrop_name]; legal_tac; rewrite (isreg_regnum _ _ H1), (isreg_regnum _ _ H2), (between_intro _ _ _ Hc); reflexivity.
  - destruct o; reflexivity.
  - intros _. destruct o; vm_compute; reflexivity.
Qed.
(* the immediate forms with the 5-bit immediate written as a number *)
Lemma uimm_regnum s z : py_int_lit s = Some z -> 0 <= z <= 31 -> regnum (AStr s) = Some z.
Proof. intros H B. cbn [regnum]. rewrite H. unfold in_regs. rewrite (proj2 (Z.leb_le 0 z)), (proj2 (Z.leb_le z 31)) by lia. reflexivity. Qed.

(* ---- the `imm(reg)` spelling ------------------------------------------------------------------------------------------------------- *)
Theorem load_paren_line l t0 wd rd off rs1 a imm nrd nrs1 cmp :
  lower t0 = lwidth_name wd ->
  parse_immediate [off] l = FOk (EArith a) -> closed a imm ->
  regnum (AStr rd) = Some nrd -> regnum (AStr rs1) = Some nrs1 -> -2048 <= imm <= 2047 ->
  (cmp = true -> wd <> LW) ->
  exists w, encode (lwidth_name wd) [AStr rd; AStr rs1; AInt imm] [] = Ok w /\
    line_gives l [t0; rd; off; "("; rs1; ")"] cmp (le_bytes 4 w) /\ 0 <= w < 2 ^ 32 /\
    decode32 w = Some (Load wd nrd nrs1 imm).
Proof.
  intros Hl Hp Ha H1 H2 Hi Hc. pose proof (regnum_not_eq _ _ H1) as Hrd.
  assert (Hn : In (lwidth_name wd) paren_i_names) by (destruct wd; vm_compute; auto 10).
  assert (Hk : sassoc (lwidth_name wd) kinds32 = Some ([KReg; KReg; KImm], false)) by (destruct wd; reflexivity).
  apply (more_line_accepted l _ (lwidth_name wd) _ _ [nrd; nrs1; imm]).
  - eapply M_iparen; eauto.
  - rewrite (operands32_kinds _ _ _ _ _ Hk). cbn [read_ops read_op]. rewrite H1, H2. reflexivity.
  - destruct wd; cbn [lwidth_name]; legal_tac; rewrite (isreg_regnum _ _ H1), (isreg_regnum _ _ H2), (between_intro _ _ _ Hi); reflexivity.
  - destruct wd; reflexivity.
  - intro E. specialize (Hc E). destruct wd; try (vm_compute; reflexivity). congruence.
Qed.
Theorem store_paren_line l t0 wd rs2 off rs1 a imm nrs1 nrs2 cmp :
  lower t0 = swidth_name wd ->
  parse_immediate [off] l = FOk (EArith a) -> closed a imm ->
  regnum (AStr rs1) = Some nrs1 -> regnum (AStr rs2) = Some nrs2 -> -2048 <= imm <= 2047 ->
  (cmp = true -> wd <> SW) ->
  exists w, encode (swidth_name wd) [AStr rs1; AStr rs2; AInt imm] [] = Ok w /\
    line_gives l [t0; rs2; off; "("; rs1; ")"] cmp (le_bytes 4 w) /\ 0 <= w < 2 ^ 32 /\
    decode32 w = Some (Store wd nrs1 nrs2 imm).
Proof.
  intros Hl Hp Ha H1 H2 Hi Hc. pose proof (regnum_not_eq _ _ H2) as Hrd.
  assert (Hn : In (swidth_name wd) paren_s_names) by (destruct wd; vm_compute; auto 10).
  assert (Hk : sassoc (swidth_name wd) kinds32 = Some ([KReg; KReg; KImm], false)) by (destruct wd; reflexivity).
  apply (more_line_accepted l _ (swidth_name wd) _ _ [nrs1; nrs2; imm]).
  - eapply M_sparen; eauto.
  - rewrite (operands32_kinds _ _ _ _ _ Hk). cbn [read_ops read_op]. rewrite H1, H2. reflexivity.
  - destruct wd; cbn [swidth_name]; legal_tac; rewrite (isreg_regnum _ _ H1), (isreg_regnum _ _ H2), (between_intro _ _ _ Hi); reflexivity.
  - destruct wd; reflexivity.
  - intro E. specialize (Hc E). destruct wd; try (vm_compute; reflexivity). congruence.
Qed.
Theorem jalr_paren_line l t0 rd off rs1 a imm nrd nrs1 :
  lower t0 = "jalr" ->
  parse_immediate [off] l = FOk (EArith a) -> closed a imm ->
  regnum (AStr rd) = Some nrd -> regnum (AStr rs1) = Some nrs1 -> -2048 <= imm <= 2047 -> imm mod 2 = 0 ->
  exists w, encode "jalr" [AStr rd; AStr rs1; AInt imm] [] = Ok w /\
    line_gives l [t0; rd; off; "("; rs1; ")"] false (le_bytes 4 w) /\ 0 <= w < 2 ^ 32 /\
    decode32 w = Some (Jalr nrd nrs1 imm).
Proof.
  intros Hl Hp Ha H1 H2 Hi He. pose proof (regnum_not_eq _ _ H1) as Hrd.
  assert (Hn : In "jalr" paren_i_names) by (vm_compute; auto 10).
  assert (Hk : sassoc "jalr" kinds32 = Some ([KReg; KReg; KImm], false)) by reflexivity.
  apply (more_line_accepted l _ "jalr" _ _ [nrd; nrs1; imm]).
  - eapply M_iparen; eauto.
  - rewrite (operands32_kinds _ _ _ _ _ Hk). cbn [read_ops read_op]. rewrite H1, H2. reflexivity.
  - legal_tac. rewrite (isreg_regnum _ _ H1), (isreg_regnum _ _ H2), (between_intro _ _ _ Hi). unfold mult. rewrite He. reflexivity.
  - reflexivity.
  - discriminate.
Qed.
(* csrrwi / csrrsi / csrrci with the 5-bit immediate written as a number (any integer spelling) *)
Definition csr_imm_op (o : csrop) : bool := match o with CSRRWI | CSRRSI | CSRRCI => true | _ => false end.
Theorem csr_imm_line l t0 o rd utok tok a csr nrd uimm cmp :
  csr_imm_op o = true -> lower t0 = csrop_name o ->
  parse_immediate [tok] l = FOk (EArith a) -> closed a csr ->
  regnum (AStr rd) = Some nrd -> py_int_lit utok = Some uimm -> 0 <= uimm <= 31 -> 0 <= csr <= 4095 ->
  exists w, encode (csrop_name o) [AStr rd; AStr utok; AInt csr] [] = Ok w /\
    line_gives l [t0; rd; utok; tok] cmp (le_bytes 4 w) /\ 0 <= w < 2 ^ 32 /\
    decode32 w = Some (Csr o nrd uimm csr).
Proof. intros _ Hl Hp Ha H1 H2 Hu Hc. eapply csr_line; eauto. apply uimm_regnum; auto. Qed.

(* ---- from the TEXT in any separator style (indentation, blanks / tabs / commas, trailing comment: Proofs/LexSep.v) ------------------- *)
From BB Require Import Proofs.LexSep.
Theorem line_gives_styles (sty : style) l toks cmp bs :
  let ts := map chars toks in
  line_gives l toks cmp bs -> Forall tok_ok ts -> not_special ts -> style_ok sty ts ->
  assemble_text [(l, unchars (render sty ts))] [] [] cmp = TDone (chunk_result l bs).
Proof.
  intros ts [_ H] Ht Hs Hsty. apply H. unfold lex_tokens. unfold chars at 1, unchars at 1. rewrite list_ascii_of_string_of_list_ascii.
  rewrite (lex_render sty ts Ht Hs Hsty). unfold ts. rewrite unchars_chars_map. reflexivity.
Qed.

(* the reading of the ordering operands, spelled out *)
Lemma bit01_iff s z : bit01 s = Some z <-> (py_int_lit s = Some z /\ 0 <= z <= 1).
Proof.
  split.
  - intro H. destruct (bit01_spec _ _ H) as [A B]. split; [exact A|]. unfold between in B. apply andb_prop in B. destruct B as [B1 B2].
    apply Z.leb_le in B1, B2. lia.
  - intros [A B]. unfold bit01. rewrite A. rewrite (proj2 (Z.leb_le 0 z)), (proj2 (Z.leb_le z 1)) by lia. reflexivity.
Qed.
Lemma ordering_operands :
  ord_bits [] = Some (0, 0) /\ ord_kw [] = [("aq", AInt 0); ("rl", AInt 0)] /\
  forall a r, ord_kw [a; r] = [("aq", AStr a); ("rl", AStr r)] /\
    forall aq rl, ord_bits [a; r] = Some (aq, rl) <-> (py_int_lit a = Some aq /\ py_int_lit r = Some rl /\ 0 <= aq <= 1 /\ 0 <= rl <= 1).
Proof.
  split; [reflexivity|]. split; [reflexivity|]. intros a r. split; [reflexivity|]. intros aq rl. cbn [ord_bits]. split.
  - destruct (bit01 a) as [x|] eqn:Ea; [|discriminate]. destruct (bit01 r) as [y|] eqn:Er; [|discriminate].
    intro H. inversion H; subst. apply bit01_iff in Ea, Er. tauto.
  - intros (A & B & C & D). rewrite (proj2 (bit01_iff a aq) (conj A C)), (proj2 (bit01_iff r rl) (conj B D)). reflexivity.
Qed.

(* ---- the parser's dispatch tables of the 32-bit classes (regenerated from the source) are exactly the 66 mnemonics of the Spec:
   every mnemonic of the property is the subject of one of the line theorems (Proofs/EndToEnd.v for the first six tables) ------------- *)
Definition line_tables : list string :=
  (r3_names ++ i_names ++ s_names ++ u_names ++ b_names ++ j_names ++ fence_names ++ ie_names ++ a_names ++ al_names)%list.
Lemma mem_str_In n l : mem_str n l = true <-> In n l.
Proof.
  unfold mem_str. rewrite existsb_exists. split.
  - intros (x & Hx & E). apply String.eqb_eq in E. subst. exact Hx.
  - intro H. exists n. split; [exact H|apply String.eqb_refl].
Qed.
Theorem tables_cover_base : forall name, In name base_mnemonics <-> In name line_tables.
Proof.
  assert (A : forallb (fun n => mem_str n line_tables) base_mnemonics = true) by (vm_compute; reflexivity).
  assert (B : forallb (fun n => mem_str n base_mnemonics) line_tables = true) by (vm_compute; reflexivity).
  rewrite forallb_forall in A, B. intro name. split; intro H; apply mem_str_In; auto.
Qed.
