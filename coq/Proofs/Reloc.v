(* %hi / %lo: theorems about the GENERATED sign_extend / relocate_hi / relocate_lo. *)
From Coq Require Import ZArith List Bool Lia ZifyBool.
From BB Require Import Base.Bits Base.PyBase Gen.Encoders.
Open Scope Z_scope.

Lemma land_pow2 a k : 0 <= k -> Z.land a (2^k) = ((a / 2^k) mod 2) * 2^k.
Proof.
  intros Hk. rewrite <- Z.testbit_spec' by lia.
  apply Z.bits_inj'. intros n Hn.
  rewrite Z.land_spec, Z.pow2_bits_eqb by lia.
  destruct (Z.eqb_spec k n) as [->|Hne].
  - rewrite andb_true_r. destruct (Z.testbit a n); cbn [Z.b2z]; rewrite ?Z.mul_1_l, ?Z.mul_0_l.
    + rewrite Z.pow2_bits_eqb by lia. rewrite Z.eqb_refl. reflexivity.
    + rewrite Z.bits_0. reflexivity.
  - rewrite andb_false_r. destruct (Z.testbit a k); cbn [Z.b2z]; rewrite ?Z.mul_1_l, ?Z.mul_0_l.
    + rewrite Z.pow2_bits_eqb by lia. symmetry. apply Z.eqb_neq. auto.
    + rewrite Z.bits_0. reflexivity.
Qed.

Lemma sign_extend_sext v b : 1 <= b -> 0 <= v < 2^b -> sign_extend v b = sext v b.
Proof.
  intros Hb Hv. unfold sign_extend, sext. cbv zeta.
  rewrite Z.shiftl_1_l.
  rewrite land_ones_mod by lia. rewrite land_pow2 by lia.
  assert (Hp: 2^b = 2 * 2^(b-1)) by (replace b with (1 + (b-1)) at 1 by lia; rewrite Z.pow_add_r by lia; reflexivity).
  assert (Hpos: 0 < 2^(b-1)) by (apply Z.pow_pos_nonneg; lia).
  set (p := 2^(b-1)) in *.
  destruct (v <? p) eqn:E.
  - rewrite (Z.div_small v p) by lia. rewrite Z.mod_small by lia. rewrite Z.mod_0_l by lia. lia.
  - assert (Hq: v / p = 1) by (symmetry; apply Z.div_unique with (r := v - p); lia).
    rewrite Hq. change (1 mod 2) with 1.
    assert (Hm: v mod p = v - p) by (symmetry; apply Z.mod_unique with (q := 1); lia).
    lia.
Qed.

Lemma relocate_lo_eq v : relocate_lo v = sext (v mod 4096) 12.
Proof.
  unfold relocate_lo. change 4095 with (2^12 - 1). rewrite land_ones_mod by lia.
  apply sign_extend_sext; [lia|]. apply Z.mod_pos_bound; lia.
Qed.

Lemma relocate_hi_eq v :
  relocate_hi v = sext (((v + (if (v / 2048) mod 2 =? 0 then 0 else 4096)) / 4096) mod 2^20) 20.
Proof.
  unfold relocate_hi. cbv zeta.
  change 2048 with (2^11) at 1. rewrite land_pow2 by lia.
  change 1048575 with (2^20 - 1). rewrite land_ones_mod by lia.
  rewrite Z.shiftr_div_pow2 by lia.
  change (2^11) with 2048. change (2^12) with 4096.
  assert (Hb: 0 <= (v / 2048) mod 2 < 2) by (apply Z.mod_pos_bound; lia).
  destruct ((v / 2048) mod 2 =? 0) eqn:E.
  - apply Z.eqb_eq in E. rewrite E. simpl (negb _). cbv iota. rewrite Z.add_0_r.
    apply sign_extend_sext; [lia|]. apply Z.mod_pos_bound; lia.
  - apply Z.eqb_neq in E.
    assert (Hne: ((v / 2048) mod 2 * 2048 =? 0) = false) by lia.
    rewrite Hne. simpl (negb _). cbv iota.
    apply sign_extend_sext; [lia|]. apply Z.mod_pos_bound; lia.
Qed.

Ltac Zify.zify_post_hook ::= Z.to_euclidean_division_equations.

Theorem lo_range v : -2048 <= relocate_lo v < 2048.
Proof.
  rewrite relocate_lo_eq.
  pose proof (sext_range (v mod 4096) 12) as H. change (2^(12-1)) with 2048 in H.
  apply H; [lia|]. apply Z.mod_pos_bound; lia.
Qed.

Theorem hi_range v : -524288 <= relocate_hi v < 524288.
Proof.
  rewrite relocate_hi_eq.
  match goal with |- _ <= sext ?x 20 < _ => pose proof (sext_range x 20) as H end.
  change (2^(20-1)) with 524288 in H.
  apply H; [lia|]. apply Z.mod_pos_bound; lia.
Qed.

Theorem hi_lo_rebuild v : (relocate_hi v * 4096 + relocate_lo v) mod 2^32 = v mod 2^32.
Proof.
  rewrite relocate_hi_eq, relocate_lo_eq. unfold sext.
  change (2^(12-1)) with 2048. change (2^12) with 4096. change (2^(20-1)) with 524288.
  change (2^20) with 1048576. change (2^32) with 4294967296.
  set (c := if (v / 2048) mod 2 =? 0 then 0 else 4096).
  assert (Hc: (v mod 4096 < 2048 -> c = 0) /\ (v mod 4096 >= 2048 -> c = 4096)).
  { subst c. destruct ((v / 2048) mod 2 =? 0) eqn:E; lia. }
  clearbody c.
  set (l := v mod 4096) in *.
  set (h := ((v + c) / 4096) mod 1048576).
  assert (Hl: 0 <= l < 4096) by (subst l; lia).
  assert (Hh: 0 <= h < 1048576) by (subst h; lia).
  (* v + c = 4096 * q + l' ; express everything through q *)
  assert (Hk: exists k, v - (if l <? 2048 then l else l - 4096) = 4096 * (h + 1048576 * k)).
  { subst h l. exists (((v + c) / 4096) / 1048576).
    destruct (v mod 4096 <? 2048) eqn:E; lia. }
  destruct Hk as [k Hk].
  destruct (h <? 524288) eqn:E1; destruct (l <? 2048) eqn:E2;
    (apply (Zmod_unique_full) || idtac); lia.
Qed.
