(* Proofs.DfuFlash -- what the sequence of device operations issued by the two loops does to the flash part of the
   Spec device (no protocol here: see Proofs.DfuRun for that). *)
From Coq Require Import ZArith List Bool String Lia.
From BB Require Import Spec.DfuDev Gen.Dfu Model.DfuHost Proofs.DfuDevice Proofs.DfuRun.
Import ListNotations.
Open Scope Z_scope.

Ltac bools :=
  repeat match goal with
         | |- context [?a <=? ?b] => destruct (Z.leb_spec a b)
         | |- context [?a <? ?b] => destruct (Z.ltb_spec a b)
         | |- context [?a =? ?b] => destruct (Z.eqb_spec a b)
         end; cbn [andb orb negb]; try reflexivity; try lia.

Lemma andb_le_lt a b c d : a <= b -> c < d -> (a <=? b) && (c <? d) = true.
Proof. intros. apply andb_true_iff; split; [apply Z.leb_le | apply Z.ltb_lt]; assumption. Qed.
Lemma andb_le_le a b c d : a <= b -> c <= d -> (a <=? b) && (c <=? d) = true.
Proof. intros. apply andb_true_iff; split; apply Z.leb_le; assumption. Qed.

Lemma page_of_base P : page_of (FLASH_BASE + P * 1024) = P.
Proof. unfold page_of, PAGE. replace (FLASH_BASE + P * 1024 - FLASH_BASE) with (P * 1024) by lia. apply Z.div_mul. lia. Qed.
Lemma page_of_last P : page_of (FLASH_BASE + P * 1024 + 1024 - 1) = P.
Proof.
  unfold page_of, PAGE. replace (FLASH_BASE + P * 1024 + 1024 - 1 - FLASH_BASE) with (1023 + P * 1024) by lia.
  rewrite Z.div_add by lia. reflexivity.
Qed.

(* ------------------------------------------------------------------ erase phase *)
Record erased_to (m0 m : mem) (P : Z) : Prop := {
  et_size : m_size m = m_size m0; et_mons : m_mons m = m_mons m0;
  et_ne : m_nerase m = m_nerase m0 + P; et_ns : m_nset m = m_nset m0; et_nw : m_nwrite m = m_nwrite m0;
  et_flash : forall x, m_flash m x =
                       if (FLASH_BASE <=? x) && (x <? FLASH_BASE + P * 1024) then 255 else m_flash m0 x;
  et_erased : forall q, m_erased m q = if (0 <=? q) && (q <? P) then true else m_erased m0 q }.

Lemma erased_start m0 : erased_to m0 m0 0.
Proof. constructor; try reflexivity; try lia; intros; bools. Qed.

Lemma erased_step m0 m P : erased_to m0 m P -> 0 <= P -> (P + 1) * 1024 <= m_size m0 ->
  erased_to m0 (apply_op m (OErase (erase_addr P))) (P + 1).
Proof.
  intros [Hs Hm Hne Hns Hnw Hf He] P0 PS. cbn [apply_op]. unfold do_erase.
  replace (erase_addr P) with (FLASH_BASE + P * 1024) by (unfold erase_addr, page_size, FLASH_BASE; lia).
  assert (I : in_flash m (FLASH_BASE + P * 1024) = true) by (unfold in_flash; rewrite Hs; apply andb_le_lt; lia).
  rewrite I, page_of_base.
  constructor; cbn [m_size m_mons m_nerase m_nset m_nwrite m_flash m_erased]; try assumption; try lia.
  - intros x. rewrite Hf. unfold PAGE. bools.
  - intros q. rewrite He. bools.
Qed.

Lemma erased_iter m0 : forall n P m, erased_to m0 m P -> 0 <= P -> (P + Z.of_nat n) * 1024 <= m_size m0 ->
  erased_to m0 (erase_iter m n P) (P + Z.of_nat n).
Proof.
  induction n as [|n IH]; intros P m E P0 PS; cbn [erase_iter].
  - replace (P + Z.of_nat 0) with P by lia. exact E.
  - replace (P + Z.of_nat (S n)) with (P + 1 + Z.of_nat n) by lia.
    apply IH; [apply erased_step; [exact E | lia | lia] | lia | lia].
Qed.

(* ------------------------------------------------------------------ write phase *)
Lemma nth_firstn_lt {A} (d : A) : forall k i l, (i < k)%nat -> nth i (firstn k l) d = nth i l d.
Proof. induction k; intros i l H; [lia|]. destruct l; [destruct i; reflexivity|]. destruct i; cbn; [reflexivity | apply IHk; lia]. Qed.
Lemma nth_skipn_add {A} (d : A) : forall j i l, nth i (skipn j l) d = nth (j + i) l d.
Proof. induction j; intros i l; [reflexivity|]. destruct l; cbn; [destruct i; reflexivity | apply IHj]. Qed.

Lemma page_code_len fw P : 0 <= P -> (P + 1) * 1024 <= Z.of_nat (List.length fw) ->
  Z.of_nat (List.length (page_code fw P)) = 1024.
Proof.
  intros P0 L. unfold page_code, slice, write_code_start, write_code_end, page_size.
  rewrite firstn_length, skipn_length. lia.
Qed.

Lemma page_code_nth fw P i : 0 <= P -> 0 <= i < 1024 ->
  nth (Z.to_nat i) (page_code fw P) 0 = nth (Z.to_nat (P * 1024 + i)) fw 0.
Proof.
  intros P0 I. unfold page_code, slice, write_code_start, write_code_end, page_size.
  rewrite nth_firstn_lt by lia. rewrite nth_skipn_add. f_equal. lia.
Qed.

Record written_to (m1 m : mem) (fw : list Z) (P : Z) : Prop := {
  wt_size : m_size m = m_size m1; wt_mons : m_mons m = m_mons m1;
  wt_ne : m_nerase m = m_nerase m1; wt_ns : m_nset m = m_nset m1 + P; wt_nw : m_nwrite m = m_nwrite m1 + P;
  wt_flash : forall x, m_flash m x =
                       if (FLASH_BASE <=? x) && (x <? FLASH_BASE + P * 1024) then nth (Z.to_nat (x - FLASH_BASE)) fw 0
                       else m_flash m1 x;
  wt_erased : forall q, m_erased m q = if (0 <=? q) && (q <? P) then false else m_erased m1 q }.

Lemma written_start m1 fw : written_to m1 m1 fw 0.
Proof. constructor; try reflexivity; try lia; intros; bools. Qed.

Lemma written_step m1 m fw P : written_to m1 m fw P -> 0 <= P -> (P + 1) * 1024 <= m_size m1 ->
  m_erased m1 P = true -> (P + 1) * 1024 <= Z.of_nat (List.length fw) ->
  written_to m1 (apply_op (apply_op m (OSetAddr (write_addr P))) (OWrite 2 (page_code fw P))) fw (P + 1).
Proof.
  intros [Hs Hm Hne Hns Hnw Hf He] P0 PS ER FL. cbn [apply_op]. unfold do_set_addr.
  replace (write_addr P) with (FLASH_BASE + P * 1024) by (unfold write_addr, page_size, FLASH_BASE; lia).
  assert (I : in_flash m (FLASH_BASE + P * 1024) = true) by (unfold in_flash; rewrite Hs; apply andb_le_lt; lia).
  rewrite I. unfold do_write. cbn [m_ptr m_size m_mons m_nerase m_nset m_nwrite m_flash m_erased].
  rewrite (page_code_len fw P P0 FL).
  replace (FLASH_BASE + P * 1024 + (2 - 2) * XFER) with (FLASH_BASE + P * 1024) by lia.
  rewrite (andb_le_le FLASH_BASE (FLASH_BASE + P * 1024) (FLASH_BASE + P * 1024 + 1024) (FLASH_BASE + m_size m))
    by (rewrite ?Hs; lia).
  rewrite page_of_base, page_of_last.
  unfold page_span. replace (P - P + 1) with 1 by lia. change (Z.to_nat 1) with 1%nat. cbn [seq map forallb Z.of_nat].
  assert (EP : m_erased m (P + 0) = true).
  { rewrite He. replace (P + 0) with P by lia. rewrite ER. bools. }
  rewrite EP. cbn [andb].
  constructor; cbn [m_size m_mons m_nerase m_nset m_nwrite m_flash m_erased]; try assumption; try lia.
  - intros x. rewrite Hf.
    destruct (Z.leb_spec (FLASH_BASE + P * 1024) x); destruct (Z.ltb_spec x (FLASH_BASE + P * 1024 + 1024)); cbn [andb].
    + replace (x - (FLASH_BASE + P * 1024)) with (x - FLASH_BASE - P * 1024) by lia.
      rewrite (page_code_nth fw P (x - FLASH_BASE - P * 1024) P0) by lia.
      replace (P * 1024 + (x - FLASH_BASE - P * 1024)) with (x - FLASH_BASE) by lia. bools.
    + bools.
    + bools.
    + bools.
  - intros q. rewrite He. unfold mem_page. cbn [existsb]. bools.
Qed.

Lemma written_iter m1 fw : forall n P m, written_to m1 m fw P -> 0 <= P ->
  (P + Z.of_nat n) * 1024 <= m_size m1 -> (P + Z.of_nat n) * 1024 <= Z.of_nat (List.length fw) ->
  (forall q, P <= q < P + Z.of_nat n -> m_erased m1 q = true) ->
  written_to m1 (write_iter m fw n P) fw (P + Z.of_nat n).
Proof.
  induction n as [|n IH]; intros P m E P0 PS FL ER; cbn [write_iter].
  - replace (P + Z.of_nat 0) with P by lia. exact E.
  - replace (P + Z.of_nat (S n)) with (P + 1 + Z.of_nat n) by lia.
    apply IH; try lia.
    + apply written_step; try assumption; try lia. apply ER; lia.
    + intros q Hq. apply ER. lia.
Qed.
