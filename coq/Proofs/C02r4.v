From Coq Require Import ZArith List Bool Lia ZifyBool String.
From BB Require Import Base.Bits Base.PyBase Gen.Encoders Spec.RV32 Spec.RVC Spec.Operands Spec.Legal Model.Encode
  Proofs.EncTac Proofs.Regs Proofs.Sweep16 Proofs.C02Tac.
Import ListNotations.
Open Scope Z_scope.
Lemma crow_c_and : crow_ok "c.and". Proof. crow "c.and"%string. Qed.
Lemma crow_c_j : crow_ok "c.j". Proof. crow "c.j"%string. Qed.
Lemma crow_c_beqz : crow_ok "c.beqz". Proof. crow "c.beqz"%string. Qed.
Lemma crow_c_bnez : crow_ok "c.bnez". Proof. crow "c.bnez"%string. Qed.
Lemma crow_c_slli : crow_ok "c.slli". Proof. crow "c.slli"%string. Qed.
