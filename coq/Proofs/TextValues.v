(* C08 at the level of the TEXT of a file (Proofs/Program.v assemble_text: lexer model -> parser model -> 16 passes), part 2:
   what a line that carries a label value contributes to the output.  For a line standing at output offset p (= the total size of
   the chunks of the lines in front of it, Proofs/TextLayout.v):
     - an instruction whose immediate is not settled (it mentions a name that is not a constant, or is %offset): never compressed,
       ONE chunk = the bytes of the encoder applied to the value of the immediate evaluated at p with the FINAL constants / labels;
     - li with such an operand: the pair lui + addi, both evaluated at p (the offset of the lui);
     - db / dh / dw / dd / pack: the bytes of the value evaluated at p.
   The label table itself is Proofs/TextLayout.v text_labels (a label line = the total size of the chunks in front of it). *)
From Coq Require Import ZArith List Bool Lia String.
From BB Require Import Base.PyBase Gen.Encoders Gen.Criteria Spec.RV32 Spec.Operands Spec.Data
  Model.Items Model.Encode Model.Lexer Model.PyExpr Model.Parser Model.Passes
  Proofs.Layout Proofs.LayoutInst Proofs.Pipeline Proofs.Targets Proofs.CompressItem Proofs.CompressTail
  Proofs.Program Proofs.TextGroups Proofs.TextTrack Proofs.TextLayout Proofs.TextLands Proofs.TextValTrack.
Import ListNotations.
Open Scope Z_scope.
Open Scope string_scope.

(* ---- two positioned groupings of the same lists whose group LENGTHS are determined by the element agree ------------------- *)
Lemma app_eq_len {B} (a c b d : list B) : app a b = app c d -> List.length a = List.length c -> a = c /\ b = d.
Proof.
  revert c. induction a as [|x a IH]; intros [|y c] H L; simpl in *; try discriminate; auto.
  inversion H; subst. inversion L as [L']. destruct (IH _ H2 L') as [-> ->]. auto.
Qed.
Lemma pg_both_det {A B} (sz : B -> Z) (R S : Z -> A -> list B -> Prop) (n : A -> nat) :
  (forall p a g, R p a g -> List.length g = n a) -> (forall p a g, S p a g -> List.length g = n a) ->
  forall p la lb, pg sz R p la lb -> pg sz S p la lb -> pg sz (fun p a g => R p a g /\ S p a g) p la lb.
Proof.
  intros HR HS p la lb G. induction G as [p|p a l bs bs' Hx G IH]; intro G2.
  - inversion G2; subst. constructor.
  - inversion G2 as [|? ? ? cs cs' Hy G2' E1 E2 E3]; subst.
    assert (L : List.length bs = List.length cs) by (rewrite (HR _ _ _ Hx), (HS _ _ _ Hy); reflexivity).
    symmetry in E3. destruct (app_eq_len _ _ _ _ E3 L) as [-> ->]. constructor; auto.
Qed.

(* ---- last stage: the items behind the alignment pass and the chunks, with the item-wise tail ------------------------------------- *)
Section Fin.
Variables consts labels : envt.
Definition RT (p : Z) (x : litem) (g : list (line * chunk)) : Prop :=
  match is_label (snd x) with
  | Some _ => g = []
  | None => exists y c, tail1 consts labels p x = Done y /\ chunk_of (snd y) = Some c /\ g = [(fst x, c)]
  end.
Lemma tail_stage : forall al p fin cs,
  Forall2 same1 al fin -> pF2 (T1 consts labels) p al fin -> blobbed fin cs -> pg csz RT p al cs.
Proof.
  induction al as [|x al IH]; intros p fin cs S V B.
  - inversion S; subst. inversion B; subst. constructor.
  - inversion S as [|? y ? fin' (A1 & A2 & A3 & A4 & A5) S']; subst.
    cbn [pF2] in V. destruct V as [V1 V'].
    inversion B as [|l n r cs' B'|l it c r cs' Hc Hl B']; subst.
    + change cs with (app [] cs). constructor.
      * unfold RT. rewrite A2. reflexivity.
      * rewrite tot_nil, Z.add_0_r. cbn [snd] in A3. rewrite A3 in V'. change (isz (ILabel n)) with 0 in V'.
        rewrite Z.add_0_r in V'. eapply IH; eauto.
    + pose proof (chunk_of_label _ _ Hc) as Hnl. cbn [snd fst] in A1, A2, A3.
      change ((l, c) :: cs') with (app [(l, c)] cs'). constructor.
      * unfold RT. rewrite A2, Hnl. exists (l, it), c. rewrite A1. auto.
      * assert (Ht : tot csz [(l, c)] = isz (snd x)) by (unfold tot, csz; simpl; lia). rewrite Ht. eapply IH; eauto.
Qed.
Definition RfinT (p : Z) (x : litem) (g : list (line * chunk)) : Prop := Rfin consts labels p x g /\ RT p x g.
Lemma fin_stage_v al p fin cs :
  Forall2 same1 al fin -> Forall2 keepz al fin -> pF2 (Rval consts labels) p al fin -> pF2 (T1 consts labels) p al fin ->
  blobbed fin cs -> (forall L q, goff L fin = Some q -> assoc_str L labels = Some (p + q)) -> NoDup (gnames fin) ->
  pg csz RfinT p al cs.
Proof.
  intros S Z V T B X D.
  apply (pg_both_det csz (Rfin consts labels) RT (fun x => match is_label (snd x) with Some _ => O | None => 1%nat end)).
  - intros q a g. unfold Rfin. destruct (is_label (snd a)). intros [-> _]; reflexivity. intros (c & -> & _); reflexivity.
  - intros q a g. unfold RT. destruct (is_label (snd a)). intros ->; reflexivity. intros (y & c & _ & _ & ->); reflexivity.
  - eapply fin_stage; eauto.
  - eapply tail_stage; eauto.
Qed.
End Fin.

(* ---- the stages composed: text -> chunks --------------------------------------------------------------------------------------- *)
Section Raw.
Variable cmp : bool.
Variables consts labels : envt.
Definition Ral_v (p : Z) (x : litem) (h : list (line * chunk)) : Prop :=
  exists g, Ralign p x g /\ pg csz (RfinT consts labels) p g h.
Definition Rit_v (p : Z) (x : litem) (h : list (line * chunk)) : Prop :=
  exists g, both (R4 cmp (Q4 cmp (alias_arg consts))) (chain cmp consts) x g /\ pg csz Ral_v p g h.
Definition Rtx_v (p : Z) (lt : line * string) (h : list (line * chunk)) : Prop :=
  exists g, R1 lt g /\ pg csz Rit_v p g h.

Lemma Ral_v_Ral p x h : Ral_v p x h -> Ral consts labels p x h.
Proof. intros (g & A & P). exists g. split; auto. eapply pg_impl; [|exact P]. intros q a k [H _]; exact H. Qed.
Lemma Rit_v_Rit p x h : Rit_v p x h -> Rit cmp consts labels p x h.
Proof. intros (g & [A _] & P). exists g. split; auto. eapply pg_impl; [|exact P]. intros q a k. apply Ral_v_Ral. Qed.
Lemma Rtx_v_Rtx p lt h : Rtx_v p lt h -> Rtx cmp consts labels p lt h.
Proof. intros (g & A & P). exists g. split; auto. eapply pg_impl; [|exact P]. intros q a k. apply Rit_v_Rit. Qed.
End Raw.

Theorem text_raw_v ls c0 l0 cmp r :
  assemble_text ls c0 l0 cmp = TDone r -> pg csz (Rtx_v cmp (r_consts r) (r_labels r)) 0 ls (r_chunks r).
Proof.
  unfold assemble_text. destruct (front_items ls) as [its| |] eqn:Ef; try discriminate.
  destruct (assemble_items its c0 l0 cmp) as [r'| |] eqn:Ea; try discriminate. intro H; inversion H; subst r'; clear H.
  destruct (front_items_R1 _ _ Ef) as [G1 N].
  destruct (pipeline_tracked_v _ _ _ _ _ Ea N) as (pa & al & fin & Npa & G2 & G3 & S & Zk & B & X & D & V & T).
  assert (G45 : pg csz (RfinT (r_consts r) (r_labels r)) 0 al (r_chunks r)).
  { eapply fin_stage_v; eauto. }
  assert (G345 : pg csz (Ral_v (r_consts r) (r_labels r)) 0 pa (r_chunks r)).
  { eapply (pg_pg_trans isz1 csz Ralign (RfinT (r_consts r) (r_labels r))).
    - intros p b g [Hf _]. eapply Rfin_size; eauto.
    - intros p x g h Hr Hp. exists g. split; assumption.
    - apply pgrouped_pg. exact G3.
    - exact G45. }
  assert (G2345 : pg csz (Rit_v cmp (r_consts r) (r_labels r)) 0 (filter not_const its) (r_chunks r)).
  { eapply (fg_pg_trans csz (both (R4 cmp (Q4 cmp (alias_arg (r_consts r)))) (chain cmp (r_consts r))) (Ral_v (r_consts r) (r_labels r))).
    - intros p x g h Hr Hp. exists g. split; assumption.
    - apply grouped_fg. exact G2.
    - exact G345. }
  eapply (fg_pg_trans csz R1 (Rit_v cmp (r_consts r) (r_labels r))).
  - intros p x g h Hr Hp. exists g. split; assumption.
  - exact G1.
  - exact G2345.
Qed.
Lemma raw_v_layout cmp r p ls cs : pg csz (Rtx_v cmp (r_consts r) (r_labels r)) p ls cs -> text_layout r p ls cs.
Proof. intro G. eapply raw_layout. eapply pg_impl; [|exact G]. intros q a g. apply Rtx_v_Rtx. Qed.

(* ==== which immediates are NOT settled ============================================================================================== *)
(* the names an expression mentions *)
Fixpoint anames (a : aexp) : list string :=
  match a with AName s => [s] | ABin _ x y => app (anames x) (anames y) | AUn _ x => anames x | _ => [] end.
Fixpoint enames (e : expr) : list string :=
  match e with
  | EArith a => anames a | EArithInt _ => [] | EPos r e' => r :: enames e' | EOff r => [r] | EHi e' | ELo e' => enames e'
  end.
(* position-relative (%offset somewhere inside), or a name that is not a constant: is_settled answers `no` (Model/Passes.v; tied to
   asm.py by Proofs/Guards.v settled_from_source) *)
Definition unsettled (consts : envt) (e : expr) : bool :=
  is_position_relative e || existsb (fun s => negb (in_consts consts s)) (enames e).

Lemma aeval_missing consts a : existsb (fun s => negb (in_consts consts s)) (anames a) = true ->
  aeval (fun k => assoc_str k consts) a = None.
Proof.
  induction a as [z|s|o x IHx y IHy|o x IHx|ords| |]; cbn [anames existsb aeval]; try discriminate.
  - unfold in_consts. destruct (assoc_str s consts); cbn; [discriminate|reflexivity].
  - rewrite existsb_app. intro H. apply orb_prop in H. destruct H as [H|H].
    + rewrite (IHx H). reflexivity.
    + rewrite (IHy H). destruct (aeval _ x); reflexivity.
  - intro H. rewrite (IHx H). reflexivity.
Qed.
Lemma eval_consts_missing l pos consts e :
  is_position_relative e = false -> existsb (fun s => negb (in_consts consts s)) (enames e) = true ->
  eval_consts l pos consts e = PErr (PAsm l).
Proof.
  unfold eval_consts. induction e as [a|z|r e' IH|r|e' IH|e' IH]; cbn [is_position_relative enames eeval]; intros Hp Hn; try discriminate.
  - rewrite (aeval_missing _ _ Hn). reflexivity.
  - cbn [existsb] in Hn. unfold in_consts in Hn. destruct (assoc_str r consts) as [d|]; [|reflexivity].
    cbn [negb orb] in Hn. rewrite (IH Hp Hn). reflexivity.
  - rewrite (IH Hp Hn). reflexivity.
  - rewrite (IH Hp Hn). reflexivity.
Qed.
Lemma unsettled_is_settled l pos consts e : unsettled consts e = true -> is_settled l pos consts e = Done false.
Proof.
  unfold unsettled, is_settled. destruct (is_position_relative e) eqn:Ep; [reflexivity|]. cbn [orb]. intro H.
  rewrite (eval_consts_missing l pos consts e Ep H). reflexivity.
Qed.
Lemma unsettled_hi consts e : unsettled consts (EHi e) = unsettled consts e. Proof. reflexivity. Qed.
Lemma unsettled_lo consts e : unsettled consts (ELo e) = unsettled consts e. Proof. reflexivity. Qed.

(* ==== register aliases ============================================================================================================== *)
Lemma alias_field_key consts kv : fst (alias_field consts kv) = fst kv.
Proof.
  destruct kv as [k v]. destruct v as [[z|s]| | |]; try reflexivity. cbn [alias_field].
  destruct (mem_str k REGS); [|reflexivity]. destruct (assoc_str s consts); reflexivity.
Qed.
Lemma alias_field_idem consts kv : alias_field consts (alias_field consts kv) = alias_field consts kv.
Proof.
  destruct kv as [k v]. destruct v as [[z|s]| | |]; try reflexivity. cbn [alias_field].
  destruct (mem_str k REGS) eqn:Ek; [|cbn [alias_field]; rewrite Ek; reflexivity].
  destruct (assoc_str s consts) eqn:Es; cbn [alias_field]; [reflexivity|]. rewrite Ek, Es. reflexivity.
Qed.
Lemma alias_item_idem consts it : alias_item consts (alias_item consts it) = alias_item consts it.
Proof.
  destruct it; try reflexivity. cbn [alias_item]. f_equal. rewrite map_map. apply map_ext. intro kv. apply alias_field_idem.
Qed.
Lemma field_get_alias_expr consts k fs e : field_get k fs = Some (FExpr e) -> field_get k (map (alias_field consts) fs) = Some (FExpr e).
Proof.
  unfold field_get. induction fs as [|[k' v] fs IH]; cbn [map assoc_str]; [discriminate|].
  pose proof (alias_field_key consts (k', v)) as Hk. destruct (alias_field consts (k', v)) as [k2 v2] eqn:Ea. cbn [fst] in Hk. subst k2.
  cbn [assoc_str]. destruct (String.eqb k k'); [|exact IH]. intro H; inversion H; subst v. cbn [alias_field] in Ea. inversion Ea. reflexivity.
Qed.
Lemma field_get_alias_bool consts k fs : 
  match field_get k (map (alias_field consts) fs) with Some (FBool b) => Some b | _ => None end =
  match field_get k fs with Some (FBool b) => Some b | _ => None end.
Proof.
  unfold field_get. induction fs as [|[k' v] fs IH]; cbn [map assoc_str]; [reflexivity|].
  pose proof (alias_field_key consts (k', v)) as Hk. destruct (alias_field consts (k', v)) as [k2 v2] eqn:Ea. cbn [fst] in Hk. subst k2.
  cbn [assoc_str]. destruct (String.eqb k k'); [|exact IH].
  destruct v as [[z|s]| | |]; cbn [alias_field] in Ea; try (inversion Ea; reflexivity).
  destruct (mem_str k' REGS); [|inversion Ea; reflexivity]. destruct (assoc_str s consts); inversion Ea; reflexivity.
Qed.
Lemma back_of_alias consts fs : back_of (map (alias_field consts) fs) = back_of fs.
Proof.
  unfold back_of. pose proof (field_get_alias_bool consts "is_auipc_jump" fs) as H.
  destruct (field_get "is_auipc_jump" (map (alias_field consts) fs)) as [[a|e|z|b]|];
    destruct (field_get "is_auipc_jump" fs) as [[a'|e'|z'|b']|]; try discriminate; try reflexivity.
  inversion H; reflexivity.
Qed.

(* ==== the three kinds of items, through the stages in front of the alignment pass ==================================================== *)
Lemma grouped_eq_single (R : lrel) x h : grouped R [x] h -> R x h.
Proof. apply grouped_single. Qed.

(* (a) data items are handed on as they are *)
Definition is_data (it : item) : Prop := match it with IPack _ _ | IShort _ _ => True | _ => False end.
Lemma Gcmp_data cmp consts l it g : is_data it -> Gcmp cmp consts (l, it) g -> g = [(l, it)].
Proof.
  intros Hd H. unfold Gcmp in H. destruct cmp; [|exact H]. destruct H as (p & H). unfold pass_group in H. cbn [fst snd] in H.
  destruct it; try contradiction; cbn [is_label] in H; destruct H as (ls0 & rs & Hr & ->); inversion Hr; reflexivity.
Qed.
Lemma Gps_data consts l it g : is_data it -> Gany (pseudo_rule consts) (l, it) g -> g = [(l, it)].
Proof.
  intros Hd (p & H). unfold pass_group in H. cbn [fst snd] in H.
  destruct it; try contradiction; cbn [is_label] in H; destruct H as (ls0 & rs & Hr & ->); inversion Hr; reflexivity.
Qed.
Lemma Gali_data consts l it g : is_data it -> Gali consts (l, it) g -> g = [(l, it)].
Proof. intros Hd H. unfold Gali in H. subst g. destruct it; try contradiction; reflexivity. Qed.
Lemma chain_data cmp consts l it g : is_data it -> chain cmp consts (l, it) g -> g = [(l, it)].
Proof.
  intros Hd (g5 & (g4 & (g3 & (g2 & H2 & H3) & H4) & H5) & H6).
  apply (Gali_data _ _ _ _ Hd) in H2. subst g2. apply grouped_single in H3. apply (Gcmp_data _ _ _ _ _ Hd) in H3. subst g3.
  apply grouped_single in H4. apply (Gps_data _ _ _ _ Hd) in H4. subst g4.
  apply grouped_single in H5. apply (Gali_data _ _ _ _ Hd) in H5. subst g5.
  apply grouped_single in H6. apply (Gcmp_data _ _ _ _ _ Hd) in H6. exact H6.
Qed.

(* (b) an instruction (not a branch / jal) whose immediate is not settled: never compressed; only its register fields are touched,
   by the alias resolution *)
Definition not_jump (cls : string) : bool := negb (String.eqb cls "BTypeInstruction" || String.eqb cls "JTypeInstruction").
Lemma unsettled_unstable l p consts cls fs e :
  field_get "imm" fs = Some (FExpr e) -> unsettled consts e = true -> not_jump cls = true ->
  imm_unstable l p consts cls fs = Done true.
Proof.
  intros Hf Hu Hj. unfold imm_unstable. rewrite Hf. unfold not_jump in Hj. apply negb_true_iff in Hj. rewrite Hj. cbn [andb].
  rewrite (unsettled_is_settled l p consts e Hu). reflexivity.
Qed.
Lemma vinstr_compress consts l p ls cls name fs c e rs :
  field_get "imm" fs = Some (FExpr e) -> unsettled consts e = true -> not_jump cls = true ->
  compress_rule consts l (IInstr cls name fs c) p ls = Done rs -> rs = [IInstr cls name fs c].
Proof.
  intros Hf Hu Hj Hr. cbv beta iota delta [compress_rule] in Hr. rewrite (unsettled_unstable l p consts cls fs e Hf Hu Hj) in Hr.
  cbn [obind] in Hr. inversion Hr; reflexivity.
Qed.
Lemma Gcmp_vinstr cmp consts l cls name fs c e g :
  field_get "imm" fs = Some (FExpr e) -> unsettled consts e = true -> not_jump cls = true ->
  Gcmp cmp consts (l, IInstr cls name fs c) g -> g = [(l, IInstr cls name fs c)].
Proof.
  intros Hf Hu Hj H. unfold Gcmp in H. destruct cmp; [|exact H]. destruct H as (p & H). unfold pass_group in H. cbn [fst snd is_label] in H.
  destruct H as (ls0 & rs & Hr & ->). rewrite (vinstr_compress _ _ _ _ _ _ _ _ _ _ Hf Hu Hj Hr). reflexivity.
Qed.
Lemma Gps_instr consts l cls name fs c g : Gany (pseudo_rule consts) (l, IInstr cls name fs c) g -> g = [(l, IInstr cls name fs c)].
Proof. intros (p & H). unfold pass_group in H. cbn [fst snd is_label] in H. destruct H as (ls0 & rs & Hr & ->). inversion Hr; reflexivity. Qed.

(* after the first alias resolution: compression, pseudo pass, alias resolution, compression leave such an instruction alone *)
Lemma tail_chain_vinstr cmp consts l cls name fs c e g3 g4 g5 g6 :
  field_get "imm" fs = Some (FExpr e) -> unsettled consts e = true -> not_jump cls = true ->
  let it := IInstr cls name (map (alias_field consts) fs) c in
  grouped (Gcmp cmp consts) [(l, it)] g3 -> grouped (Gany (pseudo_rule consts)) g3 g4 -> grouped (Gali consts) g4 g5 ->
  grouped (Gcmp cmp consts) g5 g6 -> g6 = [(l, it)].
Proof.
  intros Hf Hu Hj it H3 H4 H5 H6. pose proof (field_get_alias_expr consts _ _ _ Hf) as Hf'.
  apply grouped_single in H3. apply (Gcmp_vinstr _ _ _ _ _ _ _ _ _ Hf' Hu Hj) in H3. subst g3.
  apply grouped_single in H4. apply Gps_instr in H4. subst g4.
  apply grouped_single in H5. unfold Gali in H5. cbn [fst snd] in H5. unfold it in H5.
  change (alias_item consts (IInstr cls name (map (alias_field consts) fs) c)) with (alias_item consts (alias_item consts (IInstr cls name fs c))) in H5.
  rewrite alias_item_idem in H5. cbn [alias_item] in H5. subst g5.
  apply grouped_single in H6. apply (Gcmp_vinstr _ _ _ _ _ _ _ _ _ Hf' Hu Hj) in H6. exact H6.
Qed.
Lemma chain_vinstr cmp consts l cls name fs c e g :
  field_get "imm" fs = Some (FExpr e) -> unsettled consts e = true -> not_jump cls = true ->
  chain cmp consts (l, IInstr cls name fs c) g -> g = [(l, IInstr cls name (map (alias_field consts) fs) c)].
Proof.
  intros Hf Hu Hj (g5 & (g4 & (g3 & (g2 & H2 & H3) & H4) & H5) & H6).
  unfold Gali in H2. cbn [fst snd alias_item] in H2. subst g2.
  eapply tail_chain_vinstr; eauto.
Qed.

(* (c) li with an operand that is not settled: always the pair lui + addi *)
Lemma li_far consts l rd rest e p ls rs :
  unsettled consts e = true -> pseudo_rule consts l (IPseudo "li" (rd :: rest) (POk e)) p ls = Done rs ->
  rs = [mkU "lui" (St rd) (EHi e); mkI "addi" (St rd) (St rd) (ELo e) true].
Proof.
  intros Hu Hr. cbv beta iota delta [pseudo_rule] in Hr. cbn [expand_pseudo String.eqb Ascii.eqb Bool.eqb of_pres obind] in Hr.
  destruct (of_pres _) as [v| |]; cbn [obind] in Hr; try discriminate.
  rewrite (unsettled_is_settled l p consts e Hu) in Hr. cbn [obind andb] in Hr. inversion Hr; reflexivity.
Qed.
Lemma chain_li cmp consts l rd rest e g :
  unsettled consts e = true ->
  chain cmp consts (l, IPseudo "li" (rd :: rest) (POk e)) g ->
  (exists p ls rs, pseudo_rule consts l (IPseudo "li" (rd :: rest) (POk e)) p ls = Done rs) /\
  g = [(l, IInstr "UTypeInstruction" "lui" [("rd", FReg (alias_arg consts rd)); ("imm", FExpr (EHi e))] false);
       (l, IInstr "ITypeInstruction" "addi" [("rd", FReg (alias_arg consts rd)); ("rs1", FReg (alias_arg consts rd));
                                             ("imm", FExpr (ELo e)); ("is_auipc_jump", FBool true)] false)].
Proof.
  intros Hu (g5 & (g4 & (g3 & (g2 & H2 & H3) & H4) & H5) & H6).
  unfold Gali in H2. cbn [fst snd alias_item] in H2. subst g2.
  apply grouped_single in H3.
  assert (E3 : g3 = [(l, IPseudo "li" (rd :: rest) (POk e))]).
  { unfold Gcmp in H3. destruct cmp; [|exact H3]. destruct H3 as (p & H). unfold pass_group in H. cbn [fst snd is_label] in H.
    destruct H as (ls0 & rs & Hr & ->). inversion Hr; reflexivity. }
  subst g3. apply grouped_single in H4. destruct H4 as (p & H4). unfold pass_group in H4. cbn [fst snd is_label] in H4.
  destruct H4 as (ls0 & rs & Hr & ->). split; [eauto|].
  rewrite (li_far _ _ _ _ _ _ _ _ Hu Hr) in H5. cbn [map] in H5.
  apply grouped_pair in H5. destruct H5 as (h1 & h2 & -> & A1 & A2). unfold Gali in A1, A2. cbn [fst snd] in A1, A2. subst h1 h2.
  unfold mkU, mkI, St in H6. cbn [alias_item map app] in H6.
  rewrite !(alias_reg_str consts "rd" rd eq_refl), (alias_reg_str consts "rs1" rd eq_refl) in H6.
  change (alias_field consts ("imm", FExpr (EHi e))) with ("imm", FExpr (EHi e)) in H6.
  change (alias_field consts ("imm", FExpr (ELo e))) with ("imm", FExpr (ELo e)) in H6.
  change (alias_field consts ("is_auipc_jump", FBool true)) with ("is_auipc_jump", FBool true) in H6.
  apply grouped_pair in H6. destruct H6 as (k1 & k2 & -> & B1 & B2).
  apply (Gcmp_vinstr cmp consts l "UTypeInstruction" "lui" _ false (EHi e)) in B1; [|reflexivity|exact Hu|reflexivity].
  apply (Gcmp_vinstr cmp consts l "ITypeInstruction" "addi" _ false (ELo e)) in B2; [|reflexivity|exact Hu|reflexivity].
  subst k1 k2. reflexivity.
Qed.

(* ==== from the item in front of the alignment pass to its chunks ====================================================================== *)
Lemma Ral_v_plain consts labels p x h : (forall n, snd x <> IAlign n) -> Ral_v consts labels p x h -> RfinT consts labels p x h.
Proof.
  intros Hn (g & A & P). unfold Ralign in A. destruct x as [l it]; cbn [snd] in *.
  destruct it; try (subst g; apply pg_single in P; exact P). exfalso; eapply Hn; eauto.
Qed.

(* (a) data: the chunk is what the item-wise tail makes of the item at p *)
Lemma Rit_v_data cmp consts labels p l it h : is_data it -> Rit_v cmp consts labels p (l, it) h ->
  exists y c, tail1 consts labels p (l, it) = Done y /\ chunk_of (snd y) = Some c /\ h = [(l, c)].
Proof.
  intros Hd (g & [_ Hc] & P). apply (chain_data _ _ _ _ _ Hd) in Hc. subst g. apply pg_single in P.
  apply Ral_v_plain in P; [|intros n E; cbn [snd] in E; subst it; contradiction].
  destruct P as [_ P]. unfold RT in P. cbn [fst snd] in P.
  assert (El : is_label it = None) by (destruct it; try contradiction; reflexivity). rewrite El in P. exact P.
Qed.
From BB Require Import Proofs.DataInt.
Lemma data_passes_short l nm z :
  data_passes [(l, IShort nm (FInt z))] =
  match short_fmt nm with
  | Some f => match struct_pack (String.append "<" (if z <? 0 then lower f else f)) z with
              | Some (Ok bs) => Done [(l, CBytes bs)]
              | Some (Err e) => if conv_pack then Fail (PAsm l) else Fail (PRaw e)
              | None => Unsupported
              end
  | None => Fail (PRaw KeyError)
  end.
Proof.
  unfold data_passes. cbn [resolve_strings map resolve_sequences rev app obind transform_shorthand].
  destruct (short_fmt nm); [|reflexivity]. cbn [rev app obind resolve_packs].
  destruct (struct_pack _ z) as [[bs|e]|]; try reflexivity; try (destruct conv_pack; reflexivity).
Qed.
Lemma data_passes_pack l f z :
  data_passes [(l, IPack f (FInt z))] =
  match struct_pack f z with
  | Some (Ok bs) => Done [(l, CBytes bs)]
  | Some (Err e) => if conv_pack then Fail (PAsm l) else Fail (PRaw e)
  | None => Unsupported
  end.
Proof.
  unfold data_passes. cbn [resolve_strings map resolve_sequences rev app obind transform_shorthand resolve_packs].
  destruct (struct_pack f z) as [[bs|e]|]; try reflexivity; try (destruct conv_pack; reflexivity).
Qed.
Lemma tail1_short consts labels p l nm e y :
  tail1 consts labels p (l, IShort nm (FExpr e)) = Done y ->
  exists z bs, eval_here l p consts labels e = Done z /\ y = (l, IBlob bs) /\
    data_passes [(l, IShort nm (FInt z))] = Done [(l, CBytes bs)].
Proof.
  unfold tail1, imm1. cbn [fst snd imm_of]. destruct (eval_here l p consts labels e) as [z| |]; cbn [obind]; try discriminate.
  unfold enc1. cbn [fst snd obind]. unfold str1, seq1. cbn [snd obind]. unfold sh1. cbn [fst snd].
  intro H. exists z. rewrite data_passes_short. destruct (short_fmt nm) as [f|]; try discriminate. cbn [obind] in H.
  unfold pk1 in H. cbn [fst snd] in H.
  destruct (struct_pack _ z) as [[bs|er]|]; try discriminate; try (destruct conv_pack; discriminate).
  inversion H; subst y. exists bs. split; [reflexivity|]. split; reflexivity.
Qed.
Lemma tail1_pack consts labels p l f e y :
  tail1 consts labels p (l, IPack f (FExpr e)) = Done y ->
  exists z bs, eval_here l p consts labels e = Done z /\ y = (l, IBlob bs) /\
    data_passes [(l, IPack f (FInt z))] = Done [(l, CBytes bs)].
Proof.
  unfold tail1, imm1. cbn [fst snd imm_of]. destruct (eval_here l p consts labels e) as [z| |]; cbn [obind]; try discriminate.
  unfold enc1. cbn [fst snd obind]. unfold str1, seq1. cbn [snd obind]. unfold sh1. cbn [fst snd obind].
  intro H. exists z. rewrite data_passes_pack. unfold pk1 in H. cbn [fst snd] in H.
  destruct (struct_pack f z) as [[bs|er]|]; try discriminate; try (destruct conv_pack; discriminate).
  inversion H; subst y. exists bs. split; [reflexivity|]. split; reflexivity.
Qed.

(* db / dh / dw / dd: the w little-endian bytes of the value at p (two's complement), which fits *)
Lemma Rit_v_short cmp consts labels p l nm w e h :
  In (nm, w) shorthand_table -> Rit_v cmp consts labels p (l, IShort nm (FExpr e)) h ->
  exists z, eval_here l p consts labels e = Done z /\ int_fits w z = true /\ h = [(l, CBytes (int_bytes w z))].
Proof.
  intros Hn Hr. destruct (Rit_v_data cmp consts labels p l (IShort nm (FExpr e)) h I Hr) as (y & c & Ht & Hc & ->).
  destruct (tail1_short _ _ _ _ _ _ _ Ht) as (z & bs & Hz & -> & Hd). cbn [snd chunk_of] in Hc. inversion Hc; subst c.
  rewrite (shorthand_passes nm w Hn l z) in Hd. exists z. split; [exact Hz|].
  destruct (int_fits w z); [|discriminate]. inversion Hd. auto.
Qed.
(* pack <order><code>: the documented bytes in the given byte order *)
Lemma Rit_v_pack cmp consts labels p l o little c w signed e h :
  In (o, little) order_table -> In (c, (w, signed)) code_table ->
  Rit_v cmp consts labels p (l, IPack (String.append o c) (FExpr e)) h ->
  exists z, eval_here l p consts labels e = Done z /\ pack_fits w signed z = true /\ h = [(l, CBytes (pack_bytes little w z))].
Proof.
  intros Ho Hc Hr. destruct (Rit_v_data cmp consts labels p l (IPack (String.append o c) (FExpr e)) h I Hr) as (y & ch & Ht & Hch & ->).
  destruct (tail1_pack _ _ _ _ _ _ _ Ht) as (z & bs & Hz & -> & Hd). cbn [snd chunk_of] in Hch. inversion Hch; subst ch.
  rewrite (pack_passes o little c w signed Ho Hc l z) in Hd. exists z. split; [exact Hz|].
  destruct (pack_fits w signed z); [|discriminate]. inversion Hd. auto.
Qed.

(* (b) an instruction with an unsettled immediate: ONE chunk, the encoder applied to the value at p *)
Lemma Rit_v_vinstr cmp consts labels p l cls name fs c e h :
  field_get "imm" fs = Some (FExpr e) -> unsettled consts e = true -> not_jump cls = true ->
  Rit_v cmp consts labels p (l, IInstr cls name fs c) h ->
  exists z bs, eval_here l (p - back_of fs) consts labels e = Done z /\
    encode_item l cls name (field_set "imm" (FInt z) (map (alias_field consts) fs)) c = Done bs /\ h = [(l, CBytes bs)].
Proof.
  intros Hf Hu Hj (g & [_ Hc] & P). apply (chain_vinstr _ _ _ _ _ _ _ _ _ Hf Hu Hj) in Hc. subst g. apply pg_single in P.
  apply Ral_v_plain in P; [|intros n E; discriminate]. destruct P as [P _]. unfold Rfin in P. cbn [fst snd is_label] in P.
  destruct P as (ch & -> & _ & _ & Hi). specialize (Hi _ _ _ _ eq_refl). destruct Hi as (fs' & bs & -> & He & Hm).
  rewrite (field_get_alias_expr consts _ _ _ Hf), back_of_alias in Hm. destruct Hm as (z & Hz & ->).
  exists z, bs. cbn [imm_of] in Hz. auto.
Qed.

(* (c) li with an unsettled operand: two chunks, lui with %hi and addi with %lo of the value at p -- the offset of the lui *)
Lemma Rit_v_li cmp consts labels p l rd rest e h :
  unsettled consts e = true -> Rit_v cmp consts labels p (l, IPseudo "li" (rd :: rest) (POk e)) h ->
  (exists q ls rs, pseudo_rule consts l (IPseudo "li" (rd :: rest) (POk e)) q ls = Done rs) /\
  exists zhi zlo bs1 bs2,
    eval_here l p consts labels (EHi e) = Done zhi /\ eval_here l p consts labels (ELo e) = Done zlo /\
    encode_item l "UTypeInstruction" "lui" [("rd", FReg (alias_arg consts rd)); ("imm", FInt zhi)] false = Done bs1 /\
    encode_item l "ITypeInstruction" "addi" [("rd", FReg (alias_arg consts rd)); ("rs1", FReg (alias_arg consts rd));
                                             ("imm", FInt zlo); ("is_auipc_jump", FBool true)] false = Done bs2 /\
    h = [(l, CBytes bs1); (l, CBytes bs2)].
Proof.
  intros Hu (g & [_ Hc] & P). destruct (chain_li _ _ _ _ _ _ _ Hu Hc) as [Hp ->]. split; [exact Hp|].
  inversion P as [|? ? ? h1 h2 A1 P2]; subst. apply pg_single in P2.
  apply Ral_v_plain in A1; [|intros n E; discriminate]. apply Ral_v_plain in P2; [|intros n E; discriminate].
  destruct A1 as [A1 _]. destruct P2 as [P2 _]. unfold Rfin in A1, P2. cbn [fst snd is_label] in A1, P2.
  destruct A1 as (c1 & -> & Hl1 & _ & Hi1). destruct P2 as (c2 & -> & Hl2 & _ & Hi2).
  assert (Ht : tot csz [(l, c1)] = 4) by (unfold tot, csz; cbn [fold_right snd]; rewrite Hl1; reflexivity). rewrite Ht in Hi2.
  specialize (Hi1 _ _ _ _ eq_refl). destruct Hi1 as (fs1 & bs1 & -> & He1 & Hi1).
  specialize (Hi2 _ _ _ _ eq_refl). destruct Hi2 as (fs2 & bs2 & -> & He2 & Hi2).
  change (field_get "imm" [("rd", FReg (alias_arg consts rd)); ("imm", FExpr (EHi e))]) with (Some (FExpr (EHi e))) in Hi1.
  change (back_of [("rd", FReg (alias_arg consts rd)); ("imm", FExpr (EHi e))]) with 0 in Hi1. rewrite Z.sub_0_r in Hi1.
  change (field_get "imm" [("rd", FReg (alias_arg consts rd)); ("rs1", FReg (alias_arg consts rd)); ("imm", FExpr (ELo e)); ("is_auipc_jump", FBool true)])
    with (Some (FExpr (ELo e))) in Hi2.
  change (back_of [("rd", FReg (alias_arg consts rd)); ("rs1", FReg (alias_arg consts rd)); ("imm", FExpr (ELo e)); ("is_auipc_jump", FBool true)])
    with 4 in Hi2.
  replace (p + 4 - 4) with p in Hi2 by lia.
  destruct Hi1 as (zhi & Hh & ->). destruct Hi2 as (zlo & Hlo & ->). cbn [imm_of] in Hh, Hlo.
  exists zhi, zlo, bs1, bs2. repeat split; auto.
Qed.

(* ==== the value of an immediate expression ============================================================================================ *)
(* env: the final ChainMap(constants, labels); p: the offset of the item.  %offset(L) = L - p, %position(L, b) = b + L, a bare name = its
   value, %hi / %lo = the generated relocate_hi / relocate_lo (C07) of the inner value, arithmetic = Model/Items.v aeval *)
Fixpoint value_at (env : string -> option Z) (p : Z) (e : expr) : option Z :=
  match e with
  | EArith a => aeval env a
  | EArithInt _ => None
  | EPos L b => match env L, value_at env p b with Some q, Some v => Some (v + q) | _, _ => None end
  | EOff L => match env L with Some q => Some (q - p) | None => None end
  | EHi e' => option_map relocate_hi (value_at env p e')
  | ELo e' => option_map relocate_lo (value_at env p e')
  end.
Definition final_env (r : result) : string -> option Z := chain_get (r_consts r) (r_labels r).

Lemma eeval_value l p has get e z : eeval relocate_hi relocate_lo l (Some p) has get e = POk z -> value_at get p e = Some z.
Proof.
  revert z. induction e as [a|k|L b IH|L|e' IH|e' IH]; intros z; cbn [eeval value_at].
  - destruct (aeval get a); intro H; inversion H; reflexivity.
  - discriminate.
  - destruct (has L); [|discriminate]. destruct (get L) as [q|]; [|discriminate].
    destruct (eeval _ _ _ _ _ _ b) as [v|er]; cbn [pbind]; [|discriminate]. rewrite (IH v eq_refl). intro H; inversion H; reflexivity.
  - destruct (has L); [|discriminate]. destruct (get L) as [q|]; [|discriminate]. intro H; inversion H; reflexivity.
  - destruct (eeval _ _ _ _ _ _ e') as [v|er]; cbn [pbind]; [|discriminate]. rewrite (IH v eq_refl). intro H; inversion H; reflexivity.
  - destruct (eeval _ _ _ _ _ _ e') as [v|er]; cbn [pbind]; [|discriminate]. rewrite (IH v eq_refl). intro H; inversion H; reflexivity.
Qed.
Lemma eval_here_value l p consts labels e z :
  eval_here l p consts labels e = Done z -> value_at (chain_get consts labels) p e = Some z.
Proof. unfold eval_here. intro H. apply of_pres_done in H. eapply eeval_value; eauto. Qed.

(* ==== one line in the middle of the text ================================================================================================ *)
Open Scope list_scope.
Lemma text_item_at ls c0 l0 cmp r :
  assemble_text ls c0 l0 cmp = TDone r ->
  forall ls1 l text ls2 it, ls = ls1 ++ (l, text) :: ls2 -> front_line l text = FOk (Some it) -> not_const (l, it) = true ->
    exists cs1 g cs2, r_chunks r = cs1 ++ g ++ cs2 /\ text_layout r 0 ls1 cs1 /\ text_layout r (tot csz cs1 + tot csz g) ls2 cs2 /\
      Rit_v cmp (r_consts r) (r_labels r) (tot csz cs1) (l, it) g.
Proof.
  intros H ls1 l text ls2 it -> Hf Hn. pose proof (text_raw_v _ _ _ _ _ H) as G.
  destruct (pg_middle _ _ _ _ _ _ _ G) as (c1 & g & c2 & Hc & G1 & Hl & G2). rewrite Z.add_0_l in *.
  exists c1, g, c2. split; [exact Hc|]. split; [eapply raw_v_layout; exact G1|]. split; [eapply raw_v_layout; exact G2|].
  destruct Hl as (g1 & H1 & P1). unfold R1 in H1. cbn [fst snd] in H1. rewrite Hf, Hn in H1. subst g1. apply pg_single in P1. exact P1.
Qed.

(* the value of a name: a label line of the text that no constant shadows is worth the total size of the chunks in front of it *)
Theorem text_label_value ls c0 l0 cmp r :
  assemble_text ls c0 l0 cmp = TDone r ->
  forall la l' text' lb L, ls = la ++ (l', text') :: lb -> front_line l' text' = FOk (Some (ILabel L)) -> assoc_str L (r_consts r) = None ->
    exists ca cb, r_chunks r = ca ++ cb /\ text_layout r 0 la ca /\ final_env r L = Some (tot csz ca).
Proof.
  intros H la l' text' lb L E Hf Hc. destruct (proj2 (text_labels _ _ _ _ _ H) _ _ _ _ _ E Hf) as (ca & cb & B1 & B2 & _ & B4).
  exists ca, cb. split; [exact B1|]. split; [exact B2|]. unfold final_env, chain_get. rewrite Hc. exact B4.
Qed.

(* (1) an instruction line whose immediate is not settled: one chunk, never compressed; the immediate operand the encoder received is
   the value of the expression at the offset of the line, under the final constants and labels *)
Theorem text_instruction_raw ls c0 l0 cmp r :
  assemble_text ls c0 l0 cmp = TDone r ->
  forall ls1 l text ls2 cls name fs c e,
    ls = ls1 ++ (l, text) :: ls2 -> front_line l text = FOk (Some (IInstr cls name fs c)) ->
    field_get "imm" fs = Some (FExpr e) -> unsettled (r_consts r) e = true -> not_jump cls = true ->
    exists cs1 cs2 z bs, r_chunks r = cs1 ++ (l, CBytes bs) :: cs2 /\ text_layout r 0 ls1 cs1 /\
      text_layout r (tot csz cs1 + (if c then 2 else 4)) ls2 cs2 /\
      value_at (final_env r) (tot csz cs1 - back_of fs) e = Some z /\
      encode_item l cls name (field_set "imm" (FInt z) (map (alias_field (r_consts r)) fs)) c = Done bs.
Proof.
  intros H ls1 l text ls2 cls name fs c e E Hf Hi Hu Hj.
  destruct (text_item_at _ _ _ _ _ H _ _ _ _ _ E Hf eq_refl) as (cs1 & g & cs2 & A1 & A2 & A3 & A4).
  destruct (Rit_v_vinstr _ _ _ _ _ _ _ _ _ _ _ Hi Hu Hj A4) as (z & bs & Hz & He & ->).
  exists cs1, cs2, z, bs. split; [exact A1|]. split; [exact A2|]. split.
  - replace (tot csz [(l, CBytes bs)]) with (if c then 2 else 4) in A3; [exact A3|].
    unfold tot, csz. cbn [fold_right snd chunk_len]. rewrite (encode_item_len _ _ _ _ _ _ He). lia.
  - split; [|exact He]. eapply eval_here_value; eauto.
Qed.

(* (3) data lines *)
Theorem text_short_value ls c0 l0 cmp r :
  assemble_text ls c0 l0 cmp = TDone r ->
  forall ls1 l text ls2 nm w e,
    ls = ls1 ++ (l, text) :: ls2 -> front_line l text = FOk (Some (IShort nm (FExpr e))) -> In (nm, w) shorthand_table ->
    exists cs1 cs2 z, r_chunks r = cs1 ++ (l, CBytes (int_bytes w z)) :: cs2 /\ text_layout r 0 ls1 cs1 /\
      text_layout r (tot csz cs1 + w) ls2 cs2 /\
      value_at (final_env r) (tot csz cs1) e = Some z /\ int_fits w z = true.
Proof.
  intros H ls1 l text ls2 nm w e E Hf Hn.
  destruct (text_item_at _ _ _ _ _ H _ _ _ _ _ E Hf eq_refl) as (cs1 & g & cs2 & A1 & A2 & A3 & A4).
  destruct (Rit_v_short _ _ _ _ _ _ _ _ _ Hn A4) as (z & Hz & Hfit & ->).
  exists cs1, cs2, z. split; [exact A1|]. split; [exact A2|]. split.
  - replace (tot csz [(l, CBytes (int_bytes w z))]) with w in A3; [exact A3|].
    unfold tot, csz. cbn [fold_right snd chunk_len].
    assert (0 <= w) by (cbn in Hn; repeat (destruct Hn as [Hn|Hn]; [inversion Hn; lia|]); contradiction).
    destruct (int_bytes_meaning w z H0) as [-> _]. lia.
  - split; [eapply eval_here_value; eauto|exact Hfit].
Qed.
Theorem text_pack_value ls c0 l0 cmp r :
  assemble_text ls c0 l0 cmp = TDone r ->
  forall ls1 l text ls2 o little c w signed e,
    ls = ls1 ++ (l, text) :: ls2 -> front_line l text = FOk (Some (IPack (String.append o c) (FExpr e))) ->
    In (o, little) order_table -> In (c, (w, signed)) code_table ->
    exists cs1 cs2 z, r_chunks r = cs1 ++ (l, CBytes (pack_bytes little w z)) :: cs2 /\ text_layout r 0 ls1 cs1 /\
      text_layout r (tot csz cs1 + w) ls2 cs2 /\
      value_at (final_env r) (tot csz cs1) e = Some z /\ pack_fits w signed z = true.
Proof.
  intros H ls1 l text ls2 o little c w signed e E Hf Ho Hc.
  destruct (text_item_at _ _ _ _ _ H _ _ _ _ _ E Hf eq_refl) as (cs1 & g & cs2 & A1 & A2 & A3 & A4).
  destruct (Rit_v_pack _ _ _ _ _ _ _ _ _ _ _ _ Ho Hc A4) as (z & Hz & Hfit & ->).
  exists cs1, cs2, z. split; [exact A1|]. split; [exact A2|]. split.
  - replace (tot csz [(l, CBytes (pack_bytes little w z))]) with w in A3; [exact A3|].
    unfold tot, csz. cbn [fold_right snd chunk_len].
    assert (0 <= w) by (destruct (code_widths _ _ _ Hc) as [?|[?|[?|?]]]; lia).
    destruct (pack_bytes_meaning little w z H0) as [-> _]. lia.
  - split; [eapply eval_here_value; eauto|exact Hfit].
Qed.

(* (2) li with an unsettled operand, run on the Spec machine (Spec/Sem.v; Proofs/Pseudo.v li_effect = C05_li) *)
From BB Require Import Spec.Sem.
From BB Require Proofs.PseudoEmit Proofs.Pseudo.
Lemma li_pair_emit l consts labels p rd e zhi zlo bs1 bs2 :
  eval_here l p consts labels (EHi e) = Done zhi -> eval_here l p consts labels (ELo e) = Done zlo ->
  encode_item l "UTypeInstruction" "lui" [("rd", FReg (AStr rd)); ("imm", FInt zhi)] false = Done bs1 ->
  encode_item l "ITypeInstruction" "addi" [("rd", FReg (AStr rd)); ("rs1", FReg (AStr rd)); ("imm", FInt zlo); ("is_auipc_jump", FBool true)] false = Done bs2 ->
  PseudoEmit.emit_bytes l consts labels p [mkU "lui" (St rd) (EHi e); mkI "addi" (St rd) (St rd) (ELo e) true] = Done (bs1 ++ bs2).
Proof.
  intros Hh Hlo He1 He2. unfold PseudoEmit.emit_bytes, mkU, mkI, St.
  cbn [map resolve_immediates field_get assoc_str String.eqb Ascii.eqb Bool.eqb].
  replace (p - 0) with p by lia. replace (p + 4 - 4) with p by lia. cbn [imm_of]. rewrite Hh. cbn [obind]. rewrite Hlo. cbn [obind rev app].
  cbn [field_set String.eqb Ascii.eqb Bool.eqb resolve_instructions]. rewrite He1. cbn [obind]. rewrite He2. cbn [obind rev app resolve_blobs].
  cbn [flat_map PseudoEmit.chunk_bytes snd]. rewrite app_nil_r. reflexivity.
Qed.

Theorem text_li_value ls c0 l0 cmp r :
  assemble_text ls c0 l0 cmp = TDone r ->
  forall ls1 l text ls2 rd rest e,
    ls = ls1 ++ (l, text) :: ls2 -> front_line l text = FOk (Some (IPseudo "li" (rd :: rest) (POk e))) ->
    unsettled (r_consts r) e = true -> assoc_str rd (r_consts r) = None ->
    exists cs1 cs2 bs1 bs2 nrd v,
      r_chunks r = cs1 ++ (l, CBytes bs1) :: (l, CBytes bs2) :: cs2 /\ text_layout r 0 ls1 cs1 /\
      text_layout r (tot csz cs1 + 8) ls2 cs2 /\ zlen bs1 = 4 /\ zlen bs2 = 4 /\
      regnum (AStr rd) = Some nrd /\ value_at (final_env r) (tot csz cs1) e = Some v /\
      forall s, loaded s (bs1 ++ bs2) ->
        exists s', run_n 2 s = Some s' /\ pc s' = wrap (pc s + 8) /\ only_reg s s' nrd (wrap v).
Proof.
  intros H ls1 l text ls2 rd rest e E Hf Hu Hrd.
  destruct (text_item_at _ _ _ _ _ H _ _ _ _ _ E Hf eq_refl) as (cs1 & g & cs2 & A1 & A2 & A3 & A4).
  destruct (Rit_v_li _ _ _ _ _ _ _ _ _ Hu A4) as ((q & ls0 & rs & Hr) & zhi & zlo & bs1 & bs2 & Hh & Hlo & He1 & He2 & ->).
  unfold alias_arg in He1, He2. rewrite Hrd in He1, He2.
  pose proof (li_far _ _ _ _ _ _ _ _ Hu Hr) as Ers. subst rs.
  pose proof (li_pair_emit _ _ _ _ _ _ _ _ _ _ Hh Hlo He1 He2) as Hem.
  destruct (Pseudo.li_effect _ _ _ _ _ _ _ _ Hr _ _ _ Hem) as (nrd & v & Hreg & Hv & Hrun).
  pose proof (encode_item_len _ _ _ _ _ _ He1) as L1. pose proof (encode_item_len _ _ _ _ _ _ He2) as L2. cbv iota in L1, L2.
  exists cs1, cs2, bs1, bs2, nrd, v. split; [exact A1|]. split; [exact A2|]. split.
  - replace (tot csz [(l, CBytes bs1); (l, CBytes bs2)]) with 8 in A3; [exact A3|].
    unfold tot, csz. cbn [fold_right snd chunk_len]. lia.
  - split; [exact L1|]. split; [exact L2|]. split; [exact Hreg|]. split; [eapply eval_here_value; eauto|].
    intros s Hs. destruct (Hrun s Hs) as (s' & R1' & R2 & R3). exists s'. cbn [List.length] in R1', R2. auto.
Qed.
