(* C12, positive half -- the compression rule on one well-shaped instruction whose registers the 32-bit encoder accepts:
   it never fails (compress_total), and what it builds is accepted by the c.* encoder with the immediate the rule saw
   (built_accepts: rule soundness C04 pushed through the construction row, for every register spelling). *)
From Coq Require Import ZArith List Bool Lia String Arith.
From BB Require Import Base.Bits Base.PyBase Gen.Encoders Gen.Criteria Spec.RV32 Spec.RVC Spec.Operands Spec.Legal
  Model.Items Model.Encode Model.Passes Proofs.Regs Proofs.Layout Proofs.Errors Proofs.EncSig Proofs.NoRaw Proofs.Rules Proofs.RulesMain
  Proofs.C06Main Proofs.C06c Proofs.C01Main Proofs.Stable Proofs.AcceptMono.
Import ListNotations.
Open Scope Z_scope.
Local Open Scope list_scope.

(* ---- fields ------------------------------------------------------------------------------------------------------------------ *)
Lemma shape_absent post : forall fs keys k,
  shape_okb post keys fs = true -> ~ In k keys -> is_flag_key k = false -> is_ghost_key k = false -> assoc_str k fs = None.
Proof.
  induction fs as [|[k0 v] r IH]; intros keys k H Hn F G. reflexivity.
  cbn [shape_okb] in H. cbn [assoc_str].
  destruct (is_flag_key k0) eqn:F0. { rewrite (flag_neq _ _ F F0). apply andb_prop in H. destruct H. eauto. }
  destruct (is_ghost_key k0) eqn:G0. { rewrite (ghost_neq _ _ G G0). eauto. }
  destruct keys as [|k' ks]; [discriminate|].
  apply andb_prop in H. destruct H as [A B]. apply andb_prop in A. destruct A as [A1 A2].
  apply String.eqb_eq in A1. subst k'.
  destruct (String.eqb k k0) eqn:E. { apply String.eqb_eq in E. subst. exfalso. apply Hn. left. reflexivity. }
  apply (IH ks); auto. intro; apply Hn; right; assumption.
Qed.
Lemma field_get_set_other k v : forall fs, String.eqb k "imm" = false -> field_get k (field_set "imm" v fs) = field_get k fs.
Proof.
  unfold field_get. induction fs as [|[k0 v0] r IH]; intro E. reflexivity.
  cbn [field_set]. destruct (String.eqb k0 "imm") eqn:E0; cbn [assoc_str].
  - apply String.eqb_eq in E0. subst k0. rewrite E. reflexivity.
  - destruct (String.eqb k k0); auto.
Qed.
Lemma field_set_absent v : forall fs, field_get "imm" fs = None -> field_set "imm" v fs = fs.
Proof.
  unfold field_get. induction fs as [|[k0 v0] r IH]; intro H. reflexivity.
  cbn [assoc_str] in H. cbn [field_set]. rewrite String.eqb_sym in H. destruct (String.eqb k0 "imm"); [discriminate|].
  f_equal. auto.
Qed.

Definition regs_valid (fs : list (string * fval)) : Prop :=
  forall k a, is_regfield k = true -> field_get k fs = Some (FReg a) -> exists n, lookup_register a false = Ok n.
Lemma regs_valid_set v fs : regs_valid fs -> regs_valid (field_set "imm" v fs).
Proof.
  intros H k a Hk Hg. rewrite field_get_set_other in Hg. eauto.
  unfold is_regfield, mem_str in Hk. cbn [existsb] in Hk.
  destruct (String.eqb k "imm") eqn:E; auto. apply String.eqb_eq in E. subst. discriminate.
Qed.
Lemma regs_valid_unset v fs : regs_valid (field_set "imm" v fs) -> regs_valid fs.
Proof.
  intros H k a Hk Hg. apply (H k a Hk). rewrite field_get_set_other. exact Hg.
  unfold is_regfield, mem_str in Hk. cbn [existsb] in Hk.
  destruct (String.eqb k "imm") eqn:E; auto. apply String.eqb_eq in E. subst. discriminate.
Qed.

(* ---- tables ------------------------------------------------------------------------------------------------------------------ *)
Fixpoint keys_eqb (a b : list string) : bool :=
  match a, b with [], [] => true | x :: a', y :: b' => String.eqb x y && keys_eqb a' b' | _, _ => false end.
Lemma keys_eqb_eq a : forall b, keys_eqb a b = true -> a = b.
Proof.
  induction a as [|x a IH]; intros [|y b] H; cbn [keys_eqb] in H; try discriminate; auto.
  apply andb_prop in H. destruct H as [A B]. apply String.eqb_eq in A. subst. f_equal. auto.
Qed.
(* a mnemonic that has compression rules lives in the class whose operand keys are orig_fields *)
Lemma orig_keys_ok :
  forallb (fun c => forallb (fun n => match orig_fields n with
                                      | Some ofs => match class_keys (fst c) with Some ks => keys_eqb ks ofs | None => false end
                                      | None => true end) (fst (snd c))) class_sig = true.
Proof. vm_compute. reflexivity. Qed.
Lemma orig_keys cls names kinds name keys ofs :
  assoc_str cls class_sig = Some (names, kinds) -> mem_str name names = true -> class_keys cls = Some keys ->
  orig_fields name = Some ofs -> keys = ofs.
Proof.
  intros A M K O. pose proof orig_keys_ok as T. rewrite forallb_forall in T. specialize (T _ (assoc_in _ _ _ A)). cbn [fst snd] in T.
  rewrite forallb_forall in T. specialize (T _ (mem_in _ _ M)). rewrite O, K in T. apply keys_eqb_eq. exact T.
Qed.
Definition row_name_ok (row : string * list pred) : bool :=
  match snd row with PNameEquals n :: _ => match orig_fields n with Some _ => true | None => false end | _ => false end.
Lemma criteria_names : forallb row_name_ok criteria = true.
Proof. vm_compute. reflexivity. Qed.

(* ---- the view ---------------------------------------------------------------------------------------------------------------- *)
Section One.
Variables (l : line) (consts : envt).

Lemma view_attr pos ls name fs f :
  iv_attr (view_of l pos consts ls name fs) f =
  match field_get f fs with Some (FReg a) => Ok a | Some _ => Err TypeError | None => Err AttributeError end.
Proof. reflexivity. Qed.

Lemma regkey_field keys fs f : shape_okb false keys fs = true -> regkey keys f = true -> exists a, field_get f fs = Some (FReg a).
Proof.
  intros Hs H. unfold regkey in H. apply andb_prop in H. destruct H as [H G]. apply andb_prop in H. destruct H as [H F].
  apply andb_prop in H. destruct H as [M E]. apply negb_true_iff in G, F, E.
  exact (shape_get_reg _ _ _ Hs (NoRaw.mem_str_in _ _ M) F G E).
Qed.

Section Sel.
Variables (pos : Z) (ls : envt) (name : string) (fs : list (string * fval)) (keys : list string).
Hypothesis Hs : shape_okb false keys fs = true.
Hypothesis Hr : regs_valid fs.
Hypothesis Hi : mem_str "imm" keys = true -> exists z, iv_imm (view_of l pos consts ls name fs) = Ok z.
Let i := view_of l pos consts ls name fs.

Lemma reg_read f : regkey keys f = true -> is_regfield f = true ->
  exists a n, iv_attr i f = Ok a /\ lookup_register a false = Ok n.
Proof.
  intros K R. destruct (regkey_field _ _ _ Hs K) as [a Ha]. destruct (Hr f a R Ha) as [n Hn].
  exists a, n. split; auto. unfold i. rewrite view_attr, Ha. reflexivity.
Qed.
Lemma pred_total p : pred_okb keys p = true -> pred_fields_ok p = true -> exists b, pred_sem p i = Ok b.
Proof.
  destruct p; cbn [pred_okb pred_fields_ok pred_sem]; intros K R; try (eexists; reflexivity);
    try (destruct (reg_read _ K R) as (a & n & -> & E); cbn [bind]; rewrite E; cbn [bind]; eexists; reflexivity);
    try (destruct (Hi K) as [z E]; fold i in E; rewrite E; cbn [bind]; eexists; reflexivity).
  apply andb_prop in K. destruct K as [Ka Kb]. apply andb_prop in R. destruct R as [Ra Rb].
  destruct (reg_read _ Ka Ra) as (x & n & -> & E). cbn [bind]. rewrite E. cbn [bind].
  destruct (reg_read _ Kb Rb) as (y & m & -> & E'). cbn [bind]. rewrite E'. cbn [bind]. eexists; reflexivity.
Qed.
Lemma all_preds_total ps : forallb (pred_okb keys) ps = true -> forallb pred_fields_ok ps = true -> exists b, all_preds ps i = Ok b.
Proof.
  induction ps as [|p r IH]; cbn [forallb all_preds]; intros K R. eexists; reflexivity.
  apply andb_prop in K. destruct K as [K1 K2]. apply andb_prop in R. destruct R as [R1 R2].
  destruct (pred_total p K1 R1) as [b ->]. cbn [bind]. destruct b; [apply IH; auto|eexists; reflexivity].
Qed.
End Sel.

(* selection never fails on an instruction whose registers are valid and whose immediate evaluates *)
Lemma select_total pos ls cls name fs names kinds keys :
  assoc_str cls class_sig = Some (names, kinds) -> class_keys cls = Some keys -> mem_str name names = true ->
  shape_okb false keys fs = true ->
  (orig_fields name <> None -> regs_valid fs) ->
  (mem_str "imm" keys = true -> exists z, iv_imm (view_of l pos consts ls name fs) = Ok z) ->
  forall cr, forallb row_okb cr = true -> forallb (fun x => forallb pred_fields_ok (snd x)) cr = true ->
             forallb row_name_ok cr = true ->
    exists r, select_rule cr (view_of l pos consts ls name fs) = Ok r.
Proof.
  intros Es Ek Hn Hs Hr Hi. induction cr as [|[rn ps] r IH]; intros H1 H2 H3.
  - eexists; reflexivity.
  - cbn [forallb] in H1, H2, H3. apply andb_prop in H1. destruct H1 as [Hrow H1]. apply andb_prop in H2. destruct H2 as [Hf H2].
    apply andb_prop in H3. destruct H3 as [Hnm H3]. specialize (IH H1 H2 H3).
    unfold row_okb in Hrow. unfold row_name_ok in Hnm. cbn [fst snd] in Hrow, Hf, Hnm.
    destruct ps as [|[n| | | | | | | |] rest]; try discriminate.
    cbn [select_rule all_preds pred_sem bind]. cbn [view_of iv_name].
    destruct (String.eqb name n) eqn:En.
    + apply String.eqb_eq in En. subst n.
      rewrite forallb_forall in Hrow. specialize (Hrow _ (assoc_in _ _ _ Es)). cbn [fst snd] in Hrow.
      rewrite Hn, Ek in Hrow. apply andb_prop in Hrow. destruct Hrow as [Hp Hb].
      cbn [forallb pred_fields_ok] in Hf.
      assert (Hrv : regs_valid fs). { apply Hr. destruct (orig_fields name); [discriminate|discriminate]. }
      destruct (all_preds_total pos ls name fs keys Hs Hrv Hi rest Hp Hf) as [b ->]. cbn [bind].
      destruct b; [eexists; reflexivity|exact IH].
    + cbn [bind]. exact IH.
Qed.

(* the numeric view has no operands beyond those of the mnemonic *)
Lemma view_wf pos ls cls name fs names kinds keys :
  assoc_str cls class_sig = Some (names, kinds) -> class_keys cls = Some keys -> mem_str name names = true ->
  shape_okb false keys fs = true -> wf_view (nview_of (view_of l pos consts ls name fs)).
Proof.
  intros Es Ek Hn Hs. unfold wf_view. cbn [nview_of nv_name view_of iv_name].
  destruct (orig_fields name) as [ofs|] eqn:Eo; [|exact I].
  pose proof (orig_keys _ _ _ _ _ _ Es Hn Ek Eo) as ->.
  assert (A : forall f, is_flag_key f = false -> is_ghost_key f = false -> mem_str f ofs = false -> field_get f fs = None).
  { intros f F G M. unfold field_get. eapply shape_absent; eauto. intro Hin.
    assert (mem_str f ofs = true); [|congruence]. unfold mem_str. apply existsb_exists. exists f. split; auto. apply String.eqb_refl. }
  cbn [nview_of nv_rd nv_rs1 nv_rs2 nv_imm]. unfold reg_of. cbn [iv_attr iv_imm view_of].
  split; [|split; [|split]]; intro M.
  - rewrite (A "rd"%string eq_refl eq_refl M). reflexivity.
  - rewrite (A "rs1"%string eq_refl eq_refl M). reflexivity.
  - rewrite (A "rs2"%string eq_refl eq_refl M). reflexivity.
  - rewrite (A "imm"%string eq_refl eq_refl M). reflexivity.
Qed.

(* ---- building ------------------------------------------------------------------------------------------------------------- *)
Definition rule_uses_flag (rule : string) : bool :=
  match assoc_str rule construction with
  | Some (_, _, cfs) => existsb (fun cf => match cf with FItem a => is_flag_key a | _ => false end) cfs
  | None => false
  end.
Definition arith_regs_ok (cfs : list cfield) : bool :=
  forallb (fun cf => match cf with FArithReg a => is_regfield a | _ => true end) cfs.
Lemma construction_arith_ok : forallb (fun row => arith_regs_ok (snd (snd row))) construction = true.
Proof. vm_compute. reflexivity. Qed.

Lemma build_fields_some fs src : shape_okb false src fs = true -> regs_valid fs -> forall fnames cfs,
  cshape_okb src fnames cfs = true -> arith_regs_ok cfs = true ->
  (existsb (fun cf => match cf with FItem a => is_flag_key a | _ => false end) cfs = true -> field_get "is_auipc_jump" fs <> None) ->
  exists nfs, zip_fields fnames (map (build_field fs) cfs) = Some nfs.
Proof.
  intros Hs Hr. induction fnames as [|fn fr IH]; intros cfs C A F.
  - destruct cfs; [|discriminate]. eexists; reflexivity.
  - destruct cfs as [|cf cr]; [discriminate|]. cbn [cshape_okb] in C. apply andb_prop in C. destruct C as [C1 C2].
    cbn [arith_regs_ok forallb] in A. apply andb_prop in A. destruct A as [A1 A2]. cbn [existsb] in F.
    destruct (IH cr C2 A2) as [rest Er]. { intro E. apply F. rewrite E. apply orb_true_r. }
    cbn [map zip_fields]. rewrite Er.
    assert (B : exists v, build_field fs cf = Some v); [|destruct B as [v ->]; eexists; reflexivity].
    destruct (is_flag_key fn) eqn:Ff.
    + destruct cf; try discriminate. cbn [build_field].
      assert (attr = "is_auipc_jump"%string) as -> by (apply String.eqb_eq; exact C1).
      destruct (field_get "is_auipc_jump" fs) as [v|] eqn:E; [eauto|]. exfalso. apply F; [|reflexivity]. rewrite C1. reflexivity.
    + destruct (is_ghost_key fn); [discriminate|]. destruct (String.eqb fn "imm").
      * destruct cf; try discriminate.
        -- apply andb_prop in C1. destruct C1 as [E M]. apply String.eqb_eq in E. subst attr. cbn [build_field].
           destruct (shape_get_imm _ _ Hs (NoRaw.mem_str_in _ _ M)) as (e & He & _). unfold field_get. rewrite He. eauto.
        -- cbn [build_field]. destruct (regkey_field _ _ _ Hs C1) as [a Ha]. rewrite Ha.
           destruct (Hr _ _ A1 Ha) as [n ->]. eauto.
      * destruct cf; try discriminate. cbn [build_field]. destruct (regkey_field _ _ _ Hs C1) as [a Ha]. rewrite Ha. eauto.
Qed.

Lemma build_total fs src rule :
  shape_okb false src fs = true -> regs_valid fs -> build_okb src rule = true -> assoc_str rule construction <> None ->
  (rule_uses_flag rule = true -> field_get "is_auipc_jump" fs <> None) ->
  exists it', build_compressed rule fs = Some it'.
Proof.
  intros Hs Hr B N F. unfold build_compressed. unfold build_okb in B. unfold rule_uses_flag in F.
  destruct (assoc_str rule construction) as [[[final cls'] cfs]|] eqn:Ec; [|congruence].
  pose proof construction_arith_ok as T. rewrite forallb_forall in T. specialize (T _ (assoc_in _ _ _ Ec)). cbn [snd] in T.
  destruct (assoc_str cls' class_sig) as [[names' kinds']|]; try discriminate.
  destruct (assoc_str cls' class_fields) as [[|n0 fnames]|] eqn:Ef; try discriminate.
  assert (n0 = "name"%string) as ->.
  { destruct n0 as [|c0 n0]; try discriminate. revert B.
    repeat (match goal with |- context[match ?x with _ => _ end] => destruct x; try discriminate end). reflexivity. }
  apply andb_prop in B. destruct B as [_ C].
  destruct (build_fields_some fs src Hs Hr fnames cfs C T F) as [nfs ->]. eexists; reflexivity.
Qed.
End One.

(* ---- what the construction row builds is what the sweep checked -------------------------------------------------------------- *)
Fixpoint ck (fnames : list string) (cfs : list cfield) (ks : list ckind) : bool :=
  match fnames, cfs with
  | [], [] => match ks with [] => true | _ => false end
  | fn :: fr, cf :: cr =>
      if is_flag_key fn then ck fr cr ks
      else match ks with
           | k :: ks' =>
               (if String.eqb fn "imm"
                then match cf with FItem a => String.eqb a "imm" | FArithReg a => is_regfield a | FArith _ => false end
                else match cf, k with FItem a, CReg => is_regfield a | _, _ => false end) && ck fr cr ks'
           | [] => false
           end
  | _, _ => false
  end.
Definition row_ck (row : string * (string * string * list cfield)) : bool :=
  match snd row with
  | (final, cls', cfs) =>
      match assoc_str cls' class_fields, sassoc final kinds16 with
      | Some (n0 :: fnames), Some ks => String.eqb n0 "name" && ck fnames cfs ks && negb (is_atomic_cls cls') && mem_str final c_mnemonics
      | _, _ => false
      end
  end.
Lemma construction_ck : forallb row_ck construction = true.
Proof. vm_compute. reflexivity. Qed.

Section Built.
Variables (l : line) (consts : envt) (pos : Z) (ls : envt) (name : string) (fs : list (string * fval)) (src : list string).
Hypothesis Hs : shape_okb false src fs = true.
Hypothesis Hr : regs_valid fs.
Let i := view_of l pos consts ls name fs.
Let v := nview_of i.

Lemma reg_item a : regkey src a = true -> is_regfield a = true ->
  exists r n, field_get a fs = Some (FReg r) /\ lookup_register r false = Ok n /\ reg_of i a = n /\ regnum r = Some n /\ regnum (AInt n) = Some n.
Proof.
  intros K R. destruct (regkey_field _ _ _ Hs K) as [r Ha]. destruct (Hr a r R Ha) as [n Hn].
  exists r, n. split; auto. split; auto. split. { unfold reg_of, i. rewrite view_attr, Ha, Hn. reflexivity. }
  pose proof (proj1 (lookup_register_spec r n) Hn) as Rn. split. exact Rn.
  pose proof (regnum_range _ _ Rn) as B. cbn [regnum]. unfold in_regs.
  assert (E : (0 <=? n) && (n <=? 31) = true) by (apply andb_true_intro; split; apply Z.leb_le; lia). rewrite E. reflexivity.
Qed.
Lemma regfield_not_imm a : is_regfield a = true -> String.eqb a "imm" = false /\ String.eqb a "is_auipc_jump" = false.
Proof.
  unfold is_regfield, mem_str. cbn [existsb]. intro H.
  destruct (String.eqb a "rd") eqn:E1. { apply String.eqb_eq in E1. subst. split; reflexivity. }
  destruct (String.eqb a "rs1") eqn:E2. { apply String.eqb_eq in E2. subst. split; reflexivity. }
  destruct (String.eqb a "rs2") eqn:E3. { apply String.eqb_eq in E3. subst. split; reflexivity. }
  discriminate.
Qed.

Lemma built_reads0 : forall fnames cfs ks nfs,
  cshape_okb src fnames cfs = true -> ck fnames cfs ks = true -> ~ In "imm"%string fnames ->
  zip_fields fnames (map (build_field fs) cfs) = Some nfs ->
  read_cops ks (args_of nfs) = read_cops ks (map AInt (somes (map (cfield_num v) cfs))).
Proof.
  induction fnames as [|fn fr IH]; intros cfs ks nfs C K N Z.
  - destruct cfs; [|discriminate]. cbn in Z. inversion Z. reflexivity.
  - destruct cfs as [|cf cr]; [discriminate|]. cbn [cshape_okb] in C. apply andb_prop in C. destruct C as [C1 C2].
    cbn [map zip_fields] in Z. destruct (build_field fs cf) as [v0|] eqn:Ev; try discriminate.
    destruct (zip_fields fr (map (build_field fs) cr)) as [rest|] eqn:Er; try discriminate. inversion Z; subst nfs. clear Z.
    assert (N' : ~ In "imm"%string fr) by (intro; apply N; right; assumption).
    cbn [ck] in K. cbn [args_of]. fold (is_flag_key fn). fold (is_ghost_key fn).
    destruct (is_flag_key fn) eqn:F.
    + destruct cf; try discriminate. cbn [map cfield_num]. fold (is_flag_key attr). rewrite C1. cbn [somes flat_map app].
      exact (IH _ _ _ C2 K N' Er).
    + destruct (is_ghost_key fn) eqn:G; [discriminate|].
      destruct ks as [|k ks']; [discriminate|]. apply andb_prop in K. destruct K as [K1 K2].
      assert (Eimm : String.eqb fn "imm" = false).
      { destruct (String.eqb fn "imm") eqn:E; auto. apply String.eqb_eq in E. subst. exfalso. apply N. left. reflexivity. }
      rewrite Eimm in C1, K1. destruct cf; try discriminate. destruct k; try discriminate.
      destruct (reg_item attr C1 K1) as (r & n & Ha & Hn & Hreg & R1 & R2). cbn [build_field] in Ev. rewrite Ha in Ev. inversion Ev; subst v0.
      destruct (regfield_not_imm _ K1) as [NI NF].
      cbn [arg_of_fval map cfield_num]. rewrite NF. unfold fval_num. rewrite NI. replace (nreg v attr) with n by (unfold v; rewrite (nreg_of i attr K1); symmetry; exact Hreg).
      cbn [somes flat_map app map]. cbn [read_cops read_cop]. rewrite R1, R2.
      change (flat_map (fun o => match o with Some x => [x] | None => [] end) (map (cfield_num v) cr)) with (somes (map (cfield_num v) cr)).
      rewrite (IH _ _ _ C2 K2 N' Er). reflexivity.
Qed.

Lemma built_reads : forall fnames cfs ks nfs z,
  cshape_okb src fnames cfs = true -> ck fnames cfs ks = true -> imm_once (filter notflag fnames) = true ->
  zip_fields fnames (map (build_field fs) cfs) = Some nfs ->
  (forall a, In (FArithReg a) cfs -> z = reg_of i a) -> (In (FItem "imm") cfs -> z = nv_imm v) ->
  read_cops ks (args_of (field_set "imm" (FInt z) nfs)) = read_cops ks (map AInt (somes (map (cfield_num v) cfs))).
Proof.
  induction fnames as [|fn fr IH]; intros cfs ks nfs z C K O Z HA HI.
  - destruct cfs; [|discriminate]. cbn in Z. inversion Z. reflexivity.
  - destruct cfs as [|cf cr]; [discriminate|]. pose proof C as C0. cbn [cshape_okb] in C. apply andb_prop in C. destruct C as [C1 C2].
    cbn [map zip_fields] in Z. destruct (build_field fs cf) as [v0|] eqn:Ev; try discriminate.
    destruct (zip_fields fr (map (build_field fs) cr)) as [rest|] eqn:Er; try discriminate. inversion Z; subst nfs. clear Z.
    assert (HA' : forall a, In (FArithReg a) cr -> z = reg_of i a) by (intros a Hin; apply HA; right; exact Hin).
    assert (HI' : In (FItem "imm") cr -> z = nv_imm v) by (intro Hin; apply HI; right; exact Hin).
    cbn [ck] in K. cbn [filter] in O. unfold notflag at 1 in O.
    destruct (is_flag_key fn) eqn:F.
    + cbn [negb] in O. assert (Eimm : String.eqb fn "imm" = false).
      { destruct (String.eqb fn "imm") eqn:E; auto. apply String.eqb_eq in E. subst. discriminate. }
      cbn [field_set]. rewrite Eimm. cbn [args_of]. fold (is_flag_key fn). rewrite F.
      destruct cf; try discriminate. cbn [map cfield_num]. fold (is_flag_key attr). rewrite C1. cbn [somes flat_map app].
      exact (IH _ _ _ _ C2 K O Er HA' HI').
    + cbn [negb] in O. destruct (is_ghost_key fn) eqn:G; [discriminate|].
      destruct ks as [|k ks']; [discriminate|]. apply andb_prop in K. destruct K as [K1 K2].
      destruct (String.eqb fn "imm") eqn:Eimm.
      * (* the immediate *)
        apply String.eqb_eq in Eimm. subst fn.
        assert (N' : ~ In "imm"%string fr).
        { unfold imm_once in O. cbn [count_occ] in O. destruct (string_dec "imm" "imm") as [_|X]; [|congruence].
          apply Nat.leb_le in O. intro Hin.
          assert (Hin' : In "imm"%string (filter notflag fr)) by (apply filter_In; split; [exact Hin|reflexivity]).
          apply (count_occ_In string_dec) in Hin'. lia. }
        cbn [field_set String.eqb Ascii.eqb Bool.eqb andb]. cbn [args_of]. change (String.eqb "imm" "is_auipc_jump") with false.
        change (String.eqb (substring 0 1 "imm") "#") with false. cbv iota. cbn [arg_of_fval].
        assert (Hz : somes (map (cfield_num v) (cf :: cr)) = z :: somes (map (cfield_num v) cr)).
        { destruct cf; try discriminate.
          - apply String.eqb_eq in K1. subst attr. cbn [map cfield_num]. change (String.eqb "imm" "is_auipc_jump") with false. cbv iota.
            unfold fval_num. change (String.eqb "imm" "imm") with true. cbv iota. rewrite <- (HI (or_introl eq_refl)). reflexivity.
          - cbn [map cfield_num]. replace (nreg v attr) with z by (unfold v; rewrite (nreg_of i attr K1); apply HA; left; reflexivity). reflexivity. }
        rewrite Hz. cbn [map read_cops]. rewrite (built_reads0 _ _ _ _ C2 K2 N' Er). reflexivity.
      * destruct cf; try discriminate. destruct k; try discriminate.
        destruct (reg_item attr C1 K1) as (r & n & Ha & Hn & Hreg & R1 & R2). cbn [build_field] in Ev. rewrite Ha in Ev. inversion Ev; subst v0.
        destruct (regfield_not_imm _ K1) as [NI NF].
        cbn [field_set]. rewrite Eimm. cbn [args_of]. fold (is_flag_key fn). fold (is_ghost_key fn). rewrite F, G.
        cbn [arg_of_fval map cfield_num]. rewrite NF. unfold fval_num. rewrite NI. replace (nreg v attr) with n by (unfold v; rewrite (nreg_of i attr K1); symmetry; exact Hreg).
        cbn [somes flat_map app map]. cbn [read_cops read_cop]. rewrite R1, R2.
        change (flat_map (fun o => match o with Some x => [x] | None => [] end) (map (cfield_num v) cr)) with (somes (map (cfield_num v) cr)).
        assert (O' : imm_once (filter notflag fr) = true).
        { unfold imm_once in *. cbn [count_occ] in O. destruct (string_dec fn "imm") as [X|_]; [subst; discriminate|]. exact O. }
        rewrite (IH _ _ _ _ C2 K2 O' Er HA' HI'). reflexivity.
Qed.
End Built.

(* ---- the rule on one instruction ----------------------------------------------------------------------------------------------- *)
Lemma criteria_rows_built :
  forallb (fun row => match assoc_str (fst row) construction with Some _ => true | None => false end) criteria = true.
Proof. vm_compute. reflexivity. Qed.
Lemma flag_rows :
  forallb (fun row => negb (rule_uses_flag (fst row)) ||
                      match rule_name (snd row) with Some n => String.eqb n "jalr" | None => false end) criteria = true.
Proof. vm_compute. reflexivity. Qed.
Lemma row_name_rule row : row_name_ok row = true -> exists n, rule_name (snd row) = Some n /\ orig_fields n <> None.
Proof.
  unfold row_name_ok. destruct (snd row) as [|[n| | | | | | | |] rest]; try discriminate.
  destruct (orig_fields n) eqn:E; try discriminate. intros _. exists n. split. reflexivity. congruence.
Qed.

Section Comp.
Variables (l : line) (consts : envt).

(* a selected rule belongs to a row of the table whose mnemonic is the item's *)
Lemma selected_row pos ls name fs rule :
  select_rule criteria (view_of l pos consts ls name fs) = Ok (Some rule) ->
  exists ps, In (rule, ps) criteria /\ rule_name ps = Some name /\ orig_fields name <> None.
Proof.
  intro H. pose proof (select_link _ _ H) as Hn. destruct (select_num_in _ _ _ Hn) as (ps & Hin & Ha).
  exists ps. split. exact Hin. pose proof criteria_names as T. rewrite forallb_forall in T. specialize (T _ Hin).
  destruct (row_name_rule _ T) as (n & Rn & On). cbn [snd] in Rn.
  pose proof (all_num_name _ _ _ Rn Ha) as E. cbn [nview_of nv_name view_of iv_name] in E. subst n. auto.
Qed.

Lemma built_accepts pos ls cls name fs names kinds keys rule y z :
  assoc_str cls class_sig = Some (names, kinds) -> class_keys cls = Some keys -> mem_str name names = true ->
  shape_okb false keys fs = true -> regs_valid fs ->
  select_rule criteria (view_of l pos consts ls name fs) = Ok (Some rule) ->
  build_compressed rule fs = Some y ->
  (forall final cls' cfs, assoc_str rule construction = Some (final, cls', cfs) ->
      (forall a, In (FArithReg a) cfs -> z = reg_of (view_of l pos consts ls name fs) a) /\
      (In (FItem "imm") cfs -> z = nv_imm (nview_of (view_of l pos consts ls name fs)))) ->
  exists cls' final nfs, y = IInstr cls' final nfs true /\ accepts final (args_of (field_set "imm" (FInt z) nfs)) /\
     is_atomic_cls cls' = false /\ In final c_mnemonics /\ (forall st, (st <= 3)%nat -> okb st y = true).
Proof.
  intros Es Ek Hn Hs Hr Hsel Hb Hz.
  destruct (select_rule_va l pos consts ls cls name fs names kinds keys Es Ek Hn Hs criteria criteria_ok) as [_ B].
  specialize (B rule Hsel).
  pose proof (view_wf l consts pos ls cls name fs names kinds keys Es Ek Hn Hs) as W.
  pose proof (rule_sound_item _ _ Hsel W) as RC.
  destruct (rule_check_spec _ _ RC) as (fs0 & final & cls' & cfs & o32 & o16 & ins & c & A & Bc & C & D & E & _).
  destruct (Hz _ _ _ Bc) as [HA HI].
  pose proof construction_ck as T. rewrite forallb_forall in T. specialize (T _ (assoc_in _ _ _ Bc)). unfold row_ck in T. cbn [snd] in T.
  assert (Ok3 : forall st, (st <= 3)%nat -> okb st y = true) by (intros st Hst; eapply build_compressed_ok; eauto).
  unfold build_compressed in Hb. rewrite Bc in Hb. unfold build_okb in B. rewrite Bc in B.
  destruct (assoc_str cls' class_fields) as [[|n0 fnames]|] eqn:Ef; try discriminate.
  destruct (sassoc final kinds16) as [ks|] eqn:Ek16; try discriminate.
  apply andb_prop in T. destruct T as [T Tm]. apply andb_prop in T. destruct T as [T Ta]. apply andb_prop in T. destruct T as [Tn Tc].
  apply String.eqb_eq in Tn. subst n0. apply negb_true_iff in Ta.
  destruct (assoc_str cls' class_sig) as [[names' kinds']|]; try discriminate.
  apply andb_prop in B. destruct B as [B Cs]. apply andb_prop in B. destruct B as [_ Bi].
  destruct (zip_fields fnames (map (build_field fs) cfs)) as [nfs|] eqn:Ez; try discriminate.
  inversion Hb; subst y. exists cls', final, nfs. split. reflexivity.
  assert (Hc : In final c_mnemonics) by (apply mem_in; exact Tm).
  split; [|auto].
  apply (proj2 (exact16 final _ [] Hc)). exists o16. split; [|exact E].
  unfold operands16 in *. rewrite Ek16 in *. unfold pos16_of in D. rewrite <- D.
  eapply built_reads; eauto.
Qed.

Lemma imm_unstable_cases pos cls fs : (exists u, imm_unstable l pos consts cls fs = Done u) \/ exists x, imm_unstable l pos consts cls fs = Fail (PRaw x).
Proof.
  unfold imm_unstable. destruct (field_get "imm" fs) as [[| e | |]|]; eauto.
  destruct (_ && _); eauto. unfold is_settled. destruct (is_position_relative e); cbn [obind]; eauto.
  destruct (eval_consts l pos consts e) as [z|[ln|x]]; cbn [obind]; eauto.
Qed.

Definition tgt_ok (ls : envt) (fs : list (string * fval)) : Prop :=
  forall r, field_get "imm" fs = Some (FExpr (EOff r)) -> assoc_str r consts = None -> exists d, assoc_str r ls = Some d.

Lemma view_imm pos ls cls name fs keys :
  shape_okb false keys fs = true -> tgt_ok ls fs -> imm_unstable l pos consts cls fs = Done false ->
  mem_str "imm" keys = true -> exists z, iv_imm (view_of l pos consts ls name fs) = Ok z.
Proof.
  intros Hs Ht Hu M. destruct (shape_get_imm _ _ Hs (NoRaw.mem_str_in _ _ M)) as (e & He & _).
  cbn [view_of iv_imm]. unfold field_get in *. rewrite He.
  destruct (compress_decides_on_settled l pos consts cls fs e He Hu) as [[_ (r & -> & Hc)]|[z Hz]].
  - destruct (Ht r He Hc) as [d Hd]. cbn [eeval]. unfold chain_get. rewrite Hc, Hd. eexists. reflexivity.
  - specialize (Hz pos ls). unfold eval_here in Hz.
    destruct (eeval _ _ _ _ _ _ e) as [w|x]; cbn [of_pres] in Hz; inversion Hz. eexists. reflexivity.
Qed.

Theorem compress_total pos ls cls name fs c :
  instr_okb false cls name fs = true ->
  (orig_fields name <> None -> regs_valid fs) ->
  (name = "jalr"%string -> field_get "is_auipc_jump" fs <> None) ->
  tgt_ok ls fs ->
  exists y, compress_rule consts l (IInstr cls name fs c) pos ls = Done [y].
Proof.
  intros Hok Hr Hf Ht. unfold instr_okb in Hok.
  destruct (assoc_str cls class_sig) as [[names kinds]|] eqn:Es; try discriminate.
  destruct (class_keys cls) as [keys|] eqn:Ek; try discriminate.
  apply andb_prop in Hok. destruct Hok as [Hok Hs]. apply andb_prop in Hok. destruct Hok as [Hn _].
  cbn [compress_rule].
  pose proof (imm_unstable_good l pos consts cls fs keys Hs) as G.
  destruct (imm_unstable_cases pos cls fs) as [[u Eu]|[x Ex]]; [|rewrite Ex in G; contradiction].
  rewrite Eu. cbn [obind]. destruct u; [eauto|].
  destruct (select_total l consts pos ls cls name fs names kinds keys Es Ek Hn Hs Hr
              (view_imm pos ls cls name fs keys Hs Ht Eu) criteria criteria_ok criteria_fields criteria_names) as [r Er].
  rewrite Er. destruct r as [rule|]; [|eauto].
  destruct (selected_row _ _ _ _ _ Er) as (ps & Hin & Rn & On).
  destruct (select_rule_va l pos consts ls cls name fs names kinds keys Es Ek Hn Hs criteria criteria_ok) as [_ B].
  specialize (B rule Er).
  destruct (build_total fs keys rule Hs (Hr On) B) as [it' ->]; [| |eauto].
  - pose proof criteria_rows_built as T. rewrite forallb_forall in T. specialize (T _ Hin). cbn [fst] in T.
    destruct (assoc_str rule construction); [discriminate|discriminate T].
  - intro U. apply Hf. pose proof flag_rows as T. rewrite forallb_forall in T. specialize (T _ Hin). cbn [fst snd] in T.
    rewrite U, Rn in T. cbn [negb orb] in T. apply String.eqb_eq in T. exact T.
Qed.

Lemma compress_spec pos ls cls name fs c y :
  compress_rule consts l (IInstr cls name fs c) pos ls = Done [y] ->
  y = IInstr cls name fs c \/
  exists rule, imm_unstable l pos consts cls fs = Done false /\
               select_rule criteria (view_of l pos consts ls name fs) = Ok (Some rule) /\ build_compressed rule fs = Some y.
Proof.
  cbn [compress_rule]. destruct (imm_unstable l pos consts cls fs) as [u| |] eqn:Eu; cbn [obind]; try discriminate.
  destruct u. { intro H; inversion H; auto. }
  destruct (select_rule criteria _) as [[rule|]|e] eqn:Es; try discriminate.
  - destruct (build_compressed rule fs) as [it'|] eqn:Eb; try discriminate. intro H; inversion H; subst. right. exists rule. auto.
  - intro H; inversion H; auto.
Qed.
End Comp.

(* ---- the row behind a built instruction ------------------------------------------------------------------------------------- *)
Lemma built_row l consts pos ls cls name fs names kinds keys rule y :
  assoc_str cls class_sig = Some (names, kinds) -> class_keys cls = Some keys -> mem_str name names = true ->
  shape_okb false keys fs = true ->
  select_rule criteria (view_of l pos consts ls name fs) = Ok (Some rule) ->
  build_compressed rule fs = Some y ->
  exists final cls' cfs fnames ks nfs,
    assoc_str rule construction = Some (final, cls', cfs) /\ sassoc final kinds16 = Some ks /\
    ck fnames cfs ks = true /\ cshape_okb keys fnames cfs = true /\ imm_once (filter notflag fnames) = true /\
    zip_fields fnames (map (build_field fs) cfs) = Some nfs /\ y = IInstr cls' final nfs true /\
    is_atomic_cls cls' = false /\ In final c_mnemonics /\ (forall st, (st <= 3)%nat -> okb st y = true).
Proof.
  intros Es Ek Hn Hs Hsel Hb.
  destruct (select_rule_va l pos consts ls cls name fs names kinds keys Es Ek Hn Hs criteria criteria_ok) as [_ B].
  specialize (B rule Hsel).
  assert (Ok3 : forall st, (st <= 3)%nat -> okb st y = true) by (intros st Hst; eapply build_compressed_ok; eauto).
  unfold build_compressed in Hb. unfold build_okb in B.
  destruct (assoc_str rule construction) as [[[final cls'] cfs]|] eqn:Bc; try discriminate.
  pose proof construction_ck as T. rewrite forallb_forall in T. specialize (T _ (assoc_in _ _ _ Bc)). unfold row_ck in T. cbn [snd] in T.
  destruct (assoc_str cls' class_fields) as [[|n0 fnames]|] eqn:Ef; try discriminate.
  destruct (sassoc final kinds16) as [ks|] eqn:Ek16; try discriminate.
  apply andb_prop in T. destruct T as [T Tm]. apply andb_prop in T. destruct T as [T Ta]. apply andb_prop in T. destruct T as [Tn Tc].
  apply String.eqb_eq in Tn. subst n0. apply negb_true_iff in Ta.
  destruct (assoc_str cls' class_sig) as [[names' kinds']|]; try discriminate.
  apply andb_prop in B. destruct B as [B Cs]. apply andb_prop in B. destruct B as [_ Bi].
  destruct (zip_fields fnames (map (build_field fs) cfs)) as [nfs|] eqn:Ez; try discriminate.
  inversion Hb; subst y. exists final, cls', cfs, fnames, ks, nfs.
  repeat (split; [first [reflexivity|assumption]|]). split. apply mem_in; exact Tm. exact Ok3.
Qed.
