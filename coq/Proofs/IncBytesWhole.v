(* include_bytes in the WHOLE model of asm.assemble.

   Proofs/Whole.v [assemble_model] stops at an `include_bytes F N` line ("outside the model": Model/Parser.v answers FUnsup,
   because Model/Reader.v's Line does not carry the path the include search found).  This file EXTENDS the whole model,
   without touching the Model files:
     * [read_lines_x]   = Model/Reader.v read_lines, each line additionally tagged with Line.include_path (the path found by
                          the reader's search for an include_bytes line; None for every other line).  Erasing the tags gives
                          read_lines back ([read_lines_x_erase]).
     * [parse_item_x]   = Model/Parser.v parse_item plus the one branch it leaves out (asm.parse_item, `elif head ==
                          'include_bytes'`): IncludeBytes(line, line.include_path or the path as written, int(size, 0));
                          the item's [actual] is the size of that file when resolve_include_bytes opens it (same file system).
     * [assemble_model_x]: reader_x -> lexer -> parser_x -> the 16 passes.  It agrees with [assemble_model] wherever that
                          one is defined ([assemble_model_x_conservative]).
   Then: an include_bytes line whose search finds P yields exactly the chunk  CFile P (size of P)  at its line
   ([include_bytes_whole]); a missing file is an AssemblerError at that line ([include_bytes_missing_*]); the result does not
   depend on the working directory ([whole_x_cwd]) -- except for an INDENTED `include_bytes F N` line, which the reader does
   not recognise and whose path the parser takes as written ([as_written_depends_on_cwd]). *)
From Coq Require Import ZArith List Bool String Ascii Lia.
From BB Require Import Base.PyBase Model.Items Model.Lexer Model.Parser Model.Passes Model.Reader
  Proofs.ReaderSplice Proofs.ReaderErrors Proofs.ReaderCwd Proofs.Program Proofs.Whole Proofs.IncBytesPasses.
Import ListNotations.
Open Scope string_scope.
Open Scope Z_scope.

(* ---- the reader with Line.include_path ----------------------------------------------------------------------------- *)
Record xline := { x_line : Reader.line; x_inc : option string }.
Definition xplain (ln : Reader.line) : xline := {| x_line := ln; x_inc := None |}.
Definition bytes_line (file : string) (i : Z) (raw data : string) : Reader.line :=
  {| l_file := file; l_num := i; l_contents := raw ++ " " ++ dec_of_Z (Z.of_nat (String.length data)) |}.

Fixpoint read_numbered_x (rec : string -> rres (list xline)) (fs : fsys) (cwd file : string) (dirs : list string)
         (nls : list (Z * string)) : rres (list xline) :=
  match nls with
  | [] => ROk []
  | (i, raw) :: rest =>
      if is_blank raw then read_numbered_x rec fs cwd file dirs rest
      else if is_include raw then
        match include_target raw with
        | None => RErr (EAsm file i MIncludeSyntax)
        | Some rel =>
            match lookup fs cwd rel dirs with
            | None => RErr (EAsm file i MIncludeMissing)
            | Some p => rbind (rec p) (fun inc =>
                        rbind (read_numbered_x rec fs cwd file dirs rest) (fun tl => ROk (app inc tl)))
            end
        end
      else if is_include_bytes raw then
        match bytes_target raw with
        | None => RErr (EAsm file i MBytesSyntax)
        | Some rel =>
            match lookup fs cwd rel dirs with
            | None => RErr (EAsm file i MBytesMissing)
            | Some p =>
                match fs_read fs cwd p with
                | None => RErr ERaw
                | Some data =>
                    rbind (read_numbered_x rec fs cwd file dirs rest)
                          (fun tl => ROk ({| x_line := bytes_line file i raw data; x_inc := Some p |} :: tl))
                end
            end
        end
      else rbind (read_numbered_x rec fs cwd file dirs rest)
                 (fun tl => ROk (xplain {| l_file := file; l_num := i; l_contents := raw |} :: tl))
  end.
Fixpoint read_file_x (fuel : nat) (fs : fsys) (cwd : string) (incs : list string) (p : string) : rres (list xline) :=
  match fuel with
  | O => RErr EFuel
  | S f =>
      match fs_read fs cwd p with
      | None => RErr ERaw
      | Some src => read_numbered_x (read_file_x f fs cwd incs) fs cwd p (app incs [base_dir cwd p])
                                    (number 1 (splitlines src))
      end
  end.
Definition read_lines_x (fuel : nat) (fs : fsys) (cwd : string) (incs : list string) (top : string) : rres (list xline) :=
  if fs_exists fs cwd top then read_file_x (S fuel) fs cwd incs top
  else read_numbered_x (read_file_x fuel fs cwd incs) fs cwd "<string>" (app incs [cwd]) (number 1 (splitlines top)).

(* erasing the tags gives the reader model back *)
Definition rmap {A B} (f : A -> B) (r : rres A) : rres B := match r with ROk a => ROk (f a) | RErr e => RErr e end.
Definition erase (r : rres (list xline)) : rres (list Reader.line) := rmap (map x_line) r.
Lemma read_numbered_x_erase recx rec fs cwd file dirs :
  (forall p, erase (recx p) = rec p) ->
  forall nls, erase (read_numbered_x recx fs cwd file dirs nls) = read_numbered rec fs cwd file dirs nls.
Proof.
  unfold erase. intros Hrec. induction nls as [|[i raw] rest IH]; [reflexivity|]. cbn [read_numbered_x read_numbered].
  destruct (is_blank raw); [exact IH|].
  destruct (is_include raw).
  { destruct (include_target raw) as [rel|]; [|reflexivity].
    destruct (lookup fs cwd rel dirs) as [p|]; [|reflexivity].
    rewrite <- (Hrec p), <- IH. destruct (recx p) as [inc|e]; [|reflexivity]. cbn [rmap rbind].
    destruct (read_numbered_x recx fs cwd file dirs rest) as [tl|e]; [|reflexivity]. cbn [rmap rbind]. rewrite map_app. reflexivity. }
  destruct (is_include_bytes raw).
  { destruct (bytes_target raw) as [rel|]; [|reflexivity].
    destruct (lookup fs cwd rel dirs) as [p|]; [|reflexivity].
    destruct (fs_read fs cwd p) as [data|]; [|reflexivity]. cbv zeta.
    rewrite <- IH. destruct (read_numbered_x recx fs cwd file dirs rest) as [tl|e]; reflexivity. }
  rewrite <- IH. destruct (read_numbered_x recx fs cwd file dirs rest) as [tl|e]; reflexivity.
Qed.
Lemma read_file_x_erase fuel fs cwd incs : forall p, erase (read_file_x fuel fs cwd incs p) = read_file fuel fs cwd incs p.
Proof.
  induction fuel as [|f IH]; intro p; [reflexivity|]. cbn [read_file_x read_file].
  destruct (fs_read fs cwd p) as [src|]; [|reflexivity]. apply read_numbered_x_erase. exact IH.
Qed.
Theorem read_lines_x_erase fuel fs cwd incs top :
  erase (read_lines_x fuel fs cwd incs top) = read_lines fuel fs cwd incs top.
Proof.
  unfold read_lines_x, read_lines. destruct (fs_exists fs cwd top).
  - apply read_file_x_erase.
  - apply read_numbered_x_erase. apply read_file_x_erase.
Qed.

(* ---- the parser with the include_bytes branch ------------------------------------------------------------------------ *)
(* three tokens  include_bytes <path> <size>  (any case of the keyword); `include_bytes = 5` is a constant definition *)
Definition inc_head (tokens : list string) : bool :=
  match tokens with
  | [t0; t1; _] => String.eqb (lower t0) "include_bytes" && negb (String.eqb t1 "=")
  | _ => false
  end.
Definition file_size (fs : fsys) (cwd path : string) : option Z :=
  match fs_read fs cwd path with Some d => Some (Z.of_nat (String.length d)) | None => None end.
Definition parse_item_x (fs : fsys) (cwd : string) (l : Items.line) (inc : option string) (tokens : list string) : fres item :=
  if inc_head tokens then
    match tokens with
    | [_; p; sz] =>
        match int_of sz with
        | Some n => let path := match inc with Some q => q | None => p end in
                    FOk (IIncBytes path n (file_size fs cwd path))
        | None => raise_raw ValueError                     (* int(size, base=0) *)
        end
    | _ => FUnsup
    end
  else parse_item l tokens.
Definition front_line_x (fs : fsys) (cwd : string) (l : Items.line) (inc : option string) (text : string) : fres (option item) :=
  match lex_tokens text with
  | None => FUnsup
  | Some [] => FOk None
  | Some ts => it <! parse_item_x fs cwd l inc ts ;; FOk (Some it)
  end.
Definition xl_line (xl : xline) : Items.line := fst (to_text (x_line xl)).
Fixpoint front_items_x (fs : fsys) (cwd : string) (ls : list xline) : fres (list litem) :=
  match ls with
  | [] => FOk []
  | xl :: r =>
      match front_line_x fs cwd (xl_line xl) (x_inc xl) (l_contents (x_line xl)) with
      | FOk None => front_items_x fs cwd r
      | FOk (Some it) => match front_items_x fs cwd r with
                         | FOk its => FOk ((xl_line xl, it) :: its) | FErr e => FErr e | FUnsup => FUnsup end
      | FErr e => FErr e
      | FUnsup => FUnsup
      end
  end.
Definition assemble_model_x (fuel : nat) (fs : fsys) (cwd : string) (incs : list string) (top : string)
                            (consts labels : envt) (compress : bool) : wres :=
  match read_lines_x fuel fs cwd incs top with
  | ROk xls =>
      match front_items_x fs cwd xls with
      | FOk its => match assemble_items its consts labels compress with
                   | Done r => WDone r | Fail e => WFail e | Unsupported => WUnsup end
      | FErr e => WFail e
      | FUnsup => WUnsup
      end
  | RErr (EAsm f n _) => WFail (PAsm {| lfile := f; lnum := n |})
  | RErr ERaw => WFail (PRaw OtherExn)
  | RErr EFuel => WUnsup
  end.

(* the branch parse_item leaves out is exactly the one added *)
Lemma inc_head_unsup l tokens : inc_head tokens = true -> parse_item l tokens = FUnsup.
Proof.
  destruct tokens as [|t0 [|t1 [|t2 [|]]]]; try discriminate. cbn [inc_head]. intro H.
  apply andb_prop in H. destruct H as [H0 H1]. apply String.eqb_eq in H0. apply negb_true_iff in H1.
  unfold parse_item. cbn [List.length Nat.eqb Nat.leb andb nth_tok nth_error tok_is]. rewrite H0, H1. reflexivity.
Qed.
Lemma parse_item_x_conservative fs cwd l inc tokens :
  parse_item l tokens <> FUnsup -> parse_item_x fs cwd l inc tokens = parse_item l tokens.
Proof.
  intro H. unfold parse_item_x. destruct (inc_head tokens) eqn:E; [|reflexivity].
  exfalso. apply H. apply inc_head_unsup. exact E.
Qed.
Lemma front_line_x_conservative fs cwd l inc text :
  front_line l text <> FUnsup -> front_line_x fs cwd l inc text = front_line l text.
Proof.
  unfold front_line, front_line_x. destruct (lex_tokens text) as [[|t0 ts]|]; try reflexivity.
  intro H. rewrite parse_item_x_conservative; [reflexivity|]. intro E. rewrite E in H. apply H. reflexivity.
Qed.
Lemma front_items_x_conservative fs cwd xls :
  front_items (map to_text (map x_line xls)) <> FUnsup ->
  front_items_x fs cwd xls = front_items (map to_text (map x_line xls)).
Proof.
  induction xls as [|xl r IH]; [reflexivity|]. cbn [map front_items front_items_x]. unfold xl_line.
  destruct (to_text (x_line xl)) as [l t] eqn:Et. cbn [fst].
  assert (Ec : l_contents (x_line xl) = t) by (unfold to_text in Et; inversion Et; reflexivity). rewrite Ec.
  intro H.
  assert (Hf : front_line l t <> FUnsup) by (intro E; rewrite E in H; apply H; reflexivity).
  rewrite (front_line_x_conservative fs cwd l (x_inc xl) t Hf).
  destruct (front_line l t) as [[it|]|e|]; try reflexivity.
  - rewrite IH; [reflexivity|]. intro E. rewrite E in H. apply H. reflexivity.
  - apply IH. exact H.
Qed.
Theorem assemble_model_x_conservative fuel fs cwd incs top consts labels cmp :
  assemble_model fuel fs cwd incs top consts labels cmp <> WUnsup ->
  assemble_model_x fuel fs cwd incs top consts labels cmp = assemble_model fuel fs cwd incs top consts labels cmp.
Proof.
  unfold assemble_model, assemble_model_x. rewrite <- read_lines_x_erase.
  destruct (read_lines_x fuel fs cwd incs top) as [xls|e]; cbn [erase rmap]; [|reflexivity].
  unfold assemble_text. intro H.
  rewrite front_items_x_conservative.
  - destruct (front_items (map to_text (map x_line xls))) as [its|e|]; try reflexivity.
    destruct (assemble_items its consts labels cmp); reflexivity.
  - intro E. rewrite E in H. apply H. reflexivity.
Qed.

(* ---- the reader: what an include_bytes line becomes, and what a tag means -------------------------------------------- *)
Lemma read_numbered_x_app rec fs cwd file dirs a b :
  read_numbered_x rec fs cwd file dirs (a ++ b) =
  rbind (read_numbered_x rec fs cwd file dirs a) (fun x =>
  rbind (read_numbered_x rec fs cwd file dirs b) (fun y => ROk (x ++ y)%list)).
Proof.
  induction a as [|[i raw] a IH]; cbn [app read_numbered_x].
  - destruct (read_numbered_x rec fs cwd file dirs b); reflexivity.
  - destruct (is_blank raw); [exact IH|].
    destruct (is_include raw).
    { destruct (include_target raw) as [rel|]; [|reflexivity].
      destruct (lookup fs cwd rel dirs) as [p|]; [|reflexivity].
      rewrite IH. destruct (rec p) as [inc|e]; [|reflexivity]. cbn [rbind].
      destruct (read_numbered_x rec fs cwd file dirs a) as [x|e]; [|reflexivity]. cbn [rbind].
      destruct (read_numbered_x rec fs cwd file dirs b) as [y|e]; [|reflexivity]. cbn [rbind].
      rewrite app_assoc. reflexivity. }
    destruct (is_include_bytes raw).
    { destruct (bytes_target raw) as [rel|]; [|reflexivity].
      destruct (lookup fs cwd rel dirs) as [p|]; [|reflexivity].
      destruct (fs_read fs cwd p) as [data|]; [|reflexivity].
      rewrite IH.
      destruct (read_numbered_x rec fs cwd file dirs a) as [x|e]; [|reflexivity]. cbn [rbind].
      destruct (read_numbered_x rec fs cwd file dirs b) as [y|e]; reflexivity. }
    rewrite IH.
    destruct (read_numbered_x rec fs cwd file dirs a) as [x|e]; [|reflexivity]. cbn [rbind].
    destruct (read_numbered_x rec fs cwd file dirs b) as [y|e]; reflexivity.
Qed.

(* `include_bytes ` at the start of a line is not `include ` *)
Lemma include_bytes_not_include raw : is_include_bytes raw = true -> is_include raw = false.
Proof.
  unfold is_include_bytes, is_include. generalize (lower raw). intro s.
  do 8 (destruct s as [|c s]; [intro H; discriminate H|]; cbn [String.prefix];
        destruct (Ascii.ascii_dec _ _) as [<-|]; [|intro H; discriminate H]).
  intros _. cbn [String.prefix]. destruct (Ascii.ascii_dec _ _); [discriminate|reflexivity].
Qed.

(* an include_bytes line anywhere in a file: the lines before ++ ONE line (the raw text with the size of the found file
   appended), tagged with the found path ++ the lines after *)
Lemma read_numbered_x_bytes rec fs cwd file dirs pre k raw post rel p :
  is_blank raw = false -> is_include_bytes raw = true -> bytes_target raw = Some rel ->
  lookup fs cwd rel dirs = Some p ->
  exists data, fs_read fs cwd p = Some data /\
  read_numbered_x rec fs cwd file dirs (pre ++ (k, raw) :: post) =
  rbind (read_numbered_x rec fs cwd file dirs pre) (fun before =>
  rbind (read_numbered_x rec fs cwd file dirs post) (fun after =>
    ROk (before ++ {| x_line := bytes_line file k raw data; x_inc := Some p |} :: after)%list)).
Proof.
  intros Hb Hi Ht Hl. pose proof (lookup_isfile _ _ _ _ _ Hl) as Hf. unfold fs_isfile in Hf.
  destruct (fs_read fs cwd p) as [data|] eqn:Er; [|discriminate]. exists data. split; [reflexivity|].
  rewrite read_numbered_x_app. cbn [read_numbered_x]. rewrite Hb, (include_bytes_not_include raw Hi), Hi, Ht, Hl, Er.
  destruct (read_numbered_x rec fs cwd file dirs pre) as [x|e]; [|reflexivity]. cbn [rbind].
  destruct (read_numbered_x rec fs cwd file dirs post) as [y|e]; reflexivity.
Qed.

(* conversely: a tagged line of the reading IS such a line -- the tag is the file the search found in the -i directories (in
   order), then in the directory of the file the line stands in (the working directory for a source string) *)
Definition tag_ok (fs : fsys) (cwd : string) (incs : list string) (xl : xline) : Prop :=
  match x_inc xl with
  | None => True
  | Some P => exists raw rel data dirs,
      l_contents (x_line xl) = raw ++ " " ++ dec_of_Z (Z.of_nat (String.length data)) /\
      is_include_bytes raw = true /\ bytes_target raw = Some rel /\
      lookup fs cwd rel dirs = Some P /\ fs_read fs cwd P = Some data /\
      (dirs = (incs ++ [base_dir cwd (l_file (x_line xl))])%list \/
       (l_file (x_line xl) = "<string>" /\ dirs = (incs ++ [cwd])%list))
  end.
Lemma read_numbered_x_tags rec fs cwd incs file dirs :
  (dirs = (incs ++ [base_dir cwd file])%list \/ (file = "<string>" /\ dirs = (incs ++ [cwd])%list)) ->
  (forall p inc, rec p = ROk inc -> Forall (tag_ok fs cwd incs) inc) ->
  forall nls out, read_numbered_x rec fs cwd file dirs nls = ROk out -> Forall (tag_ok fs cwd incs) out.
Proof.
  intros Hd Hrec. induction nls as [|[i raw] rest IH]; intros out H; cbn [read_numbered_x] in H.
  - inversion H. constructor.
  - destruct (is_blank raw); [exact (IH _ H)|].
    destruct (is_include raw).
    { destruct (include_target raw) as [rel|]; [|discriminate].
      destruct (lookup fs cwd rel dirs) as [p|]; [|discriminate].
      destruct (rec p) as [inc|e] eqn:Ep; [|discriminate]. cbn [rbind] in H.
      destruct (read_numbered_x rec fs cwd file dirs rest) as [tl|e]; [|discriminate]. cbn [rbind] in H.
      inversion H; subst. apply Forall_app. split; [eapply Hrec; eauto | apply IH; reflexivity]. }
    destruct (is_include_bytes raw) eqn:Hi.
    { destruct (bytes_target raw) as [rel|] eqn:Ht; [|discriminate].
      destruct (lookup fs cwd rel dirs) as [p|] eqn:El; [|discriminate].
      destruct (fs_read fs cwd p) as [data|] eqn:Er; [|discriminate].
      destruct (read_numbered_x rec fs cwd file dirs rest) as [tl|e]; [|discriminate]. cbn [rbind] in H.
      inversion H; subst. constructor; [|apply IH; reflexivity].
      unfold tag_ok. cbn [x_inc x_line bytes_line l_contents l_file].
      exists raw, rel, data, dirs. repeat split; auto. }
    destruct (read_numbered_x rec fs cwd file dirs rest) as [tl|e]; [|discriminate]. cbn [rbind] in H.
    inversion H; subst. constructor; [exact I|apply IH; reflexivity].
Qed.
Lemma read_file_x_tags fuel fs cwd incs : forall p out, read_file_x fuel fs cwd incs p = ROk out -> Forall (tag_ok fs cwd incs) out.
Proof.
  induction fuel as [|f IH]; intros p out H; cbn [read_file_x] in H; [discriminate|].
  destruct (fs_read fs cwd p) as [src|]; [|discriminate].
  eapply read_numbered_x_tags; [left; reflexivity | exact IH | exact H].
Qed.
Theorem read_lines_x_tags fuel fs cwd incs top out :
  read_lines_x fuel fs cwd incs top = ROk out -> Forall (tag_ok fs cwd incs) out.
Proof.
  unfold read_lines_x. destruct (fs_exists fs cwd top).
  - apply read_file_x_tags.
  - apply read_numbered_x_tags; [right; split; reflexivity | apply read_file_x_tags].
Qed.

(* ---- the front end on a reading ---------------------------------------------------------------------------------------- *)
Definition olist {A} (o : option A) : list A := match o with Some a => [a] | None => [] end.
Lemma front_items_x_split fs cwd A : forall xl B its,
  front_items_x fs cwd (A ++ xl :: B) = FOk its ->
  exists a o b, front_items_x fs cwd A = FOk a /\
                front_line_x fs cwd (xl_line xl) (x_inc xl) (l_contents (x_line xl)) = FOk o /\
                front_items_x fs cwd B = FOk b /\
                its = (a ++ map (fun it => (xl_line xl, it)) (olist o) ++ b)%list.
Proof.
  induction A as [|y A IH]; intros xl B its H; cbn [app front_items_x] in H.
  - destruct (front_line_x fs cwd (xl_line xl) (x_inc xl) (l_contents (x_line xl))) as [[it|]|e|]; try discriminate.
    + destruct (front_items_x fs cwd B) as [b|e|]; try discriminate. inversion H; subst.
      exists [], (Some it), b. repeat split.
    + exists [], None, its. repeat split. exact H.
  - cbn [front_items_x].
    destruct (front_line_x fs cwd (xl_line y) (x_inc y) (l_contents (x_line y))) as [[it|]|e|]; try discriminate.
    + destruct (front_items_x fs cwd (A ++ xl :: B)) as [r|e|] eqn:E; try discriminate. inversion H; subst.
      destruct (IH _ _ _ E) as (a & o & b & -> & Eo & Eb & ->). exists ((xl_line y, it) :: a), o, b. repeat split; assumption.
    + destruct (IH _ _ _ H) as (a & o & b & -> & Eo & Eb & ->). exists a, o, b. repeat split; assumption.
Qed.
Lemma front_items_x_lines fs cwd A : forall a, front_items_x fs cwd A = FOk a -> incl (map fst a) (map xl_line A).
Proof.
  induction A as [|y A IH]; intros a H; cbn [front_items_x] in H.
  - inversion H. intros z Hz. exact Hz.
  - destruct (front_line_x fs cwd (xl_line y) (x_inc y) (l_contents (x_line y))) as [[it|]|e|]; try discriminate.
    + destruct (front_items_x fs cwd A) as [r|e|]; try discriminate. inversion H; subst. cbn [map].
      intros z [Hz|Hz]; [left; exact Hz | right; apply (IH r eq_refl); exact Hz].
    + intros z Hz. right. apply (IH a H). exact Hz.
Qed.

(* a line that lexes to  include_bytes <path> <size> *)
Definition is_inc_line (text : string) : bool :=
  match lex_tokens text with Some ts => inc_head ts | None => false end.
Lemma front_line_x_inc fs cwd l inc text o :
  is_inc_line text = true -> front_line_x fs cwd l inc text = FOk o ->
  exists t0 p sz n, lex_tokens text = Some [t0; p; sz] /\ int_of sz = Some n /\
    o = Some (IIncBytes (match inc with Some q => q | None => p end) n
                        (file_size fs cwd (match inc with Some q => q | None => p end))).
Proof.
  unfold is_inc_line, front_line_x. destruct (lex_tokens text) as [ts|]; [|discriminate].
  intros Hh H. destruct ts as [|t0 [|p [|sz [|]]]]; try discriminate Hh.
  unfold parse_item_x in H. rewrite Hh in H. unfold fbind in H.
  destruct (int_of sz) as [n|] eqn:En; [|discriminate]. inversion H; subst. exists t0, p, sz, n. repeat split. exact En.
Qed.

(* ---- THE THEOREM: the chunk of an include_bytes line ---------------------------------------------------------------------- *)
Theorem include_bytes_whole fuel fs cwd incs top consts labels cmp A xl B P r :
  read_lines_x fuel fs cwd incs top = ROk (A ++ xl :: B)%list ->
  x_inc xl = Some P -> is_inc_line (l_contents (x_line xl)) = true ->
  assemble_model_x fuel fs cwd incs top consts labels cmp = WDone r ->
  exists data cA cB,
    fs_read fs cwd P = Some data /\
    r_chunks r = (cA ++ (xl_line xl, CFile P (Z.of_nat (String.length data))) :: cB)%list /\
    Forall (fun c => In (fst c) (map xl_line A)) cA /\ Forall (fun c => In (fst c) (map xl_line B)) cB.
Proof.
  intros Er Hp Hl H. unfold assemble_model_x in H. rewrite Er in H.
  destruct (front_items_x fs cwd (A ++ xl :: B)) as [its|e|] eqn:Ef; try discriminate.
  destruct (assemble_items its consts labels cmp) as [r'|e|] eqn:Ea; try discriminate. inversion H; subst r'. clear H.
  destruct (front_items_x_split _ _ _ _ _ _ Ef) as (a & o & b & Ea' & Eo & Eb & ->).
  destruct (front_line_x_inc _ _ _ _ _ _ Hl Eo) as (t0 & p & sz & n & _ & _ & ->). rewrite Hp in Ea.
  cbn [olist map app] in Ea.
  destruct (inc_item_chunk _ _ _ _ _ _ _ _ _ _ Ea) as (Hs & cA & cB & Ec & GA & GB).
  unfold file_size in Hs. destruct (fs_read fs cwd P) as [data|]; [|discriminate]. inversion Hs; subst n.
  exists data, cA, cB. split; [reflexivity|]. split; [exact Ec|]. split.
  - eapply Forall_impl; [|apply (cgrouped_lines _ _ GA)]. intros c Hc. apply (front_items_x_lines _ _ _ _ Ea'). exact Hc.
  - eapply Forall_impl; [|apply (cgrouped_lines _ _ GB)]. intros c Hc. apply (front_items_x_lines _ _ _ _ Eb). exact Hc.
Qed.

(* ---- the canonical spelling  `include_bytes <name>`  lexes to three tokens ------------------------------------------------ *)
From BB Require Import Proofs.LexSep.
Lemma digit_plain d : 0 <= d < 10 -> plainc (digit_char d) = true.
Proof.
  intro H. assert (C : d = 0 \/ d = 1 \/ d = 2 \/ d = 3 \/ d = 4 \/ d = 5 \/ d = 6 \/ d = 7 \/ d = 8 \/ d = 9) by lia.
  repeat (destruct C as [->|C]; [reflexivity|]). subst. reflexivity.
Qed.
Lemma dec_pos_plain fuel : forall n acc, 0 <= n -> Forall (fun c => plainc c = true) acc ->
  Forall (fun c => plainc c = true) (dec_pos fuel n acc).
Proof.
  induction fuel as [|f IH]; intros n acc Hn Ha; cbn [dec_pos]; [exact Ha|].
  destruct (n <? 10) eqn:E.
  - apply Z.ltb_lt in E. constructor; [apply digit_plain; lia | exact Ha].
  - apply IH. apply Z.div_pos; lia. constructor; [|exact Ha]. apply digit_plain. apply Z.mod_pos_bound. lia.
Qed.
Lemma dec_pos_nonempty fuel : forall n acc, (fuel <> O \/ acc <> []) -> dec_pos fuel n acc <> [].
Proof.
  induction fuel as [|f IH]; intros n acc H; cbn [dec_pos].
  - destruct H as [H|H]; [contradiction|exact H].
  - destruct (n <? 10); [discriminate|]. apply IH. right. discriminate.
Qed.
Lemma chars_app a b : chars (a ++ b) = (chars a ++ chars b)%list.
Proof. unfold chars. induction a as [|c s IHs]; cbn; [reflexivity|]. f_equal. exact IHs. Qed.
Lemma chars_unchars_l l : chars (unchars l) = l.
Proof. unfold chars, unchars. apply list_ascii_of_string_of_list_ascii. Qed.
Lemma unchars_chars s : unchars (chars s) = s.
Proof. unfold chars, unchars. apply string_of_list_ascii_of_string. Qed.

Definition plain_name (rel : string) : bool :=
  forallb plainc (chars rel) && negb (String.eqb rel "") && negb (String.eqb rel "=").
Lemma canonical_inc_line rel n : plain_name rel = true -> 0 <= n ->
  lex_tokens ("include_bytes " ++ rel ++ " " ++ dec_of_Z n) = Some ["include_bytes"; rel; dec_of_Z n] /\
  is_inc_line ("include_bytes " ++ rel ++ " " ++ dec_of_Z n) = true.
Proof.
  intros Hr Hn. unfold plain_name in Hr. apply andb_prop in Hr. destruct Hr as [Hr H2]. apply andb_prop in Hr. destruct Hr as [H0 H1].
  apply negb_true_iff in H1, H2.
  assert (Hd : dec_of_Z n = unchars (dec_pos 80 n [])).
  { unfold dec_of_Z. assert (E : (n <? 0) = false) by (apply Z.ltb_ge; exact Hn). rewrite E. reflexivity. }
  set (ds := dec_pos 80 n []) in *.
  assert (L : lex_tokens ("include_bytes " ++ rel ++ " " ++ dec_of_Z n) = Some ["include_bytes"; rel; dec_of_Z n]).
  { unfold lex_tokens.
    set (ts := [chars "include_bytes"; chars rel; ds]).
    set (sty := {| indent := []; gaps := [[c_sp]; [c_sp]; []]; comment := None |}).
    assert (E : chars ("include_bytes " ++ rel ++ " " ++ dec_of_Z n) = render sty ts).
    { unfold render, sty, ts. cbn [indent gaps comment combine body app].
      rewrite !chars_app, Hd, chars_unchars_l.
      change (chars "include_bytes ") with (chars "include_bytes" ++ [c_sp])%list. change (chars " ") with [c_sp].
      rewrite !app_nil_r, <- !app_assoc. reflexivity. }
    rewrite E. rewrite (lex_render sty ts).
    - unfold ts. cbn [map]. rewrite !unchars_chars, Hd. reflexivity.
    - unfold ts. constructor; [|constructor; [|constructor; [|constructor]]].
      + left. split; [discriminate|]. repeat constructor.
      + left. split.
        * intro Ec. apply (f_equal unchars) in Ec. rewrite unchars_chars in Ec. subst rel. discriminate.
        * apply Forall_forall. intros c Hc. rewrite forallb_forall in H0. apply H0. exact Hc.
      + left. split; [apply dec_pos_nonempty; left; discriminate | apply dec_pos_plain; [exact Hn|constructor]].
    - unfold ts, not_special. split; discriminate.
    - unfold style_ok, sty, ts. cbn [indent gaps combine gaps_ok]. split; [constructor|]. split; [reflexivity|].
      unfold gap_ok. repeat split; try (repeat constructor; fail); left; discriminate. }
  split; [exact L|]. unfold is_inc_line. rewrite L. cbn [inc_head]. rewrite H2. reflexivity.
Qed.

(* ---- a missing file is an AssemblerError at the include_bytes line ---------------------------------------------------------- *)
From BB Require Import Proofs.ParseRelabel Proofs.WholeSplice.
Lemma read_numbered_bytes_missing rec fs cwd file dirs pre i raw rel rest before :
  read_numbered rec fs cwd file dirs pre = ROk before ->
  is_blank raw = false -> is_include_bytes raw = true -> bytes_target raw = Some rel -> lookup fs cwd rel dirs = None ->
  read_numbered rec fs cwd file dirs (pre ++ (i, raw) :: rest) = RErr (EAsm file i MBytesMissing).
Proof.
  intros Hpre Hb Hi Ht Hl. rewrite read_numbered_app, Hpre. cbn [rbind read_numbered].
  rewrite Hb, (include_bytes_not_include raw Hi), Hi, Ht, Hl. reflexivity.
Qed.
(* the source is a FILE (asm.assemble(path), the CLI) ... *)
Theorem include_bytes_missing_file fuel fs cwd incs top src pre raw post rel before consts labels cmp :
  fs_exists fs cwd top = true -> fs_read fs cwd top = Some src ->
  splitlines src = (pre ++ raw :: post)%list ->
  read_numbered (read_file fuel fs cwd incs) fs cwd top (incs ++ [base_dir cwd top]) (number 1 pre) = ROk before ->
  is_blank raw = false -> is_include_bytes raw = true -> bytes_target raw = Some rel ->
  lookup fs cwd rel (incs ++ [base_dir cwd top]) = None ->
  assemble_model fuel fs cwd incs top consts labels cmp =
    WFail (PAsm {| lfile := top; lnum := 1 + Z.of_nat (List.length pre) |}) /\
  assemble_model_x fuel fs cwd incs top consts labels cmp =
    WFail (PAsm {| lfile := top; lnum := 1 + Z.of_nat (List.length pre) |}).
Proof.
  intros He Hr Hs Hpre Hb Hi Ht Hl.
  assert (E : assemble_model fuel fs cwd incs top consts labels cmp =
              WFail (PAsm {| lfile := top; lnum := 1 + Z.of_nat (List.length pre) |})).
  { unfold assemble_model, read_lines. rewrite He. cbn [read_file]. rewrite Hr, Hs, (number_app pre 1 (raw :: post)). cbn [number].
    rewrite (read_numbered_bytes_missing _ _ _ _ _ _ _ _ _ _ _ Hpre Hb Hi Ht Hl). reflexivity. }
  split; [exact E|]. rewrite assemble_model_x_conservative; [exact E|]. rewrite E. discriminate.
Qed.
(* ... or a source STRING (asm.assemble(text)): the search path ends with the working directory *)
Theorem include_bytes_missing_string fuel fs cwd incs top pre raw post rel before consts labels cmp :
  fs_exists fs cwd top = false ->
  splitlines top = (pre ++ raw :: post)%list ->
  read_numbered (read_file fuel fs cwd incs) fs cwd "<string>" (incs ++ [cwd]) (number 1 pre) = ROk before ->
  is_blank raw = false -> is_include_bytes raw = true -> bytes_target raw = Some rel ->
  lookup fs cwd rel (incs ++ [cwd]) = None ->
  assemble_model fuel fs cwd incs top consts labels cmp =
    WFail (PAsm {| lfile := "<string>"; lnum := 1 + Z.of_nat (List.length pre) |}) /\
  assemble_model_x fuel fs cwd incs top consts labels cmp =
    WFail (PAsm {| lfile := "<string>"; lnum := 1 + Z.of_nat (List.length pre) |}).
Proof.
  intros He Hs Hpre Hb Hi Ht Hl.
  assert (E : assemble_model fuel fs cwd incs top consts labels cmp =
              WFail (PAsm {| lfile := "<string>"; lnum := 1 + Z.of_nat (List.length pre) |})).
  { unfold assemble_model, read_lines. rewrite He, Hs, (number_app pre 1 (raw :: post)). cbn [number].
    rewrite (read_numbered_bytes_missing _ _ _ _ _ _ _ _ _ _ _ Hpre Hb Hi Ht Hl). reflexivity. }
  split; [exact E|]. rewrite assemble_model_x_conservative; [exact E|]. rewrite E. discriminate.
Qed.

(* ---- an include_bytes line of the top-level FILE, found: the readable corollary ---------------------------------------------- *)
Theorem include_bytes_file fuel fs cwd incs top src pre raw post rel P consts labels cmp r :
  fs_exists fs cwd top = true -> fs_read fs cwd top = Some src ->
  splitlines src = (pre ++ raw :: post)%list ->
  is_blank raw = false -> is_include_bytes raw = true -> bytes_target raw = Some rel ->
  lookup fs cwd rel (incs ++ [base_dir cwd top]) = Some P ->
  (forall n, 0 <= n -> is_inc_line (raw ++ " " ++ dec_of_Z n) = true) ->
  assemble_model_x fuel fs cwd incs top consts labels cmp = WDone r ->
  exists data cA cB,
    fs_read fs cwd P = Some data /\
    r_chunks r = (cA ++ ({| lfile := top; lnum := 1 + Z.of_nat (List.length pre) |}, CFile P (Z.of_nat (String.length data))) :: cB)%list.
Proof.
  intros He Hr Hs Hb Hi Ht Hl Hlex H.
  destruct (read_numbered_x_bytes (read_file_x fuel fs cwd incs) fs cwd top (incs ++ [base_dir cwd top])
              (number 1 pre) (1 + Z.of_nat (List.length pre)) raw (number (1 + Z.of_nat (List.length pre) + 1) post) rel P Hb Hi Ht Hl)
    as (data & Hd & Er).
  assert (Erl : read_lines_x fuel fs cwd incs top =
                read_numbered_x (read_file_x fuel fs cwd incs) fs cwd top (incs ++ [base_dir cwd top])
                  (number 1 pre ++ (1 + Z.of_nat (List.length pre), raw) :: number (1 + Z.of_nat (List.length pre) + 1) post)).
  { unfold read_lines_x. rewrite He. cbn [read_file_x]. rewrite Hr, Hs, (number_app pre 1 (raw :: post)). reflexivity. }
  rewrite Er in Erl. clear Er.
  assert (Hok : exists xls, read_lines_x fuel fs cwd incs top = ROk xls).
  { unfold assemble_model_x in H. destruct (read_lines_x fuel fs cwd incs top) as [xls|[f n m| |]]; try discriminate. eauto. }
  destruct Hok as [xls Hx]. rewrite Hx in Erl.
  destruct (read_numbered_x (read_file_x fuel fs cwd incs) fs cwd top (incs ++ [base_dir cwd top]) (number 1 pre)) as [before|e];
    [|discriminate]. cbn [rbind] in Erl.
  destruct (read_numbered_x (read_file_x fuel fs cwd incs) fs cwd top (incs ++ [base_dir cwd top]) _) as [after|e];
    [|discriminate]. cbn [rbind] in Erl. inversion Erl; subst xls.
  destruct (include_bytes_whole _ _ _ _ _ _ _ _ _ _ _ _ _ Hx eq_refl
              (Hlex _ (Nat2Z.is_nonneg _)) H) as (data' & cA & cB & Hd' & Ec & _ & _).
  exists data', cA, cB. split; [exact Hd'|exact Ec].
Qed.

(* ---- the working directory ----------------------------------------------------------------------------------------------- *)
Lemma read_numbered_x_cwd rec1 rec2 fs c1 c2 file dirs nls :
  all_abs dirs -> (forall p, is_abs p = true -> rec1 p = rec2 p) ->
  read_numbered_x rec1 fs c1 file dirs nls = read_numbered_x rec2 fs c2 file dirs nls.
Proof.
  intros Hd Hrec. induction nls as [|[i raw] nls IH]; [reflexivity|]. cbn [read_numbered_x].
  rewrite IH.
  destruct (is_blank raw); [reflexivity|].
  destruct (is_include raw).
  { destruct (include_target raw) as [rel|]; [|reflexivity].
    rewrite (lookup_cwd fs c1 c2 rel dirs Hd).
    destruct (lookup fs c2 rel dirs) as [p|] eqn:E; [|reflexivity].
    rewrite (Hrec p (lookup_abs fs c2 rel dirs p Hd E)). reflexivity. }
  destruct (is_include_bytes raw); [|reflexivity].
  destruct (bytes_target raw) as [rel|]; [|reflexivity].
  rewrite (lookup_cwd fs c1 c2 rel dirs Hd).
  destruct (lookup fs c2 rel dirs) as [p|] eqn:E; [|reflexivity].
  rewrite (fs_read_cwd fs c1 c2 p (lookup_abs fs c2 rel dirs p Hd E)). reflexivity.
Qed.
Lemma read_file_x_cwd fuel fs c1 c2 incs p :
  all_abs incs -> is_abs p = true -> read_file_x fuel fs c1 incs p = read_file_x fuel fs c2 incs p.
Proof.
  intros Hi. revert p. induction fuel as [|f IH]; intros p Hp; [reflexivity|]. cbn [read_file_x].
  rewrite (fs_read_cwd fs c1 c2 p Hp). destruct (fs_read fs c2 p) as [src|]; [|reflexivity].
  rewrite (base_dir_cwd c1 c2 p Hp).
  apply read_numbered_x_cwd.
  - apply all_abs_app; [exact Hi|]. constructor; [apply base_dir_abs | constructor].
  - exact IH.
Qed.
Lemma read_lines_x_cwd fuel fs c1 c2 incs top :
  is_abs top = true -> all_abs incs -> fs_exists fs c1 top = true ->
  read_lines_x fuel fs c1 incs top = read_lines_x fuel fs c2 incs top.
Proof.
  intros Ht Hi He. unfold read_lines_x. rewrite <- (fs_exists_cwd fs c1 c2 top Ht). rewrite He.
  apply read_file_x_cwd; assumption.
Qed.
(* with absolute search directories every tag is an absolute path *)
Definition tag_abs (xl : xline) : Prop := match x_inc xl with Some P => is_abs P = true | None => True end.
Lemma read_numbered_x_abs rec fs cwd file dirs :
  all_abs dirs -> (forall p inc, rec p = ROk inc -> Forall tag_abs inc) ->
  forall nls out, read_numbered_x rec fs cwd file dirs nls = ROk out -> Forall tag_abs out.
Proof.
  intros Hd Hrec. induction nls as [|[i raw] rest IH]; intros out H; cbn [read_numbered_x] in H.
  - inversion H. constructor.
  - destruct (is_blank raw); [exact (IH _ H)|].
    destruct (is_include raw).
    { destruct (include_target raw) as [rel|]; [|discriminate].
      destruct (lookup fs cwd rel dirs) as [p|]; [|discriminate].
      destruct (rec p) as [inc|e] eqn:Ep; [|discriminate]. cbn [rbind] in H.
      destruct (read_numbered_x rec fs cwd file dirs rest) as [tl|e]; [|discriminate]. cbn [rbind] in H.
      inversion H; subst. apply Forall_app. split; [eapply Hrec; eauto | apply IH; reflexivity]. }
    destruct (is_include_bytes raw).
    { destruct (bytes_target raw) as [rel|]; [|discriminate].
      destruct (lookup fs cwd rel dirs) as [p|] eqn:El; [|discriminate].
      destruct (fs_read fs cwd p) as [data|]; [|discriminate].
      destruct (read_numbered_x rec fs cwd file dirs rest) as [tl|e]; [|discriminate]. cbn [rbind] in H.
      inversion H; subst. constructor; [|apply IH; reflexivity].
      unfold tag_abs. cbn [x_inc]. eapply lookup_abs; eauto. }
    destruct (read_numbered_x rec fs cwd file dirs rest) as [tl|e]; [|discriminate]. cbn [rbind] in H.
    inversion H; subst. constructor; [exact I|apply IH; reflexivity].
Qed.
Lemma read_file_x_abs fuel fs cwd incs : all_abs incs ->
  forall p out, read_file_x fuel fs cwd incs p = ROk out -> Forall tag_abs out.
Proof.
  intro Hi. induction fuel as [|f IH]; intros p out H; cbn [read_file_x] in H; [discriminate|].
  destruct (fs_read fs cwd p) as [src|]; [|discriminate].
  eapply read_numbered_x_abs; [|exact IH|exact H].
  apply all_abs_app; [exact Hi|]. constructor; [apply base_dir_abs | constructor].
Qed.

(* no line takes its path AS WRITTEN: every line that parses as include_bytes was recognised (and tagged) by the reader *)
Definition searched (xl : xline) : bool :=
  match x_inc xl with Some _ => true | None => negb (is_inc_line (l_contents (x_line xl))) end.
Lemma file_size_cwd fs c1 c2 p : is_abs p = true -> file_size fs c1 p = file_size fs c2 p.
Proof. intro H. unfold file_size. rewrite (fs_read_cwd fs c1 c2 p H). reflexivity. Qed.
Lemma front_items_x_cwd fs c1 c2 xls :
  Forall tag_abs xls -> forallb searched xls = true -> front_items_x fs c1 xls = front_items_x fs c2 xls.
Proof.
  induction 1 as [|xl r Ha _ IH]; intro Hs; [reflexivity|]. cbn [forallb] in Hs. apply andb_prop in Hs. destruct Hs as [Hx Hr].
  cbn [front_items_x]. rewrite (IH Hr).
  assert (E : front_line_x fs c1 (xl_line xl) (x_inc xl) (l_contents (x_line xl)) =
              front_line_x fs c2 (xl_line xl) (x_inc xl) (l_contents (x_line xl))).
  { unfold front_line_x. unfold searched, is_inc_line in Hx. unfold tag_abs in Ha.
    destruct (lex_tokens (l_contents (x_line xl))) as [[|t0 ts]|]; try reflexivity.
    unfold parse_item_x. destruct (inc_head (t0 :: ts)) eqn:Eh; [|reflexivity].
    destruct (x_inc xl) as [P|]; [|discriminate].
    destruct ts as [|p [|sz [|]]]; try reflexivity. destruct (int_of sz); [|reflexivity].
    rewrite (file_size_cwd fs c1 c2 P Ha). reflexivity. }
  rewrite E. reflexivity.
Qed.
Theorem whole_x_cwd fuel fs cwd1 cwd2 incs top consts labels cmp :
  is_abs top = true -> all_abs incs -> fs_exists fs cwd1 top = true ->
  (forall xls, read_lines_x fuel fs cwd1 incs top = ROk xls -> forallb searched xls = true) ->
  assemble_model_x fuel fs cwd1 incs top consts labels cmp = assemble_model_x fuel fs cwd2 incs top consts labels cmp.
Proof.
  intros Ht Hi He Hs. unfold assemble_model_x. rewrite <- (read_lines_x_cwd fuel fs cwd1 cwd2 incs top Ht Hi He).
  destruct (read_lines_x fuel fs cwd1 incs top) as [xls|e] eqn:Er; [|reflexivity].
  rewrite (front_items_x_cwd fs cwd1 cwd2 xls); [reflexivity| |exact (Hs _ eq_refl)].
  unfold read_lines_x in Er. rewrite He in Er. eapply read_file_x_abs; eauto.
Qed.

(* ---- examples ---------------------------------------------------------------------------------------------------------------- *)
Definition nl : string := bs [10].
(* main.asm includes blob.bin, which only the -i directory has; the working directory holds a decoy of the same name *)
Definition ib_fs : fsys :=
  {| fs_files := [("/p/src/main.asm", "db 1" ++ nl ++ "include_bytes blob.bin" ++ nl ++ "db 2" ++ nl);
                  ("/p/inc/blob.bin", "DATA!"); ("/q/blob.bin", "XY")];
     fs_dirs := ["/"; "/p"; "/p/src"; "/p/inc"; "/q"] |}.
Definition L (f : string) (n : Z) : Items.line := {| lfile := f; lnum := n |}.
Example ib_found :
  assemble_model_x 3 ib_fs "/q" ["/p/inc"] "/p/src/main.asm" [] [] false =
    WDone {| r_chunks := [(L "/p/src/main.asm" 1, CBytes [1]); (L "/p/src/main.asm" 2, CFile "/p/inc/blob.bin" 5);
                          (L "/p/src/main.asm" 3, CBytes [2])]; r_consts := []; r_labels := [] |} /\
  assemble_model 3 ib_fs "/q" ["/p/inc"] "/p/src/main.asm" [] [] false = WUnsup /\
  assemble_model_x 3 ib_fs "/q" [] "/p/src/main.asm" [] [] false = WFail (PAsm (L "/p/src/main.asm" 2)).
Proof. vm_compute. repeat split; reflexivity. Qed.

(* an INDENTED `include_bytes F N` line is not seen by the reader (the keyword must start the line): no search, no size
   check by the reader; the parser takes path and size as written and the file is opened relative to the working directory *)
Definition aw_fs : fsys :=
  {| fs_files := [("/p/src/main.asm", "db 1" ++ nl ++ "  include_bytes blob.bin 4" ++ nl);
                  ("/p/src/blob.bin", "DATA"); ("/q/blob.bin", "XY")];
     fs_dirs := ["/"; "/p"; "/p/src"; "/q"] |}.
Example as_written_depends_on_cwd :
  is_abs "/p/src/main.asm" = true /\ all_abs [] /\ fs_exists aw_fs "/p/src" "/p/src/main.asm" = true /\
  assemble_model_x 3 aw_fs "/p/src" [] "/p/src/main.asm" [] [] false =
    WDone {| r_chunks := [(L "/p/src/main.asm" 1, CBytes [1]); (L "/p/src/main.asm" 2, CFile "blob.bin" 4)];
             r_consts := []; r_labels := [] |} /\
  assemble_model_x 3 aw_fs "/q" [] "/p/src/main.asm" [] [] false = WFail (PRaw AssertionError) /\
  assemble_model_x 3 aw_fs "/" [] "/p/src/main.asm" [] [] false = WFail (PRaw OtherExn).
Proof. split; [reflexivity|]. split; [constructor|]. vm_compute. repeat split; reflexivity. Qed.

(* ---- the canonical spelling is recognised by the reader ------------------------------------------------------------------------ *)
Lemma split_ws_tok t : Forall (fun c => is_ws c = false) t -> forall cur, (cur <> [] \/ t <> []) ->
  split_ws_a t cur = [unchars (rev cur ++ t)].
Proof.
  induction 1 as [|c t Hc _ IH]; intros cur Hne; cbn [split_ws_a].
  - destruct cur; [destruct Hne as [Hne|Hne]; contradiction|]. rewrite app_nil_r. reflexivity.
  - rewrite Hc. rewrite IH by (left; discriminate). cbn [rev]. rewrite <- app_assoc. reflexivity.
Qed.
Lemma canonical_raw rel : plain_name rel = true ->
  is_blank ("include_bytes " ++ rel) = false /\ is_include_bytes ("include_bytes " ++ rel) = true /\
  bytes_target ("include_bytes " ++ rel) = Some rel.
Proof.
  intro Hr. unfold plain_name in Hr. apply andb_prop in Hr. destruct Hr as [Hr H2]. apply andb_prop in Hr. destruct Hr as [H0 H1].
  apply negb_true_iff in H1. split; [reflexivity|]. split.
  - unfold is_include_bytes. cbn [append lower]. change (lower_c "i") with "i"%char. cbn. repeat (destruct (Ascii.ascii_dec _ _); [|congruence]). destruct (lower rel); reflexivity.
  - unfold bytes_target, split_ws. rewrite chars_app. cbn.
    rewrite split_ws_tok.
    + cbn [rev app]. rewrite unchars_chars. reflexivity.
    + apply Forall_forall. intros c Hc. rewrite forallb_forall in H0. apply plainc_not_ws. apply H0. exact Hc.
    + right. intro E. apply (f_equal unchars) in E. rewrite unchars_chars in E. subst rel. discriminate.
Qed.

Theorem include_bytes_file_canonical fuel fs cwd incs top src pre rel post P consts labels cmp r :
  fs_exists fs cwd top = true -> fs_read fs cwd top = Some src ->
  splitlines src = (pre ++ String.append "include_bytes " rel :: post)%list -> plain_name rel = true ->
  lookup fs cwd rel (incs ++ [base_dir cwd top]) = Some P ->
  assemble_model_x fuel fs cwd incs top consts labels cmp = WDone r ->
  exists data cA cB,
    fs_read fs cwd P = Some data /\
    r_chunks r = (cA ++ ({| lfile := top; lnum := 1 + Z.of_nat (List.length pre) |}, CFile P (Z.of_nat (String.length data))) :: cB)%list.
Proof.
  intros He Hr Hs Hn Hl H. destruct (canonical_raw rel Hn) as (Hb & Hi & Ht).
  eapply include_bytes_file; eauto.
  intros n Hn0.
  replace (("include_bytes " ++ rel) ++ " " ++ dec_of_Z n) with ("include_bytes " ++ rel ++ " " ++ dec_of_Z n).
  - apply canonical_inc_line; assumption.
  - clear. induction ("include_bytes "%string) as [|c s IHs]; cbn; [reflexivity|]. f_equal. exact IHs.
Qed.

(* the proviso [plain_name] of the canonical form is needed: the reader appends the size to the raw line and the LEXER takes the line
   apart again, so a file name with a comma (or blank-free `#`, parenthesis, quote pair) no longer gives three tokens -- the file is
   found and yet the line is an AssemblerError -- and a file named `=` turns the line into the constant definition
   `include_bytes = <size>`.  (The real assembler does the same.) *)
Definition nm_fs : fsys :=
  {| fs_files := [("/p/comma.asm", "include_bytes a,b" ++ nl); ("/p/a,b", "ab");
                  ("/p/eq.asm", "include_bytes =" ++ nl ++ "db include_bytes" ++ nl); ("/p/=", "ABCDE")];
     fs_dirs := ["/"; "/p"] |}.
Example odd_names :
  lookup nm_fs "/" "a,b" [base_dir "/" "/p/comma.asm"] = Some "/p/a,b" /\
  assemble_model_x 3 nm_fs "/" [] "/p/comma.asm" [] [] false = WFail (PAsm (L "/p/comma.asm" 1)) /\
  lookup nm_fs "/" "=" [base_dir "/" "/p/eq.asm"] = Some "/p/=" /\
  assemble_model_x 3 nm_fs "/" [] "/p/eq.asm" [] [] false =
    WDone {| r_chunks := [(L "/p/eq.asm" 2, CBytes [5])]; r_consts := [("include_bytes", 5)]; r_labels := [] |}.
Proof. vm_compute. repeat split; reflexivity. Qed.
