(* C04, item level, pc-relative transfers to a LABEL (beq .. bgeu / jal with the immediate %offset(L), L not a constant):
   the immediate differs between the two runs (each run encodes the distance from ITS offset to ITS value of L); the
   instruction is the same up to that immediate, in its 32-bit form or compressed to c.beqz / c.bnez / c.j / c.jal. *)
From Coq Require Import ZArith List Bool Lia String Arith.
From BB Require Import Base.Bits Base.PyBase Gen.Encoders Gen.Criteria Spec.RV32 Spec.RVC Spec.Operands Spec.Legal
  Model.Items Model.Encode Model.Passes Proofs.Layout Proofs.LayoutInst Proofs.Pipeline Proofs.Regs Proofs.Rules
  Proofs.RulesMain Proofs.C01Main Proofs.C02Main Proofs.Stable Proofs.EncSig Proofs.NoRaw Proofs.Targets Proofs.CompressItem.
Import ListNotations.
Open Scope string_scope.
Open Scope Z_scope.

Definition cond_of (name : string) : bcond :=
  if String.eqb name "beq" then BEQ else if String.eqb name "bne" then BNE else if String.eqb name "blt" then BLT
  else if String.eqb name "bge" then BGE else if String.eqb name "bltu" then BLTU else BGEU.
(* the same transfer instruction, with the pc-relative offset z resp. z' *)
Inductive retarget : instr -> Z -> instr -> Z -> Prop :=
| rt_branch c r1 r2 z z' : retarget (Branch c r1 r2 z) z (Branch c r1 r2 z') z'
| rt_jal rd z z' : retarget (Jal rd z) z (Jal rd z') z'.

Lemma imm_off l p consts lab L z :
  imm_of l p consts lab (FExpr (EOff L)) = Done z -> assoc_str L consts = None ->
  exists LL, assoc_str L lab = Some LL /\ z = LL - p.
Proof.
  intros H Hc. unfold imm_of, eval_here in H. cbn [eeval] in H. unfold chain_get in H. rewrite Hc in H.
  destruct (assoc_str L lab) as [LL|]; cbn [of_pres] in H; inversion H. eauto.
Qed.

Lemma argk_set_other x fs k : String.eqb k "imm" = false -> argk (field_set "imm" x fs) k = argk fs k.
Proof. intro E. unfold argk. rewrite field_get_set_imm, E. reflexivity. Qed.
Lemma argk_set_imm z fs v : field_get "imm" fs = Some v -> argk (field_set "imm" (FInt z) fs) "imm" = AInt z.
Proof. intro E. unfold argk. rewrite field_get_set_imm, E. reflexivity. Qed.

(* ---- the decoders, with the condition named ------------------------------------------------------------------------------------- *)
Lemma branch_decodes' name a b z w :
  In name branch_names -> encode name [a; b; AInt z] [] = Ok w ->
  0 <= w < 2^32 /\ exists r1 r2, regnum a = Some r1 /\ regnum b = Some r2 /\ decode32 w = Some (Branch (cond_of name) r1 r2 z).
Proof.
  intros Hin He.
  assert (Hb : In name base_mnemonics).
  { unfold branch_names in Hin. simpl in Hin.
    repeat (destruct Hin as [<-|Hin]; [vm_compute; tauto|]). contradiction. }
  destruct (decode_encode _ _ _ _ Hb He) as (Hw & ops & i & Ho & Hd & Hdec). split; [exact Hw|].
  unfold branch_names in Hin. simpl in Hin.
  repeat (destruct Hin as [<-|Hin];
    [ unfold operands32 in Ho;
      match type of Ho with context[sassoc ?n kinds32] =>
        let v := eval vm_compute in (sassoc n kinds32) in change (sassoc n kinds32) with v in Ho end;
      cbn [read_ops read_op] in Ho;
      destruct (regnum a) as [r1|]; [|discriminate]; destruct (regnum b) as [r2|]; [|discriminate];
      inversion Ho; subst ops; vm_compute in Hd; inversion Hd; subst i; exists r1, r2; repeat split; exact Hdec | ]).
  contradiction.
Qed.
Lemma jal_decodes' a z w :
  encode "jal" [a; AInt z] [] = Ok w -> 0 <= w < 2^32 /\ exists rd, regnum a = Some rd /\ decode32 w = Some (Jal rd z).
Proof.
  intro He. split; [|apply jal_decodes; exact He].
  assert (Hb : In "jal" base_mnemonics) by (vm_compute; tauto).
  destruct (decode_encode _ _ _ _ Hb He) as (Hw & _). exact Hw.
Qed.
Lemma cb_decodes' name a z h :
  In name ["c.beqz"; "c.bnez"] -> encode name [a; AInt z] [] = Ok h ->
  0 <= h < 2^16 /\ exists ci r1, regnum a = Some r1 /\ decode16 h = Some ci /\
    expand_c ci = Branch (if String.eqb name "c.beqz" then BEQ else BNE) r1 0 z.
Proof.
  intros Hin He.
  assert (Hc : In name c_mnemonics) by (simpl in Hin; repeat (destruct Hin as [<-|Hin]; [vm_compute; tauto|]); contradiction).
  destruct (forward _ _ _ _ Hc He) as (Hh & ops & ci & Ho & _ & Hd & Hdec). split; [exact Hh|].
  simpl in Hin. repeat (destruct Hin as [<-|Hin];
    [ unfold operands16 in Ho;
      match type of Ho with context[sassoc ?n kinds16] =>
        let v := eval vm_compute in (sassoc n kinds16) in change (sassoc n kinds16) with v in Ho end;
      cbn [read_cops read_cop] in Ho; destruct (regnum a) as [r1|]; [|discriminate];
      inversion Ho; subst ops; vm_compute in Hd; inversion Hd; subst ci;
      do 2 eexists; split; [reflexivity | split; [exact Hdec | reflexivity]] | ]). contradiction.
Qed.
Lemma cj_decodes' name z h :
  In name ["c.j"; "c.jal"] -> encode name [AInt z] [] = Ok h ->
  0 <= h < 2^16 /\ exists ci, decode16 h = Some ci /\ expand_c ci = Jal (if String.eqb name "c.j" then 0 else 1) z.
Proof.
  intros Hin He. split; [|eapply cj_decodes; eauto].
  assert (Hc : In name c_mnemonics) by (simpl in Hin; repeat (destruct Hin as [<-|Hin]; [vm_compute; tauto|]); contradiction).
  destruct (forward _ _ _ _ Hc He) as (Hh & _). exact Hh.
Qed.

(* ---- the two transfer classes ------------------------------------------------------------------------------------------------------ *)
Definition is_tr_cls (cls : string) : bool := String.eqb cls "BTypeInstruction" || String.eqb cls "JTypeInstruction".
Lemma tr_class cls name fs :
  instr_okb false cls name fs = true -> is_tr_cls cls = true ->
  is_atomic_cls cls = false /\ String.prefix "C" cls = false /\
  exists keys, shape_okb false keys fs = true /\ imm_once keys = true /\ nodupb keys = true /\ forallb plain_key keys = true /\
    ((cls = "BTypeInstruction" /\ keys = ["rs1"; "rs2"; "imm"] /\ In name branch_names) \/
     (cls = "JTypeInstruction" /\ keys = ["rd"; "imm"] /\ name = "jal")).
Proof.
  intros Hok Hc. unfold is_tr_cls in Hc. apply orb_prop in Hc.
  destruct Hc as [Hc|Hc]; apply String.eqb_eq in Hc; subst cls; unfold instr_okb in Hok;
    match type of Hok with context[assoc_str ?c class_sig] =>
      let v := eval vm_compute in (assoc_str c class_sig) in change (assoc_str c class_sig) with v in Hok end;
    match type of Hok with context[class_keys ?c] =>
      let v := eval vm_compute in (class_keys c) in change (class_keys c) with v in Hok end;
    cbv iota beta in Hok; apply andb_prop in Hok; destruct Hok as [Hok Hs]; apply andb_prop in Hok; destruct Hok as [Hn Hio];
    (split; [reflexivity|]); (split; [reflexivity|]); eexists; (split; [exact Hs|]); (split; [exact Hio|]);
    (split; [reflexivity|]); (split; [reflexivity|]).
  - left. repeat split; auto. apply NoRaw.mem_str_in in Hn. exact Hn.
  - right. repeat split; auto. apply NoRaw.mem_str_in in Hn. simpl in Hn. destruct Hn as [<-|[]]. reflexivity.
Qed.

(* the item in its 32-bit form, in either run *)
Definition tr_dec (cls name : string) (fs : list (string * fval)) (ins : instr) (z : Z) : Prop :=
  (cls = "BTypeInstruction" /\ exists r1 r2, regnum (argk fs "rs1") = Some r1 /\ regnum (argk fs "rs2") = Some r2 /\
                                             ins = Branch (cond_of name) r1 r2 z) \/
  (cls = "JTypeInstruction" /\ exists rd, regnum (argk fs "rd") = Some rd /\ ins = Jal rd z).
Lemma tr_dec_retarget cls name fs i z i' z' : tr_dec cls name fs i z -> tr_dec cls name fs i' z' -> retarget i z i' z'.
Proof.
  intros [[-> (r1 & r2 & A & B & ->)]|[-> (rd & A & ->)]] [[E (r1' & r2' & A' & B' & ->)]|[E (rd' & A' & ->)]]; try discriminate.
  - rewrite A in A'. rewrite B in B'. inversion A'; inversion B'; subst. constructor.
  - rewrite A in A'. inversion A'; subst. constructor.
Qed.

Lemma tr_plain consts l cls name fs L p lab fs' bs :
  instr_okb false cls name fs = true -> is_tr_cls cls = true ->
  field_get "imm" fs = Some (FExpr (EOff L)) -> assoc_str L consts = None ->
  resolved l p consts lab fs fs' -> encode_item l cls name fs' false = Done bs ->
  exists LL w ins, assoc_str L lab = Some LL /\ bs = le_bytes 4 w /\ 0 <= w < 2^32 /\ decode32 w = Some ins /\
                   tr_dec cls name fs ins (LL - p).
Proof.
  intros Hok Hc Himm HL Hr He.
  destruct (tr_class _ _ _ Hok Hc) as (Hat & _ & keys & Hs & Hio & Hnd & Hpl & Hk).
  unfold resolved in Hr. rewrite Himm in Hr. destruct Hr as (z & Hz & ->).
  destruct (imm_off _ _ _ _ _ _ Hz HL) as (LL & HLL & ->).
  unfold encode_item in He. rewrite Hat in He.
  rewrite (args_of_keys true _ keys (shape_post_set _ _ _ Hio Hs) Hnd Hpl) in He.
  destruct Hk as [(-> & -> & Hn)|(-> & -> & ->)]; cbn [map] in He.
  - rewrite !argk_set_other in He by reflexivity. rewrite (argk_set_imm _ _ _ Himm) in He.
    destruct (encode name _ []) as [w|e] eqn:Ew; [|destruct e; try discriminate; destruct conv_instr_ve; discriminate].
    inversion He; subst bs. destruct (branch_decodes' _ _ _ _ _ Hn Ew) as (Hw & r1 & r2 & A & B & D).
    exists LL, w, (Branch (cond_of name) r1 r2 (LL - p)). repeat split; auto; try lia. left. split; [reflexivity|]. eauto 6.
  - rewrite !argk_set_other in He by reflexivity. rewrite (argk_set_imm _ _ _ Himm) in He.
    destruct (encode "jal" _ []) as [w|e] eqn:Ew; [|destruct e; try discriminate; destruct conv_instr_ve; discriminate].
    inversion He; subst bs. destruct (jal_decodes' _ _ _ Ew) as (Hw & rd & A & D).
    exists LL, w, (Jal rd (LL - p)). repeat split; auto; try lia. right. split; [reflexivity|]. eauto.
Qed.

(* the item in its compressed form *)
Definition tr_dec_c (cls name : string) (fs : list (string * fval)) (ins : instr) (z : Z) : Prop :=
  (cls = "BTypeInstruction" /\ exists r1, regnum (argk fs "rs1") = Some r1 /\
     (forall r2, regnum (argk fs "rs2") = Some r2 -> r2 = 0) /\ ins = Branch (cond_of name) r1 0 z) \/
  (cls = "JTypeInstruction" /\ exists rd, (forall r, regnum (argk fs "rd") = Some r -> r = rd) /\ ins = Jal rd z).
Lemma tr_dec_c_retarget cls name fs i z i' z' : tr_dec cls name fs i z -> tr_dec_c cls name fs i' z' -> retarget i z i' z'.
Proof.
  intros [[-> (r1 & r2 & A & B & ->)]|[-> (rd & A & ->)]] [[E (r1' & A' & B' & ->)]|[E (rd' & A' & ->)]]; try discriminate.
  - rewrite A in A'. inversion A'; subst. rewrite (B' _ B). constructor.
  - rewrite (A' _ A). constructor.
Qed.

Ltac compute_in H t := let v := eval vm_compute in t in change t with v in H.

Lemma reg_zero consts l p ls name fs k a :
  field_get k fs = Some (FReg a) -> is_regfield k = true ->
  forall n, nreg (nview_of (view_of l p consts ls name fs)) k = n -> forall r, regnum (argk fs k) = Some r -> r = n.
Proof.
  intros Hk Hr n Hn r Hreg. unfold argk in Hreg. rewrite Hk in Hreg. cbn [argv arg_of_fval] in Hreg.
  rewrite nreg_of in Hn by exact Hr. rewrite (reg_of_reg consts l p ls name fs k a Hk) in Hn.
  apply lookup_register_spec in Hreg. rewrite Hreg in Hn. congruence.
Qed.

Lemma tr_comp consts l p ls cls name fs L r itC :
  instr_okb false cls name fs = true -> is_tr_cls cls = true ->
  field_get "imm" fs = Some (FExpr (EOff L)) -> assoc_str L consts = None ->
  select_rule criteria (view_of l p consts ls name fs) = Ok (Some r) -> build_compressed r fs = Some itC ->
  exists cls' final nfs, itC = IInstr cls' final nfs true /\ back_of nfs = 0 /\
    forall pC labC nfsC bsC, resolved l pC consts labC nfs nfsC -> encode_item l cls' final nfsC true = Done bsC ->
      exists LL h ci, assoc_str L labC = Some LL /\ bsC = le_bytes 2 h /\ 0 <= h < 2^16 /\ decode16 h = Some ci /\
                      tr_dec_c cls name fs (expand_c ci) (LL - pC).
Proof.
  intros Hok Hc Himm HL Hsel Hb.
  destruct (tr_class _ _ _ Hok Hc) as (_ & _ & keys & Hs & _ & _ & _ & Hk).
  apply select_link in Hsel. set (v := nview_of (view_of l p consts ls name fs)) in *.
  assert (Hname : nv_name v = name) by reflexivity.
  unfold criteria in Hsel. cbn [select_num all_num forallb pred_num andb fst snd] in Hsel. rewrite Hname in Hsel.
  destruct Hk as [(-> & -> & Hn)|(-> & -> & ->)].
  - (* branches *)
    destruct (shape_get_reg _ _ "rs1" Hs ltac:(simpl; tauto) eq_refl eq_refl eq_refl) as [a1 Ha1]. fold (field_get "rs1" fs) in Ha1.
    destruct (shape_get_reg _ _ "rs2" Hs ltac:(simpl; tauto) eq_refl eq_refl eq_refl) as [a2 Ha2]. fold (field_get "rs2" fs) in Ha2.
    unfold branch_names in Hn. simpl in Hn.
    repeat (destruct Hn as [<-|Hn]; [cbn [String.eqb Ascii.eqb Bool.eqb andb] in Hsel; try discriminate Hsel|]); try contradiction.
    + (* beq -> c.beqz *)
      match type of Hsel with (if ?c then _ else _) = _ => destruct c eqn:Ec; [|discriminate] end. inversion Hsel; subst r. clear Hsel.
      apply andb_prop in Ec. destruct Ec as [_ Ec]. apply andb_prop in Ec. destruct Ec as [E2 _]. apply Z.eqb_eq in E2.
      unfold build_compressed in Hb. compute_in Hb (assoc_str "c.beqz" construction). cbv iota beta in Hb.
      compute_in Hb (assoc_str "CBTypeInstruction" class_fields). cbv iota beta in Hb.
      cbn [zip_fields map build_field] in Hb. rewrite Ha1, Himm in Hb. inversion Hb; subst itC. clear Hb.
      do 3 eexists. split; [reflexivity|]. split; [reflexivity|]. intros pC labC nfsC bsC Hr He.
      unfold resolved in Hr. change (field_get "imm" [("rs1", FReg a1); ("imm", FExpr (EOff L))]) with (Some (FExpr (EOff L))) in Hr.
      destruct Hr as (z & Hz & ->). destruct (imm_off _ _ _ _ _ _ Hz HL) as (LL & HLL & ->).
      unfold encode_item in He. change (is_atomic_cls "CBTypeInstruction") with false in He. cbv iota in He.
      change (args_of (field_set "imm" (FInt (LL - pC)) [("rs1", FReg a1); ("imm", FExpr (EOff L))])) with [a1; AInt (LL - pC)] in He.
      destruct (encode "c.beqz" _ []) as [h|e] eqn:Eh; [|destruct e; try discriminate; destruct conv_instr_ve; discriminate].
      inversion He; subst bsC.
      destruct (cb_decodes' "c.beqz" _ _ _ ltac:(simpl; tauto) Eh) as (Hh & ci & r1 & A & D & X).
      exists LL, h, ci. repeat split; auto; try lia. left. split; [reflexivity|]. exists r1.
      split. { unfold argk. rewrite Ha1. exact A. }
      split. { intros r2 Hr2. exact (reg_zero consts l p ls "beq" fs "rs2" a2 Ha2 eq_refl 0 E2 r2 Hr2). }
      exact X.
    + (* bne -> c.bnez *)
      match type of Hsel with (if ?c then _ else _) = _ => destruct c eqn:Ec; [|discriminate] end. inversion Hsel; subst r. clear Hsel.
      apply andb_prop in Ec. destruct Ec as [_ Ec]. apply andb_prop in Ec. destruct Ec as [E2 _]. apply Z.eqb_eq in E2.
      unfold build_compressed in Hb. compute_in Hb (assoc_str "c.bnez" construction). cbv iota beta in Hb.
      compute_in Hb (assoc_str "CBTypeInstruction" class_fields). cbv iota beta in Hb.
      cbn [zip_fields map build_field] in Hb. rewrite Ha1, Himm in Hb. inversion Hb; subst itC. clear Hb.
      do 3 eexists. split; [reflexivity|]. split; [reflexivity|]. intros pC labC nfsC bsC Hr He.
      unfold resolved in Hr. change (field_get "imm" [("rs1", FReg a1); ("imm", FExpr (EOff L))]) with (Some (FExpr (EOff L))) in Hr.
      destruct Hr as (z & Hz & ->). destruct (imm_off _ _ _ _ _ _ Hz HL) as (LL & HLL & ->).
      unfold encode_item in He. change (is_atomic_cls "CBTypeInstruction") with false in He. cbv iota in He.
      change (args_of (field_set "imm" (FInt (LL - pC)) [("rs1", FReg a1); ("imm", FExpr (EOff L))])) with [a1; AInt (LL - pC)] in He.
      destruct (encode "c.bnez" _ []) as [h|e] eqn:Eh; [|destruct e; try discriminate; destruct conv_instr_ve; discriminate].
      inversion He; subst bsC.
      destruct (cb_decodes' "c.bnez" _ _ _ ltac:(simpl; tauto) Eh) as (Hh & ci & r1 & A & D & X).
      exists LL, h, ci. repeat split; auto; try lia. left. split; [reflexivity|]. exists r1.
      split. { unfold argk. rewrite Ha1. exact A. }
      split. { intros r2 Hr2. exact (reg_zero consts l p ls "bne" fs "rs2" a2 Ha2 eq_refl 0 E2 r2 Hr2). }
      exact X.
  - (* jal -> c.jal / c.j *)
    destruct (shape_get_reg _ _ "rd" Hs ltac:(simpl; tauto) eq_refl eq_refl eq_refl) as [a1 Ha1]. fold (field_get "rd" fs) in Ha1.
    cbn [String.eqb Ascii.eqb Bool.eqb andb] in Hsel.
    assert (G : forall final rdv, In final ["c.j"; "c.jal"] -> nreg v "rd" = rdv -> rdv = (if String.eqb final "c.j" then 0 else 1) ->
                build_compressed final fs = Some itC ->
                exists cls' final' nfs, itC = IInstr cls' final' nfs true /\ back_of nfs = 0 /\
                  forall pC labC nfsC bsC, resolved l pC consts labC nfs nfsC -> encode_item l cls' final' nfsC true = Done bsC ->
                  exists LL h ci, assoc_str L labC = Some LL /\ bsC = le_bytes 2 h /\ 0 <= h < 2^16 /\ decode16 h = Some ci /\
                                  tr_dec_c "JTypeInstruction" "jal" fs (expand_c ci) (LL - pC)).
    { intros final rdv Hf Erd Ev Hb'. unfold build_compressed in Hb'.
      assert (Hcon : assoc_str final construction = Some (final, "CJTypeInstruction", [FItem "imm"])).
      { simpl in Hf. destruct Hf as [<-|[<-|[]]]; vm_compute; reflexivity. }
      rewrite Hcon in Hb'. compute_in Hb' (assoc_str "CJTypeInstruction" class_fields). cbv iota beta in Hb'.
      cbn [zip_fields map build_field] in Hb'. rewrite Himm in Hb'. inversion Hb'; subst itC. clear Hb'.
      do 3 eexists. split; [reflexivity|]. split; [reflexivity|]. intros pC labC nfsC bsC Hr He.
      unfold resolved in Hr. change (field_get "imm" [("imm", FExpr (EOff L))]) with (Some (FExpr (EOff L))) in Hr.
      destruct Hr as (z & Hz & ->). destruct (imm_off _ _ _ _ _ _ Hz HL) as (LL & HLL & ->).
      unfold encode_item in He. change (is_atomic_cls "CJTypeInstruction") with false in He. cbv iota in He.
      change (args_of (field_set "imm" (FInt (LL - pC)) [("imm", FExpr (EOff L))])) with [AInt (LL - pC)] in He.
      destruct (encode final _ []) as [h|e] eqn:Eh; [|destruct e; try discriminate; destruct conv_instr_ve; discriminate].
      inversion He; subst bsC.
      destruct (cj_decodes' final _ _ Hf Eh) as (Hh & ci & D & X).
      exists LL, h, ci. repeat split; auto; try lia. right. split; [reflexivity|]. exists rdv.
      split. { intros r0 Hr0. exact (reg_zero consts l p ls "jal" fs "rd" a1 Ha1 eq_refl rdv Erd r0 Hr0). }
      rewrite X, Ev. reflexivity. }
    match type of Hsel with (if ?c then _ else _) = _ => destruct c eqn:Ec end.
    + inversion Hsel; subst r. apply andb_prop in Ec. destruct Ec as [E1 _]. apply Z.eqb_eq in E1.
      eapply (G "c.jal" 1); auto. simpl; tauto.
    + match type of Hsel with (if ?c then _ else _) = _ => destruct c eqn:Ec' end; [|discriminate].
      inversion Hsel; subst r. apply andb_prop in Ec'. destruct Ec' as [E1 _]. apply Z.eqb_eq in E1.
      eapply (G "c.j" 0); auto. simpl; tauto.
Qed.

(* THE ITEM THEOREM FOR TRANSFERS.  A well-formed branch / jal item whose immediate is %offset(L), L not a constant, whatever the
   compression pass (at any position, with any label table) made of it (itC: the item itself or c.beqz / c.bnez / c.j / c.jal):
   the uncompressed run emits the 4 bytes of a word wU, decode32 wU = insU; the compressed run emits either the 4 bytes of a word
   or the 2 bytes of a legal halfword, decoding / expanding to insC; insU and insC are the SAME transfer instruction (condition,
   registers) with the offsets LU - pU and LC - pC: each run jumps from its own offset to its own value of L. *)
Theorem transfer_pair consts l cls name fs c L p ls itC pU labU fsU bsU :
  instr_okb false cls name fs = true -> c = String.prefix "C" cls -> is_tr_cls cls = true ->
  field_get "imm" fs = Some (FExpr (EOff L)) -> assoc_str L consts = None -> back_of fs = 0 ->
  compress_rule consts l (IInstr cls name fs c) p ls = Done [itC] ->
  resolved l pU consts labU fs fsU -> encode_item l cls name fsU c = Done bsU ->
  exists LU wU insU, assoc_str L labU = Some LU /\ bsU = le_bytes 4 wU /\ 0 <= wU < 2^32 /\ decode32 wU = Some insU /\
    exists cls' name' fs' c', itC = IInstr cls' name' fs' c' /\ back_of fs' = 0 /\
      forall pC labC fsC bsC, resolved l pC consts labC fs' fsC -> encode_item l cls' name' fsC c' = Done bsC ->
        exists LC insC, assoc_str L labC = Some LC /\ retarget insU (LU - pU) insC (LC - pC) /\
          ((c' = false /\ exists wC, bsC = le_bytes 4 wC /\ 0 <= wC < 2^32 /\ decode32 wC = Some insC) \/
           (c' = true /\ exists h ci, bsC = le_bytes 2 h /\ 0 <= h < 2^16 /\ decode16 h = Some ci /\ expand_c ci = insC)).
Proof.
  intros Hok Hcf Hc Himm HL Hbk Hcr HrU HeU.
  destruct (tr_class _ _ _ Hok Hc) as (_ & Hpc & _). rewrite Hpc in Hcf. subst c.
  destruct (tr_plain _ _ _ _ _ _ _ _ _ _ Hok Hc Himm HL HrU HeU) as (LU & wU & insU & HLU & -> & HwU & DU & TU).
  exists LU, wU, insU. repeat split; auto; try lia.
  destruct (compress_rule_inv _ _ _ _ _ _ _ _ _ Hcr) as [Q|(r & y & Hu & Hsel & Hb & Q)]; inversion Q; subst itC; clear Q.
  - exists cls, name, fs, false. split; [reflexivity|]. split; [exact Hbk|]. intros pC labC fsC bsC HrC HeC.
    destruct (tr_plain _ _ _ _ _ _ _ _ _ _ Hok Hc Himm HL HrC HeC) as (LC & wC & insC & HLC & -> & HwC & DC & TC).
    exists LC, insC. split; [exact HLC|]. split; [eapply tr_dec_retarget; eauto|]. left. split; [reflexivity|]. exists wC. repeat split; auto; lia.
  - destruct (tr_comp _ _ _ _ _ _ _ _ _ _ Hok Hc Himm HL Hsel Hb) as (cls' & final & nfs & -> & Hbk' & Hp).
    exists cls', final, nfs, true. split; [reflexivity|]. split; [exact Hbk'|]. intros pC labC fsC bsC HrC HeC.
    destruct (Hp _ _ _ _ HrC HeC) as (LC & h & ci & HLC & -> & Hh & D & TC).
    exists LC, (expand_c ci). split; [exact HLC|]. split; [eapply tr_dec_c_retarget; eauto|]. right. split; [reflexivity|].
    exists h, ci. repeat split; auto; lia.
Qed.
